import LhasaV.Lemmas.ExtractTreeImp4
/-!
# C06 with implicit parents (part 5): the loop and the tree theorems

`loop_final_i`: from the invariant to the final state (the reader's side is that of
ExtractTree12: close the innermost open directory entry, or extract the pending entry).

* **`run_tree_mixed`**: `lha x archive` on an archive that denotes a list `es` in the order `WFI`
  (explicit directory entries, members whose parents are implicit, late directory entries),
  into an empty directory: success, and below the extraction directory exactly
  `impTreeOf (keptOf [] es)` — late directory entries have no effect.
* **`run_tree_implicit`**: the case without directory entries (`ImplicitOk`: files and safe links,
  any order, no path a prefix of another), with the tree spelled out (`impTree_spelled`).
-/
namespace LhasaV.ExtractTree
open LhasaV LhasaV.Header LhasaV.Extract LhasaV.GlobFs LhasaV.Contain
open Reader

/-- the end of a successful run: every entry in its final form, no directory entry open -/
structure FinalI (fs0 : Fs.St) (all : List Entry) (s : Extract.St) : Prop where
  aborted : s.aborted = false
  result : s.result = true
  fs : FsInvI fs0 all [] s.fs

theorem bodyF_nofilter (s : Extract.St) (rd' : Reader.St) (h : Hdr) (hf : s.opts.filters = []) :
    bodyF s rd' h = extractArchivedFile { s with rd := rd' } h := by
  unfold bodyF; rw [matches_nofilter s.opts h hf]; rfl

/-- **the loop**: from the invariant to the final state -/
theorem loop_final_i (fs0 : Fs.St) (ha : AccessW fs0) :
    ∀ (fuel : Nat) (s : Extract.St) (done stk rest : List Entry),
      2 * rest.length + stk.length + 1 ≤ fuel → LoopInvI fs0 done stk rest s →
      DenotesF fuel s rest →
      FinalI fs0 (done ++ keptOf (done.map Entry.path) rest) (extractLoop fuel s) := by
  intro fuel
  induction fuel with
  | zero => intro s done stk rest hf; omega
  | succ n ih =>
    intro s done stk rest hf hi hden
    obtain ⟨oc, rd', hn, hpend, hcont⟩ := hden hi.core.aborted
    rw [extractLoop_step_g n s oc rd' hi.core.aborted hn]
    have hne : s.rd.currType ≠ .eof := by
      rcases hi.rd.ty with h | h | h <;> rw [h] <;> simp
    obtain ⟨u, hrd', hoc, hupol, hudef, hustk, hubc⟩ := next_pol hn hne
    rw [hi.rd.policy] at hupol
    rw [hi.rd.deferred] at hudef
    have hbasic : rd'.basic = u.basic := by rw [hrd']; exact tail_basic u
    have hp : Pending u.basic.curr rest := by
      by_cases ht : s.rd.currType = .start ∨ s.rd.currType = .normal
      · rw [← hbasic]; exact hpend ht
      · rw [hubc ht]
        apply hi.rd.pending
        rcases hi.rd.ty with h | h | h
        · exact absurd (Or.inl h) ht
        · exact absurd (Or.inr h) ht
        · exact h
    have hbody : ∀ h : Hdr, bodyF s rd' h = extractArchivedFile { s with rd := rd' } h :=
      fun h => bodyF_nofilter s rd' h hi.core.opts.nf
    have go_close : ∀ (d : Entry) (stk' : List Entry) (top : HObj) (rs : List HObj),
        stk = d :: stk' → u.dirStack = top :: rs → HdrOf d top.h → StackRel rs stk' →
        endOfTopDir u = true → (∀ e tl, rest = e :: tl → ¬ d.path <+: e.dirPart) →
        FinalI fs0 (done ++ keptOf (done.map Entry.path) rest) (loopContG n s oc rd') := by
      intro d stk' top rs hs hds hh hsr he hout
      subst hs
      have hR := pop_fake u top rs hds he
      rw [← hrd'] at hR
      have hoc' : oc = some top := by rw [hoc, hR]
      subst hoc'
      show FinalI fs0 _ (extractLoop n (bodyF s rd' top.h))
      have hstep := step_close_i { s with rd := rd' } top (hi.core.with_rd rd') ha
        (by rw [hR]; exact hupol) (by rw [hR]; exact hudef) (by rw [hR]) (by rw [hR])
        hh (by rw [hR]; exact hsr) (by rw [hbasic]; exact hp)
        hout
      have hd2 := (hcont top rfl).2
      rw [show rd'.currType = .fakeDir by rw [hR]] at hd2
      simp only [reduceCtorEq, if_false] at hd2
      rw [hbody] at hd2 ⊢
      exact ih _ done stk' rest (by simp at hf; omega) hstep hd2
    have go_new : ∀ (e : Entry) (tl : List Entry) (inp : HObj),
        rest = e :: tl → u.basic.curr = some inp → HdrOf e inp.h →
        endOfTopDir u = false → (∀ d tl', stk = d :: tl' → d.path <+: e.dirPart) →
        FinalI fs0 (done ++ keptOf (done.map Entry.path) rest) (loopContG n s oc rd') := by
      intro e tl inp hr hb hh he hin
      subst hr
      have hR := pop_normal u he inp hb
      rw [← hrd'] at hR
      have hoc' : oc = some inp := by rw [hoc, hR]
      subst hoc'
      show FinalI fs0 _ (extractLoop n (bodyF s rd' inp.h))
      have hty' : rd'.currType = .normal := by rw [hR]
      obtain ⟨hdec, hd2⟩ := hcont inp rfl
      rw [hty'] at hd2
      simp only [if_true, List.tail_cons] at hd2
      rw [hbody] at hd2 ⊢
      cases hlate : lateDir (done.map Entry.path) e with
      | true =>
        have hstep := step_late_i { s with rd := rd' } inp (hi.core.with_rd rd') ha
          (by rw [hR]; exact hupol) (by rw [hR]; exact hudef)
          (by rw [hR]; show StackRel u.dirStack stk; rw [hustk]; exact hi.rd.stack)
          hty' (by rw [hR]) hh hin hlate
        have := ih _ done stk tl (by simp only [List.length_cons] at hf; omega) hstep hd2
        simpa [keptOf, hlate] using this
      | false =>
        have hstep := step_new_i { s with rd := rd' } inp (hi.core.with_rd rd') ha
          (by rw [hR]; exact hupol) (by rw [hR]; exact hudef)
          (by rw [hR]; show StackRel u.dirStack stk; rw [hustk]; exact hi.rd.stack)
          hty' (by rw [hR]) hh hin hlate
          (fun p data perms mtime hfile => hdec hty' p data perms mtime tl (by rw [hfile]))
        have := ih _ (done ++ [e]) _ tl (by
          simp only [List.length_cons] at hf
          cases e.isDir <;> simp <;> omega) hstep hd2
        simpa [keptOf, hlate] using this
    cases hstk : stk with
    | cons d stk' =>
      have hsr := hi.rd.stack
      rw [hstk] at hsr
      obtain ⟨top, rs, hds, hh, hsr'⟩ := stackRel_cons hsr
      rw [← hustk] at hds
      obtain ⟨hdd, hdir⟩ := hi.core.ok.sub d (by rw [hstk]; simp)
      have hkd : EntryOk d := hi.core.ok.ok d hdd
      cases hrest : rest with
      | nil =>
        rw [hrest] at hp
        exact hrest ▸ go_close d stk' top rs hstk hds hh hsr' (endOfTopDir_none u top rs hds hp)
          (fun e tl h => by rw [hrest] at h; cases h)
      | cons e tl =>
        rw [hrest] at hp
        obtain ⟨inp, hb, hhe⟩ := hp
        have hke : EntryOk e := by
          have := hi.core.wf
          rw [hrest] at this
          exact this.1
        have hiff := (endOfTopDir_some u hupol top rs hds inp hb).trans
          (outside_iff hhe hh hke hkd hdir)
        by_cases hout : d.path <+: e.dirPart
        · have he : endOfTopDir u = false := by
            cases h : endOfTopDir u with
            | false => rfl
            | true => exact absurd hout (hiff.1 h)
          exact hrest ▸ go_new e tl inp hrest hb hhe he (fun d' tl' h => by
            rw [hstk] at h; cases h; exact hout)
        · exact hrest ▸ go_close d stk' top rs hstk hds hh hsr' (hiff.2 hout)
            (fun e' tl' h => by rw [hrest] at h; cases h; exact hout)
    | nil =>
      have hsr := hi.rd.stack
      rw [hstk] at hsr
      have hds : u.dirStack = [] := by rw [hustk]; exact stackRel_nil hsr
      have he := endOfTopDir_nil u hds
      cases hrest : rest with
      | cons e tl =>
        rw [hrest] at hp
        obtain ⟨inp, hb, hhe⟩ := hp
        exact hrest ▸ go_new e tl inp hrest hb hhe he (fun d' tl' h => by rw [hstk] at h; cases h)
      | nil =>
        rw [hrest] at hp
        have hR := pop_eof u he hp hudef
        rw [← hrd'] at hR
        have hoc' : oc = none := by rw [hoc, hR]
        subst hoc'
        simp only [keptOf, List.append_nil]
        have hfs := hi.core.fs
        rw [hstk] at hfs
        exact ⟨hi.core.aborted, hi.core.result, hfs⟩

theorem fsInvI_start (fs0 : Fs.St) (h : EmptyDir fs0) : FsInvI fs0 [] [] fs0 := by
  refine ⟨SameParams.refl fs0, fun e he => (by cases he), ?_, fun p hp _ => h.empty p hp, ?_,
    fun _ _ => rfl⟩
  · intro p _ hex
    obtain ⟨e, he, _⟩ := hex
    cases he
  · obtain ⟨m, t, hl, ha⟩ := h.dir
    exact ⟨m, t, hl, ha, fun h => absurd rfl h, t, hl⟩

theorem loopInvI_start (s : Extract.St) (es : List Entry) (hs : Start s) (hfs : EmptyDir s.fs)
    (hwf : WFI [] [] es) : LoopInvI s.fs [] [] es s := by
  refine ⟨⟨hs.aborted, hs.result, hs.opts, fsInvI_start s.fs hfs, ?_, hwf⟩, ?_⟩
  · exact ⟨fun e he => (by cases he), List.nodup_nil, fun d hd => (by cases hd),
      fun d hd => (by cases hd), List.Pairwise.nil⟩
  · refine ⟨hs.policy, hs.deferred, by rw [hs.stack]; trivial, Or.inl hs.ty, ?_⟩
    intro h
    rw [hs.ty] at h
    cases h

theorem keptOf_ne_nil (es : List Entry) (h : es ≠ []) : keptOf [] es ≠ [] := by
  cases es with
  | nil => exact absurd rfl h
  | cons e es => simp [keptOf, lateDir]

/-- **C06 for mixed archives.**  `s` is the start state of `lha x` (no `w=`, no `i`, no wildcard
arguments) in an empty extraction directory that the user — root, or anyone whose umask keeps the
owner bits — may write; the archive behind the reader denotes the entry list `es`, which is in
the order `WFI` (an explicit directory entry is followed contiguously by its contents; any other
parent is implicit; a directory entry that arrives after something below it is LATE).  Then the
run succeeds; below the extraction directory the file system is exactly `impTreeOf` of the
entries that are not late — every such entry as recorded, every other directory above an entry
(the late ones included: their recorded metadata is ignored) with mode 0755 under the umask and
the time of the run; the extraction directory keeps its mode and carries the time `now`; nothing
outside it has changed. -/
theorem extract_tree_mixed (fuel : Nat) (s : Extract.St) (es : List Entry)
    (hs : Start s) (hfs : EmptyDir s.fs) (ha : Access s.fs) (hwf : WFI [] [] es)
    (hfuel : 2 * es.length + 1 ≤ fuel) (hden : DenotesF fuel s es) :
    (extractLoop fuel s).result = true ∧ (extractLoop fuel s).aborted = false ∧
    (∀ p, p ≠ [] → Fs.lookup (extractLoop fuel s).fs (s.fs.cwd ++ p) =
      impTreeOf s.fs.now s.fs.umask (keptOf [] es) p) ∧
    (∃ m t0 t, Fs.lookup s.fs s.fs.cwd = some (.dir m t0) ∧
      Fs.lookup (extractLoop fuel s).fs s.fs.cwd = some (.dir m t) ∧
      (es ≠ [] → s.fs.cwd ≠ [] → t = s.fs.now)) ∧
    (∀ x, ¬ s.fs.cwd <+: x → Fs.lookup (extractLoop fuel s).fs x = Fs.lookup s.fs x) := by
  have hF : FinalI s.fs (keptOf [] es) (extractLoop fuel s) := by
    have := loop_final_i s.fs (accessW_of_access ha) fuel s [] [] es (by simpa using hfuel)
      (loopInvI_start s es hs hfs hwf) hden
    simpa using this
  refine ⟨hF.result, hF.aborted, ?_, ?_, hF.fs.outside⟩
  · intro p hp
    generalize keptOf [] es = ks at hF
    unfold impTreeOf treeOf
    cases hf : ks.find? (fun e => e.path == p) with
    | some e =>
      have hm := List.mem_of_find?_eq_some hf
      have hpe : e.path = p := by simpa using List.find?_some hf
      have := hF.fs.ents e hm
      rw [if_neg (by simp), hpe] at this
      rw [this]; rfl
    | none =>
      rw [List.find?_eq_none] at hf
      have hno : ∀ e ∈ ks, e.path ≠ p := fun e he h => hf e he (by simp [h])
      by_cases hany : ∃ e ∈ ks, p <+: e.path
      · have : ks.any (fun e => decide (p <+: e.path)) = true := by
          obtain ⟨e, he, hpe⟩ := hany
          exact List.any_eq_true.2 ⟨e, he, by simpa using hpe⟩
        rw [hF.fs.imp p hp hany hno]; simp [this]
      · have : ks.any (fun e => decide (p <+: e.path)) = false := by
          rw [List.any_eq_false]; intro e he; simpa using fun h => hany ⟨e, he, h⟩
        rw [hF.fs.none p hp (fun e he h => hany ⟨e, he, h⟩)]; simp [this]
  · obtain ⟨m, t, hl, _, ht, t0, hl0⟩ := hF.fs.cwd
    exact ⟨m, t0, t, hl0, hl, fun h => ht (keptOf_ne_nil es h)⟩

/-- **C06 for `lha x archive`, mixed archives**: `Extract.run` on an archive that denotes `es` -/
theorem run_tree_mixed (archive : Array UInt8) (o : Opts) (fs : Fs.St) (answers : Bytes) (es : List Entry)
    (ho : OptsOk o) (hfs : EmptyDir fs) (ha : Access fs) (hwf : WFI [] [] es)
    (hfuel : 2 * es.length + 1 ≤ runFuel archive)
    (hden : DenotesF (runFuel archive) (runInit archive o fs answers) es) :
    (run archive o fs answers).result = true ∧
    (∀ p, p ≠ [] → Fs.lookup (run archive o fs answers).fs (fs.cwd ++ p) =
      impTreeOf fs.now fs.umask (keptOf [] es) p) ∧
    (∃ m t0 t, Fs.lookup fs fs.cwd = some (.dir m t0) ∧
      Fs.lookup (run archive o fs answers).fs fs.cwd = some (.dir m t) ∧
      (es ≠ [] → fs.cwd ≠ [] → t = fs.now)) ∧
    (∀ x, ¬ fs.cwd <+: x → Fs.lookup (run archive o fs answers).fs x = Fs.lookup fs x) := by
  rw [run_eq]
  have := extract_tree_mixed (runFuel archive) (runInit archive o fs answers) es
    (start_run archive o fs answers ho) hfs ha hwf hfuel hden
  exact ⟨this.1, this.2.2.1, this.2.2.2.1, this.2.2.2.2⟩

/-! ## archives without directory entries -/

theorem free_mem {l : List Fs.Path} (h : l.Pairwise (fun a b => ¬ a <+: b ∧ ¬ b <+: a))
    {a b : Fs.Path} (ha : a ∈ l) (hb : b ∈ l) (hab : a <+: b) : a = b := by
  induction l with
  | nil => cases ha
  | cons x l ih =>
    obtain ⟨h1, h2⟩ := List.pairwise_cons.1 h
    rcases List.mem_cons.1 ha with rfl | ha'
    · rcases List.mem_cons.1 hb with rfl | hb'
      · rfl
      · exact absurd hab (h1 b hb').1
    · rcases List.mem_cons.1 hb with rfl | hb'
      · exact absurd hab (h1 a ha').2
      · exact ih h2 ha' hb'

/-- **the tree of an archive without directory entries, spelled out**: every entry at its path
as `treeOf` gives it; every non-empty PROPER prefix of an entry path a directory with mode
`0o755 - (0o755 &&& umask)` and time `now`; nothing anywhere else -/
theorem impTree_spelled (now umask : Nat) (es : List Entry) (h : ImplicitOk es) :
    (∀ e ∈ es, impTreeOf now umask es e.path = some (e.final now umask) ∧
      treeOf now umask es e.path = some (e.final now umask)) ∧
    (∀ p e, e ∈ es → p ≠ [] → p <+: e.path → p ≠ e.path →
      impTreeOf now umask es p = some (.dir (0o755 - (0o755 &&& umask)) now)) ∧
    (∀ p, (∀ e ∈ es, ¬ p <+: e.path) → impTreeOf now umask es p = none) := by
  have hnd : (es.map Entry.path).Nodup := by
    unfold List.Nodup
    exact h.free.imp (fun {a b} hab e => hab.1 (by rw [e]; exact List.prefix_refl _))
  refine ⟨?_, ?_, fun p hp => impTreeOf_none now umask es p hp⟩
  · intro e he
    have h1 := impTreeOf_entry now umask es e he hnd
    refine ⟨h1, ?_⟩
    unfold impTreeOf at h1
    cases ht : treeOf now umask es e.path with
    | some x => rw [ht] at h1; exact h1
    | none =>
      exfalso
      unfold treeOf at ht
      cases hf : es.find? (fun x => x.path == e.path) with
      | none => rw [List.find?_eq_none] at hf; exact absurd (by simp) (hf e he)
      | some x => rw [hf] at ht; cases ht
  · intro p e he _ hp hne
    apply impTreeOf_parent now umask es p e he hp
    intro x hx hxp
    have := free_mem h.free (List.mem_map.2 ⟨x, hx, rfl⟩) (List.mem_map.2 ⟨e, he, rfl⟩) (hxp ▸ hp)
    exact hne (hxp ▸ this)

/-- **Extraction of an archive WITHOUT directory entries** (LHA for DOS, LHarc): files and safe
links only, in any order, unique clean paths of depth < 64, no path a proper prefix of another
(`ImplicitOk`).  `lha x archive` into an empty directory, as root or as an ordinary user whose
umask keeps the owner bits, succeeds, and below the extraction directory the tree is exactly:
every file / link as archived (`treeOf`), PLUS every proper non-empty prefix of an entry path as a
directory with mode `0o755 - (0o755 &&& umask)` and the time of the run (`impTree_spelled`);
nothing else.  The extraction directory keeps its mode and is stamped `now`; nothing outside it
changes. -/
theorem run_tree_implicit (archive : Array UInt8) (o : Opts) (fs : Fs.St) (answers : Bytes) (es : List Entry)
    (ho : OptsOk o) (hfs : EmptyDir fs) (ha : Access fs) (hes : ImplicitOk es)
    (hfuel : 2 * es.length + 1 ≤ runFuel archive)
    (hden : DenotesF (runFuel archive) (runInit archive o fs answers) es) :
    (run archive o fs answers).result = true ∧
    (∀ p, p ≠ [] → Fs.lookup (run archive o fs answers).fs (fs.cwd ++ p) = impTreeOf fs.now fs.umask es p) ∧
    (∃ m t0 t, Fs.lookup fs fs.cwd = some (.dir m t0) ∧
      Fs.lookup (run archive o fs answers).fs fs.cwd = some (.dir m t) ∧
      (es ≠ [] → fs.cwd ≠ [] → t = fs.now)) ∧
    (∀ x, ¬ fs.cwd <+: x → Fs.lookup (run archive o fs answers).fs x = Fs.lookup fs x) := by
  have := run_tree_mixed archive o fs answers es ho hfs ha (wfi_of_implicit hes) hfuel hden
  rwa [keptOf_nodir es [] hes.nodir] at this

/-- the same from `Denotes` (ExtractTree12; with no wildcard arguments it gives `DenotesF`) -/
theorem run_tree_implicit_d (archive : Array UInt8) (o : Opts) (fs : Fs.St) (answers : Bytes) (es : List Entry)
    (ho : OptsOk o) (hfs : EmptyDir fs) (ha : Access fs) (hes : ImplicitOk es)
    (hfuel : 2 * es.length + 1 ≤ runFuel archive)
    (hden : Denotes (runFuel archive) (runInit archive o fs answers) es) :
    (run archive o fs answers).result = true ∧
    (∀ p, p ≠ [] → Fs.lookup (run archive o fs answers).fs (fs.cwd ++ p) = impTreeOf fs.now fs.umask es p) ∧
    (∃ m t0 t, Fs.lookup fs fs.cwd = some (.dir m t0) ∧
      Fs.lookup (run archive o fs answers).fs fs.cwd = some (.dir m t) ∧
      (es ≠ [] → fs.cwd ≠ [] → t = fs.now)) ∧
    (∀ x, ¬ fs.cwd <+: x → Fs.lookup (run archive o fs answers).fs x = Fs.lookup fs x) :=
  run_tree_implicit archive o fs answers es ho hfs ha hes hfuel
    (denotesF_of_denotes _ _ es ho.nf hden)

end LhasaV.ExtractTree
