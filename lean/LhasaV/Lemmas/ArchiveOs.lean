import LhasaV.Lemmas.ArchiveOs9
/-!
# C06, end to end for the remaining header forms: LHark (`-lk7-`) and level-0 headers

`ArchiveOf.extract_archiveWith` / `ArchivePack.extract_archive_all_methods` cover level-1/2 headers
with OS type 'U'.  Two forms were out of reach of that builder and are closed here:

1. **`-lk7-`** (`ArchivePack.lk7_no_packer`): LHark writes `-lh7-` in a level-1 header with OS type
   ' ' and the header parser renames the method.  `archiveWithOs os pk` is the builder with an
   OS-type parameter, `hdrOs` the header as PRESENTED; `extract_archive_lk7` is the end-to-end
   theorem for `lk7Lit` (LHark's format by `Spec.LhNewEnc.serialise lk7`, C01 round trip for the
   `lk7` parameter set).  OS type ' ' is MS-DOS like: `fix_msdos_allcaps` folds a name without
   lower-case letters to lower case, hence the (decidable, necessary) hypothesis `CaseStable`.
   The time stamp travels in the Unix-time extended header as in `ArchiveOf` (level 1); the
   MS-DOS stamp of the base header is zero.
2. **level-0 headers**: `archive0 pk` writes LHarc-style headers with the Unix extended area
   (exact Unix time, permissions always recorded, links as `name|target`);
   `extract_archive_level0` for trees with `Encodable0`.  `archive0Dos pk` writes the plain
   LHarc/LArc header — an MS-DOS stamp and nothing else — `extract_archive_level0_dos` for trees
   with `Encodable0Dos` (no permissions, no links, case-stable names, times an MS-DOS stamp can
   carry: `ArchiveOs8.dosTime_inverse`, the inverse of `Header.dosTimeUTC` on the even seconds
   from 1980-01-01).

All are instances of `extract_archiveS` for member *schemes* (ArchiveOs1/2), the generalisation of
ArchiveOf4–8 to any header builder.

Not done: the statement for names that ARE folded (the extracted tree would be that of the folded
entries — `Scheme.den` is there for it, the instances here take `den = id`); LHark's time as an
MS-DOS stamp in the level-1 base header (here it travels in the Unix-time extended header).

Non-vacuity: `packTree_extracts_lk7`, `packTree0_extracts`, `dosTree_extracts` (every hypothesis
discharged by kernel evaluation) and, labelled EVALUATION, `#guard`s that run the executable model
on the bytes.
-/
set_option linter.unusedSimpArgs false
namespace LhasaV.ArchiveOs
open LhasaV LhasaV.Header LhasaV.Extract LhasaV.GlobFs LhasaV.Contain LhasaV.ExtractTree
open LhasaV.ExtractTree.Sample LhasaV.Spec.HeaderEnc LhasaV.ArchiveOf LhasaV.ArchivePack

/-! ## LHark -/

theorem packTree_stable : ∀ e ∈ packTree, CaseStable e := by decide

theorem packTree_short : FilesSat (fun d => d.length < 4294000000) packTree := by decide

/-- **`lha x` on the bytes of `archiveWithOs 0x20 lk7Lit packTree`**: every hypothesis of
`extract_archive_lk7` is discharged; the run succeeds, `d/f` has its nine bytes, mode and time,
the directory its recorded mode and time, the link its target -/
theorem packTree_extracts_lk7 : PackOutcome (run (archiveWithOs 0x20 lk7Lit packTree) {} sampleFs []) := by
  obtain ⟨h1, h, _⟩ := extract_archive_lk7 packTree packTree_wf packTree_enc packTree_stable packTree_short {}
    sampleFs [] ⟨rfl, rfl, rfl⟩ sampleFs_empty (access_user_022 sampleFs rfl)
  have hc : ∀ p : Fs.Path, sampleFs.cwd ++ p = [0x72] :: p := fun _ => rfl
  refine ⟨h1, ?_, ?_, ?_, ?_, ?_⟩
  all_goals (rw [← hc, h _ (by decide)]; decide)

/-- a mixed-case tree: `Docs/` and `Docs/ReadMe` contain lower-case letters (not folded), `x1` has
no upper-case letter -/
def lkTree : List Entry :=
  [ .dir [[0x44, 0x6f, 0x63, 0x73]] (some 0o40755) 500,
    .file [[0x44, 0x6f, 0x63, 0x73], [0x52, 0x65, 0x61, 0x64, 0x4d, 0x65]] packData (some 0o100644) 600,
    .file [[0x78, 0x31]] [0x31] none 700 ]

theorem lkTree_ok : WellFormed lkTree ∧ Encodable lkTree ∧ (∀ e ∈ lkTree, CaseStable e) ∧
    FilesSat (fun d => d.length < 4294000000) lkTree := by decide

/-- the hypothesis is a genuine condition: an all-capitals name is not case-stable … -/
example : ¬ CaseStable (.file [[0x41, 0x42]] [] none 0) := by decide
example : CaseStable (.file [[0x41, 0x62]] [] none 0) := by decide
example : CaseStable (.file [[0x31, 0x2e, 0x32]] [] none 0) := by decide
/-- … and OS types other than the five MS-DOS-like ones need none -/
example (e : Entry) : OsEntry 0x55 e := by intro h; exact absurd h (by decide)
example : ¬ OsOk 0x4b ∧ ¬ OsOk 0x6d ∧ OsOk 0x20 ∧ OsOk 0x4d ∧ OsOk 0 := by decide

/-! ## level 0 -/

/-- `packTree` with recorded permissions everywhere (level 0 with the Unix area always records them) -/
def packTree0 : List Entry :=
  [ .dir [[0x64]] (some 0o40755) 500,
    .file [[0x64], [0x66]] packData (some 0o100644) 600,
    .link [[0x64], [0x6c]] [0x66],
    .file [[0x65]] [] (some 0o100640) 0 ]

theorem packTree0_wf : WellFormed packTree0 := by decide
theorem packTree0_enc : Encodable packTree0 := by decide
theorem packTree0_enc0 : Encodable0 packTree0 := by decide

theorem packTree0_fits (m : Method) : FilesSat m.fits packTree0 := by
  cases m
  case lh1 =>
    intro e he
    simp only [packTree0, List.mem_cons, List.not_mem_nil, or_false] at he
    rcases he with rfl | rfl | rfl | rfl
    all_goals first | exact True.intro | exact lh1_fits_of_length _ (by decide)
  all_goals decide +kernel

/-- what the theorem promises for `packTree0` in `sampleFs` -/
def PackOutcome0 (s : Extract.St) : Prop :=
  s.result = true ∧
  Fs.lookup s.fs [[0x72], [0x64]] = some (.dir 0o755 500) ∧
  Fs.lookup s.fs [[0x72], [0x64], [0x66]] = some (.file packData 0o644 600) ∧
  Fs.lookup s.fs [[0x72], [0x64], [0x6c]] = some (.link [0x66]) ∧
  Fs.lookup s.fs [[0x72], [0x65]] = some (.file [] 0o640 sampleFs.now) ∧
  Fs.lookup s.fs [[0x72], [0x64], [0x71]] = none

/-- **`lha x` on the bytes of `archive0 (m.packer false) packTree0`, each of the nine non-PMarc
methods**: every hypothesis of `extract_archive_level0_method` is discharged by kernel evaluation -/
theorem packTree0_extracts (m : Method) (hm : m ≠ .pm1 ∧ m ≠ .pm2) :
    PackOutcome0 (run (archive0 (m.packer false) packTree0) {} sampleFs []) := by
  obtain ⟨h1, h, _⟩ := extract_archive_level0_method m hm packTree0 packTree0_wf packTree0_enc packTree0_enc0
    (packTree0_fits m) {} sampleFs [] ⟨rfl, rfl, rfl⟩ sampleFs_empty (access_user_022 sampleFs rfl)
  have hc : ∀ p : Fs.Path, sampleFs.cwd ++ p = [0x72] :: p := fun _ => rfl
  refine ⟨h1, ?_, ?_, ?_, ?_, ?_⟩
  all_goals (rw [← hc, h _ (by decide)]; decide)

/-- not everything has a level-0 encoding: no recorded permissions, a '\' in a name, a stored name
of more than 221 bytes -/
example : ¬ Encodable0 [.file [[0x65]] [] none 0] := by decide
example : ¬ Encodable0 [.file [[0x65, 0x5c]] [] (some 0o644) 0] := by decide
example : ¬ Encodable0 [.file [List.replicate 221 0x61] [] (some 0o644) 0] := by decide +kernel
example : Encodable0 [.file [List.replicate 220 0x61] [] (some 0o644) 0] := by decide +kernel

/-! ## plain level 0 (MS-DOS stamp only) -/

/-- `d/` (2000-01-01 00:00:00), `d/f` = `packData` (2000-02-29 12:34:56), `e` (empty, no time);
no permissions recorded -/
def dosTree : List Entry :=
  [ .dir [[0x64]] none 946684800,
    .file [[0x64], [0x66]] packData none 951827696,
    .file [[0x65]] [] none 0 ]

theorem dosTree_wf : WellFormed dosTree := by decide
theorem dosTree_enc : Encodable dosTree := by decide
theorem dosTree_enc0 : Encodable0Dos dosTree := by decide +kernel

theorem dosTree_fits (m : Method) : FilesSat m.fits dosTree := by
  cases m
  case lh1 =>
    intro e he
    simp only [dosTree, List.mem_cons, List.not_mem_nil, or_false] at he
    rcases he with rfl | rfl | rfl
    all_goals first | exact True.intro | exact lh1_fits_of_length _ (by decide)
  all_goals decide +kernel

/-- what the theorem promises for `dosTree` in `sampleFs` (umask 022): default modes, exact times -/
def DosOutcome (s : Extract.St) : Prop :=
  s.result = true ∧
  Fs.lookup s.fs [[0x72], [0x64]] = some (.dir 0o755 946684800) ∧
  Fs.lookup s.fs [[0x72], [0x64], [0x66]] = some (.file packData 0o600 951827696) ∧
  Fs.lookup s.fs [[0x72], [0x65]] = some (.file [] 0o600 sampleFs.now) ∧
  Fs.lookup s.fs [[0x72], [0x64], [0x71]] = none

/-- **`lha x` on the bytes of `archive0Dos (m.packer false) dosTree`, every method** -/
theorem dosTree_extracts (m : Method) :
    DosOutcome (run (archive0Dos (m.packer false) dosTree) {} sampleFs []) := by
  obtain ⟨h1, h, _⟩ := extract_archive_level0_dos_method m dosTree dosTree_wf dosTree_enc dosTree_enc0
    (dosTree_fits m) {} sampleFs [] ⟨rfl, rfl, rfl⟩ sampleFs_empty (access_user_022 sampleFs rfl)
  have hc : ∀ p : Fs.Path, sampleFs.cwd ++ p = [0x72] :: p := fun _ => rfl
  refine ⟨h1, ?_, ?_, ?_, ?_⟩
  all_goals (rw [← hc, h _ (by decide)]; decide)

/-- a plain level-0 header cannot carry: permissions, a link, an odd second, a time before 1980,
an all-capitals name -/
example : ¬ Encodable0Dos [.file [[0x65]] [] (some 0o644) 0] := by decide
example : ¬ Encodable0Dos [.link [[0x6c]] [0x65]] := by decide
example : ¬ Encodable0Dos [.file [[0x65]] [] none 951827697] := by decide +kernel
example : ¬ Encodable0Dos [.file [[0x65]] [] none 86400] := by decide +kernel
example : ¬ Encodable0Dos [.file [[0x45]] [] none 0] := by decide

/-! ### EVALUATION (not proof): the executable model run on the archive bytes -/

/-- run the model on `archive` and compare the given paths with `treeOf es` -/
def treeCheck (archive : Array UInt8) (es : List Entry) (paths : List Fs.Path) : Bool :=
  let s := run archive {} sampleFs []
  s.result && paths.all
    (fun p => decide (Fs.lookup s.fs (sampleFs.cwd ++ p) = treeOf sampleFs.now sampleFs.umask es p))

def packPaths : List Fs.Path := [[[0x64]], [[0x64], [0x66]], [[0x64], [0x6c]], [[0x65]], [[0x64], [0x71]], [[0x66]]]

-- LHark: the model extracts the tree from the bytes
#guard treeCheck (archiveWithOs 0x20 lk7Lit packTree) packTree packPaths
#guard treeCheck (archiveWithOs 0x20 lk7Lit lkTree) lkTree
  [[[0x44, 0x6f, 0x63, 0x73]], [[0x44, 0x6f, 0x63, 0x73], [0x52, 0x65, 0x61, 0x64, 0x4d, 0x65]], [[0x78, 0x31]],
   [[0x64, 0x6f, 0x63, 0x73]]]

/-- the first header of an archive as the parser model returns it -/
def firstHdr (archive : Array UInt8) : Option Hdr :=
  match Header.read Header.dosTimeUTC archive.toList with
  | .ok (h, _) => some h
  | _ => none

-- the bytes say `-lh7-`, level 1, OS type ' '; the parser presents `-lk7-`
#guard ((archiveWithOs 0x20 lk7Lit [.file [[0x65]] packData none 0]).toList.drop 2).take 5 = lh7M
#guard (archiveWithOs 0x20 lk7Lit [.file [[0x65]] packData none 0]).toList[20]? = some 1
#guard (firstHdr (archiveWithOs 0x20 lk7Lit [.file [[0x65]] packData none 0])).map
  (fun h => (h.method, h.level, h.osType)) = some (lk7M, 1, 0x20)
-- LHark's format differs from `-lh7-`'s (6-bit offset-table field, 289 codes)
#guard (lk7Lit.pack packData).2 ≠ ((lh7Lit true).pack packData).2
-- `CaseStable` is necessary: the all-capitals name `AB` comes back as `ab`
#guard
  let s := run (archiveWithOs 0x20 lk7Lit [.file [[0x41, 0x42]] packData none 0]) {} sampleFs []
  s.result && (Fs.lookup s.fs (sampleFs.cwd ++ [[0x41, 0x42]])).isNone &&
    (Fs.lookup s.fs (sampleFs.cwd ++ [[0x61, 0x62]])).isSome
-- other OS types through the same builder: MS-DOS ('M'), generic (0), Unix ('U' = `archiveWith`)
#guard [0x4d, 0x00, 0x55, 0x32].all (fun os => Method.all.all (fun m =>
  treeCheck (archiveWithOs os (m.packer false) packTree) packTree packPaths &&
  treeCheck (archiveWithOs os (m.packer true) packTree) packTree packPaths))
#guard archiveWithOs 0x55 (lh5Lit true) packTree = archiveWith (lh5Lit true) packTree

-- level 0: the model extracts the tree from the bytes, for the nine non-PMarc methods
#guard (Method.all.filter (fun m => m ≠ .pm1 && m ≠ .pm2)).all
  (fun m => treeCheck (archive0 (m.packer false) packTree0) packTree0 packPaths)
-- the bytes: level byte 0, the whole path `d\f` in the base header, then CRC and the area 'U'
#guard (archive0 stored [.file [[0x64], [0x66]] packData (some 0o100644) 600]).toList[20]? = some 0
#guard ((archive0 stored [.file [[0x64], [0x66]] packData (some 0o100644) 600]).toList.drop 21).take 4 =
  [3, 0x64, 0x5c, 0x66]
#guard (archive0 stored [.file [[0x64], [0x66]] packData (some 0o100644) 600]).toList[27]? = some 0x55
#guard (firstHdr (archive0 stored [.file [[0x64], [0x66]] packData (some 0o100644) 600])).map
  (fun h => (h.path, h.filename, h.level, h.osType, h.timestamp, h.unixPerms)) =
  some (some [0x64, 0x2f], some [0x66], 0, 0x55, 600, 0o100644)
-- `PackOk0.notPm` is necessary: the parser ignores the Unix area of a level-0 `-pm2-` header
#guard !(treeCheck (archive0 pm2Lit packTree0) packTree0 packPaths)


-- plain level 0: the model extracts the tree (exact times from the MS-DOS stamps), all eleven methods
#guard Method.all.all (fun m => treeCheck (archive0Dos (m.packer false) dosTree) dosTree packPaths)
-- the bytes: the MS-DOS stamp of 2000-02-29 12:34:56 at offset 15, no extended area (header length 22 + 3)
#guard ((archive0Dos stored [.file [[0x64], [0x66]] packData none 951827696]).toList.drop 15).take 4 =
  le32 (unixToDos 951827696)
#guard (archive0Dos stored [.file [[0x64], [0x66]] packData none 951827696]).toList[0]? = some 25
#guard (firstHdr (archive0Dos stored [.file [[0x64], [0x66]] packData none 951827696])).map
  (fun h => (h.path, h.filename, h.level, h.osType, h.timestamp, h.extraFlags)) =
  some (some [0x64, 0x2f], some [0x66], 0, 0, 951827696, 0)
-- an odd second is lost: the time comes back one second early
#guard (firstHdr (archive0Dos stored [.file [[0x65]] packData none 951827697])).map (·.timestamp) = some 951827696

end LhasaV.ArchiveOs
