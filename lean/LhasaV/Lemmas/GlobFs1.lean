import LhasaV.Model.Extract
import LhasaV.Lemmas.HeaderName
/-!
# Wildcards (part A of `GlobFs`)

Part A: `match_glob` (the C recursion) computes exactly the denotation `GlobSpec` of a
wildcard pattern, for all patterns and all strings.
-/
namespace LhasaV.GlobFs
open LhasaV LhasaV.Glob

/-! ## A. Wildcards -/

theorem star_beq : (star == star) = true := by decide

theorem spec_star (pat s : List UInt8) :
    GlobSpec (star :: pat) s = (List.range (s.length + 1)).any (fun k => GlobSpec pat (s.drop k)) := by
  cases s <;> (rw [GlobSpec]; simp)

/-- `*` against the empty string: the star stands for the empty run -/
theorem spec_star_nil (pat : List UInt8) : GlobSpec (star :: pat) [] = GlobSpec pat [] := by
  rw [spec_star]; simp [List.range_succ]

/-- `*` against a non-empty string: the star stands for the empty run, or it swallows the first
byte and still stands for any run -/
theorem spec_star_cons (pat : List UInt8) (c : UInt8) (s : List UInt8) :
    GlobSpec (star :: pat) (c :: s) = (GlobSpec pat (c :: s) || GlobSpec (star :: pat) s) := by
  rw [spec_star, spec_star pat s, List.length_cons, List.range_succ_eq_map]
  simp [List.any_map, Function.comp_def]

theorem spec_nil (s : List UInt8) : GlobSpec [] s = s.isEmpty := by
  rw [GlobSpec]

theorem spec_cons_nil (p : UInt8) (pat : List UInt8) (hp : (p == star) = false) :
    GlobSpec (p :: pat) [] = false := by
  rw [GlobSpec]; simp [hp]

theorem spec_cons_cons (p : UInt8) (pat : List UInt8) (c : UInt8) (s : List UInt8)
    (hp : (p == star) = false) :
    GlobSpec (p :: pat) (c :: s) = ((p == quest || p == c) && GlobSpec pat s) := by
  rw [GlobSpec]; simp [hp]

/-- against the empty string only a run of stars matches -/
theorem spec_empty_str (g : List UInt8) :
    GlobSpec g [] = (g.dropWhile (· == star)).isEmpty := by
  induction g with
  | nil => simp [spec_nil]
  | cons p pat ih =>
    by_cases hp : (p == star) = true
    · have : p = star := by simpa using hp
      subst this
      rw [spec_star_nil, ih]; simp
    · have hp' : (p == star) = false := by simpa using hp
      rw [spec_cons_nil p pat hp']; simp [hp']

/-- **C06, wildcards.**  The C function `match_glob` and the specification of wildcard patterns
agree on every pattern and every string. -/
theorem glob_iff (g s : List UInt8) : matchGlob g s = GlobSpec g s := by
  fun_induction matchGlob g s with
  | case1 glob => rw [spec_empty_str]
  | case2 c str => simp [spec_nil]
  | case3 g glob c str hg ih1 ih2 =>
    have : g = star := by simpa using hg
    subst this
    rw [spec_star_cons, ih1, ih2]
  | case4 g glob c str hg hq ih =>
    have hg' : (g == star) = false := by simpa using hg
    rw [spec_cons_cons g glob c str hg', ih]
    simp [hq]
  | case5 g glob c str hg hq =>
    have hg' : (g == star) = false := by simpa using hg
    rw [spec_cons_cons g glob c str hg']
    have : (g == quest || g == c) = false := by simpa using hq
    simp [this]

/-! ### the specification is compositional (so it really is "the language of the pattern") -/

/-- `*pat` matches `s` iff `pat` matches some suffix of `s` -/
theorem spec_star_iff (pat s : List UInt8) :
    GlobSpec (star :: pat) s = true ↔ ∃ a b, s = a ++ b ∧ GlobSpec pat b = true := by
  rw [spec_star]
  simp only [List.any_eq_true, List.mem_range]
  constructor
  · rintro ⟨k, _, hk⟩
    exact ⟨s.take k, s.drop k, (List.take_append_drop k s).symm, hk⟩
  · rintro ⟨a, b, rfl, hb⟩
    exact ⟨a.length, by simp; omega, by simpa using hb⟩

/-- `?pat` matches `s` iff `s` has a first byte (any) and `pat` matches the rest -/
theorem spec_quest_iff (pat s : List UInt8) :
    GlobSpec (quest :: pat) s = true ↔ ∃ c s', s = c :: s' ∧ GlobSpec pat s' = true := by
  have hq : (quest == star) = false := by decide
  cases s with
  | nil => simp [spec_cons_nil quest pat hq]
  | cons c s' =>
    rw [spec_cons_cons quest pat c s' hq]
    constructor
    · intro h; exact ⟨c, s', rfl, by simpa using h⟩
    · rintro ⟨_, _, ⟨rfl, rfl⟩, h⟩; simpa using h

/-- an ordinary byte matches itself only (case-sensitive: bytes are compared with `==`) -/
theorem spec_lit_iff (p : UInt8) (pat s : List UInt8) (h1 : p ≠ star) (h2 : p ≠ quest) :
    GlobSpec (p :: pat) s = true ↔ ∃ s', s = p :: s' ∧ GlobSpec pat s' = true := by
  have hp : (p == star) = false := by simpa using h1
  have hq : (p == quest) = false := by simpa using h2
  cases s with
  | nil => simp [spec_cons_nil p pat hp]
  | cons c s' =>
    rw [spec_cons_cons p pat c s' hp]
    simp only [hq, Bool.false_or, Bool.and_eq_true, beq_iff_eq, List.cons.injEq]
    constructor
    · rintro ⟨rfl, h⟩; exact ⟨s', ⟨rfl, rfl⟩, h⟩
    · rintro ⟨t, ⟨rfl, rfl⟩, h⟩; exact ⟨rfl, h⟩

/-- concatenated patterns denote concatenated languages -/
theorem spec_append_iff (g1 g2 : List UInt8) : ∀ s : List UInt8,
    GlobSpec (g1 ++ g2) s = true ↔
      ∃ a b, s = a ++ b ∧ GlobSpec g1 a = true ∧ GlobSpec g2 b = true := by
  induction g1 with
  | nil =>
    intro s
    simp only [List.nil_append, spec_nil, List.isEmpty_iff]
    constructor
    · intro h; exact ⟨[], s, rfl, rfl, h⟩
    · rintro ⟨a, b, rfl, rfl, h⟩; simpa using h
  | cons p g1 ih =>
    intro s
    rw [List.cons_append]
    by_cases hp : p = star
    · subst hp
      rw [spec_star_iff]
      constructor
      · rintro ⟨a, b, rfl, hb⟩
        obtain ⟨c, d, rfl, hc, hd⟩ := (ih b).1 hb
        exact ⟨a ++ c, d, by simp, (spec_star_iff g1 _).2 ⟨a, c, rfl, hc⟩, hd⟩
      · rintro ⟨x, y, rfl, hx, hy⟩
        obtain ⟨a, c, rfl, hc⟩ := (spec_star_iff g1 x).1 hx
        exact ⟨a, c ++ y, by simp, (ih _).2 ⟨c, y, rfl, hc, hy⟩⟩
    · have hp' : (p == star) = false := by simpa using hp
      cases s with
      | nil =>
        rw [spec_cons_nil p _ hp']
        constructor
        · intro h; cases h
        · rintro ⟨a, b, hab, ha, _⟩
          have : a = [] := by
            cases a with
            | nil => rfl
            | cons _ _ => simp at hab
          subst this
          rw [spec_cons_nil p _ hp'] at ha; cases ha
      | cons c s' =>
        rw [spec_cons_cons p _ c s' hp', Bool.and_eq_true]
        constructor
        · rintro ⟨hc, h⟩
          obtain ⟨a, b, rfl, ha, hb⟩ := (ih s').1 h
          refine ⟨c :: a, b, by simp, ?_, hb⟩
          rw [spec_cons_cons p _ c a hp', hc, ha]; rfl
        · rintro ⟨a, b, hab, ha, hb⟩
          cases a with
          | nil => rw [spec_cons_nil p _ hp'] at ha; cases ha
          | cons c' a' =>
            simp only [List.cons_append, List.cons.injEq] at hab
            obtain ⟨rfl, rfl⟩ := hab
            rw [spec_cons_cons p _ c a' hp', Bool.and_eq_true] at ha
            exact ⟨ha.1, (ih _).2 ⟨a', b, rfl, ha.2, hb⟩⟩

/-- a non-empty run of stars matches everything -/
theorem spec_stars (k : Nat) (s : List UInt8) : GlobSpec (List.replicate (k + 1) star) s = true := by
  induction k with
  | zero => exact (spec_star_iff [] s).2 ⟨s, [], by simp, by simp [spec_nil]⟩
  | succ k ih => rw [List.replicate_succ]; exact (spec_star_iff _ s).2 ⟨[], s, rfl, ih⟩

theorem spec_stars_nil (k : Nat) : GlobSpec (List.replicate k star) [] = true := by
  rw [spec_empty_str]
  induction k with
  | zero => rfl
  | succ k ih => rw [List.replicate_succ, List.dropWhile_cons]; simp

/-! ### corollaries for the C function -/

/-- `lha_filter_next_file` hands out exactly the members whose stored `path ++ filename` lies in
the language of one of the wildcard arguments (all members when there are none) -/
theorem select_spec (fs : List (List UInt8)) (hdrs : List Header.Hdr) :
    select fs hdrs =
      hdrs.filter (fun h => fs.isEmpty || fs.any (fun f => GlobSpec f (fullName h))) := by
  unfold select
  congr 1
  funext h
  unfold matchesFilter
  by_cases he : fs.isEmpty = true
  · simp [he]
  · simp [he, glob_iff]

/-- a pattern without wildcards matches exactly itself (in particular: case-sensitively) -/
theorem spec_literal (g : List UInt8) (hg : ∀ b ∈ g, b ≠ star ∧ b ≠ quest) :
    ∀ s : List UInt8, GlobSpec g s = true ↔ s = g := by
  induction g with
  | nil => intro s; simp [spec_nil]
  | cons p g ih =>
    intro s
    have hp := hg p (by simp)
    rw [spec_lit_iff p g s hp.1 hp.2]
    have ih' := ih (fun b hb => hg b (by simp [hb]))
    constructor
    · rintro ⟨s', rfl, h⟩; rw [(ih' s').1 h]
    · rintro rfl; exact ⟨g, rfl, (ih' g).2 rfl⟩

theorem glob_literal (g s : List UInt8) (hg : ∀ b ∈ g, b ≠ star ∧ b ≠ quest) :
    matchGlob g s = true ↔ s = g := by
  rw [glob_iff]; exact spec_literal g hg s

/-- `*` alone selects every member -/
theorem glob_star_all (s : List UInt8) : matchGlob [0x2a] s = true := by
  rw [glob_iff]; exact spec_stars 0 s

/-- `g*` matches exactly the strings with a prefix matched by `g` -/
theorem glob_trailing_star_iff (g s : List UInt8) (k : Nat) :
    matchGlob (g ++ List.replicate (k + 1) star) s = true ↔
      ∃ a b, s = a ++ b ∧ matchGlob g a = true := by
  rw [glob_iff, spec_append_iff]
  simp only [glob_iff]
  constructor
  · rintro ⟨a, b, h, ha, _⟩; exact ⟨a, b, h, ha⟩
  · rintro ⟨a, b, h, ha⟩; exact ⟨a, b, h, ha, spec_stars k b⟩

/-- several trailing stars are as good as one -/
theorem glob_trailing_stars (g s : List UInt8) (k : Nat) :
    matchGlob (g ++ List.replicate (k + 1) star) s = matchGlob (g ++ [star]) s := by
  rw [Bool.eq_iff_iff, glob_trailing_star_iff g s k]
  exact (glob_trailing_star_iff g s 0).symm

theorem spec_star_star (g s : List UInt8) :
    GlobSpec (g ++ [star, star]) s = GlobSpec (g ++ [star]) s := by
  rw [← glob_iff, ← glob_iff]; exact glob_trailing_stars g s 1

/-- appending stars never loses a match (the C's final "skip trailing stars" loop) -/
theorem glob_append_stars (g s : List UInt8) (k : Nat) (h : matchGlob g s = true) :
    matchGlob (g ++ List.replicate k star) s = true := by
  rw [glob_iff] at h ⊢
  exact (spec_append_iff _ _ s).2 ⟨s, [], by simp, h, spec_stars_nil k⟩

/-- on a string that `g` matches completely nothing changes; a string that only has a prefix
matched by `g` is matched by `g*` but not necessarily by `g`:
"a*" matches "ab", "a" does not -/
example : matchGlob [0x61, 0x2a] [0x61, 0x62] = true ∧ matchGlob [0x61] [0x61, 0x62] = false := by
  rw [glob_iff, glob_iff]; decide

/-! non-vacuity: "*.tx?" matches "a/b.txt", not "a/b.TXT"; "a*b*c" matches "aXbbYc";
"a?c" does not match "ac" -/
example : matchGlob [0x2a,0x2e,0x74,0x78,0x3f] [0x61,0x2f,0x62,0x2e,0x74,0x78,0x74] = true := by
  rw [glob_iff]; decide
example : matchGlob [0x2a,0x2e,0x74,0x78,0x3f] [0x61,0x2f,0x62,0x2e,0x54,0x58,0x54] = false := by
  rw [glob_iff]; decide
example : GlobSpec [0x61,0x2a,0x62,0x2a,0x63] [0x61,0x58,0x62,0x62,0x59,0x63] = true := by decide
example : GlobSpec [0x61,0x3f,0x63] [0x61,0x63] = false := by decide

end LhasaV.GlobFs
