import LhasaV.Lemmas.ArchiveOf4
/-!
# C06, archives as bytes (part 5): `lha_basic_reader_next_file` along `archiveWith pk es`

`At pk A es b`: the basic reader holds a member whose end is where the members of `es` begin
(stated up to the amount a decoder consumed: `At.consEq`).  `Got pk A es b`: it has just read the
header of the first entry of `es` (or met the end of the archive when `es = []`).
`basicNext_at` / `basicNext_fresh`: one `next_file` leads from `At` / the fresh reader to `Got`;
`Got.at`: and `Got pk A (e :: tl)` is `At pk A tl`.
-/
set_option linter.unusedSimpArgs false
namespace LhasaV.ArchiveOf
open LhasaV LhasaV.Header LhasaV.Extract LhasaV.GlobFs LhasaV.Contain LhasaV.ExtractTree
open LhasaV.ExtractTree.Sample LhasaV.Spec.HeaderEnc LhasaV.Reader LhasaV.ReaderIndep

/-- the bytes of the members of `es`, one after the other -/
abbrev flat (pk : Packer) (es : List Entry) : Bytes := (archiveWith pk es).toList

theorem flat_cons (pk : Packer) (e : Entry) (es : List Entry) :
    flat pk (e :: es) = encode (fieldsOf pk e) ++ (dataOf pk e ++ flat pk es) := archiveWith_cons pk e es

theorem flat_cons_length (pk : Packer) (e : Entry) (es : List Entry) : 21 ≤ (flat pk (e :: es)).length := by
  obtain ⟨a, b, tl, hs, hl⟩ := encode_shape pk e
  rw [flat_cons, hs]
  simp; omega

/-- every entry of the list has clean names, fits the header format, and its data is packed well -/
def AllOk (pk : Packer) (es : List Entry) : Prop := ∀ e ∈ es, EntryOk e ∧ EntryEnc e ∧ FilePack pk e

theorem AllOk.tail {pk : Packer} {e : Entry} {es : List Entry} (h : AllOk pk (e :: es)) : AllOk pk es :=
  fun x hx => h x (List.mem_cons_of_mem _ hx)

/-- the basic reader holds a member that ends where the members of `es` begin -/
def At (pk : Packer) (A : Array UInt8) (es : List Entry) (b : Basic) : Prop :=
  b.stream.data = A ∧ b.curr.isSome = true ∧
  ((es = [] ∧ Doomed b) ∨
   (es ≠ [] ∧ b.eof = false ∧ b.stream.phase = .reading ∧ b.stream.leadin = [] ∧
     A.toList.drop (mEnd b) = flat pk es))

/-- the reader before its first `next_file` -/
def Fresh (pk : Packer) (A : Array UInt8) (es : List Entry) (b : Basic) : Prop :=
  b.stream.data = A ∧ b.curr = none ∧ b.eof = false ∧ b.stream.phase = .init ∧
  b.stream.leadin = [] ∧ b.stream.pos = 0 ∧ A.toList = flat pk es

/-- the basic reader has read the header of the first entry of `es`, or met the end -/
def Got (pk : Packer) (A : Array UInt8) (es : List Entry) (b : Basic) : Prop :=
  b.stream.data = A ∧
  match es with
  | [] => b.curr = none ∧ b.eof = true
  | e :: tl => (∃ id, b.curr = some ⟨id, hdrOf pk e⟩) ∧ b.remaining = (dataOf pk e).length ∧ b.eof = false ∧
      b.stream.phase = .reading ∧ b.stream.leadin = [] ∧
      A.toList.drop b.stream.pos = dataOf pk e ++ flat pk tl

theorem drop_lt_of_ne_nil {α} (l : List α) (n : Nat) (h : l.drop n ≠ []) : n < l.length := by
  apply Classical.byContradiction
  intro hn
  exact h (List.drop_eq_nil_of_le (by omega))

/-- `At` does not depend on how much of the current member a decoder consumed -/
theorem At.consEq {pk : Packer} {A : Array UInt8} {es : List Entry} {b b' : Basic} (h : At pk A es b)
    (hc : ConsEq b b') : At pk A es b' := by
  obtain ⟨hd, hcur, hrest⟩ := h
  obtain ⟨cd, cc, ce⟩ := hc
  refine ⟨by rw [← cd, hd], by rw [← cc]; exact hcur, ?_⟩
  rcases hrest with ⟨hes, hdm⟩ | ⟨hes, heof, hph, hl, hdrop⟩
  · left
    refine ⟨hes, ?_⟩
    rcases ce with ⟨_, d'⟩ | ⟨e1, e2, e3, e4, e5, _⟩
    · exact d'
    · exact Doomed.transfer hdm cc cd e1 e5
  · right
    have hlt : mEnd b < A.size := by
      have := drop_lt_of_ne_nil A.toList (mEnd b) (by
        rw [hdrop]
        cases es with
        | nil => exact absurd rfl hes
        | cons e tl =>
          intro h0
          have := flat_cons_length pk e tl
          rw [h0] at this; simp at this)
      simpa using this
    rcases ce with ⟨d, _⟩ | ⟨e1, e2, e3, e4, e5, _⟩
    · rcases d with d | d
      · rw [heof] at d; cases d
      · rw [hd] at d; omega
    · exact ⟨hes, e2, by rw [← e4, hph], by rw [← e3, hl], by rw [← e5, hdrop]⟩

theorem Got.at {pk : Packer} {A : Array UInt8} {e : Entry} {tl : List Entry} {b : Basic}
    (h : Got pk A (e :: tl) b) : At pk A tl b := by
  obtain ⟨hd, ⟨id, hc⟩, hrem, heof, hph, hl, hdrop⟩ := h
  refine ⟨hd, by rw [hc]; rfl, ?_⟩
  have hm : A.toList.drop (mEnd b) = flat pk tl := by
    unfold mEnd
    rw [← List.drop_drop, hdrop, hrem]
    simp
  by_cases htl : tl = []
  · left
    refine ⟨htl, Or.inr ⟨by rw [hc]; rfl, ?_⟩⟩
    rw [htl] at hm
    have : (A.toList.drop (mEnd b)).length = 0 := by rw [hm]; rfl
    rw [List.length_drop, Array.length_toList] at this
    rw [hd]; omega
  · exact Or.inr ⟨htl, heof, hph, hl, hm⟩

theorem Got.pending {pk : Packer} {A : Array UInt8} {es : List Entry} {b : Basic} (h : Got pk A es b)
    (hok : AllOk pk es) : Pending b.curr es := by
  cases es with
  | nil => exact h.2.1
  | cons e tl =>
    obtain ⟨_, ⟨id, hc⟩, _⟩ := h
    exact ⟨_, hc, hdrOf_denotes pk e (hok e (by simp)).2.2⟩

/-- **`lha_basic_reader_next_file` from a member to the next** -/
theorem basicNext_at (pk : Packer) (mk : Nat → Nat) (A : Array UInt8) (es : List Entry) (b : Basic)
    (led : Ledger) (hok : AllOk pk es) (h : At pk A es b) (wf : Stream.WF b) :
    ∃ b' led', basicNext mk b led = .ok (b', led') ∧ Got pk A es b' := by
  obtain ⟨hd, hcur, hrest⟩ := h
  obtain ⟨c, hc⟩ := Option.isSome_iff_exists.1 hcur
  rcases hrest with ⟨hes, hdm⟩ | ⟨hes, heof, hph, hl, hdrop⟩
  · subst hes
    obtain ⟨x, e1, x1, x2, x3⟩ := basicNext_doomed mk b led c hc hdm wf
    exact ⟨x, _, e1, by rw [x3, hd], x2, x1⟩
  · cases es with
    | nil => exact absurd rfl hes
    | cons e tl =>
      have hne : flat pk (e :: tl) ≠ [] := by
        intro h0
        have := flat_cons_length pk e tl
        rw [h0] at this; simp at this
      have hlt : mEnd b < b.stream.data.size := by
        have := drop_lt_of_ne_nil A.toList (mEnd b) (by rw [hdrop]; exact hne)
        rw [hd]; simpa using this
      obtain ⟨sa, pa⟩ := skip_alive b hlt
      have fa := Stream.skip_frame b.stream b.remaining
      obtain ⟨hke, hee, hpe⟩ := hok e (by simp)
      rw [Stream.basicNext_eq]
      simp only [Stream.afterSkip, hc]
      obtain ⟨b', led', e1, e2, e3, e4, e5, e6, e7, e8⟩ := nextTail_member pk mk
        { b with curr := none, stream := (Stream.skip b.stream b.remaining).2,
                 eof := b.eof || !(Stream.skip b.stream b.remaining).1 }
        (led.unref c.id) e (flat pk tl) hke hee hpe (by simp [heof, sa])
        (Or.inr (by simp only [fa.2.2.1]; exact hph)) (by simp only [fa.2.2.2]; exact hl)
        (by
          show Stream.src (Stream.skip b.stream b.remaining).2 = _
          unfold Stream.src
          rw [fa.1, pa, hd, hdrop, flat_cons])
      refine ⟨b', led', e1, by rw [e2]; simp only [fa.1]; exact hd, e3, e4, e5, e6, e7, ?_⟩
      have : b'.stream.data = A := by rw [e2]; simp only [fa.1]; exact hd
      rw [← this]; exact e8

/-- **the first `lha_basic_reader_next_file`**: the signature scan, then the first header -/
theorem basicNext_fresh (pk : Packer) (mk : Nat → Nat) (A : Array UInt8) (es : List Entry) (b : Basic)
    (led : Ledger) (hok : AllOk pk es) (h : Fresh pk A es b) :
    ∃ b' led', basicNext mk b led = .ok (b', led') ∧ Got pk A es b' := by
  obtain ⟨hd, hc, heof, hph, hl, hpos, hA⟩ := h
  rw [Stream.basicNext_eq]
  simp only [Stream.afterSkip, hc]
  cases es with
  | nil =>
    have hsz : b.stream.data.size ≤ b.stream.pos := by
      have : A.toList.length = 0 := by rw [hA]; rfl
      rw [Array.length_toList] at this
      rw [hd, hpos]; omega
    obtain ⟨st, e, hst⟩ := Stream.nextTail_past_end mk b led heof hsz (by simp [hl])
    exact ⟨_, _, e, by simp only [hst]; exact hd, hc, rfl⟩
  | cons e tl =>
    obtain ⟨hke, hee, hpe⟩ := hok e (by simp)
    obtain ⟨b', led', e1, e2, e3, e4, e5, e6, e7, e8⟩ := nextTail_member pk mk b led e (flat pk tl) hke hee hpe heof
      (Or.inl hph) hl (by unfold Stream.src; rw [hpos, hd, hA, flat_cons]; rfl)
    refine ⟨b', led', e1, by rw [e2, hd], e3, e4, e5, e6, e7, ?_⟩
    have : b'.stream.data = A := by rw [e2, hd]
    rw [← this]; exact e8

end LhasaV.ArchiveOf
