import LhasaV.Lemmas.Lh1Mirror1
/-!
# C02, layer 2: the mirror relation over plain functions and its preservation by one
round of the update (swap with the group leader + increment  =  `exchange` in LZHUF)
-/
namespace LhasaV.Lh1Mirror
open LhasaV LhasaV.Lh1 LhasaV.Spec.Lzhuf LhasaV.Res

/-- The mirror map `j ↔ 626 − j` between the decoder's tree (`lf ch pa fr ln`) and the LZHUF
arrays (`zf zp zs`).  `r` is the amount by which the decoder's root frequency is ahead
(`1` while `increment_for_code` is climbing: the C decoder bumps the root first, LZHUF last). -/
structure MirF (lf : Nat → Bool) (ch pa fr ln zf zp zs : Nat → Nat) (r : Nat) : Prop where
  freq : ∀ j, j < 627 → zf (626 - j) + (if j = 0 then r else 0) = fr j
  sent : zf 627 = 65535
  sonL : ∀ j, j < 627 → lf j = true → zs (626 - j) = ch j + 627
  sonB : ∀ j, j < 627 → lf j = false → zs (626 - j) + ch j = 626
  par : ∀ j, 1 ≤ j → j < 627 → zp (626 - j) + pa j = 626
  root : zp 626 = 0
  lnP : ∀ c, c < 314 → zp (c + 627) + ln c = 626

/-- with a pending marker the root is at least two ahead of every other node -/
theorem root_gap {lf ch pa fr ln x} (ht : Tree lf ch pa fr ln x) (hs : Sorted fr) (hx0 : x ≠ 0)
    {i : Nat} (h1 : 1 ≤ i) (hi : i < 627) : fr i + 2 ≤ fr 0 := by
  have h0 := ht.ch0
  have hsum := ht.sum 0 (by omega) h0.1
  rw [h0.2] at hsum
  have hp := ht.pos 2 (by omega)
  have hle : fr i ≤ fr 1 := hs.le h1 hi
  have e1 : ¬ (0 = x ∧ x ≠ 0) := by omega
  have e2 : (0 = 0 ∧ x ≠ 0) := ⟨rfl, hx0⟩
  rw [if_neg e1, if_pos e2] at hsum
  have e3 : 2 - 1 = 1 := rfl
  rw [e3] at hsum
  omega

/-- the frequencies between the leader and the node are all equal -/
theorem run_eq {fr : Nat → Nat} (hs : Sorted fr) {L x j : Nat} (hx : x < 627) (hfr : fr L = fr x)
    (h1 : L ≤ j) (h2 : j ≤ x) : fr j = fr x := by
  have a := hs.le h1 (by omega : j < 627)
  have b := hs.le h2 hx
  omega

/-! ## the round without exchange: the node is its group's leader -/

theorem mirF_noswap {lf ch pa fr ln zf zp zs x}
    (hx0 : 1 ≤ x) (hx : x < 627)
    (hm : MirF lf ch pa fr ln zf zp zs 1)
    {fr' zf' : Nat → Nat}
    (hfr' : ∀ j, fr' j = if j = x then fr x + 1 else fr j)
    (hzf : ∀ m, zf' m = if m = 626 - x then zf (626 - x) + 1 else zf m) :
    MirF lf ch pa fr' ln zf' zp zs 1 := by
  refine ⟨?_, ?_, hm.sonL, hm.sonB, hm.par, hm.root, hm.lnP⟩
  · intro j hj
    have := hm.freq j hj
    rw [hfr', hzf]
    by_cases e : j = x
    · subst e
      have e0 : ¬ j = 0 := by omega
      simp only [e0, if_false, if_true] at this ⊢
      omega
    · have e' : ¬ 626 - j = 626 - x := by omega
      rw [if_neg e, if_neg e']; exact this
  · rw [hzf, if_neg (by omega)]; exact hm.sent

/-- the condition under which LZHUF does not exchange -/
theorem noswap_cond {lf ch pa fr ln zf zp zs x}
    (ht : Tree lf ch pa fr ln x) (hs : Sorted fr) (hx0 : 1 ≤ x) (hx : x < 627)
    (hmin : ∀ j, j < 627 → fr j = fr x → x ≤ j)
    (hm : MirF lf ch pa fr ln zf zp zs 1) :
    zf (626 - x) + 1 ≤ zf (626 - x + 1) := by
  have e : 626 - x + 1 = 626 - (x - 1) := by omega
  rw [e]
  have h1 := hm.freq x hx
  have h2 := hm.freq (x - 1) (by omega)
  have h3 := hs (x - 1) (by omega)
  have e2 : x - 1 + 1 = x := by omega
  rw [e2] at h3
  have h4 : fr (x - 1) ≠ fr x := fun e => by have := hmin (x - 1) (by omega) e; omega
  rw [if_neg (by omega)] at h1
  by_cases e0 : x - 1 = 0
  · have hg := root_gap ht hs (by omega) hx0 hx
    rw [if_pos e0] at h2
    rw [e0] at h2 ⊢
    omega
  · rw [if_neg e0] at h2
    omega

/-! ## the round with exchange -/

/-- the conditions under which LZHUF exchanges `c = 626 − x` with `l = 626 − L` -/
theorem swap_cond {lf ch pa fr ln zf zp zs x L}
    (ht : Tree lf ch pa fr ln x) (hs : Sorted fr) (hx : x < 627) (hL1 : 1 ≤ L) (hLx : L < x)
    (hfr : fr L = fr x) (hmin : ∀ j, j < 627 → fr j = fr x → L ≤ j)
    (hm : MirF lf ch pa fr ln zf zp zs 1) :
    zf (626 - x + 1) < zf (626 - x) + 1 ∧
    (∀ m, 626 - x + 1 < m → m ≤ 626 - L → zf m < zf (626 - x) + 1) ∧
    zf (626 - x) + 1 ≤ zf (626 - L + 1) := by
  have hfx := hm.freq x hx
  rw [if_neg (by omega)] at hfx
  refine ⟨?_, ?_, ?_⟩
  · have e : 626 - x + 1 = 626 - (x - 1) := by omega
    rw [e]
    have h2 := hm.freq (x - 1) (by omega)
    rw [if_neg (by omega)] at h2
    have := run_eq hs hx hfr (j := x - 1) (by omega) (by omega)
    omega
  · intro m h1 h2
    have e : m = 626 - (626 - m) := by omega
    rw [e]
    have h3 := hm.freq (626 - m) (by omega)
    rw [if_neg (by omega)] at h3
    have := run_eq hs hx hfr (j := 626 - m) (by omega) (by omega)
    omega
  · have e : 626 - L + 1 = 626 - (L - 1) := by omega
    rw [e]
    have h2 := hm.freq (L - 1) (by omega)
    have h3 := hs (L - 1) (by omega)
    have e2 : L - 1 + 1 = L := by omega
    rw [e2] at h3
    have h4 : fr (L - 1) ≠ fr L := fun e => by
      have := hmin (L - 1) (by omega) (by omega); omega
    by_cases e0 : L - 1 = 0
    · have hg := root_gap ht hs (by omega) hL1 (by omega : L < 627)
      rw [if_pos e0] at h2
      rw [e0] at h2 ⊢
      omega
    · rw [if_neg e0] at h2
      omega

theorem mirF_swap {lf ch pa fr ln zf zp zs x L}
    (ht : Tree lf ch pa fr ln x) (hx : x < 627) (hL1 : 1 ≤ L) (hLx : L < x)
    (hfr : fr L = fr x)
    (hm : MirF lf ch pa fr ln zf zp zs 1)
    {lf' : Nat → Bool} {ch' pa' fr' ln' zf' zp' zs' : Nat → Nat}
    (hlf : ∀ j, lf' j = if j = L then lf x else if j = x then lf L else lf j)
    (hch : ∀ j, ch' j = if j = L then ch x else if j = x then ch L else ch j)
    (hpa : ∀ j, pa' j = if lf x = false ∧ (j = ch x ∨ j + 1 = ch x) then L
                        else if lf L = false ∧ (j = ch L ∨ j + 1 = ch L) then x else pa j)
    (hln : ∀ c, ln' c = if lf x = true ∧ c = ch x then L
                        else if lf L = true ∧ c = ch L then x else ln c)
    (hfr' : ∀ j, fr' j = if j = L then fr x + 1 else fr j)
    (hzf : ∀ m, zf' m = if m = 626 - L then zf (626 - x) + 1
                        else if m = 626 - x then zf (626 - L) else zf m)
    (hzs : ∀ m, zs' m = if m = 626 - x then zs (626 - L)
                        else if m = 626 - L then zs (626 - x) else zs m)
    (hzp : ∀ m, zp' m =
      if (m = zs (626 - L) ∨ (zs (626 - L) < 627 ∧ m = zs (626 - L) + 1)) then 626 - x
      else if (m = zs (626 - x) ∨ (zs (626 - x) < 627 ∧ m = zs (626 - x) + 1)) then 626 - L
      else zp m) :
    MirF lf' ch' pa' fr' ln' zf' zp' zs' 1 := by
  have hL : L < 627 := by omega
  have hfx := hm.freq x hx
  rw [if_neg (by omega)] at hfx
  have hfL := hm.freq L hL
  rw [if_neg (by omega)] at hfL
  -- sons of the two nodes
  have sLt : lf L = true → zs (626 - L) = ch L + 627 ∧ ch L < 314 ∧ ln (ch L) = L := fun h =>
    ⟨hm.sonL L hL h, ht.le L hL h⟩
  have sLf : lf L = false → zs (626 - L) + ch L = 626 ∧ 2 ≤ ch L ∧ ch L ≤ 626 := fun h =>
    ⟨hm.sonB L hL h, (ht.br L hL h).1, (ht.br L hL h).2.1⟩
  have sxt : lf x = true → zs (626 - x) = ch x + 627 ∧ ch x < 314 ∧ ln (ch x) = x := fun h =>
    ⟨hm.sonL x hx h, ht.le x hx h⟩
  have sxf : lf x = false → zs (626 - x) + ch x = 626 ∧ 2 ≤ ch x ∧ ch x ≤ 626 := fun h =>
    ⟨hm.sonB x hx h, (ht.br x hx h).1, (ht.br x hx h).2.1⟩
  have hdisj : lf x = false → lf L = false → ch x ≠ ch L ∧ ch x + 1 ≠ ch L ∧ ch x ≠ ch L + 1 := by
    intro h1 h2
    obtain ⟨a1, a2, a3, a4⟩ := ht.br x hx h1
    obtain ⟨b1, b2, b3, b4⟩ := ht.br L hL h2
    refine ⟨?_, ?_, ?_⟩
    · intro e; rw [e] at a3; omega
    · intro e
      have e' : ch L - 1 = ch x := by omega
      rw [e'] at b4; omega
    · intro e
      have e' : ch x - 1 = ch L := by omega
      rw [e'] at a4; omega
  have hldisj : lf x = true → lf L = true → ch x ≠ ch L := by
    intro h1 h2 e
    have a := (sxt h1).2.2
    have b := (sLt h2).2.2
    rw [e] at a; omega
  refine ⟨?_, ?_, ?_, ?_, ?_, ?_, ?_⟩
  · -- freq
    intro j hj
    have := hm.freq j hj
    rw [hfr', hzf]
    by_cases e1 : j = L
    · subst e1
      rw [if_pos rfl, if_pos rfl, if_neg (by omega)]
      omega
    · have e1' : ¬ 626 - j = 626 - L := by omega
      rw [if_neg e1, if_neg e1']
      by_cases e2 : j = x
      · subst e2
        rw [if_pos rfl, if_neg (by omega)]
        omega
      · have e2' : ¬ 626 - j = 626 - x := by omega
        rw [if_neg e2']; exact this
  · -- sent
    rw [hzf, if_neg (by omega), if_neg (by omega)]; exact hm.sent
  · -- sonL
    intro j hj hl
    rw [hlf] at hl
    rw [hzs, hch]
    by_cases e1 : j = L
    · subst e1
      rw [if_pos rfl] at hl
      rw [if_neg (by omega), if_pos rfl, if_pos rfl]
      exact (sxt hl).1
    · have e1' : ¬ 626 - j = 626 - L := by omega
      rw [if_neg e1] at hl ⊢
      by_cases e2 : j = x
      · subst e2
        rw [if_pos rfl] at hl
        rw [if_pos rfl, if_pos rfl]
        exact (sLt hl).1
      · have e2' : ¬ 626 - j = 626 - x := by omega
        rw [if_neg e2] at hl ⊢
        rw [if_neg e2', if_neg e1']
        exact hm.sonL j hj hl
  · -- sonB
    intro j hj hl
    rw [hlf] at hl
    rw [hzs, hch]
    by_cases e1 : j = L
    · subst e1
      rw [if_pos rfl] at hl
      rw [if_neg (by omega), if_pos rfl, if_pos rfl]
      exact (sxf hl).1
    · have e1' : ¬ 626 - j = 626 - L := by omega
      rw [if_neg e1] at hl ⊢
      by_cases e2 : j = x
      · subst e2
        rw [if_pos rfl] at hl
        rw [if_pos rfl, if_pos rfl]
        exact (sLf hl).1
      · have e2' : ¬ 626 - j = 626 - x := by omega
        rw [if_neg e2] at hl ⊢
        rw [if_neg e2', if_neg e1']
        exact hm.sonB j hj hl
  · -- par
    intro j h1 hj
    have hp := hm.par j h1 hj
    rw [hzp, hpa]
    cases hlL : lf L <;> cases hlx : lf x
    · obtain ⟨a1, a2, a3⟩ := sLf hlL
      obtain ⟨b1, b2, b3⟩ := sxf hlx
      obtain ⟨d1, d2, d3⟩ := hdisj hlx hlL
      simp only [true_and]
      repeat' split
      all_goals omega
    · obtain ⟨a1, a2, a3⟩ := sLf hlL
      obtain ⟨b1, b2, b3⟩ := sxt hlx
      simp only [true_and, Bool.true_eq_false, false_and, if_false]
      repeat' split
      all_goals omega
    · obtain ⟨a1, a2, a3⟩ := sLt hlL
      obtain ⟨b1, b2, b3⟩ := sxf hlx
      simp only [true_and, Bool.true_eq_false, false_and, if_false]
      repeat' split
      all_goals omega
    · obtain ⟨a1, a2, a3⟩ := sLt hlL
      obtain ⟨b1, b2, b3⟩ := sxt hlx
      simp only [Bool.true_eq_false, false_and, if_false]
      repeat' split
      all_goals omega
  · -- root
    rw [hzp]
    cases hlL : lf L <;> cases hlx : lf x
    · obtain ⟨a1, a2, a3⟩ := sLf hlL
      obtain ⟨b1, b2, b3⟩ := sxf hlx
      rw [if_neg (by omega), if_neg (by omega)]; exact hm.root
    · obtain ⟨a1, a2, a3⟩ := sLf hlL
      obtain ⟨b1, b2, b3⟩ := sxt hlx
      rw [if_neg (by omega), if_neg (by omega)]; exact hm.root
    · obtain ⟨a1, a2, a3⟩ := sLt hlL
      obtain ⟨b1, b2, b3⟩ := sxf hlx
      rw [if_neg (by omega), if_neg (by omega)]; exact hm.root
    · obtain ⟨a1, a2, a3⟩ := sLt hlL
      obtain ⟨b1, b2, b3⟩ := sxt hlx
      rw [if_neg (by omega), if_neg (by omega)]; exact hm.root
  · -- lnP
    intro c hc
    have hp := hm.lnP c hc
    rw [hzp, hln]
    cases hlL : lf L <;> cases hlx : lf x
    · obtain ⟨a1, a2, a3⟩ := sLf hlL
      obtain ⟨b1, b2, b3⟩ := sxf hlx
      simp only [Bool.false_eq_true, false_and, if_false]
      rw [if_neg (by omega), if_neg (by omega)]; exact hp
    · obtain ⟨a1, a2, a3⟩ := sLf hlL
      obtain ⟨b1, b2, b3⟩ := sxt hlx
      simp only [Bool.false_eq_true, false_and, if_false, true_and]
      repeat' split
      all_goals omega
    · obtain ⟨a1, a2, a3⟩ := sLt hlL
      obtain ⟨b1, b2, b3⟩ := sxf hlx
      simp only [Bool.false_eq_true, false_and, if_false, true_and]
      repeat' split
      all_goals omega
    · obtain ⟨a1, a2, a3⟩ := sLt hlL
      obtain ⟨b1, b2, b3⟩ := sxt hlx
      have d := hldisj hlx hlL
      simp only [true_and]
      repeat' split
      all_goals omega

end LhasaV.Lh1Mirror
