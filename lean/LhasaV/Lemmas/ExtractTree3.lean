import LhasaV.Lemmas.ExtractTree2
/-!
# C06 (part 3): stored paths as component lists

`joinPath [a, b, c] = "a/b/c"`, `joinDir [a, b] = "a/b/"`: the strings a header carries for a
member whose components are real names.  Splitting them gives the components back, trailing
separators are trimmed as `make_parent_directories` does, and a byte-level prefix test between
two directory strings (the test `end_of_top_dir` performs) is the prefix test on components.
-/
namespace LhasaV.ExtractTree
open LhasaV LhasaV.Header LhasaV.Extract LhasaV.GlobFs LhasaV.Contain

/-- a real, separator-free name -/
def Name (c : Bytes) : Prop := NoSlash c ∧ Good c

/-- "a/b/": every component followed by a separator -/
def joinDir : List Bytes → Bytes
  | [] => []
  | c :: cs => c ++ 0x2f :: joinDir cs

/-- "a/b/c" -/
def joinPath : List Bytes → Bytes
  | [] => []
  | [c] => c
  | c :: d :: cs => c ++ 0x2f :: joinPath (d :: cs)

theorem joinPath_cons (c : Bytes) (cs : List Bytes) (h : cs ≠ []) :
    joinPath (c :: cs) = c ++ 0x2f :: joinPath cs := by
  cases cs with
  | nil => exact absurd rfl h
  | cons d cs => rfl

theorem joinDir_append (a b : List Bytes) : joinDir (a ++ b) = joinDir a ++ joinDir b := by
  induction a with
  | nil => rfl
  | cons c a ih => simp [joinDir, ih]

/-- "a/b/" ++ "c" = "a/b/c" -/
theorem joinDir_name (par : List Bytes) (name : Bytes) :
    joinDir par ++ name = joinPath (par ++ [name]) := by
  induction par with
  | nil => rfl
  | cons c par ih =>
    rw [List.cons_append, joinPath_cons c _ (by simp), ← ih]
    simp [joinDir]

/-- "a/b/" = "a/b" ++ "/" -/
theorem joinDir_eq (cs : List Bytes) (h : cs ≠ []) : joinDir cs = joinPath cs ++ [0x2f] := by
  induction cs with
  | nil => exact absurd rfl h
  | cons c cs ih =>
    by_cases hcs : cs = []
    · subst hcs; simp [joinDir, joinPath]
    · rw [joinPath_cons c cs hcs, joinDir, ih hcs]; simp

/-! ## splitting -/

theorem split_joinPath (cs : List Bytes) (hn : ∀ c ∈ cs, NoSlash c) (h : cs ≠ []) :
    Fs.splitPath (joinPath cs) = cs := by
  induction cs with
  | nil => exact absurd rfl h
  | cons c cs ih =>
    have hc : NoSlash c := hn c (by simp)
    by_cases hcs : cs = []
    · subst hcs; simpa [joinPath] using split_noslash c hc
    · rw [joinPath_cons c cs hcs, split_cons_comp c _ hc, ih (fun x hx => hn x (by simp [hx])) hcs]

theorem filter_good (cs : List Bytes) (hg : ∀ c ∈ cs, Good c) :
    cs.filter (fun c => c ≠ [] ∧ c ≠ [0x2e]) = cs := by
  rw [List.filter_eq_self]
  intro c hc
  have := hg c hc
  simp [this.1, this.2.1]

theorem comps_joinPath (cs : List Bytes) (hn : ∀ c ∈ cs, Name c) (h : cs ≠ []) :
    comps (joinPath cs) = cs := by
  unfold comps
  rw [split_joinPath cs (fun c hc => (hn c hc).1) h, filter_good cs (fun c hc => (hn c hc).2)]

theorem split_trailing (x : Bytes) : Fs.splitPath (x ++ [0x2f]) = Fs.splitPath x ++ [[]] := by
  rw [split_append, split_nil]

theorem comps_trailing (x : Bytes) : comps (x ++ [0x2f]) = comps x := by
  unfold comps
  rw [split_trailing, List.filter_append]
  simp

theorem comps_joinDir (cs : List Bytes) (hn : ∀ c ∈ cs, Name c) (h : cs ≠ []) :
    comps (joinDir cs) = cs := by
  rw [joinDir_eq cs h, comps_trailing, comps_joinPath cs hn h]

/-! ## first and last byte -/

theorem name_head (c : Bytes) (h : Name c) : c.head? ≠ some 0x2f := by
  cases c with
  | nil => simp
  | cons b bs =>
    have := h.1 b (by simp)
    simpa using this

theorem joinPath_rel (cs : List Bytes) (hn : ∀ c ∈ cs, Name c) : (joinPath cs).head? ≠ some 0x2f := by
  cases cs with
  | nil => simp [joinPath]
  | cons c cs =>
    have hc := hn c (by simp)
    by_cases hcs : cs = []
    · subst hcs; exact name_head c hc
    · rw [joinPath_cons c cs hcs]
      cases c with
      | nil => exact absurd rfl hc.2.1
      | cons b bs =>
        have := hc.1 b (by simp)
        simpa using this

theorem joinDir_rel (cs : List Bytes) (hn : ∀ c ∈ cs, Name c) : (joinDir cs).head? ≠ some 0x2f := by
  cases cs with
  | nil => simp [joinDir]
  | cons c cs =>
    have hc := hn c (by simp)
    cases c with
    | nil => exact absurd rfl hc.2.1
    | cons b bs =>
      have := hc.1 b (by simp)
      simpa [joinDir] using this

/-- `make_parent_directories` first removes trailing separators -/
def trim (p : Bytes) : Bytes := (p.reverse.dropWhile (· == 0x2f)).reverse

theorem trim_name_end (x c : Bytes) (hc : Name c) : trim (x ++ c) = x ++ c := by
  unfold trim
  have hne : c ≠ [] := hc.2.1
  have hl : c.getLast hne ≠ 0x2f := hc.1 _ (List.getLast_mem hne)
  have hr : (x ++ c).reverse = c.getLast hne :: (c.dropLast.reverse ++ x.reverse) := by
    conv => lhs; rw [← List.dropLast_concat_getLast hne]
    simp
  rw [hr, List.dropWhile_cons]
  have : (c.getLast hne == 0x2f) = false := by simpa using hl
  simp only [this, Bool.false_eq_true, if_false]
  rw [← hr, List.reverse_reverse]

theorem trim_slash (x : Bytes) : trim (x ++ [0x2f]) = trim x := by
  unfold trim
  simp

theorem joinPath_snoc (cs : List Bytes) (h : cs ≠ []) :
    joinPath cs = joinDir cs.dropLast ++ cs.getLast h := by
  conv => lhs; rw [← List.dropLast_concat_getLast h]
  rw [joinDir_name]

theorem trim_joinPath (cs : List Bytes) (hn : ∀ c ∈ cs, Name c) (h : cs ≠ []) :
    trim (joinPath cs) = joinPath cs := by
  rw [joinPath_snoc cs h]
  exact trim_name_end _ _ (hn _ (List.getLast_mem h))

theorem trim_joinDir (cs : List Bytes) (hn : ∀ c ∈ cs, Name c) (h : cs ≠ []) :
    trim (joinDir cs) = joinPath cs := by
  rw [joinDir_eq cs h, trim_slash, trim_joinPath cs hn h]

/-! ## the byte-level prefix test of `end_of_top_dir` -/

theorem noSlash_prefix_eq (a b x y : Bytes) (ha : NoSlash a) (hb : NoSlash b)
    (h : a ++ 0x2f :: x = b ++ 0x2f :: y) : a = b ∧ x = y := by
  induction a generalizing b with
  | nil =>
    cases b with
    | nil => simpa using h
    | cons c b =>
      simp only [List.nil_append, List.cons_append, List.cons.injEq] at h
      exact absurd h.1.symm (hb c (by simp))
  | cons c a ih =>
    cases b with
    | nil =>
      simp only [List.nil_append, List.cons_append, List.cons.injEq] at h
      exact absurd h.1 (ha c (by simp))
    | cons d b =>
      simp only [List.cons_append, List.cons.injEq] at h
      obtain ⟨h1, h2⟩ := ih b (fun z hz => ha z (by simp [hz])) (fun z hz => hb z (by simp [hz])) h.2
      exact ⟨by rw [h.1, h1], h2⟩

/-- "a/" … is a byte prefix of "b/" … exactly when the components `a` are a prefix of `b` -/
theorem joinDir_prefix (a b : List Bytes) (ha : ∀ c ∈ a, NoSlash c) (hb : ∀ c ∈ b, NoSlash c) :
    joinDir a <+: joinDir b ↔ a <+: b := by
  constructor
  · intro h
    induction a generalizing b with
    | nil => exact List.nil_prefix
    | cons c a ih =>
      cases b with
      | nil =>
        obtain ⟨r, hr⟩ := h
        simp [joinDir] at hr
      | cons d b =>
        obtain ⟨r, hr⟩ := h
        simp only [joinDir, List.append_assoc, List.cons_append] at hr
        obtain ⟨h1, h2⟩ := noSlash_prefix_eq c d _ _ (ha c (by simp)) (hb d (by simp)) hr
        subst h1
        exact List.cons_prefix_cons.2 ⟨rfl, ih b (fun z hz => ha z (by simp [hz]))
          (fun z hz => hb z (by simp [hz])) ⟨r, h2⟩⟩
  · rintro ⟨r, rfl⟩
    rw [joinDir_append]
    exact List.prefix_append _ _

theorem take_ne_iff_not_prefix (p tp : Bytes) : (p.take tp.length != tp) = true ↔ ¬ tp <+: p := by
  rw [bne_iff_ne, ne_eq, List.prefix_iff_eq_take]
  exact not_congr ⟨fun h => h.symm, fun h => h.symm⟩

end LhasaV.ExtractTree
