import LhasaV.Lemmas.ArchivePack3
/-!
# C06, packers from the format specifications (part 4): `-pm1-` members of literals

A `-pm1-` stream (`Spec.PmEnc.Stream1`) is a sequence of byte blocks (1..216 literals) and copies;
a block shorter than 216 bytes MUST be followed by a copy.  The description of data bytes `d`:
byte-class tree 0 (all six classes reachable), blocks of 216 literals, and — when `d.length` is not
a multiple of 216 — a last shorter block followed by a two-byte copy from distance 0.  The
expansion is therefore `d` followed by at most two more bytes; the member declares the length
`d.length`, which the decoder round trip allows (declared length ≤ expansion, C04).

* `pm1Lit_bits`: the description is well-formed for EVERY data string, at most `11·d.length + 31` bits;
* `pm1Expand_lit`: the expansion is `d ++ e`, `e.length ≤ 2`;
* `packOk_pm1Lit`: by `PmRT.pm1_round_trip` (the `Wrap.avail` form of C04 `pm1_decode_serialise`).
-/
set_option linter.unusedSimpArgs false
namespace LhasaV.ArchivePack
open LhasaV LhasaV.ArchiveOf LhasaV.Spec LhasaV.Spec.PmEnc LhasaV.Spec.Lz77 LhasaV.Spec.LhNewEnc
open LhasaV.ExtractTree.Sample LhasaV.LzRoundTrip

def pm1M : Bytes := [0x2d, 0x70, 0x6d, 0x31, 0x2d]

/-- a literal with the first path of its class -/
def lit0 (b : UInt8) : UInt8 × Nat := (b, 0)

/-- blocks of 216 literals; a shorter last block is followed by the copy (distance 0, length 2) -/
def pm1Cmds : Nat → Bytes → List Cmd1
  | 0, _ => []
  | k+1, d =>
    if d = [] then []
    else if d.length < 216 then [.block (d.map lit0) (some (0, 2))]
    else .block ((d.take 216).map lit0) none :: pm1Cmds k (d.drop 216)

/-- **the `-pm1-` description of `d`**: tree 0 -/
def pm1LitStream (d : Bytes) : Stream1 := { tree := 0, cmds := pm1Cmds d.length d }

/-! ## expansion -/

theorem denote_pm1Cmds (k : Nat) (d : Bytes) (hk : d.length ≤ k) :
    ∃ tl, (pm1Cmds k d).flatMap Cmd1.denote = d.map WCmd.lit ++ tl ∧ (tl = [] ∨ tl = [.copy 0 2]) := by
  induction k generalizing d with
  | zero =>
    have : d = [] := List.length_eq_zero_iff.mp (by omega)
    subst this
    exact ⟨[], rfl, Or.inl rfl⟩
  | succ k ih =>
    unfold pm1Cmds
    split
    · rename_i h; subst h; exact ⟨[], rfl, Or.inl rfl⟩
    · split
      · refine ⟨[.copy 0 2], ?_, Or.inr rfl⟩
        simp [Cmd1.denote, lit0, Function.comp_def]
      · rename_i h1 h2
        obtain ⟨tl, e, htl⟩ := ih (d.drop 216) (by simp; omega)
        refine ⟨tl, ?_, htl⟩
        rw [List.flatMap_cons, e]
        simp only [Cmd1.denote, lit0, List.map_map, Function.comp_def, List.append_nil]
        rw [← List.append_assoc, ← List.map_append, List.take_append_drop]

theorem expandWinFrom_lits_append (fill : UInt8) (d : Bytes) (tl : List WCmd) (out : Bytes) :
    expandWinFrom fill (d.map WCmd.lit ++ tl) out = expandWinFrom fill tl (out ++ d) := by
  induction d generalizing out with
  | nil => simp
  | cons b d ih => simp [expandWinFrom, ih]

/-- **the expansion is the data followed by at most two bytes** -/
theorem pm1Expand_lit (d : Bytes) : ∃ e, pm1Expand (pm1LitStream d) = d ++ e ∧ e.length ≤ 2 := by
  obtain ⟨tl, e, htl⟩ := denote_pm1Cmds d.length d (Nat.le_refl _)
  rw [pm1Expand, pm1LitStream, e, expandWin, expandWinFrom_lits_append]
  rcases htl with rfl | rfl
  · exact ⟨[], by simp [expandWinFrom], by simp⟩
  · exact ⟨[winByte 0 ([] ++ d) 0, winByte 0 (([] ++ d) ++ [winByte 0 ([] ++ d) 0]) 0],
      by simp [expandWinFrom, copyWin], by simp⟩

/-! ## the encoder accepts the description -/

/-- byte-class tree 0: every class a–f has a path -/
def pm1T0 : Option T := pm1Trees.getD 0 none

theorem pm1Trees_zero : pm1Trees[0]? = some pm1T0 := by rfl

/-- the move-to-front list holds all 256 bytes -/
def MtfOk (l : List UInt8) : Prop := l.length = 256 ∧ ∀ b : UInt8, b ∈ l

theorem mtfOk_init : MtfOk initOrder := ⟨length_initOrder, all_initOrder⟩

theorem mtfOk_move {l : List UInt8} (h : MtfOk l) (b : UInt8) : MtfOk (mtfMove l b) :=
  ⟨by rw [PmRT.mtfMove_length _ _ (h.2 b)]; exact h.1, fun c => PmRT.mtfMove_mem _ _ _ (h.2 c)⟩

/-- every list position below 256 is encodable under tree 0 (first path), in at most 10 bits -/
theorem byte_fact : ∀ k, k < 256 →
    (match pm1ByteBits pm1T0 k 0 with
     | some bits => decide (bits.length ≤ 10)
     | none => false) = true := by decide +kernel

/-- every block length 1..216 has a count code of at most 16 bits -/
theorem count_fact : ∀ n, n < 217 → 1 ≤ n →
    (match pm1BlockCount n with
     | some c => decide (c.length ≤ 16)
     | none => false) = true := by decide +kernel

theorem pm1Bytes_lits (bs : Bytes) (mtf : List UInt8) (hm : MtfOk mtf) :
    ∃ bits mtf', pm1Bytes pm1T0 (bs.map lit0) mtf = some (bits, mtf') ∧ MtfOk mtf' ∧
      bits.length ≤ 10 * bs.length := by
  induction bs generalizing mtf with
  | nil => exact ⟨[], mtf, rfl, hm, Nat.le_refl _⟩
  | cons b bs ih =>
    have hk : mtf.idxOf b < 256 := by rw [← hm.1]; exact List.idxOf_lt_length_of_mem (hm.2 b)
    have hf := byte_fact _ hk
    obtain ⟨r, mtf', hr, hm', hl⟩ := ih (mtfMove mtf b) (mtfOk_move hm b)
    rw [List.map_cons, lit0, pm1Bytes]
    generalize pm1ByteBits pm1T0 (mtf.idxOf b) 0 = o at hf
    match o, hf with
    | some bits, hf =>
      simp only [decide_eq_true_eq] at hf
      refine ⟨bits ++ r, mtf', by simp only [hr, Option.map_some], hm', ?_⟩
      rw [List.length_append, List.length_cons]
      omega

/-- the closing copy (distance 0, length 2) is encodable once a byte has been written -/
theorem pm1CopyStep_02 (out : Array UInt8) (mtf : List UInt8) (h : 1 ≤ out.size) :
    ∃ bits out2 mtf2, pm1CopyStep out mtf 0 2 = some (bits, out2, mtf2) ∧ bits.length ≤ 9 := by
  have h0 : ¬ out.size ≤ 0 := by omega
  refine ⟨[false] ++ (if 576 ≤ out.size then [false] else []) ++ (if 64 ≤ out.size then [false] else []) ++
    bitsN 6 0, out ++ (newBytes 0 2 0 out).toArray, mtfMoves mtf (newBytes 0 2 0 out), ?_, ?_⟩
  · simp only [pm1CopyStep, pm1CopyBits, h0, if_false, if_true, show (0 : Nat) < 64 by decide]
  · simp only [List.length_append, length_bitsN, List.length_cons, List.length_nil]
    split <;> split <;> simp

/-- **the encoder loop accepts the description**, at most `11·d.length + 26` bits -/
theorem encLoop1_lits (k : Nat) (d : Bytes) (hk : d.length ≤ k) (out : Array UInt8) (mtf : List UInt8)
    (hm : MtfOk mtf) :
    ∃ bits, encLoop1 pm1T0 (pm1Cmds k d) out mtf = some bits ∧ bits.length ≤ 11 * d.length + 26 := by
  induction k generalizing d out mtf with
  | zero => exact ⟨[], rfl, Nat.zero_le _⟩
  | succ k ih =>
    unfold pm1Cmds
    split
    · exact ⟨[], rfl, Nat.zero_le _⟩
    · rename_i hne
      have hpos : 0 < d.length := List.length_pos_iff.mpr hne
      split
      · rename_i hlt
        obtain ⟨bb, mtf1, hb, hm1, hbl⟩ := pm1Bytes_lits d mtf hm
        have hc := count_fact d.length (by omega) hpos
        obtain ⟨cb, out2, mtf2, hcp, hcl⟩ := pm1CopyStep_02 (out ++ ((d.map lit0).map (·.1)).toArray) mtf1
          (by simp; omega)
        generalize hcnt : pm1BlockCount d.length = o at hc
        match o, hc with
        | some cnt, hc =>
          simp only [decide_eq_true_eq] at hc
          have hne216 : ¬ d.length = 216 := by omega
          refine ⟨true :: cnt ++ bb ++ cb ++ [], ?_, ?_⟩
          · simp only [encLoop1, List.length_map, hcnt, hb, hne216, if_false, hcp, Option.map_some]
          · simp only [List.length_append, List.length_cons, List.length_nil]
            omega
      · rename_i hge
        have hl : (d.take 216).length = 216 := by simp; omega
        obtain ⟨bb, mtf1, hb, hm1, hbl⟩ := pm1Bytes_lits (d.take 216) mtf hm
        have hc := count_fact 216 (by decide) (by decide)
        obtain ⟨r, hr, hrl⟩ := ih (d.drop 216) (by simp; omega)
          (out ++ (((d.take 216).map lit0).map (·.1)).toArray) mtf1 hm1
        generalize hcnt : pm1BlockCount 216 = o at hc
        match o, hc with
        | some cnt, hc =>
          simp only [decide_eq_true_eq] at hc
          refine ⟨true :: cnt ++ bb ++ r, ?_, ?_⟩
          · simp only [encLoop1, List.length_map, hl, hcnt, hb, if_true, Option.isSome_none, Bool.false_eq_true,
              if_false, hr, Option.map_some]
          · rw [hl] at hbl
            simp only [List.length_append, List.length_cons, List.length_drop] at hrl ⊢
            omega

/-- **the description is well-formed** (the encoder yields a bit string), and short -/
theorem pm1Lit_bits (d : Bytes) :
    ∃ bits, pm1Bits (pm1LitStream d) = some bits ∧ bits.length ≤ 11 * d.length + 31 := by
  obtain ⟨t, ht, htl⟩ := encLoop1_lits d.length d (Nat.le_refl _) #[] initOrder mtfOk_init
  refine ⟨bitsN 5 0 ++ t, ?_, ?_⟩
  · simp only [pm1Bits, pm1LitStream, pm1Trees_zero, ht, Option.map_some]
  · simp only [List.length_append, length_bitsN]
    omega

/-! ## the packer -/

/-- `-pm1-` members holding the data as literals: the specification's serialiser on the
description (`[]` would stand for "not well-formed", which does not occur: `pm1Lit_bits`) -/
def pm1Lit (l1 : Bool := false) : Packer :=
  { pack := fun data => (pm1M, (pm1Serialise (pm1LitStream data)).getD []), level1 := l1 }

/-- **`-pm1-` members of literals**: every data string shorter than 3 100 000 000 bytes (at most
11 bits per byte; the expansion, two bytes longer at most, stays below the decoder's 32-bit
position counter) -/
theorem packOk_pm1Lit (l1 : Bool) (data : Bytes) (h : data.length < 3100000000) : PackOk (pm1Lit l1) data := by
  have hn : mname pm1M = "-pm1-" := by decide +kernel
  have hi : (decoderInfo "-pm1-").isSome = true := by decide +kernel
  obtain ⟨info, hi⟩ := Option.isSome_iff_exists.1 hi
  obtain ⟨bits, hb, hbl⟩ := pm1Lit_bits data
  obtain ⟨e, he, hel⟩ := pm1Expand_lit data
  have hpack : (pm1Serialise (pm1LitStream data)).getD [] = packBits bits := by
    simp only [pm1Serialise, hb, Option.map_some, Option.getD_some]
  refine packOk_of_roundtrip pm1M (fun d => (pm1Serialise (pm1LitStream d)).getD []) l1 Pm1.dec info data
    (by decide) (by decide) ?_ (by rw [hn]; rfl) (by rw [hn]; exact hi) ?_
  · show ((pm1Serialise (pm1LitStream data)).getD []).length < 4294901760
    rw [hpack]
    have := length_packBits bits
    omega
  · show Wrap.avail _ data.length (Except.ok (Pm1.init { data := ((pm1Serialise (pm1LitStream data)).getD []).toArray })) = data
    rw [hpack]
    have := PmRT.pm1_round_trip (pm1LitStream data) bits hb
      (by rw [he, List.length_append]; omega) data.length 0 (by rw [he, List.length_append]; omega)
    rw [he, List.take_left'] at this
    · exact this
    · rfl

end LhasaV.ArchivePack
