import LhasaV.Lemmas.Res
/-!
`Safe r P`: the modelled C call `r` performs no undefined behaviour (`fault` is
excluded) and, when it returns normally, its result satisfies `P`.
-/
namespace LhasaV.Res

def Safe {α} (r : Res α) (P : α → Prop) : Prop :=
  (∀ w, r ≠ .fault w) ∧ ∀ a, r = .ok a → P a

theorem safe_ok {α} {P : α → Prop} {a : α} (h : P a) : Safe (.ok a) P :=
  ⟨fun w hw => (by cases hw), fun b hb => (by cases hb; exact h)⟩

theorem safe_fail {α} {P : α → Prop} : Safe (.fail : Res α) P :=
  ⟨fun w hw => (by cases hw), fun b hb => (by cases hb)⟩

theorem safe_bind {α β} {x : Res α} {f : α → Res β} {P : α → Prop} {Q : β → Prop}
    (hx : Safe x P) (hf : ∀ a, P a → Safe (f a) Q) : Safe (x >>= f) Q := by
  cases x with
  | ok a => exact hf a (hx.2 a rfl)
  | fail => exact safe_fail
  | fault w => exact absurd rfl (hx.1 w)

theorem safe_mono {α} {r : Res α} {P Q : α → Prop} (h : Safe r P) (hpq : ∀ a, P a → Q a) :
    Safe r Q :=
  ⟨h.1, fun a ha => hpq a (h.2 a ha)⟩

theorem safe_ite {α} {P : α → Prop} (c : Prop) [Decidable c] {a b : Res α}
    (ha : c → Safe a P) (hb : ¬c → Safe b P) : Safe (if c then a else b) P := by
  by_cases h : c
  · rw [if_pos h]; exact ha h
  · rw [if_neg h]; exact hb h

end LhasaV.Res
