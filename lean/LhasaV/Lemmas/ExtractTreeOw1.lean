import LhasaV.Lemmas.ExtractTreeOpt
/-!
# C06, overwriting (part 1): `lha_arch_fopen` on a name that is a regular file

`lha_arch_fopen` first unlinks the name.  When the name is an existing regular file in a
directory the user may write, the `unlink` removes it and stamps the parent (`Removed`); from there
on everything is as for a new name.  So `lha_reader_extract` of a file member over an existing file
is `lha_reader_extract` of that member in the state after the `unlink`
(`readerExtract_file_over`), and its total effect has the same shape as a creation (`Created`:
the archived file at the place, parent stamped, nothing else changed) — `file_over_created`.
-/
namespace LhasaV.ExtractTree
open LhasaV LhasaV.Header LhasaV.Extract LhasaV.GlobFs LhasaV.Contain

/-- `fs'` is `fs` with the object at `q` removed, the parent of `q` stamped -/
structure Removed (fs fs' : Fs.St) (q : Fs.Path) : Prop where
  params : SameParams fs fs'
  self : Fs.lookup fs' q = none
  parent : ∀ m t, Fs.lookup fs q.dropLast = some (.dir m t) → q.dropLast ≠ [] →
    Fs.lookup fs' q.dropLast = some (.dir m fs.now)
  frame : ∀ x, x ≠ q → x ≠ q.dropLast → Fs.lookup fs' x = Fs.lookup fs x

theorem delEnt_params (s : Fs.St) (k : Fs.Path) : SameParams s (Fs.delEnt s k) :=
  ⟨rfl, rfl, rfl, rfl, rfl⟩

theorem removed_of_del (s : Fs.St) (q : Fs.Path) (op : String) (hq : q ≠ []) :
    Removed s (Fs.logMut (Fs.stampParent (Fs.delEnt s q) q) op q) q := by
  have hne := dropLast_ne_self q hq
  refine ⟨((delEnt_params s q).trans (stampParent_params _ q)).trans (logMut_params _ _ _), ?_, ?_, ?_⟩
  · rw [lookup_logMut, lookup_stampParent_ne _ _ _ (fun h => hne h.symm), lookup_delEnt_eq s q hq]
  · intro m t h hpar
    rw [lookup_logMut]
    have h' : Fs.lookup (Fs.delEnt s q) q.dropLast = some (.dir m t) := by
      rw [lookup_delEnt_ne s q _ hne]; exact h
    rw [lookup_stampParent_eq _ q m t h' hpar]
    rfl
  · intro x h1 h2
    rw [lookup_logMut, lookup_stampParent_ne _ _ _ h2, lookup_delEnt_ne s q x h1]

/-- a removal followed by a creation at the same place is a creation (replacement) -/
theorem Removed.created {a b c : Fs.St} {q : Fs.Path} {e : Fs.Ent} (h1 : Removed a b q)
    (h2 : Created b c q e) : Created a c q e := by
  refine ⟨h1.params.trans h2.params, h2.self, ?_, ?_⟩
  · intro m t h hp
    have := h2.parent m a.now (h1.parent m t h hp) hp
    rw [h1.params.now] at this
    exact this
  · intro x hx1 hx2
    rw [h2.frame x hx1 hx2]; exact h1.frame x hx1 hx2

theorem Removed.dirsKept {fs fs' : Fs.St} {q : Fs.Path} (h : Removed fs fs' q)
    (d : Bytes) (m t : Nat) (hf : Fs.lookup fs q = some (.file d m t)) : DirsKept fs fs' := by
  refine ⟨h.params.root, h.params.cwd, ?_⟩
  intro p m' t' hp
  by_cases h1 : p = q
  · subst h1; rw [hf] at hp; cases hp
  · by_cases h2 : p = q.dropLast
    · subst h2
      by_cases h0 : q.dropLast = []
      · rw [h0] at hp ⊢
        rw [lookup_nil] at hp ⊢
        exact ⟨t', hp⟩
      · exact ⟨fs.now, h.parent m' t' hp h0⟩
    · exact ⟨t', by rw [h.frame p h1 h2]; exact hp⟩

theorem canModify_kept {fs fs' : Fs.St} (hk : DirsKept fs fs') (p : Fs.Path) (m t : Nat)
    (hd : Fs.lookup fs p = some (.dir m t)) (h : Fs.canModify fs p = true) :
    Fs.canModify fs' p = true := by
  obtain ⟨t', hd'⟩ := hk.2.2 p m t hd
  unfold Fs.canModify at h ⊢
  rw [hd] at h
  rw [hd', hk.1]
  exact h

section target
variable {fs : Fs.St} {path : Bytes} {cs : List Bytes}

/-- `stat` on a regular file -/
theorem existsKind_file (h : Target fs path cs) (d : Bytes) (m t : Nat)
    (hl : Fs.lookup fs (fs.cwd ++ cs) = some (.file d m t)) : Fs.existsKind fs path = .file := by
  unfold Fs.existsKind
  rw [h.resolveRR true (by intro t' e; rw [hl] at e; cases e)]
  simp [hl]

/-- **`unlink`** of a regular file in a directory the user may write -/
theorem unlink_file (h : Target fs path cs) (d : Bytes) (m t : Nat)
    (hl : Fs.lookup fs (fs.cwd ++ cs) = some (.file d m t))
    (hm : Fs.canModify fs (fs.cwd ++ cs).dropLast = true) :
    Fs.unlink fs path = (true, Fs.logMut (Fs.stampParent (Fs.delEnt fs (fs.cwd ++ cs)) (fs.cwd ++ cs))
      "unlink" (fs.cwd ++ cs)) := by
  unfold Fs.unlink
  rw [h.resolve_nofollow]
  simp [h.q_ne, hl, hm]

theorem unlink_file_removed (h : Target fs path cs) (d : Bytes) (m t : Nat)
    (hl : Fs.lookup fs (fs.cwd ++ cs) = some (.file d m t))
    (hm : Fs.canModify fs (fs.cwd ++ cs).dropLast = true) :
    Removed fs (Fs.unlink fs path).2 (fs.cwd ++ cs) := by
  rw [unlink_file h d m t hl hm]
  exact removed_of_del fs _ _ h.q_ne

/-- the state after the `unlink`: the same target, now free, in the same writable directory -/
theorem after_unlink (h : Target fs path cs) (d : Bytes) (m t : Nat)
    (hl : Fs.lookup fs (fs.cwd ++ cs) = some (.file d m t))
    (hm : Fs.canModify fs (fs.cwd ++ cs).dropLast = true) :
    Target (Fs.unlink fs path).2 path cs ∧
    Fs.lookup (Fs.unlink fs path).2 ((Fs.unlink fs path).2.cwd ++ cs) = none ∧
    Fs.canModify (Fs.unlink fs path).2 ((Fs.unlink fs path).2.cwd ++ cs).dropLast = true := by
  have hR := unlink_file_removed h d m t hl hm
  have hk := hR.dirsKept d m t hl
  obtain ⟨pm, pt, hpar⟩ := h.parent_dir
  rw [hR.params.cwd]
  exact ⟨h.kept hk, hR.self, canModify_kept hk _ pm pt hpar hm⟩

/-- `lha_arch_fopen` over an existing regular file is `lha_arch_fopen` after its `unlink` -/
theorem archFopen_over (h : Target fs path cs) (d : Bytes) (m t : Nat)
    (hl : Fs.lookup fs (fs.cwd ++ cs) = some (.file d m t))
    (hm : Fs.canModify fs (fs.cwd ++ cs).dropLast = true) (perms : Option Nat) :
    Fs.archFopen fs path perms = Fs.archFopen (Fs.unlink fs path).2 path perms := by
  obtain ⟨hT1, hn1, _⟩ := after_unlink h d m t hl hm
  conv => rhs; unfold Fs.archFopen; rw [unlink_none hT1 hn1]
  rfl

end target

/-- `lha_reader_extract` of a file member whose decoder opens looks at the file system only
through `lha_arch_fopen` -/
theorem readerExtract_file_via (rd : Reader.St) (fs fs1 : Fs.St) (fn : Bytes) (c : Reader.HObj)
    (ht : rd.currType = .normal) (hc : rd.curr = some c) (hm : c.h.method ≠ lhd)
    (hopen : (Reader.openDecoder rd).1 = true)
    (hA : ∀ perms, Fs.archFopen fs fn perms = Fs.archFopen fs1 fn perms) :
    readerExtract rd fs fn = readerExtract rd fs1 fn := by
  have hm' : (c.h.method != lhd) = true := by simpa using hm
  unfold readerExtract
  rw [ht, hc]
  simp only [hm', if_true, hopen, Bool.not_true, Bool.false_eq_true, if_false, hA]

/-- **a regular file member extracted over an existing regular file**: the old file is replaced
by the archived one — contents, recorded mode (else 0600 under the umask), recorded time (else
`now`); the parent directory's time becomes `now`; nothing else changes. -/
theorem file_over_created (rd : Reader.St) (fs : Fs.St) (fn : Bytes) (c : Reader.HObj)
    (cs : List Bytes) (p : Fs.Path) (data : Bytes) (perms : Option Nat) (mtime : Nat)
    (hty : rd.currType = .normal) (hcur : rd.curr = some c) (hpol : rd.policy = .endOfDir)
    (hh : HdrOf (.file p data perms mtime) c.h) (hk : EntryOk (.file p data perms mtime))
    (hT : Target fs fn cs) (d0 : Bytes) (m0 t0 : Nat)
    (hl : Fs.lookup fs (fs.cwd ++ cs) = some (.file d0 m0 t0))
    (hmod : Fs.canModify fs (fs.cwd ++ cs).dropLast = true)
    (hdec : (Reader.openDecoder rd).1 = true ∧ (Reader.extract rd true).1 = (true, data)) :
    (readerExtract rd fs fn).1 = true ∧
    RdKept rd (readerExtract rd fs fn).2.1 ∧
    (readerExtract rd fs fn).2.1.dirStack = rd.dirStack ∧
    Created fs (readerExtract rd fs fn).2.2 (fs.cwd ++ cs)
      ((Entry.file p data perms mtime).opened fs.now fs.umask) := by
  have hR := unlink_file_removed hT d0 m0 t0 hl hmod
  obtain ⟨hT1, hn1, hm1⟩ := after_unlink hT d0 m0 t0 hl hmod
  have hmeth : c.h.method ≠ lhd := hh.2.2.1
  rw [readerExtract_file_via rd fs (Fs.unlink fs fn).2 fn c hty hcur hmeth hdec.1
    (archFopen_over hT d0 m0 t0 hl hmod)]
  obtain ⟨r1, rk, rs, rc⟩ := entry_created_at rd (Fs.unlink fs fn).2 fn c (.file p data perms mtime) cs
    hty hcur hpol hh hk hT1 hn1 hm1 (by
      intro p' d' pm' mt' he
      injection he with _ hd _ _
      subst hd
      exact hdec)
  rw [hR.params.cwd, hR.params.now, hR.params.umask] at rc
  exact ⟨r1, rk, rs, hR.created rc⟩

end LhasaV.ExtractTree
