import LhasaV.Lemmas.ExtractTreeOpt12
/-!
# C06 with options (part 13): the instances for `archiveOf`; non-vacuity

Every hypothesis of the three theorems is discharged for `sampleTree` (`a/` 0555, `a/x`, `a/b/`
0555, `a/b/y`, `a/b/l → y`, `z`) in `sampleFs` (an ordinary user, umask 022, cwd `r`):
pattern `a/*`, `w=out` (which does not exist), option `i`.
-/
set_option linter.unusedSimpArgs false
namespace LhasaV.ArchiveOf
open LhasaV LhasaV.Header LhasaV.Extract LhasaV.GlobFs LhasaV.Contain LhasaV.ExtractTree
open LhasaV.ExtractTree.Sample

/-! ## stored members: `archiveOf` -/

/-- (1) wildcards on the bytes `archiveOf es` -/
theorem extract_archiveOf_sel (es : List Entry) (o : Opts) (fs : Fs.St) (answers : Bytes)
    (hwf : WFS (selected o.filters) [] [] es) (henc : Encodable es)
    (hx : o.extractPath = none) (hu : o.usePath = true) (hfs : EmptyDir fs) (ha : Access fs) :
    (run (archiveOf es) o fs answers).result = true ∧
    (∀ p, p ≠ [] → Fs.lookup (run (archiveOf es) o fs answers).fs (fs.cwd ++ p) =
      treeOf fs.now fs.umask (es.filter (selected o.filters)) p) ∧
    (∀ x, ¬ fs.cwd <+: x → Fs.lookup (run (archiveOf es) o fs answers).fs x = Fs.lookup fs x) := by
  rw [archiveOf_eq]
  obtain ⟨h1, h2, _, h4⟩ := extract_archiveWith_sel stored es o fs answers hwf henc (packs_stored henc) hx hu hfs ha
  exact ⟨h1, h2, h4⟩

/-- (2) `w=DIR` on the bytes `archiveOf es` -/
theorem extract_archiveOf_reloc (es : List Entry) (o : Opts) (fs : Fs.St) (answers : Bytes)
    (ds : List Bytes) (k : Nat) (hwf : WellFormed es) (henc : Encodable es)
    (hne : ds ≠ []) (hx : o.extractPath = some (joinPath ds)) (hu : o.usePath = true) (hnf : o.filters = [])
    (hb : BaseOk fs ds k) (ha : AccessW fs) (hdepth : ∀ e ∈ es, ds.length + e.path.length < 64) :
    (run (archiveOf es) o fs answers).result = true ∧
    (∀ p, p ≠ [] → Fs.lookup (run (archiveOf es) o fs answers).fs (fs.cwd ++ ds ++ p) =
      treeOf fs.now fs.umask es p) ∧
    (es ≠ [] → ∃ m t0, Fs.lookup (mkBase fs ds) (fs.cwd ++ ds) = some (.dir m t0) ∧
      Fs.lookup (run (archiveOf es) o fs answers).fs (fs.cwd ++ ds) = some (.dir m fs.now)) ∧
    (es ≠ [] → ∀ x, ¬ (fs.cwd ++ ds) <+: x →
      Fs.lookup (run (archiveOf es) o fs answers).fs x = Fs.lookup (mkBase fs ds) x) ∧
    MadeFrom fs (mkBase fs ds) (ds.take k) (ds.drop k) := by
  rw [archiveOf_eq]
  exact extract_archiveWith_reloc stored es o fs answers ds k hwf henc (packs_stored henc) hne hx hu hnf
    hb ha hdepth

/-- (3) option `i` on the bytes `archiveOf es` -/
theorem extract_archiveOf_flat (es : List Entry) (o : Opts) (fs : Fs.St) (answers : Bytes)
    (hok : ∀ e ∈ es, EntryOk e) (henc : Encodable es)
    (hnames : ((es.filter (fun e => selected o.filters e && !e.isDir)).map Entry.namePart).Nodup)
    (hx : o.extractPath = none) (hu : o.usePath = false) (hfs : EmptyDir fs) (ha : Access fs) :
    (run (archiveOf es) o fs answers).result = true ∧
    (∀ p, p ≠ [] → Fs.lookup (run (archiveOf es) o fs answers).fs (fs.cwd ++ p) =
      flatTreeOf fs.now fs.umask (es.filter (selected o.filters)) p) ∧
    (∀ x, ¬ fs.cwd <+: x → Fs.lookup (run (archiveOf es) o fs answers).fs x = Fs.lookup fs x) := by
  rw [archiveOf_eq]
  exact extract_archiveWith_flat stored es o fs answers hok henc (packs_stored henc) hnames hx hu hfs ha

/-! ## non-vacuity (1): the pattern `a/*` -/

/-- the wildcard argument `a/*` -/
def patA : List Bytes := [[0x61, 0x2f, 0x2a]]

/-- `a/*` selects `a/` (the star matches the empty string), `a/x`, `a/b/`, `a/b/y`, `a/b/l`, not `z` -/
example : sampleTree.filter (selected patA) = sampleTree.take 5 := by decide

theorem sample_wfs : WFS (selected patA) [] [] sampleTree := by decide

/-- a selection that is NOT well-formed: `*y` selects `a/b/y` without its directories -/
example : ¬ WFS (selected [[0x2a, 0x79]]) [] [] sampleTree := by decide

/-- **`lha x archive 'a/*'`** on the bytes of `archiveOf sampleTree`: the directory `a` with
everything in it, exactly as recorded; `z` is not extracted -/
theorem sample_sel :
    let r := run (archiveOf sampleTree) { filters := patA } sampleFs []
    r.result = true ∧
    Fs.lookup r.fs [[0x72], [0x61]] = some (.dir 0o555 111) ∧
    Fs.lookup r.fs [[0x72], [0x61], [0x78]] = some (.file [0x68, 0x69] 0o644 333) ∧
    Fs.lookup r.fs [[0x72], [0x61], [0x62]] = some (.dir 0o555 222) ∧
    Fs.lookup r.fs [[0x72], [0x61], [0x62], [0x6c]] = some (.link [0x79]) ∧
    Fs.lookup r.fs [[0x72], [0x7a]] = none := by
  intro r
  obtain ⟨h1, h, _⟩ := extract_archiveOf_sel sampleTree { filters := patA } sampleFs [] sample_wfs
    sampleTree_enc rfl rfl sampleFs_empty (access_user_022 sampleFs rfl)
  have hc : ∀ p : Fs.Path, sampleFs.cwd ++ p = [0x72] :: p := fun _ => rfl
  refine ⟨h1, ?_, ?_, ?_, ?_, ?_⟩
  all_goals (show Fs.lookup (run (archiveOf sampleTree) { filters := patA } sampleFs []).fs _ = _
             rw [← hc, h _ (by decide)]; decide)

/-! ## non-vacuity (2): `w=out`, which does not exist -/

def outDir : List Bytes := [[0x6f, 0x75, 0x74]]

theorem sample_baseOk : BaseOk sampleFs outDir 0 := by
  refine ⟨by decide, by decide, ?_, by decide, ?_, ?_⟩
  · intro pre hp
    have : pre = [] := by simpa using hp
    subst this
    exact ⟨0o755, 1000, by decide, Or.inr (by decide)⟩
  · intro q hq hp
    have hp' : q <+: [[0x6f, 0x75, 0x74]] := hp
    cases q with
    | nil => exact absurd rfl hq
    | cons c q =>
      obtain ⟨rfl, hq'⟩ := List.cons_prefix_cons.1 hp'
      have : q = [] := by simpa using hq'
      subst this
      decide
  · intro p hp
    cases p with
    | nil => exact absurd rfl hp
    | cons c cs => simp [Fs.lookup, sampleFs, outDir]

/-- **`lha xw=out archive`** on the bytes of `archiveOf sampleTree`: `out` is created (0755, time of
the run), the tree appears below it with every recorded mode and time, nothing appears beside it,
and the extraction directory `r` is stamped because `out` was created in it -/
theorem sample_reloc :
    let r := run (archiveOf sampleTree) { extractPath := some [0x6f, 0x75, 0x74] } sampleFs []
    r.result = true ∧
    Fs.lookup r.fs [[0x72], [0x6f, 0x75, 0x74]] = some (.dir 0o755 sampleFs.now) ∧
    Fs.lookup r.fs [[0x72], [0x6f, 0x75, 0x74], [0x61]] = some (.dir 0o555 111) ∧
    Fs.lookup r.fs [[0x72], [0x6f, 0x75, 0x74], [0x61], [0x62], [0x79]] = some (.file [0x79, 0x79] 0o600 444) ∧
    Fs.lookup r.fs [[0x72], [0x6f, 0x75, 0x74], [0x7a]] = some (.file [0x7a] 0o600 sampleFs.now) ∧
    Fs.lookup r.fs [[0x72], [0x61]] = none ∧
    Fs.lookup r.fs [[0x72]] = some (.dir 0o755 sampleFs.now) := by
  intro r
  have hdepth : ∀ e ∈ sampleTree, outDir.length + e.path.length < 64 := by decide
  obtain ⟨h1, h2, h3, h4, hm⟩ := extract_archiveOf_reloc sampleTree { extractPath := some [0x6f, 0x75, 0x74] }
    sampleFs [] outDir 0 sampleTree_wf sampleTree_enc (by decide) rfl rfl rfl sample_baseOk
    (accessW_user_022 sampleFs rfl) hdepth
  have hne : sampleTree ≠ [] := by decide
  have hc : ∀ p : Fs.Path, sampleFs.cwd ++ outDir ++ p = [0x72] :: [0x6f, 0x75, 0x74] :: p := fun _ => rfl
  have hmk := mkBase_created sample_baseOk (accessW_user_022 sampleFs rfl) (by decide)
  refine ⟨h1, ?_, ?_, ?_, ?_, ?_, ?_⟩
  · obtain ⟨m, t0, hl0, hl⟩ := h3 hne
    rw [hmk] at hl0
    have hm0 : 0o755 - (0o755 &&& sampleFs.umask) = m := (Fs.Ent.dir.inj (Option.some.inj hl0)).1
    show Fs.lookup (run (archiveOf sampleTree) _ sampleFs []).fs (sampleFs.cwd ++ outDir) = _
    rw [hl, ← hm0]; decide
  · show Fs.lookup (run (archiveOf sampleTree) _ sampleFs []).fs _ = _
    rw [← hc, h2 _ (by decide)]; decide
  · show Fs.lookup (run (archiveOf sampleTree) _ sampleFs []).fs _ = _
    rw [← hc, h2 _ (by decide)]; decide
  · show Fs.lookup (run (archiveOf sampleTree) _ sampleFs []).fs _ = _
    rw [← hc, h2 _ (by decide)]; decide
  · show Fs.lookup (run (archiveOf sampleTree) _ sampleFs []).fs _ = _
    rw [h4 hne _ (by decide), hm.frame _ (by decide) (fun q hq0 hqb => by
      have hq' : q <+: [[0x6f, 0x75, 0x74]] := hqb
      cases q with
      | nil => exact absurd rfl hq0
      | cons c q =>
        obtain ⟨rfl, hq''⟩ := List.cons_prefix_cons.1 hq'
        have : q = [] := by simpa using hq''
        subst this
        decide)]
    decide
  · show Fs.lookup (run (archiveOf sampleTree) _ sampleFs []).fs _ = _
    rw [h4 hne _ (by decide)]
    exact hm.stamp (by decide) (by decide) 0o755 1000 (by decide)

/-- `out` exists already, as an empty directory with mode 0700: `BaseOk … 1` -/
def fsOut : Fs.St :=
  { root := false, cwd := [[0x72]],
    ents := [([[0x72]], .dir 0o755 1000), ([[0x72], [0x6f, 0x75, 0x74]], .dir 0o700 7)] }

theorem fsOut_baseOk : BaseOk fsOut outDir 1 := by
  refine ⟨by decide, by decide, ?_, by decide, ?_, ?_⟩
  · intro pre hp
    have hp' : pre <+: [[0x6f, 0x75, 0x74]] := hp
    cases pre with
    | nil => exact ⟨0o755, 1000, by decide, Or.inr (by decide)⟩
    | cons c q =>
      obtain ⟨rfl, hq⟩ := List.cons_prefix_cons.1 hp'
      have : q = [] := by simpa using hq
      subst this
      exact ⟨0o700, 7, by decide, Or.inr (by decide)⟩
  · intro q hq hp
    have : q = [] := by simpa [outDir] using hp
    exact absurd this hq
  · intro p hp
    cases p with
    | nil => exact absurd rfl hp
    | cons c cs => simp [Fs.lookup, fsOut, outDir]

/-- then nothing is created, and the tree goes below the existing `out`, which keeps its mode -/
example : mkBase fsOut outDir = fsOut := mkBase_exists fsOut_baseOk (accessW_user_022 fsOut rfl)

example :
    let r := run (archiveOf sampleTree) { extractPath := some [0x6f, 0x75, 0x74] } fsOut []
    r.result = true ∧
    Fs.lookup r.fs [[0x72], [0x6f, 0x75, 0x74]] = some (.dir 0o700 fsOut.now) ∧
    Fs.lookup r.fs [[0x72], [0x6f, 0x75, 0x74], [0x61], [0x78]] = some (.file [0x68, 0x69] 0o644 333) ∧
    Fs.lookup r.fs [[0x72]] = some (.dir 0o755 1000) := by
  intro r
  have hdepth : ∀ e ∈ sampleTree, outDir.length + e.path.length < 64 := by decide
  have hacc := accessW_user_022 fsOut rfl
  obtain ⟨h1, h2, h3, h4, _⟩ := extract_archiveOf_reloc sampleTree { extractPath := some [0x6f, 0x75, 0x74] }
    fsOut [] outDir 1 sampleTree_wf sampleTree_enc (by decide) rfl rfl rfl fsOut_baseOk hacc hdepth
  have hne : sampleTree ≠ [] := by decide
  have hsame := mkBase_exists fsOut_baseOk hacc
  refine ⟨h1, ?_, ?_, ?_⟩
  · obtain ⟨m, t0, hl0, hl⟩ := h3 hne
    rw [hsame] at hl0
    have hm0 : 0o700 = m := (Fs.Ent.dir.inj (Option.some.inj ((by decide : Fs.lookup fsOut (fsOut.cwd ++ outDir) =
      some (.dir 0o700 7)).symm.trans hl0))).1
    show Fs.lookup (run (archiveOf sampleTree) _ fsOut []).fs (fsOut.cwd ++ outDir) = _
    rw [hl, ← hm0]
  · have hc : ∀ p : Fs.Path, fsOut.cwd ++ outDir ++ p = [0x72] :: [0x6f, 0x75, 0x74] :: p := fun _ => rfl
    show Fs.lookup (run (archiveOf sampleTree) _ fsOut []).fs _ = _
    rw [← hc, h2 _ (by decide)]; decide
  · show Fs.lookup (run (archiveOf sampleTree) _ fsOut []).fs _ = _
    rw [h4 hne _ (by decide), hsame]; decide

/-! ## non-vacuity (3): option `i` -/

/-- the four files and links of `sampleTree` have different names -/
theorem sample_names :
    ((sampleTree.filter (fun e => selected [] e && !e.isDir)).map Entry.namePart).Nodup := by decide

/-- **`lha xi archive`** on the bytes of `archiveOf sampleTree`: `x`, `y`, `l`, `z` side by side
in the extraction directory, no directory -/
theorem sample_flat :
    let r := run (archiveOf sampleTree) { usePath := false } sampleFs []
    r.result = true ∧
    Fs.lookup r.fs [[0x72], [0x78]] = some (.file [0x68, 0x69] 0o644 333) ∧
    Fs.lookup r.fs [[0x72], [0x79]] = some (.file [0x79, 0x79] 0o600 444) ∧
    Fs.lookup r.fs [[0x72], [0x6c]] = some (.link [0x79]) ∧
    Fs.lookup r.fs [[0x72], [0x7a]] = some (.file [0x7a] 0o600 sampleFs.now) ∧
    Fs.lookup r.fs [[0x72], [0x61]] = none ∧
    Fs.lookup r.fs [[0x72], [0x61], [0x78]] = none := by
  intro r
  have hok : ∀ e ∈ sampleTree, EntryOk e := by decide
  obtain ⟨h1, h, _⟩ := extract_archiveOf_flat sampleTree { usePath := false } sampleFs [] hok
    sampleTree_enc sample_names rfl rfl sampleFs_empty (access_user_022 sampleFs rfl)
  have hc : ∀ p : Fs.Path, sampleFs.cwd ++ p = [0x72] :: p := fun _ => rfl
  refine ⟨h1, ?_, ?_, ?_, ?_, ?_, ?_⟩
  all_goals (show Fs.lookup (run (archiveOf sampleTree) { usePath := false } sampleFs []).fs _ = _
             rw [← hc, h _ (by decide)]; decide)

end LhasaV.ArchiveOf
