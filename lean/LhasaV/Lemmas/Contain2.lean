import LhasaV.Lemmas.Contain1
/-!
# C10, main phase (part 2): every file-system operation of the main phase

`Contained fs fs'`: going from `fs` to `fs'` kept the current directory, logged only mutations at
places below `fs.cwd`, and ended in a state whose links below `cwd` are all safe.

Every operation `lib/lha_arch_unix.c` offers, applied to a relative ".."-free path in a
`SafeLinks` state, is `Contained`.
-/
namespace LhasaV.Contain
open LhasaV LhasaV.Header LhasaV.Extract LhasaV.GlobFs

/-- a relative path without ".." components -/
def RelClean (p : Bytes) : Prop := p.head? ≠ some 0x2f ∧ NoDotDot p

structure Contained (fs fs' : Fs.St) : Prop where
  cwd : fs'.cwd = fs.cwd
  safe : SafeLinks fs'
  log : ∃ new, fs'.log = new ++ fs.log ∧ ∀ m ∈ new, fs.cwd <+: m.path

theorem Contained.refl (fs : Fs.St) (hs : SafeLinks fs) : Contained fs fs :=
  ⟨rfl, hs, [], by simp, by simp⟩

theorem Contained.trans {a b c : Fs.St} (h1 : Contained a b) (h2 : Contained b c) : Contained a c := by
  obtain ⟨n1, e1, p1⟩ := h1.log
  obtain ⟨n2, e2, p2⟩ := h2.log
  refine ⟨h2.cwd.trans h1.cwd, h2.safe, n2 ++ n1, by rw [e2, e1, List.append_assoc], ?_⟩
  intro m hm
  rcases List.mem_append.1 hm with hm | hm
  · rw [← h1.cwd]; exact p2 m hm
  · exact p1 m hm

/-- one logged mutation at a place below `cwd`, on top of state changes that keep `cwd`, the log
and the safety of links -/
theorem contained_mut (s s' : Fs.St) (op : String) (q : Fs.Path) (hq : s.cwd <+: q)
    (hc : s'.cwd = s.cwd) (hl : s'.log = s.log) (hs' : SafeLinks s') :
    Contained s (Fs.logMut s' op q) :=
  ⟨hc, hs', [⟨op, q⟩], by rw [logMut_log, hl]; rfl, by
    intro m hm
    have : m = ⟨op, q⟩ := by simpa using hm
    subst this; exact hq⟩

/-- state changes without a log entry -/
theorem contained_quiet (s s' : Fs.St) (hc : s'.cwd = s.cwd) (hl : s'.log = s.log)
    (hs' : SafeLinks s') : Contained s s' :=
  ⟨hc, hs', [], by simp [hl], by simp⟩

/-! ## the operations -/

/-- `mkdir(path, mode)` -/
theorem mkdir_contained (s : Fs.St) (hs : SafeLinks s) (path : Bytes) (mode : Nat)
    (hp : RelClean path) : Contained s (Fs.mkdir s path mode).2 := by
  unfold Fs.mkdir
  split
  · exact Contained.refl s hs
  · rename_i q hq
    have hq' := safe_resolve_below_cwd s hs false path q hp.1 hp.2 hq
    repeat' split
    all_goals first
      | exact Contained.refl s hs
      | exact contained_mut s _ _ q hq'
          (by rw [stampParent_cwd, setEnt_cwd]) (by rw [stampParent_log, setEnt_log])
          (safeLinks_stampParent _ (safeLinks_setEnt s hs _ _ (okEnt_dir _ _)) _)

/-- `unlink(path)` -/
theorem unlink_contained (s : Fs.St) (hs : SafeLinks s) (path : Bytes)
    (hp : RelClean path) : Contained s (Fs.unlink s path).2 := by
  rcases unlink_cases s path with h | ⟨q, hq, h⟩
  · rw [h]; exact Contained.refl s hs
  · rw [h]
    have hq' := safe_resolve_below_cwd s hs false path q hp.1 hp.2 hq
    exact contained_mut s _ _ q hq'
      (by rw [stampParent_cwd, delEnt_cwd]) (by rw [stampParent_log, delEnt_log])
      (safeLinks_stampParent _ (safeLinks_delEnt s hs _) _)

/-- `open(path, O_CREAT|O_EXCL|O_WRONLY)`: contained, and the new file lies below `cwd` -/
theorem openExcl_contained (s : Fs.St) (hs : SafeLinks s) (path : Bytes) (hp : RelClean path) :
    Contained s (Fs.openExcl s path).2 ∧ ∀ q, (Fs.openExcl s path).1 = some q → s.cwd <+: q := by
  unfold Fs.openExcl
  split
  · exact ⟨Contained.refl s hs, by intro q h; cases h⟩
  · rename_i q hq
    have hq' := safe_resolve_below_cwd s hs false path q hp.1 hp.2 hq
    repeat' split
    all_goals first
      | exact ⟨Contained.refl s hs, by intro q h; cases h⟩
      | refine ⟨contained_mut s _ _ q hq'
          (by rw [stampParent_cwd, setEnt_cwd]) (by rw [stampParent_log, setEnt_log])
          (safeLinks_stampParent _ (safeLinks_setEnt s hs _ _ (okEnt_file _ _ _)) _), ?_⟩
        intro q' h; injection h with h; subst h; exact hq'

/-- `fchmod(fd, mode)`: no log entry -/
theorem fchmod_contained (s : Fs.St) (hs : SafeLinks s) (p : Fs.Path) (mode : Nat) :
    Contained s (Fs.fchmod s p mode) := by
  unfold Fs.fchmod
  split
  · exact contained_quiet s _ (setEnt_cwd _ _ _) (setEnt_log _ _ _)
      (safeLinks_setEnt s hs _ _ (okEnt_file _ _ _))
  · exact Contained.refl s hs

/-- write + close on a file below `cwd` -/
theorem writeAll_contained (s : Fs.St) (hs : SafeLinks s) (p : Fs.Path) (data : Bytes)
    (hp : s.cwd <+: p) : Contained s (Fs.writeAll s p data) := by
  unfold Fs.writeAll
  split
  · exact contained_mut s _ _ p hp (setEnt_cwd _ _ _) (setEnt_log _ _ _)
      (safeLinks_setEnt s hs _ _ (okEnt_file _ _ _))
  · exact Contained.refl s hs

/-- `chmod(path, mode)` (follows links) -/
theorem chmod_contained (s : Fs.St) (hs : SafeLinks s) (path : Bytes) (mode : Nat)
    (hp : RelClean path) : Contained s (Fs.chmod s path mode).2 := by
  unfold Fs.chmod
  split
  · exact Contained.refl s hs
  · rename_i q hq
    have hq' := safe_resolve_below_cwd s hs true path q hp.1 hp.2 hq
    repeat' split
    all_goals first
      | exact Contained.refl s hs
      | exact contained_mut s _ _ q hq' (setEnt_cwd _ _ _) (setEnt_log _ _ _)
          (safeLinks_setEnt s hs _ _ (okEnt_dir _ _))
      | exact contained_mut s _ _ q hq' (setEnt_cwd _ _ _) (setEnt_log _ _ _)
          (safeLinks_setEnt s hs _ _ (okEnt_file _ _ _))

/-- `utime(path, t)` (follows links) -/
theorem utime_contained (s : Fs.St) (hs : SafeLinks s) (path : Bytes) (t : Nat)
    (hp : RelClean path) : Contained s (Fs.utime s path t).2 := by
  unfold Fs.utime
  split
  · exact Contained.refl s hs
  · rename_i q hq
    have hq' := safe_resolve_below_cwd s hs true path q hp.1 hp.2 hq
    repeat' split
    all_goals first
      | exact Contained.refl s hs
      | exact contained_mut s _ _ q hq' (setEnt_cwd _ _ _) (setEnt_log _ _ _)
          (safeLinks_setEnt s hs _ _ (okEnt_dir _ _))
      | exact contained_mut s _ _ q hq' (setEnt_cwd _ _ _) (setEnt_log _ _ _)
          (safeLinks_setEnt s hs _ _ (okEnt_file _ _ _))

/-- `symlink(target, path)` with a SAFE target -/
theorem symlink_contained (s : Fs.St) (hs : SafeLinks s) (path target : Bytes)
    (hp : RelClean path) (ht : SafeTarget target) : Contained s (Fs.symlink s path target).2 := by
  unfold Fs.symlink
  split
  · exact Contained.refl s hs
  · rename_i q hq
    have hq' := safe_resolve_below_cwd s hs false path q hp.1 hp.2 hq
    repeat' split
    all_goals first
      | exact Contained.refl s hs
      | exact contained_mut s _ _ q hq'
          (by rw [stampParent_cwd, setEnt_cwd]) (by rw [stampParent_log, setEnt_log])
          (safeLinks_stampParent _ (safeLinks_setEnt s hs _ _ (okEnt_link _ ht)) _)

/-! ## the `lha_arch_*` layer -/

/-- `lha_arch_fopen`: unlink, exclusive create, fchmod — creates a FILE below `cwd` -/
theorem archFopen_contained (s : Fs.St) (hs : SafeLinks s) (path : Bytes) (perms : Option Nat)
    (hp : RelClean path) :
    Contained s (Fs.archFopen s path perms).2 ∧
      ∀ q, (Fs.archFopen s path perms).1 = some q → s.cwd <+: q := by
  have hu := unlink_contained s hs path hp
  have ho := openExcl_contained (Fs.unlink s path).2 hu.safe path hp
  rw [hu.cwd] at ho
  unfold Fs.archFopen
  simp only
  split
  · exact ⟨hu.trans ho.1, by intro q h; cases h⟩
  · rename_i q hq
    split
    · refine ⟨(hu.trans ho.1).trans (fchmod_contained _ ho.1.safe _ _), ?_⟩
      intro q' h; injection h with h; subst h; exact ho.2 q hq
    · refine ⟨hu.trans ho.1, ?_⟩
      intro q' h; injection h with h; subst h; exact ho.2 q hq

/-- `lha_arch_symlink` with a SAFE target: unlink, symlink -/
theorem archSymlink_contained (s : Fs.St) (hs : SafeLinks s) (path target : Bytes)
    (hp : RelClean path) (ht : SafeTarget target) :
    Contained s (Fs.archSymlink s path target).2 := by
  have hu := unlink_contained s hs path hp
  unfold Fs.archSymlink
  exact hu.trans (symlink_contained _ hu.safe path target hp ht)

end LhasaV.Contain
