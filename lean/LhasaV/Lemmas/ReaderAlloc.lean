import LhasaV.Lemmas.ReaderAlloc6
import LhasaV.Lemmas.ReaderAlloc10
import LhasaV.Lemmas.ReaderAlloc11
import LhasaV.Lemmas.ReaderAllocCheck
/-!
# Allocation-aware reader (C20, second half) — umbrella

* model: `LhasaV/Model/HeaderAlloc.lean` (`Alloc.readA`), `LhasaV/Model/ReaderAlloc.lean`
  (`newA`, `nextA`, `readA`, `checkA`, `extractA`, `freeA`);
* header parser: `ReaderAllocHdr1`–`2` refinement, exact and weak (`Alloc.readA_refines`, `Alloc.readA_weak`), `ReaderAllocHdr3`–`8` block
  accounting under any oracle (`Alloc.readA_blocks`);
* reader: `ReaderAlloc1`–`4` invariant and release theorem (`alloc_failure_releases_all`,
  `alloc_failures_release_all`, `newA_release_all`), `ReaderAlloc5`–`6` refinement (`runA_refines`,
  `freeA_refines`, `results_refine`), `ReaderAlloc7`–`9` what the affected call reports
  (`alloc_failure_reports`, `fired_iff`), `ReaderAlloc10` exact decoder count
  (`alloc_failure_decoders_exact`), `ReaderAlloc11` `next` never faults under failure
  (`nextA_never_faults`, `alloc_failure_reports'`), `ReaderAllocCheck` non-vacuity.
-/
