import LhasaV.Lemmas.ReaderWorkPresentPm2
/-! `Present` for the PMarc decoder `-pm1-` (its callback wrapper zero-fills; the position still
only moves through `Src.read`). -/
namespace LhasaV.ReaderPresent
open LhasaV

/-! ## -pm1- -/

theorem pm1_outputted_bits (s : Pm1.St) (b : UInt8) (s' : Pm1.St) (e : Pm1.outputted s b = .ok s') :
    s'.bits = s.bits := by
  unfold Pm1.outputted at e
  split at e
  · obtain ⟨h, _, e⟩ := Res.bind_eq_ok.mp e
    cases e
    rfl
  · cases e

theorem pm1_readCopyByteCount_le (r : Bits) : PLe r.src (Pm1.readCopyByteCount r).2.src := by
  unfold Pm1.readCopyByteCount
  dsimp only
  have h1 := readBits_le r 2
  split
  · exact h1
  · split
    · exact h1
    · have h2 := h1.trans (readBits_le (r.readBits 2).2 3)
      split
      · exact h2
      · split
        · exact h2
        · split
          · exact h2.trans (readBits_le _ 2)
          · split
            · exact h2.trans (readBits_le _ 3)
            · have h3 := h2.trans (readBits_le ((r.readBits 2).2.readBits 3).2 6)
              split
              · exact h3
              · split
                · exact h3
                · split
                  · exact h3.trans (readBits_le _ 5)
                  · exact h3.trans (readBits_le _ 7)

theorem pm1_bitAfter_le (s : Pm1.St) (r : Bits) (threshold deflt : Nat) :
    PLe r.src (Pm1.bitAfter s r threshold deflt).2.src := by
  unfold Pm1.bitAfter
  split
  · exact readBit_le r
  · exact PLe.refl _

theorem pm1_readCopyTypeRange_le (s : Pm1.St) :
    PLe s.bits.src (Pm1.readCopyTypeRange s).2.src := by
  unfold Pm1.readCopyTypeRange
  dsimp only
  have h1 := readBit_le s.bits
  split
  · exact h1
  · have h2 := h1.trans (pm1_bitAfter_le s s.bits.readBit.2 576 0)
    split
    · exact h2
    · split
      · exact h2
      · exact h2.trans (pm1_bitAfter_le s _ 64 0)
  · have h2 := h1.trans (pm1_bitAfter_le s s.bits.readBit.2 64 1)
    split
    · exact h2
    · exact h2
    · have h3 := h2.trans (pm1_bitAfter_le s (Pm1.bitAfter s s.bits.readBit.2 64 1).2 2624 1)
      split
      · exact h3
      · split
        · exact h3
        · exact h3

theorem pm1_copyLoop_bits : ∀ (k idx : Nat) (s : Pm1.St) (acc : List UInt8) (s' : Pm1.St) (o : List UInt8),
    Pm1.copyLoop k idx s acc = .ok (s', o) → s'.bits = s.bits := by
  intro k
  induction k with
  | zero =>
    intro idx s acc s' o e
    simp only [Pm1.copyLoop, Res.ok.injEq, Prod.mk.injEq] at e
    rw [← e.1]
  | succ k ih =>
    intro idx s acc s' o e
    unfold Pm1.copyLoop at e
    split at e
    · cases e
    · obtain ⟨s1, e1, e2⟩ := Res.bind_eq_ok.mp e
      rw [ih _ _ _ _ _ e2, pm1_outputted_bits _ _ _ e1]

theorem pm1_readCopyCommand_le (s : Pm1.St) (o : List UInt8) (s' : Pm1.St)
    (e : Pm1.readCopyCommand s = .ok (o, s')) : PLe s.bits.src s'.bits.src := by
  unfold Pm1.readCopyCommand at e
  dsimp only at e
  have h1 := pm1_readCopyTypeRange_le s
  split at e
  · cases e
    exact h1
  · rename_i ri _
    have h2 : PLe s.bits.src
        (if ri < 2 then ((some 2 : Option Nat), (Pm1.readCopyTypeRange s).2)
          else Pm1.readCopyByteCount (Pm1.readCopyTypeRange s).2).2.src := by
      split
      · exact h1
      · exact h1.trans (pm1_readCopyByteCount_le _)
    split at e
    · cases e
      exact h2
    · obtain ⟨d, e1, e⟩ := Res.bind_eq_ok.mp e
      have h3 := h2.trans (pma_decodeVarLen_le _ _ _ _ d.1 d.2 e1)
      split at e
      · cases e
        exact h3
      · split at e
        · cases e
          exact h3
        · obtain ⟨r, e2, e⟩ := Res.bind_eq_ok.mp e
          cases e
          have hb := pm1_copyLoop_bits _ _ _ _ r.1 r.2 e2
          rw [hb]
          exact h3

theorem pm1_treeWalk_le : ∀ (k ptr : Nat) (r : Bits), PStepLe r (Pm1.treeWalk k ptr r) := by
  intro k
  induction k with
  | zero =>
    intro ptr r a r' e
    simp only [Pm1.treeWalk] at e
    cases e
  | succ k ih =>
    intro ptr r a r' e
    unfold Pm1.treeWalk at e
    dsimp only at e
    have h1 := readBit_le r
    split at e
    · cases e
      exact h1
    · split at e
      · cases e
      · repeat' split at e
        all_goals first | (cases e; exact h1) | exact h1.trans (ih _ _ a r' e)

theorem pm1_readByteDecodeIndex_le (s : Pm1.St) (row : Nat) :
    PStepLe s.bits (Pm1.readByteDecodeIndex s row) := by
  intro a r' e
  unfold Pm1.readByteDecodeIndex at e
  split at e
  · cases e
  · cases e
    exact PLe.refl _
  · exact pm1_treeWalk_le _ _ _ a r' e

theorem pm1_readByte_le (s : Pm1.St) (row : Nat) : PStepLe s.bits (Pm1.readByte s row) := by
  intro a r' e
  unfold Pm1.readByte at e
  obtain ⟨i, e1, e⟩ := Res.bind_eq_ok.mp e
  have h1 := pm1_readByteDecodeIndex_le s row i.1 i.2 e1
  split at e
  · cases e
    exact h1
  · obtain ⟨c, e2, e⟩ := Res.bind_eq_ok.mp e
    have h2 := h1.trans (pma_decodeVarLen_le _ _ _ _ c.1 c.2 e2)
    split at e
    · cases e
      exact h2
    · obtain ⟨b, _, e⟩ := Res.bind_eq_ok.mp e
      cases e
      exact h2

theorem pm1_readByteBlockCount_le (r : Bits) : PLe r.src (Pm1.readByteBlockCount r).2.src := by
  unfold Pm1.readByteBlockCount
  dsimp only
  have h1 := readBits_le r 2
  split
  · exact h1
  · split
    · exact h1
    · have h2 := h1.trans (readBits_le (r.readBits 2).2 3)
      split
      · exact h2
      · split
        · exact h2
        · have h3 := h2.trans (readBits_le ((r.readBits 2).2.readBits 3).2 4)
          split
          · exact h3
          · split
            · exact h3
            · split
              · exact h3.trans (readBits_le _ 6)
              · exact h3.trans (readBits_le _ 7)

theorem pm1_byteLoop_le (row : Nat) : ∀ (k : Nat) (s : Pm1.St) (acc : List UInt8)
    (o : Option (List UInt8)) (s' : Pm1.St),
    Pm1.byteLoop row k s acc = .ok (o, s') → PLe s.bits.src s'.bits.src := by
  intro k
  induction k with
  | zero =>
    intro s acc o s' e
    simp only [Pm1.byteLoop, Res.ok.injEq, Prod.mk.injEq] at e
    rw [← e.2]; exact PLe.refl _
  | succ k ih =>
    intro s acc o s' e
    unfold Pm1.byteLoop at e
    obtain ⟨b, e1, e⟩ := Res.bind_eq_ok.mp e
    have h1 := pm1_readByte_le s row b.1 b.2 e1
    split at e
    · cases e
      exact h1
    · obtain ⟨s1, e2, e⟩ := Res.bind_eq_ok.mp e
      have hb := pm1_outputted_bits _ _ _ e2
      have h2 := ih _ _ _ _ e
      rw [hb] at h2
      exact h1.trans h2

theorem pm1_readByteBlock_le (s : Pm1.St) (row : Nat) (o : List UInt8) (s' : Pm1.St)
    (e : Pm1.readByteBlock s row = .ok (o, s')) : PLe s.bits.src s'.bits.src := by
  unfold Pm1.readByteBlock at e
  dsimp only at e
  have h1 := pm1_readByteBlockCount_le s.bits
  split at e
  · cases e
    exact h1
  · obtain ⟨r, e1, e⟩ := Res.bind_eq_ok.mp e
    have h2 : PLe s.bits.src r.2.bits.src := h1.trans (pm1_byteLoop_le _ _ _ _ r.1 r.2 e1)
    split at e
    · cases e
      exact h2
    · split at e
      · cases e
        exact h2
      · obtain ⟨c, e2, e⟩ := Res.bind_eq_ok.mp e
        have h3 := h2.trans (pm1_readCopyCommand_le _ c.1 c.2 e2)
        split at e
        · cases e
          exact h3
        · cases e
          exact h3

theorem pm1_read_le (s : Pm1.St) (o : List UInt8) (s' : Pm1.St) (e : Pm1.read s = .ok (o, s')) :
    PLe s.bits.src s'.bits.src := by
  have key : ∀ (row : Nat) (s1 : Pm1.St),
      (if row ≥ Gen.pm1TreeRows then
          (.fault "pm1: byte_decode_trees[index] row" : Res (List UInt8 × Pm1.St))
        else if s1.bits.readBit.1 = some 0 then
          Pm1.readCopyCommand { s1 with bits := s1.bits.readBit.2 }
        else Pm1.readByteBlock { s1 with bits := s1.bits.readBit.2 } row) = .ok (o, s') →
      PLe s1.bits.src s'.bits.src := by
    intro row s1 e
    have h0 := readBit_le s1.bits
    split at e
    · cases e
    · split at e
      · exact h0.trans (pm1_readCopyCommand_le _ _ _ e)
      · exact h0.trans (pm1_readByteBlock_le _ _ _ _ e)
  unfold Pm1.read at e
  dsimp only at e
  split at e
  · cases e
    exact PLe.refl _
  · rename_i row s1 hh
    have h1 : PLe s.bits.src s1.bits.src := by
      split at hh
      · cases hh
        exact PLe.refl _
      · split at hh
        · cases hh
        · cases hh
          exact readBits_le s.bits 5
    exact h1.trans (key row s1 e)

theorem present_pm1 : Present Pm1.dec := by
  refine ⟨?_, ?_⟩
  · intro N src h
    exact h
  · intro N st o st' e
    exact pm1_read_le st o st' e N

end LhasaV.ReaderPresent
