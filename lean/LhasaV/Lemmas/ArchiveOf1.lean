import LhasaV.Lemmas.ExtractTree15
import LhasaV.Lemmas.HeaderRT
/-!
# C06, archives as bytes (part 1): the strings a member's header carries

`archiveOf es` (ExtractTree15) writes a level-2 header for every entry: the directory part as a
path header with 0xFF separators, the name as a file-name header, a link as `name|target`.
Here: what the header parser's string handling (`cstr`, the 0xFF → '/' mapping, `collapse_path`,
`split_header_filename`) makes of these strings when the names are plain.
-/
set_option linter.unusedSimpArgs false
namespace LhasaV.ArchiveOf
open LhasaV LhasaV.Header LhasaV.Extract LhasaV.GlobFs LhasaV.Contain LhasaV.ExtractTree
open LhasaV.ExtractTree.Sample LhasaV.Spec.HeaderEnc

/-- a byte that survives the header's string handling unchanged and does not act as a separator:
not NUL (C strings), not 0xFF (the stored path separator), not '|' (the link separator) -/
def PlainByte (b : UInt8) : Prop := b ≠ 0 ∧ b ≠ 0xff ∧ b ≠ 0x7c

instance (b : UInt8) : Decidable (PlainByte b) := inferInstanceAs (Decidable (b ≠ 0 ∧ b ≠ 0xff ∧ b ≠ 0x7c))

def PlainName (c : Bytes) : Prop := ∀ b ∈ c, PlainByte b

instance (c : Bytes) : Decidable (PlainName c) := inferInstanceAs (Decidable (∀ b ∈ c, PlainByte b))

theorem cstr_id (l : Bytes) (h : ∀ b ∈ l, b ≠ 0) : cstr l = l := by
  unfold cstr
  induction l with
  | nil => rfl
  | cons b l ih =>
    have hb : b ≠ 0 := h b (by simp)
    simp only [List.takeWhile_cons, hb, ne_eq, not_false_eq_true, decide_true, if_true]
    rw [ih (fun b' hb' => h b' (List.mem_cons_of_mem _ hb'))]

/-- the stored path of `cs`, with the separator mapped back, is "a/b/" -/
theorem map_sp (cs : Fs.Path) (h : ∀ c ∈ cs, ∀ b ∈ c, b ≠ 0xff) :
    (sp cs).map (fun b => if b = 0xff then 0x2f else b) = joinDir cs := by
  induction cs with
  | nil => rfl
  | cons c cs ih =>
    have hc : c.map (fun b => if b = 0xff then (0x2f : UInt8) else b) = c := by
      conv => rhs; rw [← List.map_id c]
      apply List.map_congr_left
      intro b hb
      simp [h c (by simp) b hb]
    have := ih (fun c' hc' => h c' (List.mem_cons_of_mem _ hc'))
    unfold sp at this ⊢
    simp only [List.map_cons, List.flatten_cons, List.map_append, hc, this, joinDir]
    simp

theorem sp_cons (c : Bytes) (cs : Fs.Path) : sp (c :: cs) = c ++ 0xff :: sp cs := by
  simp [sp]

theorem sp_getLast (cs : Fs.Path) (hne : cs ≠ []) : (sp cs).getLast? = some 0xff := by
  induction cs with
  | nil => exact absurd rfl hne
  | cons c cs ih =>
    rw [sp_cons]
    by_cases hcs : cs = []
    · subst hcs; simp [sp]
    · have := ih hcs
      rw [List.getLast?_append, List.getLast?_cons, this]
      simp

theorem sp_length_pos (cs : Fs.Path) (hne : cs ≠ []) : 1 ≤ (sp cs).length := by
  cases cs with
  | nil => exact absurd rfl hne
  | cons c cs => rw [sp_cons]; simp; omega

theorem sp_length (cs : Fs.Path) : (sp cs).length = (joinDir cs).length := by
  induction cs with
  | nil => rfl
  | cons c cs ih => rw [sp_cons]; simp [joinDir, ih]

theorem joinDir_bytes (cs : Fs.Path) (P : UInt8 → Prop) (h0 : P 0x2f) (h : ∀ c ∈ cs, ∀ b ∈ c, P b) :
    ∀ b ∈ joinDir cs, P b := by
  induction cs with
  | nil => intro b hb; cases hb
  | cons c cs ih =>
    intro b hb
    simp only [joinDir, List.mem_append, List.mem_cons] at hb
    rcases hb with hb | hb | hb
    · exact h c (by simp) b hb
    · subst hb; exact h0
    · exact ih (fun c' hc' => h c' (List.mem_cons_of_mem _ hc')) b hb

/-! ## `collapse_path` leaves "a/b/" alone when the components are real names -/

open PathFix in
theorem foldl_step_noslash (c : Bytes) (hc : ∀ b ∈ c, b ≠ slash) (out : Bytes) (cur : Nat) :
    c.foldl step ⟨out, cur⟩ = ⟨out ++ c, cur⟩ := by
  induction c generalizing out with
  | nil => simp
  | cons b c ih =>
    have hb : b ≠ slash := hc b (by simp)
    rw [List.foldl_cons]
    have : step ⟨out, cur⟩ b = ⟨out ++ [b], cur⟩ := by
      simp [step, hb]
    rw [this, ih (fun b' hb' => hc b' (List.mem_cons_of_mem _ hb'))]
    simp

open PathFix in
/-- a '/' after a component that is neither empty, "." nor "..": the component is kept -/
theorem step_slash_keep (s : PathFix.St)
    (h0 : (s.out ++ [slash]).length - s.cur - 1 ≠ 0)
    (h1 : ¬ ((s.out ++ [slash]).length - s.cur - 1 = 1 ∧ at' (s.out ++ [slash]) s.cur = dot))
    (h2 : ¬ ((s.out ++ [slash]).length - s.cur - 1 = 2 ∧ at' (s.out ++ [slash]) s.cur = dot ∧
      at' (s.out ++ [slash]) (s.cur + 1) = dot)) :
    step s slash = ⟨s.out ++ [slash], (s.out ++ [slash]).length⟩ := by
  unfold step
  simp only [if_true]
  rw [if_neg (by rintro (h | h); exact h0 h; exact h1 h), if_neg h2]

open PathFix in
theorem step_slash_name (c : Bytes) (hc : Name c) (out : Bytes) :
    step ⟨out ++ c, out.length⟩ slash = ⟨out ++ c ++ [slash], (out ++ c ++ [slash]).length⟩ := by
  obtain ⟨_, hne, hd, hdd⟩ := hc
  have hlen : (out ++ c ++ [slash]).length - out.length - 1 = c.length := by simp
  have hat0 : at' (out ++ c ++ [slash]) out.length = (c ++ [slash]).getD 0 0 := by
    simp [at', List.append_assoc, List.getD_eq_getElem?_getD, List.getElem?_append_right]
  have hat1 : at' (out ++ c ++ [slash]) (out.length + 1) = (c ++ [slash]).getD 1 0 := by
    simp [at', List.append_assoc, List.getD_eq_getElem?_getD, List.getElem?_append_right]
  apply step_slash_keep ⟨out ++ c, out.length⟩
  · show (out ++ c ++ [slash]).length - out.length - 1 ≠ 0
    rw [hlen]
    intro h; exact hne (List.eq_nil_of_length_eq_zero h)
  · show ¬ ((out ++ c ++ [slash]).length - out.length - 1 = 1 ∧ at' (out ++ c ++ [slash]) out.length = dot)
    rw [hlen, hat0]
    rintro ⟨hl, hx⟩
    match c, hl with
    | [x], _ =>
      have : x = dot := by simpa using hx
      subst this; exact hd rfl
  · show ¬ ((out ++ c ++ [slash]).length - out.length - 1 = 2 ∧ at' (out ++ c ++ [slash]) out.length = dot ∧
      at' (out ++ c ++ [slash]) (out.length + 1) = dot)
    rw [hlen, hat0, hat1]
    rintro ⟨hl, hx, hy⟩
    match c, hl with
    | [x, y], _ =>
      have h1 : x = dot := by simpa using hx
      have h2 : y = dot := by simpa using hy
      subst h1; subst h2; exact hdd rfl

open PathFix in
theorem foldl_step_joinDir (cs : Fs.Path) (h : ∀ c ∈ cs, Name c) (out : Bytes) :
    (joinDir cs).foldl step ⟨out, out.length⟩ = ⟨out ++ joinDir cs, (out ++ joinDir cs).length⟩ := by
  induction cs generalizing out with
  | nil => simp [joinDir]
  | cons c cs ih =>
    have hc := h c (by simp)
    have hns : ∀ b ∈ c, b ≠ slash := hc.1
    have e : joinDir (c :: cs) = c ++ ([slash] ++ joinDir cs) := rfl
    rw [e, List.foldl_append, foldl_step_noslash c hns, List.foldl_append]
    simp only [List.foldl_cons, List.foldl_nil]
    rw [step_slash_name c hc out, ih (fun c' hc' => h c' (List.mem_cons_of_mem _ hc'))]
    simp [List.append_assoc]

open PathFix in
/-- `collapse_path("a/b/") = "a/b/"` -/
theorem collapse_joinDir (cs : Fs.Path) (h : ∀ c ∈ cs, Name c) :
    PathFix.collapse (joinDir cs) = joinDir cs := by
  have hrel : PathFix.collapseRel (joinDir cs) = joinDir cs := by
    unfold PathFix.collapseRel
    have := foldl_step_joinDir cs h []
    simp only [List.length_nil, List.nil_append] at this
    rw [this]
  cases hj : joinDir cs with
  | nil => rfl
  | cons b rest =>
    have hb : b ≠ slash := by
      have := joinDir_rel cs h
      rw [hj] at this
      simpa [slash] using this
    simp only [PathFix.collapse, if_neg hb]
    rw [← hj, hrel]

end LhasaV.ArchiveOf
