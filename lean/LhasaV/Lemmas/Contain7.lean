import LhasaV.Lemmas.Contain6
/-!
# C10 (part 7): the whole run, members named ".." included

`run_contained_all`: `lha x archive` (no `w=`) from an extraction directory that is a directory,
has a directory as its parent, and contains only safe links: for ANY archive bytes and ANY
answers, every mutation the run adds to the log is below the extraction directory.

Besides the invariants of parts 4/5 the loop keeps:
* `DirMono fs₀ fs` (no directory ever disappears), hence `DirsOk`;
* `StackInv`: no header on the directory stack or among the deferred links is named ".."
  (such an entry is stored only after its `mkdir` / placeholder creation SUCCEEDED, which it
  never does on a name ending in "..": `readerExtract_dd`).
-/
namespace LhasaV.Contain
open LhasaV LhasaV.Header LhasaV.Extract LhasaV.GlobFs

/-- every header the reader stores for a second presentation satisfies `Q` -/
structure StackInv (Q : Hdr → Prop) (rd : Reader.St) : Prop where
  stack : ∀ c ∈ rd.dirStack, Q c.h
  deferred : ∀ c ∈ rd.deferred, Q c.h
  curr : rd.currType = .fakeDir ∨ rd.currType = .deferred → ∀ c, rd.curr = some c → Q c.h

section stack
variable {Q : Hdr → Prop}

theorem StackInv.of_frame {s s' : Reader.St} (f : Reader.Frame s s') (h : StackInv Q s) :
    StackInv Q s' := by
  refine ⟨?_, ?_, ?_⟩
  · rw [f.dirStack]; exact h.stack
  · rw [f.deferred]; exact h.deferred
  · rw [f.currType, f.curr]; exact h.curr

open Reader in
theorem nextAdv_stackInv {s s1 : Reader.St} (h : StackInv Q s) (e : nextAdv s = .ok s1) :
    StackInv Q s1 := by
  by_cases ht : s.currType = .start ∨ s.currType = .normal
  · obtain ⟨r, _, rfl⟩ := nextAdv_stream ht e
    exact ⟨h.stack, h.deferred, h.curr⟩
  · rw [nextAdv_fake ht] at e
    cases e; exact h

open Reader in
theorem nextUnref_currType (s : Reader.St) : (nextUnref s).currType = s.currType := by
  unfold nextUnref
  split
  · split <;> rfl
  · rfl

open Reader in
theorem nextUnref_stackInv {s : Reader.St} (h : StackInv Q s) : StackInv Q (nextUnref s) := by
  refine ⟨?_, ?_, ?_⟩
  · rw [nextUnref_dirStack]; exact h.stack
  · rw [nextUnref_deferred]; exact h.deferred
  · rw [nextUnref_currType, nextUnref_curr]; exact h.curr

open Reader in
theorem nextPop_stackInv {s : Reader.St} (h : StackInv Q s) : StackInv Q (nextPop s) := by
  unfold nextPop
  split
  · split
    · rename_i top rest hd
      refine ⟨?_, h.deferred, ?_⟩
      · intro c hc
        exact h.stack c (by rw [hd]; simp [show c ∈ rest from hc])
      · intro _ c hc
        simp only [Option.some.injEq] at hc
        subst hc
        exact h.stack _ (by rw [hd]; simp)
    · exact h
  · refine ⟨h.stack, h.deferred, ?_⟩
    intro ht
    simp at ht

open Reader in
theorem nextDeferred_stackInv {s : Reader.St} (h : StackInv Q s) : StackInv Q (nextDeferred s) := by
  unfold nextDeferred
  split
  · exact h
  · split
    · rename_i d rest hd
      refine ⟨h.stack, ?_, ?_⟩
      · intro c hc
        exact h.deferred c (by rw [hd]; simp [show c ∈ rest from hc])
      · intro _ c hc
        simp only [Option.some.injEq] at hc
        subst hc
        exact h.deferred _ (by rw [hd]; simp)
    · refine ⟨h.stack, h.deferred, ?_⟩
      intro ht
      simp at ht

open Reader in
theorem next_stackInv {rd rd' : Reader.St} {oc : Option HObj} (h : StackInv Q rd)
    (e : Reader.next rd = .ok (oc, rd')) : StackInv Q rd' := by
  have hcd : StackInv Q (closeDecoder rd) := h.of_frame (closeDecoder_frame rd)
  rw [next_eq] at e
  split at e
  · simp only [Except.ok.injEq, Prod.mk.injEq] at e
    rw [← e.2]; exact hcd
  · cases ha : nextAdv (closeDecoder rd) with
    | error w => rw [ha] at e; cases e
    | ok s1 =>
      rw [ha] at e
      simp only [bind, Except.bind, Except.ok.injEq, Prod.mk.injEq] at e
      rw [← e.2]
      exact nextDeferred_stackInv (nextPop_stackInv (nextUnref_stackInv (nextAdv_stackInv hcd ha)))

open Reader in
/-- what `lha_reader_extract` stores is the current header, and only after success -/
theorem extract_stackInv {s : Reader.St} (h : StackInv Q s) (b : Bool)
    (hb : b = true → ∀ c, s.curr = some c → Q c.h) : StackInv Q (Reader.extract s b).2 := by
  unfold Reader.extract
  split
  · rename_i c hty hcur
    split
    · dsimp only
      split
      · exact h.of_frame (openDecoder_frame s)
      · split
        · exact h.of_frame (openDecoder_frame s)
        · exact h.of_frame ((openDecoder_frame s).trans (decodeLoop_frame _ _ _))
    · split
      · split
        · split
          · exact h
          · rename_i hfs
            have hbt : b = true := by simpa using hfs
            refine ⟨h.stack, ?_, h.curr⟩
            intro x hx
            simp only [List.append_assoc, List.mem_append, List.mem_cons,
              List.not_mem_nil, or_false] at hx
            rcases hx with hx | hx | hx
            · exact h.deferred x (mem_takeWhile_mem _ _ _ hx)
            · subst hx; exact hb hbt _ hcur
            · exact h.deferred x (mem_dropWhile_mem _ _ _ hx)
        · exact h
      · split
        · exact h
        · rename_i hfs
          have hbt : b = true := by simpa using hfs
          split
          · exact h
          · refine ⟨?_, h.deferred, h.curr⟩
            intro x hx
            rcases List.mem_cons.1 hx with hx | hx
            · subst hx; exact hb hbt _ hcur
            · exact h.stack x hx
  · exact h
  · exact h
  · exact h

theorem readerExtract_stackInv {rd : Reader.St} (h : StackInv Q rd)
    (hq : ∀ c, rd.curr = some c → Q c.h) (fs : Fs.St) (fn : Bytes) :
    StackInv Q (readerExtract rd fs fn).2.1 := by
  unfold readerExtract
  split <;> (try simp only) <;> repeat' split
  all_goals first
    | exact h
    | exact extract_stackInv h _ (fun _ => hq)

end stack

open Reader in
/-- a presented header is a normal entry, a re-presented directory or a deferred link -/
theorem next_currType {rd rd' : Reader.St} {c : HObj} (h : Reader.next rd = .ok (some c, rd')) :
    rd'.currType = .normal ∨ rd'.currType = .fakeDir ∨ rd'.currType = .deferred := by
  obtain ⟨s1, _, rfl, hc⟩ := next_some h
  generalize nextUnref s1 = u at *
  unfold nextPop at *
  by_cases he : endOfTopDir u = true
  · simp only [he, if_true] at hc ⊢
    cases hd : u.dirStack with
    | nil => unfold endOfTopDir at he; simp [hd] at he
    | cons top rest =>
      right; left
      simp [nextDeferred]
  · simp only [he, Bool.false_eq_true, if_false] at hc ⊢
    cases hb : u.basic.curr with
    | some b => left; simp [nextDeferred]
    | none =>
      cases hdf : u.deferred with
      | nil => simp [nextDeferred, hb, hdf] at hc
      | cons d rest => right; right; simp [nextDeferred, hb, hdf]

/-! ## the constructed path of a header that satisfies the C11 invariant -/

theorem fileFullPath_congr (h : Hdr) (o o' : Opts) (h1 : o'.extractPath = o.extractPath)
    (h2 : o'.usePath = o.usePath) : fileFullPath h o' = fileFullPath h o := by
  unfold fileFullPath; rw [h1, h2]

/-- relative, every directory component a real name: all that C11 gives -/
theorem full_path_dirsClean (h : Hdr) (o : Opts) (hf : FnOk h) (hp : PathOk h)
    (hw : o.extractPath = none) : DirsClean (fileFullPath h o) :=
  ⟨full_path_relative h o hw, fun c hc => (full_path_dirs_good h o hf hp hw c hc).2.2⟩

/-- "not named '..'", with the options reduced to the one flag the path depends on -/
def NND (u : Bool) (h : Hdr) : Prop := NotNamedDotDot { usePath := u } h

theorem nnd_iff (o : Opts) (h : Hdr) (hw : o.extractPath = none) :
    NotNamedDotDot o h ↔ NND o.usePath h := by
  unfold NND NotNamedDotDot
  rw [fileFullPath_congr h o { usePath := o.usePath } (by rw [hw]) rfl]

/-! ## the loop -/

structure Inv7 (fs0 : Fs.St) (u : Bool) (s : St) : Prop where
  xp : s.opts.extractPath = none
  up : s.opts.usePath = u
  mono : DirMono fs0 s.fs
  hdr : HdrInv (fun h => FnOk h ∧ PathOk h) s.rd
  names : StackInv (NND u) s.rd
  phase : Contained fs0 s.fs ∨ (Below fs0 s.fs ∧ Phase2 s.rd)

theorem eaf_stackInv_A {Q : Hdr → Prop} (s : St) (h : Hdr) (hi : StackInv Q s.rd)
    (hq : ∀ c, s.rd.curr = some c → Q c.h) : StackInv Q (extractArchivedFile s h).rd := by
  rcases eaf_cases s h with ⟨_, h2⟩ | ⟨_, h2⟩ | ⟨_, h2⟩
  · rw [h2]; exact hi
  · rw [h2]; exact hi
  · rw [h2]; exact readerExtract_stackInv hi hq _ _

theorem eaf_inv7 (fs0 : Fs.St) (u : Bool) (hd0 : DirsOk fs0) (s : St) (rd : Reader.St)
    (c : Reader.HObj) (hn : Reader.next s.rd = .ok (some c, rd)) (hi : Inv7 fs0 u s) :
    Inv7 fs0 u (extractArchivedFile { s with rd := rd } c.h) := by
  obtain ⟨_, _, _, hcurr⟩ := next_some hn
  have hdr1 : HdrInv (fun h => FnOk h ∧ PathOk h) rd := next_inv parsed_good hi.hdr hn
  have names1 : StackInv (NND u) rd := next_stackInv hi.names hn
  have hgood := hdr1.curr c hcurr
  have hdc : DirsClean (fileFullPath c.h s.opts) := full_path_dirsClean c.h s.opts hgood.1 hgood.2 hi.xp
  have hopts := eaf_opts { s with rd := rd } c.h
  have hmono : DirMono fs0 (extractArchivedFile { s with rd := rd } c.h).fs :=
    hi.mono.trans (eaf_dirMono { s with rd := rd } c.h)
  have hhdr : HdrInv (fun h => FnOk h ∧ PathOk h) (extractArchivedFile { s with rd := rd } c.h).rd :=
    eaf_inv (s := { s with rd := rd }) hdr1 c.h
  by_cases hl : NotNamedDotDot s.opts c.h
  · -- a name that does not end in "..": parts 4/5
    have hk : HdrOk s.opts c.h := ⟨hgood.1, hgood.2, hl⟩
    have hq : NND u c.h := by rw [← hi.up]; exact (nnd_iff s.opts c.h hi.xp).1 hl
    refine ⟨by rw [hopts.1]; exact hi.xp, by rw [hopts.2]; exact hi.up, hmono, hhdr, ?_, ?_⟩
    · apply eaf_stackInv_A { s with rd := rd } c.h names1
      intro c' hc'
      have : c' = c := by
        have h' : some c' = some c := hc'.symm.trans hcurr
        injection h'
      rw [this]; exact hq
    · exact (eaf_loopInv fs0 s rd c hn ⟨hi.xp, hi.phase⟩ hk).2
  · -- a name ending in "..": nothing but (contained) parent directories happens
    have hdd : DotDotLast (fileFullPath c.h s.opts) := by
      refine ⟨hdc, ?_⟩
      unfold NotNamedDotDot at hl
      exact Classical.not_not.1 hl
    have hnq : ¬ NND u c.h := by rw [← hi.up]; exact fun h => hl ((nnd_iff s.opts c.h hi.xp).2 h)
    have hty : rd.currType = .normal := by
      rcases next_currType hn with h | h | h
      · exact h
      · exact absurd (names1.curr (Or.inl h) c hcurr) hnq
      · exact absurd (names1.curr (Or.inr h) c hcurr) hnq
    have hc : Contained fs0 s.fs := by
      rcases hi.phase with h | h
      · exact h
      · have := next_of_phase2 h.2 hn
        rw [hty] at this; cases this
    have hpar : Contained s.fs (parentsOf { s with rd := rd } (fileFullPath c.h s.opts)).2 := by
      unfold parentsOf
      split
      · exact Contained.refl s.fs hc.safe
      · exact makeParents_contained' s.fs hc.safe _ hdc
    have hpm : DirMono fs0 (parentsOf { s with rd := rd } (fileFullPath c.h s.opts)).2 :=
      hi.mono.trans (parentsOf_dirMono { s with rd := rd } _)
    have hre := readerExtract_dd rd (parentsOf { s with rd := rd } (fileFullPath c.h s.opts)).2
      (fileFullPath c.h s.opts) hty hpar.safe (hpm.dirsOk hd0) hdd
    refine ⟨by rw [hopts.1]; exact hi.xp, by rw [hopts.2]; exact hi.up, hmono, hhdr, ?_, ?_⟩
    · rcases eaf_cases { s with rd := rd } c.h with ⟨_, h2⟩ | ⟨_, h2⟩ | ⟨_, h2⟩
      · rw [h2]; exact names1
      · rw [h2]; exact names1
      · rw [h2]
        show StackInv (NND u) (readerExtract rd _ _).2.1
        rw [hre.2]
        exact extract_stackInv names1 false (fun h => by cases h)
    · left
      rcases eaf_cases { s with rd := rd } c.h with ⟨h1, _⟩ | ⟨h1, _⟩ | ⟨h1, _⟩
      · rw [h1]; exact hc
      · rw [h1]; exact hc.trans hpar
      · rw [h1]
        show Contained fs0 (readerExtract rd _ _).2.2
        rw [hre.1]; exact hc.trans hpar

theorem skip_inv7 (fs0 : Fs.St) (u : Bool) (s : St) (rd : Reader.St) (c : Reader.HObj)
    (hn : Reader.next s.rd = .ok (some c, rd)) (hi : Inv7 fs0 u s) :
    Inv7 fs0 u { s with rd := rd } :=
  ⟨hi.xp, hi.up, hi.mono, next_inv parsed_good hi.hdr hn, next_stackInv hi.names hn,
    (skip_loopInv fs0 s rd c hn ⟨hi.xp, hi.phase⟩).2⟩

theorem Inv7.below {fs0 : Fs.St} {u : Bool} {s : St} (hi : Inv7 fs0 u s) : Below fs0 s.fs := by
  rcases hi.phase with h | h
  · exact h.below
  · exact h.1

theorem extractLoop_inv7 (fs0 : Fs.St) (u : Bool) (hd0 : DirsOk fs0) :
    ∀ (fuel : Nat) (s : St), Inv7 fs0 u s → Below fs0 (extractLoop fuel s).fs := by
  intro fuel
  induction fuel with
  | zero => intro s hi; exact hi.below
  | succ n ih =>
    intro s hi
    rw [extractLoop]
    split
    · exact hi.below
    · split
      · exact hi.below
      · exact hi.below
      · rename_i c rd hn
        split
        · exact ih _ (skip_inv7 fs0 u s rd c hn hi)
        · exact ih _ (eaf_inv7 fs0 u hd0 s rd c hn hi)

theorem runInit_stackInv (Q : Hdr → Prop) (archive : Array UInt8) (o : Opts) (fs : Fs.St)
    (answers : Bytes) : StackInv Q (runInit archive o fs answers).rd :=
  ⟨fun c h => by simp [runInit] at h, fun c h => by simp [runInit] at h,
   fun h => by simp [runInit] at h⟩

/-- **C10, the whole run, no condition on the archive.**  `lha x archive` (no `w=`) started in an
extraction directory `fs₀.cwd` that is a directory, whose parent is a directory, and below which
every symbolic link is safe (relative target without ".."; for instance: no links at all): for
ANY archive bytes and ANY answers at the overwrite prompt, the current directory is unchanged
and every mutation the run adds to the log — parent directories, files, directories, safe links,
placeholders, metadata of re-presented directories, deferred (dangerous) links, removal of what
was in their way — acts on a path that has the extraction directory as a prefix. -/
theorem run_contained_all (archive : Array UInt8) (o : Opts) (fs₀ : Fs.St) (answers : Bytes)
    (hw : o.extractPath = none) (hs : SafeLinks fs₀) (hd : DirsOk fs₀) :
    (run archive o fs₀ answers).fs.cwd = fs₀.cwd ∧
    ∃ new, (run archive o fs₀ answers).fs.log = new ++ fs₀.log ∧ ∀ m ∈ new, fs₀.cwd <+: m.path := by
  rw [run_eq]
  have h := extractLoop_inv7 fs₀ o.usePath hd (runFuel archive) (runInit archive o fs₀ answers)
    ⟨hw, rfl, DirMono.refl fs₀, runInit_inv _ archive o fs₀ answers,
     runInit_stackInv _ archive o fs₀ answers, Or.inl (Contained.refl fs₀ hs)⟩
  exact ⟨h.cwd, h.log⟩

end LhasaV.Contain
