import LhasaV.Lemmas.ExtractTreeOpt14
/-!
# C06 with options: executable checks (not proofs)

`#guard` evaluates the model `Extract.run` on the bytes of `archiveOf sampleTree` under wildcard
arguments, `w=`, `i`, and compares with what the theorems of `ExtractTreeOpt9/11/12` promise —
at every entry path, at paths that are not in the archive, and for the absence of anything else
below the extraction directory.  Then what the model does OUTSIDE the theorems' domain.
Nothing here is used by a theorem.
-/
namespace LhasaV.ExtractTree.OptCheck
open LhasaV LhasaV.Extract LhasaV.Contain LhasaV.ExtractTree.Sample LhasaV.ArchiveOf

def fsFor (root : Bool) : Fs.St := { sampleFs with root := root }

def probes (es : List Entry) : List Fs.Path :=
  (es.map Entry.path) ++ (es.map (fun e => [e.namePart])) ++ [[[0x71]], [[0x61], [0x71]]]

/-- the run under `o` agrees with `tree` below `cwd ++ ds`, and nothing else is there -/
def agrees (root : Bool) (o : Opts) (ds : Fs.Path) (tree : Fs.Path → Option Fs.Ent) (paths : List Fs.Path) : Bool :=
  let fs := fsFor root
  let r := run (archiveOf sampleTree) o fs []
  r.result && !r.aborted &&
  (probes sampleTree).all (fun p => Fs.lookup r.fs (fs.cwd ++ ds ++ p) == tree p) &&
  -- nothing else anywhere: the extraction directory, the directories of `DIR`, the listed paths
  r.fs.ents.all (fun x => (List.range (ds.length + 1)).any (fun j => x.1 == fs.cwd ++ ds.take j) ||
      paths.any (fun p => fs.cwd ++ ds ++ p == x.1))

def selA : List Entry := sampleTree.filter (selected patA)

-- (1) `a/*`
#guard agrees true { filters := patA } [] (treeOf (fsFor true).now 0o022 selA) (selA.map Entry.path)
#guard agrees false { filters := patA } [] (treeOf (fsFor false).now 0o022 selA) (selA.map Entry.path)
-- two patterns: `a/` and `a/?` select the directory `a` and the file `a/x`
#guard agrees false { filters := [[0x61, 0x2f], [0x61, 0x2f, 0x3f]] } []
  (treeOf (fsFor false).now 0o022 (sampleTree.filter (selected [[0x61, 0x2f], [0x61, 0x2f, 0x3f]])))
  [[[0x61]], [[0x61], [0x78]]]
-- (2) `w=out`, `w=o/p` (two missing levels)
#guard agrees true { extractPath := some [0x6f, 0x75, 0x74] } outDir (treeOf (fsFor true).now 0o022 sampleTree)
  (sampleTree.map Entry.path)
#guard agrees false { extractPath := some [0x6f, 0x75, 0x74] } outDir (treeOf (fsFor false).now 0o022 sampleTree)
  (sampleTree.map Entry.path)
#guard agrees false { extractPath := some [0x6f, 0x2f, 0x70] } [[0x6f], [0x70]]
  (treeOf (fsFor false).now 0o022 sampleTree) (sampleTree.map Entry.path)
#guard (let r := run (archiveOf sampleTree) { extractPath := some [0x6f, 0x2f, 0x70] } (fsFor false) []
        Fs.lookup r.fs [[0x72], [0x6f]] == some (.dir 0o755 (fsFor false).now) &&
        Fs.lookup r.fs [[0x72], [0x6f], [0x70]] == some (.dir 0o755 (fsFor false).now))
-- (2) + (1)
#guard agrees false { extractPath := some [0x6f, 0x75, 0x74], filters := patA } outDir
  (treeOf (fsFor false).now 0o022 selA) (selA.map Entry.path)
-- (3) `i`, `i` with `w=out`, `i` with `a/*`
#guard agrees false { usePath := false } [] (flatTreeOf (fsFor false).now 0o022 sampleTree)
  ((flatList sampleTree).map Entry.path)
#guard agrees true { usePath := false, extractPath := some [0x6f, 0x75, 0x74] } outDir
  (flatTreeOf (fsFor true).now 0o022 sampleTree) ((flatList sampleTree).map Entry.path)
#guard agrees false { usePath := false, filters := patA } [] (flatTreeOf (fsFor false).now 0o022 selA)
  ((flatList selA).map Entry.path)

/-! ### outside the domain -/

/- nothing selected: `DIR` of `w=DIR` is NOT created (it is made by `make_parent_directories` for
the first extracted member only) -/
#guard (let r := run (archiveOf sampleTree) { extractPath := some [0x6f, 0x75, 0x74], filters := [[0x71]] }
          (fsFor false) []
        r.result && Fs.lookup r.fs [[0x72], [0x6f, 0x75, 0x74]] == none)

/- a selection that is not closed under parents (`*y` selects `a/b/y` only): the run succeeds, the
directories above are made by `make_parent_directories` — 0755 under the umask and the time of the
run, NOT the recorded 0555 / 111 / 222 of the directory entries that were not selected -/
#guard (let r := run (archiveOf sampleTree) { filters := [[0x2a, 0x79]] } (fsFor false) []
        r.result &&
        Fs.lookup r.fs [[0x72], [0x61]] == some (.dir 0o755 (fsFor false).now) &&
        Fs.lookup r.fs [[0x72], [0x61], [0x62]] == some (.dir 0o755 (fsFor false).now) &&
        Fs.lookup r.fs [[0x72], [0x61], [0x62], [0x79]] == some (.file [0x79, 0x79] 0o600 444))

/- a selected directory inside a directory that is not selected (`a/b/*`): `a` is made 0755 / now,
`a/b` gets its recorded 0555 / 222 -/
#guard (let r := run (archiveOf sampleTree) { filters := [[0x61, 0x2f, 0x62, 0x2f, 0x2a]] } (fsFor false) []
        r.result &&
        Fs.lookup r.fs [[0x72], [0x61]] == some (.dir 0o755 (fsFor false).now) &&
        Fs.lookup r.fs [[0x72], [0x61], [0x62]] == some (.dir 0o555 222))

/- the pattern `a` (no trailing separator) does not select the directory entry `a/` -/
#guard (sampleTree.filter (selected [[0x61]])).isEmpty

/-- `i` with two members of the same name (`a/x`, `x`): the second asks; at end of input the tool
exits -/
def twoX : List Entry := [.dir [[0x61]] none 0, .file [[0x61], [0x78]] [1] none 0, .file [[0x78]] [2] none 0]
#guard (let r := run (archiveOf twoX) { usePath := false } (fsFor false) []
        r.aborted && Fs.lookup r.fs [[0x72], [0x78]] == some (.file [1] 0o600 (fsFor false).now))
/-- … but a LINK of the same name replaces the file without asking (`lha_arch_symlink` unlinks) -/
def fileThenLink : List Entry := [.file [[0x78]] [1] none 0, .dir [[0x61]] none 0, .link [[0x61], [0x78]] [0x79]]
#guard (let r := run (archiveOf fileThenLink) { usePath := false } (fsFor false) []
        r.result && Fs.lookup r.fs [[0x72], [0x78]] == some (.link [0x79]))

end LhasaV.ExtractTree.OptCheck
