import LhasaV.Model.LhNew
import LhasaV.Spec.LhNewEnc
/-! Relation between the decoder model's parameters (from `Gen`) and the format constants of the spec. -/
namespace LhasaV.LhNewRT
open LhasaV LhasaV.Spec.LhNewEnc

/-- the format a parameter set decodes -/
def fmtOf (p : LhNew.Params) : Fmt :=
  ⟨p.offsetBits, p.numCodes, p.maxTempCodes, p.maxOffsetCodes, p.ringSize, p.lhark⟩

/-- side conditions of the round-trip proofs on a parameter set (all hold for the five sets, `rtParams_*`) -/
structure RTParams (p : LhNew.Params) : Prop where
  tempBits : p.tempCodeBits = 5
  maxTemp : p.maxTempCodes = 31
  thr : p.copyThreshold = 3
  ringDvd : p.ringSize ∣ 4294967296
  ringLe : p.ringSize ≤ 1048576
  ringCap : p.ringSize ≤ p.ringCap
  ringPos : 0 < p.ringSize
  offBits : p.offsetBits ≤ 9
  offCodes : p.maxOffsetCodes < 2 ^ p.offsetBits
  numCodes : p.numCodes ≤ 510
  numCodes' : 289 ≤ p.numCodes
  tempCap : p.maxTempCodes * 2 ≤ p.tempTreeCap
  codeCap : p.numCodes * 2 ≤ p.codeTreeCap
  offCap : p.maxOffsetCodes * 2 ≤ p.offsetTreeCap
  offTreePos : 0 < p.offsetTreeCap
  leaf : 1024 ≤ p.leafBit

theorem rtParams_lh5 : RTParams LhNew.lh5 := by constructor <;> decide
theorem rtParams_lh6 : RTParams LhNew.lh6 := by constructor <;> decide
theorem rtParams_lh7 : RTParams LhNew.lh7 := by constructor <;> decide
theorem rtParams_lhx : RTParams LhNew.lhx := by constructor <;> decide
theorem rtParams_lk7 : RTParams LhNew.lk7 := by constructor <;> decide

end LhasaV.LhNewRT
