import LhasaV.Lemmas.ToolKindsMore1
/-!
# C16 at tool level, more (part 2): every prefix the scan passes over is invisible to the whole tool

* **`tool_shift_transparent`** — the GENERAL prefix theorem.  Single hypothesis `PrefixShifts P A`
  (`firstHeader (P ++ A) = (firstHeader A).map (· + |P|)`, part 1): every command of the tool on
  `P ++ A` from any kind of source behaves as on `A` from any other — `lha x`/`e` (`XAgree`: flags,
  tokens, the whole file system), `lha p` (bytes), `lha t`/`x`/`e` with messages (`MAgree`: stdout,
  stderr, exit status, verdicts, file system), the header walk, and every listing
  (`listing_shift_transparent`).  `…F`: for every fuel; `…_run`: literally on `Extract.run` etc.
  No window or limit side condition is left: the limit is inside `PrefixShifts`.
* derived: **`tool_decoy_transparent`** (stub + marker + the decoy signature it announces: the exact
  hypotheses of C16 `decoy_skipped`, + `FirstInReach`), `tool_clean_transparent` (the existing
  `tool_prefix_transparent_kinds`, re-derived), **`tool_scan_transparent`** (an arbitrary prefix judged by
  the scan of the prefix alone, part 1 `shifts_of_scan`).
* non-vacuity: a concrete `MZ` stub + `LHA-SFX` + a decoy member + padding in front of `demo3`.
-/
set_option linter.unusedSimpArgs false
namespace LhasaV.ToolKinds
open LhasaV LhasaV.Stream LhasaV.Reader LhasaV.Extract LhasaV.Messages

/-- fresh readers, any two kinds, the first behind a prefix the scan passes over -/
theorem krel_fresh_shift (k k' : Stream.Kind) (P A : Array UInt8) (h : PrefixShifts P.toList A.toList) :
    KRel P.toList (readerK k (P ++ A)) (readerK k' A) := by
  refine ⟨rfl, rfl, rfl, rfl, rfl, rfl, rfl, rfl, ⟨rfl, rfl, Or.inr (Or.inl ?_)⟩, fun h => by cases h⟩
  exact ⟨rfl, rfl, rfl, rfl, rfl, rfl, rfl, rfl, rfl, Array.toList_append, h⟩

/-- **the general prefix theorem, for every fuel and any two kinds** -/
theorem tool_shift_transparentF (k k' : Stream.Kind) (P A : Array UInt8) (h : PrefixShifts P.toList A.toList)
    (fuel : Nat) (o : Opts) (fs : Fs.St) (answers : Bytes) (cmd : Cmd) :
    XAgree (runKF fuel k (P ++ A) o fs answers) (runKF fuel k' A o fs answers) ∧
    printKF fuel k (P ++ A) o = printKF fuel k' A o ∧
    MAgree (mrunKF cmd fuel k (P ++ A) o fs answers) (mrunKF cmd fuel k' A o fs answers) ∧
    headersKF fuel k (P ++ A) = headersKF fuel k' A :=
  loops_agree (krel_fresh_shift k k' P A h) fuel o fs answers cmd

/-- **The general prefix theorem** (the models' own fuel on both sides).  If the self-extractor scan of
`P ++ A` answers what the scan of `A` answers, `|P|` later, then every command of the tool on `P ++ A`
from a source of kind `k` behaves as on `A` from a source of kind `k'`. -/
theorem tool_shift_transparent (k k' : Stream.Kind) (P A : Array UInt8) (h : PrefixShifts P.toList A.toList)
    (o : Opts) (fs : Fs.St) (answers : Bytes) (cmd : Cmd) :
    XAgree (runK k (P ++ A) o fs answers) (runK k' A o fs answers) ∧
    printK k (P ++ A) o = printK k' A o ∧
    MAgree (mrunK cmd k (P ++ A) o fs answers) (mrunK cmd k' A o fs answers) ∧
    headersK k (P ++ A) = headersK k' A := by
  have hends := ends_in_fuel k' A o fs answers cmd
  have hsz : (P ++ A).size = A.size + P.size := by rw [Array.size_append]; omega
  have h1 := tool_shift_transparentF k k' P A h (2 * (P ++ A).size + 16) o fs answers cmd
  have h2 := tool_shift_transparentF k k' P A h ((P ++ A).size + 2) o fs answers cmd
  have f1 : 2 * (P ++ A).size + 16 = (2 * A.size + 16) + 2 * P.size := by omega
  have f2 : (P ++ A).size + 2 = (A.size + 2) + P.size := by omega
  refine ⟨?_, ?_, ?_, ?_⟩
  · have e : runKF (2 * (P ++ A).size + 16) k' A o fs answers = runK k' A o fs answers := by
      unfold runK runKF; rw [f1]; exact xEnds_mono _ _ hends.x _
    rw [← e]; exact h1.1
  · have e : printKF (2 * (P ++ A).size + 16) k' A o = printK k' A o := by
      unfold printK printKF; rw [f1]; exact pEnds_mono o _ _ _ hends.p _
    rw [← e]; exact h1.2.1
  · have e : mrunKF cmd (2 * (P ++ A).size + 16) k' A o fs answers = mrunK cmd k' A o fs answers := by
      unfold mrunK mrunKF; rw [f1]; exact mEnds_mono cmd _ _ hends.m _
    rw [← e]; exact h1.2.2.1
  · have e : headersKF ((P ++ A).size + 2) k' A = headersK k' A := by
      unfold headersK headersKF; rw [f2]; exact hEnds_mono _ _ _ hends.h _
    rw [← e]; exact h2.2.2.2

/-- … and every listing of `P ++ A` is the listing of `A`, byte for byte -/
theorem listing_shift_transparent (k k' : Stream.Kind) (P A : Array UInt8) (h : PrefixShifts P.toList A.toList)
    (vl vo : Bool) (quiet now mtime : Nat) (filters : List Bytes) :
    listingK k vl vo quiet now mtime filters (P ++ A) = listingK k' vl vo quiet now mtime filters A := by
  unfold listingK
  rw [(tool_shift_transparent k k' P A h {} {} [] .test).2.2.2]

/-- … literally on the tool models: `lha … sfx.exe` against `lha … archive.lzh` -/
theorem tool_shift_transparent_run (P A : Array UInt8) (h : PrefixShifts P.toList A.toList)
    (o : Opts) (fs : Fs.St) (answers : Bytes) (cmd : Cmd) :
    XAgree (Extract.run (P ++ A) o fs answers) (Extract.run A o fs answers) ∧
    Extract.print (P ++ A) o = Extract.print A o ∧
    MAgree (Messages.run cmd (P ++ A) o fs answers) (Messages.run cmd A o fs answers) ∧
    headersK .seekable (P ++ A) = headersK .seekable A :=
  tool_shift_transparent .seekable .seekable P A h o fs answers cmd

/-! ## the three families of prefixes -/

/-- the clean prefix of `ToolKinds.tool_prefix_transparent_kinds`, re-derived from the general theorem -/
theorem tool_clean_transparent (k k' : Stream.Kind) (P A : Array UInt8)
    (hclean : ∀ j, j < P.toList.length → ¬ sigAt (P.toList ++ A.toList) j ∧ ¬ markAt (P.toList ++ A.toList) j)
    (hreach : FirstInReach P.toList A.toList)
    (o : Opts) (fs : Fs.St) (answers : Bytes) (cmd : Cmd) :
    XAgree (runK k (P ++ A) o fs answers) (runK k' A o fs answers) ∧
    printK k (P ++ A) o = printK k' A o ∧
    MAgree (mrunK cmd k (P ++ A) o fs answers) (mrunK cmd k' A o fs answers) ∧
    headersK k (P ++ A) = headersK k' A :=
  tool_shift_transparent k k' P A (shifts_of_clean hclean hreach) o fs answers cmd

/-- **C16 `decoy_skipped`, for the whole tool.**  `P`: a self-extractor prefix holding an SFX marker
(`LHA-SFX` or `LhASFX V1.2,`) at `m`, exactly one method signature — the decoy header the marker
announces, at `d` behind it — and no further marker behind `m` (all judged on `P ++ A`: the hypotheses of
`Props.C16.decoy_skipped`), and the first header of `A` stays within the scan limit.  Then every command of
the tool on `P ++ A` from any kind of source behaves as on `A` from any other. -/
theorem tool_decoy_transparent (k k' : Stream.Kind) (P A : Array UInt8) (m d : Nat)
    (hmd : m < d) (hd : d < P.toList.length)
    (hmark : markAt (P.toList ++ A.toList) m) (hsig : sigAt (P.toList ++ A.toList) d)
    (hnosig : ∀ j, j < P.toList.length → j ≠ d → ¬ sigAt (P.toList ++ A.toList) j)
    (hnomark : ∀ j, m < j → j < P.toList.length → ¬ markAt (P.toList ++ A.toList) j)
    (hreach : FirstInReach P.toList A.toList)
    (o : Opts) (fs : Fs.St) (answers : Bytes) (cmd : Cmd) :
    XAgree (runK k (P ++ A) o fs answers) (runK k' A o fs answers) ∧
    printK k (P ++ A) o = printK k' A o ∧
    MAgree (mrunK cmd k (P ++ A) o fs answers) (mrunK cmd k' A o fs answers) ∧
    headersK k (P ++ A) = headersK k' A :=
  tool_shift_transparent k k' P A (shifts_of_decoy m d hmd hd hmark hsig hnosig hnomark hreach) o fs answers cmd

/-- … and the listings -/
theorem listing_decoy_transparent (k k' : Stream.Kind) (P A : Array UInt8) (m d : Nat)
    (hmd : m < d) (hd : d < P.toList.length)
    (hmark : markAt (P.toList ++ A.toList) m) (hsig : sigAt (P.toList ++ A.toList) d)
    (hnosig : ∀ j, j < P.toList.length → j ≠ d → ¬ sigAt (P.toList ++ A.toList) j)
    (hnomark : ∀ j, m < j → j < P.toList.length → ¬ markAt (P.toList ++ A.toList) j)
    (hreach : FirstInReach P.toList A.toList)
    (vl vo : Bool) (quiet now mtime : Nat) (filters : List Bytes) :
    listingK k vl vo quiet now mtime filters (P ++ A) = listingK k' vl vo quiet now mtime filters A :=
  listing_shift_transparent k k' P A (shifts_of_decoy m d hmd hd hmark hsig hnosig hnomark hreach) _ _ _ _ _ _

/-- **An arbitrary prefix, judged by the scan of the prefix alone** (part 1, `firstHeader_of_scan`): the
scan of `P` finds nothing, leaves no decoy pending, the last 12 offsets of `P` carry no straddling match,
and the first header of `A` is in reach. -/
theorem tool_scan_transparent (k k' : Stream.Kind) (P A : Array UInt8)
    (hnone : firstHeader P.toList = none) (hctr : pendingDecoy P.toList = 0)
    (htail : ∀ j, P.toList.length - 12 ≤ j → j < P.toList.length →
      ¬ sigAt (P.toList ++ A.toList) j ∧ ¬ markAt (P.toList ++ A.toList) j)
    (hreach : FirstInReach P.toList A.toList)
    (o : Opts) (fs : Fs.St) (answers : Bytes) (cmd : Cmd) :
    XAgree (runK k (P ++ A) o fs answers) (runK k' A o fs answers) ∧
    printK k (P ++ A) o = printK k' A o ∧
    MAgree (mrunK cmd k (P ++ A) o fs answers) (mrunK cmd k' A o fs answers) ∧
    headersK k (P ++ A) = headersK k' A :=
  tool_shift_transparent k k' P A (shifts_of_scan hnone hctr htail hreach) o fs answers cmd

/-! ## non-vacuity -/

def bytesOf (s : String) : Array UInt8 := s.toUTF8.data

/-- 16 bytes of padding without `-` and without `L` -/
def pad16 : Array UInt8 := (Array.range 16).map (fun i => UInt8.ofNat (i + 0x80))

/-- a self-extractor: the `MZ` stub of `ToolKinds`, the marker `LHA-SFX` (offset 42), three bytes, a whole
decoy member `z` (at offset 52), padding -/
def sfx : Array UInt8 := stub ++ bytesOf "LHA-SFX" ++ #[1, 2, 3] ++ member 0x7a ++ pad16

/-- the Amiga flavour: `LhASFX V1.2,` and a bare decoy signature -/
def sfxAmiga : Array UInt8 := stub ++ bytesOf "LhASFX V1.2," ++ #[0, 0] ++ bytesOf "-lh5-" ++ pad16

/-- a marker whose decoy never comes: NOT transparent — the first real member is taken for the decoy -/
def sfxNoDecoy : Array UInt8 := stub ++ bytesOf "LHA-SFX" ++ pad16

#guard sfx.size == 95 && sfxAmiga.size == 77
#guard firstHeader (sfx.toList ++ demo3.toList) == some 95 && firstHeader sfx.toList == none
#guard pendingDecoy sfx.toList == 0 && pendingDecoy sfxNoDecoy.toList == 1
-- the four kinds, behind the marker and the decoy: as the bare archive from a file
#guard (Stream.Kind.seekable :: otherKinds).all fun k => [sfx, sfxAmiga].all fun p =>
  xObs (runK k (p ++ demo3) {} {} []) == xObs (Extract.run demo3 {} {} []) &&
  printK k (p ++ demo3) {} == Extract.print demo3 {} &&
  names (headersK k (p ++ demo3)) == some [[0x61], [0x62], [0x63]] &&
  [Cmd.test, Cmd.extract].all fun cmd =>
    mObs (mrunK cmd k (p ++ demo3) {} {} []) == mObs (Messages.run cmd demo3 {} {} [])
-- the decoy `z` is not listed, extracted or printed; without the marker it would be
#guard names (headersK .pipe (stub ++ member 0x7a ++ pad16 ++ demo3)) == some [[0x7a]]
-- the hypothesis is needed: marker without decoy, member `a` is swallowed
#guard (Stream.Kind.seekable :: otherKinds).all fun k =>
  names (headersK k (sfxNoDecoy ++ demo3)) == some [[0x62], [0x63]]

/-- the marker without its decoy is provably not passed over (and `shifts_iff_scan` says why:
`pendingDecoy sfxNoDecoy = 1`) -/
example : ¬ PrefixShifts sfxNoDecoy.toList demo3.toList := by
  unfold PrefixShifts; decide +kernel

theorem sfx_marker : markAt (sfx.toList ++ demo3.toList) 42 := by decide +kernel
theorem sfx_decoy : sigAt (sfx.toList ++ demo3.toList) 52 := by decide +kernel
theorem sfx_nosig : ∀ j, j < sfx.toList.length → j ≠ 52 → ¬ sigAt (sfx.toList ++ demo3.toList) j := by
  decide +kernel
theorem sfx_nomark : ∀ j, 42 < j → j < sfx.toList.length → ¬ markAt (sfx.toList ++ demo3.toList) j :=
  fun j h1 h2 => (by decide +kernel :
    ∀ j, j < sfx.toList.length → 42 < j → ¬ markAt (sfx.toList ++ demo3.toList) j) j h2 h1
theorem sfx_reach : FirstInReach sfx.toList demo3.toList :=
  firstInReach_zero (by decide +kernel) (by decide +kernel) (by decide +kernel)

/-- the hypotheses of `decoy_skipped` hold for `sfx` in front of `demo3`: `lha x -` fed with the
self-extractor against `lha x` on the bare archive file, whatever the options, file system, answers -/
example (o : Opts) (fs : Fs.St) (answers : Bytes) :
    XAgree (runK .pipe (sfx ++ demo3) o fs answers) (Extract.run demo3 o fs answers) :=
  (tool_decoy_transparent .pipe .seekable sfx demo3 42 52 (by decide) (by decide +kernel) sfx_marker sfx_decoy
    sfx_nosig sfx_nomark sfx_reach o fs answers .test).1

/-- … `lha t` from callbacks without skip: the same stdout, stderr, exit status -/
example (o : Opts) (fs : Fs.St) (answers : Bytes) :
    MAgree (mrunK .test .cbNoSkip (sfx ++ demo3) o fs answers) (Messages.run .test demo3 o fs answers) :=
  (tool_decoy_transparent .cbNoSkip .seekable sfx demo3 42 52 (by decide) (by decide +kernel) sfx_marker
    sfx_decoy sfx_nosig sfx_nomark sfx_reach o fs answers .test).2.2.1

/-- the same prefix judged ALONE (nothing about the archive is evaluated but its first bytes):
the scan of `sfx` finds nothing, no decoy is pending, its last 12 bytes hold no `-` and no `L` -/
theorem sfx_scan : firstHeader sfx.toList = none ∧ pendingDecoy sfx.toList = 0 :=
  scan_of_decoy sfx.toList 42 52 (by decide) (by decide +kernel) (by decide +kernel) (by decide +kernel)
    (by decide +kernel)
    (fun j h hne => (by decide +kernel :
      ∀ j, j < sfx.toList.length - 12 → j ≠ 52 → ¬ sigAt sfx.toList j) j (by omega) hne)
    (fun j h1 h2 => (by decide +kernel :
      ∀ j, j < sfx.toList.length - 12 → 42 < j → ¬ markAt sfx.toList j) j (by omega) h1)

theorem sfx_tail : ∀ j, sfx.toList.length - 12 ≤ j → j < sfx.toList.length →
    sfx.toList.getD j 0 ≠ chr '-' ∧ sfx.toList.getD j 0 ≠ chr 'L' :=
  fun j h1 h2 => (by decide +kernel : ∀ j, j < sfx.toList.length → sfx.toList.length - 12 ≤ j →
    sfx.toList.getD j 0 ≠ chr '-' ∧ sfx.toList.getD j 0 ≠ chr 'L') j h2 h1

/-- for EVERY archive `A` that starts with a header of at least 13 bytes: `sfx ++ A` from a pipe is `A`
from a file -/
example (A : Array UInt8) (hsig : sigAt A.toList 0) (hlen : 12 < A.toList.length)
    (o : Opts) (fs : Fs.St) (answers : Bytes) :
    XAgree (runK .pipe (sfx ++ A) o fs answers) (Extract.run A o fs answers) :=
  (tool_scan_transparent .pipe .seekable sfx A sfx_scan.1 sfx_scan.2
    (tail_clean_of_bytes _ _ sfx_tail (Or.inl hsig))
    (firstInReach_zero hsig hlen (by decide +kernel)) o fs answers .test).1

end LhasaV.ToolKinds
