import LhasaV.Lemmas.ListPrintable
/-!
Property C19 for `lha l / lv / v / vv`: the structure of the listing.

* `render_rows` – heading lines, then one row per member in archive order, then the footer
  lines; a row is a function of its own header only, the footer of the totals only;
* `row_l`, `row_lv`, `row_v`, `row_vv` – which header field is printed where in a row;
* `stats_sums` – the totals of the footer;
* `row_newlines`, `row_ends_newline` – line structure of a row;
* `outputTimestamp_*` – the recent / old switch of the short timestamp.
-/
namespace LhasaV.ListProps
open LhasaV LhasaV.Header LhasaV.ListOut

/-! ### A.1 the shape of the listing -/

/-- what precedes the rows: the heading line and the dashes, unless `-q2` (or higher) -/
def listHead (verboseList verboseOpt : Bool) (quiet : Nat) : Bytes :=
  if quiet < 2 then
    printListHeadings (columnsFor verboseList verboseOpt) ++
      printListSeparators (columnsFor verboseList verboseOpt)
  else []

/-- what follows the rows: the dashes and the totals line, unless `-q2` (or higher) -/
def listTail (verboseList verboseOpt : Bool) (quiet now : Nat) (totals : Stats) : Bytes :=
  if quiet < 2 then
    printListSeparators (columnsFor verboseList verboseOpt) ++
      printFooters (columnsFor verboseList verboseOpt) now totals
  else []

/-- the statistics the listing loop starts from -/
def initStats (archiveMtime : Nat) : Stats := { timestamp := archiveMtime % two32 }

/-- the rows of the listing -/
def listRows (verboseList verboseOpt : Bool) (now : Nat) (hdrs : List Hdr) : Bytes :=
  hdrs.flatMap (printColumns (columnsFor verboseList verboseOpt) now)

/-- **C19, shape.** The listing is `head ++ rows ++ tail`: `head` depends on the options only
(not on `now`, the archive or its members); the rows are the members' rows in archive order,
each computed from that member's header (and the clock) alone; `tail` depends on the members
only through the accumulated totals.  `quiet` has no other effect: levels 0 and 1 print head
and tail, levels ≥ 2 print the rows only. -/
theorem render_rows (verboseList verboseOpt : Bool) (quiet now archiveMtime : Nat)
    (hdrs : List Hdr) :
    render verboseList verboseOpt quiet now archiveMtime hdrs =
      listHead verboseList verboseOpt quiet ++
      hdrs.flatMap (printColumns (columnsFor verboseList verboseOpt) now) ++
      listTail verboseList verboseOpt quiet now (hdrs.foldl accumulate (initStats archiveMtime)) :=
  rfl

theorem render_quiet2 (verboseList verboseOpt : Bool) (quiet now archiveMtime : Nat)
    (hdrs : List Hdr) (hq : 2 ≤ quiet) :
    render verboseList verboseOpt quiet now archiveMtime hdrs =
      hdrs.flatMap (printColumns (columnsFor verboseList verboseOpt) now) := by
  rw [render_rows, listHead, listTail, if_neg (by omega), if_neg (by omega)]
  simp

/-- quiet levels 0 and 1 list identically -/
theorem render_quiet01 (verboseList verboseOpt : Bool) (now archiveMtime : Nat) (hdrs : List Hdr) :
    render verboseList verboseOpt 1 now archiveMtime hdrs =
      render verboseList verboseOpt 0 now archiveMtime hdrs := rfl

theorem listRows_nil (vl vo : Bool) (now : Nat) : listRows vl vo now [] = [] := rfl

theorem listRows_cons (vl vo : Bool) (now : Nat) (h : Hdr) (hs : List Hdr) :
    listRows vl vo now (h :: hs) = printColumns (columnsFor vl vo) now h ++ listRows vl vo now hs := by
  simp [listRows]

theorem listRows_append (vl vo : Bool) (now : Nat) (hs1 hs2 : List Hdr) :
    listRows vl vo now (hs1 ++ hs2) = listRows vl vo now hs1 ++ listRows vl vo now hs2 := by
  simp [listRows]

/-- the member at position `hs1.length` contributes exactly its own row, between the rows of
the members before it and the rows of those after it -/
theorem listRows_member (vl vo : Bool) (now : Nat) (hs1 hs2 : List Hdr) (h : Hdr) :
    listRows vl vo now (hs1 ++ h :: hs2) =
      listRows vl vo now hs1 ++ printColumns (columnsFor vl vo) now h ++ listRows vl vo now hs2 := by
  simp [listRows]

/-! ### which field goes where -/

/-- `lha l` -/
theorem row_l (now : Nat) (h : Hdr) :
    printColumns (columnsFor false false) now h =
      permissionColumn h ++ str " " ++ uidGidColumn h ++ str " " ++ sizeField h.length ++ str " " ++
      ratioColumn h ++ str " " ++ outputTimestamp now h.timestamp ++ str " " ++ nameColumn h ++
      str "\n" := by
  simp [printColumns, printColumns.go, columnsFor, normalColumns, lastColumn, lastColumn.go,
    runHandler, permissionCol, uidGidCol, sizeCol, ratioCol, timestampCol, nameCol]

/-- `lha lv` -/
theorem row_lv (now : Nat) (h : Hdr) :
    printColumns (columnsFor false true) now h =
      wholeLineName h ++ str "\n" ++
      permissionColumn h ++ str " " ++ uidGidColumn h ++ str " " ++ sizeField h.length ++ str " " ++
      ratioColumn h ++ str " " ++ outputTimestamp now h.timestamp ++ str " " ++ headerLevelColumn h ++
      str "\n" := by
  simp [printColumns, printColumns.go, columnsFor, normalColumnsVerbose, lastColumn, lastColumn.go,
    runHandler, permissionCol, uidGidCol, sizeCol, ratioCol, timestampCol, wholeLineNameCol,
    headerLevelCol, wholeLineNameColumn_eq]

/-- `lha v` -/
theorem row_v (now : Nat) (h : Hdr) :
    printColumns (columnsFor true false) now h =
      permissionColumn h ++ str " " ++ uidGidColumn h ++ str " " ++
      sizeField h.compressedLength ++ str " " ++ sizeField h.length ++ str " " ++
      ratioColumn h ++ str " " ++ methodCrcColumn h ++ str " " ++
      outputTimestamp now h.timestamp ++ str " " ++ nameColumn h ++ str "\n" := by
  simp [printColumns, printColumns.go, columnsFor, verboseColumns, lastColumn, lastColumn.go,
    runHandler, permissionCol, uidGidCol, packedCol, sizeCol, ratioCol, methodCrcCol, timestampCol,
    shortNameCol]

/-- `lha vv` -/
theorem row_vv (now : Nat) (h : Hdr) :
    printColumns (columnsFor true true) now h =
      wholeLineName h ++ str "\n" ++
      permissionColumn h ++ str " " ++ uidGidColumn h ++ str " " ++
      sizeField h.compressedLength ++ str " " ++ sizeField h.length ++ str " " ++
      ratioColumn h ++ str " " ++ methodCrcColumn h ++ str " " ++
      outputFullTimestamp h.timestamp ++ str " " ++ headerLevelColumn h ++ str "\n" := by
  simp [printColumns, printColumns.go, columnsFor, verboseColumnsVerbose, lastColumn, lastColumn.go,
    runHandler, permissionCol, uidGidCol, packedCol, sizeCol, ratioCol, methodCrcCol,
    fullTimestampCol, wholeLineNameCol, headerLevelCol, wholeLineNameColumn_eq]

/-! ### A.2 the totals -/

def sumLength (hdrs : List Hdr) : Nat := (hdrs.map (·.length)).sum
def sumCompressed (hdrs : List Hdr) : Nat := (hdrs.map (·.compressedLength)).sum

theorem accumulate_timestamp (s : Stats) (h : Hdr) : (accumulate s h).timestamp = s.timestamp := rfl

/-- the totals the C computes: `unsigned int` sums, i.e. the true sums reduced modulo 2^32
(`s0` is any start state whose counters are already in range, as they are in `render`) -/
theorem stats_sums (s0 : Stats) (hdrs : List Hdr)
    (h1 : s0.numFiles < two32) (h2 : s0.length < two32) (h3 : s0.compressedLength < two32) :
    (hdrs.foldl accumulate s0).numFiles = (s0.numFiles + hdrs.length) % two32 ∧
    (hdrs.foldl accumulate s0).length = (s0.length + sumLength hdrs) % two32 ∧
    (hdrs.foldl accumulate s0).compressedLength =
      (s0.compressedLength + sumCompressed hdrs) % two32 ∧
    (hdrs.foldl accumulate s0).timestamp = s0.timestamp := by
  induction hdrs generalizing s0 with
  | nil =>
    simp only [List.foldl_nil, List.length_nil, sumLength, sumCompressed, List.map_nil,
      List.sum_nil, Nat.add_zero]
    exact ⟨(Nat.mod_eq_of_lt h1).symm, (Nat.mod_eq_of_lt h2).symm, (Nat.mod_eq_of_lt h3).symm, trivial⟩
  | cons h t ih =>
    have hp : 0 < two32 := by decide
    obtain ⟨a, b, c, d⟩ := ih (accumulate s0 h) (Nat.mod_lt _ hp) (Nat.mod_lt _ hp) (Nat.mod_lt _ hp)
    simp only [List.foldl_cons, List.length_cons, sumLength, sumCompressed, List.map_cons,
      List.sum_cons] at a b c d ⊢
    refine ⟨?_, ?_, ?_, ?_⟩
    · rw [a]; simp only [accumulate, two32]; omega
    · rw [b]; simp only [accumulate, two32]; omega
    · rw [c]; simp only [accumulate, two32]; omega
    · rw [d]; rfl

/-- the totals of a listing: file count and byte sums modulo 2^32, and the archive's time -/
theorem render_totals (archiveMtime : Nat) (hdrs : List Hdr) :
    (hdrs.foldl accumulate (initStats archiveMtime)).numFiles = hdrs.length % two32 ∧
    (hdrs.foldl accumulate (initStats archiveMtime)).length = sumLength hdrs % two32 ∧
    (hdrs.foldl accumulate (initStats archiveMtime)).compressedLength =
      sumCompressed hdrs % two32 ∧
    (hdrs.foldl accumulate (initStats archiveMtime)).timestamp = archiveMtime % two32 := by
  have := stats_sums (initStats archiveMtime) hdrs (by show 0 < two32; decide) (by show 0 < two32; decide)
    (by show 0 < two32; decide)
  simpa [initStats] using this

/-- below the wrap point the totals are the true sums -/
theorem render_totals_exact (archiveMtime : Nat) (hdrs : List Hdr)
    (hn : hdrs.length < two32) (hl : sumLength hdrs < two32) (hc : sumCompressed hdrs < two32) :
    (hdrs.foldl accumulate (initStats archiveMtime)).numFiles = hdrs.length ∧
    (hdrs.foldl accumulate (initStats archiveMtime)).length = sumLength hdrs ∧
    (hdrs.foldl accumulate (initStats archiveMtime)).compressedLength = sumCompressed hdrs := by
  obtain ⟨a, b, c, _⟩ := render_totals archiveMtime hdrs
  rw [a, b, c]
  exact ⟨Nat.mod_eq_of_lt hn, Nat.mod_eq_of_lt hl, Nat.mod_eq_of_lt hc⟩

/-- `stats_sums` without a range assumption on the start state -/
theorem stats_sums_mod (s0 : Stats) (hdrs : List Hdr) :
    (hdrs.foldl accumulate s0).numFiles % two32 = (s0.numFiles + hdrs.length) % two32 ∧
    (hdrs.foldl accumulate s0).length % two32 = (s0.length + sumLength hdrs) % two32 ∧
    (hdrs.foldl accumulate s0).compressedLength % two32 =
      (s0.compressedLength + sumCompressed hdrs) % two32 := by
  cases hdrs with
  | nil => simp [sumLength, sumCompressed]
  | cons h t =>
    have hp : 0 < two32 := by decide
    obtain ⟨a, b, c, _⟩ :=
      stats_sums (accumulate s0 h) t (Nat.mod_lt _ hp) (Nat.mod_lt _ hp) (Nat.mod_lt _ hp)
    simp only [List.foldl_cons, List.length_cons, sumLength, sumCompressed, List.map_cons,
      List.sum_cons] at a b c ⊢
    refine ⟨?_, ?_, ?_⟩
    · rw [a]; simp only [accumulate, two32]; omega
    · rw [b]; simp only [accumulate, two32]; omega
    · rw [c]; simp only [accumulate, two32]; omega

/-! ### A.3 line structure of a row -/

theorem not_mem_newline_of_pr {l : Bytes} (h : Pr l) : (0x0a : UInt8) ∉ l := by
  intro hm
  exact absurd (h _ hm) (by decide)

theorem count_newline_of_pr {l : Bytes} (h : Pr l) : List.count (0x0a : UInt8) l = 0 :=
  List.count_eq_zero.mpr (not_mem_newline_of_pr h)

/-- `l` and `v` (name column last): a row is one line – printable bytes, then the newline -/
theorem row_plain (vl : Bool) (now : Nat) (h : Hdr) :
    ∃ body, printColumns (columnsFor vl false) now h = body ++ [0x0a] ∧ Pr body := by
  cases vl
  · refine ⟨_, by rw [row_l, str_newline], ?_⟩
    simp only [Pr, all_append]
    exact ⟨⟨⟨⟨⟨⟨⟨⟨⟨⟨pr_permissionColumn h, pr_space_str⟩, pr_uidGidColumn h⟩, pr_space_str⟩,
      pr_sizeField _⟩, pr_space_str⟩, pr_ratioColumn h⟩, pr_space_str⟩, pr_outputTimestamp _ _⟩,
      pr_space_str⟩, pr_nameColumn h⟩
  · refine ⟨_, by rw [row_v, str_newline], ?_⟩
    simp only [Pr, all_append]
    exact ⟨⟨⟨⟨⟨⟨⟨⟨⟨⟨⟨⟨⟨⟨pr_permissionColumn h, pr_space_str⟩, pr_uidGidColumn h⟩, pr_space_str⟩,
      pr_sizeField _⟩, pr_space_str⟩, pr_sizeField _⟩, pr_space_str⟩, pr_ratioColumn h⟩,
      pr_space_str⟩, pr_methodCrcColumn h⟩, pr_space_str⟩, pr_outputTimestamp _ _⟩,
      pr_space_str⟩, pr_nameColumn h⟩

/-- `lv` and `vv` (name on a line of its own, first): a row is two lines – the sanitised name,
newline, the other columns, newline -/
theorem row_verbose (vl : Bool) (now : Nat) (h : Hdr) :
    ∃ rest, printColumns (columnsFor vl true) now h =
        wholeLineName h ++ [0x0a] ++ rest ++ [0x0a] ∧ Pr (wholeLineName h) ∧ Pr rest := by
  cases vl
  · refine ⟨permissionColumn h ++ str " " ++ uidGidColumn h ++ str " " ++ sizeField h.length ++
      str " " ++ ratioColumn h ++ str " " ++ outputTimestamp now h.timestamp ++ str " " ++
      headerLevelColumn h, by rw [row_lv, str_newline]; simp only [List.append_assoc],
      pr_wholeLineName h, ?_⟩
    simp only [Pr, all_append]
    exact ⟨⟨⟨⟨⟨⟨⟨⟨⟨⟨pr_permissionColumn h, pr_space_str⟩, pr_uidGidColumn h⟩, pr_space_str⟩,
      pr_sizeField _⟩, pr_space_str⟩, pr_ratioColumn h⟩, pr_space_str⟩, pr_outputTimestamp _ _⟩,
      pr_space_str⟩, pr_headerLevelColumn h⟩
  · refine ⟨permissionColumn h ++ str " " ++ uidGidColumn h ++ str " " ++
      sizeField h.compressedLength ++ str " " ++ sizeField h.length ++ str " " ++
      ratioColumn h ++ str " " ++ methodCrcColumn h ++ str " " ++
      outputFullTimestamp h.timestamp ++ str " " ++ headerLevelColumn h,
      by rw [row_vv, str_newline]; simp only [List.append_assoc], pr_wholeLineName h, ?_⟩
    simp only [Pr, all_append]
    exact ⟨⟨⟨⟨⟨⟨⟨⟨⟨⟨⟨⟨⟨⟨pr_permissionColumn h, pr_space_str⟩, pr_uidGidColumn h⟩, pr_space_str⟩,
      pr_sizeField _⟩, pr_space_str⟩, pr_sizeField _⟩, pr_space_str⟩, pr_ratioColumn h⟩,
      pr_space_str⟩, pr_methodCrcColumn h⟩, pr_space_str⟩, pr_outputFullTimestamp _⟩,
      pr_space_str⟩, pr_headerLevelColumn h⟩

/-- a row holds exactly one newline for `l` / `v` and exactly two for `lv` / `vv`, whatever
bytes the member's name contains -/
theorem row_newlines (vl vo : Bool) (now : Nat) (h : Hdr) :
    List.count (0x0a : UInt8) (printColumns (columnsFor vl vo) now h) = if vo then 2 else 1 := by
  cases vo
  · obtain ⟨body, e, hb⟩ := row_plain vl now h
    rw [e, List.count_append, count_newline_of_pr hb]; rfl
  · obtain ⟨rest, e, hn, hr⟩ := row_verbose vl now h
    rw [e]
    simp only [List.count_append, count_newline_of_pr hn, count_newline_of_pr hr]; rfl

/-- every row ends with a newline -/
theorem row_ends_newline (vl vo : Bool) (now : Nat) (h : Hdr) :
    (printColumns (columnsFor vl vo) now h).getLast? = some 0x0a := by
  cases vo
  · obtain ⟨body, e, _⟩ := row_plain vl now h
    rw [e, List.getLast?_concat]
  · obtain ⟨rest, e, _, _⟩ := row_verbose vl now h
    rw [e, List.getLast?_concat]

/-- number of lines of the row part of a listing -/
theorem listRows_newlines (vl vo : Bool) (now : Nat) (hdrs : List Hdr) :
    List.count (0x0a : UInt8) (listRows vl vo now hdrs) = (if vo then 2 else 1) * hdrs.length := by
  induction hdrs with
  | nil => simp [listRows]
  | cons h t ih =>
    rw [listRows_cons, List.count_append, ih, row_newlines, List.length_cons, Nat.mul_succ]
    omega

/-! ### A.4 the recent / old switch of `output_timestamp` -/

theorem outputTimestamp_zero (now : Nat) : outputTimestamp now 0 = blanks 12 := by
  rw [outputTimestamp_eq, if_pos rfl]

/-- newer than `now − 15552000 s` (180 days), strictly – this includes every time in the
future of `now` –: month, day, `HH:MM` -/
theorem outputTimestamp_recent {now t : Nat} (h0 : t ≠ 0) (h : now < t + 15552000) :
    outputTimestamp now t = recentForm t := by
  rw [outputTimestamp_eq, if_neg h0, if_pos (by omega)]

/-- `now − 15552000 s` or older: month, day, year -/
theorem outputTimestamp_old {now t : Nat} (h0 : t ≠ 0) (h : t + 15552000 ≤ now) :
    outputTimestamp now t = oldForm t := by
  rw [outputTimestamp_eq, if_neg h0, if_neg (by omega)]

/-- the exact boundary: a member stamped exactly 15552000 s before `now` gets the year form … -/
theorem outputTimestamp_boundary_old (t : Nat) (h0 : t ≠ 0) :
    outputTimestamp (t + 15552000) t = oldForm t :=
  outputTimestamp_old h0 (Nat.le_refl _)

/-- … and one stamped a second later the `HH:MM` form -/
theorem outputTimestamp_boundary_recent (t : Nat) :
    outputTimestamp (t + 15552000) (t + 1) = recentForm (t + 1) :=
  outputTimestamp_recent (by omega) (by omega)

theorem colon_mem_recentForm (t : Nat) : (0x3a : UInt8) ∈ recentForm t := by
  unfold recentForm
  rw [show str ":" = [0x3a] by decide +kernel]
  simp

theorem colon_not_mem_oldForm (t : Nat) : (0x3a : UInt8) ∉ oldForm t := by
  intro hm
  exact (oldForm_noColon t _ hm).2 rfl

theorem recentForm_ne_oldForm (t t' : Nat) : recentForm t ≠ oldForm t' := by
  intro e
  exact colon_not_mem_oldForm t' (e ▸ colon_mem_recentForm t)

/-- **the switch, as an equivalence on the output**: the column shows a time of day (a ':')
iff the stamp is present and `now − 15552000 < timestamp` (compared without wrap-around) -/
theorem outputTimestamp_colon_iff (now t : Nat) :
    (0x3a : UInt8) ∈ outputTimestamp now t ↔ t ≠ 0 ∧ now < t + 15552000 := by
  by_cases h0 : t = 0
  · subst h0
    rw [outputTimestamp_zero]
    simp [blanks]
  · by_cases h : now < t + 15552000
    · rw [outputTimestamp_recent h0 h]
      exact ⟨fun _ => ⟨h0, h⟩, fun _ => colon_mem_recentForm t⟩
    · rw [outputTimestamp_old h0 (by omega)]
      exact ⟨fun hm => absurd hm (colon_not_mem_oldForm t), fun hh => absurd hh.2 h⟩

theorem outputTimestamp_recent_iff (now t : Nat) (h0 : t ≠ 0) :
    outputTimestamp now t = recentForm t ↔ now < t + 15552000 := by
  constructor
  · intro e
    have := (outputTimestamp_colon_iff now t).mp (e ▸ colon_mem_recentForm t)
    exact this.2
  · exact outputTimestamp_recent h0

theorem outputTimestamp_old_iff (now t : Nat) (h0 : t ≠ 0) :
    outputTimestamp now t = oldForm t ↔ t + 15552000 ≤ now := by
  constructor
  · intro e
    by_cases h : now < t + 15552000
    · rw [outputTimestamp_recent h0 h] at e
      exact absurd e (recentForm_ne_oldForm t t)
    · omega
  · exact outputTimestamp_old h0

end LhasaV.ListProps
