import LhasaV.Lemmas.ReaderIndep5
/-!
# C15, part 6: histories — `headers_independent`
-/
set_option linter.unusedSimpArgs false
namespace LhasaV.ReaderIndep
open LhasaV LhasaV.Reader

/-! ## `next` never faults on a well-formed reader -/

theorem basicNext_ok (mk : Nat → Nat) (b : Basic) (led : Ledger) (wf : Stream.WF b) :
    ∃ r, basicNext mk b led = .ok r := by
  rw [Reader.basicNext_eq]
  have hl : (basicRelease b led).1.stream.leadin.length ≤ 24 := by
    unfold basicRelease; split
    · simp only [(Stream.skip_frame _ _).2.2.2]; exact wf.1
    · exact wf.1
  generalize (basicRelease b led).1 = x at hl
  generalize (basicRelease b led).2 = l
  unfold basicParse
  split
  · exact ⟨_, rfl⟩
  · obtain ⟨st, e, _⟩ := Stream.start_ok x.stream hl
    rw [e]
    simp only [Res.ok_bind]
    split
    · exact ⟨_, rfl⟩
    · split
      · rename_i w hw; exact absurd hw (Header.read_no_fault mk _ w)
      · exact ⟨_, rfl⟩
      · exact ⟨_, rfl⟩

theorem nextAdv_ok (s : St) (wf : Stream.WF s.basic) : ∃ s1, nextAdv s = .ok s1 := by
  unfold nextAdv
  split
  · obtain ⟨r, e⟩ := basicNext_ok s.mktime s.basic s.led wf
    rw [e]; exact ⟨_, rfl⟩
  · exact ⟨_, rfl⟩

/-- **`lha_reader_next_file` never faults** once the lead-in buffer invariant holds (it does on
every state reached from a fresh reader) -/
theorem next_ok (s : St) (wf : Stream.WF s.basic) : ∃ r, next s = .ok r := by
  rw [next_eq]
  split
  · exact ⟨_, rfl⟩
  · obtain ⟨s1, e⟩ := nextAdv_ok (closeDecoder s) (Stream.wf_closeDecoder s wf)
    rw [e]; exact ⟨_, rfl⟩

/-! ## the invariant bundle -/

structure Good (s : St) : Prop where
  inv : Inv s
  pre : Pre s

theorem good_fresh (st : Stream.St) (pol : DirPolicy) (mk : Nat → Nat) (hl : st.leadin.length ≤ 24) :
    Good (fresh st pol mk) := by
  refine ⟨inv_fresh st pol mk, ⟨fun o ho => (by cases ho), fun _ => Or.inr rfl, ⟨hl, fun h => (by cases h)⟩⟩⟩

theorem next_good {s : St} (h : Good s) {r : Option HObj × St} (e : next s = .ok r) : Good r.2 := by
  refine ⟨(next_closed (r := r.1) (s' := r.2) h.inv e).inv, ?_⟩
  have := next_simC h.inv h.inv h.pre h.pre (Sim.refl h.pre.tidy)
  rw [e] at this
  exact this.2.preS

theorem step_good (H : HonestAll) {s : St} (h : Good s) (op : Op) : Good (step s op) := by
  cases op with
  | next =>
    simp only [step]
    cases e : next s with
    | error w => exact h
    | ok r => exact next_good h e
  | read k => exact ⟨read_inv h.inv k, (read_step H h.pre k).pre⟩
  | check => exact ⟨check_inv h.inv, (check_step H h.pre).pre⟩
  | extract b => exact ⟨extract_inv h.inv b, extract_pre H h.pre b⟩

theorem run_good (H : HonestAll) {s : St} (h : Good s) (ops : List Op) : Good (run s ops) := by
  induction ops generalizing s with
  | nil => exact h
  | cons op ops ih => exact ih (step_good H h op)

/-! ## histories -/

/-- the operations that decide what is presented next: `next` and `extract` (with its outcome) -/
def isSkel : Op → Bool
  | .next => true
  | .extract _ => true
  | _ => false

/-- a history with its reads and checks erased -/
def skeleton (ops : List Op) : List Op := ops.filter isSkel

/-- what one `next` reports: the header now current (`none` = end of archive), or a fault -/
def nextOut (s : St) : Except String (Option HObj) :=
  match next s with
  | .ok r => .ok r.1
  | .error w => .error w

/-- the results of all the `next` operations of a history, in order -/
def nextResults : St → List Op → List (Except String (Option HObj))
  | _, [] => []
  | s, op :: ops => (match op with | .next => [nextOut s] | _ => []) ++ nextResults (step s op) ops

theorem step_sim_left (H : HonestAll) {s t : St} (hs : Good s) (h : Sim s t) (op : Op)
    (hop : isSkel op = false) : Sim (step s op) t := by
  cases op with
  | next => cases hop
  | extract b => cases hop
  | read k => exact h.decStep_left (read_step H hs.pre k)
  | check => exact h.decStep_left (check_step H hs.pre)

theorem step_sim_both (H : HonestAll) {s t : St} (hs : Good s) (ht : Good t) (h : Sim s t) (op : Op)
    (hop : isSkel op = true) :
    Sim (step s op) (step t op) ∧ (op = .next → nextOut s = nextOut t) := by
  cases op with
  | read k => cases hop
  | check => cases hop
  | extract b => exact ⟨extract_sim H hs.pre ht.pre h b, fun e => by cases e⟩
  | next =>
    have key := next_simC hs.inv ht.inv hs.pre ht.pre h
    simp only [step, nextOut]
    cases hA : next s with
    | error w =>
      cases hB : next t with
      | error w' =>
        rw [hA, hB] at key
        exact ⟨h, fun _ => by show Except.error w = Except.error w'; rw [show w = w' from key]⟩
      | ok r' => rw [hA, hB] at key; cases key
    | ok r =>
      cases hB : next t with
      | error w' => rw [hA, hB] at key; cases key
      | ok r' =>
        rw [hA, hB] at key
        exact ⟨key.2.sim, fun _ => by show Except.ok r.1 = Except.ok r'.1; rw [key.1]⟩

theorem nextResults_nonskel (s : St) (op : Op) (ops : List Op) (hop : isSkel op = false) :
    nextResults s (op :: ops) = nextResults (step s op) ops := by
  cases op <;> first | (cases hop; done) | simp [nextResults]

theorem skeleton_nonskel (op : Op) (ops : List Op) (hop : isSkel op = false) :
    skeleton (op :: ops) = skeleton ops := by
  simp [skeleton, List.filter_cons, hop]

theorem skeleton_skel (op : Op) (ops : List Op) (hop : isSkel op = true) :
    skeleton (op :: ops) = op :: skeleton ops := by
  simp [skeleton, List.filter_cons, hop]

/-- the induction over two histories with the same skeleton, for any invariant `G` kept by every
step and any relation `R` kept by a read/check on either side and by the same `next`/`extract`
on both sides -/
theorem histories_gen (G : St → Prop) (R : St → St → Prop)
    (hG : ∀ s op, G s → G (step s op))
    (hL : ∀ s t op, isSkel op = false → G s → G t → R s t → R (step s op) t)
    (hR : ∀ s t op, isSkel op = false → G s → G t → R s t → R s (step t op))
    (hB : ∀ s t op, isSkel op = true → G s → G t → R s t →
      R (step s op) (step t op) ∧ (op = .next → nextOut s = nextOut t)) :
    ∀ (n : Nat) (ops₁ ops₂ : List Op) (s t : St),
    ops₁.length + ops₂.length ≤ n → G s → G t → R s t → skeleton ops₁ = skeleton ops₂ →
    nextResults s ops₁ = nextResults t ops₂ ∧ R (run s ops₁) (run t ops₂) := by
  intro n
  induction n with
  | zero =>
    intro ops₁ ops₂ s t hn hs ht h hsk
    have h1 : ops₁ = [] := List.eq_nil_of_length_eq_zero (by omega)
    have h2 : ops₂ = [] := List.eq_nil_of_length_eq_zero (by omega)
    subst h1; subst h2
    exact ⟨rfl, h⟩
  | succ n ih =>
    intro ops₁ ops₂ s t hn hs ht h hsk
    -- a read or check at the head of the first history
    have left : ∀ op r, ops₁ = op :: r → isSkel op = false →
        nextResults s ops₁ = nextResults t ops₂ ∧ R (run s ops₁) (run t ops₂) := by
      intro op r e hop
      subst e
      rw [nextResults_nonskel s op r hop, run_cons]
      rw [skeleton_nonskel op r hop] at hsk
      exact ih r ops₂ _ t (by simp at hn; omega) (hG s op hs) ht (hL s t op hop hs ht h) hsk
    have right : ∀ op r, ops₂ = op :: r → isSkel op = false →
        nextResults s ops₁ = nextResults t ops₂ ∧ R (run s ops₁) (run t ops₂) := by
      intro op r e hop
      subst e
      rw [nextResults_nonskel t op r hop, run_cons]
      rw [skeleton_nonskel op r hop] at hsk
      exact ih ops₁ r s _ (by simp at hn; omega) hs (hG t op ht) (hR s t op hop hs ht h) hsk
    cases ops₁ with
    | nil =>
      cases ops₂ with
      | nil => exact ⟨rfl, h⟩
      | cons op₂ r₂ =>
        cases hop₂ : isSkel op₂ with
        | false => exact right op₂ r₂ rfl hop₂
        | true => rw [skeleton_skel op₂ r₂ hop₂] at hsk; cases hsk
    | cons op₁ r₁ =>
      cases hop₁ : isSkel op₁ with
      | false => exact left op₁ r₁ rfl hop₁
      | true =>
        cases ops₂ with
        | nil => rw [skeleton_skel op₁ r₁ hop₁] at hsk; cases hsk
        | cons op₂ r₂ =>
          cases hop₂ : isSkel op₂ with
          | false => exact right op₂ r₂ rfl hop₂
          | true =>
            rw [skeleton_skel op₁ r₁ hop₁, skeleton_skel op₂ r₂ hop₂] at hsk
            injection hsk with e1 e2
            subst e1
            obtain ⟨hsim, hout⟩ := hB s t op₁ hop₁ hs ht h
            obtain ⟨a, b⟩ := ih r₁ r₂ _ _ (by simp at hn; omega) (hG s op₁ hs) (hG t op₁ ht) hsim e2
            refine ⟨?_, b⟩
            simp only [nextResults]
            rw [a]
            cases op₁ with
            | next => rw [hout rfl]
            | read k => rfl
            | check => rfl
            | extract b => rfl

/-- two histories with the same skeleton, run from simulating states, report the same headers
and end in simulating states -/
theorem histories_sim (H : HonestAll) (n : Nat) (ops₁ ops₂ : List Op) (s t : St)
    (hn : ops₁.length + ops₂.length ≤ n) (hs : Good s) (ht : Good t) (h : Sim s t)
    (hsk : skeleton ops₁ = skeleton ops₂) :
    nextResults s ops₁ = nextResults t ops₂ ∧ Sim (run s ops₁) (run t ops₂) :=
  histories_gen Good Sim (fun _ op h => step_good H h op)
    (fun _ _ op hop hs _ h => step_sim_left H hs h op hop)
    (fun _ _ op hop _ ht h => (step_sim_left H ht h.symm op hop).symm)
    (fun _ _ op hop hs ht h => step_sim_both H hs ht h op hop)
    n ops₁ ops₂ s t hn hs ht h hsk

/-- **`headers_independent`.**  Two histories on the same fresh reader that have the same
subsequence of `next` and `extract` operations (with the same extract outcomes) and arbitrary —
also illegal — `read k` / `check` operations in between report the same sequence of `next`
results: the same header objects in the same order, the same re-presented directories and
deferred symbolic links, the end at the same place; and they end in simulating states. -/
theorem headers_independent (H : HonestAll) (st : Stream.St) (pol : DirPolicy) (mk : Nat → Nat)
    (hl : st.leadin.length ≤ 24) (ops₁ ops₂ : List Op) (hsk : skeleton ops₁ = skeleton ops₂) :
    nextResults (fresh st pol mk) ops₁ = nextResults (fresh st pol mk) ops₂ ∧
    Sim (run (fresh st pol mk) ops₁) (run (fresh st pol mk) ops₂) :=
  histories_sim H _ ops₁ ops₂ _ _ (Nat.le_refl _) (good_fresh st pol mk hl) (good_fresh st pol mk hl)
    (Sim.refl (good_fresh st pol mk hl).pre.tidy) hsk

/-- no `next` of a history from a fresh reader faults -/
theorem nextResults_ok (H : HonestAll) {s : St} (h : Good s) (ops : List Op) :
    ∀ r ∈ nextResults s ops, ∃ o, r = .ok o := by
  induction ops generalizing s with
  | nil => intro r hr; cases hr
  | cons op ops ih =>
    intro r hr
    simp only [nextResults, List.mem_append] at hr
    rcases hr with hr | hr
    · cases op with
      | next =>
        simp only [List.mem_singleton] at hr
        obtain ⟨x, e⟩ := next_ok s h.pre.wf
        subst hr
        exact ⟨x.1, by simp only [nextOut, e]⟩
      | read k => cases hr
      | check => cases hr
      | extract b => cases hr
    · exact ih (step_good H h op) r hr

end LhasaV.ReaderIndep
