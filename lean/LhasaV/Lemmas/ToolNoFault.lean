import LhasaV.Lemmas.ToolNoFault4
/-!
# C08 at tool level: no archive bytes make a run of `lha` fault

The library-level theorems of C08 / C09 / C15 (header parser, lead-in scan, header ownership, every
decoder, `lha_reader_next_file` on every history) are lifted to the whole run of each command the
model has.

* `ToolNoFault1`: `Dec.Safe` (the C09 predicates: no fault, at most `max_read` bytes per inner
  read), `safeAll` (every decoder of the table, from the C09 lemmas), `Dec.Clean` (a totalised
  decoder state that is no trace of a fault), `Dec.total_clean`, `Dec.total_error_sticky`.
* `ToolNoFaultBuf`: the output buffer of `lha_decoder_read` never holds more than `max_read` bytes.
* `ToolNoFault2`: `Reader.DecClean` is kept by every reader operation from any state;
  `Reader.history_no_fault` (every history, legal or not: the library level, and `lha t`).
* `ToolNoFault3`: `Hist` (states of legal histories of the tool's reader), `Visits`,
  `extract_run_visits`, `extract_run_no_fault` (`lha x`, `lha e`).
* `ToolNoFault4`: `print_run_visits`, `print_run_no_fault` (`lha p`), `list_headers_no_fault`
  (`lha l`, `lv`, `v`, `vv`).
* here: `tool_no_fault` (by command letter), `ok_spelled`, and runs on concrete archive bytes.

What "fault" means: every C array access of the modelled functions is a checked access in the
model; an out-of-range one is a `fault` result (`Res.fault` in the parser, the stream and the
decoders; `Except.error` from `Reader.next`; the `.error w` state under `Dec.total`; an entry in
`Ledger.faults` for a header used after its last reference was dropped).  NOT covered: the
compiled binary, libc, `src/` code that is not modelled (option parsing, `safe_fopen`, the
progress bar), `lha t` as a loop (the model has none), the `n` (dry run) option.
-/
set_option linter.unusedSimpArgs false
namespace LhasaV.ToolNoFault
open LhasaV LhasaV.Header LhasaV.Extract LhasaV.Reader

/-! ## all commands -/

/-- the command letters that have a loop in the model (`t` has none) -/
inductive Cmd where
  | x | e | p | l | v
deriving Repr, DecidableEq

/-- "the run of `lha <cmd>` on `archive` does not fault" in the terms of the model of that command -/
def NoFault (archive : Array UInt8) (o : Opts) (fs : Fs.St) (answers : Bytes) : Cmd → Prop
  | .x | .e =>
    "fault" ∉ (Extract.run archive o fs answers).out ∧
    Visits (Ok archive) (Contain.runFuel archive) (Contain.runInit archive o fs answers)
  | .p =>
    printE archive o = .ok (Extract.print archive o) ∧
    PrintVisits (Ok archive) o (2 * archive.size + 16) (toolReader archive)
  | .l | .v =>
    ∃ hdrs, Driver.allHeaders (archive.size + 2) (toolReader archive) [] = .ok hdrs

/-- **C08, the tool**: for every command that the model has, every archive (any bytes), all
options, any file-system state and any answers at the overwrite prompt, the run does not fault. -/
theorem tool_no_fault (cmd : Cmd) (archive : Array UInt8) (o : Opts) (fs : Fs.St) (answers : Bytes) :
    NoFault archive o fs answers cmd := by
  cases cmd
  · exact ⟨extract_run_no_fault archive o fs answers, extract_run_visits archive o fs answers⟩
  · exact ⟨extract_run_no_fault archive o fs answers, extract_run_visits archive o fs answers⟩
  · exact ⟨print_run_no_fault archive o, print_run_visits archive o⟩
  · exact list_headers_no_fault archive _
  · exact list_headers_no_fault archive _

/-- every visited state: what `Ok` gives (spelled out for the reader of the statement) -/
theorem ok_spelled {A : Array UInt8} {rd : Reader.St} (h : Ok A rd) :
    (∃ ops, Legal ops ∧ rd = run (fresh { kind := .seekable, data := A } .endOfDir Header.dosTimeUTC) ops) ∧
    (∃ r, Reader.next rd = .ok r) ∧ Inv rd ∧
    (∀ o, rd.dec = some o → ∃ mr, Dec.SafeM o.d mr ∧
      ∀ ist, o.innerSt = some ist → Dec.Clean o.d ist.inner ∧ ist.pending.length ≤ mr) :=
  ⟨h.1, h.1.sound.next_ok, h.2.1, h.2.2⟩

/-! ## non-vacuity: a run that extracts a member, on concrete archive bytes -/

/-- an empty extraction directory `/root`, running as root -/
def demoFs : Fs.St := { cwd := ["root".toUTF8.toList], ents := [(["root".toUTF8.toList], .dir 0o755 1000)] }

-- `lha x` on the demo archive (one `-lh0-` member `a` holding `hi`): the member is extracted …
#guard (Extract.run demoArchive {} demoFs []).out == ["ok"]
#guard (Extract.run demoArchive {} demoFs []).result
#guard Fs.lookup (Extract.run demoArchive {} demoFs []).fs ["root".toUTF8.toList, "a".toUTF8.toList]
  == some (.file "hi".toUTF8.toList 0o600 946684800)
-- … `lha p` prints it, the walk of `lha l` finds its header
#guard Extract.print demoArchive { quiet := 2 } == "hi".toUTF8.toList
#guard (match Driver.allHeaders (demoArchive.size + 2) (toolReader demoArchive) [] with
  | .ok hdrs => hdrs.map (·.filename) == [some "a".toUTF8.toList]
  | .error _ => false)
-- a stream on which a decoder really runs: the same member declared `-lh5-` (header checksum adjusted) decodes to
-- nothing, and the run reports a failed member — not a fault
#guard (Extract.run ((demoArchive.set! 5 0x35).set! 1 0x0f) {} demoFs []).out == ["failed"]

end LhasaV.ToolNoFault
