import LhasaV.Model.Messages
import LhasaV.Lemmas.Contain4
/-!
Agreement of the two extraction models (`Model/Extract.lean`, `Model/Messages.lean`), part 1: the helpers.

* `AnsOk n a`: the answers `a` are NUL-free, empty or newline-terminated, and have at most `n` lines;
  `readLine_eq`: on such answers `Messages.readLine` (= `prompt_user`) and `Extract.readAnswer` read the
  same line; `confirm_agree`: `Messages.confirm` with any sufficient fuel and `Extract.confirmOverwrite`
  with fuel `n` give the same answer, policy and remaining input (`n` = 64 in `extract_archived_file`:
  the older model gives up after 64 unusable answers to one prompt).
* `checkParent_eq`, `makeParents_eq`, `parentsFor_eq`: the message-bearing parent creation has the
  file-system effect of the plain one.
* `existsKind_eq`, `readerExtract_eq`: away from names ending in '/', the trailing-slash layer of
  `Messages` is the identity.
-/
namespace LhasaV.MessagesAgree
open LhasaV LhasaV.Header LhasaV.Extract LhasaV.Messages

def AnsOk (n : Nat) (a : Bytes) : Prop :=
  (0 : UInt8) ∉ a ∧ (a = [] ∨ a.getLast? = some 0x0a) ∧ a.count 0x0a ≤ n

instance (n : Nat) (a : Bytes) : Decidable (AnsOk n a) := inferInstanceAs (Decidable (_ ∧ _ ∧ _))

/-- a byte string that contains a newline splits into its first line and the rest -/
theorem split_line (a : Bytes) (h : (0x0a : UInt8) ∈ a) :
    ∃ l rest, a = l ++ 0x0a :: rest ∧ (0x0a : UInt8) ∉ l ∧
      a.takeWhile (· != 0x0a) = l ∧ (a.dropWhile (· != 0x0a)).drop 1 = rest := by
  induction a with
  | nil => cases h
  | cons b t ih =>
    by_cases hb : b = 0x0a
    · subst hb
      exact ⟨[], t, rfl, by simp, by simp, by simp⟩
    · have ht : (0x0a : UInt8) ∈ t := by
        rcases List.mem_cons.mp h with h | h
        · exact absurd h.symm hb
        · exact h
      obtain ⟨l, rest, e, hl, htw, hdw⟩ := ih ht
      refine ⟨b :: l, rest, by rw [e]; rfl, ?_, ?_, ?_⟩
      · simp only [List.mem_cons, not_or]; exact ⟨fun h => hb h.symm, hl⟩
      · simp only [List.takeWhile_cons, bne_iff_ne, ne_eq, hb, not_false_eq_true, ↓reduceIte, htw]
      · simp only [List.dropWhile_cons, bne_iff_ne, ne_eq, hb, not_false_eq_true, ↓reduceIte, hdw]

theorem ansOk_mono {n m : Nat} {a : Bytes} (h : AnsOk n a) (hnm : n ≤ m) : AnsOk m a :=
  ⟨h.1, h.2.1, Nat.le_trans h.2.2 hnm⟩

theorem ansOk_nil (n : Nat) : AnsOk n [] := ⟨by simp, Or.inl rfl, by simp⟩

/-- on well-formed answers the two models read the same line -/
theorem readLine_eq {n : Nat} {a : Bytes} (h : AnsOk n a) :
    (a = [] ∧ readLine a = none ∧ readAnswer a = none) ∨
    (∃ c rest, readLine a = some (c, rest) ∧ readAnswer a = some (c, rest) ∧
      rest.length < a.length ∧ AnsOk (n - 1) rest) := by
  obtain ⟨h0, hl, hc⟩ := h
  cases a with
  | nil => exact Or.inl ⟨rfl, rfl, rfl⟩
  | cons b t =>
    right
    have hl : (b :: t).getLast? = some 0x0a := by
      rcases hl with h | h
      · cases h
      · exact h
    have hm : (0x0a : UInt8) ∈ b :: t := List.mem_of_getLast? hl
    obtain ⟨l, rest, e, hnl, htw, hdw⟩ := split_line (b :: t) hm
    have hcont : (b :: t).contains 0x0a = true := by simpa using hm
    refine ⟨b, rest, ?_, ?_, ?_, ?_, ?_, ?_⟩
    · unfold readLine
      rw [if_pos hcont, htw, hdw]
      congr 2
      cases l with
      | nil =>
        have : b = 0x0a := by simpa using (List.cons.inj e).1
        subst this; rfl
      | cons b' l' =>
        have hb : b = b' := (List.cons.inj e).1
        subst hb
        have : b ≠ 0 := fun hb => h0 (by rw [hb]; exact List.mem_cons_self)
        simp [this]
    · simp only [readAnswer, hdw]
    · rw [e]; simp; omega
    · intro hz; apply h0; rw [e]; simp [hz]
    · rw [e, List.getLast?_append, List.getLast?_cons] at hl
      cases rest with
      | nil => exact Or.inl rfl
      | cons r rs =>
        right
        cases hg : (r :: rs).getLast? with
        | none => simp at hg
        | some x => rw [hg] at hl; simpa using hl
    · rw [e, List.count_append, List.count_cons] at hc
      simp at hc
      omega


/-- what the two confirm functions return, compared -/
def ConfirmAgree (c : Confirm) (r : Option (Bool × Overwrite × Bytes)) : Prop :=
  match r with
  | none => c.answer = none
  | some (yes, pol, rest) => c.answer = some yes ∧ c.policy = pol ∧ c.rest = rest

theorem confirm_agree (fn : Bytes) : ∀ (f1 f2 : Nat) (pol : Overwrite) (a err : Bytes),
    (pol = .prompt → AnsOk f2 a) → a.length < f1 → (pol ≠ .prompt → 0 < f2) →
    ConfirmAgree (confirm fn f1 pol a err) (confirmOverwrite f2 pol a) ∧
    ((confirm fn f1 pol a err).policy = .prompt → AnsOk f2 (confirm fn f1 pol a err).rest) := by
  intro f1
  induction f1 with
  | zero => intro f2 pol a err _ h; cases h
  | succ f1 ih =>
    intro f2 pol a err hp hlen hf2
    cases pol with
    | skip =>
      obtain ⟨f2, rfl⟩ : ∃ k, f2 = k + 1 := ⟨f2 - 1, by have := hf2 (by decide); omega⟩
      unfold confirm confirmOverwrite
      exact ⟨⟨rfl, rfl, rfl⟩, fun h => by cases h⟩
    | all =>
      obtain ⟨f2, rfl⟩ : ∃ k, f2 = k + 1 := ⟨f2 - 1, by have := hf2 (by decide); omega⟩
      unfold confirm confirmOverwrite
      exact ⟨⟨rfl, rfl, rfl⟩, fun h => by cases h⟩
    | prompt =>
      have hok := hp rfl
      cases f2 with
      | zero =>
        -- no line left to read: both give up
        have ha : a = [] := by
          rcases hok.2.1 with h | h
          · exact h
          · have hm : (0x0a : UInt8) ∈ a := List.mem_of_getLast? h
            have := List.count_pos_iff.mpr hm
            have := hok.2.2
            omega
        subst ha
        unfold confirm confirmOverwrite
        exact ⟨rfl, fun _ => ansOk_nil 0⟩
      | succ f2 =>
        unfold confirm confirmOverwrite
        dsimp only
        rcases readLine_eq hok with ⟨rfl, h1, h2⟩ | ⟨c, rest, h1, h2, hl, hr⟩
        · rw [h1, h2]
          exact ⟨rfl, fun _ => ansOk_nil _⟩
        · rw [h1, h2]
          dsimp only
          have hr' : AnsOk (f2 + 1) rest := ansOk_mono hr (by omega)
          generalize (if 0x41 ≤ c ∧ c ≤ 0x5a then c + 0x20 else c) = lc
          by_cases c1 : (lc == 0x79) = true
          · simp only [if_pos c1]; exact ⟨⟨rfl, rfl, rfl⟩, fun _ => hr'⟩
          simp only [if_neg c1]
          by_cases c2 : (lc == 0x6e) = true ∨ (lc == 0x0a) = true
          · simp only [if_pos c2]; exact ⟨⟨rfl, rfl, rfl⟩, fun _ => hr'⟩
          simp only [if_neg c2]
          by_cases c3 : (lc == 0x61) = true
          · simp only [if_pos c3]; exact ⟨⟨rfl, rfl, rfl⟩, fun h => by cases h⟩
          simp only [if_neg c3]
          by_cases c4 : (lc == 0x73) = true
          · simp only [if_pos c4]; exact ⟨⟨rfl, rfl, rfl⟩, fun h => by cases h⟩
          simp only [if_neg c4]
          have := ih f2 .prompt rest (err ++ promptText fn) (fun _ => by simpa using hr) (by omega)
            (fun h => absurd rfl h)
          exact ⟨this.1, fun h => ansOk_mono (this.2 h) (by omega)⟩

/-! ### the file-system helpers -/

theorem checkParent_eq (fs : Fs.St) (p : Bytes) :
    (checkParent fs p).1 = (checkParentDirectory fs p).1 ∧
    (checkParent fs p).2.1 = (checkParentDirectory fs p).2 := by
  unfold checkParent checkParentDirectory
  cases hk : Fs.existsKind fs p <;> dsimp only
  · split
    · rename_i h; exact ⟨h.symm, rfl⟩
    · rename_i h; exact ⟨by simpa using h, rfl⟩
  · exact ⟨rfl, rfl⟩
  · exact ⟨rfl, rfl⟩
  · exact ⟨rfl, rfl⟩

theorem makeParents_eq (fs : Fs.St) (p : Bytes) :
    (makeParents fs p).1 = (makeParentDirectories fs p).1 ∧
    (makeParents fs p).2.1 = (makeParentDirectories fs p).2 := by
  unfold makeParents makeParentDirectories
  dsimp only
  generalize prefixEnds _ = l
  generalize (p.reverse.dropWhile (· == 0x2f)).reverse = tr
  suffices h : ∀ (acc : Bool × Fs.St × Bytes) (acc' : Bool × Fs.St), acc.1 = acc'.1 → acc.2.1 = acc'.2 →
      (l.foldl (fun (acc : Bool × Fs.St × Bytes) i =>
        if !acc.1 then acc else checkParent acc.2.1 (tr.take i)) acc).1 =
      (l.foldl (fun (acc : Bool × Fs.St) i =>
        if !acc.1 then acc else checkParentDirectory acc.2 (tr.take i)) acc').1 ∧
      (l.foldl (fun (acc : Bool × Fs.St × Bytes) i =>
        if !acc.1 then acc else checkParent acc.2.1 (tr.take i)) acc).2.1 =
      (l.foldl (fun (acc : Bool × Fs.St) i =>
        if !acc.1 then acc else checkParentDirectory acc.2 (tr.take i)) acc').2 from
    h _ _ rfl rfl
  induction l with
  | nil => intro acc acc' h1 h2; exact ⟨h1, h2⟩
  | cons i l ih =>
    intro acc acc' h1 h2
    rw [List.foldl_cons, List.foldl_cons]
    apply ih
    · rw [h1]; split
      · assumption
      · rw [h2]; exact (checkParent_eq _ _).1
    · rw [h1]; split
      · assumption
      · rw [h2]; exact (checkParent_eq _ _).2

theorem parentsFor_eq (s : Extract.St) (fn : Bytes) :
    (parentsFor (s.rd.currType == .fakeDir || s.rd.currType == .deferred) s.fs fn).1 = (Contain.parentsOf s fn).1 ∧
    (parentsFor (s.rd.currType == .fakeDir || s.rd.currType == .deferred) s.fs fn).2.1 = (Contain.parentsOf s fn).2 := by
  unfold parentsFor Contain.parentsOf
  split
  · exact ⟨rfl, rfl⟩
  · exact makeParents_eq _ _

theorem existsKind_eq (fs : Fs.St) (p : Bytes) (h : endsWithSlash p = false) :
    Messages.existsKind fs p = Fs.existsKind fs p := by
  unfold Messages.existsKind
  split
  · rename_i hk; rw [h, hk]; rfl
  · rfl

theorem readerExtract_eq (rd : Reader.St) (fs : Fs.St) (fn : Bytes)
    (h : ∀ c, rd.curr = some c → endsWithSlash fn = true → isDirEntry c.h = true) :
    Messages.readerExtract rd fs fn = Extract.readerExtract rd fs fn := by
  unfold Messages.readerExtract
  split
  · rename_i c _ hc
    split
    · rename_i hs
      have := h c hc (by simpa using hs.1)
      rw [this] at hs
      simp at hs
    · rfl
  · rfl

end LhasaV.MessagesAgree
