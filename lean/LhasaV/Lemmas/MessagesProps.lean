import LhasaV.Model.Messages
import LhasaV.Lemmas.ListPrintable
import LhasaV.Lemmas.WrapProps
/-!
Properties of the message model (`Model/Messages.lean`) of `lha t…` and `lha x…` / `lha e…`:

* `test_output_printable`, `extract_output_printable` (and `stderr_printable`): every byte written is
  printable ASCII (0x20..0x7e) or one of `\n`, `\r`, `\t`, for arbitrary archives, options,
  file systems and prompt answers;
* `exit_status_iff`: the exit status is 0 iff the run did not leave through `exit(-1)`, the header
  parser model reported no fault, and the verdict of every member handled was good;
  `trace_selected`: the members handled are members the wildcard arguments select;
* `progressOutput_calls`: the bar of the model is the callback applied to the block numbers
  `lha_decoder_monitor` + any schedule of `lha_decoder_read`s report (`WrapProps`);
  `bar_width_le`: the dotted part of the bar is never longer than `MAX_PROGRESS_LEN`.
-/
namespace LhasaV.MessagesProps
open LhasaV LhasaV.Header LhasaV.Messages
open LhasaV.Extract (Opts Overwrite fileFullPath prefixEnds)
open LhasaV.ListProps (All all_nil all_cons all_append all_replicate all_flatMap)

/-! ### the byte class -/

/-- what the commands may send to the terminal: printable ASCII, newline, carriage return, tab -/
def termByte (b : UInt8) : Prop := Safe.printable b ∨ b = 0x0a ∨ b = 0x0d ∨ b = 0x09

instance (b : UInt8) : Decidable (termByte b) := by unfold termByte; infer_instance

abbrev Tk (l : Bytes) : Prop := All termByte l

theorem tk_safe (s : Bytes) : Tk (safe s) :=
  fun b hb => Or.inl (Safe.safeOutput_printable s b hb)

theorem tk_nl : Tk nl := by decide

theorem tk_ite {c : Prop} [Decidable c] {a b : Bytes} (ha : Tk a) (hb : Tk b) : Tk (if c then a else b) := by
  split <;> assumption

/-! ### the progress bar -/

theorem tk_printFilename (fn status : Bytes) (hs : Tk status) : Tk (printFilename fn status) := by
  unfold printFilename
  exact all_append.mpr ⟨all_append.mpr ⟨all_append.mpr ⟨all_append.mpr ⟨by decide, tk_safe _⟩,
    by decide +kernel⟩, hs⟩, by decide +kernel⟩

theorem tk_printFilenameBrief (fn : Bytes) : Tk (printFilenameBrief fn) := by
  unfold printFilenameBrief
  exact all_append.mpr ⟨by decide, tk_safe _⟩

theorem tk_progressCallback (quiet : Nat) (fn op : Bytes) (hop : Tk op) (n block : Nat) :
    Tk (progressCallback quiet fn op n block) := by
  unfold progressCallback
  split
  · exact all_nil
  · split
    · exact tk_ite (tk_printFilenameBrief fn) all_nil
    · dsimp only
      split
      · exact all_append.mpr ⟨all_append.mpr ⟨tk_printFilename fn op hop,
          all_replicate _ (by decide)⟩, tk_printFilename fn op hop⟩
      · exact tk_ite (by decide) all_nil

theorem tk_progressOutput (quiet : Nat) (fn op : Bytes) (hop : Tk op) (n last : Nat) :
    Tk (progressOutput quiet fn op n last) :=
  all_flatMap (fun b _ => tk_progressCallback quiet fn op hop n b)

theorem tk_statusLine (quiet : Nat) (fn status : Bytes) (hs : Tk status) : Tk (statusLine quiet fn status) := by
  unfold statusLine
  exact tk_ite (all_append.mpr ⟨tk_printFilename fn status hs, tk_nl⟩) all_nil

/-- **The bar is the callback applied to the reported blocks.**  Attach the monitor to a fresh inner
decoder, run any schedule of reads: what the callback writes is `progressOutput` with
`last = ⌈p / block size⌉`, `p` the final position. -/
theorem progressOutput_calls {σ : Type} (rd : σ → List Byte × σ) (ks : List Nat) (s0 : Wrap.St σ)
    (hn : s0.nextBlock = 0) (quiet : Nat) (fn op : Bytes) (total : Nat) :
    ((Wrap.monitor s0).1 ++ (Wrap.reads rd ks (Wrap.monitor s0).2).1.2).flatMap
        (progressCallback quiet fn op total) =
      progressOutput quiet fn op total
        (Messages.ceilDiv (Wrap.reads rd ks (Wrap.monitor s0).2).2.pos s0.blockSize) := by
  rw [Wrap.monitor_reads_calls rd ks s0 hn]
  rfl

/-- the number of dots: `⌈n / (1 + n / 58)⌉` never exceeds `MAX_PROGRESS_LEN` -/
theorem bar_width_le (n : Nat) : (n + (1 + n / maxProgressLen) - 1) / (1 + n / maxProgressLen) ≤ maxProgressLen := by
  unfold maxProgressLen
  have hf : 0 < 1 + n / 58 := by omega
  have : (n + (1 + n / 58) - 1) / (1 + n / 58) < 59 := by
    rw [Nat.div_lt_iff_lt_mul hf]
    omega
  omega

/-! ### one member -/

theorem tk_testEntry (o : Opts) (rd : Reader.St) (h : Hdr) :
    Tk (testEntry o rd h).1.out ∧ Tk (testEntry o rd h).1.err := by
  unfold testEntry
  dsimp only
  split
  · exact ⟨tk_ite (all_append.mpr ⟨tk_safe _, tk_nl⟩) all_nil, all_nil⟩
  · split
    · exact ⟨all_nil, all_nil⟩
    · refine ⟨all_append.mpr ⟨tk_progressOutput _ _ _ (by decide +kernel) _ _, tk_statusLine _ _ _ ?_⟩, all_nil⟩
      split <;> decide +kernel

theorem tk_fileTypeError (fn : Bytes) : Tk (fileTypeError fn) :=
  all_append.mpr ⟨tk_safe _, tk_nl⟩

theorem tk_dryRunEntry (o : Opts) (fs : Fs.St) (h : Hdr) :
    Tk (dryRunEntry o fs h).out ∧ Tk (dryRunEntry o fs h).err := by
  unfold dryRunEntry
  dsimp only
  split
  · exact ⟨all_append.mpr ⟨all_append.mpr ⟨tk_safe _, tk_safe _⟩, tk_nl⟩, all_nil⟩
  · split
    · exact ⟨all_append.mpr ⟨all_append.mpr ⟨tk_safe _, tk_safe _⟩, tk_nl⟩, all_nil⟩
    · split
      · exact ⟨tk_safe _, tk_fileTypeError _⟩
      · exact ⟨all_append.mpr ⟨tk_safe _, tk_nl⟩, all_nil⟩
      · exact ⟨all_append.mpr ⟨all_append.mpr ⟨tk_safe _, tk_safe _⟩, tk_nl⟩, all_nil⟩

theorem tk_promptText (fn : Bytes) : Tk (promptText fn) :=
  all_append.mpr ⟨tk_safe _, by decide +kernel⟩

theorem tk_confirm (fn : Bytes) (fuel : Nat) (pol : Overwrite) (ans err : Bytes) (he : Tk err) :
    Tk (confirm fn fuel pol ans err).err := by
  induction fuel generalizing pol ans err with
  | zero => exact he
  | succ fuel ih =>
    unfold confirm
    have he' : Tk (err ++ promptText fn) := all_append.mpr ⟨he, tk_promptText fn⟩
    split
    · exact he
    · exact he
    · dsimp only
      split
      · exact he'
      · repeat' split
        all_goals first | exact he' | exact ih _ _ _ he'

theorem tk_checkParent (fs : Fs.St) (path : Bytes) : Tk (checkParent fs path).2.2 := by
  unfold checkParent
  split
  · exact all_nil
  · dsimp only
    split
    · exact all_nil
    · exact all_append.mpr ⟨tk_safe _, tk_nl⟩
  · exact all_append.mpr ⟨tk_safe _, tk_nl⟩
  · exact all_append.mpr ⟨tk_safe _, tk_nl⟩

theorem tk_makeParents (fs : Fs.St) (path : Bytes) : Tk (makeParents fs path).2.2 := by
  unfold makeParents
  dsimp only
  generalize prefixEnds _ = l
  suffices h : ∀ (acc : Bool × Fs.St × Bytes), Tk acc.2.2 →
      Tk (l.foldl (fun (acc : Bool × Fs.St × Bytes) i =>
        if !acc.1 then acc else
          checkParent acc.2.1 (List.take i (path.reverse.dropWhile (· == 0x2f)).reverse)) acc).2.2 from
    h _ all_nil
  induction l with
  | nil => intro acc h; exact h
  | cons i l ih =>
    intro acc h
    rw [List.foldl_cons]
    apply ih
    split
    · exact h
    · exact tk_checkParent _ _

theorem tk_parentsFor (fake : Bool) (fs : Fs.St) (path : Bytes) : Tk (parentsFor fake fs path).2.2 := by
  unfold parentsFor
  split
  · exact all_nil
  · exact tk_makeParents _ _

theorem tk_extractBody (s : XSt) (h : Hdr) (err : Bytes) (he : Tk err) :
    Tk (extractBody s h err).1.out ∧ Tk (extractBody s h err).1.err := by
  unfold extractBody
  dsimp only
  split
  · exact ⟨all_nil, he⟩
  · split
    · exact ⟨all_nil, all_append.mpr ⟨he, tk_parentsFor _ _ _⟩⟩
    · refine ⟨?_, he⟩
      split
      · refine all_append.mpr ⟨tk_progressOutput _ _ _ (by decide +kernel) _ _, tk_statusLine _ _ _ ?_⟩
        split <;> decide +kernel
      · split
        · exact tk_ite (all_append.mpr ⟨tk_safe _, tk_nl⟩) all_nil
        · exact all_nil

theorem tk_extractEntry (s : XSt) (h : Hdr) :
    Tk (extractEntry s h).1.out ∧ Tk (extractEntry s h).1.err := by
  unfold extractEntry
  dsimp only
  split
  · split
    · exact ⟨all_nil, tk_fileTypeError _⟩
    · exact tk_extractBody s h [] all_nil
    · have hc := tk_confirm (fileFullPath h s.opts) (s.answers.length + 1) s.opts.overwrite s.answers [] all_nil
      split
      · exact ⟨all_nil, hc⟩
      · exact tk_extractBody _ h _ hc
      · exact ⟨tk_ite (all_append.mpr ⟨tk_safe _, tk_nl⟩) all_nil, hc⟩
  · exact tk_extractBody s h [] all_nil

/-! ### the loops -/

/-- what the loops maintain -/
structure Inv (s : St) : Prop where
  out : Tk s.stdout
  err : Tk s.stderr
  res : s.result = s.trace.all (·.2)

theorem inv_record (s : St) (x : XSt) (h : Hdr) (e : Entry) (hi : Inv s) (ho : Tk e.out) (he : Tk e.err) :
    Inv (record s x h e) := by
  refine ⟨all_append.mpr ⟨hi.out, ho⟩, all_append.mpr ⟨hi.err, he⟩, ?_⟩
  simp only [record, List.all_cons]
  rw [hi.res, Bool.and_comm]

theorem inv_step (cmd : Cmd) (s : St) (h : Hdr) (hi : Inv s) : Inv (step cmd s h) := by
  unfold step
  split
  · exact inv_record _ _ _ _ hi (tk_testEntry _ _ _).1 (tk_testEntry _ _ _).2
  · split
    · exact inv_record _ _ _ _ hi (tk_dryRunEntry _ _ _).1 (tk_dryRunEntry _ _ _).2
    · exact inv_record _ _ _ _ hi (tk_extractEntry _ _).1 (tk_extractEntry _ _).2

theorem inv_loop (cmd : Cmd) (fuel : Nat) (s : St) (hi : Inv s) : Inv (loop cmd fuel s) := by
  induction fuel generalizing s with
  | zero => exact hi
  | succ fuel ih =>
    unfold loop
    split
    · exact hi
    · split
      · exact ⟨hi.out, hi.err, hi.res⟩
      · exact ⟨hi.out, hi.err, hi.res⟩
      · split
        · exact ih _ ⟨hi.out, hi.err, hi.res⟩
        · exact ih _ (inv_step cmd _ _ ⟨hi.out, hi.err, hi.res⟩)

theorem inv_run (cmd : Cmd) (archive : Array UInt8) (o : Opts) (fs : Fs.St) (answers : Bytes) :
    Inv (run cmd archive o fs answers) :=
  inv_loop cmd _ _ ⟨all_nil, all_nil, rfl⟩

/-- **(a) `lha t`.**  Every byte of the modelled standard output of `lha t[options] archive
[patterns]` is printable ASCII or `\n`, `\r`, `\t` — whatever bytes the archive's names contain. -/
theorem test_output_printable (archive : Array UInt8) (o : Opts) :
    ∀ b ∈ (runTest archive o).1, Safe.printable b ∨ b = 0x0a ∨ b = 0x0d ∨ b = 0x09 :=
  (inv_run .test archive o {} []).out

/-- **(a) `lha x` / `lha e`** (also the dry run), for every initial file system and answers. -/
theorem extract_output_printable (archive : Array UInt8) (o : Opts) (fs : Fs.St) (answers : Bytes) :
    ∀ b ∈ (runExtract archive o fs answers).1, Safe.printable b ∨ b = 0x0a ∨ b = 0x0d ∨ b = 0x09 :=
  (inv_run .extract archive o fs answers).out

/-- the same for standard error (prompts, parent-directory and file-type messages) -/
theorem stderr_printable (cmd : Cmd) (archive : Array UInt8) (o : Opts) (fs : Fs.St) (answers : Bytes) :
    ∀ b ∈ (run cmd archive o fs answers).stderr, Safe.printable b ∨ b = 0x0a ∨ b = 0x0d ∨ b = 0x09 :=
  (inv_run cmd archive o fs answers).err

/-- the loop's `result` flag is the conjunction of the verdicts of the members handled -/
theorem result_eq_all (cmd : Cmd) (archive : Array UInt8) (o : Opts) (fs : Fs.St) (answers : Bytes) :
    (run cmd archive o fs answers).result = (run cmd archive o fs answers).trace.all (·.2) :=
  (inv_run cmd archive o fs answers).res

/-- **(b)** The exit status is 0 iff the run did not end in `exit(-1)`, the header parser model
reported no fault, and every member handled (every entry of `trace`: header and verdict) was good. -/
theorem exit_status_iff (cmd : Cmd) (archive : Array UInt8) (o : Opts) (fs : Fs.St) (answers : Bytes) :
    exitStatus (run cmd archive o fs answers) = 0 ↔
      (run cmd archive o fs answers).aborted = false ∧ (run cmd archive o fs answers).fault = false ∧
      ∀ e ∈ (run cmd archive o fs answers).trace, e.2 = true := by
  have hr := result_eq_all cmd archive o fs answers
  generalize run cmd archive o fs answers = s at hr
  unfold exitStatus
  rw [hr]
  cases ha : s.aborted <;> cases hf : s.fault <;> cases hall : s.trace.all (·.2) <;>
    simp [List.all_eq_true] at hall ⊢ <;> first | exact hall | (obtain ⟨a, b, h⟩ := hall; exact ⟨a, b, h⟩)

/-! ### the members handled are the selected members -/

theorem extractBody_opts (s : XSt) (h : Hdr) (err : Bytes) : (extractBody s h err).2.opts = s.opts := by
  unfold extractBody
  dsimp only
  repeat' split
  all_goals rfl

theorem extractEntry_filters (s : XSt) (h : Hdr) : (extractEntry s h).2.opts.filters = s.opts.filters := by
  unfold extractEntry
  dsimp only
  repeat' split
  all_goals first | rfl | (rw [extractBody_opts])

theorem step_filters (cmd : Cmd) (s : St) (h : Hdr) : (step cmd s h).x.opts.filters = s.x.opts.filters := by
  unfold step
  split
  · rfl
  · split
    · rfl
    · exact extractEntry_filters _ _

theorem step_trace (cmd : Cmd) (s : St) (h : Hdr) : ∃ v, (step cmd s h).trace = (h, v) :: s.trace := by
  unfold step
  split
  · exact ⟨_, rfl⟩
  · split <;> exact ⟨_, rfl⟩

/-- second loop invariant: the wildcard arguments stay what they were, every member handled matches them -/
def Sel (fl : List Bytes) (s : St) : Prop :=
  s.x.opts.filters = fl ∧ ∀ e ∈ s.trace, Glob.matchesFilter fl e.1 = true

theorem sel_loop (cmd : Cmd) (fl : List Bytes) (fuel : Nat) (s : St) (hi : Sel fl s) : Sel fl (loop cmd fuel s) := by
  induction fuel generalizing s with
  | zero => exact hi
  | succ fuel ih =>
    unfold loop
    split
    · exact hi
    · split
      · exact hi
      · exact hi
      · rename_i c rd _
        split
        · exact ih _ hi
        · rename_i hm
          apply ih
          obtain ⟨v, hv⟩ := step_trace cmd { s with x := { s.x with rd := rd } } c.h
          refine ⟨by rw [step_filters]; exact hi.1, ?_⟩
          rw [hv]
          intro e he
          rw [List.mem_cons] at he
          rcases he with rfl | he
          · have : s.x.opts.filters = fl := hi.1
            rw [← this]
            simpa using hm
          · exact hi.2 e he

/-- every member in the trace of a run is one the wildcard arguments select (`lha_filter_next_file`) -/
theorem trace_selected (cmd : Cmd) (archive : Array UInt8) (o : Opts) (fs : Fs.St) (answers : Bytes) :
    ∀ e ∈ (run cmd archive o fs answers).trace, Glob.matchesFilter o.filters e.1 = true :=
  (sel_loop cmd o.filters _ _ ⟨rfl, by intro e he; cases he⟩).2

/-- the two components the task-level entry points return -/
theorem runTest_status (archive : Array UInt8) (o : Opts) :
    (runTest archive o).2 = true ↔ exitStatus (run .test archive o {} []) = 0 := by
  simp [runTest]

theorem runExtract_status (archive : Array UInt8) (o : Opts) (fs : Fs.St) (answers : Bytes) :
    (runExtract archive o fs answers).2.1 = true ↔ exitStatus (run .extract archive o fs answers) = 0 := by
  simp [runExtract]

end LhasaV.MessagesProps
