import LhasaV.Lemmas.ExtractTreeOpt11
import LhasaV.Lemmas.ArchiveOf
/-!
# C06 with options (part 12): archives as bytes

`archiveWith_denotesF`: the archive that encodes an entry list denotes it also along the run WITH
the filter test — a member that is passed over is skipped by the basic reader exactly like one
that was extracted (`denotesF_of_rstate`, from the reader-level invariant `RState` of ArchiveOf7).
Closed forms on bytes: `extract_archiveWith_sel` (wildcards), `extract_archiveWith_reloc` (`w=`),
`extract_archiveWith_flat` (`i`), and the instances for `archiveOf`.
-/
set_option linter.unusedSimpArgs false
namespace LhasaV.ArchiveOf
open LhasaV LhasaV.Header LhasaV.Extract LhasaV.GlobFs LhasaV.Contain LhasaV.ExtractTree
open LhasaV.ExtractTree.Sample LhasaV.Spec.HeaderEnc LhasaV.Reader LhasaV.ReaderIndep

/-- the reader after a member was presented but NOT extracted stands in the archive as after an
extraction -/
theorem after_skip (pk : Packer) (A : Array UInt8) (es : List Entry) (rd : Reader.St)
    (hd : rd.dec = none) (hgot : Got pk A es rd.basic)
    (hsh : (rd.currType = .fakeDir ∧ rd.curr ≠ none) ∨
       (rd.currType = .normal ∧ rd.curr = rd.basic.curr ∧ rd.curr ≠ none) ∨
       (rd.currType = .deferred ∧ rd.curr ≠ none)) :
    RState pk A (if rd.currType = .normal then es.tail else es) rd := by
  rcases hsh with ⟨ht, _⟩ | ⟨ht, hc, hn⟩ | ⟨ht, _⟩
  · simp only [RState, ht]; exact ⟨hd, hgot⟩
  · cases es with
    | nil => rw [hc, hgot.2.1] at hn; exact absurd rfl hn
    | cons e tl => simp only [RState, ht, if_true, List.tail_cons]; exact hgot.at
  · simp only [RState, ht]; exact ⟨hd, hgot⟩

/-- **from a state that stands in the archive, the run with the filter test denotes the entries
still to come** -/
theorem denotesF_of_rstate (pk : Packer) (A : Array UInt8) : ∀ (fuel : Nat) (s : Extract.St) (es : List Entry),
    AllOk pk es → Good s.rd → RState pk A es s.rd → DenotesF fuel s es := by
  intro fuel
  induction fuel with
  | zero => intro s es _ _ _; trivial
  | succ n ih =>
    intro s es hok hg hs _
    by_cases heof : s.rd.currType = .eof
    · refine ⟨none, _, next_of_eof s.rd heof, ?_, ?_⟩
      · intro ht; rw [heof] at ht; rcases ht with ht | ht <;> cases ht
      · intro c hc; cases hc
    · obtain ⟨oc, rd', hn, hoc, hd, hgot, hsh⟩ := next_step pk A es s.rd hok hg hs heof
      have hg' : Good rd' := next_good hg hn
      refine ⟨oc, rd', hn, fun _ => hgot.pending hok, ?_⟩
      intro c hc
      have hcur : rd'.curr = some c := by rw [← hoc, hc]
      have hsh' : (rd'.currType = .fakeDir ∧ rd'.curr ≠ none) ∨
          (rd'.currType = .normal ∧ rd'.curr = rd'.basic.curr ∧ rd'.curr ≠ none) ∨
          (rd'.currType = .deferred ∧ rd'.curr ≠ none) := by
        rcases hsh with h | h | h | ⟨_, h⟩
        · exact Or.inl h
        · exact Or.inr (Or.inl h)
        · exact Or.inr (Or.inr h)
        · rw [hcur] at h; cases h
      have hok' : AllOk pk (if rd'.currType = .normal then es.tail else es) := by
        split
        · cases es with
          | nil => exact hok
          | cons e tl => exact hok.tail
        · exact hok
      constructor
      · intro hty p data perms mtime tl hes
        subst hes
        have hb : rd'.basic.curr = some c := by
          rcases hsh' with ⟨h, _⟩ | ⟨_, h, _⟩ | ⟨h, _⟩
          · rw [hty] at h; cases h
          · rw [← h, hcur]
          · rw [hty] at h; cases h
        have hgot0 := hgot
        obtain ⟨hdat, ⟨id, hid⟩, _⟩ := hgot0
        have hh : c.h = hdrOf pk (.file p data perms mtime) := by
          rw [hid] at hb; cases hb; rfl
        have hpk : PackOk pk data := (hok (.file p data perms mtime) (by simp)).2.2
        exact extract_member pk rd' c p data perms mtime tl hpk hty hcur hh
          (by rw [hdat]; exact hgot)
      · unfold bodyF
        split
        · obtain ⟨g2, r2⟩ := after_body pk A es { s with rd := rd' } c.h hg' hd hgot hsh'
          exact ih _ _ hok' g2 r2
        · exact ih _ _ hok' hg' (after_skip pk A es rd' hd hgot hsh')

/-- every entry is clean, fits the header format, and the packer handles its data -/
theorem allOk_of_entries {pk : Packer} {es : List Entry} (hok : ∀ e ∈ es, EntryOk e) (henc : Encodable es)
    (hpk : Packs pk es) : AllOk pk es := fun e he => ⟨hok e he, henc e he, hpk e he⟩

/-- **`archiveWith pk es` denotes `es` along the run with the filter test** — for every list of
clean, encodable entries (no order condition), any options, file system, answers -/
theorem archiveWith_denotesF (pk : Packer) (es : List Entry) (hok : ∀ e ∈ es, EntryOk e)
    (henc : Encodable es) (hpk : Packs pk es) (o : Opts) (fs : Fs.St) (answers : Bytes) :
    DenotesF (runFuel (archiveWith pk es)) (runInit (archiveWith pk es) o fs answers) es :=
  denotesF_of_rstate pk (archiveWith pk es) _ _ es (allOk_of_entries hok henc hpk) (good_runInit _ o fs answers)
    (rstate_runInit pk es o fs answers)

theorem wfs_entries : ∀ (es : List Entry) (stk seen : List Fs.Path) (sel : Entry → Bool),
    WFS sel stk seen es → ∀ e ∈ es, EntryOk e := by
  intro es
  induction es with
  | nil => intro _ _ _ _ e he; cases he
  | cons x xs ih =>
    intro stk seen sel h e he
    rcases List.mem_cons.1 he with rfl | he
    · exact h.1
    · have h2 := h.2
      split at h2
      · exact ih _ _ sel h2.2.2 e he
      · exact ih _ _ sel h2 e he

/-! ## closed forms on bytes -/

/-- **(1) wildcard arguments, end to end.**  For every encodable entry list whose selected part is
well-formed (`WFS`), `lha x archive patterns` on the BYTES `archiveWith pk es`, into an empty
directory, leaves exactly the tree of the members whose stored path matches a pattern. -/
theorem extract_archiveWith_sel (pk : Packer) (es : List Entry) (o : Opts) (fs : Fs.St) (answers : Bytes)
    (hwf : WFS (selected o.filters) [] [] es) (henc : Encodable es) (hpk : Packs pk es)
    (hx : o.extractPath = none) (hu : o.usePath = true) (hfs : EmptyDir fs) (ha : Access fs) :
    (run (archiveWith pk es) o fs answers).result = true ∧
    (∀ p, p ≠ [] → Fs.lookup (run (archiveWith pk es) o fs answers).fs (fs.cwd ++ p) =
      treeOf fs.now fs.umask (es.filter (selected o.filters)) p) ∧
    (es.filter (selected o.filters) ≠ [] → fs.cwd ≠ [] →
      ∃ m t0, Fs.lookup fs fs.cwd = some (.dir m t0) ∧
        Fs.lookup (run (archiveWith pk es) o fs answers).fs fs.cwd = some (.dir m fs.now)) ∧
    (∀ x, ¬ fs.cwd <+: x → Fs.lookup (run (archiveWith pk es) o fs answers).fs x = Fs.lookup fs x) :=
  run_tree_sel (archiveWith pk es) o fs answers es hx hu hfs ha hwf (fuel_archiveWith pk es)
    (archiveWith_denotesF pk es (wfs_entries es [] [] _ hwf) henc hpk o fs answers)

/-- **(2) `w=DIR`, end to end.**  For every well-formed, encodable tree, `lha xw=d₁/…/dₙ` on the
bytes `archiveWith pk es` leaves the tree below `cwd/d₁/…/dₙ`; `DIR` and its missing parents are
created (0755 under the umask; `MadeFrom`), nothing else changes. -/
theorem extract_archiveWith_reloc (pk : Packer) (es : List Entry) (o : Opts) (fs : Fs.St) (answers : Bytes)
    (ds : List Bytes) (k : Nat)
    (hwf : WellFormed es) (henc : Encodable es) (hpk : Packs pk es)
    (hne : ds ≠ []) (hx : o.extractPath = some (joinPath ds)) (hu : o.usePath = true) (hnf : o.filters = [])
    (hb : BaseOk fs ds k) (ha : AccessW fs) (hdepth : ∀ e ∈ es, ds.length + e.path.length < 64) :
    (run (archiveWith pk es) o fs answers).result = true ∧
    (∀ p, p ≠ [] → Fs.lookup (run (archiveWith pk es) o fs answers).fs (fs.cwd ++ ds ++ p) =
      treeOf fs.now fs.umask es p) ∧
    (es ≠ [] → ∃ m t0, Fs.lookup (mkBase fs ds) (fs.cwd ++ ds) = some (.dir m t0) ∧
      Fs.lookup (run (archiveWith pk es) o fs answers).fs (fs.cwd ++ ds) = some (.dir m fs.now)) ∧
    (es ≠ [] → ∀ x, ¬ (fs.cwd ++ ds) <+: x →
      Fs.lookup (run (archiveWith pk es) o fs answers).fs x = Fs.lookup (mkBase fs ds) x) ∧
    MadeFrom fs (mkBase fs ds) (ds.take k) (ds.drop k) :=
  run_tree_reloc (archiveWith pk es) o fs answers ds es k hne hx hu hnf hb ha hwf hdepth
    (fuel_archiveWith pk es) (archiveWith_denotes pk es hwf henc hpk o fs answers)

/-- **(3) option `i`, end to end.**  For every list of clean, encodable entries (any order) whose
selected files and links have pairwise distinct names, `lha xi archive [patterns]` on the bytes
`archiveWith pk es`, into an empty directory, leaves exactly the flattened tree. -/
theorem extract_archiveWith_flat (pk : Packer) (es : List Entry) (o : Opts) (fs : Fs.St) (answers : Bytes)
    (hok : ∀ e ∈ es, EntryOk e) (henc : Encodable es) (hpk : Packs pk es)
    (hnames : ((es.filter (fun e => selected o.filters e && !e.isDir)).map Entry.namePart).Nodup)
    (hx : o.extractPath = none) (hu : o.usePath = false) (hfs : EmptyDir fs) (ha : Access fs) :
    (run (archiveWith pk es) o fs answers).result = true ∧
    (∀ p, p ≠ [] → Fs.lookup (run (archiveWith pk es) o fs answers).fs (fs.cwd ++ p) =
      flatTreeOf fs.now fs.umask (es.filter (selected o.filters)) p) ∧
    (∀ x, ¬ fs.cwd <+: x → Fs.lookup (run (archiveWith pk es) o fs answers).fs x = Fs.lookup fs x) :=
  run_tree_flat (archiveWith pk es) o fs answers es hx hu hfs ha hok hnames
    (by have := fuel_archiveWith pk es; omega)
    (archiveWith_denotesF pk es hok henc hpk o fs answers)

/-- `i` and `w=DIR` together -/
theorem extract_archiveWith_flat_reloc (pk : Packer) (es : List Entry) (o : Opts) (fs : Fs.St)
    (answers : Bytes) (ds : List Bytes) (k : Nat)
    (hok : ∀ e ∈ es, EntryOk e) (henc : Encodable es) (hpk : Packs pk es)
    (hnames : ((es.filter (fun e => selected o.filters e && !e.isDir)).map Entry.namePart).Nodup)
    (hne : ds ≠ []) (hx : o.extractPath = some (joinPath ds)) (hu : o.usePath = false)
    (hb : BaseOk fs ds k) (ha : AccessW fs) (hds : ds.length < 63) :
    (run (archiveWith pk es) o fs answers).result = true ∧
    (∀ p, p ≠ [] → Fs.lookup (run (archiveWith pk es) o fs answers).fs (fs.cwd ++ ds ++ p) =
      flatTreeOf fs.now fs.umask (es.filter (selected o.filters)) p) ∧
    (flatList (es.filter (selected o.filters)) ≠ [] → ∀ x, ¬ (fs.cwd ++ ds) <+: x →
      Fs.lookup (run (archiveWith pk es) o fs answers).fs x = Fs.lookup (mkBase fs ds) x) :=
  run_tree_flat_reloc (archiveWith pk es) o fs answers ds es k hne hx hu hb ha hds hok hnames
    (by have := fuel_archiveWith pk es; omega)
    (archiveWith_denotesF pk es hok henc hpk o fs answers)

/-- wildcards and `w=DIR` together, in the general form of `run_tree_opt` -/
theorem extract_archiveWith_opt (pk : Packer) (es : List Entry) (o : Opts) (fs : Fs.St) (answers : Bytes)
    (ds : List Bytes)
    (hwf : WFS (selected o.filters) [] [] es) (henc : Encodable es) (hpk : Packs pk es)
    (ho : OptsRel o ds) (hb : BaseRef fs ds) (hdepth : ∀ e ∈ es, ds.length + e.path.length < 64) :
    (run (archiveWith pk es) o fs answers).result = true ∧
    (∀ p, p ≠ [] → Fs.lookup (run (archiveWith pk es) o fs answers).fs (fs.cwd ++ ds ++ p) =
      treeOf fs.now fs.umask (es.filter (selected o.filters)) p) ∧
    (es.filter (selected o.filters) ≠ [] → fs.cwd ++ ds ≠ [] →
      ∃ m t0, Fs.lookup (mkBase fs ds) (fs.cwd ++ ds) = some (.dir m t0) ∧
        Fs.lookup (run (archiveWith pk es) o fs answers).fs (fs.cwd ++ ds) = some (.dir m fs.now)) ∧
    (es.filter (selected o.filters) ≠ [] → ∀ x, ¬ (fs.cwd ++ ds) <+: x →
      Fs.lookup (run (archiveWith pk es) o fs answers).fs x = Fs.lookup (mkBase fs ds) x) ∧
    (es.filter (selected o.filters) = [] → (run (archiveWith pk es) o fs answers).fs = fs) :=
  run_tree_opt (archiveWith pk es) o fs answers ds es ho hb hwf hdepth (fuel_archiveWith pk es)
    (archiveWith_denotesF pk es (wfs_entries es [] [] _ hwf) henc hpk o fs answers)

end LhasaV.ArchiveOf
