import LhasaV.Lemmas.ReaderIndep2
/-!
# C15, part 3: `read`, `check` and the decoding half of `extract` only move the decoder

Every operation that decodes leaves the reader's bookkeeping alone (`Frame`) and leaves the
basic reader unchanged up to consumption (`ConsEq`), provided the decoders are honest.
-/
set_option linter.unusedSimpArgs false
namespace LhasaV.ReaderIndep
open LhasaV LhasaV.Reader

/-- every decoder `lha_decoder_for_name` can return is honest -/
def HonestAll : Prop := ∀ name d, decoderFor name = some d → Honest d

/-- the part of the reader invariant used here -/
structure Pre (s : St) : Prop where
  decOK : DecOK s
  tidy : Tidy s.basic
  wf : Stream.WF s.basic

/-- what a decoding operation guarantees -/
structure DecStep (s s' : St) : Prop where
  frame : Frame s s'
  pre : Pre s'
  basic : ConsEq s.basic s'.basic

theorem DecStep.refl {s : St} (h : Pre s) : DecStep s s :=
  ⟨Frame.refl s, h, ConsEq.refl h.tidy⟩

theorem DecStep.trans {a b c : St} (h1 : DecStep a b) (h2 : DecStep b c) : DecStep a c :=
  ⟨h1.frame.trans h2.frame, h2.pre, h1.basic.trans h2.basic⟩

/-- install a decoder (and count it) -/
theorem setDec_step {s : St} (hp : Pre s) (o : Open) (ho : OpenOK s.basic o) (n : Nat) :
    DecStep s { s with dec := some o, led := { s.led with decoders := n } } := by
  refine ⟨by constructor <;> rfl, ⟨?_, hp.tidy, hp.wf⟩, ConsEq.refl hp.tidy⟩
  intro o' h
  cases h
  exact ho

/-- install a decoder and close it at once (the failed pass-through set-up) -/
theorem closeWith_step {s : St} (hp : Pre s) (o : Open) (ho : OpenOK s.basic o) (n : Nat) :
    DecStep s (closeDecoder { s with dec := some o, led := { s.led with decoders := n } }) := by
  have h1 := setDec_step hp o ho n
  refine h1.trans ⟨closeDecoder_frame _, ⟨?_, ?_, ?_⟩, ?_⟩
  · intro o' h; rw [closeDecoder_dec] at h; cases h
  · exact (eff_consEq h1.pre.decOK h1.pre.tidy).2
  · exact Stream.wf_closeDecoder _ h1.pre.wf
  · exact (eff_consEq h1.pre.decOK h1.pre.tidy).1

theorem openDecoder_step (H : HonestAll) {s : St} (hp : Pre s) : DecStep s (openDecoder s).2 := by
  unfold openDecoder
  split
  · exact DecStep.refl hp
  · split
    · exact DecStep.refl hp
    · rename_i c hc
      split
      · rename_i d info hd hi
        have hon : Honest d := H _ d hd
        have hQ := innerOK_total hon s.basic
        have h0 : InnerOK d s.basic (.ok (d.init (memberSrc s.basic))) := by
          intro st e hs; cases e; exact hon.init _ hs
        split
        · dsimp only
          have hk := macInit_keeps d.total (InnerOK d s.basic) hQ c.h
            { inner := .ok (d.init (memberSrc s.basic)), length := c.h.length, blockSize := info.2.2 } h0
          split
          · exact closeWith_step hp _ ⟨hon, fun ist hi => by cases hi; exact hk.1⟩ _
          · rename_i mac hm
            exact setDec_step hp _ ⟨hon, fun ist hi => by cases hi; exact hk.2 mac hm⟩ _
        · exact setDec_step hp _ ⟨hon, fun ist hi => by cases hi; exact h0⟩ _
      · exact DecStep.refl hp

theorem readCore_step {s : St} (hp : Pre s) (k : Nat) : DecStep s (readCore s k).2 := by
  unfold readCore
  split
  · exact DecStep.refl hp
  · rename_i o ho
    have hO := hp.decOK o ho
    have hQ := innerOK_total hO.1 s.basic
    split
    · rename_i _ _ st hpl
      refine ⟨by constructor <;> rfl, ⟨?_, hp.tidy, hp.wf⟩, ConsEq.refl hp.tidy⟩
      intro o' h
      cases h
      refine ⟨hO.1, fun ist hi => ?_⟩
      cases hi
      exact wread_keeps o.d.total (InnerOK o.d s.basic) hQ k st
        (hO.2 st (by simp [Open.innerSt, hpl]))
    · rename_i m hpl hm
      refine ⟨by constructor <;> rfl, ⟨?_, hp.tidy, hp.wf⟩, ConsEq.refl hp.tidy⟩
      intro o' h
      cases h
      refine ⟨hO.1, fun ist hi => ?_⟩
      have e : ist = (Wrap.read (macRead o.d.total) k m).2.inner.inner := by
        simp only [Open.innerSt, hpl] at hi
        cases hi; rfl
      rw [e]
      exact wread_keeps (macRead o.d.total) (fun x => InnerOK o.d s.basic x.inner.inner)
        (fun x hx => macRead_keeps o.d.total (InnerOK o.d s.basic) hQ x hx) k m
        (hO.2 m.inner.inner (by simp [Open.innerSt, hpl, hm]))
    · exact DecStep.refl hp

theorem read_step (H : HonestAll) {s : St} (hp : Pre s) (k : Nat) : DecStep s (read s k).2 := by
  rw [read_eq]
  split
  · split
    · exact readCore_step hp k
    · exact DecStep.refl hp
  · split
    · exact (openDecoder_step H hp).trans (readCore_step (openDecoder_step H hp).pre k)
    · exact openDecoder_step H hp

theorem decodeLoop_step (H : HonestAll) (fuel : Nat) {s : St} (hp : Pre s) (acc : List UInt8) :
    DecStep s (decodeLoop fuel s acc).2 := by
  induction fuel generalizing s acc with
  | zero => exact DecStep.refl hp
  | succ n ih =>
    unfold decodeLoop
    dsimp only
    split
    · exact read_step H hp 64
    · exact (read_step H hp 64).trans (ih (read_step H hp 64).pre _)

theorem check_step (H : HonestAll) {s : St} (hp : Pre s) : DecStep s (check s).2 := by
  unfold check
  split
  · exact DecStep.refl hp
  · split
    · exact DecStep.refl hp
    · split
      · exact DecStep.refl hp
      · dsimp only
        split
        · exact openDecoder_step H hp
        · exact (openDecoder_step H hp).trans (decodeLoop_step H _ (openDecoder_step H hp).pre _)

end LhasaV.ReaderIndep
