import LhasaV.Lemmas.ReaderWork
/-!
# C13 for whole histories, part 1: amortised cost of the stream operations

`ReaderWork` bounds ONE `next` by the bytes still present (`A/32 + (A+11)/12 + 4` requests).  Summed
over a listing of `n` members that would allow `n·A` requests — a reader that re-read the rest of
the archive on every `next` satisfies it.  Here the cost of every stream operation is charged to the
bytes it makes DISAPPEAR from the source (`avail` before − `avail` after), so that the costs of a
whole history telescope:

* `Amort s s' k`: the data is untouched, and
  `32·(requests made) + avail s' ≤ avail s + 32·k`, `(bytes moved) + avail s' ≤ avail s`;
* `skip` costs `k = 1`, `advance` costs `k = 1`, the start-of-stream scan costs its one-off budget
  `(A+11)/12 + 2` while the phase is `init` and NOTHING afterwards;
* `basicNext` costs `k = 2` plus the scan budget the one time the scan runs.

The decoding operations (`read`, `check`, `extract`) touch the basic reader only through
`closeDecoder`: relation `Adv`.
-/
set_option linter.unusedSimpArgs false
namespace LhasaV.ReaderIndep
open LhasaV LhasaV.Reader

/-! ## 1. amortised cost of a stream operation -/

/-- `s ↦ s'` never gives bytes back to the source (`avail` does not grow); it makes at most `k` requests beyond one per 32
bytes that disappeared from the source, and pulls no more bytes than disappeared -/
structure Amort (s s' : Stream.St) (k : Nat) : Prop where
  data : s'.data = s.data
  readsLe : s.reads ≤ s'.reads
  reads : 32 * (s'.reads - s.reads) + avail s' ≤ avail s + 32 * k
  movedLe : s.moved ≤ s'.moved
  moved : (s'.moved - s.moved) + avail s' ≤ avail s

theorem Amort.refl (s : Stream.St) : Amort s s 0 :=
  ⟨rfl, Nat.le_refl _, by omega, Nat.le_refl _, by omega⟩

theorem Amort.trans {a b c : Stream.St} {r1 r2 : Nat} (h1 : Amort a b r1) (h2 : Amort b c r2) :
    Amort a c (r1 + r2) := by
  obtain ⟨d1, a1, b1, c1, e1⟩ := h1
  obtain ⟨d2, a2, b2, c2, e2⟩ := h2
  exact ⟨d2.trans d1, by omega, by omega, by omega, by omega⟩

theorem Amort.mono {a b : Stream.St} {r r' : Nat} (h : Amort a b r) (hr : r ≤ r') : Amort a b r' :=
  ⟨h.data, h.readsLe, by have := h.reads; omega, h.movedLe, h.moved⟩

theorem Amort.avail_le {a b : Stream.St} {r : Nat} (h : Amort a b r) : avail b ≤ avail a := by
  have := h.moved; omega

/-- skipping `n` bytes — whatever `n` is, whatever the kind of source: one request per 32 bytes
that disappear, plus one -/
theorem skip_amort (s : Stream.St) (n : Nat) : Amort s (Stream.skip s n).2 1 := by
  unfold Stream.skip
  cases hk : s.kind <;> simp only [] <;> (try split) <;>
    exact ⟨rfl, by simp only []; omega, by simp only [avail]; omega,
      by simp only []; omega, by simp only [avail]; omega⟩

/-- charging the bytes a header parse used: one request -/
theorem advance_amort (s : Stream.St) (k : Nat) : Amort s (Stream.advance s k) 1 := by
  unfold Stream.advance
  refine ⟨rfl, by simp only []; omega, ?_, by simp only []; omega,
    by simp only [avail]; omega⟩
  simp only [avail]; split <;> omega

theorem advance_phase (s : Stream.St) (k : Nat) : (Stream.advance s k).phase = s.phase := rfl

/-- the one-off budget of the start-of-stream scan on `A` bytes -/
def scanBudget (A : Nat) : Nat := (A + 11) / 12 + 2

theorem scanBudget_mono {a b : Nat} (h : a ≤ b) : scanBudget a ≤ scanBudget b := by
  unfold scanBudget
  have : (a + 11) / 12 ≤ (b + 11) / 12 := Nat.div_le_div_right (by omega)
  omega

/-- the start-of-stream scan costs its budget while the phase is `init` — after which the phase is
never `init` again — and nothing at all otherwise -/
theorem start_amort (s s' : Stream.St) (hl : s.leadin.length ≤ 24) (h : Stream.start s = .ok s') :
    Amort s s' (if s.phase = .init then scanBudget (avail s) else 0) ∧ s'.phase ≠ .init ∧
    s'.leadin.length ≤ 24 := by
  obtain ⟨s1, e, h1, hd, _, hsame, hph⟩ := Stream.start_ok s hl
  rw [h] at e
  cases e
  by_cases hp : s.phase = .init
  · have hc := start_cost s s' hl h
    obtain ⟨a1, _, a3, a4, a5⟩ := Stream.start_bounds s s' hl h
    rw [if_pos hp]
    refine ⟨⟨hd, hc.readsLe, ?_, hc.movedLe, hc.moved⟩, hph, h1⟩
    have := hc.reads
    have := hc.avail_le
    unfold scanBudget
    omega
  · have hs : s' = s := hsame hp
    subst hs
    rw [if_neg hp]
    exact ⟨Amort.refl _, hph, h1⟩

/-- the parse half of `basicNext`: one request for the header, plus the scan budget the one time
the scan runs; a phase other than `init` stays so -/
theorem nextTail_amort (mk : Nat → Nat) (b b' : Basic) (led led' : Ledger)
    (hl : b.stream.leadin.length ≤ 24) (e : Stream.nextTail mk b led = .ok (b', led')) :
    Amort b.stream b'.stream
      (1 + (if b.stream.phase = .init ∧ b'.stream.phase ≠ .init then scanBudget (avail b.stream) else 0)) ∧
    (b.stream.phase ≠ .init → b'.stream.phase ≠ .init) := by
  unfold Stream.nextTail at e
  split at e
  · cases e; exact ⟨(Amort.refl _).mono (by omega), id⟩
  · obtain ⟨st, es, _⟩ := Stream.start_ok b.stream hl
    obtain ⟨hc, hph, _⟩ := start_amort b.stream st hl es
    rw [es] at e
    simp only [Res.ok_bind] at e
    have key : ∀ x : Stream.St, x.phase = st.phase → Amort b.stream x
        ((if b.stream.phase = .init then scanBudget (avail b.stream) else 0) + 1) →
        Amort b.stream x
          (1 + (if b.stream.phase = .init ∧ x.phase ≠ .init then scanBudget (avail b.stream) else 0)) ∧
        (b.stream.phase ≠ .init → x.phase ≠ .init) := by
      intro x hx ha
      have hx' : x.phase ≠ .init := by rw [hx]; exact hph
      refine ⟨ha.mono ?_, fun _ => hx'⟩
      by_cases hp : b.stream.phase = .init
      · rw [if_pos hp, if_pos ⟨hp, hx'⟩]; omega
      · rw [if_neg hp, if_neg (fun h => hp h.1)]; omega
    split at e
    · cases e; exact key st rfl (hc.mono (by omega))
    · split at e
      · cases e
      · cases e; exact key st rfl (hc.mono (by omega))
      · cases e
        exact key _ (advance_phase st _) (hc.trans (advance_amort st _))

/-- **`lha_basic_reader_next_file`, amortised.**  Two requests (the rounding of the skip, the
header) beyond one per 32 bytes that disappear from the source, plus the scan budget the one time
the start-of-stream scan runs.  The declared length of the member skipped does not occur. -/
theorem basicNext_amort (mk : Nat → Nat) (b b' : Basic) (led led' : Ledger) (wf : Stream.WF b)
    (e : basicNext mk b led = .ok (b', led')) :
    Amort b.stream b'.stream
      (2 + (if b.stream.phase = .init ∧ b'.stream.phase ≠ .init then scanBudget (avail b.stream) else 0)) ∧
    (b.stream.phase ≠ .init → b'.stream.phase ≠ .init) := by
  rw [Stream.basicNext_eq] at e
  have h1 : Amort b.stream (Stream.afterSkip b led).1.stream 1 ∧
      (Stream.afterSkip b led).1.stream.leadin.length ≤ 24 ∧
      (Stream.afterSkip b led).1.stream.phase = b.stream.phase := by
    unfold Stream.afterSkip
    split
    · exact ⟨skip_amort _ _, by simp only [(Stream.skip_frame _ _).2.2.2]; exact wf.1,
        (Stream.skip_frame _ _).2.2.1⟩
    · exact ⟨(Amort.refl _).mono (by omega), wf.1, rfl⟩
  obtain ⟨h2, h3⟩ := nextTail_amort mk _ b' _ led' h1.2.1 e
  rw [h1.2.2] at h2 h3
  refine ⟨(h1.1.trans h2).mono ?_, h3⟩
  have := scanBudget_mono h1.1.avail_le
  split <;> omega

/-- after `basicNext` the member's remaining length is the compressed length its header declares -/
theorem basicNext_rem (mk : Nat → Nat) (b b' : Basic) (led led' : Ledger)
    (e : basicNext mk b led = .ok (b', led')) :
    ∀ c, b'.curr = some c → b'.remaining ≤ c.h.compressedLength := by
  rw [Stream.basicNext_eq] at e
  have h0 : (Stream.afterSkip b led).1.curr = none := by
    unfold Stream.afterSkip
    cases hc : b.curr with
    | none => exact hc
    | some c => rfl
  generalize (Stream.afterSkip b led).1 = x at e h0
  generalize (Stream.afterSkip b led).2 = l at e
  unfold Stream.nextTail at e
  split at e
  · cases e; intro c hc; rw [h0] at hc; cases hc
  · cases hs : Stream.start x.stream with
    | fail => rw [hs] at e; cases e
    | fault w => rw [hs] at e; cases e
    | ok st =>
      rw [hs] at e
      simp only [Res.ok_bind] at e
      split at e
      · cases e; intro c hc; rw [show x.curr = none from h0] at hc; cases hc
      · split at e
        · cases e
        · cases e; intro c hc; rw [show x.curr = none from h0] at hc; cases hc
        · cases e
          intro c hc
          cases hc
          exact Nat.le_refl _

/-! ## 2. what the decoding operations do to the basic reader -/

/-- the only thing `read`, `check`, `extract` (and `closeDecoder`) do to the basic reader: account
some of the current member's remaining bytes as consumed.  No source request, nothing re-read. -/
structure Adv (b b' : Basic) : Prop where
  curr : b'.curr = b.curr
  data : b'.stream.data = b.stream.data
  leadin : b'.stream.leadin = b.stream.leadin
  phase : b'.stream.phase = b.stream.phase
  reads : b'.stream.reads = b.stream.reads
  remLe : b'.remaining ≤ b.remaining
  pos : b'.stream.pos + b'.remaining = b.stream.pos + b.remaining
  moved : b'.stream.moved + b'.remaining = b.stream.moved + b.remaining

theorem Adv.refl (b : Basic) : Adv b b := ⟨rfl, rfl, rfl, rfl, rfl, Nat.le_refl _, rfl, rfl⟩

theorem Adv.trans {a b c : Basic} (h1 : Adv a b) (h2 : Adv b c) : Adv a c :=
  ⟨h2.curr.trans h1.curr, h2.data.trans h1.data, h2.leadin.trans h1.leadin, h2.phase.trans h1.phase,
   h2.reads.trans h1.reads, Nat.le_trans h2.remLe h1.remLe, h2.pos.trans h1.pos, h2.moved.trans h1.moved⟩

theorem Adv.wf {b b' : Basic} (h : Adv b b') (wf : Stream.WF b) : Stream.WF b' := by
  unfold Stream.WF at *
  rw [h.leadin, h.curr]; exact wf

theorem Adv.posLe {b b' : Basic} (h : Adv b b') : b.stream.pos ≤ b'.stream.pos := by
  have := h.pos; have := h.remLe; omega

theorem Adv.avail_le {b b' : Basic} (h : Adv b b') : avail b'.stream ≤ avail b.stream := by
  have := h.posLe; unfold avail; rw [h.data]; omega

theorem closeDecoder_adv (s : St) : Adv s.basic (closeDecoder s).basic := by
  cases h : s.dec with
  | none =>
    have : closeDecoder s = s := by unfold closeDecoder; simp only [h]
    rw [this]; exact Adv.refl _
  | some o =>
    unfold closeDecoder
    simp only [h]
    exact ⟨rfl, rfl, rfl, rfl, rfl, by simp only []; omega, by simp only []; omega, by simp only []; omega⟩

theorem closeDecoder_adv' (s : St) (b : Basic) (h : s.basic = b) : Adv b (closeDecoder s).basic :=
  h ▸ closeDecoder_adv s

theorem openDecoder_adv (s : St) : Adv s.basic (openDecoder s).2.basic := by
  unfold openDecoder
  split
  · exact Adv.refl _
  · split
    · exact Adv.refl _
    · split
      · split
        · dsimp only
          split
          · dsimp only
            exact closeDecoder_adv' _ _ rfl
          · exact Adv.refl _
        · exact Adv.refl _
      · exact Adv.refl _

theorem readCore_basic (s : St) (k : Nat) : (readCore s k).2.basic = s.basic := by
  unfold readCore
  split
  · rfl
  · split <;> rfl

theorem read_adv (s : St) (k : Nat) : Adv s.basic (read s k).2.basic := by
  rw [read_eq]
  split
  · split
    · rw [readCore_basic]; exact Adv.refl _
    · exact Adv.refl _
  · split
    · rw [readCore_basic]; exact openDecoder_adv s
    · exact openDecoder_adv s

theorem decodeLoop_adv (fuel : Nat) (s : St) (acc : List UInt8) :
    Adv s.basic (decodeLoop fuel s acc).2.basic := by
  induction fuel generalizing s acc with
  | zero => exact Adv.refl _
  | succ n ih =>
    unfold decodeLoop
    dsimp only
    split
    · exact read_adv s 64
    · exact (read_adv s 64).trans (ih _ _)

theorem check_adv (s : St) : Adv s.basic (check s).2.basic := by
  unfold check
  split
  · exact Adv.refl _
  · split
    · exact Adv.refl _
    · split
      · exact Adv.refl _
      · dsimp only
        split
        · exact openDecoder_adv s
        · exact (openDecoder_adv s).trans (decodeLoop_adv _ _ _)

theorem extract_adv (s : St) (b : Bool) : Adv s.basic (extract s b).2.basic := by
  unfold extract
  split
  · split
    · dsimp only
      split
      · exact openDecoder_adv s
      · split
        · exact openDecoder_adv s
        · exact (openDecoder_adv s).trans (decodeLoop_adv _ _ _)
    · split
      · split
        · split
          · exact Adv.refl _
          · exact Adv.refl _
        · exact Adv.refl _
      · split
        · exact Adv.refl _
        · split
          · exact Adv.refl _
          · exact Adv.refl _
  · exact Adv.refl _
  · exact Adv.refl _
  · exact Adv.refl _

/-- every operation other than `next` -/
theorem step_adv (s : St) (op : Op) (hop : op ≠ .next) : Adv s.basic (step s op).basic := by
  cases op with
  | next => exact absurd rfl hop
  | read k => exact read_adv s k
  | check => exact check_adv s
  | extract b => exact extract_adv s b

end LhasaV.ReaderIndep
