import LhasaV.Lemmas.ToolKinds2
/-!
# C16 at tool level, part 3: `lha_reader_next_file`

`next_eq`: `next` = `closeDecoder`, then `nextAdv` (the basic reader advances unless a re-presented
entry was current), then `nextRest` = `nextUnref`, `nextPop`, `nextDeferred`.
**`next_rel`**: on related readers `next` presents the same entry (or both report the end, or both
report the same parser fault) and leaves related readers.
-/
set_option linter.unusedSimpArgs false
namespace LhasaV.ToolKinds
open LhasaV LhasaV.Stream LhasaV.Reader

/-! ## `lha_reader_next_file` -/

/-- `KRel` without the invariant `norm` (which `next` re-establishes) -/
structure KRel0 (P : List UInt8) (s t : Reader.St) : Prop where
  curr : s.curr = t.curr
  currType : s.currType = t.currType
  dec : s.dec = t.dec
  policy : s.policy = t.policy
  dirStack : s.dirStack = t.dirStack
  deferred : s.deferred = t.deferred
  led : s.led = t.led
  mktime : s.mktime = t.mktime
  basic : BRel P s.basic t.basic

theorem KRel.to0 {P s t} (h : KRel P s t) : KRel0 P s t :=
  ⟨h.curr, h.currType, h.dec, h.policy, h.dirStack, h.deferred, h.led, h.mktime, h.basic⟩

macro "krel0_upd " h:term : tactic => `(tactic| exact
  ⟨by first | rfl | exact ($h).curr, by first | rfl | exact ($h).currType, by first | rfl | exact ($h).dec,
   by first | rfl | exact ($h).policy, by first | rfl | exact ($h).dirStack,
   by first | rfl | exact ($h).deferred, by first | rfl | exact ($h).led,
   by first | rfl | exact ($h).mktime, ($h).basic⟩)

/-- the basic reader advances when the previous entry was a real one -/
def nextAdv (s : Reader.St) : Except String Reader.St :=
  if s.currType == .start ∨ s.currType == .normal then
    (match basicNext s.mktime s.basic s.led with
     | .ok r => (.ok { s with basic := r.1, led := r.2 } : Except String Reader.St)
     | .fail => .error "basicNext returned fail"
     | .fault w => .error w)
  else .ok s

/-- release a re-presented entry -/
def nextUnref (s : Reader.St) : Reader.St :=
  if s.currType == .fakeDir ∨ s.currType == .deferred then
    match s.curr with
    | some c => { s with led := s.led.unref c.id }
    | none => s
  else s

/-- pop the directory stack, or present the basic reader's member -/
def nextPop (s : Reader.St) : Reader.St :=
  if endOfTopDir s then
    match s.dirStack with
    | top :: rest => { s with curr := some top, dirStack := rest, currType := .fakeDir }
    | [] => s
  else { s with curr := s.basic.curr, currType := .normal }

/-- at the end of the archive: the deferred symbolic links -/
def nextDeferred (s : Reader.St) : Reader.St :=
  match s.curr with
  | some _ => s
  | none =>
    match s.deferred with
    | d :: rest => { s with curr := some d, currType := .deferred, deferred := rest }
    | [] => { s with currType := .eof }

/-- the rest of `lha_reader_next_file` -/
def nextRest (s : Reader.St) : Option HObj × Reader.St :=
  ((nextDeferred (nextPop (nextUnref s))).curr, nextDeferred (nextPop (nextUnref s)))

theorem next_eq (s : Reader.St) : Reader.next s =
    if (closeDecoder s).currType == .eof then .ok (none, closeDecoder s) else
    nextAdv (closeDecoder s) >>= fun s => .ok (nextRest s) := by
  unfold Reader.next nextAdv nextRest nextDeferred nextPop nextUnref
  rfl

theorem nextUnref_rel {P s t} (h : KRel0 P s t) : KRel0 P (nextUnref s) (nextUnref t) := by
  unfold nextUnref
  rw [← h.currType, ← h.curr, ← h.led]
  split
  · split
    · krel0_upd h
    · exact h
  · exact h

theorem endOfTopDir_rel {P s t} (h : KRel0 P s t) : endOfTopDir s = endOfTopDir t := by
  unfold endOfTopDir
  rw [← h.dirStack, ← h.basic.curr, ← h.policy]

theorem nextPop_rel {P s t} (h : KRel0 P s t) : KRel0 P (nextPop s) (nextPop t) := by
  unfold nextPop
  rw [← endOfTopDir_rel h, ← h.dirStack, ← h.basic.curr]
  split
  · split
    · krel0_upd h
    · exact h
  · krel0_upd h

theorem nextDeferred_rel {P s t} (h : KRel0 P s t) : KRel0 P (nextDeferred s) (nextDeferred t) := by
  unfold nextDeferred
  rw [← h.curr, ← h.deferred]
  split
  · exact h
  · split
    · krel0_upd h
    · krel0_upd h

theorem endOfTopDir_nil (s : Reader.St) (h : s.dirStack = []) : endOfTopDir s = false := by
  unfold endOfTopDir; rw [h]

/-- after `next` a normal entry is the basic reader's current member -/
theorem nextRest_norm (s : Reader.St) :
    (nextRest s).2.currType = .normal → (nextRest s).2.curr = (nextRest s).2.basic.curr := by
  have hp : (nextPop (nextUnref s)).currType = .normal →
      (nextPop (nextUnref s)).curr = (nextPop (nextUnref s)).basic.curr := by
    generalize nextUnref s = u
    unfold nextPop
    split
    · split
      · intro h; cases h
      · rename_i hd _ he; rw [endOfTopDir_nil u he] at hd; cases hd
    · intro _; rfl
  show (nextDeferred (nextPop (nextUnref s))).currType = .normal →
    (nextDeferred (nextPop (nextUnref s))).curr = (nextDeferred (nextPop (nextUnref s))).basic.curr
  generalize nextPop (nextUnref s) = u at hp ⊢
  unfold nextDeferred
  split
  · exact hp
  · split
    · intro h; cases h
    · intro h; cases h

theorem nextRest_rel {P s t} (h : KRel0 P s t) :
    (nextRest s).1 = (nextRest t).1 ∧ KRel P (nextRest s).2 (nextRest t).2 := by
  have h3 := nextDeferred_rel (nextPop_rel (nextUnref_rel h))
  exact ⟨h3.curr, h3.curr, h3.currType, h3.dec, h3.policy, h3.dirStack, h3.deferred, h3.led, h3.mktime,
    h3.basic, nextRest_norm s⟩

/-- outcomes of `lha_reader_next_file` on related readers: the same header (or both the end), related
readers; or the same fault of the header parser -/
def NextOut (P : List UInt8) : Except String (Option HObj × Reader.St) →
    Except String (Option HObj × Reader.St) → Prop
  | .ok r, .ok r' => r.1 = r'.1 ∧ KRel P r.2 r'.2
  | .error w, .error w' => w = w'
  | _, _ => False

def AdvOut (P : List UInt8) : Except String Reader.St → Except String Reader.St → Prop
  | .ok s', .ok t' => KRel0 P s' t'
  | .error w, .error w' => w = w'
  | _, _ => False

theorem nextAdv_rel {P s t} (h : KRel P s t) : AdvOut P (nextAdv s) (nextAdv t) := by
  unfold nextAdv
  rw [← h.currType, ← h.mktime, ← h.led]
  by_cases hc : s.currType == .start ∨ s.currType == .normal
  · rw [if_pos hc, if_pos hc]
    have hb := basicNext_rel P s.mktime s.basic t.basic s.led h.basic
    cases ha : basicNext s.mktime s.basic s.led <;> cases hb' : basicNext s.mktime t.basic s.led <;>
      rw [ha, hb'] at hb <;> simp only [ResRel] at hb
    · exact ⟨h.curr, rfl, h.dec, h.policy, h.dirStack, h.deferred, hb.2, rfl, hb.1⟩
    · exact rfl
    · exact hb
  · rw [if_neg hc, if_neg hc]
    exact h.to0

/-- **`lha_reader_next_file` presents the same entry** whatever the kind of the source, and behind
a clean prefix -/
theorem next_rel {P s t} (h : KRel P s t) : NextOut P (Reader.next s) (Reader.next t) := by
  have hc := closeDecoder_rel h
  rw [next_eq, next_eq, ← hc.currType]
  split
  · exact ⟨rfl, hc⟩
  · have ha := nextAdv_rel hc
    cases h1 : nextAdv (closeDecoder s) <;> cases h2 : nextAdv (closeDecoder t) <;>
      rw [h1, h2] at ha <;> simp only [AdvOut] at ha
    · exact ha
    · exact nextRest_rel ha

end LhasaV.ToolKinds
