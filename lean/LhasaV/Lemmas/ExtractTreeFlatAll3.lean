import LhasaV.Lemmas.ExtractTreeFlatAll2
/-!
# C06, option `i` together with the other deviations (part 3): the theorem

**`run_tree_flat_unified`**: `lha xi[fq][w=DIR] archive [patterns]` (paths ignored; any wildcard
arguments; optional `w=DIR` with clean relative components) started where the place of the tree —
`cwd` or `cwd/DIR` — holds at most regular files directly in it (`BaseU`), on an archive that denotes
a list of clean entries (`EntryOk`; ANY order) whose SELECTED files and links have pairwise distinct
names, none of the selected LINKS at the name of an old file (`PreAtF`), with any answer stream
(`OwAnswers` under the prompt policy — needed only when some selected file's name is taken:
`AskedF`).  With `flatPlan` = `plan` (the independent specification of the overwrite policy) of the
flattened selected files and links in archive order (`flatSel`):

* the run is aborted exactly when the plan is, and succeeds otherwise;
* below the base every path holds `owTree … (flatPlan …).1`: at `name` the archived object when
  the plan writes it, else EXACTLY what was there (kept files, files at and after the abort, files
  that are not in the archive) — in particular NO directory (`flatOutcome_no_dir`): directory
  entries are ignored entirely, none is created, none of their metadata applied;
* the base keeps the mode it has in `mkBase` (0755 under the umask when the run created it) and
  carries `now`; outside, the file system is `mkBase` — the start state with the missing components
  of `DIR` created (`MadeFrom`); when nothing is written (e.g. nothing selected) nothing is touched.

Equal names among the selected files / links are excluded (`Nodup`): a second FILE of the same
name would be asked about, a second LINK replaces whatever is there silently (`lha_arch_symlink`
unlinks first) — `#guard`ed in part 6.
-/
namespace LhasaV.ExtractTree
open LhasaV LhasaV.Header LhasaV.Extract LhasaV.GlobFs LhasaV.Contain

/-- **the specification's plan under `i`**: the overwrite policy over the flattened selected files
and links, in archive order -/
def flatPlan (fs : Fs.St) (ds : List Bytes) (o : Opts) (answers : Bytes) (es : List Entry) :
    List Entry × Bool :=
  plan (exB fs ds) o.overwrite (lines answers) (flatSel (selected o.filters) es)

/-- what `run_tree_flat_unified` promises about the final state `r` of a run started in `fs`, the
flattened members placed in `cwd ++ ds`, for the plan `pl` (written entries, aborted?) -/
def FlatOutcome (r : Extract.St) (fs : Fs.St) (ds : List Bytes) (pl : List Entry × Bool) : Prop :=
  r.aborted = pl.2 ∧ r.result = !pl.2 ∧
  (∀ p, p ≠ [] → Fs.lookup r.fs (fs.cwd ++ ds ++ p) = owTree fs.now fs.umask (oldB fs ds) pl.1 p) ∧
  (pl.1 ≠ [] → ∃ m t0 t, Fs.lookup (mkBase fs ds) (fs.cwd ++ ds) = some (.dir m t0) ∧
    Fs.lookup r.fs (fs.cwd ++ ds) = some (.dir m t) ∧ (fs.cwd ++ ds ≠ [] → t = fs.now)) ∧
  (pl.1 ≠ [] → ∀ x, ¬ (fs.cwd ++ ds) <+: x → Fs.lookup r.fs x = Fs.lookup (mkBase fs ds) x) ∧
  (pl.1 = [] → r.fs = fs)

/-! ## reading the plan -/

theorem flatSel_mem {sel : Entry → Bool} {es : List Entry} {x : Entry} (h : x ∈ flatSel sel es) :
    ∃ e ∈ es, sel e = true ∧ e.isDir = false ∧ x = e.flat := by
  unfold flatSel at h
  obtain ⟨e, he, rfl⟩ := List.mem_map.1 h
  obtain ⟨he1, he2⟩ := List.mem_filter.1 he
  simp only [Bool.and_eq_true, Bool.not_eq_true'] at he2
  exact ⟨e, he1, he2.1, he2.2, rfl⟩

/-- the plan writes flattened selected files and links only, in archive order -/
theorem flatPlan_sublist (fs : Fs.St) (ds : List Bytes) (o : Opts) (answers : Bytes) (es : List Entry) :
    (flatPlan fs ds o answers es).1.Sublist (flatSel (selected o.filters) es) :=
  plan_sublist _ _ _ _

/-- every written entry is a file or link of the archive, selected, at the top level under its own name -/
theorem flatPlan_mem {fs : Fs.St} {ds : List Bytes} {o : Opts} {answers : Bytes} {es : List Entry} {x : Entry}
    (h : x ∈ (flatPlan fs ds o answers es).1) :
    x.isDir = false ∧ ∃ e ∈ es, selected o.filters e = true ∧ e.isDir = false ∧ x = e.flat ∧
      x.path = [e.namePart] := by
  obtain ⟨e, he, hs, hd, rfl⟩ := flatSel_mem ((flatPlan_sublist fs ds o answers es).subset h)
  exact ⟨by rw [flat_isDir]; exact hd, e, he, hs, hd, rfl, flat_path e hd⟩

/-- nothing selected (or directory entries only): nothing is written, no abort -/
theorem flatPlan_nil (fs : Fs.St) (ds : List Bytes) (o : Opts) (answers : Bytes) (es : List Entry)
    (h : ∀ e ∈ es, selected o.filters e = true → e.isDir = true) :
    flatPlan fs ds o answers es = ([], false) := by
  have : flatSel (selected o.filters) es = [] := by
    unfold flatSel
    rw [List.map_eq_nil_iff, List.filter_eq_nil_iff]
    intro e he
    cases hs : selected o.filters e with
    | false => simp
    | true => simp [h e he hs]
  unfold flatPlan
  rw [this]; rfl

/-- into an empty place the plan is the flattened selection: `flatTreeOf` of ExtractTreeOpt11 -/
theorem flatPlan_empty (fs : Fs.St) (ds : List Bytes) (o : Opts) (answers : Bytes) (es : List Entry)
    (h : ∀ p, p ≠ [] → oldB fs ds p = none) (hok : ∀ e ∈ es, EntryOk e) :
    flatPlan fs ds o answers es = (flatSel (selected o.filters) es, false) := by
  unfold flatPlan
  apply plan_free
  intro x hx
  obtain ⟨e, he, _, hd, rfl⟩ := flatSel_mem hx
  have hne := (entryOk_flat (hok e he) hd).ne
  cases e with
  | file p d pm t =>
    have : oldB fs ds [p.getLast?.getD []] = none := h _ hne
    show asks (exB fs ds) (.file [p.getLast?.getD []] d pm t) = false
    simp [asks, exB, this]
  | dir _ _ _ => cases hd
  | link _ _ => rfl

/-- options `f` / `q`: every selected file and link is written, nothing is read from the input -/
theorem flatPlan_all (fs : Fs.St) (ds : List Bytes) (o : Opts) (answers : Bytes) (es : List Entry)
    (h : o.overwrite = .all) : flatPlan fs ds o answers es = (flatSel (selected o.filters) es, false) := by
  unfold flatPlan; rw [h]; exact plan_all _ _ _

/-! ## the tree -/

/-- entries at the top level have no implicit parents: `uniTree` is `owTree` -/
theorem uniTree_top (now umask : Nat) (old : Fs.Path → Option Fs.Ent) (w : List Entry)
    (htop : ∀ e ∈ w, e.path.length = 1) (p : Fs.Path) (hp : p ≠ []) :
    uniTree now umask old w p = owTree now umask old w p := by
  apply uniTree_eq_owTree
  unfold impTreeOf
  cases ht : treeOf now umask w p with
  | some x => rfl
  | none =>
    have : w.any (fun e => decide (p <+: e.path)) = false := by
      rw [List.any_eq_false]
      intro e he
      simp only [decide_eq_true_eq]
      intro hpe
      have hl : 0 < p.length := List.length_pos_iff.2 hp
      have heq : p = e.path := hpe.eq_of_length_le (by rw [htop e he]; omega)
      unfold treeOf at ht
      rw [Option.map_eq_none_iff, List.find?_eq_none] at ht
      exact ht e he (by simp [heq])
    simp [this]

/-- the end of the flattening run, read off the invariant -/
theorem final_flat_tree {fs0 : Fs.St} {ds : List Bytes} {all : List Entry} {ab : Bool} {s : Extract.St}
    (hb : BaseRefU fs0 ds) (htop : ∀ e ∈ all, e.path.length = 1) (hF : FinalU fs0 ds all ab s) :
    FlatOutcome s fs0 ds (all, ab) := by
  obtain ⟨h1, h2, h3, h4, h5, h6⟩ := final_u_tree hb hF
  refine ⟨h1, h2, ?_, h4, h5, h6⟩
  intro p hp
  rw [h3 p hp]
  exact uniTree_top _ _ _ _ htop p hp

/-- **no directory below the base** after a flattening run: the written entries are files and
links, the old objects regular files (`BaseU`) -/
theorem flatOutcome_no_dir {r : Extract.St} {fs : Fs.St} {ds : List Bytes} {k : Nat} {pl : List Entry × Bool}
    (h : FlatOutcome r fs ds pl) (hb : BaseU fs ds k) (hnd : ∀ e ∈ pl.1, e.isDir = false)
    (p : Fs.Path) (hp : p ≠ []) (m t : Nat) : Fs.lookup r.fs (fs.cwd ++ ds ++ p) ≠ some (.dir m t) := by
  rw [h.2.2.1 p hp]
  unfold owTree treeOf
  cases hf : pl.1.find? (fun e => e.path == p) with
  | some e =>
    have hd := hnd e (List.mem_of_find?_eq_some hf)
    cases e with
    | dir _ _ _ => cases hd
    | file _ _ _ _ => simp [Entry.final]
    | link _ _ => simp [Entry.final]
  | none =>
    simp only [Option.map_none]
    rcases hb.files p hp with hn | ⟨_, _, d, m', t', hl⟩
    · rw [show oldB fs ds p = none from hn]; simp
    · rw [show oldB fs ds p = some (.file d m' t') from hl]; simp

/-! ## the theorem -/

theorem optsFlat_none (o : Opts) (hx : o.extractPath = none) (hu : o.usePath = false) : OptsFlat o [] :=
  ⟨hu, by simp [pfx, hx, joinDir], fun _ h => (by cases h), by decide⟩

theorem optsFlat_some (o : Opts) (ds : List Bytes) (hne : ds ≠ []) (hx : o.extractPath = some (joinPath ds))
    (hu : o.usePath = false) (hn : ∀ c ∈ ds, Name c) (hl : ds.length < 63) : OptsFlat o ds :=
  ⟨hu, by simp [pfx, hx, joinDir_eq ds hne], hn, hl⟩

theorem flatInvU_start (s : Extract.St) (ds : List Bytes) (es : List Entry) (hs : StartF s ds)
    (hok : ∀ e ∈ es, EntryOk e)
    (hnames : ((es.filter (fun e => selected s.opts.filters e && !e.isDir)).map Entry.namePart).Nodup)
    (hpre : ∀ e ∈ es, selected s.opts.filters e = true → e.isDir = false → PreAtF s.fs ds e)
    (hans : AskedF s.fs ds (selected s.opts.filters) es → s.opts.overwrite = .prompt → OwAnswers s.answers) :
    FlatInvU s.fs ds (selected s.opts.filters) [] es s.opts.overwrite (lines s.answers) s := by
  have hfresh : (([] : List Entry).map Entry.path ++
      (es.filter (fun e => selected s.opts.filters e && !e.isDir)).map (fun e => [e.namePart])).Nodup := by
    simp only [List.map_nil, List.nil_append]
    unfold List.Nodup at hnames ⊢
    rw [List.pairwise_map] at hnames ⊢
    exact hnames.imp (fun h e => h (by simpa using e))
  exact ⟨hs.aborted, hs.result, hs.opts, fun _ => rfl, rfl, fun ha => ⟨rfl, fun h => (hans ha h).2⟩,
    Or.inl ⟨rfl, rfl, rfl⟩,
    ⟨fun e he => (by cases he), List.nodup_nil, fun d hd => (by cases hd), fun d hd => (by cases hd),
      List.Pairwise.nil⟩,
    fun a ha => (by cases ha), hok, hfresh, hpre⟩

theorem flatSel_top {sel : Entry → Bool} {es : List Entry} : ∀ x ∈ flatSel sel es, x.path.length = 1 := by
  intro x hx
  obtain ⟨e, _, _, hd, rfl⟩ := flatSel_mem hx
  rw [flat_path e hd]; rfl

/-- **C06, `i` with all the other deviations — at the level of the loop.** -/
theorem extract_tree_flat_unified (fuel : Nat) (s : Extract.St) (ds : List Bytes) (k : Nat) (es : List Entry)
    (hs : StartF s ds) (hb : BaseU s.fs ds k) (ha : AccessW s.fs) (hok : ∀ e ∈ es, EntryOk e)
    (hnames : ((es.filter (fun e => selected s.opts.filters e && !e.isDir)).map Entry.namePart).Nodup)
    (hpre : ∀ e ∈ es, selected s.opts.filters e = true → e.isDir = false → PreAtF s.fs ds e)
    (hans : AskedF s.fs ds (selected s.opts.filters) es → s.opts.overwrite = .prompt → OwAnswers s.answers)
    (hfuel : es.length + 1 ≤ fuel) (hden : DenotesF fuel s es) :
    FlatOutcome (extractLoop fuel s) s.fs ds (flatPlan s.fs ds s.opts s.answers es) := by
  have hbr := baseRefU_of hb ha
  have hrd : RdInv s.rd [] es :=
    ⟨hs.policy, hs.deferred, by rw [hs.stack]; trivial, Or.inl hs.ty, fun h => by rw [hs.ty] at h; cases h⟩
  have hF := loop_flat_u s.fs ds (selected s.opts.filters) hbr fuel s [] es s.opts.overwrite
    (lines s.answers) hfuel (flatInvU_start s ds es hs hok hnames hpre hans) hrd hden
  simp only [List.nil_append] at hF
  exact final_flat_tree hbr
    (fun x hx => flatSel_top x ((plan_sublist _ _ _ _).subset hx)) hF

/-- **C06 — option `i` together with wildcards, `w=DIR`, pre-existing files and the overwrite
policy**, for `lha xi[fq][w=DIR] archive [patterns]`. -/
theorem run_tree_flat_unified (archive : Array UInt8) (o : Opts) (fs : Fs.St) (answers : Bytes)
    (ds : List Bytes) (k : Nat) (es : List Entry)
    (ho : OptsFlat o ds) (hb : BaseU fs ds k) (ha : AccessW fs) (hok : ∀ e ∈ es, EntryOk e)
    (hnames : ((es.filter (fun e => selected o.filters e && !e.isDir)).map Entry.namePart).Nodup)
    (hpre : ∀ e ∈ es, selected o.filters e = true → e.isDir = false → PreAtF fs ds e)
    (hans : AskedF fs ds (selected o.filters) es → o.overwrite = .prompt → OwAnswers answers)
    (hfuel : es.length + 1 ≤ runFuel archive)
    (hden : DenotesF (runFuel archive) (runInit archive o fs answers) es) :
    FlatOutcome (run archive o fs answers) fs ds (flatPlan fs ds o answers es) ∧
    MadeFrom fs (mkBase fs ds) (ds.take k) (ds.drop k) := by
  rw [run_eq]
  exact ⟨extract_tree_flat_unified (runFuel archive) (runInit archive o fs answers) ds k es
    ⟨rfl, rfl, ho, rfl, rfl, rfl, rfl⟩ hb ha hok hnames hpre hans hfuel hden,
    (base_factsU hb ha).made⟩

end LhasaV.ExtractTree
