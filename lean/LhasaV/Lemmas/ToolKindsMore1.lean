import LhasaV.Lemmas.ToolKinds
/-!
# C16 at tool level, more (part 1): which prefixes the self-extractor scan passes over

`BRel.Init.hdr`, the only place where the tool-level simulation of `ToolKinds` looks at the prefix, asks for

    firstHeader (P ++ A) = (firstHeader A).map (· + |P|)            (`PrefixShifts P A`)

— the scan of `P ++ A` answers what the scan of `A` answers, `|P|` bytes later.  This file is about that
hypothesis, on byte lists only:

* `shifts_of_clean` (hypothesis of C16 `prefix_transparent`), `shifts_of_decoy` (hypotheses of C16
  `decoy_skipped`: stub + marker + the one decoy signature it announces), each with `FirstInReach`;
* **`firstHeader_of_scan` / `shifts_of_scan`**: an ARBITRARY prefix, judged by the scan of `P` ALONE:
  `firstHeader P = none` (no examined offset of `P` answers), `pendingDecoy P = 0` (no marker is still
  waiting for its decoy), and the last 12 offsets of `P` — those the scan of `P` alone does not examine,
  where a match can straddle the boundary — carry neither signature nor marker in `P ++ A`;
* **`shifts_iff_scan`**: for an archive starting with a header the first two are also NECESSARY
  (`scan_of_found`): `PrefixShifts P A ↔ firstHeader P = none ∧ pendingDecoy P = 0`;
* `pendingDecoy_of_no_marker`, `scan_of_decoy`: the two ways to get the first two from the bytes of `P`;
* `tail_clean_of_bytes`: the third from bytes: none of the last 12 bytes of `P` is `-` or `L`, and `A`
  starts with a header (or with two bytes other than `-`).
-/
set_option linter.unusedSimpArgs false
namespace LhasaV.ToolKinds
open LhasaV LhasaV.Stream

/-- the self-extractor scan passes over `P` in front of `A`: on `P ++ A` it answers what it answers on
`A`, shifted by `|P|` (exactly the field `hdr` of `BRel.Init`) -/
def PrefixShifts (P A : List UInt8) : Prop :=
  firstHeader (P ++ A) = (firstHeader A).map (· + P.length)

theorem shifts_nil (A : List UInt8) : PrefixShifts [] A := by
  unfold PrefixShifts
  rw [List.nil_append]
  cases firstHeader A <;> rfl

/-- from the limit-carrying form of StreamProps (`firstHeader_append`, `_prefix`, `_decoy`) -/
theorem shifts_of_lim {P A : List UInt8}
    (h : firstHeader (P ++ A) = (firstHeaderLim (scanLimit - P.length) A).map (· + P.length))
    (hreach : FirstInReach P A) : PrefixShifts P A := by
  unfold PrefixShifts
  rw [h, hreach]

/-- a prefix without signature or marker (C16 `prefix_transparent`) -/
theorem shifts_of_clean {P A : List UInt8}
    (hclean : ∀ j, j < P.length → ¬ sigAt (P ++ A) j ∧ ¬ markAt (P ++ A) j)
    (hreach : FirstInReach P A) : PrefixShifts P A :=
  shifts_of_lim (firstHeader_prefix P A hclean) hreach

/-- stub + marker + the decoy signature it announces (C16 `decoy_skipped`) -/
theorem shifts_of_decoy {P A : List UInt8} (m d : Nat) (hmd : m < d) (hd : d < P.length)
    (hmark : markAt (P ++ A) m) (hsig : sigAt (P ++ A) d)
    (hnosig : ∀ j, j < P.length → j ≠ d → ¬ sigAt (P ++ A) j)
    (hnomark : ∀ j, m < j → j < P.length → ¬ markAt (P ++ A) j)
    (hreach : FirstInReach P A) : PrefixShifts P A :=
  shifts_of_lim (firstHeader_decoy P A m d hmd hd hmark hsig hnosig hnomark) hreach

/-! ## an arbitrary prefix, judged by the scan of the prefix alone -/

theorem sigAt_append_left (P A : List UInt8) (j : Nat) (h : j + 7 ≤ P.length) :
    sigAt (P ++ A) j ↔ sigAt P j := by
  have := sigAt_take (P ++ A) P.length j h
  rw [List.take_left' rfl] at this
  exact this.symm

theorem markAt_append_left (P A : List UInt8) (j : Nat) (h : j + 12 ≤ P.length) :
    markAt (P ++ A) j ↔ markAt P j := by
  have := markAt_take (P ++ A) P.length j h
  rw [List.take_left' rfl] at this
  exact this.symm

/-- the scan of the first `k` offsets of `P ++ A` is the scan of `P` as long as the 12 bytes of every
examined offset lie inside `P` -/
theorem scan_left (P A : List UInt8) (k : Nat) (hk : k + 11 ≤ P.length) :
    firstFrom (P ++ A) k 0 0 = firstFrom P k 0 0 ∧ ctrAfter (P ++ A) k 0 0 = ctrAfter P k 0 0 := by
  have := firstFrom_shift (P ++ A) P 0 k 0 0
    (fun j _ hj => ⟨sigAt_append_left P A j (by omega), markAt_append_left P A j (by omega)⟩)
  refine ⟨?_, this.2⟩
  rw [show (0 : Nat) + 0 = 0 from rfl] at this
  rw [this.1]
  cases firstFrom P k 0 0 <;> rfl

/-- the decoy counter the scan of `P` ALONE ends with: 1 iff a marker was seen and the decoy signature it
announces has not come yet (the NEXT signature would be skipped) -/
def pendingDecoy (P : List UInt8) : Nat := ctrAfter P (min (P.length - 12) scanLimit) 0 0

/-- the scan over ALL offsets of `P` inside `P ++ A` is the scan of `P` alone (which stops 12 offsets
earlier) when the last 12 offsets carry no signature and no marker -/
theorem scan_prefix (P A : List UInt8)
    (htail : ∀ j, P.length - 12 ≤ j → j < P.length → ¬ sigAt (P ++ A) j ∧ ¬ markAt (P ++ A) j) :
    firstFrom (P ++ A) P.length 0 0 = firstFrom P (P.length - 12) 0 0 ∧
    ctrAfter (P ++ A) P.length 0 0 = ctrAfter P (P.length - 12) 0 0 := by
  by_cases h12 : 12 ≤ P.length
  · obtain ⟨q, hq⟩ : ∃ q, P.length = q + 12 := ⟨P.length - 12, by omega⟩
    obtain ⟨e1, e2⟩ := scan_left P A q (by omega)
    have st := fun sf => seg_clean (P ++ A) 12 (0 + q) sf
      (fun j hj hj' => htail j (by omega) (by omega))
    rw [hq, Nat.add_sub_cancel]
    constructor
    · rw [firstFrom_add, e1]
      cases firstFrom P q 0 0 with
      | some j => rfl
      | none => exact (st _).1
    · rw [ctrAfter_add, e2]
      exact (st _).2
  · have st := seg_clean (P ++ A) P.length 0 0 (fun j _ hj' => htail j (by omega) (by omega))
    rw [show P.length - 12 = 0 by omega]
    exact ⟨st.1, st.2⟩

/-- **An arbitrary prefix.**  The scan of `P` alone finds nothing and leaves no decoy pending, and the last
12 offsets of `P` (not examined by the scan of `P` alone: a match there may straddle the boundary) carry
no signature and no marker in `P ++ A`: the scan of `P ++ A` is the scan of `A`, shifted, under the limit
that is left.  No hypothesis on the length of `P`. -/
theorem firstHeader_of_scan (P A : List UInt8)
    (hnone : firstHeader P = none) (hctr : pendingDecoy P = 0)
    (htail : ∀ j, P.length - 12 ≤ j → j < P.length → ¬ sigAt (P ++ A) j ∧ ¬ markAt (P ++ A) j) :
    firstHeader (P ++ A) = (firstHeaderLim (scanLimit - P.length) A).map (· + P.length) := by
  unfold firstHeader firstHeaderLim at hnone
  unfold pendingDecoy at hctr
  by_cases hlen : P.length - 12 ≤ scanLimit
  · -- the scan of `P` alone examined every offset below `|P| - 12`
    rw [Nat.min_eq_left hlen] at hnone hctr
    obtain ⟨e1, e2⟩ := scan_prefix P A htail
    exact firstHeader_append P A (e1.trans hnone) (e2.trans hctr)
  · -- `P` alone exhausts the scan limit: nothing is found in `P ++ A` either
    have hL : scanLimit + 12 < P.length := by omega
    rw [Nat.min_eq_right (by omega)] at hnone
    unfold firstHeader firstHeaderLim
    rw [show min (A.length - 12) (scanLimit - P.length) = 0 by omega]
    have hk : min ((P ++ A).length - 12) scanLimit ≤ scanLimit := Nat.min_le_right _ _
    rw [(scan_left P A _ (by omega)).1, firstFrom_none_of_le P 0 0 hk hnone]
    rfl

/-- … so, with the first header of `A` in reach, the prefix is transparent -/
theorem shifts_of_scan {P A : List UInt8}
    (hnone : firstHeader P = none) (hctr : pendingDecoy P = 0)
    (htail : ∀ j, P.length - 12 ≤ j → j < P.length → ¬ sigAt (P ++ A) j ∧ ¬ markAt (P ++ A) j)
    (hreach : FirstInReach P A) : PrefixShifts P A :=
  shifts_of_lim (firstHeader_of_scan P A hnone hctr htail) hreach

theorem firstHeader_zero {A : List UInt8} (hsig : sigAt A 0) (hlen : 12 < A.length) : firstHeader A = some 0 := by
  have := firstHeader_prefix_zero [] A (fun j hj => by cases hj) hsig hlen (by decide)
  simpa using this

/-- the converse: if the archive's first header is found right behind `P`, the scan of `P` alone found
nothing and left no decoy pending -/
theorem scan_of_found {P A : List UInt8}
    (htail : ∀ j, P.length - 12 ≤ j → j < P.length → ¬ sigAt (P ++ A) j ∧ ¬ markAt (P ++ A) j)
    (hlen : P.length < scanLimit) (h : firstHeader (P ++ A) = some P.length) :
    firstHeader P = none ∧ pendingDecoy P = 0 := by
  obtain ⟨_, hK, _⟩ := firstFrom_some _ _ _ _ _ h
  unfold firstHeader firstHeaderLim at h ⊢
  unfold pendingDecoy
  rw [Nat.min_eq_left (by omega)]
  obtain ⟨e1, e2⟩ := scan_prefix P A htail
  rw [← e1, ← e2]
  obtain ⟨k, hk⟩ : ∃ k, min ((P ++ A).length - 12) scanLimit = P.length + (k + 1) :=
    ⟨min ((P ++ A).length - 12) scanLimit - P.length - 1, by omega⟩
  rw [hk, firstFrom_add] at h
  cases hF : firstFrom (P ++ A) P.length 0 0 with
  | some j =>
    rw [hF] at h
    have := firstFrom_some _ _ _ _ _ hF
    cases h; omega
  | none =>
    rw [hF] at h
    simp only [firstFrom] at h
    split at h
    · rename_i hc; exact ⟨rfl, hc.2⟩
    · have := firstFrom_some _ _ _ _ _ h
      omega

/-- **The hypothesis characterised.**  For an archive that starts with a header, behind a prefix shorter than
the scan limit whose last 12 offsets carry no straddling match: the scan passes over `P` in front of `A`
IF AND ONLY IF the scan of `P` alone finds nothing and leaves no decoy pending. -/
theorem shifts_iff_scan {P A : List UInt8}
    (htail : ∀ j, P.length - 12 ≤ j → j < P.length → ¬ sigAt (P ++ A) j ∧ ¬ markAt (P ++ A) j)
    (hsig : sigAt A 0) (hA : 12 < A.length) (hlen : P.length < scanLimit) :
    PrefixShifts P A ↔ (firstHeader P = none ∧ pendingDecoy P = 0) := by
  constructor
  · intro h
    unfold PrefixShifts at h
    rw [firstHeader_zero hsig hA] at h
    exact scan_of_found htail hlen (by simpa using h)
  · intro h
    exact shifts_of_scan h.1 h.2 htail (firstInReach_zero hsig hA hlen)

/-! ### the hypotheses from the bytes of `P` -/

theorem ctr_zero_no_marker (bs : List UInt8) : ∀ (k i : Nat),
    (∀ j, i ≤ j → j < i + k → ¬ markAt bs j) → ctrAfter bs k i 0 = 0 := by
  intro k
  induction k with
  | zero => intro i _; rfl
  | succ k ih =>
    intro i h
    have e : stepCtr bs i 0 = 0 := by
      simp only [stepCtr, if_neg (h i (Nat.le_refl _) (by omega))]
      split <;> rfl
    simp only [ctrAfter, e]
    exact ih (i + 1) (fun j hj hj' => h j (by omega) (by omega))

/-- without a marker among its examined offsets a prefix leaves no decoy pending -/
theorem pendingDecoy_of_no_marker (P : List UInt8)
    (h : ∀ j, j + 12 < P.length → j < scanLimit → ¬ markAt P j) : pendingDecoy P = 0 :=
  ctr_zero_no_marker P _ 0 (fun j _ hj => h j (by omega) (by omega))

/-- stub + marker + decoy, judged on `P` alone: a marker at `m`, after it exactly one examined signature —
at `d` —, no further marker: nothing is found and nothing is pending -/
theorem scan_of_decoy (P : List UInt8) (m d : Nat) (hmd : m < d) (hd : d + 12 < P.length)
    (hlim : d < scanLimit) (hmark : markAt P m) (hsig : sigAt P d)
    (hnosig : ∀ j, j + 12 < P.length → j ≠ d → ¬ sigAt P j)
    (hnomark : ∀ j, m < j → j + 12 < P.length → ¬ markAt P j) :
    firstHeader P = none ∧ pendingDecoy P = 0 :=
  decoy_segment P (min (P.length - 12) scanLimit) m d hmd (by omega) hmark hsig
    (fun j hj hne => hnosig j (by omega) hne) (fun j hj hj' => hnomark j hj (by omega))

theorem getD_append_left (P A : List UInt8) (j : Nat) (h : j < P.length) : (P ++ A).getD j 0 = P.getD j 0 := by
  simp only [List.getD_eq_getElem?_getD, List.getElem?_append_left h]

theorem getD_append_right (P A : List UInt8) (j : Nat) : (P ++ A).getD (P.length + j) 0 = A.getD j 0 := by
  simp only [List.getD_eq_getElem?_getD]
  rw [List.getElem?_append_right (by omega), Nat.add_sub_cancel_left]

/-- both marker strings begin with `L` -/
theorem markAt_first (bs : List UInt8) (i : Nat) (h : markAt bs i) : bs.getD i 0 = chr 'L' := by
  have e : ∀ (n : Nat) (x : List UInt8), (bs.drop i).take n = x → 0 < n → bs.getD i 0 = x.getD 0 0 := by
    intro n x hx hn
    rw [← hx]
    simp only [List.getD_eq_getElem?_getD, List.getElem?_take, List.getElem?_drop, if_pos hn, Nat.add_zero]
  rcases h with h | h
  · rw [e 7 _ h (by omega)]; decide
  · rw [e 12 _ h (by omega)]; decide

/-- **the straddling offsets, from bytes**: none of the last 12 bytes of `P` is `-` or `L`, and `A` starts
with a header (or its first two bytes are not `-`) -/
theorem tail_clean_of_bytes (P A : List UInt8)
    (hP : ∀ j, P.length - 12 ≤ j → j < P.length → P.getD j 0 ≠ chr '-' ∧ P.getD j 0 ≠ chr 'L')
    (hA : sigAt A 0 ∨ (A.getD 0 0 ≠ chr '-' ∧ A.getD 1 0 ≠ chr '-')) :
    ∀ j, P.length - 12 ≤ j → j < P.length → ¬ sigAt (P ++ A) j ∧ ¬ markAt (P ++ A) j := by
  intro j hj hj'
  constructor
  · intro hs
    by_cases h2 : j + 2 < P.length
    · have := hs.1
      rw [getD_append_left P A _ h2] at this
      exact (hP (j + 2) (by omega) h2).1 this
    · by_cases h3 : j + 2 = P.length
      · -- bytes j+2, j+3, j+4 are A[0], A[1], A[2]
        have b0 : A.getD 0 0 = chr '-' := by
          have := hs.1; rw [h3] at this
          rw [← getD_append_right P A 0]; exact this
        have b2 : A.getD 2 0 = chr 'h' ∨ A.getD 2 0 = chr 'z' ∨ A.getD 2 0 = chr 'm' := by
          have e : (P ++ A).getD (j + 4) 0 = A.getD 2 0 := by
            rw [show j + 4 = P.length + 2 by omega]; exact getD_append_right P A 2
          rw [← e]
          rcases hs.2.2 with h | h | h
          · exact Or.inl h.2
          · exact Or.inr (Or.inl h.2.1)
          · exact Or.inr (Or.inr h.2.1)
        rcases hA with hA | hA
        · have a2 : A.getD 2 0 = chr '-' := hA.1
          rw [a2] at b2
          revert b2; decide
        · exact hA.1 b0
      · -- j + 2 = |P| + 1: bytes j+2, j+3 are A[1], A[2]
        have h4 : j + 2 = P.length + 1 := by omega
        have b1 : A.getD 1 0 = chr '-' := by
          have := hs.1; rw [h4] at this
          rw [← getD_append_right P A 1]; exact this
        have b2 : A.getD 2 0 = chr 'l' ∨ A.getD 2 0 = chr 'p' := by
          have e : (P ++ A).getD (j + 3) 0 = A.getD 2 0 := by
            rw [show j + 3 = P.length + 2 by omega]; exact getD_append_right P A 2
          rw [← e]
          rcases hs.2.2 with h | h | h
          · exact Or.inl h.1
          · exact Or.inl h.1
          · exact Or.inr h.1
        rcases hA with hA | hA
        · have a2 : A.getD 2 0 = chr '-' := hA.1
          rw [a2] at b2
          revert b2; decide
        · exact hA.2 b1
  · intro hm
    have := markAt_first _ _ hm
    rw [getD_append_left P A _ hj'] at this
    exact (hP j hj hj').2 this

end LhasaV.ToolKinds
