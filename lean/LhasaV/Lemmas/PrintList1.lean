import LhasaV.Lemmas.ExtractTreeOpt12
/-!
# C06 / C19, `lha p` and `lha l` on archive bytes (part 1): the reader walk WITHOUT extraction

`lha p`, `lha l`, `lha v` never call `lha_reader_extract`: no directory is pushed, no symbolic
link deferred, so `lha_reader_next_file` presents exactly the stream's headers and then the end.

* `next_plain`: with an empty directory stack and an empty deferred list `next` leaves both empty
  and presents the basic reader's header (`.normal`) or the end (`.eof`);
* `Walk pk A es rd`: the reader stands in `archiveWith pk es`-like bytes `A` before the members
  `es` (the invariant `RState` of ArchiveOf7 plus the two empty lists);
* `walk_nil` / `walk_cons`: one `lha_reader_next_file` from such a state — the end for `[]`, else
  the header `hdrOf pk e` of the first entry, leaving a state `Shown`;
* `Shown.skip`: not reading the member (`lha l`; `lha p` on a directory, a link, a member no
  pattern selects) leaves a `Walk` state for the remaining entries.
-/
set_option linter.unusedSimpArgs false
namespace LhasaV.PrintList
open LhasaV LhasaV.Header LhasaV.Extract LhasaV.ExtractTree LhasaV.ArchiveOf LhasaV.Reader
open LhasaV.ReaderIndep

/-! ## `next` when nothing was ever extracted -/

theorem nextAdv_lists {s s1 : Reader.St} (e : nextAdv s = .ok s1) :
    s1.dirStack = s.dirStack ∧ s1.deferred = s.deferred := by
  unfold nextAdv at e
  split at e
  · split at e
    · cases e; exact ⟨rfl, rfl⟩
    · cases e
    · cases e
  · cases e; exact ⟨rfl, rfl⟩

theorem nextUnref_lists (s : Reader.St) :
    (nextUnref s).dirStack = s.dirStack ∧ (nextUnref s).deferred = s.deferred := by
  unfold nextUnref
  split
  · split <;> exact ⟨rfl, rfl⟩
  · exact ⟨rfl, rfl⟩

/-- the last two phases of `next` with an empty directory stack and no deferred link -/
theorem tail_plain (u : Reader.St) (hds : u.dirStack = []) (hdf : u.deferred = []) :
    (nextDeferred (nextPop u)).dirStack = [] ∧ (nextDeferred (nextPop u)).deferred = [] ∧
    (nextDeferred (nextPop u)).curr = u.basic.curr ∧
    (nextDeferred (nextPop u)).currType = (if u.basic.curr.isSome then .normal else .eof) := by
  have he : endOfTopDir u = false := by unfold endOfTopDir; rw [hds]
  cases hb : u.basic.curr with
  | some c => simp [nextPop, he, nextDeferred, hb, hds, hdf]
  | none => simp [nextPop, he, nextDeferred, hb, hds, hdf]

/-- **`lha_reader_next_file` when nothing was extracted**: the lists stay empty, and what is
presented is the basic reader's header, or the end -/
theorem next_plain {rd rd' : Reader.St} {oc : Option HObj} (hds : rd.dirStack = [])
    (hdf : rd.deferred = []) (hne : rd.currType ≠ .eof) (e : Reader.next rd = .ok (oc, rd')) :
    rd'.dirStack = [] ∧ rd'.deferred = [] ∧ rd'.curr = rd'.basic.curr ∧
    rd'.currType = (if rd'.basic.curr.isSome then .normal else .eof) := by
  have hf := closeDecoder_frame rd
  have he : ((closeDecoder rd).currType == CurrType.eof) = false := by
    rw [hf.currType]; simpa using hne
  rw [next_eq, he] at e
  simp only [Bool.false_eq_true, if_false] at e
  cases h1 : nextAdv (closeDecoder rd) with
  | error w => rw [h1] at e; cases e
  | ok s1 =>
    rw [h1] at e
    have e' : (oc, rd') = ((nextDeferred (nextPop (nextUnref s1))).curr,
        nextDeferred (nextPop (nextUnref s1))) := by
      have : (Except.ok ((nextDeferred (nextPop (nextUnref s1))).curr,
          nextDeferred (nextPop (nextUnref s1))) : Except String _) = .ok (oc, rd') := e
      cases this; rfl
    obtain ⟨a1, a2⟩ := nextAdv_lists h1
    obtain ⟨b1, b2⟩ := nextUnref_lists s1
    have hds' : (nextUnref s1).dirStack = [] := by rw [b1, a1, hf.dirStack, hds]
    have hdf' : (nextUnref s1).deferred = [] := by rw [b2, a2, hf.deferred, hdf]
    obtain ⟨t1, t2, t3, t4⟩ := tail_plain (nextUnref s1) hds' hdf'
    have hb : (nextDeferred (nextPop (nextUnref s1))).basic = (nextUnref s1).basic :=
      (tail_shape (nextUnref s1)).2.1
    cases e'
    exact ⟨t1, t2, by rw [t3, hb], by rw [t4, hb]⟩

/-! ## the walk -/

/-- the reader stands before the members `es` and never extracted anything -/
structure Walk (pk : Packer) (A : Array UInt8) (es : List Entry) (rd : Reader.St) : Prop where
  good : Good rd
  rs : RState pk A es rd
  live : rd.currType ≠ .eof
  ds : rd.dirStack = []
  df : rd.deferred = []

/-- `lha_reader_next_file` has just presented the header of the first entry `e` -/
structure Shown (pk : Packer) (A : Array UInt8) (e : Entry) (tl : List Entry) (c : HObj)
    (rd : Reader.St) : Prop where
  good : Good rd
  hdr : c.h = hdrOf pk e
  curr : rd.curr = some c
  same : rd.curr = rd.basic.curr
  normal : rd.currType = .normal
  dec : rd.dec = none
  got : Got pk A (e :: tl) rd.basic
  ds : rd.dirStack = []
  df : rd.deferred = []

/-- at the end of the members the walk ends -/
theorem walk_nil {pk : Packer} {A : Array UInt8} {rd : Reader.St} (h : Walk pk A [] rd) :
    ∃ rd', Reader.next rd = .ok (none, rd') := by
  obtain ⟨oc, rd', hn, hoc, _, hgot, _⟩ := next_step pk A [] rd (fun _ h => by cases h) h.good h.rs h.live
  obtain ⟨_, _, p3, _⟩ := next_plain h.ds h.df h.live hn
  refine ⟨rd', ?_⟩
  rw [hn, hoc, p3, hgot.2.1]

/-- **one `lha_reader_next_file` before the members `e :: tl`** presents the header `hdrOf pk e` -/
theorem walk_cons {pk : Packer} {A : Array UInt8} {e : Entry} {tl : List Entry} {rd : Reader.St}
    (hok : AllOk pk (e :: tl)) (h : Walk pk A (e :: tl) rd) :
    ∃ c rd', Reader.next rd = .ok (some c, rd') ∧ Shown pk A e tl c rd' := by
  obtain ⟨oc, rd', hn, hoc, hd, hgot, _⟩ := next_step pk A (e :: tl) rd hok h.good h.rs h.live
  obtain ⟨p1, p2, p3, p4⟩ := next_plain h.ds h.df h.live hn
  have hgot0 := hgot
  obtain ⟨_, ⟨id, hid⟩, _⟩ := hgot0
  refine ⟨⟨id, hdrOf pk e⟩, rd', ?_, ?_⟩
  · rw [hn, hoc, p3, hid]
  · exact ⟨next_good h.good hn, rfl, by rw [p3, hid], p3, by rw [p4, hid]; rfl, hd, hgot, p1, p2⟩

/-- **the member is not read** (a listing; a directory, a link or a member that no pattern
selects under `lha p`): the reader stands before the remaining members -/
theorem Shown.skip {pk : Packer} {A : Array UInt8} {e : Entry} {tl : List Entry} {c : HObj}
    {rd : Reader.St} (h : Shown pk A e tl c rd) : Walk pk A tl rd := by
  refine ⟨h.good, ?_, by rw [h.normal]; decide, h.ds, h.df⟩
  have := after_skip pk A (e :: tl) rd h.dec h.got
    (Or.inr (Or.inl ⟨h.normal, h.same, by rw [h.curr]; exact fun x => by cases x⟩))
  simpa [h.normal] using this

/-- the reader `lha` opens on the archive bytes stands before all the members -/
theorem walk_init (pk : Packer) (es : List Entry) :
    Walk pk (archiveWith pk es) es
      { basic := { stream := { kind := .seekable, data := archiveWith pk es } },
        mktime := Header.dosTimeUTC } :=
  ⟨good_fresh { kind := .seekable, data := archiveWith pk es } .endOfDir Header.dosTimeUTC (by simp),
    ⟨rfl, rfl, rfl, rfl, rfl, rfl, rfl, rfl⟩, (fun h => by cases h), rfl, rfl⟩

end LhasaV.PrintList
