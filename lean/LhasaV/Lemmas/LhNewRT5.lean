import LhasaV.Lemmas.LhNewRT4
/-!
Round trip of the `lh_new_decoder.c` model, part 5: one command (layer 6).
-/
namespace LhasaV.LhNewRT
open LhasaV LhasaV.Spec LhasaV.Spec.LhNewEnc LhasaV.Spec.Lz77 LhasaV.LzRoundTrip LhasaV.LhNewCmd

theorem cmdWf_copy (f : Fmt) (ct ot : Table) (d n : Nat) (alt : Bool)
    (h : cmdWf f ct ot (.copy d n alt) = true) :
    3 ≤ n ∧ n ≤ (if f.lhark then 514 else 256) ∧ (alt = true → f.lhark = true ∧ n = 514) ∧
    d < f.ringSize ∧ ct.has (lenCode f n alt).1 = true ∧ ot.has (offCode f d).1 = true := by
  simp only [cmdWf, Bool.and_eq_true, decide_eq_true_eq] at h
  obtain ⟨⟨⟨⟨⟨⟨h1, h2⟩, h3⟩, h4⟩, h5⟩, h6⟩, -⟩ := h
  refine ⟨h1, h2, ?_, h4, h5, h6⟩
  intro ha
  subst ha
  simpa using h3

/-- the copy count: plain `code − 256 + THRESHOLD`, or `lhark_decode_copy_count` -/
theorem copyCount_spec (p : LhNew.Params) (hp : RTParams p) (n : Nat) (alt : Bool) (r : Bits)
    (rest : List Bool) (hn3 : 3 ≤ n) (hn : n ≤ (if p.lhark then 514 else 256))
    (halt : alt = true → p.lhark = true ∧ n = 514) (hi : Bits.Inv r)
    (hs : Bits.stream r = (lenCode (fmtOf p) n alt).2 ++ rest) :
    256 ≤ (lenCode (fmtOf p) n alt).1 ∧
    ∃ r', (if p.lhark then LhNew.lharkCopyCount p r (lenCode (fmtOf p) n alt).1
           else (some ((lenCode (fmtOf p) n alt).1 - 256 + p.copyThreshold), r)) = (some n, r') ∧
      Bits.Inv r' ∧ Bits.stream r' = rest := by
  cases hl : p.lhark with
  | true =>
    have hf : (fmtOf p).lhark = true := hl
    rw [hl] at hn
    simp only [if_true] at hn ⊢
    obtain ⟨r', g1, g2, g3⟩ := lharkCopyCount_lenCode p (fmtOf p) hf hp.thr n alt hn3 hn
      (fun ha => (halt ha).2) r hi rest hs
    exact ⟨(lenCode_lhark_range (fmtOf p) hf n alt hn3 hn).1, r', g1, g2, g3⟩
  | false =>
    have hf : (fmtOf p).lhark = false := hl
    rw [hl] at hn
    simp only [Bool.false_eq_true, if_false] at hn ⊢
    obtain ⟨e1, e2, e3, -⟩ := lenCode_plain (fmtOf p) hf n alt hn3 hn
    refine ⟨e3, r, ?_, hi, ?_⟩
    · rw [hp.thr, e2]
    · rw [e1] at hs
      simpa using hs

/-- **Layer 6a**: a literal -/
theorem readK_lit (p : LhNew.Params) (ct ot : Table) (b : UInt8) (s : LhNew.St)
    (out : List UInt8) (rest : List Bool) (k : Nat) (hB : BlkInv p s ct ot out)
    (hc : ct.has b.toNat = true) (hrem : s.blockRemaining = k + 1)
    (hs : Bits.stream s.bits = ct.word b.toNat ++ rest) :
    ∃ s', readK p (true, s) = .ok ([b], s') ∧ BlkInv p s' ct ot (out ++ [b]) ∧
      s'.blockRemaining = k ∧ Bits.stream s'.bits = rest := by
  obtain ⟨⟨hinv, hwin, htsz, hcsz, hosz⟩, hct, hot⟩ := hB
  obtain ⟨r', g1, g2, g3⟩ := hct b.toNat hc s.bits rest hinv hs
  have hpos : s.pos < s.ring.size := Nat.lt_of_lt_of_le hwin.2.1 hwin.1
  have hlt : b.toNat < 256 := b.toNat_lt
  refine ⟨{ s with blockRemaining := s.blockRemaining - 1, bits := r',
                   ring := s.ring.setIfInBounds s.pos b, pos := (s.pos + 1) % p.ringSize },
    ?_, ⟨⟨g2, winRel_lit _ _ _ _ _ b hwin, htsz, hcsz, hosz⟩, hct, hot⟩, by simp [hrem], g3⟩
  unfold readK
  simp only [Bool.not_true, Bool.false_eq_true, if_false, g1, Res.ok_bind, hlt, if_true, hpos,
    UInt8.ofNat_toNat]

/-- **Layer 6b**: a copy -/
theorem readK_copy (p : LhNew.Params) (hp : RTParams p) (ct ot : Table) (d n : Nat) (alt : Bool)
    (s : LhNew.St) (out : List UInt8) (rest : List Bool) (k : Nat) (hB : BlkInv p s ct ot out)
    (hc : cmdWf (fmtOf p) ct ot (.copy d n alt) = true) (hrem : s.blockRemaining = k + 1)
    (hs : Bits.stream s.bits = cmdBits (fmtOf p) ct ot (.copy d n alt) ++ rest) :
    ∃ s' new, readK p (true, s) = .ok (new, s') ∧ new.length = n ∧
      copyWin 0x20 n d out = out ++ new ∧ BlkInv p s' ct ot (out ++ new) ∧
      s'.blockRemaining = k ∧ Bits.stream s'.bits = rest := by
  obtain ⟨⟨hinv, hwin, htsz, hcsz, hosz⟩, hct, hot⟩ := hB
  obtain ⟨w1, w2, w3, w4, w5, w6⟩ := cmdWf_copy _ ct ot d n alt hc
  have w4' : d < p.ringSize := w4
  have hd20 : d < 2 ^ 20 := by have := hp.ringLe; omega
  simp only [cmdBits, List.append_assoc] at hs
  obtain ⟨r1, a1, a2, a3⟩ := hct _ w5 s.bits _ hinv hs
  obtain ⟨hge, r2, b1, b2, b3⟩ := copyCount_spec p hp n alt r1 _ w1 w2 w3 a2 a3
  obtain ⟨r3, c1, c2, c3⟩ := hot _ w6 r2 _ b2 b3
  obtain ⟨r4, e1, e2, e3⟩ := offTail_offCode p (fmtOf p) rfl d hd20 r3 c2 rest c3
  obtain ⟨ring', pos', new, f1, f2, f3, f4⟩ := copyLoop_win_start p.ringSize 0x20 n d w4'
    hp.ringDvd s.ring s.pos out [] hwin
  have hoff : LhNew.readOffsetCode p
      { s with blockRemaining := s.blockRemaining - 1, bits := r2 } = .ok (some (d : Int), r4) := by
    rw [readOffsetCode_eq]
    simp only [c1, Res.ok_bind]
    exact e1
  have hnlt : ¬ (lenCode (fmtOf p) n alt).1 < 256 := by omega
  have hneg : ¬ ((d : Int) < 0) := by omega
  refine ⟨{ s with blockRemaining := s.blockRemaining - 1, bits := r4, ring := ring',
                   pos := pos' }, new, ?_, f2, f3,
    ⟨⟨e2, f4, htsz, hcsz, hosz⟩, hct, hot⟩, by simp [hrem], e3⟩
  unfold readK
  simp only [Bool.not_true, Bool.false_eq_true, if_false, a1, Res.ok_bind, hnlt, b1,
    hoff, hneg, Int.toNat_natCast, f1]
  simp

end LhasaV.LhNewRT
