import LhasaV.Lemmas.PrintList3
import LhasaV.Lemmas.PrintList4
/-!
# C06 / C19: `lha p` and `lha l`/`lha v` end to end on archive BYTES

For every list `es` of clean, encodable entries (`EntryOk`, `Encodable`; e.g. every well-formed
tree) and every packer `pk` that handles their data (`Packs`; stored, `-lzs-`, `-lz5-`, and every
method of ArchivePack), on the bytes `archiveWith pk es` (headers written by the header
specification's encoder, each followed by the member's packed data):

* **`print_archiveWith`** (PrintList3): `Extract.print (archiveWith pk es) o =
  (es.filter (selected o.filters)).flatMap (printSeg o)` — `lha p` writes, for each selected entry
  in order, the name banner followed by exactly the file's data / the `Symbolic Link` line /
  nothing for a directory; for all of `q`, `i`, `w=`, wildcards.  `segments_archiveWith` ties the
  same to the (banner, contents) segments of C18 `print_banners_printable`.
* **`headers_archiveWith`** (PrintList4): the header walk returns `es.map (hdrOf pk)`;
  **`listing_archiveWith`**: the listing is heading ++ one row group per selected entry ++ totals
  line with the number of selected entries and the sums of their sizes; `total_line_l`: the closed
  form of the last line of `lha l`.

The reader walk without extraction is PrintList1 (`Walk`, `walk_cons`, `Shown.skip`, on top of
`RState`/`next_step`/`after_skip`); "sequential 512-byte reads deliver exactly the data" is
PrintList2 (`print_member`, from C14's stream view of the decoder wrapper and `PackOk.decodes`).

This file: non-vacuity — every hypothesis discharged by kernel evaluation on `sampleTree`
(`a/` 0555, `a/x` = "hi", `a/b/` 0555, `a/b/y` = "yy", `a/b/l → y`, `z` = "z"), the outputs evaluated.
-/
set_option linter.unusedSimpArgs false
namespace LhasaV.PrintList
open LhasaV LhasaV.Header LhasaV.Extract LhasaV.ExtractTree LhasaV.ArchiveOf LhasaV.Reader
open LhasaV.ListProps LhasaV.ListOut LhasaV.ToolNoFault LhasaV.ExtractTree.Sample

/-- the `-lzs-` literal packer (level-2 or level-1 headers) handles the sample tree -/
theorem sample_packs_lzs (l1 : Bool) : Packs (lzsLit l1) sampleTree := by
  intro e he
  simp only [sampleTree, List.mem_cons, List.not_mem_nil, or_false] at he
  rcases he with rfl | rfl | rfl | rfl | rfl | rfl
  all_goals first | trivial | exact packOk_lzsLit l1 _ (by decide +kernel)

/-! ## `lha p` -/

/-- `lha p archive`: every file's banner and data, the link's line, nothing for the directories -/
example : Extract.print (archiveOf sampleTree) {} =
    str "::::::::\na/x\n::::::::\nhi::::::::\na/b/y\n::::::::\nyySymbolic Link a/b/l -> y\n::::::::\nz\n::::::::\nz" := by
  rw [archiveOf_eq, print_archiveWith_wf stored sampleTree sampleTree_wf sampleTree_enc
    (packs_stored sampleTree_enc)]
  decide +kernel

/-- `lha p archive 'a/b/*'`: only the members below `a/b/` -/
example : Extract.print (archiveOf sampleTree) { filters := [str "a/b/*"] } =
    str "::::::::\na/b/y\n::::::::\nyySymbolic Link a/b/l -> y\n" := by
  rw [archiveOf_eq, print_archiveWith_wf stored sampleTree sampleTree_wf sampleTree_enc
    (packs_stored sampleTree_enc)]
  decide +kernel

/-- `lha pq2 archive`: the contents only -/
example : Extract.print (archiveOf sampleTree) { quiet := 2 } = str "hiyyz" := by
  rw [archiveOf_eq, print_archiveWith_wf stored sampleTree sampleTree_wf sampleTree_enc
    (packs_stored sampleTree_enc)]
  decide +kernel

/-- `lha pq2 archive 'a/*x'` -/
example : Extract.print (archiveOf sampleTree) { quiet := 2, filters := [str "a/*x"] } = str "hi" := by
  rw [archiveOf_eq, print_archiveWith_wf stored sampleTree sampleTree_wf sampleTree_enc
    (packs_stored sampleTree_enc)]
  decide +kernel

/-- `lha piw=out archive '*y' z`: option `i` shows the file name only, `w=` puts `out/` in front -/
example : Extract.print (archiveOf sampleTree)
      { usePath := false, extractPath := some (str "out"), filters := [str "*y", str "z"] } =
    str "::::::::\nout/y\n::::::::\nyy::::::::\nout/z\n::::::::\nz" := by
  rw [archiveOf_eq, print_archiveWith_wf stored sampleTree sampleTree_wf sampleTree_enc
    (packs_stored sampleTree_enc)]
  decide +kernel

/-- the same tree packed as `-lzs-` members under level-1 or level-2 headers (different archive
bytes): the same output -/
example (l1 : Bool) : Extract.print (archiveWith (lzsLit l1) sampleTree) { quiet := 1 } =
    str "::::::::\na/x\n::::::::\nhi::::::::\na/b/y\n::::::::\nyySymbolic Link a/b/l -> y\n::::::::\nz\n::::::::\nz" := by
  rw [print_archiveWith_wf (lzsLit l1) sampleTree sampleTree_wf sampleTree_enc (sample_packs_lzs l1)]
  decide +kernel

/-- the specification is not the model: a name with a control byte is shown with `?`, and plain
names as they are -/
example : bannerOf {} (.file [[0x61, 0x1b]] [1, 2] none 0) = str "::::::::\na?\n::::::::\n" := by
  decide +kernel

/-! ## `lha l`, `lha v` -/

/-- the headers of the sample archive: six, one per entry -/
example : Driver.allHeaders ((archiveOf sampleTree).size + 2) (toolReader (archiveOf sampleTree)) [] =
    .ok (sampleTree.map (hdrOf stored)) := by
  rw [archiveOf_eq]
  exact headers_archiveWith stored sampleTree (fun e he => (allOk_of sampleTree_wf sampleTree_enc
    (packs_stored sampleTree_enc) e he).1) sampleTree_enc (packs_stored sampleTree_enc) _
    (headers_driver_fuel stored sampleTree)

/-- `lha l archive` on the bytes, through the header walk: the whole output, evaluated -/
example : ∃ hs, Driver.allHeaders ((archiveOf sampleTree).size + 2) (toolReader (archiveOf sampleTree)) [] = .ok hs ∧
    render false false 0 1700000000 1600000000 (Glob.select [] hs) =
    str " PERMSSN    UID  GID      SIZE  RATIO     STAMP           NAME\n" ++
    str "---------- ----------- ------- ------ ------------ --------------------\n" ++
    str "dr-xr-xr-x                   0 ****** Jan  1  1970 a/\n" ++
    str "-rw-r--r--                   2 100.0% Jan  1  1970 a/x\n" ++
    str "dr-xr-xr-x                   0 ****** Jan  1  1970 a/b/\n" ++
    str "-rw-------                   2 100.0% Jan  1  1970 a/b/y\n" ++
    str "lrwxrwxrwx                   0 ******              a/b/l -> y\n" ++
    str "[Unix]                       1 100.0%              z\n" ++
    str "---------- ----------- ------- ------ ------------ --------------------\n" ++
    str " Total         6 files       5 100.0% Sep 13  2020\n" := by
  rw [archiveOf_eq]
  obtain ⟨hs, h1, _, _, h3⟩ := listing_archiveWith stored sampleTree
    (fun e he => (allOk_of sampleTree_wf sampleTree_enc (packs_stored sampleTree_enc) e he).1)
    sampleTree_enc (packs_stored sampleTree_enc) _ (headers_driver_fuel stored sampleTree)
    false false 0 1700000000 1600000000 []
  refine ⟨hs, h1, ?_⟩
  rw [h3]
  decide +kernel

/-- `lha v archive 'a/b/*'` on the `-lzs-` level-1 archive: three rows, `Total 3 files`, packed 3,
size 2 -/
example : ∃ hs, Driver.allHeaders ((archiveWith (lzsLit true) sampleTree).size + 2)
      (toolReader (archiveWith (lzsLit true) sampleTree)) [] = .ok hs ∧
    render true false 0 1700000000 1600000000 (Glob.select [str "a/b/*"] hs) =
    str " PERMSSN    UID  GID    PACKED    SIZE  RATIO METHOD CRC     STAMP          NAME\n" ++
    str "---------- ----------- ------- ------- ------ ---------- ------------ -------------\n" ++
    str "dr-xr-xr-x                   0       0 ****** -lhd- 0000 Jan  1  1970 a/b/\n" ++
    str "-rw-------                   3       2 150.0% -lzs- 72e2 Jan  1  1970 a/b/y\n" ++
    str "lrwxrwxrwx                   0       0 ****** -lhd- 0000              a/b/l -> y\n" ++
    str "---------- ----------- ------- ------- ------ ---------- ------------ -------------\n" ++
    str " Total         3 files       3       2 150.0%            Sep 13  2020\n" := by
  obtain ⟨hs, h1, _, _, h3⟩ := listing_archiveWith (lzsLit true) sampleTree
    (fun e he => (allOk_of sampleTree_wf sampleTree_enc (sample_packs_lzs true) e he).1)
    sampleTree_enc (sample_packs_lzs true) _ (headers_driver_fuel (lzsLit true) sampleTree)
    true false 0 1700000000 1600000000 [str "a/b/*"]
  refine ⟨hs, h1, ?_⟩
  rw [h3]
  decide +kernel

/-- the hypotheses of `total_line_l` hold for the sample: `Total 6 files`, 5 bytes -/
example : (sampleTree.filter (selected [])).length = 6 ∧
    ((sampleTree.filter (selected [])).map dataLen).sum = 5 := by decide

end LhasaV.PrintList
