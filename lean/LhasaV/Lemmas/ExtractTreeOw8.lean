import LhasaV.Lemmas.ExtractTreeOw7
import LhasaV.Lemmas.ArchiveOf
/-!
# C06, overwriting (part 8): entry by entry; a decidable check of `PreDir`; the closed form on bytes

* `OwOutcome`: the conclusion of `run_tree_overwrite` as one proposition;
  `ow_entry`: entry by entry — a written entry is there in its final form, any other entry's place
  (a kept file, anything at or after the abort) holds what it held before; `ow_elsewhere`: so does
  every path that is not in the archive.
* `preDirB` / `preDirB_sound`: an executable check of the hypothesis `PreDir` on the file system's
  entry list.
* `extract_archiveWith_ow`, `extract_archiveOf_ow`: on the BYTES that encode the tree (`Denotes`
  discharged by `archiveWith_denotes`) — no hypothesis about the reader is left.
-/
namespace LhasaV.ExtractTree
open LhasaV LhasaV.Header LhasaV.Extract LhasaV.GlobFs LhasaV.Contain

/-- the specification's plan for the run `lha x[fq] archive` with `answers` in `fs` -/
def owPlan (fs : Fs.St) (o : Opts) (answers : Bytes) (es : List Entry) : List Entry × Bool :=
  plan (exAt fs) o.overwrite (lines answers) es

/-- what `run_tree_overwrite` promises about the final state `r` of a run started in `fs`, for
the plan `pl` (written entries, aborted?) -/
def OwOutcome (r : Extract.St) (fs : Fs.St) (pl : List Entry × Bool) : Prop :=
  r.aborted = pl.2 ∧ r.result = !pl.2 ∧
  (∀ p, p ≠ [] → Fs.lookup r.fs (fs.cwd ++ p) = owTree fs.now fs.umask (oldAt fs) pl.1 p) ∧
  (∃ m t0 t, Fs.lookup fs fs.cwd = some (.dir m t0) ∧ Fs.lookup r.fs fs.cwd = some (.dir m t) ∧
    (pl.1 ≠ [] → fs.cwd ≠ [] → t = fs.now) ∧ (pl.1 = [] → t = t0)) ∧
  (∀ x, ¬ fs.cwd <+: x → Fs.lookup r.fs x = Fs.lookup fs x)

theorem run_ow_outcome (archive : Array UInt8) (o : Opts) (fs : Fs.St) (answers : Bytes)
    (es : List Entry) (ho : OptsOk o) (hfs : PreDir fs es) (ha : Access fs) (hwf : WellFormed es)
    (hans : o.overwrite = .prompt → OwAnswers answers)
    (hfuel : 2 * es.length + 1 ≤ runFuel archive)
    (hden : Denotes (runFuel archive) (runInit archive o fs answers) es) :
    OwOutcome (run archive o fs answers) fs (owPlan fs o answers es) :=
  run_tree_overwrite archive o fs answers es ho hfs ha hwf hans hfuel hden

/-! ## entry by entry -/

/-- **each entry of the archive**: written ⇒ the archived object in its final form; not written
(kept on a "no" / "skip" decision, or at / after the prompt where the input ended) ⇒ its place
holds exactly what it held before the run -/
theorem ow_entry {r : Extract.St} {fs : Fs.St} {o : Opts} {answers : Bytes} {es : List Entry}
    (h : OwOutcome r fs (owPlan fs o answers es)) (hwf : WellFormed es) (e : Entry) (he : e ∈ es) :
    Fs.lookup r.fs (fs.cwd ++ e.path) =
      if e ∈ (owPlan fs o answers es).1 then some (e.final fs.now fs.umask) else oldAt fs e.path := by
  have hk := wf_entries es [] [] hwf e he
  rw [h.2.2.1 e.path hk.ne]
  have hnd : (es.map Entry.path).Nodup := by
    have := wf_nodup es [] [] hwf List.nodup_nil
    simpa using this
  by_cases hw : e ∈ (owPlan fs o answers es).1
  · rw [if_pos hw]
    exact owTree_written _ _ _ _ (plan_nodup _ es hwf _ _) e hw
  · rw [if_neg hw]
    apply owTree_not_written
    intro e' he' hp
    have hs : e' ∈ es := (plan_sublist _ es _ _).subset he'
    exact hw (eq_of_path_eq es hnd e' hs e he hp ▸ he')

/-- every path that is not the path of an entry holds what it held before -/
theorem ow_elsewhere {r : Extract.St} {fs : Fs.St} {o : Opts} {answers : Bytes} {es : List Entry}
    (h : OwOutcome r fs (owPlan fs o answers es)) (p : Fs.Path) (hp : p ≠ [])
    (hno : ∀ e ∈ es, e.path ≠ p) : Fs.lookup r.fs (fs.cwd ++ p) = oldAt fs p := by
  rw [h.2.2.1 p hp]
  exact owTree_not_written _ _ _ _ _ (fun e he => hno e ((plan_sublist _ es _ _).subset he))

/-! ## an executable check of `PreDir` -/

def isFileEnt : Fs.Ent → Bool
  | .file _ _ _ => true
  | _ => false

/-- the extraction directory is a directory the user may use; every object of the file system
below it is a regular file directly in it; no directory or link member of the archive has its place
taken -/
def preDirB (fs : Fs.St) (es : List Entry) : Bool :=
  (match Fs.lookup fs fs.cwd with
   | some (.dir m _) => fs.root || (m / 64 % 2 == 1 && m / 128 % 2 == 1)
   | _ => false) &&
  fs.ents.all (fun x => !(fs.cwd.isPrefixOf x.1) || x.1 == fs.cwd ||
    (x.1.length == fs.cwd.length + 1 && isFileEnt x.2)) &&
  es.all (fun e => (Fs.lookup fs (fs.cwd ++ e.path)).isNone || e.isFile)

theorem preDirB_sound (fs : Fs.St) (es : List Entry) (h : preDirB fs es = true) : PreDir fs es := by
  unfold preDirB at h
  simp only [Bool.and_eq_true] at h
  obtain ⟨⟨h1, h2⟩, h3⟩ := h
  refine ⟨?_, ?_, ?_⟩
  · split at h1
    · rename_i m t hl
      refine ⟨m, t, hl, ?_⟩
      cases hr : fs.root with
      | true => exact Or.inl rfl
      | false =>
        rw [hr] at h1
        simp only [Bool.false_or, Bool.and_eq_true, beq_iff_eq] at h1
        exact Or.inr h1
    · cases h1
  · intro p hp
    cases hl : Fs.lookup fs (fs.cwd ++ p) with
    | none => exact Or.inl rfl
    | some ent =>
      right
      have hne : fs.cwd ++ p ≠ [] := fun e => hp (List.append_eq_nil_iff.1 e).2
      unfold Fs.lookup at hl
      rw [if_neg hne, Option.map_eq_some_iff] at hl
      obtain ⟨x, hx, hx2⟩ := hl
      have hm := List.mem_of_find?_eq_some hx
      have hkey : x.1 = fs.cwd ++ p := by simpa using List.find?_some hx
      have := List.all_eq_true.1 h2 x hm
      have hpre : fs.cwd.isPrefixOf x.1 = true := by
        rw [hkey, List.isPrefixOf_iff_prefix]; exact List.prefix_append _ _
      have hnc : (x.1 == fs.cwd) = false := by
        rw [hkey]
        simpa using fun e : fs.cwd ++ p = fs.cwd => hp (List.append_right_eq_self.1 e)
      simp only [hpre, hnc, Bool.not_true, Bool.false_or, Bool.and_eq_true, beq_iff_eq] at this
      obtain ⟨hlen, hfe⟩ := this
      refine ⟨?_, ?_⟩
      · rw [hkey, List.length_append] at hlen; omega
      · rw [← hx2]
        cases hx2' : x.2 with
        | file d m t => exact ⟨d, m, t, rfl⟩
        | dir _ _ => rw [hx2'] at hfe; cases hfe
        | link _ => rw [hx2'] at hfe; cases hfe
  · intro e he hl
    have := List.all_eq_true.1 h3 e he
    simp only [Bool.or_eq_true, Option.isNone_iff_eq_none] at this
    rcases this with h | h
    · exact absurd h hl
    · exact h

/-! ## the closed form on bytes -/

open ArchiveOf ExtractTree.Sample in
/-- **on bytes, any sound packer**: `lha x[fq]` of the archive that encodes `es`, in a directory
holding regular files, with `answers` at the prompts — `Denotes` is a theorem for such archives -/
theorem extract_archiveWith_ow (pk : Packer) (es : List Entry) (hwf : WellFormed es) (henc : Encodable es)
    (hpk : Packs pk es) (o : Opts) (fs : Fs.St) (answers : Bytes) (ho : OptsOk o) (hfs : PreDir fs es)
    (ha : Access fs) (hans : o.overwrite = .prompt → OwAnswers answers) :
    OwOutcome (run (archiveWith pk es) o fs answers) fs (owPlan fs o answers es) :=
  run_ow_outcome _ o fs answers es ho hfs ha hwf hans (fuel_archiveWith pk es)
    (archiveWith_denotes pk es hwf henc hpk o fs answers)

open ArchiveOf ExtractTree.Sample in
/-- **on bytes, stored members** (`archiveOf`, level-2 headers written by the C05 encoder) -/
theorem extract_archiveOf_ow (es : List Entry) (hwf : WellFormed es) (henc : Encodable es)
    (o : Opts) (fs : Fs.St) (answers : Bytes) (ho : OptsOk o) (hfs : PreDir fs es)
    (ha : Access fs) (hans : o.overwrite = .prompt → OwAnswers answers) :
    OwOutcome (run (archiveOf es) o fs answers) fs (owPlan fs o answers es) :=
  run_ow_outcome _ o fs answers es ho hfs ha hwf hans (fuel_archiveOf es)
    (archiveOf_denotes es hwf henc o fs answers)

/-- with nothing in the way this is `extract_reproduces_tree`: everything is written, no abort -/
theorem owPlan_empty (fs : Fs.St) (o : Opts) (answers : Bytes) (es : List Entry)
    (h : ∀ e ∈ es, Fs.lookup fs (fs.cwd ++ e.path) = none) : owPlan fs o answers es = (es, false) := by
  unfold owPlan
  generalize o.overwrite = pol
  generalize lines answers = ls
  induction es with
  | nil => rfl
  | cons e es ih =>
    rw [plan_cons_free _ _ _ _ _ (asks_of_none (h e (by simp))), ih (fun x hx => h x (by simp [hx]))]

end LhasaV.ExtractTree
