import LhasaV.Spec.Lzhuf
import LhasaV.Lemmas.Lh1Init
import LhasaV.Lemmas.LzRoundTrip
/-!
# C02: finite table checks (kernel evaluation)

* the offset tables `init_offset_table` computes are LZHUF's `d_code` and `p_len`;
* the position code: `Putcode(p_len[i], p_code[i] << 8)` writes the top `p_len[i]` bits of
  `p_code[i]`, every byte that starts with these bits is mapped to `i` by `d_code`;
  `Putcode(6, v << 10)` writes the six bits of `v`.
-/
namespace LhasaV.Lh1Mirror
open LhasaV LhasaV.Lh1 LhasaV.Spec.Lzhuf LhasaV.Spec.Lz77

/-- the offset tables `init_offset_table` computes are LZHUF's `d_code` and `p_len` -/
def offChk : Res (Array Nat × Array Nat) → Bool
  | .ok (a, b) => a == d_code && b == p_len
  | _ => false

theorem offChk_true : offChk (ini_offTab (Array.replicate 256 0) (Array.replicate 64 0)) = true := by
  decide +kernel

/-- the upper six bits of a position: code word and decoding table -/
def posChk : Bool :=
  (List.range 64).all (fun i =>
    let l := p_len.getD i 0
    let u := p_code.getD i 0 / 2 ^ (8 - l)
    decide (3 ≤ l) && decide (l ≤ 8) && decide (u < 2 ^ l) &&
    putcode l (p_code.getD i 0 <<< 8) == bitsN l u &&
    (List.range (2 ^ (8 - l))).all (fun w => d_code.getD (u * 2 ^ (8 - l) + w) 0 == i))

theorem posChk_true : posChk = true := by decide +kernel

/-- the lower six bits of a position -/
def lowChk : Bool := (List.range 64).all (fun v => putcode 6 (v <<< 10) == bitsN 6 v)

theorem lowChk_true : lowChk = true := by decide +kernel

end LhasaV.Lh1Mirror
