import LhasaV.Lemmas.ToolNoFault3
import LhasaV.Lemmas.MessagesProps
/-!
# C08 at tool level, part 5: `lha t`, and the message-bearing loop of `lha x` / `lha e`

`Model/Messages.lean` has the loop of `test_file_crc` (`lha t`: `next`, then at most one
`lha_reader_check`) and a second copy of the loop of `extract_archive` that carries the messages.
Both are legal histories of the tool's reader, so `Hist` / `Ok` (`ToolNoFault3`) apply to every
reader state they visit.

* `MVisits P cmd fuel s`: along `Messages.loop cmd fuel s` no `lha_reader_next_file` is an `.error`
  and `P` holds of the reader state at the top of every iteration, after every `next` and after
  every `test_archived_file_crc` / `extract_archived_file` (dry run included).
* `loop_visits`: from a legal history, `MVisits (Ok archive)`.
* `test_run_visits`, `test_run_no_fault` (`lha t`), `xrun_visits`, `xrun_no_fault` (`lha x`, `lha e`,
  directly on the message model), `fault_flag_never_set`, and `exit_status_iff'`: the exit status is 0
  iff the run did not leave through `exit(-1)` and every handled member was good.
-/
set_option linter.unusedSimpArgs false
namespace LhasaV.ToolNoFault
open LhasaV LhasaV.Header LhasaV.Extract LhasaV.Reader

/-- the reader of the message model is the tool's reader -/
theorem initReader_eq (archive : Array UInt8) : Messages.initReader archive = toolReader archive := rfl

/-! ## one member -/

/-- `test_archived_file_crc`: nothing (dry run), or one `check` -/
theorem testEntry_hist {A : Array UInt8} {rd : Reader.St} (h : HistSeg A [] rd) (o : Opts) (hd : Hdr) :
    Hist A (Messages.testEntry o rd hd).2 := by
  have h0 : Hist A rd := h.hist rfl
  have h1 : Hist A (Reader.check rd).2 := (h.step .check).hist rfl
  unfold Messages.testEntry
  dsimp only
  split
  · exact h0
  · split <;> exact h1

/-- `lha_reader_extract` with the trailing-slash rule: at most one `extract` -/
theorem mreaderExtract_hist {A : Array UInt8} {rd : Reader.St} (h : HistSeg A [] rd) (fs : Fs.St)
    (fn : Bytes) : Hist A (Messages.readerExtract rd fs fn).2.1 := by
  have h1 : ∀ b, Hist A (Reader.extract rd b).2 := fun b => (h.step (.extract b)).hist rfl
  unfold Messages.readerExtract
  split
  · split
    · exact h1 false
    · exact readerExtract_hist h _ _
  · exact readerExtract_hist h _ _

theorem extractBody_hist {A : Array UInt8} {s : Messages.XSt} (h : HistSeg A [] s.rd) (hd : Hdr)
    (err : Bytes) : Hist A (Messages.extractBody s hd err).2.rd := by
  have h0 : Hist A s.rd := h.hist rfl
  unfold Messages.extractBody
  dsimp only
  split
  · exact h0
  · split
    · exact h0
    · exact mreaderExtract_hist h _ _

theorem extractEntry_hist {A : Array UInt8} {s : Messages.XSt} (h : HistSeg A [] s.rd) (hd : Hdr) :
    Hist A (Messages.extractEntry s hd).2.rd := by
  have h0 : Hist A s.rd := h.hist rfl
  unfold Messages.extractEntry
  dsimp only
  split
  · split
    · exact h0
    · exact extractBody_hist h _ _
    · split
      · exact h0
      · refine extractBody_hist ?_ _ _; exact h
      · exact h0
  · exact extractBody_hist h _ _

/-- one iteration of either loop (the dry run touches the reader not at all) -/
theorem step_hist {A : Array UInt8} (cmd : Messages.Cmd) {s : Messages.St} (h : HistSeg A [] s.x.rd)
    (hd : Hdr) : Hist A (Messages.step cmd s hd).x.rd := by
  unfold Messages.step
  split
  · exact testEntry_hist h _ _
  · split
    · exact h.hist rfl
    · exact extractEntry_hist h _

theorem step_fault (cmd : Messages.Cmd) (s : Messages.St) (hd : Hdr) :
    (Messages.step cmd s hd).fault = s.fault := by
  unfold Messages.step
  split
  · rfl
  · split <;> rfl

/-! ## the loops -/

/-- along `Messages.loop cmd fuel s`: no `lha_reader_next_file` returns `.error`, and the reader state
satisfies `P` at the top of every iteration, after every `next` and after every member handled -/
def MVisits (P : Reader.St → Prop) (cmd : Messages.Cmd) : Nat → Messages.St → Prop
  | 0, s => P s.x.rd
  | fuel+1, s =>
    P s.x.rd ∧
    (if s.aborted then True else
     match Reader.next s.x.rd with
     | .error _ => False
     | .ok (none, rd) => P rd
     | .ok (some c, rd) =>
       P rd ∧
       (if !Glob.matchesFilter s.x.opts.filters c.h then
          MVisits P cmd fuel { s with x := { s.x with rd := rd } }
        else MVisits P cmd fuel (Messages.step cmd { s with x := { s.x with rd := rd } } c.h)))

/-- a run without faulting `next` never sets the `fault` flag -/
theorem mvisits_fault {P : Reader.St → Prop} (cmd : Messages.Cmd) : ∀ (fuel : Nat) (s : Messages.St),
    MVisits P cmd fuel s → (Messages.loop cmd fuel s).fault = s.fault := by
  intro fuel
  induction fuel with
  | zero => intro s _; rfl
  | succ n ih =>
    intro s hv
    rw [MVisits] at hv
    unfold Messages.loop
    split
    · rfl
    · rename_i ha
      rw [if_neg ha] at hv
      have hv := hv.2
      split
      · rename_i w hn; rw [hn] at hv; exact hv.elim
      · rfl
      · rename_i c rd hn
        rw [hn] at hv
        simp only at hv
        have hv := hv.2
        split
        · rename_i hf; rw [if_pos hf] at hv; exact ih _ hv
        · rename_i hf; rw [if_neg hf] at hv; rw [ih _ hv, step_fault]

/-- **every reader state of the loops of the message model comes from a legal history of the tool's
reader** (`lha t`: `next` then at most one `check`; `lha x`: `next` then at most one `extract`) -/
theorem loop_visits (A : Array UInt8) (cmd : Messages.Cmd) : ∀ (fuel : Nat) (s : Messages.St),
    Hist A s.x.rd → MVisits (Ok A) cmd fuel s := by
  intro fuel
  induction fuel with
  | zero => intro s h; exact h.ok
  | succ n ih =>
    intro s h
    rw [MVisits]
    refine ⟨h.ok, ?_⟩
    split
    · trivial
    · obtain ⟨r, hr⟩ := h.sound.next_ok
      obtain ⟨oc, rd⟩ := r
      have hseg : HistSeg A [] rd := h.next hr
      have hrd : Hist A rd := hseg.hist rfl
      rw [hr]
      cases oc with
      | none => exact hrd.ok
      | some c =>
        simp only
        refine ⟨hrd.ok, ?_⟩
        split
        · exact ih _ hrd
        · exact ih _ (step_hist cmd (s := { s with x := { s.x with rd := rd } }) hseg c.h)

/-! ## the commands -/

/-- the state `Messages.run` starts the loop in -/
def mrunInit (archive : Array UInt8) (o : Opts) (fs : Fs.St) (answers : Bytes) : Messages.St :=
  { x := { rd := Messages.initReader archive, fs := fs, opts := o, answers := answers } }

theorem mrun_eq (cmd : Messages.Cmd) (archive : Array UInt8) (o : Opts) (fs : Fs.St) (answers : Bytes) :
    Messages.run cmd archive o fs answers =
      Messages.loop cmd (Contain.runFuel archive) (mrunInit archive o fs answers) := rfl

/-- every command of the message model, the whole run, exposed -/
theorem mrun_visits (cmd : Messages.Cmd) (archive : Array UInt8) (o : Opts) (fs : Fs.St) (answers : Bytes) :
    MVisits (Ok archive) cmd (Contain.runFuel archive) (mrunInit archive o fs answers) :=
  loop_visits archive cmd _ _ (hist_init archive)

/-- **the `fault` flag of the message model is never set**: for every command (`t`, `x`/`e`, dry run
or not), archive, options, file-system state and answers -/
theorem fault_flag_never_set (cmd : Messages.Cmd) (archive : Array UInt8) (o : Opts) (fs : Fs.St)
    (answers : Bytes) : (Messages.run cmd archive o fs answers).fault = false := by
  rw [mrun_eq, mvisits_fault cmd _ _ (mrun_visits cmd archive o fs answers)]
  rfl

/-- **C08, `lha t`, the whole run, exposed.**  For ANY archive bytes and options (`q`, `n`, wildcard
arguments): along the loop of `test_file_crc` every `lha_reader_next_file` returns normally, and every
reader state the loop passes through (before and after every `next`, after every `lha_reader_check`)
is `Ok`: the state of a legal history of a fresh reader, with header ownership intact and no decoder
fault hidden in it. -/
theorem test_run_visits (archive : Array UInt8) (o : Opts) (fs : Fs.St) (answers : Bytes) :
    MVisits (Ok archive) .test (Contain.runFuel archive) (mrunInit archive o fs answers) :=
  mrun_visits .test archive o fs answers

/-- **C08, `lha t`: no archive bytes make the run fault**, and every visited reader state is `Ok` -/
theorem test_run_no_fault (archive : Array UInt8) (o : Opts) (fs : Fs.St) (answers : Bytes) :
    (Messages.run .test archive o fs answers).fault = false ∧
    MVisits (Ok archive) .test (Contain.runFuel archive) (mrunInit archive o fs answers) :=
  ⟨fault_flag_never_set .test archive o fs answers, test_run_visits archive o fs answers⟩

/-- the same for the message-bearing loop of `lha x` / `lha e` / `lha xn`, directly -/
theorem xrun_visits (archive : Array UInt8) (o : Opts) (fs : Fs.St) (answers : Bytes) :
    MVisits (Ok archive) .extract (Contain.runFuel archive) (mrunInit archive o fs answers) :=
  mrun_visits .extract archive o fs answers

theorem xrun_no_fault (archive : Array UInt8) (o : Opts) (fs : Fs.St) (answers : Bytes) :
    (Messages.run .extract archive o fs answers).fault = false ∧
    MVisits (Ok archive) .extract (Contain.runFuel archive) (mrunInit archive o fs answers) :=
  ⟨fault_flag_never_set .extract archive o fs answers, xrun_visits archive o fs answers⟩

/-- the final reader state of a run is `Ok` too -/
theorem mvisits_final {P : Reader.St → Prop} (cmd : Messages.Cmd) : ∀ (fuel : Nat) (s : Messages.St),
    MVisits P cmd fuel s → P (Messages.loop cmd fuel s).x.rd := by
  intro fuel
  induction fuel with
  | zero => intro s hv; exact hv
  | succ n ih =>
    intro s hv
    rw [MVisits] at hv
    unfold Messages.loop
    split
    · exact hv.1
    · rename_i ha
      rw [if_neg ha] at hv
      have hv2 := hv.2
      split
      · exact hv.1
      · rename_i rd hn; rw [hn] at hv2; exact hv2
      · rename_i c rd hn
        rw [hn] at hv2
        simp only at hv2
        have hv2 := hv2.2
        split
        · rename_i hf; rw [if_pos hf] at hv2; exact ih _ hv2
        · rename_i hf; rw [if_neg hf] at hv2; exact ih _ hv2

theorem mrun_final_ok (cmd : Messages.Cmd) (archive : Array UInt8) (o : Opts) (fs : Fs.St) (answers : Bytes) :
    Ok archive (Messages.run cmd archive o fs answers).x.rd := by
  rw [mrun_eq]
  exact mvisits_final cmd _ _ (mrun_visits cmd archive o fs answers)

/-! ## the exit status, simplified -/

/-- **Exit status, without the fault clause.**  `lha t` / `lha x` / `lha e` exit with status 0 exactly
when the run did not leave through `exit(-1)` and the verdict of every member handled was good. -/
theorem exit_status_iff' (cmd : Messages.Cmd) (archive : Array UInt8) (o : Opts) (fs : Fs.St)
    (answers : Bytes) :
    Messages.exitStatus (Messages.run cmd archive o fs answers) = 0 ↔
      (Messages.run cmd archive o fs answers).aborted = false ∧
      ∀ e ∈ (Messages.run cmd archive o fs answers).trace, e.2 = true := by
  rw [MessagesProps.exit_status_iff]
  constructor
  · exact fun h => ⟨h.1, h.2.2⟩
  · exact fun h => ⟨h.1, fault_flag_never_set cmd archive o fs answers, h.2⟩

/-- the status is 0, 1 or 255: 255 iff `exit(-1)`, otherwise 1 iff some handled member was bad -/
theorem exit_status_cases (cmd : Messages.Cmd) (archive : Array UInt8) (o : Opts) (fs : Fs.St)
    (answers : Bytes) :
    Messages.exitStatus (Messages.run cmd archive o fs answers) =
      if (Messages.run cmd archive o fs answers).aborted then 255
      else if (Messages.run cmd archive o fs answers).trace.all (·.2) then 0 else 1 := by
  have hf := fault_flag_never_set cmd archive o fs answers
  have hr := MessagesProps.result_eq_all cmd archive o fs answers
  unfold Messages.exitStatus
  rw [hf, ← hr]
  simp

-- non-vacuity: `lha t` on the demo archive (one `-lh0-` member `a` holding `hi`) tests one member, finds it good, exits 0;
-- with a damaged content byte the member is bad and the status is 1
#guard (Messages.run .test demoArchive {} {} []).trace.map (·.2) == [true]
#guard Messages.exitStatus (Messages.run .test demoArchive {} {} []) == 0
#guard Messages.exitStatus (Messages.run .test (demoArchive.set! 25 0x78) {} {} []) == 1
end LhasaV.ToolNoFault
