import LhasaV.Lemmas.ExtractTreeImp6
/-!
# C06 with implicit parents (part 7): on bytes; non-vacuity; executable checks

`archiveWith pk es` (ArchiveOf2: one header per entry written by the C05 header ENCODER, the
member data packed by `pk`) needs no order condition to denote `es` along the run
(`archiveWith_denotesF`: per-entry `EntryOk`, `Encodable`, `Packs` only).  So the tree theorems of
part 5 hold in closed form, no hypothesis about the reader left:

* `extract_archiveWith_implicit` / `extract_archiveOf_implicit`: archives WITHOUT directory entries;
* `extract_archiveWith_mixed` / `extract_archiveOf_mixed`: the order `WFI`.

Non-vacuity: `a/b/c`, `a/d`, `e`, the link `a/l -> d` — as an ordinary user (umask 022) and as root
(umask 077) — and a mixed archive with an explicit directory inside an implicit one, an implicit
one inside an explicit one, and a LATE directory entry; every hypothesis discharged by `decide`.
`#guard`s run the model on the bytes.
-/
set_option linter.unusedSimpArgs false
namespace LhasaV.ArchiveOf
open LhasaV LhasaV.Header LhasaV.Extract LhasaV.GlobFs LhasaV.Contain LhasaV.ExtractTree
open LhasaV.ExtractTree.Sample

/-! ## closed forms on bytes -/

/-- **mixed archives, end to end** -/
theorem extract_archiveWith_mixed (pk : Packer) (es : List Entry) (hwf : WFI [] [] es)
    (henc : Encodable es) (hpk : Packs pk es) (o : Opts) (fs : Fs.St) (answers : Bytes)
    (ho : OptsOk o) (hfs : EmptyDir fs) (ha : Access fs) :
    (run (archiveWith pk es) o fs answers).result = true ∧
    (∀ p, p ≠ [] → Fs.lookup (run (archiveWith pk es) o fs answers).fs (fs.cwd ++ p) =
      impTreeOf fs.now fs.umask (keptOf [] es) p) ∧
    (∃ m t0 t, Fs.lookup fs fs.cwd = some (.dir m t0) ∧
      Fs.lookup (run (archiveWith pk es) o fs answers).fs fs.cwd = some (.dir m t) ∧
      (es ≠ [] → fs.cwd ≠ [] → t = fs.now)) ∧
    (∀ x, ¬ fs.cwd <+: x → Fs.lookup (run (archiveWith pk es) o fs answers).fs x = Fs.lookup fs x) :=
  run_tree_mixed (archiveWith pk es) o fs answers es ho hfs ha hwf (fuel_archiveWith pk es)
    (archiveWith_denotesF pk es (wfi_entries es [] [] hwf) henc hpk o fs answers)

/-- **Extraction of an archive without directory entries — closed form.**  For EVERY encodable
list of files and safe links with no path a prefix of another, in any order, and every packer
with a decoder round trip: `lha x` on the bytes, into an empty directory (root or ordinary user),
succeeds and leaves exactly the files and links as archived plus their parent directories with
mode 0755 under the umask and the time of the run (`impTree_spelled`); nothing outside changes. -/
theorem extract_archiveWith_implicit (pk : Packer) (es : List Entry) (hes : ImplicitOk es)
    (henc : Encodable es) (hpk : Packs pk es) (o : Opts) (fs : Fs.St) (answers : Bytes)
    (ho : OptsOk o) (hfs : EmptyDir fs) (ha : Access fs) :
    (run (archiveWith pk es) o fs answers).result = true ∧
    (∀ p, p ≠ [] → Fs.lookup (run (archiveWith pk es) o fs answers).fs (fs.cwd ++ p) =
      impTreeOf fs.now fs.umask es p) ∧
    (∃ m t0 t, Fs.lookup fs fs.cwd = some (.dir m t0) ∧
      Fs.lookup (run (archiveWith pk es) o fs answers).fs fs.cwd = some (.dir m t) ∧
      (es ≠ [] → fs.cwd ≠ [] → t = fs.now)) ∧
    (∀ x, ¬ fs.cwd <+: x → Fs.lookup (run (archiveWith pk es) o fs answers).fs x = Fs.lookup fs x) :=
  run_tree_implicit (archiveWith pk es) o fs answers es ho hfs ha hes (fuel_archiveWith pk es)
    (archiveWith_denotesF pk es hes.ok henc hpk o fs answers)

/-- … for stored members (`archiveOf`) -/
theorem extract_archiveOf_implicit (es : List Entry) (hes : ImplicitOk es) (henc : Encodable es)
    (o : Opts) (fs : Fs.St) (answers : Bytes) (ho : OptsOk o) (hfs : EmptyDir fs) (ha : Access fs) :
    (run (archiveOf es) o fs answers).result = true ∧
    (∀ p, p ≠ [] → Fs.lookup (run (archiveOf es) o fs answers).fs (fs.cwd ++ p) =
      impTreeOf fs.now fs.umask es p) ∧
    (∃ m t0 t, Fs.lookup fs fs.cwd = some (.dir m t0) ∧
      Fs.lookup (run (archiveOf es) o fs answers).fs fs.cwd = some (.dir m t) ∧
      (es ≠ [] → fs.cwd ≠ [] → t = fs.now)) ∧
    (∀ x, ¬ fs.cwd <+: x → Fs.lookup (run (archiveOf es) o fs answers).fs x = Fs.lookup fs x) := by
  rw [archiveOf_eq]
  exact extract_archiveWith_implicit stored es hes henc (packs_stored henc) o fs answers ho hfs ha

theorem extract_archiveOf_mixed (es : List Entry) (hwf : WFI [] [] es) (henc : Encodable es)
    (o : Opts) (fs : Fs.St) (answers : Bytes) (ho : OptsOk o) (hfs : EmptyDir fs) (ha : Access fs) :
    (run (archiveOf es) o fs answers).result = true ∧
    (∀ p, p ≠ [] → Fs.lookup (run (archiveOf es) o fs answers).fs (fs.cwd ++ p) =
      impTreeOf fs.now fs.umask (keptOf [] es) p) ∧
    (∃ m t0 t, Fs.lookup fs fs.cwd = some (.dir m t0) ∧
      Fs.lookup (run (archiveOf es) o fs answers).fs fs.cwd = some (.dir m t) ∧
      (es ≠ [] → fs.cwd ≠ [] → t = fs.now)) ∧
    (∀ x, ¬ fs.cwd <+: x → Fs.lookup (run (archiveOf es) o fs answers).fs x = Fs.lookup fs x) := by
  rw [archiveOf_eq]
  exact extract_archiveWith_mixed stored es hwf henc (packs_stored henc) o fs answers ho hfs ha

/-! ## non-vacuity (1): no directory entries -/

/-- `a/b/c` (0644, time 333), `a/d` (no permissions, no time), `e` (0600, 444), `a/l -> d` -/
def impSample : List Entry :=
  [ .file [[0x61], [0x62], [0x63]] [1, 2, 3] (some 0o100644) 333,
    .file [[0x61], [0x64]] [4] none 0,
    .file [[0x65]] [5] (some 0o100600) 444,
    .link [[0x61], [0x6c]] [0x64] ]

theorem impSample_ok : ImplicitOk impSample := by decide
theorem impSample_enc : Encodable impSample := by decide
/-- it is NOT well-formed in the sense of ExtractTree7: no tree theorem covered it before -/
example : ¬ WellFormed impSample := by decide

/-- a file that is also a directory, and a repeated path, are outside `ImplicitOk` -/
example : ¬ ImplicitOk [.file [[0x61]] [] none 0, .file [[0x61], [0x62]] [] none 0] := by decide
example : ¬ ImplicitOk [.file [[0x61]] [] none 0, .file [[0x61]] [1] none 0] := by decide

theorem optsOk_default : OptsOk {} := ⟨rfl, rfl, rfl⟩

/-- **as an ordinary user** (umask 022, cwd `r`) on the bytes: `a` and `a/b` are made 0755 with
the time of the run, the files and the link are as archived, nothing else appears, `r` is stamped -/
theorem impSample_user :
    let r := run (archiveOf impSample) {} sampleFs []
    r.result = true ∧
    Fs.lookup r.fs [[0x72], [0x61]] = some (.dir 0o755 sampleFs.now) ∧
    Fs.lookup r.fs [[0x72], [0x61], [0x62]] = some (.dir 0o755 sampleFs.now) ∧
    Fs.lookup r.fs [[0x72], [0x61], [0x62], [0x63]] = some (.file [1, 2, 3] 0o644 333) ∧
    Fs.lookup r.fs [[0x72], [0x61], [0x64]] = some (.file [4] 0o600 sampleFs.now) ∧
    Fs.lookup r.fs [[0x72], [0x65]] = some (.file [5] 0o600 444) ∧
    Fs.lookup r.fs [[0x72], [0x61], [0x6c]] = some (.link [0x64]) ∧
    Fs.lookup r.fs [[0x72], [0x62]] = none ∧
    Fs.lookup r.fs [[0x72], [0x61], [0x62], [0x63], [0x64]] = none ∧
    Fs.lookup r.fs [[0x72]] = some (.dir 0o755 sampleFs.now) := by
  intro r
  obtain ⟨h1, h, hc', _⟩ := extract_archiveOf_implicit impSample impSample_ok impSample_enc {} sampleFs []
    optsOk_default sampleFs_empty (access_user_022 sampleFs rfl)
  have hc : ∀ p : Fs.Path, sampleFs.cwd ++ p = [0x72] :: p := fun _ => rfl
  refine ⟨h1, ?_, ?_, ?_, ?_, ?_, ?_, ?_, ?_, ?_⟩
  iterate 8 (show Fs.lookup (run (archiveOf impSample) {} sampleFs []).fs _ = _
             rw [← hc, h _ (by decide)]; decide)
  · obtain ⟨m, t0, t, hl0, hl, ht⟩ := hc'
    have hm : m = 0o755 := by
      have : Fs.lookup sampleFs sampleFs.cwd = some (.dir 0o755 1000) := by decide
      rw [this] at hl0
      exact ((Fs.Ent.dir.inj (Option.some.inj hl0)).1).symm
    show Fs.lookup (run (archiveOf impSample) {} sampleFs []).fs sampleFs.cwd = _
    rw [hl, hm, ht (by decide) (by decide)]

/-- root with umask 077 -/
def rootFs : Fs.St := { sampleFs with root := true, umask := 0o077 }

theorem rootFs_empty : EmptyDir rootFs := by
  refine ⟨⟨0o755, 1000, by decide, Or.inl rfl⟩, ?_⟩
  intro p hp
  cases p with
  | nil => exact absurd rfl hp
  | cons c cs => simp [Fs.lookup, rootFs, sampleFs]

/-- **as root with umask 077**: the implicit directories are 0700 -/
theorem impSample_root :
    let r := run (archiveOf impSample) {} rootFs []
    r.result = true ∧
    Fs.lookup r.fs [[0x72], [0x61]] = some (.dir 0o700 rootFs.now) ∧
    Fs.lookup r.fs [[0x72], [0x61], [0x62]] = some (.dir 0o700 rootFs.now) ∧
    Fs.lookup r.fs [[0x72], [0x61], [0x62], [0x63]] = some (.file [1, 2, 3] 0o644 333) ∧
    Fs.lookup r.fs [[0x72], [0x61], [0x64]] = some (.file [4] 0o600 rootFs.now) ∧
    Fs.lookup r.fs [[0x72], [0x61], [0x6c]] = some (.link [0x64]) ∧
    Fs.lookup r.fs [[0x72], [0x62]] = none := by
  intro r
  obtain ⟨h1, h, _, _⟩ := extract_archiveOf_implicit impSample impSample_ok impSample_enc {} rootFs []
    optsOk_default rootFs_empty (access_root rootFs rfl)
  have hc : ∀ p : Fs.Path, rootFs.cwd ++ p = [0x72] :: p := fun _ => rfl
  refine ⟨h1, ?_, ?_, ?_, ?_, ?_, ?_⟩
  all_goals (show Fs.lookup (run (archiveOf impSample) {} rootFs []).fs _ = _
             rw [← hc, h _ (by decide)]; decide)

/-! ## non-vacuity (2): a mixed archive -/

/-- `x/` (0555, 111), `x/a/b` (implicit `x/a` inside the explicit `x`), `y/c` (implicit `y`),
`y/` (0500, 222 — LATE: `y` exists), `y/z/` (0700, 333 — explicit inside the implicit `y`), `y/z/w` -/
def mixedSample : List Entry :=
  [ .dir [[0x78]] (some 0o40555) 111,
    .file [[0x78], [0x61], [0x62]] [1] (some 0o100644) 10,
    .file [[0x79], [0x63]] [2] (some 0o100644) 20,
    .dir [[0x79]] (some 0o40500) 222,
    .dir [[0x79], [0x7a]] (some 0o40700) 333,
    .file [[0x79], [0x7a], [0x77]] [3] none 0 ]

theorem mixedSample_wfi : WFI [] [] mixedSample := by decide
theorem mixedSample_enc : Encodable mixedSample := by decide
example : ¬ WellFormed mixedSample := by decide
/-- the late entry `y/` is dropped -/
example : keptOf [] mixedSample = mixedSample.take 3 ++ mixedSample.drop 4 := by decide

/-- excluded orders: new contents for a directory entry that was closed (`x/`, `y`, `x/q`); a
directory entry above a FILE of the same name -/
example : ¬ WFI [] [] [.dir [[0x78]] (some 0o40555) 111, .file [[0x79]] [] none 0,
    .file [[0x78], [0x71]] [] none 0] := by decide
example : ¬ WFI [] [] [.file [[0x78]] [] none 0, .dir [[0x78]] none 0] := by decide

/-- **the mixed archive, as an ordinary user**: `x` ends with its recorded 0555 / 111 although
`x/a` was made inside it; `x/a` and `y` are 0755 / now — the recorded 0500 / 222 of the late entry
`y/` is ignored; `y/z` carries its recorded 0700 / 333 -/
theorem mixedSample_user :
    let r := run (archiveOf mixedSample) {} sampleFs []
    r.result = true ∧
    Fs.lookup r.fs [[0x72], [0x78]] = some (.dir 0o555 111) ∧
    Fs.lookup r.fs [[0x72], [0x78], [0x61]] = some (.dir 0o755 sampleFs.now) ∧
    Fs.lookup r.fs [[0x72], [0x78], [0x61], [0x62]] = some (.file [1] 0o644 10) ∧
    Fs.lookup r.fs [[0x72], [0x79]] = some (.dir 0o755 sampleFs.now) ∧
    Fs.lookup r.fs [[0x72], [0x79], [0x63]] = some (.file [2] 0o644 20) ∧
    Fs.lookup r.fs [[0x72], [0x79], [0x7a]] = some (.dir 0o700 333) ∧
    Fs.lookup r.fs [[0x72], [0x79], [0x7a], [0x77]] = some (.file [3] 0o600 sampleFs.now) := by
  intro r
  obtain ⟨h1, h, _, _⟩ := extract_archiveOf_mixed mixedSample mixedSample_wfi mixedSample_enc {} sampleFs []
    optsOk_default sampleFs_empty (access_user_022 sampleFs rfl)
  have hc : ∀ p : Fs.Path, sampleFs.cwd ++ p = [0x72] :: p := fun _ => rfl
  refine ⟨h1, ?_, ?_, ?_, ?_, ?_, ?_, ?_⟩
  all_goals (show Fs.lookup (run (archiveOf mixedSample) {} sampleFs []).fs _ = _
             rw [← hc, h _ (by decide)]; decide)

/-! ## executable checks (not proofs) -/

namespace ImpCheck

/-- every non-empty prefix of an entry path, and a few paths that are in no archive -/
def probes (es : List Entry) : List Fs.Path :=
  (es.flatMap (fun e => (List.range (e.path.length + 1)).map (fun j => e.path.take j))).filter (· ≠ []) ++
    [[[0x71]], [[0x61], [0x71]], [[0x78], [0x71]]]

/-- the run on the bytes agrees with `impTreeOf (keptOf [] es)` at every probe, succeeds, and
nothing else is below (or beside) the extraction directory -/
def agrees (fs : Fs.St) (es : List Entry) : Bool :=
  let r := run (archiveOf es) {} fs []
  let tree := impTreeOf fs.now fs.umask (keptOf [] es)
  r.result && !r.aborted &&
  (probes es).all (fun p => Fs.lookup r.fs (fs.cwd ++ p) == tree p) &&
  r.fs.ents.all (fun x => x.1 == fs.cwd || (probes es).any (fun p => fs.cwd ++ p == x.1 && (tree p).isSome))

#guard agrees sampleFs impSample
#guard agrees rootFs impSample
#guard agrees sampleFs impSample.reverse
#guard agrees sampleFs mixedSample
#guard agrees rootFs mixedSample
-- a well-formed archive (ExtractTree14): no implicit directory, `impTreeOf = treeOf`
#guard agrees sampleFs sampleTree
#guard (probes sampleTree).all (fun p => impTreeOf 7 0o022 sampleTree p == treeOf 7 0o022 sampleTree p)
-- a user whose umask removes the owner's write bit is outside `Access`: `a` is made 0555 and `a/b` fails
#guard !(run (archiveOf impSample) {} { sampleFs with umask := 0o222 } []).result

/-! ### the late directory entry: recorded metadata silently dropped

`a/f` then `a/` (0500, time 222): the C06 property text promises directories "with their recorded
permissions and time"; here the run SUCCEEDS and `a` is 0755 / now (finding
`extract_dir_existing`, ExtractTree14; covered by `run_tree_mixed` as a late entry). -/
def lateSample : List Entry := [.file [[0x61], [0x66]] [1] none 0, .dir [[0x61]] (some 0o40500) 222]
#guard decide (WFI [] [] lateSample) && agrees sampleFs lateSample
#guard (let r := run (archiveOf lateSample) {} sampleFs []
        r.result && Fs.lookup r.fs [[0x72], [0x61]] == some (.dir 0o755 sampleFs.now))
-- the other order gives the recorded metadata
#guard (let r := run (archiveOf lateSample.reverse) {} sampleFs []
        r.result && Fs.lookup r.fs [[0x72], [0x61]] == some (.dir 0o500 222))

/-! ### outside the domain -/

/- new contents for a CLOSED directory entry (`x/` 0555, `y`, `x/q`): an ordinary user fails
(`x` is read-only by then), root succeeds and `x` keeps 0555 but is stamped now, not 111 -/
def closedSample : List Entry :=
  [.dir [[0x78]] (some 0o40555) 111, .file [[0x79]] [] none 0, .file [[0x78], [0x71]] [] none 0]
#guard !(run (archiveOf closedSample) {} sampleFs []).result
#guard (let r := run (archiveOf closedSample) {} rootFs []
        r.result && Fs.lookup r.fs [[0x72], [0x78]] == some (.dir 0o555 rootFs.now))
/- a file that is also a directory (`a`, `a/b`): `make_parent_directories` fails -/
#guard !(run (archiveOf [.file [[0x61]] [] none 0, .file [[0x61], [0x62]] [] none 0]) {} sampleFs []).result

end ImpCheck

end LhasaV.ArchiveOf
