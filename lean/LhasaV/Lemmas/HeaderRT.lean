import LhasaV.Lemmas.HeaderRT4
/-!
# Round trip of the header parser over the header-format specification

`header_roundtrip`: `Header.read mk (encode f ++ data) = (normalise mk f).bind (fun h => .ok (h, data))`
for every `f` with `wf f = true`.

Layers (files `HeaderRT1` … `HeaderRT4`):
1. little-endian encodings versus the checked reads (`rdU16_drop` …), reads of a prefix, `extend`;
2. `decodeExt` on an encoded typed extended header is `applyExt` (`decodeExt_enc`), the chain walk
   folds `applyExt` and zeroes the CRC fields, whatever bytes follow the terminator inside the header
   (`extLoop_chain`, `decodeExtendedHeaders_chain_trail`, `decodeExtendedHeaders_chain`);
3. levels 2 and 3 (`level2_rt`, `level3_rt`);
4. level 0 with its extended area (`level0ExtArea_enc`, `level0_rt`), level 1 with the chain pulled
   from the input (`readL1Ext_enc`, `level1_rt`);
5. here: the level byte and the composition in `Header.read`.
-/
namespace LhasaV.HeaderRT
open LhasaV LhasaV.Header LhasaV.Spec.HeaderEnc

theorem level_byte {f : Fields} (hwf : wf f = true) {data full : Bytes} (hfull : full = encode f ++ data) :
    (∀ s, rdU8 s full 20 = .ok f.level) ∧ 22 ≤ full.length := by
  obtain ⟨hlv, hm, hclen, hlen, htime, hattr, hfcrc, hos, hexts⟩ := wf_common hwf
  unfold encode at hfull
  generalize (Crc.buf 0 (rawOf f)).toNat = crc at hfull
  by_cases h0 : f.level = 0
  · rw [enc_l0 crc h0] at hfull
    have hfull' : full = [UInt8.ofNat (body0 f).length, UInt8.ofNat (Header.sumBytes (body0 f) % 256)] ++
        (f.method ++ (le32 f.clen ++ (le32 f.length ++
        (le32 f.time ++ (UInt8.ofNat f.attr :: 0 :: (UInt8.ofNat f.name.length :: (f.name ++ (le16 f.crc ++
          (f.area.bytes ++ data))))))))) := by
      rw [hfull]; simp [body0, List.append_assoc]
    obtain ⟨-, -, -, -, r, -, hl⟩ := base_reads hfull' rfl hm hclen hlen htime
    rw [h0]
    exact ⟨r, by rw [← hl]; simp only [List.length_cons]; omega⟩
  by_cases h1 : f.level = 1
  · obtain ⟨htot, hcl, hszs⟩ := wf_l1 hwf h1
    rw [enc_l1 crc h1] at hfull
    have hfull' : full = [UInt8.ofNat (body1 f).length, UInt8.ofNat (Header.sumBytes (body1 f) % 256)] ++
        (f.method ++ (le32 (f.clen + chainLen 2 f.exts) ++ (le32 f.length ++
        (le32 f.time ++ (UInt8.ofNat f.attr :: 1 :: (UInt8.ofNat f.name.length :: (f.name ++ (le16 f.crc ++
          (UInt8.ofNat f.osType :: (f.pad ++ (le16 (firstSize 2 f.exts) ++
            (chain 2 crc f.exts ++ data)))))))))))) := by
      rw [hfull]; simp [body1, List.append_assoc]
    obtain ⟨-, -, -, -, r, -, hl⟩ := base_reads hfull' rfl hm hcl hlen htime
    rw [h1]
    exact ⟨r, by rw [← hl]; simp only [List.length_cons]; omega⟩
  by_cases h2 : f.level = 2
  · rw [enc_l2 crc h2] at hfull
    simp only [List.append_assoc, List.cons_append] at hfull
    obtain ⟨-, -, -, -, r, -, hl⟩ := base_reads hfull rfl hm hclen hlen htime
    rw [h2]
    exact ⟨r, by rw [← hl]; simp only [List.length_append, List.length_cons, le16_length]; omega⟩
  · rw [enc_l3 crc h0 h1 h2] at hfull
    simp only [List.append_assoc, List.cons_append] at hfull
    obtain ⟨-, -, -, -, r, -, hl⟩ := base_reads hfull rfl hm hclen hlen htime
    have h3 : f.level = 3 := by omega
    rw [h3]
    exact ⟨r, by rw [← hl]; simp only [List.length_append, List.length_cons, le16_length]; omega⟩

/-- **Round trip.**  For every well-formed typed field assignment of level 0, 1, 2 or 3 (any values,
any list of typed extended headers in any order, level-0 areas) and any following member data, the
parser returns exactly the header the fields denote and leaves exactly `data`; when `postProcess`
rejects, both sides are `.fail`. -/
theorem header_roundtrip (mk : Nat → Nat) (f : Fields) (hwf : wf f = true) (data : Bytes) :
    Header.read mk (encode f ++ data) = (normalise mk f).bind (fun h => .ok (h, data)) := by
  generalize hfull : encode f ++ data = full
  obtain ⟨rlv, h22⟩ := level_byte hwf hfull.symm
  have hlv := (wf_common hwf).1
  have hext : extend ({} : Hdr) full Gen.commonHeaderLen = .ok ({ raw := full.take 22 }, full.drop 22) :=
    extend_take (full := full) (n := 0) (m := 22) (k := 22) rfl (by omega) rfl h22
  unfold Header.read
  rw [hext]
  simp only [Res.ok_bind, rdU8_take_of (n := 22) (by omega) (rlv _)]
  by_cases h0 : f.level = 0
  · rw [if_pos h0, h0, level0_rt mk f hwf h0 data full hfull.symm]; rfl
  rw [if_neg h0]
  by_cases h1 : f.level = 1
  · rw [if_pos h1, h1, level1_rt mk f hwf h1 data full hfull.symm]; rfl
  rw [if_neg h1]
  by_cases h2 : f.level = 2
  · rw [if_pos h2, h2, level2_rt mk f hwf h2 data full hfull.symm]; rfl
  rw [if_neg h2]
  have h3 : f.level = 3 := by omega
  rw [if_pos h3, h3, level3_rt mk f hwf h3 data full hfull.symm]; rfl

/-- the same statement with the right-hand side spelt out -/
theorem header_roundtrip' (mk : Nat → Nat) (f : Fields) (hwf : wf f = true) (data : Bytes) :
    Header.read mk (encode f ++ data) =
      (match normalise mk f with
       | .ok h => .ok (h, data)
       | .fail => .fail
       | .fault w => .fault w) := by
  rw [header_roundtrip mk f hwf data]
  cases normalise mk f <;> rfl

/-- when the denoted header is accepted, the parser returns it and leaves the member data -/
theorem header_roundtrip_ok (mk : Nat → Nat) (f : Fields) (hwf : wf f = true) (data : Bytes) (h : Hdr)
    (hn : normalise mk f = .ok h) : Header.read mk (encode f ++ data) = .ok (h, data) := by
  rw [header_roundtrip mk f hwf data, hn]; rfl

/-- the parser never faults on an encoded well-formed header unless `postProcess` does on the typed one -/
theorem header_roundtrip_fail (mk : Nat → Nat) (f : Fields) (hwf : wf f = true) (data : Bytes)
    (hn : normalise mk f = .fail) : Header.read mk (encode f ++ data) = .fail := by
  rw [header_roundtrip mk f hwf data, hn]; rfl

/-! ### non-vacuity -/

/-- a level-2 header with a common-CRC header, a file name and a Unix permission header -/
def exampleFields : Fields :=
  { level := 2, method := [0x2d, 0x6c, 0x68, 0x35, 0x2d], clen := 100, length := 200, time := 1000000000,
    crc := 0x1234, osType := 0x55,
    exts := [.common [], .filename [0x61, 0x2e, 0x74, 0x78, 0x74], .unixPerm 0o100644 []] }

example : wf exampleFields = true := by decide

example (mk : Nat → Nat) (data : Bytes) :
    Header.read mk (encode exampleFields ++ data) =
      (normalise mk exampleFields).bind (fun h => .ok (h, data)) :=
  header_roundtrip mk exampleFields (by decide) data

/-- what the caller receives for `exampleFields` (common-CRC check passed, flags 1 and 4 set) -/
def exampleHdr : Hdr :=
  { filename := some [97, 46, 116, 120, 116], method := [45, 108, 104, 53, 45], compressedLength := 100,
    length := 200, level := 2, osType := 85, crc := 4660, timestamp := 1000000000,
    raw := [44, 0, 45, 108, 104, 53, 45, 100, 0, 0, 0, 200, 0, 0, 0, 0, 202, 154, 59, 32, 2, 52, 18, 85, 5, 0,
            0, 0, 0, 8, 0, 1, 97, 46, 116, 120, 116, 5, 0, 80, 164, 129, 0, 0],
    extraFlags := 5, unixPerms := 33188, commonCrc := 10285 }

theorem example_normalise : normalise dosTimeUTC exampleFields = .ok exampleHdr := by decide +kernel

example (data : Bytes) : Header.read dosTimeUTC (encode exampleFields ++ data) = .ok (exampleHdr, data) :=
  header_roundtrip_ok _ _ (by decide) data _ example_normalise

/-! ### non-vacuity: trailing bytes inside a level-2 header

LHA for OS-9 pads level-2 headers by one byte after the chain terminator; the header length counts it.
The chain walk stops at the zero size and never looks at it. -/

/-- a level-2 header with one extended header (the file name) and one trailing byte -/
def exampleTrail : Fields :=
  { level := 2, method := [0x2d, 0x6c, 0x68, 0x35, 0x2d], clen := 100, length := 200, time := 1000000000,
    crc := 0x1234, osType := 0x39, exts := [.filename [0x61, 0x2e, 0x74, 0x78, 0x74]], trail := [0] }

example : wf exampleTrail = true := by decide

example (mk : Nat → Nat) (data : Bytes) :
    Header.read mk (encode exampleTrail ++ data) =
      (normalise mk exampleTrail).bind (fun h => .ok (h, data)) :=
  header_roundtrip mk exampleTrail (by decide) data

/-- the length field (35) counts the trailing byte -/
example : encode exampleTrail =
    [35, 0, 45, 108, 104, 53, 45, 100, 0, 0, 0, 200, 0, 0, 0, 0, 202, 154, 59, 32, 2, 52, 18, 57, 8, 0,
     1, 97, 46, 116, 120, 116, 0, 0, 0] := by decide +kernel

def exampleTrailHdr : Hdr :=
  { filename := some [97, 46, 116, 120, 116], method := [45, 108, 104, 53, 45], compressedLength := 100,
    length := 200, level := 2, osType := 57, crc := 4660, timestamp := 1000000000,
    raw := [35, 0, 45, 108, 104, 53, 45, 100, 0, 0, 0, 200, 0, 0, 0, 0, 202, 154, 59, 32, 2, 52, 18, 57, 8, 0,
            1, 97, 46, 116, 120, 116, 0, 0, 0] }

theorem exampleTrail_normalise : normalise dosTimeUTC exampleTrail = .ok exampleTrailHdr := by decide +kernel

example (data : Bytes) : Header.read dosTimeUTC (encode exampleTrail ++ data) = .ok (exampleTrailHdr, data) :=
  header_roundtrip_ok _ _ (by decide) data _ exampleTrail_normalise

/-- OS-9/68k quirk (length field = total − 2), a common-CRC header whose CRC covers the trailing byte -/
def exampleTrailK : Fields :=
  { level := 2, method := [0x2d, 0x6c, 0x68, 0x35, 0x2d], clen := 100, length := 200, time := 1000000000,
    crc := 0x1234, osType := 0x4b, exts := [.common [], .filename [0x61]], trail := [0] }

example : wf exampleTrailK = true := by decide

def exampleTrailKHdr : Hdr :=
  { filename := some [97], method := [45, 108, 104, 53, 45], compressedLength := 100,
    length := 200, level := 2, osType := 75, crc := 4660, timestamp := 1000000000,
    raw := [34, 0, 45, 108, 104, 53, 45, 100, 0, 0, 0, 200, 0, 0, 0, 0, 202, 154, 59, 32, 2, 52, 18, 75, 5, 0,
            0, 0, 0, 4, 0, 1, 97, 0, 0, 0],
    extraFlags := 4, commonCrc := 6120 }

theorem exampleTrailK_normalise : normalise dosTimeUTC exampleTrailK = .ok exampleTrailKHdr := by decide +kernel

example (data : Bytes) : Header.read dosTimeUTC (encode exampleTrailK ++ data) = .ok (exampleTrailKHdr, data) :=
  header_roundtrip_ok _ _ (by decide) data _ exampleTrailK_normalise

/-- an empty chain followed by a trail: the first size is the terminator -/
example : wf { exampleTrail with exts := [], trail := [7, 9] } = true := by decide

/-- level 3 counts the trail in its 32-bit length -/
example : wf { exampleTrail with level := 3, trail := [1, 2, 3] } = true := by decide

/-- levels 0 and 1 have no place for a trail -/
example : wf { exampleTrail with level := 1 } = false := by decide

/-- the OS-9/68k length `total − 2` must still be ≥ 26: one trailing byte after an empty chain is too short -/
example : wf { exampleTrailK with exts := [], trail := [7] } = false := by decide
example : wf { exampleTrailK with exts := [], trail := [7, 9] } = true := by decide

end LhasaV.HeaderRT
