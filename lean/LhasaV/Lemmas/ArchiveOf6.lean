import LhasaV.Lemmas.ArchiveOf5
import LhasaV.Lemmas.MacProps
/-!
# C06, archives as bytes (part 6): a member decodes to its data

The reader stands on a file entry of `archiveWith pk es` (`Got pk A (file :: tl)`): the member
source is exactly the packer's compressed bytes (`memberSrc_present`), `open_decoder` succeeds
(the packer's method has a decoder), the decoder yields the data (`PackOk.decodes`: the decoder
round-trip theorems), length and CRC agree with the header (`decodeResult_plain`, C07):
`lha_reader_extract` reports success with exactly the data.  `packOk_stored`: stored members
(`-lh0-`, C03 `null_round_trip`) are such a packer.
-/
set_option linter.unusedSimpArgs false
namespace LhasaV.ArchiveOf
open LhasaV LhasaV.Header LhasaV.Extract LhasaV.GlobFs LhasaV.Contain LhasaV.ExtractTree
open LhasaV.ExtractTree.Sample LhasaV.Spec.HeaderEnc LhasaV.Reader LhasaV.ReaderIndep

theorem methodName_eq (h : Hdr) : methodName h = mname h.method := rfl

/-- the member source of a member whose bytes are all there: the compressed bytes, complete -/
theorem memberSrc_present (b : Basic) (comp rest : Bytes) (hrem : b.remaining = comp.length)
    (heof : b.eof = false) (hdrop : b.stream.data.toList.drop b.stream.pos = comp ++ rest) :
    memberSrc b = { data := comp.toArray } := by
  have hlen : comp.length ≤ b.stream.data.size - b.stream.pos := by
    have := congrArg List.length hdrop
    rw [List.length_drop, Array.length_toList, List.length_append] at this
    omega
  have hphys : min comp.length (b.stream.data.size - b.stream.pos) = comp.length :=
    Nat.min_eq_left hlen
  have hdata : b.stream.data.extract b.stream.pos (b.stream.pos + comp.length) = comp.toArray := by
    apply Array.ext'
    simp only [Array.toList_extract, List.extract_eq_take_drop]
    rw [hdrop]
    simp
  simp only [memberSrc, hrem, hphys, hdata, heof, Nat.sub_self]

/-- **a file member is extracted with a good verdict and exactly its data** -/
theorem extract_member (pk : Packer) (rd : Reader.St) (c : HObj) (p : Fs.Path) (data : Bytes)
    (perms : Option Nat) (t : Nat) (tl : List Entry) (hpk : PackOk pk data)
    (ht : rd.currType = .normal) (hc : rd.curr = some c)
    (hh : c.h = hdrOf pk (.file p data perms t))
    (hg : Got pk rd.basic.stream.data (.file p data perms t :: tl) rd.basic) :
    (openDecoder rd).1 = true ∧ (Reader.extract rd true).1 = (true, data) := by
  obtain ⟨_, _, hrem, heof, _, _, hdrop⟩ := hg
  obtain ⟨d, info, hd, hi, hdec⟩ := hpk.decodes
  have hm : c.h.method = (pk.pack data).1 := by rw [hh]; rfl
  have hname : methodName c.h = mname (pk.pack data).1 := by rw [methodName_eq, hm]
  have hos : c.h.osType ≠ 0x6d := by rw [hh, hdrOf_os]; decide
  have hnd : c.h.method ≠ "-lhd-".toUTF8.toList := by
    rw [hm, ← lhdM_eq]; exact hpk.notDir
  rw [← hname] at hd hi
  obtain ⟨h1, _, _⟩ := MacProps.openDecoder_plainIn ht hc hos hd hi
  refine ⟨h1, ?_⟩
  rw [MacProps.extract_eq_decodeResult ht hc hnd, MacProps.decodeResult_plain ht hc hos hd hi]
  have hsrc := memberSrc_present rd.basic (pk.pack data).2 (flat pk tl) hrem heof hdrop
  have hl : c.h.length = data.length := by rw [hh]; rfl
  have hcrc : c.h.crc = (Crc.buf 0 data).toNat := by rw [hh]; rfl
  have hinner : MacProps.innerBytes rd c d = data := by
    unfold MacProps.innerBytes
    rw [hsrc, hl]; exact hdec
  rw [hinner]
  simp [MacProps.good, hl, hcrc]

/-! ## packers -/

/-- **stored members** (`-lh0-`): every data string of less than 4 GiB -/
theorem packOk_stored (data : Bytes) (h : data.length < 4294967296) : PackOk stored data := by
  refine ⟨lh0_sig, lh0_ne_lhdM, h, Null.dec, ?_⟩
  have hn : mname (stored.pack data).1 = "-lh0-" := by
    show mname lh0 = "-lh0-"
    decide +kernel
  have hi : (decoderInfo "-lh0-").isSome = true := by decide +kernel
  obtain ⟨info, hi⟩ := Option.isSome_iff_exists.1 hi
  refine ⟨info, by rw [hn]; rfl, by rw [hn]; exact hi, ?_⟩
  have := LzRoundTrip.null_round_trip data data.length 0
  rw [List.take_length] at this
  exact this

/-- a packer built from any compressor `cmp` for a method `m` with decoder `d`, given the
decoder's round-trip theorem in the form the C01–C04 theorems have; at header level 2 or 1 -/
theorem packOk_of_roundtrip (m : Bytes) (cmp : Bytes → Bytes) (l1 : Bool) (d : Dec) (info : Nat × Nat × Nat)
    (data : Bytes) (hsig : SigOk m) (hnd : m ≠ lhdM) (hlen : (cmp data).length < 4294901760)
    (hd : decoderFor (mname m) = some d) (hi : decoderInfo (mname m) = some info)
    (hrt : Wrap.avail d.total data.length (.ok (d.init { data := (cmp data).toArray })) = data) :
    PackOk { pack := fun x => (m, cmp x), level1 := l1 } data := by
  refine ⟨hsig, hnd, ?_, d, info, hd, hi, hrt⟩
  show (cmp data).length + (if l1 = true then 65536 else 0) < 4294967296
  split <;> omega

end LhasaV.ArchiveOf
