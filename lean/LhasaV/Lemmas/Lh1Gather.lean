import LhasaV.Lemmas.Lh1RbDefs
/-! first loop of `reconstruct_tree` -/
namespace LhasaV.Lh1
open LhasaV.Res

/-! ## counting lemmas -/

theorem ga_cnt_mono (p : Nat → Bool) {a b : Nat} (h : a ≤ b) : cntP p a ≤ cntP p b := by
  induction b with
  | zero => have : a = 0 := by omega
            subst this; exact Nat.le_refl _
  | succ b ih =>
    by_cases he : a = b + 1
    · subst he; exact Nat.le_refl _
    · have := ih (by omega)
      simp only [cntP]; omega

theorem ga_cnt_succ_true (p : Nat → Bool) (a : Nat) (h : p a = true) : cntP p (a + 1) = cntP p a + 1 := by
  simp [cntP, h]

theorem ga_cnt_succ_false (p : Nat → Bool) (a : Nat) (h : p a = false) : cntP p (a + 1) = cntP p a := by
  simp [cntP, h]

theorem ga_cnt_lt (p : Nat → Bool) {a b : Nat} (h : a < b) (hp : p a = true) : cntP p a < cntP p b := by
  have h1 := ga_cnt_mono p (a := a + 1) (b := b) h
  rw [ga_cnt_succ_true p a hp] at h1
  omega

/-- every count below `cntP p n` is attained at a unique `true` position -/
theorem ga_cnt_cover (p : Nat → Bool) (n a : Nat) (h : a < cntP p n) :
    ∃ q, q < n ∧ p q = true ∧ cntP p q = a := by
  induction n with
  | zero => simp [cntP] at h
  | succ n ih =>
    by_cases h' : a < cntP p n
    · obtain ⟨q, hq, h1, h2⟩ := ih h'
      exact ⟨q, by omega, h1, h2⟩
    · cases hp : p n with
      | false => rw [ga_cnt_succ_false p n hp] at h; omega
      | true =>
        rw [ga_cnt_succ_true p n hp] at h
        exact ⟨n, by omega, hp, by omega⟩

/-! ## the loop invariant -/

structure ga_Inv (s t : St) (i : Nat) : Prop where
  base : Base t
  rest : ∀ j, i ≤ j → nd t j = nd s j
  slot : ∀ q, q < i → lf s q = true →
    lf t (cntP (lf s) q) = true ∧ ch t (cntP (lf s) q) = ch s q ∧
      fr t (cntP (lf s) q) = (fr s q + 1) / 2

/-- the state after one gathering write -/
def ga_wr (t : St) (i m : Nat) : St :=
  { t with nodes := t.nodes.setIfInBounds m
             { nd t m with leaf := true, child := (nd t i).child, freq := (((nd t i).freq + 1) % 65536) / 2 } }

theorem ga_exec_leaf (t : St) (k i m : Nat) (hi : i < t.nodes.size) (hm : m < t.nodes.size)
    (hl : (nd t i).leaf = true) :
    gatherLeaves (k + 1) i m t = gatherLeaves k (i + 1) (m + 1) (ga_wr t i m) := by
  unfold ga_wr
  rw [gatherLeaves]
  rw [getNode_ok _ _ _ hi]
  simp only [ok_bind, hl, if_true]
  rw [getNode_ok _ _ _ hm]
  simp only [ok_bind]
  rw [setNode_ok _ _ _ _ hm]
  simp only [ok_bind]

theorem ga_exec_branch (t : St) (k i m : Nat) (hi : i < t.nodes.size)
    (hl : (nd t i).leaf = false) :
    gatherLeaves (k + 1) i m t = gatherLeaves k (i + 1) m t := by
  rw [gatherLeaves]
  rw [getNode_ok _ _ _ hi]
  simp [ok_bind, hl]

theorem ga_step_branch (s t : St) (i : Nat) (h : ga_Inv s t i) (hl : lf s i = false) :
    ga_Inv s t (i + 1) :=
  { base := h.base
    rest := fun j hj => h.rest j (by omega)
    slot := fun q hq hlq => by
      by_cases he : q = i
      · subst he; rw [hl] at hlq; cases hlq
      · exact h.slot q (by omega) hlq }

theorem ga_step_leaf (s t : St) (i : Nat) (hi : i < 627) (h : ga_Inv s t i) (hl : lf s i = true)
    (hf : fr s i ≤ 32768) :
    ga_Inv s (ga_wr t i (cntP (lf s) i)) (i + 1) := by
  unfold ga_wr
  have hm : cntP (lf s) i ≤ i := cntP_le _ _
  have hsz : cntP (lf s) i < t.nodes.size := by rw [h.base.nodes]; omega
  have hri := h.rest i (Nat.le_refl _)
  refine ⟨?_, ?_, ?_⟩
  · exact h.base.congr (by simp) rfl rfl rfl rfl rfl rfl rfl rfl
  · intro j hj
    rw [nd_set _ _ _ _ hsz]
    have : j ≠ cntP (lf s) i := by omega
    simp only [this, if_false]
    exact h.rest j (by omega)
  · intro q hq hlq
    simp only [lf, ch, fr]
    rw [nd_set _ _ _ _ hsz]
    by_cases he : q = i
    · subst he
      simp only [if_true, hri]
      refine ⟨trivial, trivial, ?_⟩
      have hf' : (nd s q).freq ≤ 32768 := hf
      omega
    · have hlt : cntP (lf s) q < cntP (lf s) i := ga_cnt_lt _ (by omega) hlq
      have : cntP (lf s) q ≠ cntP (lf s) i := by omega
      simp only [this, if_false]
      exact h.slot q (by omega) hlq

theorem ga_loop (s : St) (hf : ∀ i, i < 627 → fr s i ≤ 32768) :
    ∀ k i t, k + i = 627 → ga_Inv s t i →
      ∃ s1, gatherLeaves k i (cntP (lf s) i) t = .ok s1 ∧ ga_Inv s s1 627 := by
  intro k
  induction k with
  | zero =>
    intro i t hk h
    have : i = 627 := by omega
    subst this
    exact ⟨t, by rw [gatherLeaves], h⟩
  | succ k ih =>
    intro i t hk h
    have hi : i < 627 := by omega
    have hsz : i < t.nodes.size := by rw [h.base.nodes]; exact hi
    have hri := h.rest i (Nat.le_refl _)
    cases hl : lf s i with
    | false =>
      have hl' : (nd t i).leaf = false := by rw [hri]; exact hl
      rw [ga_exec_branch t k i _ hsz hl']
      have := ih (i + 1) t (by omega) (ga_step_branch s t i h hl)
      rw [ga_cnt_succ_false _ _ hl] at this
      exact this
    | true =>
      have hl' : (nd t i).leaf = true := by rw [hri]; exact hl
      have hm : cntP (lf s) i ≤ i := cntP_le _ _
      have hmz : cntP (lf s) i < t.nodes.size := by rw [h.base.nodes]; omega
      rw [ga_exec_leaf t k i _ hsz hmz hl']
      have := ih (i + 1) _ (by omega) (ga_step_leaf s t i hi h hl (hf i hi))
      rw [ga_cnt_succ_true _ _ hl] at this
      exact this

/-! ## from the final invariant to `Gathered` -/

theorem ga_total (s t : St) (h : ga_Inv s t 627) : ∀ n, n ≤ 627 →
    2 * sumTo (fr t) (cntP (lf s) n) ≤
      sumTo (fun j => if lf s j then fr s j else 0) n + cntP (lf s) n := by
  intro n
  induction n with
  | zero => intro _; simp [sumTo, cntP]
  | succ n ih =>
    intro hn
    have ih' := ih (by omega)
    cases hl : lf s n with
    | false =>
      rw [ga_cnt_succ_false _ _ hl]
      simp only [sumTo, hl]
      simp only [Bool.false_eq_true, if_false]
      omega
    | true =>
      rw [ga_cnt_succ_true _ _ hl]
      have h3 := (h.slot n (by omega) hl).2.2
      simp only [sumTo, hl, if_true]
      rw [h3]
      omega

theorem ga_final (s t : St) (ht : Tree (lf s) (ch s) (pa s) (fr s) (ln s) 0)
    (hs : Sorted (fr s)) (h : ga_Inv s t 627) : Gathered t := by
  have hcov : ∀ a, a < 314 → ∃ q, q < 627 ∧ lf s q = true ∧ cntP (lf s) q = a := by
    intro a ha
    exact ga_cnt_cover (lf s) 627 a (by rw [ht.nleaf]; exact ha)
  have hf : ∀ i, i < 627 → fr s i ≤ 32768 := fun i hi =>
    Nat.le_trans (hs.le (Nat.zero_le i) hi) ht.top
  refine ⟨h.base, ?_, ?_, ?_, ?_, ?_⟩
  · intro k hk
    obtain ⟨q, hq, hl, hc⟩ := hcov k hk
    have h1 := h.slot q hq hl
    rw [hc] at h1
    have h2 := ht.le q hq hl
    have h3 := ht.pos q hq
    refine ⟨h1.1, by rw [h1.2.1]; exact h2.1, by rw [h1.2.2]; omega⟩
  · intro k hk
    obtain ⟨q, hq, hl, hc⟩ := hcov k (by omega)
    obtain ⟨q', hq', hl', hc'⟩ := hcov (k + 1) hk
    have h1 := h.slot q hq hl
    have h1' := h.slot q' hq' hl'
    rw [hc] at h1; rw [hc'] at h1'
    have hlt : q < q' := by
      apply Nat.lt_of_not_le
      intro hle
      have := ga_cnt_mono (lf s) hle
      omega
    have := hs.le (Nat.le_of_lt hlt) hq'
    rw [h1.2.2, h1'.2.2]
    omega
  · intro j k hj hk he
    obtain ⟨q, hq, hl, hc⟩ := hcov j hj
    obtain ⟨q', hq', hl', hc'⟩ := hcov k hk
    have h1 := h.slot q hq hl
    have h1' := h.slot q' hq' hl'
    rw [hc] at h1; rw [hc'] at h1'
    rw [h1.2.1, h1'.2.1] at he
    have h2 := (ht.le q hq hl).2
    have h2' := (ht.le q' hq' hl').2
    rw [he] at h2
    have : q = q' := by omega
    subst this
    omega
  · intro c hc
    have h1 := ht.cd c hc
    have h2 := h.slot (ln s c) h1.1 h1.2.1
    have h3 := ga_cnt_lt (lf s) h1.1 h1.2.1
    rw [ht.nleaf] at h3
    exact ⟨_, h3, by rw [h2.2.1]; exact h1.2.2⟩
  · have h1 := ga_total s t h 627 (Nat.le_refl _)
    rw [ht.nleaf] at h1
    have h2 := ht.lsum
    simp only [leafSum] at h2
    have h3 := ht.top
    simp at h2
    omega

theorem gather_spec (s : St) (hb : Base s) (ht : Tree (lf s) (ch s) (pa s) (fr s) (ln s) 0)
    (hs : Sorted (fr s)) : ∃ s1, gatherLeaves numNodes 0 0 s = .ok s1 ∧ Gathered s1 := by
  have hf : ∀ i, i < 627 → fr s i ≤ 32768 := fun i hi =>
    Nat.le_trans (hs.le (Nat.zero_le i) hi) ht.top
  have h0 : ga_Inv s s 0 :=
    { base := hb, rest := fun _ _ => rfl, slot := fun q hq => by omega }
  obtain ⟨s1, h1, h2⟩ := ga_loop s hf 627 0 s rfl h0
  exact ⟨s1, h1, ga_final s s1 ht hs h2⟩

end LhasaV.Lh1
