import LhasaV.Lemmas.ExtractTreeFlatAll6
/-!
# C06 — option `i` TOGETHER with the other deviations from the plain case

Umbrella for `ExtractTreeFlatAll1` … `ExtractTreeFlatAll6` (namespaces `LhasaV.ExtractTree`,
`LhasaV.ArchiveOf`).  `extract_unified` (ExtractTreeAll) is ONE theorem for wildcards × `w=DIR` ×
implicit parents × late directory entries × overwrite policy — for `usePath = true`; option `i` was
left with `run_tree_flat` (ExtractTreeOpt11: `i` [∘ `w=DIR`] into an EMPTY place).  Here the missing
combination: `i` (`usePath = false`) with wildcards, `w=DIR`, pre-existing regular files and the
overwrite policy.  (Implicit parents and late directory entries do not exist under `i`: every
selected file / link lands directly in the base, directory entries are ignored before anything is
looked at — so NO order condition on the archive is needed, only `EntryOk` per entry.)

1. **Design** (`FlatAll1`).  No new file-system invariant: `FsInvU` (ExtractTreeAll1) with an empty
   directory stack over the FLATTENED entries written so far (`Entry.flat`), `FsPhU` / `BaseU` /
   `BaseRefU` as they are.  `PreAtF` (the flattened place is free, or a regular file member meets a
   regular file), `AskedF`, `FlatInvU`.  `entry_facts_flat` IS `entry_facts_u` (ExtractTreeAll4),
   applied to the flattened entry in a state whose options say `usePath = true` (that lemma speaks
   about `make_parent_directories` / `lha_arch_exists` on the STRING `fullOf (e.flat.reloc ds)` only,
   and `fullPath_flat` says this is the string `file_full_path` builds under `i`).
   `step_write_flat` (`FsInvU.step` + `entry_created_at` / `file_over_created`, which look at kind,
   permissions and time of the header, not at its path), `step_keep_flat`.
2. **Loop** (`FlatAll2`).  **`loop_flat_u`**: the written entries are `plan` (ExtractTreeOw3, the
   independent specification of the policy) of `flatSel` (flattened selected files and links, archive
   order) of the entries to come; aborted exactly when the plan is.
3. **Theorems** (`FlatAll3`).  `flatPlan`, `FlatOutcome` (tree = `owTree`: archived object where
   the plan writes, else what was there), `flatPlan_mem` / `_sublist` / `_nil` / `_empty` / `_all`,
   `flatOutcome_no_dir` (no directory below the base afterwards), **`extract_tree_flat_unified`**,
   **`run_tree_flat_unified`** (reader hypothesis `DenotesF`).
4. **On bytes** (`FlatAll4`).  **`extract_archiveWith_flat_unified`** / **`extract_archiveOf_flat_unified`**
   (via `archiveWith_denotesF`); `extract_archiveOf_flat_of_unified` (= the statement of
   `extract_archiveOf_flat`, i.e. Props/C06 `extract_flattened`), `extract_archiveOf_flat_reloc_of_unified`.
5. **Non-vacuity** (`FlatAll5`): `sample_flat_n` / `_y` / `_eof` / `_f` (`i` ∘ `w=out` ∘ old `out/x`),
   `sample_flat_star_y` (`i` ∘ `*y`), `sample_flat_star_y_out` (`i` ∘ `*y` ∘ `w=out`, `out` made).
6. **Evaluable hypotheses and `#guard`s** (`FlatAll6`): `hypsF`, `flat_unified_checked` (the evaluated
   hypotheses give the conclusion), `agreesF` over the combinations; the model outside the domain.

Domain limits (all `#guard`ed in `FlatAll6`): two selected files / links of the same NAME (a second
file is asked about, a second link replaces silently — `lha_arch_symlink` unlinks first); a selected
LINK at the name of an old regular file (replaced without asking; the specification `flatPlan` says
the same, only the proof stops there); pre-existing DIRECTORIES below the base; `DIR` a regular file.
-/

#print axioms LhasaV.ExtractTree.entry_facts_flat
#print axioms LhasaV.ExtractTree.step_write_flat
#print axioms LhasaV.ExtractTree.loop_flat_u
#print axioms LhasaV.ExtractTree.flatOutcome_no_dir
#print axioms LhasaV.ExtractTree.extract_tree_flat_unified
#print axioms LhasaV.ExtractTree.run_tree_flat_unified
#print axioms LhasaV.ArchiveOf.extract_archiveWith_flat_unified
#print axioms LhasaV.ArchiveOf.extract_archiveOf_flat_unified
#print axioms LhasaV.ArchiveOf.extract_archiveOf_flat_of_unified
#print axioms LhasaV.ArchiveOf.extract_archiveOf_flat_reloc_of_unified
#print axioms LhasaV.ArchiveOf.extract_archiveOf_flat_dirs_only
#print axioms LhasaV.ArchiveOf.FlatCheck.flat_unified_checked
#print axioms LhasaV.ArchiveOf.sample_flat_n
#print axioms LhasaV.ArchiveOf.sample_flat_y
#print axioms LhasaV.ArchiveOf.sample_flat_eof
#print axioms LhasaV.ArchiveOf.sample_flat_f
#print axioms LhasaV.ArchiveOf.sample_flat_star_y
#print axioms LhasaV.ArchiveOf.sample_flat_star_y_out
