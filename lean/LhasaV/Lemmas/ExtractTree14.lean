import LhasaV.Lemmas.ExtractTree13
/-!
# C06 (part 14): the hypotheses are decidable; a concrete two-level tree

* `WellFormed` is decidable (`decide` proves it for concrete entry lists).
* `denotesB` is an executable check of `Denotes` (run the reader, compare headers and decoded
  bytes with the entry list); `denotesB_sound` : `denotesB … = true → Denotes …`.
* non-vacuity: a two-level tree with read-only directories, a link and files.
* a finding: a directory entry that arrives when the directory already exists never gets its
  recorded metadata (`extract_dir_existing`).
-/
namespace LhasaV.ExtractTree
open LhasaV LhasaV.Header LhasaV.Extract LhasaV.GlobFs LhasaV.Contain

/-! ## decidability of `WellFormed` -/

instance (s : Bytes) : Decidable (NoSlash s) := inferInstanceAs (Decidable (∀ b ∈ s, b ≠ 0x2f))
instance (c : Bytes) : Decidable (GlobFs.Good c) :=
  inferInstanceAs (Decidable (c ≠ [] ∧ c ≠ [0x2e] ∧ c ≠ [0x2e, 0x2e]))
instance (c : Bytes) : Decidable (Name c) := inferInstanceAs (Decidable (NoSlash c ∧ GlobFs.Good c))
instance (t : Bytes) : Decidable (SafeTarget t) :=
  inferInstanceAs (Decidable (t.head? ≠ some 0x2f ∧ ∀ c ∈ Fs.splitPath t, c ≠ [0x2e, 0x2e]))

/-- the link condition of `EntryOk`, by cases -/
def safeB : Entry → Bool
  | .link _ t => decide (SafeTarget t)
  | _ => true

theorem entryOk_iff (e : Entry) :
    EntryOk e ↔ (e.path ≠ [] ∧ (∀ c ∈ e.path, Name c) ∧ e.path.length < 64 ∧ safeB e = true) := by
  constructor
  · intro h
    refine ⟨h.ne, h.names, h.depth, ?_⟩
    cases e with
    | link p t => simpa [safeB] using h.safe p t rfl
    | dir _ _ _ => rfl
    | file _ _ _ _ => rfl
  · rintro ⟨h1, h2, h3, h4⟩
    refine ⟨h1, h2, h3, ?_⟩
    intro p t he
    subst he
    simpa [safeB] using h4

instance (e : Entry) : Decidable (EntryOk e) := decidable_of_iff _ (entryOk_iff e).symm

instance decWF : ∀ (stk seen : List Fs.Path) (es : List Entry), Decidable (WF stk seen es)
  | _, _, [] => isTrue trivial
  | stk, seen, e :: es =>
    have := decWF (if e.isDir then e.path :: popStk stk e.dirPart else popStk stk e.dirPart)
      (seen ++ [e.path]) es
    inferInstanceAs (Decidable (EntryOk e ∧ e.path ∉ seen ∧
      (popStk stk e.dirPart).head?.getD [] = e.path.dropLast ∧
      WF (if e.isDir then e.path :: popStk stk e.dirPart else popStk stk e.dirPart) (seen ++ [e.path]) es))

instance (es : List Entry) : Decidable (WellFormed es) := decWF [] [] es

/-! ## an executable check of `Denotes` -/

def hdrOfB (e : Entry) (h : Hdr) : Bool :=
  (h.path.getD [] == joinDir e.dirPart) && (h.filename.getD [] == e.namePart) &&
  match e with
  | .dir _ perms mtime =>
    h.method == lhd && h.symlinkTarget.isNone && permsOf h == perms && h.timestamp == mtime
  | .file _ _ perms mtime =>
    h.method != lhd && h.symlinkTarget.isNone && permsOf h == perms && h.timestamp == mtime
  | .link _ target => h.method == lhd && h.symlinkTarget == some target

theorem hdrOfB_sound (e : Entry) (h : Hdr) (hb : hdrOfB e h = true) : HdrOf e h := by
  unfold hdrOfB at hb
  simp only [Bool.and_eq_true, beq_iff_eq] at hb
  obtain ⟨⟨h1, h2⟩, h3⟩ := hb
  refine ⟨h1, h2, ?_⟩
  cases e with
  | dir p perms mtime =>
    simp only [Bool.and_eq_true, beq_iff_eq, Option.isNone_iff_eq_none] at h3
    exact ⟨h3.1.1.1, h3.1.1.2, h3.1.2, h3.2⟩
  | file p data perms mtime =>
    simp only [Bool.and_eq_true, beq_iff_eq, Option.isNone_iff_eq_none, bne_iff_ne, ne_eq] at h3
    exact ⟨h3.1.1.1, h3.1.1.2, h3.1.2, h3.2⟩
  | link p t =>
    simp only [Bool.and_eq_true, beq_iff_eq] at h3
    exact ⟨h3.1, h3.2⟩

def pendingB (bc : Option Reader.HObj) (rest : List Entry) : Bool :=
  match rest, bc with
  | [], none => true
  | e :: _, some c => hdrOfB e c.h
  | _, _ => false

theorem pendingB_sound (bc : Option Reader.HObj) (rest : List Entry) (h : pendingB bc rest = true) :
    Pending bc rest := by
  unfold pendingB at h
  unfold Pending
  split at h
  · rfl
  · rename_i e tl c
    exact ⟨c, rfl, hdrOfB_sound e c.h h⟩
  · cases h

/-- what a regular file must decode to -/
def decodesB (rd' : Reader.St) : List Entry → Bool
  | .file _ data _ _ :: _ => (Reader.openDecoder rd').1 && ((Reader.extract rd' true).1 == (true, data))
  | _ => true

/-- run the reader along the extraction loop and compare with the entry list -/
def denotesB : Nat → Extract.St → List Entry → Bool
  | 0, _, _ => true
  | fuel+1, s, es =>
    if s.aborted then true else
    match Reader.next s.rd with
    | .error _ => false
    | .ok (oc, rd') =>
      (if s.rd.currType == .start || s.rd.currType == .normal then pendingB rd'.basic.curr es else true) &&
      match oc with
      | none => true
      | some c =>
        (if rd'.currType == .normal then decodesB rd' es else true) &&
        denotesB fuel (extractArchivedFile { s with rd := rd' } c.h)
          (if rd'.currType = .normal then es.tail else es)

/-- **the check is sound**: an archive that passes it denotes the entry list -/
theorem denotesB_sound : ∀ (fuel : Nat) (s : Extract.St) (es : List Entry),
    denotesB fuel s es = true → Denotes fuel s es := by
  intro fuel
  induction fuel with
  | zero => intro s es _; trivial
  | succ n ih =>
    intro s es h ha
    unfold denotesB at h
    rw [if_neg (by rw [ha]; simp)] at h
    cases hn : Reader.next s.rd with
    | error w => rw [hn] at h; cases h
    | ok r =>
      obtain ⟨oc, rd'⟩ := r
      rw [hn] at h
      simp only [Bool.and_eq_true] at h
      obtain ⟨h1, h2⟩ := h
      refine ⟨oc, rd', rfl, ?_, ?_⟩
      · intro ht
        have : (s.rd.currType == .start || s.rd.currType == .normal) = true := by
          rcases ht with ht | ht <;> rw [ht] <;> rfl
        rw [if_pos this] at h1
        exact pendingB_sound _ _ h1
      · intro c hc
        subst hc
        simp only [Bool.and_eq_true] at h2
        obtain ⟨h3, h4⟩ := h2
        refine ⟨?_, ih _ _ h4⟩
        intro hty p data perms mtime tl hes
        rw [hty] at h3
        simp only [beq_self_eq_true, if_true] at h3
        subst hes
        simp only [decodesB, Bool.and_eq_true, beq_iff_eq] at h3
        exact h3

/-! ## a finding: a directory entry for a directory that already exists -/

/-- **Finding.**  When a directory entry arrives and the directory already exists — it was made
by `make_parent_directories` for an earlier member, or it was there before the run —
`lha_reader_extract` reports success, changes nothing, and does NOT put the entry on the
directory stack: the recorded permission bits and time stamp of that directory are never
applied.  (Archives that store a directory after its contents extract "successfully" with a
directory mode of 0755 under the umask and the time of the run.) -/
theorem extract_dir_existing (rd : Reader.St) (fs : Fs.St) (fn : Bytes) (cs : List Bytes)
    (c : Reader.HObj) (ht : rd.currType = .normal) (hc : rd.curr = some c)
    (hm : c.h.method = lhd) (hs : c.h.symlinkTarget = none)
    (hT : Target fs fn cs) (m t : Nat) (hl : Fs.lookup fs (fs.cwd ++ cs) = some (.dir m t)) :
    readerExtract rd fs fn = (true, rd, fs) := by
  have hmk : ∀ mode, Fs.mkdir fs fn mode = (false, fs) := by
    intro mode
    unfold Fs.mkdir
    rw [hT.resolve_nofollow]
    simp [hT.q_ne, hl]
  have hr : Reader.extract rd false = ((false, []), rd) := by
    unfold Reader.extract
    rw [ht, hc]
    simp only [hm, bne_self_eq_false, Bool.false_eq_true, if_false, hs, Option.isSome_none,
      Bool.not_false, if_true]
  unfold readerExtract
  rw [ht, hc]
  simp only [hm, bne_self_eq_false, Bool.false_eq_true, if_false, hs, Option.isSome_none, hmk,
    Bool.not_false, if_true, existsKind_dir hT m t hl, hr]
  rfl

/-! ## non-vacuity: a two-level tree -/

/-- `a/` (0555, time 111), `a/x`, `a/b/` (0555, time 222), `a/b/y`, `a/b/l -> y`, `z` -/
def sampleTree : List Entry :=
  [ .dir [[0x61]] (some 0o40555) 111,
    .file [[0x61], [0x78]] [0x68, 0x69] (some 0o100644) 333,
    .dir [[0x61], [0x62]] (some 0o40555) 222,
    .file [[0x61], [0x62], [0x79]] [0x79, 0x79] (some 0o100600) 444,
    .link [[0x61], [0x62], [0x6c]] [0x79],
    .file [[0x7a]] [0x7a] none 0 ]

example : WellFormed sampleTree := by decide

/-- the directory after its contents is NOT well-formed … -/
example : ¬ WellFormed [.file [[0x61], [0x78]] [] none 0, .dir [[0x61]] (some 0o40555) 111] := by decide

/-- … nor is a directory whose contents are interrupted by an entry outside it -/
example : ¬ WellFormed [.dir [[0x61]] (some 0o40555) 111, .file [[0x7a]] [] none 0,
    .file [[0x61], [0x78]] [] none 0] := by decide

/-- the expected tree: the read-only directory `a/b` with its recorded mode and time … -/
example : treeOf 999 0o022 sampleTree [[0x61], [0x62]] = some (.dir 0o555 222) := by decide
/-- … a file with contents, mode, time … -/
example : treeOf 999 0o022 sampleTree [[0x61], [0x62], [0x79]] = some (.file [0x79, 0x79] 0o600 444) := by
  decide
/-- … a file without recorded permissions or time: 0600 under the umask, the time of the run … -/
example : treeOf 999 0o022 sampleTree [[0x7a]] = some (.file [0x7a] 0o600 999) := by decide
/-- … the link, and nothing at a path that is not in the archive -/
example : treeOf 999 0o022 sampleTree [[0x61], [0x62], [0x6c]] = some (.link [0x79]) := by decide
example : treeOf 999 0o022 sampleTree [[0x61], [0x71]] = none := by decide

/-- an empty extraction directory for an ordinary user -/
def sampleFs : Fs.St := { root := false, cwd := [[0x72]], ents := [([[0x72]], .dir 0o755 1000)] }

example : EmptyDir sampleFs := by
  refine ⟨⟨0o755, 1000, by decide, Or.inr (by decide)⟩, ?_⟩
  intro p hp
  cases p with
  | nil => exact absurd rfl hp
  | cons c cs => simp [Fs.lookup, sampleFs]

example : Access sampleFs := access_user_022 sampleFs rfl

end LhasaV.ExtractTree
