import LhasaV.Lemmas.Lh1Mirror10
/-!
# C02, layer 11: the tree operations leave the bit reader, the ring buffer and the offset
tables alone (frame lemmas for `increment_for_code`)
-/
namespace LhasaV.Lh1Mirror
open LhasaV LhasaV.Lh1 LhasaV.Res

/-- the fields no tree operation touches -/
structure Frame (s s' : St) : Prop where
  bits : s'.bits = s.bits
  ring : s'.ring = s.ring
  pos : s'.pos = s.pos
  olk : s'.offsetLookup = s.offsetLookup
  oln : s'.offsetLengths = s.offsetLengths

theorem Frame.refl (s : St) : Frame s s := ⟨rfl, rfl, rfl, rfl, rfl⟩
theorem Frame.trans {a b c : St} (h1 : Frame a b) (h2 : Frame b c) : Frame a c :=
  ⟨h2.bits.trans h1.bits, h2.ring.trans h1.ring, h2.pos.trans h1.pos, h2.olk.trans h1.olk,
   h2.oln.trans h1.oln⟩

/-- `r` keeps the frame of `s` -/
def FrS (s : St) (r : Res St) : Prop := ∀ s', r = .ok s' → Frame s s'
/-- `r` (returning a value and a state) keeps the frame of `s` -/
def FrP {α : Type} (s : St) (r : Res (α × St)) : Prop := ∀ a s', r = .ok (a, s') → Frame s s'
/-- `r` (returning two values and a state) keeps the frame of `s` -/
def FrT {α β : Type} (s : St) (r : Res (α × β × St)) : Prop :=
  ∀ a b s', r = .ok (a, b, s') → Frame s s'

theorem frS_ok (s : St) : FrS s (.ok s) := fun s' h => by cases h; exact Frame.refl _
theorem frS_ok' {s s1 : St} (h : Frame s s1) : FrS s (.ok s1) := fun s' e => by cases e; exact h
theorem frS_pure (s : St) : FrS s (pure s) := frS_ok s
theorem frS_fault (s : St) (w : String) : FrS s (.fault w) := fun s' h => by cases h
theorem frS_fail (s : St) : FrS s .fail := fun s' h => by cases h
theorem frP_ok {α} (s : St) (a : α) : FrP s (.ok (a, s)) := fun a' s' h => by cases h; exact Frame.refl _
theorem frP_pure {α} (s : St) (a : α) : FrP s (pure (a, s)) := frP_ok s a
theorem frP_fault {α} (s : St) (w : String) : FrP (α := α) s (.fault w) := fun a s' h => by cases h
theorem frT_ok {α β} (s : St) (a : α) (b : β) : FrT s (.ok (a, b, s)) :=
  fun a' b' s' h => by cases h; exact Frame.refl _
theorem frT_pure {α β} (s : St) (a : α) (b : β) : FrT s (pure (a, b, s)) := frT_ok s a b
theorem frT_fault {α β} (s : St) (w : String) : FrT (α := α) (β := β) s (.fault w) :=
  fun a b s' h => by cases h

theorem frS_bind {s : St} {x : Res St} {f : St → Res St} (hx : FrS s x) (hf : ∀ s1, FrS s1 (f s1)) :
    FrS s (x >>= f) := by
  intro s' h
  obtain ⟨s1, e1, e2⟩ := bind_eq_ok.1 h
  exact (hx s1 e1).trans (hf s1 s' e2)

theorem frS_bindP {α} {s : St} {x : Res (α × St)} {f : α × St → Res St} (hx : FrP s x)
    (hf : ∀ a s1, FrS s1 (f (a, s1))) : FrS s (x >>= f) := by
  intro s' h
  obtain ⟨⟨a, s1⟩, e1, e2⟩ := bind_eq_ok.1 h
  exact (hx a s1 e1).trans (hf a s1 s' e2)

theorem frS_bindT {α β} {s : St} {x : Res (α × β × St)} {f : α × β × St → Res St} (hx : FrT s x)
    (hf : ∀ a b s1, FrS s1 (f (a, b, s1))) : FrS s (x >>= f) := by
  intro s' h
  obtain ⟨⟨a, b, s1⟩, e1, e2⟩ := bind_eq_ok.1 h
  exact (hx a b s1 e1).trans (hf a b s1 s' e2)

theorem frS_bindV {α} {s : St} {x : Res α} {f : α → Res St} (hf : ∀ a, FrS s (f a)) :
    FrS s (x >>= f) := by
  intro s' h
  obtain ⟨a, _, e2⟩ := bind_eq_ok.1 h
  exact hf a s' e2

theorem frP_bind {α} {s : St} {x : Res St} {f : St → Res (α × St)} (hx : FrS s x)
    (hf : ∀ s1, FrP s1 (f s1)) : FrP s (x >>= f) := by
  intro a s' h
  obtain ⟨s1, e1, e2⟩ := bind_eq_ok.1 h
  exact (hx s1 e1).trans (hf s1 a s' e2)

theorem frP_bindV {α β} {s : St} {x : Res β} {f : β → Res (α × St)} (hf : ∀ b, FrP s (f b)) :
    FrP s (x >>= f) := by
  intro a s' h
  obtain ⟨b, _, e2⟩ := bind_eq_ok.1 h
  exact hf b a s' e2

theorem frT_bind {α β} {s : St} {x : Res St} {f : St → Res (α × β × St)} (hx : FrS s x)
    (hf : ∀ s1, FrT s1 (f s1)) : FrT s (x >>= f) := by
  intro a b s' h
  obtain ⟨s1, e1, e2⟩ := bind_eq_ok.1 h
  exact (hx s1 e1).trans (hf s1 a b s' e2)

theorem frT_bindV {α β γ} {s : St} {x : Res γ} {f : γ → Res (α × β × St)} (hf : ∀ c, FrT s (f c)) :
    FrT s (x >>= f) := by
  intro a b s' h
  obtain ⟨c, _, e2⟩ := bind_eq_ok.1 h
  exact hf c a b s' e2

/-! ## primitives -/

theorem setNode_fr (s : St) (site : String) (i : Nat) (n : Node) : FrS s (setNode s site i n) := by
  unfold setNode
  split
  · exact frS_ok' ⟨rfl, rfl, rfl, rfl, rfl⟩
  · exact frS_fault _ _

theorem setLeafNode_fr (s : St) (site : String) (i v : Nat) : FrS s (setLeafNode s site i v) := by
  unfold setLeafNode
  split
  · exact frS_ok' ⟨rfl, rfl, rfl, rfl, rfl⟩
  · exact frS_fault _ _

theorem setGroupLeader_fr (s : St) (site : String) (i v : Nat) : FrS s (setGroupLeader s site i v) := by
  unfold setGroupLeader
  split
  · exact frS_ok' ⟨rfl, rfl, rfl, rfl, rfl⟩
  · exact frS_fault _ _

theorem freeGroup_fr (s : St) (g : Nat) : FrS s (freeGroup s g) := by
  unfold freeGroup
  split
  · exact frS_fault _ _
  · split
    · exact frS_ok' ⟨rfl, rfl, rfl, rfl, rfl⟩
    · exact frS_fault _ _

theorem allocGroup_fr (s : St) : FrP s (allocGroup s) := by
  intro a s' h
  unfold allocGroup at h
  obtain ⟨g, _, e⟩ := bind_eq_ok.1 h
  cases e
  exact ⟨rfl, rfl, rfl, rfl, rfl⟩

/-! ## composite operations -/

/-- one step of the frame calculus -/
macro "fr_step" : tactic => `(tactic| first
  | assumption
  | exact frS_ok _ | exact frS_pure _ | exact frS_fault _ _ | exact frS_fail _
  | exact frP_ok _ _ | exact frP_pure _ _ | exact frP_fault _ _
  | exact frT_ok _ _ _ | exact frT_pure _ _ _ | exact frT_fault _ _
  | exact setNode_fr _ _ _ _ | exact setLeafNode_fr _ _ _ _ | exact setGroupLeader_fr _ _ _ _
  | exact freeGroup_fr _ _ | exact allocGroup_fr _
  | refine frS_bind ?_ (fun _ => ?_) | refine frS_bindP ?_ (fun _ _ => ?_)
  | refine frS_bindT ?_ (fun _ _ _ => ?_) | refine frS_bindV (fun _ => ?_)
  | refine frP_bind ?_ (fun _ => ?_) | refine frP_bindV (fun _ => ?_)
  | refine frT_bind ?_ (fun _ => ?_) | refine frT_bindV (fun _ => ?_)
  | dsimp only
  | split)

macro "fr_auto" : tactic => `(tactic| repeat (any_goals fr_step))

theorem fixLinks_fr (s : St) (idx : Nat) : FrS s (fixLinks s idx) := by
  unfold fixLinks
  fr_auto

macro_rules | `(tactic| fr_step) => `(tactic| exact fixLinks_fr _ _)

theorem makeGroupLeader_fr (s : St) (x : Nat) : FrP s (makeGroupLeader s x) := by
  unfold makeGroupLeader
  fr_auto

macro_rules | `(tactic| fr_step) => `(tactic| exact makeGroupLeader_fr _ _)

theorem incrementNodeFreq_fr (s : St) (x : Nat) : FrS s (incrementNodeFreq s x) := by
  unfold incrementNodeFreq
  fr_auto

macro_rules | `(tactic| fr_step) => `(tactic| exact incrementNodeFreq_fr _ _)

theorem gatherLeaves_fr (k : Nat) : ∀ (i leaf : Nat) (s : St), FrS s (gatherLeaves k i leaf s) := by
  induction k with
  | zero => intro i leaf s; rw [gatherLeaves]; exact frS_ok s
  | succ k ih =>
    intro i leaf s
    rw [gatherLeaves]
    repeat (any_goals (first | exact ih _ _ _ | fr_step))

macro_rules | `(tactic| fr_step) => `(tactic| exact gatherLeaves_fr _ _ _ _)

theorem placeLeaf_fr (s : St) (i leaf : Int) : FrS s (placeLeaf s i leaf) := by
  unfold placeLeaf
  fr_auto

macro_rules | `(tactic| fr_step) => `(tactic| exact placeLeaf_fr _ _ _)

theorem placeWhileClose_fr (k : Nat) : ∀ (i leaf child : Int) (s : St),
    FrT s (placeWhileClose k i leaf child s) := by
  induction k with
  | zero => intro i leaf child s; rw [placeWhileClose]; exact frT_ok _ _ _
  | succ k ih =>
    intro i leaf child s
    rw [placeWhileClose]
    repeat (any_goals (first | exact ih _ _ _ _ | fr_step))

macro_rules | `(tactic| fr_step) => `(tactic| exact placeWhileClose_fr _ _ _ _ _)

theorem placeWhileLighter_fr (k : Nat) : ∀ (i leaf : Int) (freq : Nat) (s : St),
    FrT s (placeWhileLighter k i leaf freq s) := by
  induction k with
  | zero => intro i leaf freq s; rw [placeWhileLighter]; exact frT_ok _ _ _
  | succ k ih =>
    intro i leaf freq s
    rw [placeWhileLighter]
    repeat (any_goals (first | exact ih _ _ _ _ | fr_step))

macro_rules | `(tactic| fr_step) => `(tactic| exact placeWhileLighter_fr _ _ _ _ _)

theorem rebuildLoop_fr (k : Nat) : ∀ (i leaf child : Int) (s : St),
    FrS s (rebuildLoop k i leaf child s) := by
  induction k with
  | zero => intro i leaf child s; rw [rebuildLoop]; exact frS_ok s
  | succ k ih =>
    intro i leaf child s
    rw [rebuildLoop]
    repeat (any_goals (first | exact ih _ _ _ _ | fr_step))

macro_rules | `(tactic| fr_step) => `(tactic| exact rebuildLoop_fr _ _ _ _ _)

theorem regroup_fr (k : Nat) : ∀ (i g : Nat) (s : St), FrS s (regroup k i g s) := by
  induction k with
  | zero => intro i g s; rw [regroup]; exact frS_ok s
  | succ k ih =>
    intro i g s
    rw [regroup]
    repeat (any_goals (first | exact ih _ _ _ | fr_step))

macro_rules | `(tactic| fr_step) => `(tactic| exact regroup_fr _ _ _ _)

theorem regroupAll_fr (s : St) : FrS s (regroupAll s) := by
  intro s' h
  unfold regroupAll at h
  generalize numNodes - 1 = k at h
  generalize Array.range Gen.lh1GroupsCap = R at h
  have h0 : Frame s { s with groups := R, numGroups := 0 } := ⟨rfl, rfl, rfl, rfl, rfl⟩
  refine h0.trans ?_
  revert s' h
  show FrS _ _
  fr_auto

theorem reconstructTree_fr (s : St) : FrS s (reconstructTree s) := by
  rw [reconstructTree_eq]
  exact frS_bind (gatherLeaves_fr _ _ _ _)
    (fun s1 => frS_bind (rebuildLoop_fr _ _ _ _ _) (fun s2 => regroupAll_fr s2))

theorem climb_fr (k : Nat) : ∀ (x : Nat) (s : St), FrS s (climb k x s) := by
  induction k with
  | zero => intro x s; rw [climb]; exact frS_fault _ _
  | succ k ih =>
    intro x s
    rw [climb]
    repeat (any_goals (first | exact ih _ _ | fr_step))

macro_rules | `(tactic| fr_step) => `(tactic| exact climb_fr _ _ _)

theorem ifcRest_fr (s : St) (c : Nat) : FrS s (ifcRest s c) := by
  unfold ifcRest
  generalize numNodes + 1 = k
  fr_auto

/-- `increment_for_code` leaves the bit reader, the ring and the offset tables alone -/
theorem incrementForCode_fr (s : St) (c : Nat) : FrS s (incrementForCode s c) := by
  rw [incrementForCode_eq]
  refine frS_bindV (fun root => frS_bind ?_ (fun s1 => ifcRest_fr s1 c))
  split
  · exact reconstructTree_fr s
  · exact frS_pure s

end LhasaV.Lh1Mirror
