import LhasaV.Lemmas.ToolNoFault1
import LhasaV.Lemmas.ToolNoFaultBuf
import LhasaV.Lemmas.ReaderIndep
/-!
# C08 at tool level, part 2: the reader never hides a decoder fault

`DecClean s`: the decoder the reader has open (plain, inside the MacBinary pass-through, or left
dangling by a failed pass-through set-up) is a decoder of the method table that is `Safe` within
its table `max_read`, and its totalised inner state is `Clean` — a state reached by successful
inner reads from some member source, or the decoder's own error return; never the mark of a fault.

`DecClean` is kept by every public operation (`openDecoder`, `read`, `check`, `extract`, `next`),
from ANY state.  Because an error state is never left (`Dec.total_error_sticky`) and no operation
but `close_decoder` drops the decoder, a fault in any inner read of an operation would still be
visible in the state the operation returns: `DecClean` after the operation says that none of the
inner reads it performed was a fault.

`Sound s` = `ReaderIndep.Good s` (ownership ledger, lead-in buffer, stream bookkeeping: what
`next_never_faults` rests on) ∧ `DecClean s`; `run_sound`: every history from a fresh reader.
-/
set_option linter.unusedSimpArgs false
namespace LhasaV.Reader
open LhasaV LhasaV.ReaderIndep LhasaV.ToolNoFault

/-- the open decoder `o`: a decoder of the table, safe within the `mr` bytes of output buffer its
table row gives it; its inner state is clean and its output buffer holds at most `mr` bytes -/
def OpenClean (o : Open) : Prop :=
  ∃ mr, Dec.SafeM o.d mr ∧
    ∀ ist, o.innerSt = some ist → Dec.Clean o.d ist.inner ∧ ist.pending.length ≤ mr

/-- no trace of a decoder fault in the reader state -/
def DecClean (s : St) : Prop := ∀ o, s.dec = some o → OpenClean o

theorem decClean_of_none {s : St} (h : s.dec = none) : DecClean s := by
  intro o ho; rw [h] at ho; cases ho

theorem openDecoder_clean {s : St} (h : DecClean s) : DecClean (openDecoder s).2 := by
  unfold openDecoder
  split
  · exact h
  · split
    · exact h
    · rename_i c hc
      split
      · rename_i d info hd hi
        have hM : Dec.SafeM d info.2.1 := safeM_of_lookup hd hi
        have hQ := fun x hx => Dec.total_clean hM.safe x hx
        have hL := fun x hx => Dec.total_len hM.safe x hx
        have h0 : Fits (Dec.Clean d) info.2.1
            ({ inner := .ok (d.init (memberSrc s.basic)), length := c.h.length, blockSize := info.2.2 } :
              Wrap.St (Except String d.σ)) := ⟨Dec.clean_init d _, Nat.zero_le _⟩
        split
        · dsimp only
          have hk := macInit_fits d.total (Dec.Clean d) hQ info.2.1 hL c.h _ h0
          split
          · exact decClean_of_none (closeDecoder_dec _)
          · rename_i mac hm
            intro o ho; cases ho
            exact ⟨_, hM, fun ist hi => by cases hi; exact hk.2 mac hm⟩
        · intro o ho; cases ho
          exact ⟨_, hM, fun ist hi => by cases hi; exact h0⟩
      · exact h

theorem readCore_clean {s : St} (h : DecClean s) (k : Nat) : DecClean (readCore s k).2 := by
  unfold readCore
  split
  · exact h
  · rename_i o ho
    obtain ⟨mr, hM, hI⟩ := h o ho
    have hQ := fun x hx => Dec.total_clean hM.safe x hx
    have hL := fun x hx => Dec.total_len hM.safe x hx
    split
    · rename_i _ _ st hpl
      intro o' h'; cases h'
      refine ⟨mr, hM, fun ist hi => ?_⟩
      cases hi
      exact wread_fits o.d.total (Dec.Clean o.d) hQ mr hL k st (hI st (by simp [Open.innerSt, hpl]))
    · rename_i m hpl hm
      intro o' h'; cases h'
      refine ⟨mr, hM, fun ist hi => ?_⟩
      have e : ist = (Wrap.read (macRead o.d.total) k m).2.inner.inner := by
        simp only [Open.innerSt, hpl] at hi
        cases hi; rfl
      rw [e]
      exact wread_keeps (macRead o.d.total) (fun x => Fits (Dec.Clean o.d) mr x.inner)
        (fun x hx => macRead_fits o.d.total (Dec.Clean o.d) hQ mr hL x hx) k m
        (hI m.inner.inner (by simp [Open.innerSt, hpl, hm]))
    · exact h

theorem read_clean {s : St} (h : DecClean s) (k : Nat) : DecClean (read s k).2 := by
  rw [read_eq]
  split
  · split
    · exact readCore_clean h k
    · exact h
  · split
    · exact readCore_clean (openDecoder_clean h) k
    · exact openDecoder_clean h

theorem decodeLoop_clean (fuel : Nat) {s : St} (h : DecClean s) (acc : List UInt8) :
    DecClean (decodeLoop fuel s acc).2 := by
  induction fuel generalizing s acc with
  | zero => exact h
  | succ n ih =>
    unfold decodeLoop
    dsimp only
    split
    · exact read_clean h 64
    · exact ih (read_clean h 64) _

theorem check_clean {s : St} (h : DecClean s) : DecClean (check s).2 := by
  unfold check
  split
  · exact h
  · split
    · exact h
    · split
      · exact h
      · dsimp only
        split
        · exact openDecoder_clean h
        · exact decodeLoop_clean _ (openDecoder_clean h) _

theorem extract_clean {s : St} (h : DecClean s) (fsOk : Bool) : DecClean (extract s fsOk).2 := by
  unfold extract
  split
  · split
    · dsimp only
      split
      · exact openDecoder_clean h
      · split
        · exact openDecoder_clean h
        · exact decodeLoop_clean _ (openDecoder_clean h) _
    · split
      · split
        · split
          · exact h
          · exact h
        · exact h
      · split
        · exact h
        · split
          · exact h
          · exact h
  · exact h
  · exact h
  · exact h

/-- `next` closes the decoder: whatever the state before -/
theorem next_clean {s s' : St} {r : Option HObj} (hi : Inv s) (e : next s = .ok (r, s')) : DecClean s' :=
  decClean_of_none (next_closed hi e).dec

/-! ## a fault mark is never removed while the decoder stays open

(why `DecClean` AFTER an operation speaks about every inner read DURING it: `Dec.total` maps a
fault to `.error w` with `w` the fault site, and from then on every read of every wrapper leaves
that state alone) -/

/-- the open decoder's inner state is the error `w` -/
def DecErr (s : St) (w : String) : Prop :=
  ∃ o ist, s.dec = some o ∧ o.innerSt = some ist ∧ ist.inner = .error w

theorem total_sticky (d : Dec) (w : String) :
    ∀ x : Except String d.σ, x = .error w → (d.total x).2 = .error w := by
  intro x hx; subst hx; rfl

theorem readCore_decErr {s : St} {w : String} (h : DecErr s w) (k : Nat) : DecErr (readCore s k).2 w := by
  obtain ⟨o, ist, ho, hi, he⟩ := h
  unfold readCore
  rw [ho]
  dsimp only
  split
  · rename_i st hpl
    have : ist = st := by simp only [Open.innerSt, hpl, Option.some.injEq] at hi; exact hi.symm
    subst this
    exact ⟨_, _, rfl, rfl, wread_keeps o.d.total (· = .error w) (total_sticky o.d w) k ist he⟩
  · rename_i m hpl hm
    have : ist = m.inner.inner := by simp only [Open.innerSt, hpl, hm, Option.some.injEq] at hi; exact hi.symm
    subst this
    refine ⟨{ o with mac := some (Wrap.read (macRead o.d.total) k m).2 },
      (Wrap.read (macRead o.d.total) k m).2.inner.inner, rfl, by simp only [Open.innerSt, hpl], ?_⟩
    exact wread_keeps (macRead o.d.total) (fun x => x.inner.inner = .error w)
      (fun x hx => macRead_keeps o.d.total (· = .error w) (total_sticky o.d w) x hx) k m he
  · exact ⟨o, ist, ho, hi, he⟩

theorem read_decErr {s : St} {w : String} (h : DecErr s w) (k : Nat) : DecErr (read s k).2 w := by
  obtain ⟨o, ist, ho, hi, he⟩ := h
  rw [read_eq, ho]
  dsimp only
  split
  · exact readCore_decErr ⟨o, ist, ho, hi, he⟩ k
  · exact ⟨o, ist, ho, hi, he⟩

theorem decodeLoop_decErr (fuel : Nat) {s : St} {w : String} (h : DecErr s w) (acc : List UInt8) :
    DecErr (decodeLoop fuel s acc).2 w := by
  induction fuel generalizing s acc with
  | zero => exact h
  | succ n ih =>
    unfold decodeLoop
    dsimp only
    split
    · exact read_decErr h 64
    · exact ih (read_decErr h 64) _

/-- a state with a fault mark (an error other than the decoder's own error return) is not clean -/
theorem DecErr.not_clean {s : St} {w : String} (h : DecErr s w) (hw : w ≠ Dec.failMark) : ¬ DecClean s := by
  obtain ⟨o, ist, ho, hi, he⟩ := h
  intro hc
  obtain ⟨_, _, hI⟩ := hc o ho
  have := (hI ist hi).1
  rw [he] at this
  exact hw this

/-! ## the bundle, on every history -/

/-- the reader invariants behind "no fault": `Good` (header ownership, lead-in buffer, stream
bookkeeping) and `DecClean` -/
structure Sound (s : St) : Prop where
  good : Good s
  clean : DecClean s

theorem sound_fresh (st : Stream.St) (pol : DirPolicy) (mk : Nat → Nat) (hl : st.leadin.length ≤ 24) :
    Sound (fresh st pol mk) :=
  ⟨good_fresh st pol mk hl, decClean_of_none rfl⟩

theorem step_sound {s : St} (h : Sound s) (op : Op) : Sound (step s op) := by
  refine ⟨step_good honestAll h.good op, ?_⟩
  cases op with
  | next =>
    simp only [step]
    cases e : next s with
    | error w => exact h.clean
    | ok r => exact next_clean (r := r.1) (s' := r.2) h.good.inv e
  | read k => exact read_clean h.clean k
  | check => exact check_clean h.clean
  | extract b => exact extract_clean h.clean b

theorem run_sound {s : St} (h : Sound s) (ops : List Op) : Sound (run s ops) := by
  induction ops generalizing s with
  | nil => exact h
  | cons op ops ih => exact ih (step_sound h op)

/-- in a sound state `lha_reader_next_file` does not fault -/
theorem Sound.next_ok {s : St} (h : Sound s) : ∃ r, next s = .ok r :=
  ReaderIndep.next_ok s h.good.pre.wf

theorem Sound.next {s : St} (h : Sound s) {r : Option HObj × St} (e : Reader.next s = .ok r) : Sound r.2 :=
  ⟨next_good h.good e, next_clean (r := r.1) (s' := r.2) h.good.inv e⟩

/-- **the library, every history** (any archive bytes, stream kind, directory policy; operations
in any order, legal or not — in particular `next; check` repeated, which is `lha t`): the next
`lha_reader_next_file` does not fault, header ownership holds, and no inner decoder read performed
so far was a fault. -/
theorem history_no_fault (st : Stream.St) (pol : DirPolicy) (mk : Nat → Nat)
    (hl : st.leadin.length ≤ 24) (ops : List Op) :
    (∃ r, next (run (fresh st pol mk) ops) = .ok r) ∧ Inv (run (fresh st pol mk) ops) ∧
    DecClean (run (fresh st pol mk) ops) :=
  have h := run_sound (sound_fresh st pol mk hl) ops
  ⟨h.next_ok, h.good.inv, h.clean⟩

end LhasaV.Reader
