import LhasaV.Lemmas.ExtractTreeOpt10
/-!
# C06 with options (part 11): option `i` — the flattened tree

`flatTreeOf es`: every file and link of `es` at the top level under its own name, directories
dropped.  `extract_tree_flat` / `run_tree_flat`: `lha xi[w=DIR] archive [patterns]` on an archive
that denotes `es`, the selected files and links having pairwise distinct names: the run succeeds
and leaves exactly `flatTreeOf` of the selected entries below `cwd[/DIR]`.  (With equal names the
later member would ask before overwriting / replace a link: excluded.)  No order condition on
`es` is needed: directory entries are ignored, nothing is ever pushed on the reader's stack.
-/
namespace LhasaV.ExtractTree
open LhasaV LhasaV.Header LhasaV.Extract LhasaV.GlobFs LhasaV.Contain
open Reader

/-- the files and links of `es`, each at the top level under its own name -/
def flatList (es : List Entry) : List Entry := (es.filter (fun e => !e.isDir)).map Entry.flat

/-- **the flattened tree**: what `i` makes of an archive -/
def flatTreeOf (now umask : Nat) (es : List Entry) (p : Fs.Path) : Option Fs.Ent :=
  treeOf now umask (flatList es) p

/-- the selected files and links, flattened -/
def flatSel (sel : Entry → Bool) (es : List Entry) : List Entry :=
  (es.filter (fun e => sel e && !e.isDir)).map Entry.flat

theorem flatSel_eq (sel : Entry → Bool) (es : List Entry) : flatSel sel es = flatList (es.filter sel) := by
  unfold flatSel flatList
  rw [List.filter_filter]
  congr 1
  apply List.filter_congr
  intro e _
  exact Bool.and_comm _ _

/-- **the flattening loop** -/
theorem loop_flat (fs0 : Fs.St) (ds : List Bytes) (sel : Entry → Bool) (hb : BaseRef fs0 ds) :
    ∀ (fuel : Nat) (s : Extract.St) (doneF rest : List Entry),
      rest.length + 1 ≤ fuel → FlatCore fs0 ds sel doneF rest s → RdInv s.rd [] rest →
      DenotesF fuel s rest → FinalG fs0 ds (doneF ++ flatSel sel rest) (extractLoop fuel s) := by
  intro fuel
  induction fuel with
  | zero => intro s doneF rest hf; omega
  | succ n ih =>
    intro s doneF rest hf hi hrd hden
    obtain ⟨oc, rd', hn, hpend, hcont⟩ := hden hi.aborted
    rw [extractLoop_step_g n s oc rd' hi.aborted hn]
    have hne : s.rd.currType ≠ .eof := by
      rcases hrd.ty with h | h | h <;> rw [h] <;> simp
    obtain ⟨u, hrd', hoc, hupol, hudef, hustk, hubc⟩ := next_pol hn hne
    rw [hrd.policy] at hupol
    rw [hrd.deferred] at hudef
    have hbasic : rd'.basic = u.basic := by rw [hrd']; exact tail_basic u
    have hp : Pending u.basic.curr rest := by
      by_cases ht : s.rd.currType = .start ∨ s.rd.currType = .normal
      · rw [← hbasic]; exact hpend ht
      · rw [hubc ht]
        apply hrd.pending
        rcases hrd.ty with h | h | h
        · exact absurd (Or.inl h) ht
        · exact absurd (Or.inr h) ht
        · exact h
    have hds : u.dirStack = [] := by rw [hustk]; exact stackRel_nil hrd.stack
    have he := endOfTopDir_nil u hds
    cases hrest : rest with
    | nil =>
      rw [hrest] at hp
      have hR := pop_eof u he hp hudef
      rw [← hrd'] at hR
      have hoc' : oc = none := by rw [hoc, hR]
      subst hoc'
      have hfs := hi.fs
      simp only [flatSel, List.filter_nil, List.map_nil, List.append_nil]
      exact ⟨hi.aborted, hi.result, hfs⟩
    | cons e tl =>
      subst hrest
      obtain ⟨inp, hbc, hh⟩ := hp
      have hR := pop_normal u he inp hbc
      rw [← hrd'] at hR
      have hoc' : oc = some inp := by rw [hoc, hR]
      subst hoc'
      show FinalG fs0 ds _ (extractLoop n (bodyF s rd' inp.h))
      have hty' : rd'.currType = .normal := by rw [hR]
      have hstk' : rd'.dirStack = [] := by rw [hR]; exact hds
      obtain ⟨hdec, hd2⟩ := hcont inp rfl
      rw [hty'] at hd2
      simp only [if_true, List.tail_cons] at hd2
      have hmatch : Glob.matchesFilter s.opts.filters inp.h = sel e := by
        rw [matches_of hh, hi.filt]
      have hrd0 : RdInv rd' [] tl := by
        refine ⟨by rw [hR]; exact hupol, by rw [hR]; exact hudef, by rw [hstk']; trivial,
          Or.inr (Or.inl hty'), fun h => by rw [hty'] at h; cases h⟩
      have hlen : tl.length + 1 ≤ n := by simp only [List.length_cons] at hf; omega
      cases hse : sel e with
      | false =>
        have hbody : bodyF s rd' inp.h = { s with rd := rd' } := by
          unfold bodyF; rw [hmatch, hse]; rfl
        rw [hbody] at hd2 ⊢
        have hfr := hi.fresh
        simp only [List.filter_cons, hse, Bool.false_and, Bool.false_eq_true, if_false] at hfr
        have hcore : FlatCore fs0 ds sel doneF tl { s with rd := rd' } :=
          ⟨hi.aborted, hi.result, hi.opts, hi.filt, hi.fs, hi.ok,
            fun x hx => hi.entries x (List.mem_cons_of_mem _ hx), hfr⟩
        have := ih _ doneF tl hlen hcore hrd0 hd2
        simpa [flatSel, List.filter_cons, hse] using this
      | true =>
        have hbody : bodyF s rd' inp.h = extractArchivedFile { s with rd := rd' } inp.h := by
          unfold bodyF; rw [hmatch, hse]; rfl
        rw [hbody] at hd2 ⊢
        cases hdir : e.isDir with
        | true =>
          rw [eaf_dir_ignored { s with rd := rd' } inp.h hi.opts.up (isDirEntry_of hh hdir)] at hd2 ⊢
          have hfr := hi.fresh
          simp only [List.filter_cons, hse, hdir, Bool.not_true, Bool.and_false, Bool.false_eq_true,
            if_false] at hfr
          have hcore : FlatCore fs0 ds sel doneF tl
              { ({ s with rd := rd' } : Extract.St) with out := "dir-ignored" :: s.out } :=
            ⟨hi.aborted, hi.result, hi.opts, hi.filt, hi.fs, hi.ok,
              fun x hx => hi.entries x (List.mem_cons_of_mem _ hx), hfr⟩
          have := ih _ doneF tl hlen hcore hrd0 hd2
          simpa [flatSel, List.filter_cons, hse, hdir] using this
        | false =>
          obtain ⟨hcore, rk, rstack⟩ := step_flat { s with rd := rd' } inp (hi.with_rd rd') hb hse hdir
            (by rw [hR]; exact hupol) hty' (by rw [hR]) hh
            (fun p data perms mtime hfile => hdec hty' p data perms mtime tl (by rw [hfile]))
          have hrd1 : RdInv (extractArchivedFile { s with rd := rd' } inp.h).rd [] tl := by
            refine ⟨rk.policy.trans (by rw [hR]; exact hupol), rk.deferred.trans (by rw [hR]; exact hudef),
              ?_, Or.inr (Or.inl (rk.currType.trans hty')), fun h => ?_⟩
            · rw [rstack]; show StackRel rd'.dirStack []; rw [hstk']; trivial
            · rw [rk.currType] at h; rw [show ({ s with rd := rd' } : Extract.St).rd.currType = .normal from hty'] at h
              cases h
          have := ih _ (doneF ++ [e.flat]) tl hlen hcore hrd1 hd2
          simpa [flatSel, List.filter_cons, hse, hdir] using this

/-- the state in which `lha xi[w=ds] archive [patterns]` starts -/
structure StartF (s : Extract.St) (ds : List Bytes) : Prop where
  aborted : s.aborted = false
  result : s.result = true
  opts : OptsFlat s.opts ds
  ty : s.rd.currType = .start
  policy : s.rd.policy = .endOfDir
  stack : s.rd.dirStack = []
  deferred : s.rd.deferred = []

/-- **C06 with option `i`.**  `s` is the start state of `lha xi[w=DIR] archive [patterns]`, the
place of `DIR` as `BaseRef` says; the archive behind the reader denotes `es` (any order: clean
entries, nothing else), and the selected files and links have pairwise distinct names.  Then the
run succeeds; below `cwd[/DIR]` the file system is exactly the flattened tree of the selected
entries — every file and link under its own name with its contents, mode, time, target; no
directory — and nothing else changes (except that `DIR` is created, as in `extract_tree_opt`). -/
theorem extract_tree_flat (fuel : Nat) (s : Extract.St) (ds : List Bytes) (es : List Entry)
    (hs : StartF s ds) (hb : BaseRef s.fs ds) (hok : ∀ e ∈ es, EntryOk e)
    (hnames : ((es.filter (fun e => selected s.opts.filters e && !e.isDir)).map Entry.namePart).Nodup)
    (hfuel : es.length + 1 ≤ fuel) (hden : DenotesF fuel s es) :
    (extractLoop fuel s).result = true ∧ (extractLoop fuel s).aborted = false ∧
    (∀ p, p ≠ [] → Fs.lookup (extractLoop fuel s).fs (s.fs.cwd ++ ds ++ p) =
      flatTreeOf s.fs.now s.fs.umask (es.filter (selected s.opts.filters)) p) ∧
    (flatList (es.filter (selected s.opts.filters)) ≠ [] → s.fs.cwd ++ ds ≠ [] →
      ∃ m t0, Fs.lookup (mkBase s.fs ds) (s.fs.cwd ++ ds) = some (.dir m t0) ∧
        Fs.lookup (extractLoop fuel s).fs (s.fs.cwd ++ ds) = some (.dir m s.fs.now)) ∧
    (flatList (es.filter (selected s.opts.filters)) ≠ [] → ∀ x, ¬ (s.fs.cwd ++ ds) <+: x →
      Fs.lookup (extractLoop fuel s).fs x = Fs.lookup (mkBase s.fs ds) x) ∧
    (flatList (es.filter (selected s.opts.filters)) = [] → (extractLoop fuel s).fs = s.fs) := by
  have hfresh : (([] : List Entry).map Entry.path ++
      (es.filter (fun e => selected s.opts.filters e && !e.isDir)).map (fun e => [e.namePart])).Nodup := by
    simp only [List.map_nil, List.nil_append]
    unfold List.Nodup at hnames ⊢
    rw [List.pairwise_map] at hnames ⊢
    exact hnames.imp (fun h e => h (by simpa using e))
  have hcore : FlatCore s.fs ds (selected s.opts.filters) [] es s :=
    ⟨hs.aborted, hs.result, hs.opts, fun _ => rfl, Or.inl ⟨rfl, rfl, rfl⟩,
      ⟨fun e he => (by cases he), List.nodup_nil, fun d hd => (by cases hd), trivial, List.nodup_nil⟩,
      hok, hfresh⟩
  have hrd : RdInv s.rd [] es :=
    ⟨hs.policy, hs.deferred, by rw [hs.stack]; trivial, Or.inl hs.ty, fun h => by rw [hs.ty] at h; cases h⟩
  have hF := loop_flat s.fs ds (selected s.opts.filters) hb fuel s [] es hfuel hcore hrd hden
  simp only [List.nil_append, flatSel_eq] at hF
  have hp1 := hb.params
  refine ⟨hF.result, hF.aborted, ?_, ?_, ?_, ?_⟩
  · intro p hp
    unfold flatTreeOf
    rcases hF.fs with ⟨h0, _, hfs⟩ | ⟨_, hfs⟩
    · rw [h0, hfs]
      obtain ⟨k, hbk, _⟩ := hb.facts
      rw [hbk.empty p hp]; rfl
    · rw [← hp1.now, ← hp1.umask]
      unfold treeOf
      cases hf : (flatList (es.filter (selected s.opts.filters))).find? (fun e => e.path == p) with
      | none =>
        rw [List.find?_eq_none] at hf
        rw [hfs.none p hp (fun e he h => hf e he (by simp [h]))]
        rfl
      | some e =>
        have hm := List.mem_of_find?_eq_some hf
        have hpe : e.path = p := by simpa using List.find?_some hf
        have := hfs.ents e hm
        rw [if_neg (by simp), hpe] at this
        rw [this]; rfl
  · intro hne hc
    exact base_final hb (hF.fs.inv hne) hne hc
  · intro hne x hx
    exact (hF.fs.inv hne).outside x hx
  · intro he
    rcases hF.fs with ⟨_, _, hfs⟩ | ⟨hne, _⟩
    · exact hfs
    · exact absurd he hne

/-- **(3) C06 for `lha xi archive`** into an empty directory (no `w=`) -/
theorem run_tree_flat (archive : Array UInt8) (o : Opts) (fs : Fs.St) (answers : Bytes) (es : List Entry)
    (hx : o.extractPath = none) (hu : o.usePath = false) (hfs : EmptyDir fs) (ha : Access fs)
    (hok : ∀ e ∈ es, EntryOk e)
    (hnames : ((es.filter (fun e => selected o.filters e && !e.isDir)).map Entry.namePart).Nodup)
    (hfuel : es.length + 1 ≤ runFuel archive)
    (hden : DenotesF (runFuel archive) (runInit archive o fs answers) es) :
    (run archive o fs answers).result = true ∧
    (∀ p, p ≠ [] → Fs.lookup (run archive o fs answers).fs (fs.cwd ++ p) =
      flatTreeOf fs.now fs.umask (es.filter (selected o.filters)) p) ∧
    (∀ x, ¬ fs.cwd <+: x → Fs.lookup (run archive o fs answers).fs x = Fs.lookup fs x) := by
  rw [run_eq]
  have ho : OptsFlat o [] := ⟨hu, by simp [pfx, hx, joinDir], fun _ h => (by cases h), by decide⟩
  obtain ⟨h1, _, h2, _, h4, h5⟩ := extract_tree_flat (runFuel archive) (runInit archive o fs answers) [] es
    ⟨rfl, rfl, ho, rfl, rfl, rfl, rfl⟩ (baseRef_nil hfs ha) hok hnames hfuel hden
  simp only [List.append_nil] at h2 h4
  refine ⟨h1, h2, ?_⟩
  intro x hx'
  by_cases hne : flatList (es.filter (selected o.filters)) = []
  · have := h5 hne
    simp only [runInit] at this ⊢
    rw [this]
  · have := h4 hne x hx'
    rw [mkBase_nil] at this
    exact this

/-- … and relocated: `lha xiw=d₁/…/dₙ archive` -/
theorem run_tree_flat_reloc (archive : Array UInt8) (o : Opts) (fs : Fs.St) (answers : Bytes)
    (ds : List Bytes) (es : List Entry) (k : Nat) (hne : ds ≠ []) (hx : o.extractPath = some (joinPath ds))
    (hu : o.usePath = false) (hb : BaseOk fs ds k) (ha : AccessW fs) (hds : ds.length < 63)
    (hok : ∀ e ∈ es, EntryOk e)
    (hnames : ((es.filter (fun e => selected o.filters e && !e.isDir)).map Entry.namePart).Nodup)
    (hfuel : es.length + 1 ≤ runFuel archive)
    (hden : DenotesF (runFuel archive) (runInit archive o fs answers) es) :
    (run archive o fs answers).result = true ∧
    (∀ p, p ≠ [] → Fs.lookup (run archive o fs answers).fs (fs.cwd ++ ds ++ p) =
      flatTreeOf fs.now fs.umask (es.filter (selected o.filters)) p) ∧
    (flatList (es.filter (selected o.filters)) ≠ [] → ∀ x, ¬ (fs.cwd ++ ds) <+: x →
      Fs.lookup (run archive o fs answers).fs x = Fs.lookup (mkBase fs ds) x) := by
  rw [run_eq]
  have ho : OptsFlat o ds := ⟨hu, by simp [pfx, hx, joinDir_eq ds hne], hb.names, hds⟩
  obtain ⟨h1, _, h2, _, h4, _⟩ := extract_tree_flat (runFuel archive) (runInit archive o fs answers) ds es
    ⟨rfl, rfl, ho, rfl, rfl, rfl, rfl⟩ (baseRef_of hb ha) hok hnames hfuel hden
  exact ⟨h1, h2, h4⟩

end LhasaV.ExtractTree
