import LhasaV.Lemmas.Lh1Defs
/-! `increment_node_freq` on a group leader preserves the invariant (marker moves to the parent). -/
namespace LhasaV.Lh1
open LhasaV.Res

/-! ## the tree part: only `fr` changes, at `L` -/

theorem incr_tree {lf : Nat → Bool} {ch pa fr ln : Nat → Nat} {L : Nat}
    (ht : Tree lf ch pa fr ln L) (hL1 : 1 ≤ L) (hL : L < 627) :
    Tree lf ch pa (upd fr L (fr L + 1)) ln (pa L) := by
  have hp := ht.pr L hL1 hL
  have hcp := ht.ch_gt (i := pa L) (by omega) hp.2.1
  refine { br := ht.br, le := ht.le, cd := ht.cd, pr := ht.pr, pos := ?_, sum := ?_, lsum := ?_,
           top := ?_, nleaf := ht.nleaf }
  · intro i hi
    have := ht.pos i hi
    simp only [upd_apply]; split <;> omega
  · intro i hi hb
    have hbr := ht.br i hi hb
    have hcg := ht.ch_gt hi hb
    have hs := ht.sum i hi hb
    have e1 : ch i = L → i = pa L := fun e => by rw [← e]; exact hbr.2.2.1.symm
    have e2 : ch i - 1 = L → i = pa L := fun e => by rw [← e]; exact hbr.2.2.2.symm
    have e3 : i = pa L → ch i = L ∨ ch i - 1 = L := fun e => by
      subst e; omega
    have hu : ∀ j, upd fr L (fr L + 1) j = fr j + (if j = L then 1 else 0) := by
      intro j; simp only [upd_apply]; split
      · next e => rw [e]
      · rfl
    rw [hu i, hu (ch i), hu (ch i - 1)]
    split at hs <;> split at hs <;> split <;> split <;> split <;> split <;> split <;> omega
  · have hl := ht.lsum
    have h1 : leafSum lf (upd fr L (fr L + 1)) + (if lf L then fr L else 0)
        = leafSum lf fr + (if lf L then fr L + 1 else 0) := by
      have := sumTo_upd1 (f := fun i => if lf i then upd fr L (fr L + 1) i else 0)
        (g := fun i => if lf i then fr i else 0) 627 L hL
        (fun i _ hne => by simp only [upd_apply, hne, if_false])
      simp only [upd_same] at this
      exact this
    have hL0 : (0 : Nat) ≠ L := by omega
    rw [upd_ne _ _ _ _ hL0]
    generalize leafSum lf (upd fr L (fr L + 1)) = S' at *
    generalize leafSum lf fr = S at *
    have hpl : ¬ (pa L ≠ 0 ∧ lf (pa L) = true) := by simp [hp.2.1]
    rw [if_neg hpl]
    cases hlf : lf L <;> simp [hlf] at hl h1 <;> first | omega | (split at hl <;> omega)
  · have hL0 : ¬ (0 = L) := by omega
    simp only [upd_apply, hL0, if_false]; exact ht.top

/-! ## the group part -/

theorem incr_upd_self {α : Type} (f : Nat → α) (i : Nat) : upd f i (f i) = f := by
  funext j; simp only [upd_apply]; split
  · next e => rw [e]
  · rfl

section grp
set_option linter.unusedSectionVars false
variable {fr gp gl fg : Nat → Nat} {ng L : Nat}
  (hg : Grp fr gp gl fg ng) (hL1 : 1 ≤ L) (hL : L < 627) (hld : fr (L - 1) ≠ fr L)
include hg hL1 hL hld

theorem incr_gt : fr L < fr (L - 1) := by
  have := hg.sorted (L - 1) (by omega)
  have e : L - 1 + 1 = L := by omega
  rw [e] at this; omega

theorem incr_left {i : Nat} (hi : i < L) : fr L < fr i := by
  have := hg.sorted.le (i := i) (j := L - 1) (by omega) (by omega)
  have := incr_gt hg hL1 hL hld
  omega

theorem incr_right {i : Nat} (hi : L < i) (hi' : i < 627) : fr i ≤ fr L :=
  hg.sorted.le (by omega) hi'

theorem incr_gl : gl (gp L) = L := by
  have h := hg.ldr L hL
  have h1 := h.2 L hL rfl
  by_cases hlt : gl (gp L) < L
  · have := incr_left hg hL1 hL hld hlt; omega
  · omega

/-- unless `fr L + 1 = fr (L-1)`, no other node has frequency `fr L + 1` -/
theorem incr_noJ (hJ : fr L + 1 ≠ fr (L - 1)) {j : Nat} (hj : j < 627) (hjl : j ≠ L) :
    fr L + 1 ≠ fr j := by
  have h0 := incr_gt hg hL1 hL hld
  by_cases h : j < L
  · have := hg.sorted.le (i := j) (j := L - 1) (by omega) (by omega)
    omega
  · have := incr_right hg hL1 hL hld (i := j) (by omega) hj
    omega

/-- if the right neighbour is in another group, `L` is alone in its group -/
theorem incr_alone (hA : ¬ (L < 626 ∧ gp L = gp (L + 1))) {j : Nat} (hj : j < 627) (hjl : j ≠ L) :
    fr j ≠ fr L := by
  by_cases h : j < L
  · have := incr_left hg hL1 hL hld h; omega
  · have h1 : L < 626 := by omega
    have h2 : gp L ≠ gp (L + 1) := fun e => hA ⟨h1, e⟩
    have h3 := hg.eqv L (L + 1) hL (by omega)
    have h4 : fr L ≠ fr (L + 1) := fun e => h2 (h3.2 e)
    have h5 := hg.sorted L (by omega)
    have h6 := hg.sorted.le (i := L + 1) (j := j) (by omega) hj
    omega

/-- in case A the right neighbour has the same frequency -/
theorem incr_A (hA : L < 626 ∧ gp L = gp (L + 1)) : fr (L + 1) = fr L :=
  ((hg.eqv L (L + 1) hL (by omega)).1 hA.2).symm

theorem incr_sorted : Sorted (upd fr L (fr L + 1)) := by
  intro i hi
  have h0 := hg.sorted i hi
  simp only [upd_apply]
  by_cases h1 : i + 1 = L
  · have h2 : ¬ i = L := by omega
    have h3 := incr_gt hg hL1 hL hld
    have e : L - 1 = i := by omega
    rw [e] at h3
    simp only [h1, h2, if_true, if_false]; omega
  · by_cases h2 : i = L
    · subst h2; simp only [h1, if_true, if_false]; omega
    · simp only [h1, h2, if_false]; exact h0

theorem incr_eqv (gnew : Nat)
    (hnew : ∀ j, j < 627 → j ≠ L → (gnew = gp j ↔ fr L + 1 = fr j)) :
    ∀ i j, i < 627 → j < 627 →
      (upd gp L gnew i = upd gp L gnew j ↔ upd fr L (fr L + 1) i = upd fr L (fr L + 1) j) := by
  intro i j hi hj
  simp only [upd_apply]
  by_cases h1 : i = L <;> by_cases h2 : j = L
  · simp [h1, h2]
  · simp only [h1, h2, if_true, if_false]; exact hnew j hj h2
  · simp only [h1, h2, if_true, if_false]
    have := hnew i hi h1
    constructor
    · intro e; exact (this.1 e.symm).symm
    · intro e; exact (this.2 e.symm).symm
  · simp only [h1, h2, if_false]; exact hg.eqv i j hi hj

/-- in case J the new group is that of the left neighbour -/
theorem incr_newJ (hJ : fr L + 1 = fr (L - 1)) :
    ∀ j, j < 627 → j ≠ L → (gp (L - 1) = gp j ↔ fr L + 1 = fr j) := by
  intro j hj _
  rw [hJ]; exact hg.eqv (L - 1) j (by omega) hj

theorem incr_ldr (gnew : Nat) (gl' : Nat → Nat)
    (h1 : ∀ i, i < 627 → i ≠ L → fr i ≠ fr L → gl' (gp i) = gl (gp i))
    (h2 : ∀ i, i < 627 → i ≠ L → fr i = fr L → gl' (gp i) = L + 1)
    (h3 : fr L + 1 = fr (L - 1) → gl' gnew = gl (gp (L - 1)))
    (h4 : fr L + 1 ≠ fr (L - 1) → gl' gnew = L) :
    ∀ i, i < 627 →
      upd fr L (fr L + 1) (gl' (upd gp L gnew i)) = upd fr L (fr L + 1) i ∧
      ∀ j, j < 627 → upd fr L (fr L + 1) j = upd fr L (fr L + 1) i → gl' (upd gp L gnew i) ≤ j := by
  intro i hi
  have hgt := incr_gt hg hL1 hL hld
  by_cases hiL : i = L
  · subst hiL
    simp only [upd_same]
    by_cases hJ : fr i + 1 = fr (i - 1)
    · rw [h3 hJ]
      have hl := hg.ldr (i - 1) (by omega)
      have hm : gl (gp (i - 1)) ≤ i - 1 := hl.2 (i - 1) (by omega) rfl
      have hne : gl (gp (i - 1)) ≠ i := by omega
      refine ⟨by rw [upd_ne _ _ _ _ hne, hl.1, hJ], ?_⟩
      intro j hj hjf
      by_cases hji : j = i
      · omega
      · rw [upd_ne _ _ _ _ hji] at hjf
        exact hl.2 j hj (by omega)
    · rw [h4 hJ]
      refine ⟨by simp, ?_⟩
      intro j hj hjf
      by_cases hji : j = i
      · omega
      · rw [upd_ne _ _ _ _ hji] at hjf
        exact absurd hjf.symm (incr_noJ hg hL1 hL hld hJ hj hji)
  · rw [upd_ne gp _ _ _ hiL, upd_ne fr _ _ _ hiL]
    by_cases hf : fr i = fr L
    · rw [h2 i hi hiL hf]
      have hiL' : L < i := by
        by_cases c : i < L
        · have := incr_left hg hL1 hL hld c; omega
        · omega
      have hs1 := hg.sorted.le (i := L + 1) (j := i) (by omega) hi
      have hs2 := hg.sorted L (by omega)
      have hne : L + 1 ≠ L := by omega
      refine ⟨by rw [upd_ne _ _ _ _ hne]; omega, ?_⟩
      intro j hj hjf
      by_cases hjL : j = L
      · subst hjL; simp only [upd_same] at hjf; omega
      · rw [upd_ne _ _ _ _ hjL] at hjf
        by_cases c : j < L
        · have := incr_left hg hL1 hL hld c; omega
        · omega
    · rw [h1 i hi hiL hf]
      have hl := hg.ldr i hi
      have hne : gl (gp i) ≠ L := fun e => by rw [e] at hl; exact hf hl.1.symm
      refine ⟨by rw [upd_ne _ _ _ _ hne]; exact hl.1, ?_⟩
      intro j hj hjf
      by_cases hjL : j = L
      · subst hjL; simp only [upd_same] at hjf
        have hm := hl.2 i hi rfl
        by_cases c : i < j
        · omega
        · have := incr_right hg hL1 hL hld (i := i) (by omega) hi
          omega
      · rw [upd_ne _ _ _ _ hjL] at hjf
        exact hl.2 j hj hjf

theorem incr_cnt :
    leaders (upd fr L (fr L + 1)) 627 + (if fr L + 1 = fr (L - 1) then 1 else 0)
      = leaders fr 627 + (if L < 626 ∧ fr (L + 1) = fr L then 1 else 0) := by
  have hgt := incr_gt hg hL1 hL hld
  have hLm : L - 1 ≠ L := by omega
  have epL : b2n (decide (L = 0 ∨ fr (L - 1) ≠ fr L)) = 1 := by simp [b2n, hld]
  have eqL : b2n (decide (L = 0 ∨ upd fr L (fr L + 1) (L - 1) ≠ upd fr L (fr L + 1) L))
      = if fr L + 1 = fr (L - 1) then 0 else 1 := by
    have hL0 : ¬ L = 0 := by omega
    rw [upd_ne _ _ _ _ hLm, upd_same]
    by_cases c : fr L + 1 = fr (L - 1)
    · simp [b2n, c, hL0]
    · have c' : ¬ fr (L - 1) = fr L + 1 := fun e => c e.symm
      simp [b2n, c, c', hL0]
  simp only [leaders]
  by_cases h6 : L < 626
  · have hs := hg.sorted L (by omega)
    have key := cntP_upd2 (p := fun i => decide (i = 0 ∨ fr (i - 1) ≠ fr i))
      (q := fun i => decide (i = 0 ∨ upd fr L (fr L + 1) (i - 1) ≠ upd fr L (fr L + 1) i))
      627 L (L + 1) hL (by omega) (by omega) (fun i _ ha hb => by
        have h1 : i - 1 ≠ L := by omega
        simp only [upd_ne _ _ _ _ h1, upd_ne _ _ _ _ ha])
    rw [epL, eqL] at key
    have epL1 : b2n (decide (L + 1 = 0 ∨ fr (L + 1 - 1) ≠ fr (L + 1)))
        = if fr (L + 1) = fr L then 0 else 1 := by
      rw [Nat.add_sub_cancel]
      by_cases c : fr (L + 1) = fr L
      · simp [b2n, c]
      · have c' : ¬ fr L = fr (L + 1) := fun e => c e.symm
        simp [b2n, c, c']
    have eqL1 : b2n (decide (L + 1 = 0 ∨
        upd fr L (fr L + 1) (L + 1 - 1) ≠ upd fr L (fr L + 1) (L + 1))) = 1 := by
      have hne : L + 1 ≠ L := by omega
      rw [Nat.add_sub_cancel, upd_same, upd_ne _ _ _ _ hne]
      have c : ¬ fr L + 1 = fr (L + 1) := by omega
      simp [b2n, c]
    rw [epL1, eqL1] at key
    split at key <;> split at key <;> split <;> split <;> omega
  · have key := cntP_upd1 (p := fun i => decide (i = 0 ∨ fr (i - 1) ≠ fr i))
      (q := fun i => decide (i = 0 ∨ upd fr L (fr L + 1) (i - 1) ≠ upd fr L (fr L + 1) i))
      627 L hL (fun i _ ha => by
        have h1 : i - 1 ≠ L := by omega
        simp only [upd_ne _ _ _ _ h1, upd_ne _ _ _ _ ha])
    rw [epL, eqL] at key
    have hnA : ¬ (L < 626 ∧ fr (L + 1) = fr L) := fun e => h6 e.1
    rw [if_neg hnA]
    by_cases c : fr L + 1 = fr (L - 1)
    · rw [if_pos c] at key ⊢; omega
    · rw [if_neg c] at key ⊢; omega

theorem incr_ng_lt (hA : L < 626 ∧ gp L = gp (L + 1)) : ng < 627 := by
  rw [hg.cnt]
  apply cntP_lt_of_false _ 627 (L + 1) (by omega)
  have := incr_A hg hL1 hL hld hA
  simp [this]

theorem incr_ng_pos : 1 ≤ ng ∧ ng ≤ 627 := by
  rw [hg.cnt]; exact ⟨leaders_pos _ _ (by omega), leaders_le _ _⟩

theorem incr_grp_AJ (hA : L < 626 ∧ gp L = gp (L + 1)) (hJ : fr L + 1 = fr (L - 1)) :
    Grp (upd fr L (fr L + 1)) (upd gp L (gp (L - 1))) (upd gl (gp L) (L + 1)) fg ng := by
  have hne : gp (L - 1) ≠ gp L := fun e => hld ((hg.eqv (L - 1) L (by omega) hL).1 e)
  refine { sorted := incr_sorted hg hL1 hL hld,
           eqv := incr_eqv hg hL1 hL hld _ (incr_newJ hg hL1 hL hld hJ),
           rng := ?_, ldr := ?_, free := ?_, inj := hg.inj, cnt := ?_ }
  · intro i hi
    simp only [upd_apply]; split
    · exact hg.rng (L - 1) (by omega)
    · exact hg.rng i hi
  · apply incr_ldr hg hL1 hL hld
    · intro i hi _ hf
      have : gp i ≠ gp L := fun e => hf ((hg.eqv i L hi hL).1 e)
      rw [upd_ne _ _ _ _ this]
    · intro i hi _ hf
      rw [(hg.eqv i L hi hL).2 hf, upd_same]
    · intro _; rw [upd_ne _ _ _ _ hne]
    · intro h; exact absurd hJ h
  · intro j hj hj'
    have := hg.free j hj hj'
    refine ⟨this.1, fun i hi => ?_⟩
    simp only [upd_apply]; split
    · exact this.2 (L - 1) (by omega)
    · exact this.2 i hi
  · have h1 := incr_cnt hg hL1 hL hld
    have h2 : L < 626 ∧ fr (L + 1) = fr L := ⟨hA.1, incr_A hg hL1 hL hld hA⟩
    rw [if_pos hJ, if_pos h2] at h1
    have := hg.cnt; omega

theorem incr_grp_AnJ (hA : L < 626 ∧ gp L = gp (L + 1)) (hJ : fr L + 1 ≠ fr (L - 1)) :
    Grp (upd fr L (fr L + 1)) (upd gp L (fg ng)) (upd (upd gl (gp L) (L + 1)) (fg ng) L) fg (ng + 1) := by
  have hng := incr_ng_lt hg hL1 hL hld hA
  have hfree := hg.free ng (Nat.le_refl _) hng
  refine { sorted := incr_sorted hg hL1 hL hld, eqv := ?_,
           rng := ?_, ldr := ?_, free := ?_, inj := ?_, cnt := ?_ }
  · apply incr_eqv hg hL1 hL hld
    intro j hj hjl
    constructor
    · intro e; exact absurd e.symm (hfree.2 j hj)
    · intro e; exact absurd e (incr_noJ hg hL1 hL hld hJ hj hjl)
  · intro i hi
    simp only [upd_apply]; split
    · exact hfree.1
    · exact hg.rng i hi
  · apply incr_ldr hg hL1 hL hld
    · intro i hi _ hf
      have : gp i ≠ gp L := fun e => hf ((hg.eqv i L hi hL).1 e)
      rw [upd_ne _ _ _ _ (hfree.2 i hi), upd_ne _ _ _ _ this]
    · intro i hi _ hf
      rw [upd_ne _ _ _ _ (hfree.2 i hi), (hg.eqv i L hi hL).2 hf, upd_same]
    · intro h; exact absurd h hJ
    · intro _; rw [upd_same]
  · intro j hj hj'
    have := hg.free j (by omega) hj'
    refine ⟨this.1, fun i hi => ?_⟩
    simp only [upd_apply]; split
    · intro e
      have := hg.inj ng j (Nat.le_refl _) hng (by omega) hj' e
      omega
    · exact this.2 i hi
  · intro j k hj hj' hk hk' e
    exact hg.inj j k (by omega) hj' (by omega) hk' e
  · have h1 := incr_cnt hg hL1 hL hld
    have h2 : L < 626 ∧ fr (L + 1) = fr L := ⟨hA.1, incr_A hg hL1 hL hld hA⟩
    rw [if_neg hJ, if_pos h2] at h1
    have := hg.cnt; omega

theorem incr_grp_nAJ (hA : ¬ (L < 626 ∧ gp L = gp (L + 1))) (hJ : fr L + 1 = fr (L - 1)) :
    Grp (upd fr L (fr L + 1)) (upd gp L (gp (L - 1))) gl (upd fg (ng - 1) (gp L)) (ng - 1) := by
  have hne : gp (L - 1) ≠ gp L := fun e => hld ((hg.eqv (L - 1) L (by omega) hL).1 e)
  have hng := incr_ng_pos hg hL1 hL hld
  have hal : ∀ i, i < 627 → i ≠ L → gp i ≠ gp L := fun i hi hil e =>
    incr_alone hg hL1 hL hld hA hi hil ((hg.eqv i L hi hL).1 e)
  refine { sorted := incr_sorted hg hL1 hL hld,
           eqv := incr_eqv hg hL1 hL hld _ (incr_newJ hg hL1 hL hld hJ),
           rng := ?_, ldr := ?_, free := ?_, inj := ?_, cnt := ?_ }
  · intro i hi
    simp only [upd_apply]; split
    · exact hg.rng (L - 1) (by omega)
    · exact hg.rng i hi
  · apply incr_ldr hg hL1 hL hld
    · intro i hi _ hf; rfl
    · intro i hi hil hf; exact absurd hf (incr_alone hg hL1 hL hld hA hi hil)
    · intro _; rfl
    · intro h; exact absurd hJ h
  · intro j hj hj'
    by_cases hjn : j = ng - 1
    · subst hjn
      rw [upd_same]
      refine ⟨hg.rng L hL, fun i hi => ?_⟩
      simp only [upd_apply]; split
      · exact hne
      · next h => exact hal i hi h
    · rw [upd_ne _ _ _ _ hjn]
      have := hg.free j (by omega) hj'
      refine ⟨this.1, fun i hi => ?_⟩
      simp only [upd_apply]; split
      · exact this.2 (L - 1) (by omega)
      · exact this.2 i hi
  · intro j k hj hj' hk hk' e
    by_cases hjn : j = ng - 1 <;> by_cases hkn : k = ng - 1
    · omega
    · rw [hjn, upd_same, upd_ne _ _ _ _ hkn] at e
      exact absurd e ((hg.free k (by omega) hk').2 L hL)
    · rw [hkn, upd_same, upd_ne _ _ _ _ hjn] at e
      exact absurd e.symm ((hg.free j (by omega) hj').2 L hL)
    · rw [upd_ne _ _ _ _ hjn, upd_ne _ _ _ _ hkn] at e
      exact hg.inj j k (by omega) hj' (by omega) hk' e
  · have h1 := incr_cnt hg hL1 hL hld
    have h2 : ¬ (L < 626 ∧ fr (L + 1) = fr L) := fun e =>
      incr_alone hg hL1 hL hld hA (j := L + 1) (by omega) (by omega) e.2
    rw [if_pos hJ, if_neg h2] at h1
    have := hg.cnt; omega

theorem incr_grp_nAnJ (hA : ¬ (L < 626 ∧ gp L = gp (L + 1))) (hJ : fr L + 1 ≠ fr (L - 1)) :
    Grp (upd fr L (fr L + 1)) gp gl fg ng := by
  have hal : ∀ i, i < 627 → i ≠ L → gp i ≠ gp L := fun i hi hil e =>
    incr_alone hg hL1 hL hld hA hi hil ((hg.eqv i L hi hL).1 e)
  have e := incr_upd_self gp L
  refine { sorted := incr_sorted hg hL1 hL hld, eqv := ?_,
           rng := hg.rng, ldr := ?_, free := hg.free, inj := hg.inj, cnt := ?_ }
  · have := incr_eqv hg hL1 hL hld (gp L) (fun j hj hjl =>
      ⟨fun e => absurd e.symm (hal j hj hjl), fun e => absurd e (incr_noJ hg hL1 hL hld hJ hj hjl)⟩)
    rw [e] at this; exact this
  · have := incr_ldr hg hL1 hL hld (gp L) gl (fun _ _ _ _ => rfl)
      (fun i hi hil hf => absurd hf (incr_alone hg hL1 hL hld hA hi hil))
      (fun h => absurd h hJ) (fun _ => incr_gl hg hL1 hL hld)
    rw [e] at this; exact this
  · have h1 := incr_cnt hg hL1 hL hld
    have h2 : ¬ (L < 626 ∧ fr (L + 1) = fr L) := fun e =>
      incr_alone hg hL1 hL hld hA (j := L + 1) (by omega) (by omega) e.2
    rw [if_neg hJ, if_neg h2] at h1
    have := hg.cnt; omega

end grp

/-! ## symbolic execution of the four cases -/

theorem incr_nd2 (s s' : St) (L j : Nat) (n1 n2 : Node) (h : L < s.nodes.size)
    (hs' : s'.nodes = (s.nodes.setIfInBounds L n1).setIfInBounds L n2) :
    nd s' j = if j = L then n2 else nd s j := by
  simp only [nd, hs']
  rw [getD_set _ _ _ _ _ (by simp only [Array.size_setIfInBounds]; exact h), getD_set _ _ _ _ _ h]
  split <;> rfl

theorem incr_views (s s' : St) (L : Nat) (n : Node)
    (hs' : ∀ j, nd s' j = if j = L then n else nd s j)
    (h1 : n.leaf = (nd s L).leaf) (h2 : n.child = (nd s L).child) (h3 : n.parent = (nd s L).parent) :
    lf s' = lf s ∧ ch s' = ch s ∧ pa s' = pa s ∧ fr s' = upd (fr s) L n.freq ∧
      gp s' = upd (gp s) L n.group := by
  refine ⟨?_, ?_, ?_, ?_, ?_⟩ <;> funext j
  · simp only [lf, hs']; split
    · next e => rw [h1, e]
    · rfl
  · simp only [ch, hs']; split
    · next e => rw [h2, e]
    · rfl
  · simp only [pa, hs']; split
    · next e => rw [h3, e]
    · rfl
  · simp only [fr, hs', upd_apply]; split <;> rfl
  · simp only [gp, hs', upd_apply]; split <;> rfl

theorem incr_exec_AJ (s : St) (L : Nat) (hb : Base s) (hL1 : 1 ≤ L) (hL : L < 627)
    (hmod : (fr s L + 1) % 65536 = fr s L + 1)
    (hgl : gl s (gp s L) = L) (hgr : gp s L < 627)
    (hA : L < 626 ∧ gp s L = gp s (L + 1)) (hJ : fr s L + 1 = fr s (L - 1)) :
    ∃ s', incrementNodeFreq s L = .ok s' ∧
      (∀ j, nd s' j = if j = L then { nd s L with freq := fr s L + 1, group := gp s (L - 1) } else nd s j) ∧
      gl s' = upd (gl s) (gp s L) (L + 1) ∧ fg s' = fg s ∧
      s'.numGroups = s.numGroups ∧ ln s' = ln s ∧ Base s' := by
  have hn := hb.nodes
  have hL0 : ¬ L = 0 := by omega
  have hLn : L < s.nodes.size := by omega
  have c1 : L < numNodes - 1 := by show L < 626; exact hA.1
  have hm1 : L - 1 ≠ L := by omega
  have hp1 : L + 1 ≠ L := by omega
  unfold incrementNodeFreq
  simp only [hL0, if_false]
  have hmod' : ((nd s L).freq + 1) % 65536 = (nd s L).freq + 1 := hmod
  have hgl' : s.groupLeader.getD (nd s L).group 0 = L := hgl
  have hL1m : (L + 1) % 65536 = L + 1 := Nat.mod_eq_of_lt (by omega)
  rw [getNode_ok _ _ _ (by omega)]
  simp only [ok_bind, hmod']
  rw [setNode_ok _ _ _ _ (by omega)]
  simp only [ok_bind]
  rw [getNode_ok _ _ _ (by simp only [Array.size_setIfInBounds]; omega)]
  simp only [ok_bind, pure_eq, if_pos c1]
  rw [getNode_ok _ _ _ (by simp only [Array.size_setIfInBounds]; omega)]
  simp only [ok_bind]
  rw [nd_set _ _ _ _ (by omega), nd_set _ _ _ _ (by omega)]
  simp only [if_neg hm1, if_neg hp1]
  have cA : ((nd s L).group == (nd s (L + 1)).group) = true := by simpa [gp] using hA.2
  have hgs : (nd s L).group < s.groupLeader.size := by rw [hb.groupLeader]; exact hgr
  have cJ : (nd s L).freq + 1 = (nd s (L - 1)).freq := hJ
  rw [if_pos cA, getA_ok _ _ _ hgs]
  simp only [ok_bind, hgl', hL1m]
  rw [setGroupLeader_ok _ _ _ _ (by exact hgs)]
  simp only [ok_bind]
  rw [if_pos cJ, setNode_ok _ _ _ _ (by simp only [Array.size_setIfInBounds]; omega)]
  refine ⟨_, rfl, ?_, ?_, rfl, rfl, rfl, ?_⟩
  · intro j; exact incr_nd2 s _ L j _ _ hLn rfl
  · funext j; simp only [gl, gp, upd_apply, getD_set _ _ _ _ _ hgs]
  · exact Base.congr hb (by simp only [Array.size_setIfInBounds]) rfl rfl
      (by simp only [Array.size_setIfInBounds]) rfl rfl rfl rfl rfl

theorem incr_exec_AnJ (s : St) (L : Nat) (hb : Base s) (hL1 : 1 ≤ L) (hL : L < 627)
    (hmod : (fr s L + 1) % 65536 = fr s L + 1)
    (hgl : gl s (gp s L) = L) (hgr : gp s L < 627)
    (hng : s.numGroups < 627) (hfg : fg s s.numGroups < 627)
    (hA : L < 626 ∧ gp s L = gp s (L + 1)) (hJ : fr s L + 1 ≠ fr s (L - 1)) :
    ∃ s', incrementNodeFreq s L = .ok s' ∧
      (∀ j, nd s' j = if j = L then { nd s L with freq := fr s L + 1, group := fg s s.numGroups } else nd s j) ∧
      gl s' = upd (upd (gl s) (gp s L) (L + 1)) (fg s s.numGroups) L ∧ fg s' = fg s ∧
      s'.numGroups = s.numGroups + 1 ∧ ln s' = ln s ∧ Base s' := by
  have hn := hb.nodes
  have hL0 : ¬ L = 0 := by omega
  have hLn : L < s.nodes.size := by omega
  have c1 : L < numNodes - 1 := by show L < 626; exact hA.1
  have hm1 : L - 1 ≠ L := by omega
  have hp1 : L + 1 ≠ L := by omega
  unfold incrementNodeFreq
  simp only [hL0, if_false]
  have hmod' : ((nd s L).freq + 1) % 65536 = (nd s L).freq + 1 := hmod
  have hgl' : s.groupLeader.getD (nd s L).group 0 = L := hgl
  have hL1m : (L + 1) % 65536 = L + 1 := Nat.mod_eq_of_lt (by omega)
  rw [getNode_ok _ _ _ (by omega)]
  simp only [ok_bind, hmod']
  rw [setNode_ok _ _ _ _ (by omega)]
  simp only [ok_bind]
  rw [getNode_ok _ _ _ (by simp only [Array.size_setIfInBounds]; omega)]
  simp only [ok_bind, pure_eq, if_pos c1]
  rw [getNode_ok _ _ _ (by simp only [Array.size_setIfInBounds]; omega)]
  simp only [ok_bind]
  rw [nd_set _ _ _ _ (by omega), nd_set _ _ _ _ (by omega)]
  simp only [if_neg hm1, if_neg hp1]
  have cA : ((nd s L).group == (nd s (L + 1)).group) = true := by simpa [gp] using hA.2
  have hgs : (nd s L).group < s.groupLeader.size := by rw [hb.groupLeader]; exact hgr
  have cJ : ¬ (nd s L).freq + 1 = (nd s (L - 1)).freq := hJ
  have hngs : s.numGroups < s.groups.size := by rw [hb.groups]; exact hng
  have hfgs : fg s s.numGroups < s.groupLeader.size := by rw [hb.groupLeader]; exact hfg
  rw [if_pos cA, getA_ok _ _ _ hgs]
  simp only [ok_bind, hgl', hL1m]
  rw [setGroupLeader_ok _ _ _ _ (by exact hgs)]
  simp only [ok_bind]
  rw [if_neg cJ, allocGroup_ok _ (by exact hngs)]
  simp only [ok_bind]
  rw [setNode_ok _ _ _ _ (by simp only [Array.size_setIfInBounds]; omega)]
  simp only [ok_bind]
  rw [setGroupLeader_ok _ _ _ _ (by simp only [Array.size_setIfInBounds]; exact hfgs)]
  refine ⟨_, rfl, ?_, ?_, rfl, rfl, rfl, ?_⟩
  · intro j; exact incr_nd2 s _ L j _ _ hLn rfl
  · funext j
    simp only [gl, gp, upd_apply]
    rw [getD_set _ _ _ _ _ (by simp only [Array.size_setIfInBounds]; exact hfgs),
      getD_set _ _ _ _ _ hgs]
    rfl
  · exact Base.congr hb (by simp only [Array.size_setIfInBounds]) rfl rfl
      (by simp only [Array.size_setIfInBounds]) rfl rfl rfl rfl rfl

theorem incr_exec_nA (s : St) (L : Nat) (hb : Base s) (hL1 : 1 ≤ L) (hL : L < 627)
    (hmod : (fr s L + 1) % 65536 = fr s L + 1)
    (hA : ¬ (L < 626 ∧ gp s L = gp s (L + 1))) :
    incrementNodeFreq s L =
      if fr s L + 1 = fr s (L - 1) then
        freeGroup { s with nodes := s.nodes.setIfInBounds L { nd s L with freq := fr s L + 1 } } (gp s L)
          >>= fun s2 => setNode s2 "increment_node_freq" L
                { nd s L with freq := fr s L + 1, group := gp s (L - 1) }
      else .ok { s with nodes := s.nodes.setIfInBounds L { nd s L with freq := fr s L + 1 } } := by
  have hn := hb.nodes
  have hL0 : ¬ L = 0 := by omega
  have hLn : L < s.nodes.size := by omega
  have hm1 : L - 1 ≠ L := by omega
  have hp1 : L + 1 ≠ L := by omega
  unfold incrementNodeFreq
  simp only [hL0, if_false]
  have hmod' : ((nd s L).freq + 1) % 65536 = (nd s L).freq + 1 := hmod
  rw [getNode_ok _ _ _ (by omega)]
  simp only [ok_bind, hmod']
  rw [setNode_ok _ _ _ _ (by omega)]
  simp only [ok_bind]
  rw [getNode_ok _ _ _ (by simp only [Array.size_setIfInBounds]; omega)]
  simp only [ok_bind, pure_eq]
  rw [nd_set _ _ _ _ (by omega)]
  simp only [if_neg hm1]
  by_cases c1 : L < numNodes - 1
  · have c1' : L < 626 := c1
    rw [if_pos c1]
    rw [getNode_ok _ _ _ (by simp only [Array.size_setIfInBounds]; omega)]
    simp only [ok_bind]
    rw [nd_set _ _ _ _ (by omega)]
    simp only [if_neg hp1]
    have cA : ¬ ((nd s L).group == (nd s (L + 1)).group) = true := by
      have : ¬ gp s L = gp s (L + 1) := fun e => hA ⟨c1', e⟩
      simpa [gp] using this
    rw [if_neg cA]
    rfl
  · rw [if_neg c1]
    rw [if_neg (by decide : ¬ false = true)]
    rfl

theorem incr_exec_nAJ (s : St) (L : Nat) (hb : Base s) (hL1 : 1 ≤ L) (hL : L < 627)
    (hmod : (fr s L + 1) % 65536 = fr s L + 1)
    (hng0 : s.numGroups ≠ 0) (hng : s.numGroups ≤ 627)
    (hA : ¬ (L < 626 ∧ gp s L = gp s (L + 1))) (hJ : fr s L + 1 = fr s (L - 1)) :
    ∃ s', incrementNodeFreq s L = .ok s' ∧
      (∀ j, nd s' j = if j = L then { nd s L with freq := fr s L + 1, group := gp s (L - 1) } else nd s j) ∧
      gl s' = gl s ∧ fg s' = upd (fg s) (s.numGroups - 1) (gp s L) ∧
      s'.numGroups = s.numGroups - 1 ∧ ln s' = ln s ∧ Base s' := by
  have hn := hb.nodes
  have hLn : L < s.nodes.size := by omega
  have hgs : s.numGroups - 1 < s.groups.size := by rw [hb.groups]; omega
  rw [incr_exec_nA s L hb hL1 hL hmod hA, if_pos hJ]
  rw [freeGroup_ok _ _ (by exact hng0) (by exact hgs)]
  simp only [ok_bind]
  rw [setNode_ok _ _ _ _ (by simp only [Array.size_setIfInBounds]; omega)]
  refine ⟨_, rfl, ?_, rfl, ?_, rfl, rfl, ?_⟩
  · intro j; exact incr_nd2 s _ L j _ _ hLn rfl
  · funext j
    simp only [fg, upd_apply]
    rw [getD_set _ _ _ _ _ hgs]
  · exact Base.congr hb (by simp only [Array.size_setIfInBounds]) rfl
      (by simp only [Array.size_setIfInBounds]) rfl rfl rfl rfl rfl rfl

theorem incr_exec_nAnJ (s : St) (L : Nat) (hb : Base s) (hL1 : 1 ≤ L) (hL : L < 627)
    (hmod : (fr s L + 1) % 65536 = fr s L + 1)
    (hA : ¬ (L < 626 ∧ gp s L = gp s (L + 1))) (hJ : fr s L + 1 ≠ fr s (L - 1)) :
    ∃ s', incrementNodeFreq s L = .ok s' ∧
      (∀ j, nd s' j = if j = L then { nd s L with freq := fr s L + 1 } else nd s j) ∧
      gl s' = gl s ∧ fg s' = fg s ∧
      s'.numGroups = s.numGroups ∧ ln s' = ln s ∧ Base s' := by
  have hn := hb.nodes
  have hLn : L < s.nodes.size := by omega
  rw [incr_exec_nA s L hb hL1 hL hmod hA, if_neg hJ]
  refine ⟨_, rfl, ?_, rfl, rfl, rfl, rfl, ?_⟩
  · intro j; exact nd_set s L j _ hLn
  · exact Base.congr hb (by simp only [Array.size_setIfInBounds]) rfl rfl rfl rfl rfl rfl rfl rfl

/-! ## assembly -/

theorem incrementNodeFreq_spec (s : St) (L : Nat) (h : CInv s L) (hL1 : 1 ≤ L) (hL : L < 627)
    (hld : fr s (L - 1) ≠ fr s L) :
    ∃ s', incrementNodeFreq s L = .ok s' ∧ CInv s' (pa s L) ∧ pa s' L = pa s L := by
  have hg := h.grp
  have ht := h.tree
  have hb := h.base
  have hroot := ht.root_gt hg.sorted hL1 hL
  have htop := ht.top
  have hmod : (fr s L + 1) % 65536 = fr s L + 1 := Nat.mod_eq_of_lt (by omega)
  have hgl := incr_gl hg hL1 hL hld
  have hgr := hg.rng L hL
  have hT := incr_tree ht hL1 hL
  have hngp := incr_ng_pos hg hL1 hL hld
  by_cases hA : L < 626 ∧ gp s L = gp s (L + 1) <;> by_cases hJ : fr s L + 1 = fr s (L - 1)
  · obtain ⟨s', he, hnd, hgl', hfg', hng', hln', hb'⟩ :=
      incr_exec_AJ s L hb hL1 hL hmod hgl hgr hA hJ
    obtain ⟨v1, v2, v3, v4, v5⟩ := incr_views s s' L _ hnd rfl rfl rfl
    refine ⟨s', he, ⟨hb', ?_, ?_⟩, ?_⟩
    · rw [v1, v2, v3, v4, hln']; exact hT
    · rw [v4, v5, hgl', hfg', hng']; exact incr_grp_AJ hg hL1 hL hld hA hJ
    · rw [v3]
  · have hng := incr_ng_lt hg hL1 hL hld hA
    have hfg := (hg.free s.numGroups (Nat.le_refl _) hng).1
    obtain ⟨s', he, hnd, hgl', hfg', hng', hln', hb'⟩ :=
      incr_exec_AnJ s L hb hL1 hL hmod hgl hgr hng hfg hA hJ
    obtain ⟨v1, v2, v3, v4, v5⟩ := incr_views s s' L _ hnd rfl rfl rfl
    refine ⟨s', he, ⟨hb', ?_, ?_⟩, ?_⟩
    · rw [v1, v2, v3, v4, hln']; exact hT
    · rw [v4, v5, hgl', hfg', hng']; exact incr_grp_AnJ hg hL1 hL hld hA hJ
    · rw [v3]
  · obtain ⟨s', he, hnd, hgl', hfg', hng', hln', hb'⟩ :=
      incr_exec_nAJ s L hb hL1 hL hmod (by omega) hngp.2 hA hJ
    obtain ⟨v1, v2, v3, v4, v5⟩ := incr_views s s' L _ hnd rfl rfl rfl
    refine ⟨s', he, ⟨hb', ?_, ?_⟩, ?_⟩
    · rw [v1, v2, v3, v4, hln']; exact hT
    · rw [v4, v5, hgl', hfg', hng']; exact incr_grp_nAJ hg hL1 hL hld hA hJ
    · rw [v3]
  · obtain ⟨s', he, hnd, hgl', hfg', hng', hln', hb'⟩ :=
      incr_exec_nAnJ s L hb hL1 hL hmod hA hJ
    obtain ⟨v1, v2, v3, v4, v5⟩ := incr_views s s' L _ hnd rfl rfl rfl
    refine ⟨s', he, ⟨hb', ?_, ?_⟩, ?_⟩
    · rw [v1, v2, v3, v4, hln']; exact hT
    · rw [v4, v5, hgl', hfg', hng']
      have := incr_grp_nAnJ hg hL1 hL hld hA hJ
      rw [← incr_upd_self (gp s) L] at this
      exact this
    · rw [v3]

end LhasaV.Lh1
