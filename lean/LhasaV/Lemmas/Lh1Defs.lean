import LhasaV.Model.Lh1
import LhasaV.Lemmas.Safe
import LhasaV.Lemmas.BitsWf
import LhasaV.Lemmas.SafeExtra
/-!
Vocabulary for the memory-safety proof of the -lh1- decoder (`Lh1Safe.lean`):
functional views of the state, the tree / group invariants stated over plain functions
`Nat → _` (so that the preservation lemmas are pure first-order facts), and the
"symbolic execution" lemmas for the checked accessors.
-/
namespace LhasaV.Lh1
open LhasaV.Res

/-! ## point update of a function -/

def upd {α : Type} (f : Nat → α) (i : Nat) (v : α) : Nat → α := fun j => if j = i then v else f j

@[simp] theorem upd_same {α} (f : Nat → α) (i : Nat) (v : α) : upd f i v i = v := by simp [upd]
theorem upd_ne {α} (f : Nat → α) (i j : Nat) (v : α) (h : j ≠ i) : upd f i v j = f j := by
  simp [upd, h]
theorem upd_apply {α} (f : Nat → α) (i j : Nat) (v : α) : upd f i v j = if j = i then v else f j := rfl

/-! ## sums and counts over `0 .. n-1` -/

def sumTo (f : Nat → Nat) : Nat → Nat
  | 0 => 0
  | n+1 => sumTo f n + f n

def cntP (p : Nat → Bool) : Nat → Nat
  | 0 => 0
  | n+1 => cntP p n + (if p n then 1 else 0)

theorem sumTo_congr {f g : Nat → Nat} (n : Nat) (h : ∀ i, i < n → f i = g i) : sumTo f n = sumTo g n := by
  induction n with
  | zero => rfl
  | succ n ih =>
    simp only [sumTo]
    rw [ih (fun i hi => h i (by omega)), h n (by omega)]

/-- changing a function at one point `a < n` -/
theorem sumTo_upd1 {f g : Nat → Nat} (n a : Nat) (ha : a < n)
    (h : ∀ i, i < n → i ≠ a → f i = g i) : sumTo f n + g a = sumTo g n + f a := by
  induction n with
  | zero => omega
  | succ n ih =>
    simp only [sumTo]
    by_cases hn : a = n
    · subst hn
      have := sumTo_congr (f := f) (g := g) a (fun i hi => h i (by omega) (by omega))
      omega
    · have := ih (by omega) (fun i hi hia => h i (by omega) hia)
      have := h n (by omega) (fun h' => hn h'.symm)
      omega

theorem cntP_congr {p q : Nat → Bool} (n : Nat) (h : ∀ i, i < n → p i = q i) : cntP p n = cntP q n := by
  induction n with
  | zero => rfl
  | succ n ih =>
    simp only [cntP]
    rw [ih (fun i hi => h i (by omega)), h n (by omega)]

theorem cntP_le (p : Nat → Bool) (n : Nat) : cntP p n ≤ n := by
  induction n with
  | zero => exact Nat.le_refl _
  | succ n ih => simp only [cntP]; split <;> omega

def b2n (b : Bool) : Nat := if b then 1 else 0

/-- changing a predicate at one point `a < n` -/
theorem cntP_upd1 {p q : Nat → Bool} (n a : Nat) (ha : a < n)
    (h : ∀ i, i < n → i ≠ a → p i = q i) : cntP p n + b2n (q a) = cntP q n + b2n (p a) := by
  induction n with
  | zero => omega
  | succ n ih =>
    simp only [cntP]
    by_cases hn : a = n
    · subst hn
      have := cntP_congr (p := p) (q := q) a (fun i hi => h i (by omega) (by omega))
      simp only [b2n]; omega
    · have := ih (by omega) (fun i hi hia => h i (by omega) hia)
      have := h n (by omega) (fun h' => hn h'.symm)
      rw [this]; omega

/-- changing a predicate at two points `a ≠ b`, both `< n` -/
theorem cntP_upd2 {p q : Nat → Bool} (n a b : Nat) (ha : a < n) (hb : b < n) (hab : a ≠ b)
    (h : ∀ i, i < n → i ≠ a → i ≠ b → p i = q i) :
    cntP p n + b2n (q a) + b2n (q b) = cntP q n + b2n (p a) + b2n (p b) := by
  -- go through the intermediate predicate that agrees with `q` at `a` and with `p` elsewhere
  let r : Nat → Bool := fun i => if i = a then q a else p i
  have h1 := cntP_upd1 (p := p) (q := r) n a ha (fun i _ hia => by simp [r, hia])
  have h2 := cntP_upd1 (p := r) (q := q) n b hb (fun i hi hib => by
    by_cases hia : i = a
    · simp [r, hia]
    · simp [r, hia]; exact h i hi hia hib)
  have hra : r a = q a := by simp [r]
  have hba : b ≠ a := fun h' => hab h'.symm
  have hrb : r b = p b := by simp [r, hba]
  rw [hra] at h1; rw [hrb] at h2
  omega

/-! ## functional views of the state -/

def nd (s : St) (i : Nat) : Node := s.nodes.getD i {}
def lf (s : St) (i : Nat) : Bool := (nd s i).leaf
def ch (s : St) (i : Nat) : Nat := (nd s i).child
def pa (s : St) (i : Nat) : Nat := (nd s i).parent
def fr (s : St) (i : Nat) : Nat := (nd s i).freq
def gp (s : St) (i : Nat) : Nat := (nd s i).group
/-- `leaf_nodes[c]` -/
def ln (s : St) (c : Nat) : Nat := s.leafNodes.getD c 0
/-- `group_leader[g]` -/
def gl (s : St) (g : Nat) : Nat := s.groupLeader.getD g 0
/-- `groups[j]` -/
def fg (s : St) (j : Nat) : Nat := s.groups.getD j 0

/-! ## the invariants, over plain functions -/

/-- frequencies are non-increasing in the index -/
def Sorted (fr : Nat → Nat) : Prop := ∀ i, i + 1 < 627 → fr (i + 1) ≤ fr i

theorem Sorted.le {fr : Nat → Nat} (h : Sorted fr) {i j : Nat} (hij : i ≤ j) (hj : j < 627) :
    fr j ≤ fr i := by
  induction j with
  | zero => have : i = 0 := by omega
            subst this; exact Nat.le_refl _
  | succ j ih =>
    by_cases he : i = j + 1
    · subst he; exact Nat.le_refl _
    · exact Nat.le_trans (h j hj) (ih (by omega) (by omega))

/-- sum of the leaf frequencies -/
def leafSum (lf : Nat → Bool) (fr : Nat → Nat) : Nat := sumTo (fun i => if lf i then fr i else 0) 627

/-- Shape and frequency invariant of the code tree. `x` is the node whose frequency is still to be
bumped by the running `increment_for_code` (`x = 0`: no update in progress): the root has already
been incremented, node `x` not yet, so the root is one ahead of its children and `x` (if a branch)
one behind. -/
structure Tree (lf : Nat → Bool) (ch pa fr ln : Nat → Nat) (x : Nat) : Prop where
  /-- a branch node: child index in range, both children point back -/
  br : ∀ i, i < 627 → lf i = false → 2 ≤ ch i ∧ ch i ≤ 626 ∧ pa (ch i) = i ∧ pa (ch i - 1) = i
  /-- a leaf node carries a code, and `leaf_nodes` points back -/
  le : ∀ i, i < 627 → lf i = true → ch i < 314 ∧ ln (ch i) = i
  /-- every code has its leaf -/
  cd : ∀ c, c < 314 → ln c < 627 ∧ lf (ln c) = true ∧ ch (ln c) = c
  /-- every node but the root has a parent to its left which is a branch and has it as a child -/
  pr : ∀ i, 1 ≤ i → i < 627 → pa i < i ∧ lf (pa i) = false ∧ (ch (pa i) = i ∨ ch (pa i) = i + 1)
  pos : ∀ i, i < 627 → 1 ≤ fr i
  sum : ∀ i, i < 627 → lf i = false →
    fr i + (if i = x ∧ x ≠ 0 then 1 else 0) = fr (ch i) + fr (ch i - 1) + (if i = 0 ∧ x ≠ 0 then 1 else 0)
  /-- the root frequency is the sum of the leaf frequencies (needed for: no `uint16` wrap in the rebuild) -/
  lsum : leafSum lf fr + (if x ≠ 0 ∧ lf x = true then 1 else 0) = fr 0
  top : fr 0 ≤ 32768
  nleaf : cntP lf 627 = 314

/-- number of group leaders = number of maximal runs of equal frequency in `0 .. n-1` -/
def leaders (fr : Nat → Nat) (n : Nat) : Nat := cntP (fun i => decide (i = 0 ∨ fr (i - 1) ≠ fr i)) n

/-- Frequency-group invariant: groups are exactly the maximal runs of equal frequency,
`group_leader[g]` is the first index of run `g`, `groups[num_groups ..]` are the unused ids. -/
structure Grp (fr gp gl fg : Nat → Nat) (ng : Nat) : Prop where
  sorted : Sorted fr
  eqv : ∀ i j, i < 627 → j < 627 → (gp i = gp j ↔ fr i = fr j)
  rng : ∀ i, i < 627 → gp i < 627
  ldr : ∀ i, i < 627 → fr (gl (gp i)) = fr i ∧ ∀ j, j < 627 → fr j = fr i → gl (gp i) ≤ j
  free : ∀ j, ng ≤ j → j < 627 → fg j < 627 ∧ ∀ i, i < 627 → gp i ≠ fg j
  inj : ∀ j k, ng ≤ j → j < 627 → ng ≤ k → k < 627 → fg j = fg k → j = k
  cnt : ng = leaders fr 627

/-- sizes, ring position, bit reader, static offset tables -/
structure Base (s : St) : Prop where
  nodes : s.nodes.size = 627
  leafNodes : s.leafNodes.size = 314
  groups : s.groups.size = 627
  groupLeader : s.groupLeader.size = 627
  ring : s.ring.size = 4096
  pos : s.pos < 4096
  bits : s.bits.WF
  olk : s.offsetLookup.size = 256
  oln : s.offsetLengths.size = 64
  olk_lt : ∀ i, i < 256 → s.offsetLookup.getD i 0 < 64
  oln_le : ∀ i, i < 64 → s.offsetLengths.getD i 0 ≤ 8

/-- the invariant during `increment_for_code`, `x` = the node still to be bumped -/
structure CInv (s : St) (x : Nat) : Prop where
  base : Base s
  tree : Tree (lf s) (ch s) (pa s) (fr s) (ln s) x
  grp : Grp (fr s) (gp s) (gl s) (fg s) s.numGroups

/-- the invariant between two calls of `lha_lh1_read` -/
def Inv (s : St) : Prop := CInv s 0

/-! ## basic consequences -/

theorem Tree.ch0 {lf ch pa fr ln x} (h : Tree lf ch pa fr ln x) : lf 0 = false ∧ ch 0 = 2 := by
  have h1 := h.pr 1 (by omega) (by omega)
  have hp : pa 1 = 0 := by omega
  rw [hp] at h1
  have h2 := h.br 0 (by omega) h1.2.1
  exact ⟨h1.2.1, by omega⟩

/-- a branch lies at least two positions to the left of its children -/
theorem Tree.ch_gt {lf ch pa fr ln x} (h : Tree lf ch pa fr ln x) {i : Nat} (hi : i < 627)
    (hb : lf i = false) : i + 2 ≤ ch i := by
  have h1 := h.br i hi hb
  have h2 := h.pr (ch i - 1) (by omega) (by omega)
  omega

/-- the root is strictly heavier than every other node -/
theorem Tree.root_gt {lf ch pa fr ln x} (h : Tree lf ch pa fr ln x) (hs : Sorted fr) {i : Nat}
    (h1 : 1 ≤ i) (hi : i < 627) : fr i < fr 0 := by
  have h0 := h.ch0
  have hsum := h.sum 0 (by omega) h0.1
  rw [h0.2] at hsum
  have hp := h.pos 2 (by omega)
  have hle : fr i ≤ fr 1 := hs.le h1 hi
  split at hsum <;> split at hsum <;> simp at hsum <;> omega

/-! ## symbolic execution of the checked accessors -/

theorem getD_set {α} (a : Array α) (i j : Nat) (v d : α) (hi : i < a.size) :
    (a.setIfInBounds i v).getD j d = if j = i then v else a.getD j d := by
  simp only [Array.getD_eq_getD_getElem?, Array.getElem?_setIfInBounds]
  by_cases h : j = i
  · subst h; simp [hi]
  · have h' : ¬ i = j := fun e => h e.symm
    simp [h, h']

theorem getNode_ok (s : St) (site : String) (i : Nat) (h : i < s.nodes.size) :
    getNode s site i = .ok (nd s i) := by
  simp [getNode, nd, h]

theorem setNode_ok (s : St) (site : String) (i : Nat) (n : Node) (h : i < s.nodes.size) :
    setNode s site i n = .ok { s with nodes := s.nodes.setIfInBounds i n } := by
  simp [setNode, h]

theorem getA_ok (a : Array Nat) (site : String) (i : Nat) (h : i < a.size) :
    getA a site i = .ok (a.getD i 0) := by
  simp [getA, h]

theorem setLeafNode_ok (s : St) (site : String) (i v : Nat) (h : i < s.leafNodes.size) :
    setLeafNode s site i v = .ok { s with leafNodes := s.leafNodes.setIfInBounds i v } := by
  simp [setLeafNode, h]

theorem setGroupLeader_ok (s : St) (site : String) (i v : Nat) (h : i < s.groupLeader.size) :
    setGroupLeader s site i v = .ok { s with groupLeader := s.groupLeader.setIfInBounds i v } := by
  simp [setGroupLeader, h]

theorem allocGroup_ok (s : St) (h : s.numGroups < s.groups.size) :
    allocGroup s = .ok (fg s s.numGroups, { s with numGroups := s.numGroups + 1 }) := by
  simp [allocGroup, getA_ok _ _ _ h, fg]

theorem freeGroup_ok (s : St) (g : Nat) (h0 : s.numGroups ≠ 0) (h : s.numGroups - 1 < s.groups.size) :
    freeGroup s g = .ok { s with numGroups := s.numGroups - 1,
                                 groups := s.groups.setIfInBounds (s.numGroups - 1) g } := by
  simp [freeGroup, h0, h]

/-- view of a node array after one write -/
theorem nd_set (s : St) (i j : Nat) (n : Node) (h : i < s.nodes.size) :
    nd { s with nodes := s.nodes.setIfInBounds i n } j = if j = i then n else nd s j := by
  simp only [nd]; exact getD_set _ _ _ _ _ h

/-- a state that differs only in the contents (not the sizes) of the four tree arrays -/
theorem Base.congr {s s' : St} (h : Base s) (h1 : s'.nodes.size = s.nodes.size)
    (h2 : s'.leafNodes.size = s.leafNodes.size) (h3 : s'.groups.size = s.groups.size)
    (h4 : s'.groupLeader.size = s.groupLeader.size) (h5 : s'.ring = s.ring) (h6 : s'.pos = s.pos)
    (h7 : s'.bits = s.bits) (h8 : s'.offsetLookup = s.offsetLookup)
    (h9 : s'.offsetLengths = s.offsetLengths) : Base s' :=
  { nodes := by rw [h1]; exact h.nodes, leafNodes := by rw [h2]; exact h.leafNodes,
    groups := by rw [h3]; exact h.groups, groupLeader := by rw [h4]; exact h.groupLeader,
    ring := by rw [h5]; exact h.ring, pos := by rw [h6]; exact h.pos, bits := by rw [h7]; exact h.bits,
    olk := by rw [h8]; exact h.olk, oln := by rw [h9]; exact h.oln,
    olk_lt := by rw [h8]; exact h.olk_lt, oln_le := by rw [h9]; exact h.oln_le }

/-- a predicate that is false somewhere below `n` is counted less than `n` times -/
theorem cntP_lt_of_false (p : Nat → Bool) (n a : Nat) (ha : a < n) (hp : p a = false) : cntP p n < n := by
  have h1 := cntP_upd1 (p := p) (q := fun i => if i = a then true else p i) n a ha
    (fun i _ hia => by simp [hia])
  have h2 := cntP_le (fun i => if i = a then true else p i) n
  have e1 : b2n ((fun i => if i = a then true else p i) a) = 1 := by simp [b2n]
  have e2 : b2n (p a) = 0 := by simp [b2n, hp]
  rw [e1, e2] at h1
  omega

theorem cntP_pos_of_true (p : Nat → Bool) (n a : Nat) (ha : a < n) (hp : p a = true) : 1 ≤ cntP p n := by
  have h1 := cntP_upd1 (p := p) (q := fun i => if i = a then false else p i) n a ha
    (fun i _ hia => by simp [hia])
  have e1 : b2n ((fun i => if i = a then false else p i) a) = 0 := by simp [b2n]
  have e2 : b2n (p a) = 1 := by simp [b2n, hp]
  rw [e1, e2] at h1
  omega

theorem leaders_pos (fr : Nat → Nat) (n : Nat) (hn : 0 < n) : 1 ≤ leaders fr n :=
  cntP_pos_of_true _ n 0 hn (by simp)

theorem leaders_le (fr : Nat → Nat) (n : Nat) : leaders fr n ≤ n := cntP_le _ n

/-- the group part of `reconstruct_tree` (everything after the rebuild loop) -/
def regroupAll (s : St) : Res St := do
  let s := { s with groups := Array.range Gen.lh1GroupsCap, numGroups := 0 }
  let (g, s) ← allocGroup s
  let n0 ← getNode s "reconstruct_tree nodes[0]" 0
  let s ← setNode s "reconstruct_tree nodes[0]" 0 { n0 with group := g }
  let s ← setGroupLeader s "reconstruct_tree" g 0
  regroup (numNodes - 1) 1 g s

theorem reconstructTree_eq (s : St) :
    reconstructTree s =
      (gatherLeaves numNodes 0 0 s >>= fun s1 =>
        rebuildLoop (numNodes + 1) (numNodes - 1 : Nat) (numCodes - 1 : Nat) (numNodes - 1 : Nat) s1 >>=
          regroupAll) := rfl

end LhasaV.Lh1
