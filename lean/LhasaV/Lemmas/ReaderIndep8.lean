import LhasaV.Lemmas.ReaderIndep7
/-!
# C15, part 8: `bytes_independent`
-/
set_option linter.unusedSimpArgs false
namespace LhasaV.ReaderIndep
open LhasaV LhasaV.Reader

theorem histories_simJ (H : HonestAll) (ops₁ ops₂ : List Op) (s t : St)
    (hs : GoodK s) (ht : GoodK t) (h : SimJ s t) (hsk : skeleton ops₁ = skeleton ops₂) :
    nextResults s ops₁ = nextResults t ops₂ ∧ SimJ (run s ops₁) (run t ops₂) :=
  histories_gen GoodK SimJ (fun _ op h => step_goodK H h op)
    (fun _ _ op hop hs _ h => step_simJ_left H hs h op hop)
    (fun _ _ op hop _ ht h => step_simJ_right H ht h op hop)
    (fun _ _ op hop hs ht h => step_simJ_both H hs ht h op hop)
    _ ops₁ ops₂ s t (Nat.le_refl _) hs ht h hsk

theorem run_goodK (H : HonestAll) {s : St} (h : GoodK s) (ops : List Op) : GoodK (run s ops) := by
  induction ops generalizing s with
  | nil => exact h
  | cons op ops ih => exact ih (step_goodK H h op)

/-- right after `next` on two simulating states, a member that is presented is presented with
the same member source: no decoding operation can tell the two states apart -/
theorem after_next_dEq {s t : St} (gs : GoodK s) (gt : GoodK t) (h : SimJ s t)
    {r r' : Option HObj × St} (e : next s = .ok r) (e' : next t = .ok r')
    (hn : r.2.currType = .normal) (hc : r.2.curr ≠ none) : DEq r.2 r'.2 := by
  have key := next_simC gs.good.inv gt.good.inv gs.good.pre gt.good.pre h.sim
  rw [e, e'] at key
  obtain ⟨_, hsim⟩ := key
  have hne : r.2.currType ≠ .eof := by rw [hn]; intro h; cases h
  have hobs := next_obs gs.good gt.good gs.k gt.k h.sim h.j e e' hne
  have hq := next_quiet gs.good gs.k e hne
  have hinv := (next_good gs.good e).inv
  have hbc : r.2.basic.curr ≠ none := by rw [← hinv.normal hn]; exact hc
  have heof := hq.2 hbc
  obtain ⟨hd, _, he, hr⟩ := hobs
  obtain ⟨hp, _, _, hrem⟩ := hr.resolve_left (by simp [heof])
  exact ⟨by rw [hsim.decS, hsim.decT], hsim.curr, hsim.currType, ⟨hd, hp, hrem, he⟩⟩

/-! ## an entry that is not a member of the stream decodes to nothing -/

theorem other_openDecoder {s : St} (hn : s.currType ≠ .normal ∨ s.curr = none) :
    openDecoder s = (false, s) := by
  unfold openDecoder
  rcases hn with h | h
  · simp [h]
  · split
    · rfl
    · simp only [h]

theorem other_read {s : St} (hn : s.currType ≠ .normal ∨ s.curr = none) (hd : s.dec = none) (k : Nat) :
    read s k = ([], s) := by
  rw [read_eq]
  simp only [hd, other_openDecoder hn, Bool.false_eq_true, if_false]

theorem other_decodeLoop {s : St} (hn : s.currType ≠ .normal ∨ s.curr = none) (hd : s.dec = none)
    (fuel : Nat) (acc : List UInt8) : (decodeLoop fuel s acc).1 = acc := by
  cases fuel with
  | zero => rfl
  | succ n => unfold decodeLoop; simp [other_read hn hd]

theorem other_check {s : St} (hn : s.currType ≠ .normal ∨ s.curr = none) : (check s).1 = (false, []) := by
  rcases hn with h | h
  · rw [check_not_normal h]
  · unfold check
    split
    · rfl
    · simp only [h]

/-- **`bytes_independent`.**  Take two histories with the same skeleton (same `next`s and
`extract`s, arbitrary reads and checks of the earlier members in between) on the same fresh
reader, and let both end with one more `next`.  Then whatever is decoded from the entry that
`next` presents is the same in both: the result and the bytes of `check`, the outcome and the
bytes of `extract` (for either outcome of the file-system call), every read loop
(`decodeLoop`, any fuel) and every single `read k`. -/
theorem bytes_independent (H : HonestAll) (st : Stream.St) (pol : DirPolicy) (mk : Nat → Nat)
    (hl : st.leadin.length ≤ 24) (ops₁ ops₂ : List Op) (hsk : skeleton ops₁ = skeleton ops₂) :
    (check (run (fresh st pol mk) (ops₁ ++ [.next]))).1 =
      (check (run (fresh st pol mk) (ops₂ ++ [.next]))).1 ∧
    (∀ b, (extract (run (fresh st pol mk) (ops₁ ++ [.next])) b).1 =
      (extract (run (fresh st pol mk) (ops₂ ++ [.next])) b).1) ∧
    (∀ fuel, (decodeLoop fuel (run (fresh st pol mk) (ops₁ ++ [.next])) []).1 =
      (decodeLoop fuel (run (fresh st pol mk) (ops₂ ++ [.next])) []).1) ∧
    (∀ k, (read (run (fresh st pol mk) (ops₁ ++ [.next])) k).1 =
      (read (run (fresh st pol mk) (ops₂ ++ [.next])) k).1) := by
  have g0 := goodK_fresh st pol mk hl
  have s0 : SimJ (fresh st pol mk) (fresh st pol mk) :=
    ⟨Sim.refl g0.good.pre.tidy, fun hf => by rcases hf with h | h <;> cases h⟩
  obtain ⟨_, hsim⟩ := histories_simJ H ops₁ ops₂ _ _ g0 g0 s0 hsk
  have gs := run_goodK H g0 ops₁
  have gt := run_goodK H g0 ops₂
  rw [run_append, run_append]
  generalize run (fresh st pol mk) ops₁ = s at hsim gs
  generalize run (fresh st pol mk) ops₂ = t at hsim gt
  obtain ⟨r, e⟩ := next_ok s gs.good.pre.wf
  obtain ⟨r', e'⟩ := next_ok t gt.good.pre.wf
  have hs : run s [.next] = r.2 := by simp only [run_cons, run_nil, step, e]
  have ht : run t [.next] = r'.2 := by simp only [run_cons, run_nil, step, e']
  rw [hs, ht]
  have key := next_simC gs.good.inv gt.good.inv gs.good.pre gt.good.pre hsim.sim
  rw [e, e'] at key
  obtain ⟨_, hc⟩ := key
  by_cases hn : r.2.currType = .normal ∧ r.2.curr ≠ none
  · have hd := after_next_dEq gs gt hsim e e' hn.1 hn.2
    exact ⟨(check_dEq hd).1, fun b => extract_out_dEq hd b, fun fuel => (decodeLoop_dEq fuel hd []).1,
      fun k => (read_dEq hd k).1⟩
  · have hn1 : r.2.currType ≠ .normal ∨ r.2.curr = none := by
      by_cases h1 : r.2.currType = .normal
      · right
        cases h2 : r.2.curr with
        | none => rfl
        | some c => exact absurd ⟨h1, by rw [h2]; exact fun h => by cases h⟩ hn
      · exact Or.inl h1
    have hn2 : r'.2.currType ≠ .normal ∨ r'.2.curr = none := by
      rw [← hc.currType, ← hc.curr]; exact hn1
    refine ⟨by rw [other_check hn1, other_check hn2], fun b => extract_out_other hc.curr hc.currType hn1 b,
      fun fuel => by rw [other_decodeLoop hn1 hc.decS, other_decodeLoop hn2 hc.decT],
      fun k => by rw [other_read hn1 hc.decS, other_read hn2 hc.decT]⟩

end LhasaV.ReaderIndep
