import LhasaV.Lemmas.ReaderAlloc8
/-!
# Allocation-aware reader, part 9: `alloc_failure_reports` on legal histories; the single index `k`
-/
namespace LhasaV.Reader
open LhasaV LhasaV.Alloc

/-- every `next` of the history returned (no `fault` of the header parser / lead-in scan model,
i.e. no undefined behaviour of the C on the way) -/
def NextsOk (o : Oracle) : StA → List Op → Prop
  | _, [] => True
  | a, .next :: ops => (∃ r, nextA o a = .ok r) ∧ NextsOk o (stepA o a .next) ops
  | a, op :: ops => NextsOk o (stepA o a op) ops

/-- in a legal history `check` and `extract` are called with no decoder open -/
theorem legal_dec_none {o : Oracle} (ops : List Op) (op : Op) (hop : op = .check ∨ ∃ b, op = .extract b)
    (p : Phase) {a : StA} (hinv : InvA o a) (hp : p = .fresh → a.s.dec = none)
    (hl : legalFrom p (ops ++ [op]) = true) (hok : NextsOk o a ops) : (runA o a ops).s.dec = none := by
  induction ops generalizing p a with
  | nil =>
    cases p with
    | fresh => exact hp rfl
    | reading => rcases hop with rfl | ⟨b, rfl⟩ <;> simp [legalFrom] at hl
    | done => rcases hop with rfl | ⟨b, rfl⟩ <;> simp [legalFrom] at hl
  | cons x ops ih =>
    cases x with
    | next =>
      have hl' : legalFrom .fresh (ops ++ [op]) = true := by cases p <;> exact hl
      obtain ⟨⟨r, hr⟩, hok'⟩ := hok
      have hc := (nextA_closed (r := r.1) (a' := r.2) hinv hr).1
      have hst : stepA o a .next = r.2 := by simp only [stepA, hr]
      rw [runA_cons, hst]
      rw [hst] at hok'
      exact ih .fresh (hst ▸ stepA_invA hinv .next) (fun _ => hc.dec) hl' hok'
    | read k =>
      cases p with
      | fresh => exact ih .reading (stepA_invA hinv _) (fun e => by cases e) hl hok
      | reading => exact ih .reading (stepA_invA hinv _) (fun e => by cases e) hl hok
      | done => simp [legalFrom] at hl
    | check =>
      cases p with
      | fresh => exact ih .done (stepA_invA hinv _) (fun e => by cases e) hl hok
      | reading => simp [legalFrom] at hl
      | done => simp [legalFrom] at hl
    | extract b =>
      cases p with
      | fresh => exact ih .done (stepA_invA hinv _) (fun e => by cases e) hl hok
      | reading => simp [legalFrom] at hl
      | done => simp [legalFrom] at hl

/-- what the call `op`, made in state `a`, reports when an allocation fails during it -/
def ReportsFailure (o : Oracle) (a : StA) : Op → Prop
  | .read k =>
    (readA o a k).2.hp.failed ≠ a.hp.failed → (readA o a k).1 = [] ∧ (readA o a k).2.s.dec = none
  | .check =>
    (checkA o a).2.hp.failed ≠ a.hp.failed → (checkA o a).1 = (false, []) ∧ (checkA o a).2.s.dec = none
  | .extract b =>
    (extractA o a b).2.hp.failed ≠ a.hp.failed →
      (extractA o a b).1 = (false, []) ∧ (extractA o a b).2.s.dec = none ∧
      (extractA o a b).2.s.dirStack = a.s.dirStack ∧ (extractA o a b).2.s.deferred = a.s.deferred
  | .next =>
    ∀ r a', nextA o a = .ok (r, a') → a'.hp.failed ≠ a.hp.failed →
      a'.s.basic.eof = true ∧ a'.s.basic.curr = none ∧
      (r = none ∨ a'.s.currType = .fakeDir ∨ a'.s.currType = .deferred) ∧ a'.s.currType ≠ .normal

/-- **C20, second half, (c): the affected call reports failure or end-of-archive.**  On every
legal history, under ANY failure set that lets the reader be created: the call during which an
allocation fails returns its failure value — `read`: 0 bytes; `check`, `extract`: 0, nothing
pushed or deferred; no decoder is left behind — and a `next` during which an allocation fails
(ANY allocation: none is swallowed) reports end-of-archive or hands out a pending directory /
deferred symbolic link, never a header read from the stream; the stream is finished. -/
theorem alloc_failure_reports (o : Oracle) (h0 : o 0 = false) (h1 : o 1 = false) (h2 : o 2 = false)
    (st : Stream.St) (pol : DirPolicy) (mk : Nat → Nat) (pre : List Op) (op : Op)
    (hl : Legal (pre ++ [op])) (hok : NextsOk o (freshA st pol mk) pre) :
    ReportsFailure o (runA o (freshA st pol mk) pre) op := by
  have hinv0 := invA_fresh o st pol mk h0 h1 h2
  have hinv := runA_invA hinv0 pre
  cases op with
  | read k => exact fun hf => readA_reports o _ k hf
  | check =>
    have hd := legal_dec_none pre .check (Or.inl rfl) .fresh hinv0 (fun _ => rfl) hl hok
    exact fun hf => checkA_reports o _ hd hf
  | extract b =>
    have hd := legal_dec_none pre (.extract b) (Or.inr ⟨b, rfl⟩) .fresh hinv0 (fun _ => rfl) hl hok
    exact fun hf => extractA_reports o _ b hd hf
  | next => exact fun r a' e hf => nextA_reports hinv e hf

/-- … and no later call (nor the final `free`) ever sees a freed header: the ledger's fault list
stays empty on every continuation -/
theorem alloc_failure_no_later_fault (o : Oracle) (h0 : o 0 = false) (h1 : o 1 = false) (h2 : o 2 = false)
    (st : Stream.St) (pol : DirPolicy) (mk : Nat → Nat) (ops : List Op) :
    (runA o (freshA st pol mk) ops).s.led.faults = [] :=
  (runA_invA (invA_fresh o st pol mk h0 h1 h2) ops).inv.own.faults

/-! ## the single failing index `k` of the harness -/

theorem countFails_single (k n : Nat) :
    countFails (Oracle.ofFailAt (some k)) n = if k < n then 1 else 0 := by
  induction n with
  | zero => rfl
  | succ n ih =>
    rw [countFails_succ, ih]
    simp only [Oracle.ofFailAt]
    by_cases h1 : k < n
    · have : ¬ n = k := by omega
      simp [h1, this]; omega
    · by_cases h2 : n = k
      · subst h2; simp
      · have : ¬ k < n + 1 := by omega
        simp [h1, h2, this]

/-- **the injected failure fires iff the library makes more than `k` allocations**, and it fires
at most once: the log has one entry or none (`allocs` of the harness = `hp.n`) -/
theorem fired_iff (st : Stream.St) (pol : DirPolicy) (mk : Nat → Nat) (ops : List Op) (k : Nat) (hk : 3 ≤ k) :
    (runA (Oracle.ofFailAt (some k)) (freshA st pol mk) ops).hp.failed.length =
      if k < (runA (Oracle.ofFailAt (some k)) (freshA st pol mk) ops).hp.n then 1 else 0 := by
  have hne : ∀ i, i < 3 → Oracle.ofFailAt (some k) i = false := by
    intro i hi; simp [Oracle.ofFailAt]; omega
  have h := (runA_invA (invA_fresh (Oracle.ofFailAt (some k)) st pol mk (hne 0 (by omega)) (hne 1 (by omega))
    (hne 2 (by omega))) ops).hp.good
  unfold Good at h
  rw [h, countFails_single]

/-- (c) for the single failing index `k ≥ 3` -/
theorem alloc_failure_reports_k (st : Stream.St) (pol : DirPolicy) (mk : Nat → Nat) (pre : List Op) (op : Op)
    (hl : Legal (pre ++ [op])) (k : Nat) (hk : 3 ≤ k)
    (hok : NextsOk (Oracle.ofFailAt (some k)) (freshA st pol mk) pre) :
    ReportsFailure (Oracle.ofFailAt (some k)) (runA (Oracle.ofFailAt (some k)) (freshA st pol mk) pre) op := by
  have hne : ∀ i, i < 3 → Oracle.ofFailAt (some k) i = false := by
    intro i hi; simp [Oracle.ofFailAt]; omega
  exact alloc_failure_reports _ (hne 0 (by omega)) (hne 1 (by omega)) (hne 2 (by omega)) st pol mk pre op hl hok

end LhasaV.Reader
