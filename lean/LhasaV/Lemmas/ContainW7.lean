import LhasaV.Lemmas.ContainW5
import LhasaV.Lemmas.MessagesAgree5
/-!
# C10 with `w=DIR` (part 7): one entry in the message-bearing model

`Model/Messages.lean` (the model compared byte for byte with the real tool) applies the POSIX
trailing-slash rule: a file or link member whose constructed path ends in '/' is refused before
anything is created.  A constructed path `DIR/X` that does not end in '/' has `X ≠ []`, so its
parents include `DIR` itself (`ContainW4b.makeParents_base`): in this model NO condition on the
archive is needed, whether `DIR` exists or not.

* `mreaderExtract_cases`, `extractBody_cases`, `extractEntry_cases`: what `extract_archived_file`
  of the message model does to the reader and the file system, in terms of `Contain.parentsOf` and
  the two `readerExtract`s;
* `mentry_w_main`, `mentry_w_deferred`, `mentry_w_dd`, `mentry_stackInv`.
-/
namespace LhasaV.ContainW
open LhasaV LhasaV.Header LhasaV.Extract LhasaV.GlobFs LhasaV.Contain LhasaV.Messages
open LhasaV.MessagesAgree

/-- the `Extract` state with the reader, file system and options of `x` -/
def E (x : XSt) : Extract.St := { rd := x.rd, fs := x.fs, opts := x.opts, answers := x.answers }

theorem mreaderExtract_cases (rd : Reader.St) (fs : Fs.St) (fn : Bytes) :
    (Messages.readerExtract rd fs fn = Extract.readerExtract rd fs fn ∧
      (rd.currType = .normal → ∀ c, rd.curr = some c →
        isDirEntry c.h = true ∨ endsWithSlash fn = false)) ∨
    (rd.currType = .normal ∧
      Messages.readerExtract rd fs fn = (false, (Reader.extract rd false).2, fs)) := by
  unfold Messages.readerExtract
  split
  · rename_i c hty hc
    split
    · exact Or.inr ⟨hty, rfl⟩
    · rename_i hn
      refine Or.inl ⟨rfl, fun _ c' hc' => ?_⟩
      have : c' = c := by
        have h' : some c' = some c := hc'.symm.trans hc
        injection h'
      subst this
      cases hd : isDirEntry c'.h with
      | true => exact Or.inl rfl
      | false =>
        right
        cases he : endsWithSlash fn with
        | false => rfl
        | true => exact absurd ⟨he, by simp [hd]⟩ hn
  · rename_i hno
    exact Or.inl ⟨rfl, fun hty c hc => (hno c hty hc).elim⟩

/-- what `extractBody` leaves: nothing changed / parents only / parents, then `lha_reader_extract` -/
def EntryCases (x : XSt) (h : Hdr) (y : XSt) : Prop :=
  (y.fs = x.fs ∧ y.rd = x.rd) ∨
  (y.fs = (parentsOf (E x) (fileFullPath h x.opts)).2 ∧ y.rd = x.rd) ∨
  ((parentsOf (E x) (fileFullPath h x.opts)).1 = true ∧
    y.fs = (Messages.readerExtract x.rd (parentsOf (E x) (fileFullPath h x.opts)).2
      (fileFullPath h x.opts)).2.2 ∧
    y.rd = (Messages.readerExtract x.rd (parentsOf (E x) (fileFullPath h x.opts)).2
      (fileFullPath h x.opts)).2.1)

theorem extractBody_cases (x : XSt) (h : Hdr) (err : Bytes) :
    EntryCases x h (extractBody x h err).2 := by
  have hp := parentsFor_eq (E x) (fileFullPath h x.opts)
  unfold EntryCases extractBody
  dsimp only
  split
  · exact Or.inl ⟨rfl, rfl⟩
  · split
    · exact Or.inr (Or.inl ⟨hp.2, rfl⟩)
    · rename_i hmp
      refine Or.inr (Or.inr ⟨?_, ?_, ?_⟩)
      · have h' : (parentsFor (x.rd.currType == .fakeDir || x.rd.currType == .deferred) x.fs
            (fileFullPath h x.opts)).1 = true := by simpa using hmp
        exact hp.1.symm.trans h'
      · rw [← hp.2]; rfl
      · rw [← hp.2]; rfl

theorem extractEntry_cases (x : XSt) (h : Hdr) : EntryCases x h (extractEntry x h).2 := by
  unfold extractEntry
  dsimp only
  repeat' split
  all_goals first
    | exact Or.inl ⟨rfl, rfl⟩
    | exact extractBody_cases _ h _

theorem endsWithSlash_w (d : Bytes) : endsWithSlash (d ++ [0x2f]) = true := by
  unfold endsWithSlash; simp

section entry
variable {d : Bytes} {ds : List Bytes} {c : Fs.Path}

/-- **a first-time entry or a re-presented directory whose name does not end in ".."** — no
condition on the entry: where the older model needs `NotBase`, this one refuses the entry -/
theorem mentry_w_main (hw : WOpts d ds) (fs0 : Fs.St) (x : XSt) (c0 : Reader.HObj)
    (hx : x.opts.extractPath = some d) (hc : StepW c ds fs0 x.fs)
    (hf : FnOk c0.h) (hp : PathOk c0.h) (hn : NND x.opts.usePath c0.h)
    (hnd : x.rd.currType ≠ .deferred) (hcur : x.rd.curr = some c0) :
    StepW c ds fs0 (extractEntry x c0.h).2.fs := by
  have hX := X_relClean x.opts.usePath c0.h hf hp hn
  have hpar := parentsOf_w hw (E x) (Xof x.opts.usePath c0.h) hc.inv hX.dirsClean
  obtain ⟨cs, hshape, hcs⟩ := fnShape_w hw (Xof x.opts.usePath c0.h) hX
  have hcases := extractEntry_cases x c0.h
  unfold EntryCases at hcases
  rw [fileFullPath_w c0.h x.opts d hx] at hcases
  rcases hcases with ⟨h1, _⟩ | ⟨h1, _⟩ | ⟨hmp, h1, _⟩
  · rw [h1]; exact hc
  · rw [h1]; exact hc.trans hpar
  · rw [h1]
    rcases mreaderExtract_cases x.rd (parentsOf (E x) (d ++ 0x2f :: Xof x.opts.usePath c0.h)).2
      (d ++ 0x2f :: Xof x.opts.usePath c0.h) with ⟨he, hnt⟩ | ⟨_, he⟩
    · rw [he]
      refine hc.trans (hpar.trans (readerExtract_w hw.good x.rd _ _ cs hpar.inv hshape ?_ hnd))
      intro hty
      rcases hnt hty c0 hcur with h | h
      · left; intro c' hc'
        have : c' = c0 := by
          have h' : some c' = some c0 := hc'.symm.trans hcur
          injection h'
        rw [this]; exact h
      · right
        have hXne : Xof x.opts.usePath c0.h ≠ [] := by
          intro h0; rw [h0, endsWithSlash_w] at h; cases h
        rw [parentsOf_normal (E x) _ hty] at hmp ⊢
        exact (ne_of_named hw hc.inv _ hXne hX.dirsClean hmp).imp (fun h' h0 => h' (hcs.1 h0)) id
    · rw [he]; exact hc.trans hpar

/-- **a deferred link whose name does not end in ".."** -/
theorem mentry_w_deferred (hw : WOpts d ds) (fs0 : Fs.St) (x : XSt) (c0 : Reader.HObj)
    (hx : x.opts.extractPath = some d) (hl : LogW c ds fs0 x.fs) (hm : DirMono fs0 x.fs)
    (hcwd : x.fs.cwd = c)
    (hf : FnOk c0.h) (hp : PathOk c0.h) (hn : NND x.opts.usePath c0.h)
    (ht : x.rd.currType = .deferred) (hcur : x.rd.curr = some c0) :
    LogW c ds fs0 (extractEntry x c0.h).2.fs ∧ (extractEntry x c0.h).2.fs.cwd = c ∧
      (extractEntry x c0.h).2.rd = x.rd := by
  have hX := X_relClean x.opts.usePath c0.h hf hp hn
  have hfn := relClean_w hw _ hX
  have hpar : (parentsOf (E x) (fileFullPath c0.h x.opts)).2 = x.fs := by
    unfold parentsOf E; simp [ht]
  have hcases := extractEntry_cases x c0.h
  unfold EntryCases at hcases
  rcases hcases with ⟨h1, h2⟩ | ⟨h1, h2⟩ | ⟨_, h1, h2⟩
  · rw [h1]; exact ⟨hl, hcwd, h2⟩
  · rw [h1, hpar]; exact ⟨hl, hcwd, h2⟩
  · rw [h1, h2, hpar, fileFullPath_w c0.h x.opts d hx]
    rcases mreaderExtract_cases x.rd x.fs (d ++ 0x2f :: Xof x.opts.usePath c0.h) with
      ⟨he, _⟩ | ⟨hty, _⟩
    · rw [he]
      obtain ⟨new, e, p⟩ := deferred_contained x.rd x.fs _ c0 ht hcur hfn.1 hfn.2
      refine ⟨hl.trans hm ⟨new, e, ?_⟩,
        by rw [readerExtract_deferred_cwd x.rd _ _ c0 ht hcur]; exact hcwd,
        readerExtract_deferred_rd x.rd _ _ c0 ht hcur⟩
      intro m hm'
      left
      rw [p m hm', hcwd]
      obtain ⟨r, hr⟩ := pre_w hw (Xof x.opts.usePath c0.h)
      rw [← hr, ← List.append_assoc]
      exact List.prefix_append _ _
    · rw [ht] at hty; cases hty

/-- **a member whose name ends in ".."** -/
theorem mentry_w_dd (hw : WOpts d ds) (fs0 : Fs.St) (x : XSt) (c0 : Reader.HObj)
    (hx : x.opts.extractPath = some d) (hc : StepW c ds fs0 x.fs)
    (hf : FnOk c0.h) (hp : PathOk c0.h) (hn : ¬ NND x.opts.usePath c0.h)
    (hty : x.rd.currType = .normal) :
    StepW c ds fs0 (extractEntry x c0.h).2.fs ∧
      ((extractEntry x c0.h).2.rd = x.rd ∨
       (extractEntry x c0.h).2.rd = (Reader.extract x.rd false).2) := by
  have hX := X_dd x.opts.usePath c0.h hf hp hn
  have hpar := parentsOf_w hw (E x) (Xof x.opts.usePath c0.h) hc.inv hX.1
  obtain ⟨cs, hcomps, hnd⟩ := ddShape_w hw _ hX
  have hrel : (d ++ 0x2f :: Xof x.opts.usePath c0.h).head? ≠ some 0x2f := by
    rw [head_append_ne d _ hw.ne]; exact hw.rel.1
  have htd := toDir_w hw.good hpar.inv _ cs hrel hcomps hnd
  have hre := readerExtract_toDir x.rd _ _ hty htd
  have hcases := extractEntry_cases x c0.h
  unfold EntryCases at hcases
  rw [fileFullPath_w c0.h x.opts d hx] at hcases
  rcases hcases with ⟨h1, h2⟩ | ⟨h1, h2⟩ | ⟨_, h1, h2⟩
  · rw [h1]; exact ⟨hc, Or.inl h2⟩
  · rw [h1]; exact ⟨hc.trans hpar, Or.inl h2⟩
  · rw [h1, h2]
    rcases mreaderExtract_cases x.rd (parentsOf (E x) (d ++ 0x2f :: Xof x.opts.usePath c0.h)).2
      (d ++ 0x2f :: Xof x.opts.usePath c0.h) with ⟨he, _⟩ | ⟨_, he⟩
    · rw [he, hre.1, hre.2]; exact ⟨hc.trans hpar, Or.inr rfl⟩
    · rw [he]; exact ⟨hc.trans hpar, Or.inr rfl⟩

end entry

/-- what `extract_archived_file` stores on the reader's stacks is the current header -/
theorem mentry_stackInv {Q : Hdr → Prop} (x : XSt) (h : Hdr) (hi : StackInv Q x.rd)
    (hq : ∀ c, x.rd.curr = some c → Q c.h) : StackInv Q (extractEntry x h).2.rd := by
  have hcases := extractEntry_cases x h
  unfold EntryCases at hcases
  rcases hcases with ⟨_, h2⟩ | ⟨_, h2⟩ | ⟨_, _, h2⟩
  · rw [h2]; exact hi
  · rw [h2]; exact hi
  · rw [h2]
    rcases mreaderExtract_cases x.rd (parentsOf (E x) (fileFullPath h x.opts)).2
      (fileFullPath h x.opts) with ⟨he, _⟩ | ⟨_, he⟩
    · rw [he]; exact readerExtract_stackInv hi hq _ _
    · rw [he]; exact extract_stackInv hi false (fun hb => by cases hb)

/-- no directory disappears, in any state, for any entry -/
theorem mentry_dirMono (x : XSt) (h : Hdr) : DirMono x.fs (extractEntry x h).2.fs := by
  have hcases := extractEntry_cases x h
  unfold EntryCases at hcases
  have hp : DirMono x.fs (parentsOf (E x) (fileFullPath h x.opts)).2 :=
    parentsOf_dirMono (E x) (fileFullPath h x.opts)
  rcases hcases with ⟨h1, _⟩ | ⟨h1, _⟩ | ⟨_, h1, _⟩
  · rw [h1]; exact DirMono.refl _
  · rw [h1]; exact hp
  · rw [h1]
    rcases mreaderExtract_cases x.rd (parentsOf (E x) (fileFullPath h x.opts)).2
      (fileFullPath h x.opts) with ⟨he, _⟩ | ⟨_, he⟩
    · rw [he]; exact hp.trans (readerExtract_dirMono _ _ _)
    · rw [he]; exact hp

end LhasaV.ContainW
