import LhasaV.Lemmas.ReaderAlloc4
import LhasaV.Lemmas.ReaderAllocHdr2
/-!
# Allocation-aware reader, part 5: REFINEMENT

With an oracle that never fails (`NoFail o`; `Oracle.ofFailAt none` is one) every operation of the
allocation-aware model returns what the original operation returns and leaves the same reader
state (ledger included): `nextA_refines`, `readA_refines`, `checkA_refines`, `extractA_refines`,
`runA_refines`, `freeA_refines`.  So the theorems and ties of the original model carry over to the
fault-free runs of the refined one.
-/
namespace LhasaV.Reader
open LhasaV LhasaV.Alloc

theorem countFails_noFail {o : Oracle} (hn : NoFail o) (n : Nat) : countFails o n = 0 := by
  induction n with
  | zero => rfl
  | succ n ih => rw [countFails_succ, ih, hn n]; rfl

theorem allocAt_noFail {o : Oracle} (hn : NoFail o) (site : Site) (hp : Heap) : (allocAt o site hp).1 = true := by
  unfold allocAt; rw [if_neg (by simp [hn hp.n])]

/-- what the two `basicNext`s return, side by side -/
def BasicRel (x : Res ((Basic × Ledger) × Heap)) (y : Res (Basic × Ledger)) : Prop :=
  match x with
  | .ok r => y = .ok r.1
  | .fail => y = .fail
  | .fault w => y = .fault w

theorem basicParseA_refines {o : Oracle} (hn : NoFail o) (mk : Nat → Nat) (b : Basic) (led : Ledger)
    (hp : Heap) (hg : Good o hp) : BasicRel (basicParseA o mk b led hp) (basicParse mk b led) := by
  unfold basicParseA basicParse
  split
  · rfl
  · rw [if_neg (by simp [hn hp.n])]
    cases hs : Stream.start b.stream with
    | fail => rfl
    | fault w => rfl
    | ok st =>
      simp only [Res.ok_bind]
      split
      · rfl
      · have hg1 : Good o { hp with n := hp.n + 1, live := hp.live + 1 } := by
          show hp.failed.length = countFails o (hp.n + 1)
          rw [countFails_noFail hn]; rw [hg, countFails_noFail hn]
        have hblk := readRestA_blocks (o := o) mk (Stream.rest st)
          { hp with n := hp.n + 1, live := hp.live + 1 } hp.live hg1 rfl
        have href := (readRestA_refines hn mk (Stream.rest st)).erase_eq { hp with n := hp.n + 1, live := hp.live + 1 }
        cases hr : readRestA o mk (Stream.rest st) { hp with n := hp.n + 1, live := hp.live + 1 } with
        | fault w =>
          rw [hr] at href; simp only [ARes.erase] at href
          rw [← href]; rfl
        | fail h' hp' =>
          rw [hr] at href; simp only [ARes.erase] at href
          rw [← href]; rfl
        | ok r hp' =>
          obtain ⟨h', rest⟩ := r
          rw [hr] at href hblk; simp only [ARes.erase] at href
          rw [← href]
          have hnb : hp'.live - hp.live =
              1 + (if h'.path.isSome then 1 else 0) + (if h'.filename.isSome then 1 else 0) +
              (if h'.symlinkTarget.isSome then 1 else 0) + (if h'.unixUsername.isSome then 1 else 0) +
              (if h'.unixGroup.isSome then 1 else 0) := by
            rw [hblk.1]; simp only [nstr]; omega
          show _ = Res.ok _
          simp only [hnb]

theorem basicNextA_refines {o : Oracle} (hn : NoFail o) (mk : Nat → Nat) (b : Basic) (led : Ledger)
    (hp : Heap) (hg : Good o hp) : BasicRel (basicNextA o mk b led hp) (basicNext mk b led) := by
  rw [basicNextA_eq, basicNext_eq]
  exact basicParseA_refines hn mk _ _ hp hg

/-- forget the allocator state in the result of `nextA` -/
def eraseNext : Except String (Option HObj × StA) → Except String (Option HObj × St)
  | .ok r => .ok (r.1, r.2.s)
  | .error w => .error w

theorem nextAdvA_refines {o : Oracle} (hn : NoFail o) (a : StA) (hg : Good o a.hp) :
    (match nextAdvA o a with | .ok a1 => (.ok a1.s : Except String St) | .error w => .error w) = nextAdv a.s := by
  unfold nextAdvA nextAdv
  by_cases hc : (a.s.currType == .start ∨ a.s.currType == .normal)
  · rw [if_pos hc, if_pos hc]
    have hb := basicNextA_refines hn a.s.mktime a.s.basic a.s.led a.hp hg
    cases hx : basicNextA o a.s.mktime a.s.basic a.s.led a.hp with
    | ok r => rw [hx] at hb; simp only [BasicRel] at hb; rw [hb]
    | fail => rw [hx] at hb; simp only [BasicRel] at hb; rw [hb]
    | fault w => rw [hx] at hb; simp only [BasicRel] at hb; rw [hb]
  · rw [if_neg hc, if_neg hc]

/-- **`nextA` refines `next`.** -/
theorem nextA_refines {o : Oracle} (hn : NoFail o) (a : StA) (hg : Good o a.hp) :
    eraseNext (nextA o a) = next a.s := by
  rw [nextA_eq, next_eq]
  split
  · rfl
  · have := nextAdvA_refines hn { a with s := closeDecoder a.s } hg
    dsimp only at this
    rw [← this]
    cases nextAdvA o { a with s := closeDecoder a.s } with
    | ok a1 => rfl
    | error w => rfl

theorem openDecoderA_refines {o : Oracle} (hn : NoFail o) (a : StA) :
    ((openDecoderA o a).1, (openDecoderA o a).2.s) = openDecoder a.s := by
  unfold openDecoderA openDecoder
  dsimp only
  by_cases ht : (a.s.currType != .normal) = true
  · rw [if_pos ht, if_pos ht]
  · rw [if_neg ht, if_neg ht]
    cases a.s.curr with
    | none => rfl
    | some c =>
      dsimp only
      cases decoderFor (methodName c.h) with
      | none => rfl
      | some d =>
        cases decoderInfo (methodName c.h) with
        | none => rfl
        | some info =>
          dsimp only
          rw [allocAt_noFail hn]
          simp only [Bool.not_true, Bool.false_eq_true, ↓reduceIte]
          by_cases hm : c.h.osType = 0x6d
          · rw [if_pos hm, if_pos hm, allocAt_noFail hn]
            simp only [Bool.not_true, Bool.false_eq_true, ↓reduceIte]
            cases (macInit d.total c.h
              { inner := Except.ok (d.init (memberSrc a.s.basic)), length := c.h.length,
                blockSize := info.2.2 }).1 with
            | none => rfl
            | some mac => rfl
          · rw [if_neg hm, if_neg hm]

theorem openDecoderA_fst {o : Oracle} (hn : NoFail o) (a : StA) : (openDecoderA o a).1 = (openDecoder a.s).1 :=
  congrArg Prod.fst (openDecoderA_refines hn a)
theorem openDecoderA_snd {o : Oracle} (hn : NoFail o) (a : StA) : (openDecoderA o a).2.s = (openDecoder a.s).2 :=
  congrArg Prod.snd (openDecoderA_refines hn a)

/-- **`readA` refines `read`.** -/
theorem readA_refines {o : Oracle} (hn : NoFail o) (a : StA) (k : Nat) :
    ((readA o a k).1, (readA o a k).2.s) = read a.s k := by
  rw [readA_eq, read_eq]
  cases hd : a.s.dec with
  | some d =>
    dsimp only
    split <;> rfl
  | none =>
    dsimp only
    rw [openDecoderA_fst hn]
    split
    · show ((readCore (openDecoderA o a).2.s k).1, (readCore (openDecoderA o a).2.s k).2) = _
      rw [openDecoderA_snd hn]
    · show (([] : List UInt8), (openDecoderA o a).2.s) = _
      rw [openDecoderA_snd hn]

theorem decodeLoopA_refines {o : Oracle} (hn : NoFail o) (fuel : Nat) (a : StA) (acc : List UInt8) :
    ((decodeLoopA o fuel a acc).1, (decodeLoopA o fuel a acc).2.s) = decodeLoop fuel a.s acc := by
  induction fuel generalizing a acc with
  | zero => rfl
  | succ n ih =>
    unfold decodeLoopA decodeLoop
    dsimp only
    have hr := readA_refines hn a 64
    have h1 : (readA o a 64).1 = (read a.s 64).1 := congrArg Prod.fst hr
    have h2 : (readA o a 64).2.s = (read a.s 64).2 := congrArg Prod.snd hr
    rw [h1]
    split
    · rw [h2]
    · rw [ih, h2]

/-- **`checkA` refines `check`.** -/
theorem checkA_refines {o : Oracle} (hn : NoFail o) (a : StA) :
    ((checkA o a).1, (checkA o a).2.s) = check a.s := by
  unfold checkA check
  by_cases ht : (a.s.currType != .normal) = true
  · rw [if_pos ht, if_pos ht]
  · rw [if_neg ht, if_neg ht]
    cases a.s.curr with
    | none => rfl
    | some c =>
      dsimp only
      by_cases hm : (c.h.method == "-lhd-".toUTF8.toList) = true
      · rw [if_pos hm, if_pos hm]
      · rw [if_neg hm, if_neg hm, ← openDecoderA_refines hn a]
        cases openDecoderA o a with
        | mk ok a1 =>
          dsimp only
          cases ok with
          | false => rfl
          | true =>
            simp only [Bool.not_true, Bool.false_eq_true, ↓reduceIte]
            rw [← decodeLoopA_refines hn (c.h.length + 2) a1 []]

end LhasaV.Reader
