import LhasaV.Lemmas.ExtractTreeOpt4
/-!
# C06 with options (part 5): the relocation directory before and after its creation

`BaseOk fs₀ ds k` (see part 4), `mkBase fs₀ ds`: the file system after `make_parent_directories`
has made sure that `cwd/d₁/…/dₙ` exists.  `base_facts`: it is `fs₀` with the missing directories
created (`MadeFrom`), all of `d₁ … dₙ` can be walked, below `DIR` there is nothing (`FsInvB` with
no entry done), and making the parents again changes nothing.  `parents_phase0`: for the first
extracted member `make_parent_directories` yields exactly `mkBase`; `existsKind_missing`: the
overwrite check finds nothing at a path below a directory that does not exist yet.
-/
namespace LhasaV.ExtractTree
open LhasaV LhasaV.Header LhasaV.Extract LhasaV.GlobFs LhasaV.Contain

/-- the place of `w=d₁/…/dₙ` before the run: the first `k` components exist (directories the user
may walk through, the last of them writable), the others do not, and nothing exists below -/
structure BaseOk (fs0 : Fs.St) (ds : List Bytes) (k : Nat) : Prop where
  names : ∀ c ∈ ds, Name c
  depth : ds.length < 64
  dirs : WalkIn fs0 (ds.take k)
  writable : Fs.canModify fs0 (fs0.cwd ++ ds.take k) = true
  missing : ∀ q, q ≠ [] → q <+: ds.drop k → Fs.lookup fs0 (fs0.cwd ++ ds.take k ++ q) = none
  empty : ∀ p, p ≠ [] → Fs.lookup fs0 (fs0.cwd ++ ds ++ p) = none

/-- the file system after the relocation directory has been made sure of -/
def mkBase (fs0 : Fs.St) (ds : List Bytes) : Fs.St := (mkDirs ds [] fs0).2

theorem mkBase_nil (fs0 : Fs.St) : mkBase fs0 [] = fs0 := rfl

theorem prefix_len_lt {α} {a b : List α} (h : a <+: b) (hne : a ≠ b) : a.length < b.length := by
  have := h.length_le
  apply Nat.lt_of_le_of_ne this
  intro e
  exact hne (h.eq_of_length_le (by omega))

theorem MadeFrom.kept {fs fs' : Fs.St} {w b : List Bytes} (h : MadeFrom fs fs' w b)
    (hmiss : ∀ q, q ≠ [] → q <+: b → Fs.lookup fs (fs.cwd ++ w ++ q) = none) : DirsKept fs fs' := by
  refine ⟨h.params.root, h.params.cwd, ?_⟩
  intro p m t hp
  by_cases hb : b = []
  · rw [h.same hb]; exact ⟨t, hp⟩
  by_cases h1 : p = fs.cwd ++ w
  · subst h1
    by_cases h0 : fs.cwd ++ w = []
    · rw [h0] at hp ⊢; rw [lookup_nil] at hp ⊢; exact ⟨t, hp⟩
    · exact ⟨fs.now, h.stamp hb h0 m t hp⟩
  · by_cases h2 : ∃ q, q ≠ [] ∧ q <+: b ∧ p = fs.cwd ++ w ++ q
    · obtain ⟨q, hq0, hqb, rfl⟩ := h2
      rw [hmiss q hq0 hqb] at hp; cases hp
    · refine ⟨t, ?_⟩
      rw [h.frame p h1 (fun q hq0 hqb e => h2 ⟨q, hq0, hqb, e⟩)]; exact hp

structure BaseFacts (fs0 : Fs.St) (ds : List Bytes) (k : Nat) (fs1 : Fs.St) : Prop where
  run : mkDirs ds [] fs0 = (true, fs1)
  made : MadeFrom fs0 fs1 (ds.take k) (ds.drop k)
  walk : WalkIn fs1 ds
  inv : FsInvB fs1 (fs0.cwd ++ ds) [] [] fs1
  again : mkDirs ds [] fs1 = (true, fs1)

theorem base_facts {fs0 : Fs.St} {ds : List Bytes} {k : Nat} (hb : BaseOk fs0 ds k) (ha : AccessW fs0) :
    BaseFacts fs0 ds k (mkBase fs0 ds) := by
  have hsplit : ds.take k ++ ds.drop k = ds := List.take_append_drop k ds
  have hn : ∀ x ∈ ds.take k ++ ds.drop k, Name x := by rw [hsplit]; exact hb.names
  have hlen : (ds.take k ++ ds.drop k).length < 64 := by rw [hsplit]; exact hb.depth
  -- the run
  have h1 : mkDirs (ds.take k) [] fs0 = (true, fs0) :=
    mkDirs_exist (ds.take k) [] fs0 (fun x hx => hn x (List.mem_append_left _ (by simpa using hx)))
      (by simp at hlen ⊢; omega) (by simpa using hb.dirs)
  obtain ⟨fs1, h2, hmade⟩ := mkDirs_make (ds.drop k) (ds.take k) fs0 ha hn hlen hb.dirs hb.writable hb.missing
  have hrun : mkDirs ds [] fs0 = (true, fs1) := by
    conv => lhs; rw [← hsplit]
    rw [mkDirs_append, h1]
    simpa using h2
  have hfs1 : mkBase fs0 ds = fs1 := by unfold mkBase; rw [hrun]
  rw [hfs1]
  have hp := hmade.params
  have hkept := hmade.kept hb.missing
  have hbits : fs0.root = true ∨ ((0o755 - (0o755 &&& fs0.umask)) / 64 % 2 = 1 ∧
      (0o755 - (0o755 &&& fs0.umask)) / 128 % 2 = 1) := by
    rcases ha with h | h
    · exact Or.inl h
    · exact Or.inr h.2
  -- every prefix of `ds` is a directory that can be walked through
  have hwalk : WalkIn fs1 ds := by
    intro pre hpre
    rw [hp.cwd, hp.root]
    rcases List.prefix_or_prefix_of_prefix hpre (List.take_prefix k ds) with h | h
    · obtain ⟨m, t, hl, hs⟩ := hb.dirs pre h
      obtain ⟨t', hl'⟩ := hkept.2.2 _ m t hl
      exact ⟨m, t', hl', hs⟩
    · obtain ⟨q, rfl⟩ := h
      by_cases hq : q = []
      · subst hq
        obtain ⟨m, t, hl, hs⟩ := hb.dirs (ds.take k) (List.prefix_refl _)
        obtain ⟨t', hl'⟩ := hkept.2.2 _ m t hl
        exact ⟨m, t', by simpa using hl', hs⟩
      · have hqb : q <+: ds.drop k := by
          have h' : ds.take k ++ q <+: ds.take k ++ ds.drop k := by rw [hsplit]; exact hpre
          exact (List.prefix_append_right_inj _).1 h'
        refine ⟨_, _, by rw [← List.append_assoc]; exact hmade.made q hq hqb, ?_⟩
        rcases hbits with h | h
        · exact Or.inl h
        · exact Or.inr h.1
  refine ⟨hrun, hmade, hwalk, ?_, ?_⟩
  · refine ⟨SameParams.refl _, fun e he => (by cases he), ?_, ?_, fun _ _ => rfl, fun m t h => ⟨t, h⟩⟩
    · intro p hp0 _
      have hlp : 0 < p.length := List.length_pos_iff.2 hp0
      have hlk : (ds.take k).length + (ds.drop k).length = ds.length := by
        rw [← List.length_append, hsplit]
      rw [hmade.frame _ (len_ne (by simp only [List.length_append]; omega))
        (fun q _ hqb => len_ne (by have := hqb.length_le; simp only [List.length_append]; omega))]
      exact hb.empty p hp0
    · by_cases hd : ds.drop k = []
      · have htk : ds.take k = ds := by have := hsplit; rw [hd, List.append_nil] at this; exact this
        rw [hmade.same hd]
        obtain ⟨m, t, hl, _⟩ := hb.dirs (ds.take k) (List.prefix_refl _)
        rw [htk] at hl
        refine ⟨m, t, hl, ?_, fun h => absurd rfl h⟩
        have hw := hb.writable
        rw [htk] at hw
        unfold Fs.canModify at hw
        rw [hl] at hw
        by_cases hr : fs0.root = true
        · exact Or.inl hr
        · have hr' : fs0.root = false := by simpa using hr
          rw [hr'] at hw
          right
          simpa using hw
      · have := hmade.made (ds.drop k) hd (List.prefix_refl _)
        rw [List.append_assoc, hsplit] at this
        exact ⟨_, _, this, by rw [hp.root]; exact hbits, fun h => absurd rfl h⟩
  · exact mkDirs_exist ds [] fs1 (by simpa using hb.names) (by simpa using hb.depth) (by simpa using hwalk)

/-! ## `stat` below a directory that does not exist -/

theorem resolve_prefix (fs : Fs.St) (fl : Bool) : ∀ (w : List Bytes) (fuel : Nat) (cur : Fs.Path)
    (tail : List Bytes), (∀ c ∈ w, Good c) → w.length < fuel →
    (∀ pre, pre <+: w → ∃ m t, Fs.lookup fs (cur ++ pre) = some (.dir m t) ∧ (fs.root = true ∨ m / 64 % 2 = 1)) →
    Fs.resolve fs fl fuel cur (w ++ tail) = Fs.resolve fs fl (fuel - w.length) (cur ++ w) tail := by
  intro w
  induction w with
  | nil => intro fuel cur tail _ _ _; simp
  | cons c w ih =>
    intro fuel cur tail hg hf hw
    cases fuel with
    | zero => simp at hf
    | succ f =>
      obtain ⟨m0, t0, hd0, hs0⟩ := hw [] List.nil_prefix
      have hs : Fs.canSearch fs cur = true :=
        canSearch_of_dir fs cur m0 t0 (by simpa using hd0) hs0
      obtain ⟨m, t, hd, _⟩ := hw [c] (List.cons_prefix_cons.2 ⟨rfl, List.nil_prefix⟩)
      rw [List.cons_append, resolve_dir fs fl f cur c _ (hg c (by simp)) hs m t hd]
      rw [ih f (cur ++ [c]) tail (fun x hx => hg x (by simp [hx])) (by simp at hf; omega)
        (fun pre hp => by
          have := hw (c :: pre) (List.cons_prefix_cons.2 ⟨rfl, hp⟩)
          simpa using this)]
      simp

/-- the overwrite check at a path one of whose directories does not exist: nothing there -/
theorem existsKind_missing (fs : Fs.St) (fn : Bytes) (w : List Bytes) (c : Bytes) (rest : List Bytes)
    (hrel : fn.head? ≠ some 0x2f) (hcomps : comps fn = w ++ c :: rest)
    (hg : ∀ x ∈ w ++ c :: rest, Good x) (hlen : (w ++ c :: rest).length < 64) (hw : WalkIn fs w)
    (hnone : Fs.lookup fs (fs.cwd ++ w ++ [c]) = none) : Fs.existsKind fs fn = .none := by
  have hne : fn ≠ [] := by
    intro e; subst e; rw [comps_nil] at hcomps
    exact absurd hcomps.symm (by simp)
  unfold Fs.existsKind
  rw [resolveRR_rel fs true fn hrel hne, hcomps,
    resolve_prefix fs true w 64 fs.cwd (c :: rest) (fun x hx => hg x (List.mem_append_left _ hx))
      (by simp at hlen; omega) hw]
  obtain ⟨f, hf⟩ : ∃ f, 64 - w.length = f + 1 := ⟨63 - w.length, by simp at hlen; omega⟩
  obtain ⟨m, t, hd, hs⟩ := hw w (List.prefix_refl _)
  rw [hf, resolve_none fs true f _ c rest (hg c (by simp)) (canSearch_of_dir fs _ m t hd hs) hnone]
  rw [List.append_assoc] at hnone
  by_cases hr : rest = []
  · simp [hr, hnone]
  · simp [hr]

/-! ## the first member: its parents are the relocation directory -/

theorem trim_fullOf {e : Entry} (hk : EntryOk e) : trim (fullOf e) = joinPath e.path := by
  unfold fullOf
  cases e.isDir with
  | true => simp only [if_true]; exact trim_joinDir _ hk.names hk.ne
  | false => simp only [Bool.false_eq_true, if_false]; exact trim_joinPath _ hk.names hk.ne

/-- for a member directly below `DIR`, `make_parent_directories` is the walk over `d₁ … dₙ` -/
theorem parents_top (fs : Fs.St) (ds : List Bytes) (e : Entry) (hk : EntryOk (e.reloc ds))
    (htop : e.path.dropLast = []) (hne : e.path ≠ []) :
    makeParentDirectories fs (fullOf (e.reloc ds)) = mkDirs ds [] fs := by
  rw [makeParents_mkDirs fs _ (e.reloc ds).path (trim_fullOf hk) hk.names hk.ne, reloc_path,
    List.dropLast_append_of_ne_nil hne, htop, List.append_nil]

/-- the overwrite check before the relocation directory exists -/
theorem existsKind_phase0 {fs0 : Fs.St} {ds : List Bytes} {k : Nat} (hb : BaseOk fs0 ds k) (e : Entry)
    (hk : EntryOk (e.reloc ds)) (hne : e.path ≠ []) : Fs.existsKind fs0 (fullOf (e.reloc ds)) = .none := by
  have pf := pathFacts_of hk
  rw [reloc_path] at pf
  have hsplit : ds.take k ++ ds.drop k = ds := List.take_append_drop k ds
  have hg : ∀ x ∈ ds ++ e.path, Good x := by
    have := names_good hk.names; rwa [reloc_path] at this
  have hl : (ds ++ e.path).length < 64 := by have := hk.depth; rwa [reloc_path] at this
  cases hd : ds.drop k with
  | cons c r =>
    have hcs : ds ++ e.path = ds.take k ++ c :: (r ++ e.path) := by
      conv => lhs; rw [← hsplit, hd]
      simp
    exact existsKind_missing fs0 _ (ds.take k) c (r ++ e.path) pf.rel (by rw [pf.comps, hcs])
      (by rw [← hcs]; exact hg) (by rw [← hcs]; exact hl) hb.dirs
      (hb.missing [c] (by simp) (by rw [hd]; simp))
  | nil =>
    have htk : ds.take k = ds := by have := hsplit; rw [hd, List.append_nil] at this; exact this
    obtain ⟨c, r, hp⟩ := List.exists_cons_of_ne_nil hne
    have hcs : ds ++ e.path = ds ++ c :: r := by rw [hp]
    exact existsKind_missing fs0 _ ds c r pf.rel (by rw [pf.comps, hcs])
      (by rw [← hcs]; exact hg) (by rw [← hcs]; exact hl) (by rw [← htk]; exact hb.dirs)
      (hb.empty [c] (by simp))

end LhasaV.ExtractTree
