import LhasaV.Lemmas.ReaderAllocHdr6
/-!
# Allocation-aware header parser, part 7: block accounting of levels 1–3, of the post-processing
and of `readA` (`readA_blocks`)
-/
set_option linter.unusedSimpArgs false

namespace LhasaV.Alloc
open LhasaV LhasaV.Header

section
variable {o : Oracle} {b : Nat} {f0 : List Site}

theorem decodeLevel1A_spec {k : Nat} (mk : Nat → Nat) {h : Hdr} (inp : Bytes) (hk : k = nstr h)
    (hf : h.filename = none) (hp : h.path = none) (hT : h.symlinkTarget = none) :
    Spec o b f0 k (decodeLevel1A o mk h inp) (fun r k' => Std r.1 k') := by
  unfold decodeLevel1A
  refine Spec.bind (decodeLevel0A_spec mk inp hk hf hp hT) (fun x k1 hq => ?_)
  obtain ⟨h1, inp1⟩ := x
  simp only []
  refine Spec.bind (readL1ExtA_spec _ _ hq.1 hq.2) (fun y k2 hq2 => ?_)
  obtain ⟨h2, inp2⟩ := y
  simp only []
  refine Spec.bind (decodeExtendedHeadersA_spec _ _ hq2.1 hq2.2) (fun h3 k3 hq3 => ?_)
  exact (Spec.pure _ _).conseq (fun a k' hq => by obtain ⟨rfl, rfl⟩ := hq; exact hq3)

set_option maxHeartbeats 1000000 in
theorem decodeLevel2A_spec {k : Nat} {h : Hdr} (inp : Bytes) (hk : k = nstr h)
    (hT : h.symlinkTarget = none) :
    Spec o b f0 k (decodeLevel2A o h inp) (fun r k' => Std r.1 k') := by
  unfold decodeLevel2A
  simp only [failH_bind, liftR_fault_bind, pure_bind']
  sl
  sif
  · sfail
  sif
  · exact (Spec.liftR hk _).conseq (fun a k' hq => by cases hq.1)
  refine Spec.bind (extendA_spec _ _ hk) (fun x k1 hq => ?_)
  obtain ⟨rfl, hs⟩ := hq
  obtain ⟨h1, inp1⟩ := x
  replace hT : h1.symlinkTarget = none := (sym_of_strs hs).trans hT
  replace hk : k1 = nstr h1 := hk.trans (nstr_of_strs hs).symm
  simp only []
  sl; sl; sl; sl; sl; sl
  sif
  · refine Spec.bind (extendA_spec _ _ (by exact hk)) (fun x k2 hq => ?_)
    obtain ⟨rfl, hs2⟩ := hq
    obtain ⟨h2, inp2⟩ := x
    simp only []
    refine Spec.bind (decodeExtendedHeadersA_spec _ _ (hk.trans (nstr_of_strs hs2).symm)
      ((sym_of_strs hs2).trans hT)) (fun h3 k3 hq3 => ?_)
    exact (Spec.pure _ _).conseq (fun a k' hq => by obtain ⟨rfl, rfl⟩ := hq; exact hq3)
  · refine Spec.bind (decodeExtendedHeadersA_spec _ _ (by exact hk) (by exact hT)) (fun h3 k3 hq3 => ?_)
    exact (Spec.pure _ _).conseq (fun a k' hq => by obtain ⟨rfl, rfl⟩ := hq; exact hq3)

set_option maxHeartbeats 1000000 in
theorem decodeLevel3A_spec {k : Nat} {h : Hdr} (inp : Bytes) (hk : k = nstr h)
    (hT : h.symlinkTarget = none) :
    Spec o b f0 k (decodeLevel3A o h inp) (fun r k' => Std r.1 k') := by
  unfold decodeLevel3A
  simp only [failH_bind, liftR_fault_bind, pure_bind']
  sl
  sif
  · sfail
  sif
  · exact (Spec.liftR hk _).conseq (fun a k' hq => by cases hq.1)
  refine Spec.bind (extendA_spec _ _ hk) (fun x k1 hq => ?_)
  obtain ⟨rfl, hs⟩ := hq
  obtain ⟨h1, inp1⟩ := x
  replace hT : h1.symlinkTarget = none := (sym_of_strs hs).trans hT
  replace hk : k1 = nstr h1 := hk.trans (nstr_of_strs hs).symm
  simp only []
  sl
  sif
  · sfail
  refine Spec.bind (extendA_spec _ _ hk) (fun x k2 hq => ?_)
  obtain ⟨rfl, hs2⟩ := hq
  obtain ⟨h2, inp2⟩ := x
  replace hT : h2.symlinkTarget = none := (sym_of_strs hs2).trans hT
  replace hk : k2 = nstr h2 := hk.trans (nstr_of_strs hs2).symm
  simp only []
  sl; sl; sl; sl; sl; sl
  refine Spec.bind (decodeExtendedHeadersA_spec _ _ (by exact hk) (by exact hT)) (fun h3 k3 hq3 => ?_)
  exact (Spec.pure _ _).conseq (fun a k' hq => by obtain ⟨rfl, rfl⟩ := hq; exact hq3)

/-! ### post-processing -/

theorem parseSymlinkA_spec {k : Nat} {h : Hdr} (hk : k = nstr h) (hT : h.symlinkTarget = none) :
    Spec o b f0 k (parseSymlinkA o h) (fun h' k' => k' = nstr h') := by
  unfold parseSymlinkA
  simp only [failH_bind, pure_bind']
  refine Spec.malloc_bind ?_ ?_
  · simp only [Bool.true_eq_false, ↓reduceIte]
    cases (fullPath h).findIdx? (· == 0x7c) with
    | none =>
      simp only []
      refine Spec.release_bind (by omega) ?_
      exact Spec.failH (by omega)
    | some p =>
      simp only []
      refine Spec.malloc_bind ?_ ?_
      · simp only [Bool.true_eq_false, ↓reduceIte]
        unfold freeStr
        refine Spec.release_bind (by rw [hk]; simp only [nstr]; split <;> omega) ?_
        refine Spec.release_bind (by rw [hk]; simp only [nstr]; split <;> split <;> omega) ?_
        refine (splitFilenameA_spec ?_ rfl).conseq (fun a k' hq => hq.1)
        rw [hk]
        simp only [nstr, hT, Option.isSome_none, Option.isSome_some]
        by_cases h1 : h.path.isSome = true <;> by_cases h2 : h.filename.isSome = true <;> simp [h1, h2] <;> omega
      · simp only [↓reduceIte]
        refine SpecF.release_bind (by omega) ?_
        exact SpecF.failH (by omega)
  · simp only [↓reduceIte]
    exact SpecF.failH hk

/-- every successful result of `r` has as many strings as `h` -/
def PresN (h : Hdr) (r : Res Hdr) : Prop := ∀ h', r = .ok h' → nstr h' = nstr h

def pp1 (h : Hdr) : Hdr := if dosLikeOs h.osType then fixAllCaps h else h
def pp2 (h : Hdr) : Hdr := { h with path := h.path.map PathFix.collapse }
def pp3 (h : Hdr) : Hdr :=
  if h.osType = 0x4b ∧ hasFlag h Gen.flagUnixPerms
  then { h with os9Perms := h.unixPerms, extraFlags := bor h.extraFlags Gen.flagOs9Perms } else h
def pp4 (h : Hdr) : Hdr := if hasFlag h Gen.flagOs9Perms then os9ToUnix h else h
def pp5 (h : Hdr) : Hdr :=
  if h.level = 1 ∧ h.osType = 0x20 ∧ methodIs h "-lh7-" then { h with method := "-lk7-".toUTF8.toList } else h

theorem ppTail_eq (h : Hdr) : ppTail h =
    if hasFlag (pp4 (pp3 (pp2 (pp1 h)))) Gen.flagCommonCrc ∧
       crcOf (pp4 (pp3 (pp2 (pp1 h)))).raw ≠ (pp4 (pp3 (pp2 (pp1 h)))).commonCrc then .fail
    else .ok (pp5 (pp4 (pp3 (pp2 (pp1 h))))) := by
  unfold ppTail pp1 pp2 pp3 pp4 pp5
  simp only [Res.pure_eq]
  split <;> rfl

theorem pp1_nstr (h : Hdr) : nstr (pp1 h) = nstr h := by
  unfold pp1; split
  · unfold fixAllCaps; simp only []; split
    · rfl
    · simp only [nstr, Option.isSome_map]
  · rfl
theorem pp2_nstr (h : Hdr) : nstr (pp2 h) = nstr h := by
  unfold pp2 nstr
  cases hp : h.path <;> rfl
theorem pp3_nstr (h : Hdr) : nstr (pp3 h) = nstr h := by unfold pp3; split <;> rfl
theorem pp4_nstr (h : Hdr) : nstr (pp4 h) = nstr h := by unfold pp4; split <;> rfl
theorem pp5_nstr (h : Hdr) : nstr (pp5 h) = nstr h := by unfold pp5; split <;> rfl

theorem ppTail_nstr (h : Hdr) : PresN h (ppTail h) := by
  intro h' e
  rw [ppTail_eq] at e
  split at e
  · cases e
  · cases e
    rw [pp5_nstr, pp4_nstr, pp3_nstr, pp2_nstr, pp1_nstr]

theorem ppAmiga_strs (h : Hdr) : strs (ppAmiga h) = strs h := by
  unfold ppAmiga; split <;> rfl

theorem postProcessA_spec {k : Nat} {h : Hdr} (hk : k = nstr h) (hT : h.symlinkTarget = none) :
    Spec o b f0 k (postProcessA o h) (fun h' k' => k' = nstr h') := by
  unfold postProcessA
  simp only []
  have hk' : k = nstr (ppAmiga h) := hk.trans (nstr_of_strs (ppAmiga_strs h)).symm
  have hT' : (ppAmiga h).symlinkTarget = none := (sym_of_strs (ppAmiga_strs h)).trans hT
  have tail : ∀ (h2 : Hdr) (k2 : Nat), k2 = nstr h2 →
      Spec o b f0 k2 (liftR h2 (ppTail h2)) (fun h' k' => k' = nstr h') := by
    intro h2 k2 e
    exact (Spec.liftR e _).conseq (fun a k' hq => by
      obtain ⟨he, rfl⟩ := hq; exact e.trans (ppTail_nstr h2 a he).symm)
  refine Spec.ite (fun _ => ?_) (fun _ => ?_)
  · refine Spec.bind (Q1 := fun h' k' => k' = nstr h') ?_ (fun h2 k2 hq => tail h2 k2 hq)
    refine Spec.ite (fun _ => Spec.failH hk') (fun _ => ?_)
    exact (Spec.pure _ _).conseq (fun a k' hq => by obtain ⟨rfl, rfl⟩ := hq; exact hk')
  · refine Spec.ite (fun _ => ?_) (fun _ => ?_)
    · exact Spec.bind (parseSymlinkA_spec hk' hT') (fun h2 k2 hq => tail h2 k2 hq)
    · refine Spec.bind (Q1 := fun h' k' => k' = nstr h') ?_ (fun h2 k2 hq => tail h2 k2 hq)
      refine Spec.ite (fun _ => Spec.failH hk') (fun _ => ?_)
      exact (Spec.pure _ _).conseq (fun a k' hq => by obtain ⟨rfl, rfl⟩ := hq; exact hk')

end
end LhasaV.Alloc
