import LhasaV.Lemmas.PmRT7
import LhasaV.Lemmas.PmRT8
/-!
PMarc round trip, part D (2b): the complete round trip of -pm2-.

`pm2_round_trip`: for every well-formed description `s` of a -pm2- stream
(`pm2Bits s = some bits`), the inner output stream of the decoder on the packed bits starts
with the expansion of `s`, for every chunking of the input callback.  (The format has no end
marker: the zero bits that pad the last byte may decode to further commands, so only the first
`(pm2Expand s).length` bytes are determined; the declared length of the member cuts them off.)
-/
set_option linter.unusedSimpArgs false
namespace LhasaV.PmRT
open LhasaV LhasaV.Spec.PmEnc LhasaV.Spec.Lz77 LhasaV.Spec.LhNewEnc LhasaV.LzRoundTrip LhasaV.Pm2
open LhasaV.LhNewCmd

/-- decoder state vs. encoder state, after the first rebuild -/
structure Inv2 (s : St) (est : EncSt) : Prop where
  tab : TabRel s est
  hist : HistRel s.hist est.mtf
  win : WinRel Gen.pm2RingSize 0x20 s.ring s.pos est.out.toList
  sched : SchedAt s est.out.size est.phase
  next : est.nextAt = pointOf est.phase
  ph : 1 ≤ est.phase

/-- after the bytes of a command have been produced (encoder state `e1`): a rebuild point has
been reached, then the tables are transmitted next; or not -/
def Cross (e1 : EncSt) (stream : List Bool) (e2 : EncSt) (t : List Bool) : Prop :=
  (e1.nextAt ≤ e1.out.size ∧ ∃ rbd rs rb, RbParts e1 rbd rs rb e2 ∧ stream = rb ++ t) ∨
  (e1.out.size < e1.nextAt ∧ e2 = e1 ∧ stream = t)

theorem phaseGap_ge (ph : Nat) : 1024 ≤ phaseGap ph := by
  unfold phaseGap
  repeat' split
  all_goals omega

/-- the state `output_byte` reaches before it looks at the countdown -/
def stepSt (s : St) (b : UInt8) (h' : Pma.Hist) : St :=
  { s with ring := s.ring.setIfInBounds s.pos b, pos := (s.pos + 1) % Gen.pm2RingSize, hist := h',
           rebuildRemaining := s.rebuildRemaining - 1 }

/-- `output_byte`, the table transmission at a rebuild point included -/
theorem outputByte2_spec (s : St) (est : EncSt) (b : UInt8) (stream : List Bool) (e2 : EncSt)
    (t : List Bool) (h : Inv2 s est) (hr : SV.R s.bits stream)
    (hx : Cross { est with out := est.out.push b, mtf := mtfMove est.mtf b } stream e2 t) :
    ∃ s', outputByte s b = .ok s' ∧ Inv2 s' e2 ∧ SV.R s'.bits t ∧
      s'.pos = (s.pos + 1) % Gen.pm2RingSize := by
  obtain ⟨hc1, hc2, hc3⟩ := h.sched.count h.ph
  have hn := h.next
  have hp : s.pos < s.ring.size := Nat.lt_of_lt_of_le h.win.2.1 h.win.1
  obtain ⟨h', eu, hr'⟩ := update_spec s.hist est.mtf h.hist b
  have hob : outputByte s b =
      (if s.rebuildRemaining - 1 = 0 then rebuildTree (stepSt s b h') else .ok (stepSt s b h')) := by
    unfold outputByte stepSt
    rw [if_pos hp]
    simp only [eu, Res.ok_bind]
  obtain ⟨hs1, hs2, hs3⟩ := outputByte_sched s b est.out.size est.phase h.sched h.ph
  have hwin1 : WinRel Gen.pm2RingSize 0x20 (s.ring.setIfInBounds s.pos b)
      ((s.pos + 1) % Gen.pm2RingSize) (est.out.push b).toList := by
    rw [Array.toList_push]
    exact winRel_lit _ _ _ _ _ b h.win
  have ht1 : TabRel (stepSt s b h') { est with out := est.out.push b, mtf := mtfMove est.mtf b } := by
    refine ⟨?_, h.tab.code, h.tab.off, h.tab.need, h.tab.state⟩
    exact { bits := h.tab.inv.bits, ringSz := by simpa [stepSt] using h.tab.inv.ringSz,
            pos := Nat.mod_lt _ (by decide), hist := hr'.hinv, codeFwd := h.tab.inv.codeFwd,
            codeSz := h.tab.inv.codeSz, offFwd := h.tab.inv.offFwd, offSz := h.tab.inv.offSz }
  rcases hx with ⟨hge, rbd, rs, rb, P, hst⟩ | ⟨hlt, he, hst⟩
  · -- a rebuild point
    simp only [Array.size_push] at hge
    have hpt : est.out.size + 1 = pointOf est.phase := by omega
    have hz : s.rebuildRemaining - 1 = 0 := hs1.mpr hpt
    rw [if_pos hz] at hob
    subst hst
    obtain ⟨s2, e, g1, g2⟩ := rebuildTree_parts _ _ rb e2 rbd rs P ht1 t hr
    rw [← hob] at e
    obtain ⟨k1, k2, k3, k4, _⟩ := hs3 s2 e
    rw [if_pos hpt] at k1
    refine ⟨s2, e, ⟨g2, ?_, ?_, ?_, ?_, ?_⟩, g1, k3⟩
    · rw [P.mtf]
      have : s2.hist = h' := by
        rw [eu] at k4; cases k4; rfl
      rw [this]; exact hr'
    · rw [P.out, k2, k3]; exact hwin1
    · rw [P.out, P.phase]
      simpa using k1
    · rw [P.nextAt, P.phase, pointOf_succ]
      show est.nextAt + _ = _
      rw [h.next]
    · rw [P.phase]; show 1 ≤ est.phase + 1; omega
  · -- no rebuild point
    simp only [Array.size_push] at hlt
    have hpt : ¬ est.out.size + 1 = pointOf est.phase := by omega
    have hz : ¬ s.rebuildRemaining - 1 = 0 := fun e => hpt (hs1.mp e)
    rw [if_neg hz] at hob
    subst he hst
    obtain ⟨k1, k2, k3, k4, _⟩ := hs3 _ hob
    rw [if_neg hpt] at k1
    exact ⟨_, hob, ⟨ht1, hr', hwin1, by simpa using k1, h.next, h.ph⟩, hr, rfl⟩

/-! ### the copy loop -/

/-- encoder state after `new` more bytes -/
def advance (est : EncSt) (new : List UInt8) : EncSt :=
  { est with out := est.out ++ new.toArray, mtf := mtfMoves est.mtf new }

theorem advance_nil (est : EncSt) : advance est [] = est := by
  cases est; simp [advance, mtfMoves]

theorem advance_cons (est : EncSt) (b : UInt8) (new : List UInt8) :
    advance est (b :: new)
      = advance { est with out := est.out.push b, mtf := mtfMove est.mtf b } new := by
  simp [advance, mtfMoves]

theorem advance_back (e2 : EncSt) (o : Array UInt8) (m : List UInt8) (new : List UInt8)
    (h1 : e2.out = o ++ new.toArray) (h2 : e2.mtf = mtfMoves m new) :
    advance { e2 with out := o, mtf := m } new = e2 := by
  cases e2
  simp only at h1 h2
  simp [advance, h1, h2]

theorem tailOf_copy_zero (f : UInt8) (d : Nat) (out : List UInt8) : tailOf f [.copy d 0] out = [] := by
  have := tailOf_copy f d 0 out
  simp only [copyWin] at this
  have h2 : out ++ tailOf f [.copy d 0] out = out ++ [] := by simpa using this
  exact List.append_cancel_left h2

theorem tailOf_copy_succ (f : UInt8) (d k : Nat) (out : List UInt8) :
    tailOf f [.copy d (k + 1)] out
      = winByte f out d :: tailOf f [.copy d k] (out ++ [winByte f out d]) := by
  have h1 := tailOf_copy f d (k + 1) out
  have h2 := tailOf_copy f d k (out ++ [winByte f out d])
  rw [copyWin, ← h2, List.append_assoc] at h1
  exact List.append_cancel_left h1

theorem tailOf_copy_length (f : UInt8) (d k : Nat) (out : List UInt8) :
    (tailOf f [.copy d k] out).length = k := by
  obtain ⟨new, h1, h2⟩ := copyWin_eq f k d out
  have := tailOf_copy f d k out
  rw [h2] at this
  rw [List.append_cancel_left this, h1]

/-- the copy loop of `copy_from_history`, the table transmission in the middle of the copy
included -/
theorem copyLoop2_spec (k d : Nat) (hd : d < Gen.pm2RingSize) (hk : k ≤ 256) (src : Nat) (s : St)
    (est : EncSt) (acc : List UInt8) (stream : List Bool) (e2 : EncSt) (t : List Bool)
    (h : Inv2 s est) (hr : SV.R s.bits stream)
    (hsrc : src % Gen.pm2RingSize = (s.pos + Gen.pm2RingSize - d - 1) % Gen.pm2RingSize)
    (hx : Cross (advance est (tailOf 0x20 [.copy d k] est.out.toList)) stream e2 t) :
    ∃ s', copyLoop k src s acc
        = .ok (s', (tailOf 0x20 [.copy d k] est.out.toList).reverse ++ acc) ∧
      Inv2 s' e2 ∧ SV.R s'.bits t := by
  induction k generalizing src s est acc stream with
  | zero =>
    rw [tailOf_copy_zero, advance_nil] at hx
    rw [tailOf_copy_zero]
    obtain ⟨hc1, hc2, _⟩ := h.sched.count h.ph
    have hn := h.next
    rcases hx with ⟨hge, _⟩ | ⟨_, he, hst⟩
    · omega
    · subst he hst
      exact ⟨s, by simp [copyLoop], h, hr⟩
  | succ k ih =>
    obtain ⟨hc1, hc2, _⟩ := h.sched.count h.ph
    have hn := h.next
    have hp : s.pos < Gen.pm2RingSize := h.win.2.1
    have e : s.pos + Gen.pm2RingSize - d - 1 = s.pos + Gen.pm2RingSize - 1 - d := by omega
    have hget : s.ring[src % Gen.pm2RingSize]? = some (winByte 0x20 est.out.toList d) := by
      rw [hsrc, e]; exact h.win.2.2.2 d hd
    rw [tailOf_copy_succ] at hx ⊢
    rw [advance_cons] at hx
    have hlen := tailOf_copy_length 0x20 d k (est.out.toList ++ [winByte 0x20 est.out.toList d])
    generalize winByte 0x20 est.out.toList d = b0 at hget hx hlen ⊢
    have hsrc1 : ∀ s1 : St, s1.pos = (s.pos + 1) % Gen.pm2RingSize →
        (src + 1) % Gen.pm2RingSize = (s1.pos + Gen.pm2RingSize - d - 1) % Gen.pm2RingSize := by
      intro s1 hs1
      rw [hs1]
      exact src_step _ _ _ _ hp hd hsrc
    have hout : (est.out.push b0).toList = est.out.toList ++ [b0] := Array.toList_push
    by_cases hb : est.nextAt ≤ est.out.size + 1
    · -- the rebuild point is at this byte
      rcases hx with ⟨_, rbd, rs, rb, P, hst⟩ | ⟨hlt, _, _⟩
      · subst hst
        have P' := P.withOut (est.out.push b0) (mtfMove est.mtf b0)
        obtain ⟨s1, e1, h1, r1, p1⟩ := outputByte2_spec s est b0 _ _ t h hr
          (Or.inl ⟨by simpa using hb, rbd, rs, rb, P', rfl⟩)
        have hx1 : Cross (advance { e2 with out := est.out.push b0, mtf := mtfMove est.mtf b0 }
            (tailOf 0x20 [.copy d k] (est.out.toList ++ [b0]))) t e2 t := by
          have hna : e2.nextAt = est.nextAt + phaseGap est.phase := P.nextAt
          have ho : e2.out = est.out.push b0 ++ (tailOf 0x20 [.copy d k] (est.out.toList ++ [b0])).toArray :=
            P.out
          have hm : e2.mtf = mtfMoves (mtfMove est.mtf b0)
              (tailOf 0x20 [.copy d k] (est.out.toList ++ [b0])) := P.mtf
          refine Or.inr ⟨?_, (advance_back e2 (est.out.push b0) (mtfMove est.mtf b0) _ ho hm).symm, rfl⟩
          have hgap := phaseGap_ge est.phase
          show (est.out.push b0 ++ (tailOf 0x20 [.copy d k] (est.out.toList ++ [b0])).toArray).size
            < e2.nextAt
          simp only [Array.size_append, Array.size_push, List.size_toArray, hlen]
          omega
        obtain ⟨s', g1, g2, g3⟩ := ih (by omega) (src + 1) s1 _ (b0 :: acc) t h1 r1
          (hsrc1 s1 p1) (by rw [hout]; exact hx1)
        refine ⟨s', ?_, g2, g3⟩
        unfold copyLoop
        rw [hget]
        simp only [e1, Res.ok_bind]
        rw [g1, hout]
        simp
      · have hlt' : (est.out.push b0 ++ (tailOf 0x20 [.copy d k] (est.out.toList ++ [b0])).toArray).size
            < est.nextAt := hlt
        simp only [Array.size_append, Array.size_push, List.size_toArray] at hlt'
        omega
    · -- not yet
      obtain ⟨s1, e1, h1, r1, p1⟩ := outputByte2_spec s est b0 stream _
        stream h hr (Or.inr ⟨by simp; omega, rfl, rfl⟩)
      obtain ⟨s', g1, g2, g3⟩ := ih (by omega) (src + 1) s1 _ (b0 :: acc) stream h1 r1
        (hsrc1 s1 p1) (by rw [hout]; exact hx)
      refine ⟨s', ?_, g2, g3⟩
      unfold copyLoop
      rw [hget]
      simp only [e1, Res.ok_bind]
      rw [g1, hout]
      simp

/-! ### one command -/

theorem Inv2.withBits {s : St} {est : EncSt} (h : Inv2 s est) (r : Bits) (x : List Bool)
    (hr : SV.R r x) : Inv2 { s with bits := r } est :=
  ⟨⟨h.tab.inv.withBits hr.1.2.1 rfl rfl rfl rfl rfl, h.tab.code, h.tab.off, h.tab.need, h.tab.state⟩,
   h.hist, h.win, ⟨h.sched.state, h.sched.start, h.sched.count⟩, h.next, h.ph⟩

theorem Inv2.built {s : St} {est : EncSt} (h : Inv2 s est) :
    (s.treeState == TreeState.unbuilt) = false := by
  rw [h.tab.state]
  have := h.ph
  unfold stateOf
  repeat' split
  all_goals first | rfl | omega

theorem advance_one (est : EncSt) (b : UInt8) :
    advance est [b] = { est with out := est.out.push b, mtf := mtfMove est.mtf b } := by
  rw [advance_cons, advance_nil]

/-- `lha_pm2_decoder_read` on a copy, once symbol, count and distance are known -/
theorem read_copy_assemble (s : St) (cl n d : Nat) (r1 r2 r3 : Bits)
    (hne : (s.treeState == TreeState.unbuilt) = false)
    (e1 : Tree.readFromTree lb s.codeTree s.bits = .ok (some (8 + cl), r1))
    (e2 : getCount r1 cl = .ok (some n, r2))
    (e3 : historyGetOffset { s with bits := r2 } cl = .ok (some d, r3)) (hn : n ≤ 256) :
    Pm2.read s = (copyLoop n ((s.pos + Gen.pm2RingSize + 4294967296 - 1 - d) % Gen.pm2RingSize)
      { s with bits := r3 } []) >>= fun r => .ok (r.2.reverse, r.1) := by
  unfold getCount at e2
  unfold Pm2.read
  have c1 : ¬ 8 + cl < 8 := by omega
  have c2 : 8 + cl - 8 = cl := by omega
  have c3 : ¬ n > Gen.pm2OutputBufferSize := by simp only [Gen.pm2OutputBufferSize]; omega
  simp only [hne, Bool.false_eq_true, if_false, Res.ok_bind, e1, c1, c2, e2, e3, c3]

/-- `lha_pm2_decoder_read` on one command of the specification (and on the tables transmitted
after it, if it reaches a rebuild point) -/
theorem cmd2_read (s : St) (est : EncSt) (c : Spec.PmEnc.Cmd) (cb : List Bool) (new : List UInt8)
    (stream : List Bool) (e2 : EncSt) (t : List Bool) (h : Inv2 s est)
    (hcmd : cmdBits2 est c = some (cb, new)) (hr : SV.R s.bits (cb ++ stream))
    (hx : Cross (advance est new) stream e2 t) :
    ∃ s', Pm2.read s = .ok (new, s') ∧ new = tailOf 0x20 [c.denote] est.out.toList ∧ new ≠ [] ∧
      Inv2 s' e2 ∧ SV.R s'.bits t := by
  have hne := h.built
  cases c with
  | byte b =>
    simp only [cmdBits2] at hcmd
    split at hcmd
    · cases hcmd
    rename_i cl lo w hcl
    split at hcmd
    · rename_i hhas
      simp only [Option.some.injEq, Prod.mk.injEq] at hcmd
      obtain ⟨q1, q2⟩ := hcmd
      subst q1 q2
      have hmem : b ∈ est.mtf := h.hist.mem b
      have hk : est.mtf.idxOf b < 256 := by
        rw [← h.hist.len]; exact List.idxOf_lt_length_iff.mpr hmem
      have hcl8 : cl < 8 := by
        obtain ⟨c', lo', w', e, hc', _⟩ := classOf_pm2_total _ hk
        rw [hcl] at e; cases e; exact hc'
      rw [List.append_assoc] at hr
      obtain ⟨r1, e1, hr1⟩ := h.tab.code cl hhas s.bits _ hr
      obtain ⟨r2, e2', hr2, ef⟩ := readByte2_spec SV _ cl lo w hk hcl s.hist est.mtf h.hist r1 stream hr1
      have hval : (est.mtf.getD (est.mtf.idxOf b) 0) = b := by
        rw [getD_eq est.mtf _ (by rw [h.hist.len]; exact hk)]
        exact List.getElem_idxOf _
      rw [hval] at ef
      rw [advance_one] at hx
      obtain ⟨s', eo, hi', hr', _⟩ := outputByte2_spec { s with bits := r2 } est b stream e2 t
        (h.withBits r2 _ hr2) hr2 hx
      refine ⟨s', ?_, ?_, by simp, hi', hr'⟩
      · unfold Pm2.read
        simp only [hne, Bool.false_eq_true, if_false, Res.ok_bind, e1, hcl8, if_true, e2', ef,
          UInt8.ofNat_toNat, eo]
      · have := tailOf_lits 0x20 [b] est.out.toList
        exact this.symm
    · cases hcmd
  | copy d n alt =>
    simp only [cmdBits2] at hcmd
    split at hcmd
    · cases hcmd
    rename_i cl ex hlc
    obtain ⟨hcl20, hn2, hn256, halt, hcl0, hex⟩ := lenCode_range n alt cl ex hlc
    split at hcmd
    · cases hcmd
    rename_i hchk
    simp only [Bool.or_eq_true, Bool.not_eq_true', decide_eq_true_eq, not_or, Bool.not_eq_false,
      Nat.not_le] at hchk
    obtain ⟨hhas, hd⟩ := hchk
    have hnew : newBytes 0x20 n d est.out = tailOf 0x20 [.copy d n] est.out.toList := newBytes_eq _ _ _ _
    have hlen : (tailOf 0x20 [.copy d n] est.out.toList).length = n := tailOf_copy_length _ _ _ _
    have hden : (Spec.PmEnc.Cmd.copy d n alt).denote = WCmd.copy d n := rfl
    have hnn : tailOf 0x20 [.copy d n] est.out.toList ≠ [] := by
      intro e; rw [e] at hlen; simp at hlen; omega
    -- the common part: symbol, count, then (given the distance) the copy loop
    have main : ∀ (offbits : List Bool),
        cb = est.code.word (8 + cl) ++ ex ++ offbits → new = newBytes 0x20 n d est.out →
        (∀ r2 : Bits, SV.R r2 (offbits ++ stream) →
          ∃ r3, historyGetOffset { s with bits := r2 } cl = .ok (some d, r3) ∧ SV.R r3 stream) →
        ∃ s', Pm2.read s = .ok (new, s') ∧ new = tailOf 0x20 [(Spec.PmEnc.Cmd.copy d n alt).denote] est.out.toList ∧
          new ≠ [] ∧ Inv2 s' e2 ∧ SV.R s'.bits t := by
      intro offbits hcb hnw hoff
      subst hcb
      rw [hnw, hnew] at hx
      rw [hnw, hnew, hden]
      simp only [List.append_assoc] at hr
      obtain ⟨r1, e1, hr1⟩ := h.tab.code (8 + cl) hhas s.bits _ hr
      obtain ⟨r2, e2', hr2⟩ := getCount_spec SV n alt cl ex hlc r1 _ hr1
      obtain ⟨r3, e3, hr3⟩ := hoff r2 hr2
      have hpos : s.pos < Gen.pm2RingSize := h.win.2.1
      obtain ⟨s', g1, g2, g3⟩ := copyLoop2_spec n d hd hn256
        ((s.pos + Gen.pm2RingSize + 4294967296 - 1 - d) % Gen.pm2RingSize) { s with bits := r3 } est []
        stream e2 t (h.withBits r3 _ hr3) hr3
        (by simp only [Gen.pm2RingSize] at hpos hd ⊢; omega) hx
      refine ⟨s', ?_, rfl, hnn, g2, g3⟩
      rw [read_copy_assemble s cl n d r1 r2 r3 hne e1 e2' e3 hn256, g1]
      simp
    by_cases h20 : cl = 20
    · simp only [h20, if_true] at hcmd
      split at hcmd
      · rename_i hd0
        simp only [Option.some.injEq, Prod.mk.injEq] at hcmd
        subst h20
        refine main [] (by rw [← hcmd.1]; simp) hcmd.2.symm ?_
        intro r2 hr2
        subst hd0
        exact ⟨r2, getOffset_alt _, by simpa using hr2⟩
      · cases hcmd
    · simp only [h20, if_false] at hcmd
      by_cases h0 : cl = 0
      · simp only [h0, if_true] at hcmd
        split at hcmd
        · rename_i hd64
          simp only [Option.some.injEq, Prod.mk.injEq] at hcmd
          have hex0 : ex = [] := hex (by omega)
          subst h0
          refine main (bitsN 6 d) (by rw [← hcmd.1, hex0]; simp) hcmd.2.symm ?_
          intro r2 hr2
          exact getOffset_zero SV { s with bits := r2 } d hd64 stream hr2
        · cases hcmd
      · simp only [h0, if_false] at hcmd
        split at hcmd
        · cases hcmd
        rename_i ot hot
        split at hcmd
        · rename_i hoh
          simp only [Option.some.injEq, Prod.mk.injEq] at hcmd
          refine main (ot.word (pm2OffCode d).1 ++ (pm2OffCode d).2)
            (by rw [← hcmd.1]; simp) hcmd.2.symm ?_
          intro r2 hr2
          exact getOffset_spec SV { s with bits := r2 } cl h0 (by omega) d hd ot (h.tab.off ot hot) hoh
            stream (by simpa using hr2)
        · cases hcmd

/-! ### the stream -/

theorem Cross.append {e1 e2 : EncSt} {st t : List Bool} (h : Cross e1 st e2 t) (pad : List Bool) :
    Cross e1 (st ++ pad) e2 (t ++ pad) := by
  rcases h with ⟨h1, rbd, rs, rb, P, hst⟩ | ⟨h1, h2, hst⟩
  · exact Or.inl ⟨h1, rbd, rs, rb, P, by rw [hst, List.append_assoc]⟩
  · exact Or.inr ⟨h1, h2, by rw [hst]⟩

theorem Cross.out {e1 e2 : EncSt} {st t : List Bool} (h : Cross e1 st e2 t) : e2.out = e1.out := by
  rcases h with ⟨_, rbd, rs, rb, P, _⟩ | ⟨_, h2, _⟩
  · exact P.out
  · rw [h2]

/-- `encLoop2` is the iteration of: command bits, then the tables if a rebuild point is reached -/
theorem encLoop2_cons (c : Spec.PmEnc.Cmd) (cs : List Spec.PmEnc.Cmd) (est : EncSt) (bits : List Bool)
    (h : encLoop2 (c :: cs) est = some bits) :
    ∃ cb new stream e2 tl, cmdBits2 est c = some (cb, new) ∧ bits = cb ++ stream ∧
      Cross (advance est new) stream e2 tl ∧ encLoop2 cs e2 = some tl := by
  unfold encLoop2 at h
  split at h
  · cases h
  rename_i cb new hcmd
  simp only at h
  split at h
  · rename_i hge
    split at h
    · cases h
    rename_i rb st2 hrb
    rw [Option.map_eq_some_iff] at h
    obtain ⟨tl, h1, h2⟩ := h
    obtain ⟨rbd, rs, P⟩ := rebuildBits_parts _ _ _ hrb
    exact ⟨cb, new, rb ++ tl, st2, tl, hcmd, by rw [← h2, List.append_assoc],
      Or.inl ⟨hge, rbd, rs, rb, P, rfl⟩, h1⟩
  · rename_i hlt
    rw [Option.map_eq_some_iff] at h
    obtain ⟨tl, h1, h2⟩ := h
    exact ⟨cb, new, tl, _, tl, hcmd, h2.symm, Or.inr ⟨Nat.lt_of_not_le hlt, rfl, rfl⟩, h1⟩

theorem pm2_avail (cs : List Spec.PmEnc.Cmd) (est : EncSt) (bits : List Bool)
    (henc : encLoop2 cs est = some bits) (s : St) (h : Inv2 s est) (pad : List Bool)
    (hR : SV.R s.bits (bits ++ pad)) (m : Nat)
    (hm : m ≤ (tailOf 0x20 (cs.map Spec.PmEnc.Cmd.denote) est.out.toList).length) :
    Wrap.avail (Dec.total Pm2.dec) m (.ok s)
      = (tailOf 0x20 (cs.map Spec.PmEnc.Cmd.denote) est.out.toList).take m := by
  induction cs generalizing est bits s m with
  | nil =>
    simp only [List.map_nil, tailOf_nil, List.length_nil] at hm
    have : m = 0 := by omega
    subst this
    rw [avail_zero]; simp
  | cons c cs ih =>
    obtain ⟨cb, new, stream, e2, tl, hcmd, hbits, hx, henc'⟩ := encLoop2_cons c cs est bits henc
    subst hbits
    rw [List.append_assoc] at hR
    obtain ⟨s', e1, hnew, hne, hi', hr'⟩ := cmd2_read s est c cb new (stream ++ pad) e2 (tl ++ pad) h hcmd
      hR (hx.append pad)
    have hsplit : tailOf 0x20 ((c :: cs).map Spec.PmEnc.Cmd.denote) est.out.toList
        = new ++ tailOf 0x20 (cs.map Spec.PmEnc.Cmd.denote) (est.out.toList ++ new) := by
      rw [List.map_cons, show c.denote :: cs.map Spec.PmEnc.Cmd.denote
        = [c.denote] ++ cs.map Spec.PmEnc.Cmd.denote from rfl, tailOf_append, ← hnew]
    have hout : e2.out.toList = est.out.toList ++ new := by
      rw [hx.out]; simp [advance]
    rw [hsplit] at hm ⊢
    rw [List.length_append] at hm
    rw [← hout] at hm ⊢
    refine avail_step_spec Pm2.dec s s' _ _ m e1 hne ?_
    exact ih e2 tl henc' s' hi' hr' _ (by omega)

/-- the first read: the ignored bit and the first tables, then the first command -/
theorem read_first (s s1 : St) (hu : s.treeState = .unbuilt)
    (hb : rebuildTree { s with bits := s.bits.readBit.2 } = .ok s1)
    (hn : (s1.treeState == TreeState.unbuilt) = false) : Pm2.read s = Pm2.read s1 := by
  have hc : (s.treeState == TreeState.unbuilt) = true := by rw [hu]; rfl
  unfold Pm2.read
  simp only [hc, hn, if_true, hb, Bool.false_eq_true, if_false]

theorem treeFor_init (n : Nat) (hn : 0 < n) :
    TreeFor SV (Tree.initTree Pm2.lb n) (.single 0) := by
  intro sym hs r rest hr
  simp only [Table.has, beq_iff_eq] at hs
  subst hs
  refine ⟨r, ?_, by simpa [Table.word] using hr⟩
  unfold Tree.readFromTree Tree.initTree
  simp only [Array.getElem?_replicate, hn, if_true, Tree.walkFrom, ge_iff_le, Nat.le_refl,
    Nat.sub_self]

/-- **D (-pm2-).** the inner output stream of the -pm2- decoder on the packed bits of a
well-formed description starts with the expansion of the description, for every chunking `c`
of the input callback -/
theorem pm2_round_trip (st : Stream) (bits : List Bool) (h : pm2Bits st = some bits)
    (m c : Nat) (hm : m ≤ (pm2Expand st).length) :
    Wrap.avail (Dec.total Pm2.dec) m
        (.ok (Pm2.init { data := (packBits bits).toArray, chunk := c }))
      = (pm2Expand st).take m := by
  unfold pm2Bits at h
  split at h
  · cases h
  rename_i rb est0 hrb
  rw [Option.map_eq_some_iff] at h
  obtain ⟨tl, henc, hb⟩ := h
  subst hb
  obtain ⟨k, hk, epk⟩ := packBits_stream (st.first :: rb ++ tl)
  have hi0 : Bits.Inv (Pm2.init { data := (packBits (st.first :: rb ++ tl)).toArray, chunk := c }).bits :=
    Bits.inv_init _ rfl (Nat.zero_le _) rfl rfl
  have hs0 : Bits.stream (Pm2.init { data := (packBits (st.first :: rb ++ tl)).toArray, chunk := c }).bits
      = st.first :: (rb ++ (tl ++ List.replicate k false)) := by
    have : st.first :: (rb ++ (tl ++ List.replicate k false))
        = (st.first :: rb ++ tl) ++ List.replicate k false := by simp
    rw [this, ← epk]
    simp only [Pm2.init, Bits.stream_init, Bits.rest_eq]
    simp
  generalize hs0d : Pm2.init { data := (packBits (st.first :: rb ++ tl)).toArray, chunk := c } = s0
    at hi0 hs0 ⊢
  have hs0u : s0.treeState = .unbuilt := by rw [← hs0d]; rfl
  have hinv0 : Pm2.Inv s0 := by rw [← hs0d]; exact Pm2.init_inv _
  obtain ⟨_, rbit⟩ := SV.bit s0.bits st.first _ ⟨hi0, hs0⟩
  have ht0 : TabRel { s0 with bits := s0.bits.readBit.2 } { rebuilds := st.rebuilds } := by
    refine ⟨hinv0.withBits rbit.1.2.1 rfl rfl rfl rfl rfl, ?_, ?_, ?_, hs0u⟩
    · show TreeFor SV s0.codeTree (.single 0)
      rw [← hs0d]
      exact treeFor_init _ (by decide)
    · intro ot hot; cases hot
    · show s0.needOffsetTree = false
      rw [← hs0d]; rfl
  obtain ⟨rbd, rs, P⟩ := rebuildBits_parts _ _ _ hrb
  obtain ⟨s1, e1, r1, t1⟩ := rebuildTree_spec _ _ rb est0 hrb ht0 _ rbit
  obtain ⟨n1, n2, n3, n4, n5⟩ := rebuildTree_next _ s1 0 (by exact hs0u) e1
  have hsched : SchedAt s1 0 1 := firstRebuild_sched s0 s1 ⟨hs0u, fun _ => rfl, fun h => absurd h (by decide)⟩ e1
  have hph : est0.phase = 1 := P.phase
  have hout : est0.out = #[] := P.out
  have hinv : Inv2 s1 est0 := by
    refine ⟨t1, ?_, ?_, ?_, ?_, by omega⟩
    · rw [P.mtf, n5]
      show HistRel s0.hist initOrder
      rw [← hs0d]; exact histRel_init
    · rw [hout, n3, n4]
      show WinRel Gen.pm2RingSize 0x20 s0.ring s0.pos []
      rw [← hs0d]
      exact winRel_init Gen.pm2RingSize Gen.pm2RingCap 0x20 (by decide) (by decide)
    · rw [hout, hph]; exact hsched
    · rw [P.nextAt, hph]; rfl
  have hexp : pm2Expand st = tailOf 0x20 (st.cmds.map Spec.PmEnc.Cmd.denote) est0.out.toList := by
    unfold pm2Expand expandWin
    rw [expandWinFrom_eq, hout]; simp
  rw [hexp] at hm ⊢
  rw [avail_congr Pm2.dec s0 s1 m (read_first s0 s1 hs0u e1 hinv.built)]
  exact pm2_avail st.cmds est0 tl henc s1 hinv _ r1 m hm

/-- through the wrapper `lha_decoder_read`: any read schedule, a declared length not beyond the
expansion -/
theorem pm2_reads (st : Stream) (bits : List Bool) (h : pm2Bits st = some bits) (c n b : Nat)
    (ks : List Nat) (hn : n ≤ (pm2Expand st).length) :
    (Wrap.reads (Dec.total Pm2.dec) ks
        { inner := .ok (Pm2.init { data := (packBits bits).toArray, chunk := c }),
          length := n, blockSize := b }).1.1
      = (pm2Expand st).take (min ks.sum n) := by
  rw [reads_fresh, pm2_round_trip st bits h _ c (by omega)]

/-! ### non-vacuity -/

/-- a transmitted code table (symbols 0, 3 for literals, 8, 9 for copies) and offset table, two
literals, a copy through the offset tree and a two-byte copy -/
def ex2 : Stream :=
  { first := true,
    rebuilds := [{ code := some (.lens 1 2 [2, 0, 0, 2, 0, 0, 0, 0, 2, 2, 0, 0]), off := [1, 1, 0, 0, 0] }],
    cmds := [.byte 0x41, .byte 0x42, .copy 1 3 false, .copy 0 2 false] }

example : ∃ bits, pm2Bits ex2 = some bits ∧ ∀ c, Wrap.avail (Dec.total Pm2.dec) 7
      (.ok (Pm2.init { data := (packBits bits).toArray, chunk := c }))
    = [0x41, 0x42, 0x41, 0x42, 0x41, 0x41, 0x41] := by
  have hb : (pm2Bits ex2).isSome = true := by decide +kernel
  have hexp : pm2Expand ex2 = [0x41, 0x42, 0x41, 0x42, 0x41, 0x41, 0x41] := by decide +kernel
  obtain ⟨bits, hbits⟩ := Option.isSome_iff_exists.mp hb
  refine ⟨bits, hbits, fun c => ?_⟩
  rw [pm2_round_trip ex2 bits hbits 7 c (by rw [hexp]; decide), hexp]
  rfl

end LhasaV.PmRT
