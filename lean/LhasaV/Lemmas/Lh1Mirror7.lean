import LhasaV.Lemmas.Lh1Mirror6
/-!
# C02, layer 7: the loops of LZHUF's `reconst` on the views
(`collectLeaves`, `scanDown`, `shiftUp`, one round of `buildInner`, `connectPrnt`)
-/
namespace LhasaV.Lh1Mirror
open LhasaV LhasaV.Lh1 LhasaV.Spec.Lzhuf LhasaV.Res

/-! ## `collectLeaves` -/

/-- leaf test of `reconst` on the original `son` array -/
def zl (S : Array Nat) (p : Nat) : Bool := decide (627 ≤ S.getD p 0)

/-- loop invariant of `collectLeaves` after `i` rounds (`Fq`, `S`: the arrays at entry) -/
structure CollInv (Fq S : Array Nat) (i : Nat) (F' S' : Array Nat) : Prop where
  szF : F'.size = 628
  szS : S'.size = 627
  rest : ∀ m, i ≤ m → F'.getD m 0 = Fq.getD m 0 ∧ S'.getD m 0 = S.getD m 0
  slot : ∀ q, q < i → zl S q = true →
    F'.getD (cntP (zl S) q) 0 = (Fq.getD q 0 + 1) / 2 ∧ S'.getD (cntP (zl S) q) 0 = S.getD q 0

theorem collectLeaves_spec (Fq S : Array Nat) (n : Nat) : ∀ (i : Nat) (F' S' : Array Nat), n + i = 627 →
    CollInv Fq S i F' S' →
    CollInv Fq S 627 (collectLeaves n i (cntP (zl S) i) F' S').1 (collectLeaves n i (cntP (zl S) i) F' S').2 := by
  induction n with
  | zero =>
    intro i F' S' hn h
    obtain rfl : i = 627 := by omega
    exact h
  | succ n ih =>
    intro i F' S' hn h
    have hi : i < 627 := by omega
    have hT : T = 627 := rfl
    rw [collectLeaves, hT]
    have hr := h.rest i (Nat.le_refl _)
    have hm : cntP (zl S) i ≤ i := cntP_le _ _
    by_cases hl : 627 ≤ S'.getD i 0
    · rw [if_pos hl]
      have hl' : zl S i = true := by simp only [zl, decide_eq_true_eq]; rw [← hr.2]; exact hl
      have e : cntP (zl S) (i + 1) = cntP (zl S) i + 1 := ga_cnt_succ_true _ _ hl'
      rw [← e]
      apply ih (i + 1) _ _ (by omega)
      refine ⟨by simp only [Array.size_setIfInBounds]; exact h.szF,
        by simp only [Array.size_setIfInBounds]; exact h.szS, ?_, ?_⟩
      · intro m hm'
        rw [getD_set_ne _ _ _ _ _ (by omega), getD_set_ne _ _ _ _ _ (by omega)]
        exact h.rest m (by omega)
      · intro q hq hlq
        rw [getD_set _ _ _ _ _ (by rw [h.szF]; omega), getD_set _ _ _ _ _ (by rw [h.szS]; omega)]
        by_cases e' : q = i
        · subst e'
          rw [if_pos rfl, if_pos rfl, hr.1, hr.2]
          exact ⟨rfl, rfl⟩
        · have hlt : cntP (zl S) q < cntP (zl S) i := ga_cnt_lt _ (by omega) hlq
          rw [if_neg (by omega), if_neg (by omega)]
          exact h.slot q (by omega) hlq
    · rw [if_neg hl]
      have hl' : zl S i = false := by
        simp only [zl, decide_eq_false_iff_not]; rw [← hr.2]; exact hl
      have e : cntP (zl S) (i + 1) = cntP (zl S) i := ga_cnt_succ_false _ _ hl'
      rw [← e]
      apply ih (i + 1) _ _ (by omega)
      refine ⟨h.szF, h.szS, fun m hm' => h.rest m (by omega), ?_⟩
      intro q hq hlq
      by_cases e' : q = i
      · subst e'; rw [hl'] at hlq; cases hlq
      · exact h.slot q (by omega) hlq

/-! ## `scanDown`, `shiftUp` -/

theorem scanDown_spec (Fq : Array Nat) (f : Nat) : ∀ (kk t : Nat), t ≤ kk →
    (∀ m, t < m → m ≤ kk → f < Fq.getD m 0) → (t = 0 ∨ ¬ f < Fq.getD t 0) → scanDown Fq f kk = t := by
  intro kk
  induction kk with
  | zero => intro t h _ _; simp only [scanDown]; omega
  | succ kk ih =>
    intro t h1 h2 h3
    simp only [scanDown]
    by_cases e : t = kk + 1
    · subst e
      have : ¬ f < Fq.getD (kk + 1) 0 := by
        rcases h3 with h3 | h3
        · omega
        · exact h3
      rw [if_neg this]
    · rw [if_pos (h2 (kk + 1) (by omega) (by omega))]
      exact ih t (by omega) (fun m hm1 hm2 => h2 m hm1 (by omega)) h3

theorem shiftUp_spec (k : Nat) (n : Nat) : ∀ (a : Array Nat), k + n < a.size →
    (shiftUp k n a).size = a.size ∧
    ∀ m, (shiftUp k n a).getD m 0 = if k < m ∧ m ≤ k + n then a.getD (m - 1) 0 else a.getD m 0 := by
  induction n with
  | zero =>
    intro a _
    refine ⟨rfl, fun m => ?_⟩
    simp only [shiftUp]; rw [if_neg (by omega)]
  | succ n ih =>
    intro a ha
    rw [shiftUp]
    obtain ⟨h1, h2⟩ := ih (a.setIfInBounds (k + n + 1) (a.getD (k + n) 0))
      (by simp only [Array.size_setIfInBounds]; omega)
    refine ⟨by rw [h1]; simp only [Array.size_setIfInBounds], fun m => ?_⟩
    rw [h2 m]
    by_cases c1 : k < m ∧ m ≤ k + n
    · rw [if_pos c1, if_pos (by omega), getD_set_ne _ _ _ _ _ (by omega)]
    · rw [if_neg c1]
      by_cases c2 : m = k + n + 1
      · subst c2
        rw [if_pos (by omega), getD_set _ _ _ _ _ (by omega), if_pos rfl]
        rfl
      · rw [if_neg (by omega), getD_set_ne _ _ _ _ _ c2]

/-! ## one round of `buildInner` -/

/-- round `b` of `buildInner` (`i = 2 b`, `j = 314 + b`) -/
def stepB (b : Nat) (Fq S : Array Nat) : Array Nat × Array Nat :=
  let f := Fq.getD (2 * b) 0 + Fq.getD (2 * b + 1) 0
  let Fq := Fq.setIfInBounds (314 + b) f
  let k := scanDown Fq f (314 + b - 1) + 1
  ((shiftUp k (314 + b - k) Fq).setIfInBounds k f, (shiftUp k (314 + b - k) S).setIfInBounds k (2 * b))

theorem buildInner_succ (n b : Nat) (Fq S : Array Nat) :
    buildInner (n + 1) (2 * b) (314 + b) Fq S =
      buildInner n (2 * (b + 1)) (314 + (b + 1)) (stepB b Fq S).1 (stepB b Fq S).2 := by
  rw [buildInner]
  rfl

/-- the effect of round `b`, given the insertion point `p` -/
theorem stepB_spec (b p : Nat) (Fq S : Array Nat) (hF : Fq.size = 628) (hS : S.size = 627)
    (hb : b < 313) (hp1 : 1 ≤ p) (hp : p ≤ 314 + b)
    (habove : ∀ m, p ≤ m → m ≤ 313 + b →
      Fq.getD (2 * b) 0 + Fq.getD (2 * b + 1) 0 < Fq.getD m 0)
    (hbelow : Fq.getD (p - 1) 0 ≤ Fq.getD (2 * b) 0 + Fq.getD (2 * b + 1) 0) :
    (stepB b Fq S).1.size = 628 ∧ (stepB b Fq S).2.size = 627 ∧
    (∀ m, (stepB b Fq S).1.getD m 0 =
      if m = p then Fq.getD (2 * b) 0 + Fq.getD (2 * b + 1) 0
      else if p < m ∧ m ≤ 314 + b then Fq.getD (m - 1) 0 else Fq.getD m 0) ∧
    (∀ m, (stepB b Fq S).2.getD m 0 =
      if m = p then 2 * b else if p < m ∧ m ≤ 314 + b then S.getD (m - 1) 0 else S.getD m 0) := by
  unfold stepB
  simp only []
  generalize hf : Fq.getD (2 * b) 0 + Fq.getD (2 * b + 1) 0 = f at *
  have hk : scanDown (Fq.setIfInBounds (314 + b) f) f (314 + b - 1) = p - 1 := by
    apply scanDown_spec
    · omega
    · intro m h1 h2
      rw [getD_set_ne _ _ _ _ _ (by omega)]
      exact habove m (by omega) (by omega)
    · right
      rw [getD_set_ne _ _ _ _ _ (by omega)]
      omega
  rw [hk]
  have e : p - 1 + 1 = p := by omega
  rw [e]
  obtain ⟨s1, v1⟩ := shiftUp_spec p (314 + b - p) (Fq.setIfInBounds (314 + b) f)
    (by simp only [Array.size_setIfInBounds]; omega)
  obtain ⟨s2, v2⟩ := shiftUp_spec p (314 + b - p) S (by omega)
  have e2 : p + (314 + b - p) = 314 + b := by omega
  rw [e2] at v1 v2
  refine ⟨?_, ?_, ?_, ?_⟩
  · simp only [Array.size_setIfInBounds, s1]; exact hF
  · simp only [Array.size_setIfInBounds, s2]; exact hS
  · intro m
    rw [getD_set _ _ _ _ _ (by rw [s1]; simp only [Array.size_setIfInBounds]; omega), v1]
    by_cases c0 : m = p
    · rw [if_pos c0, if_pos c0]
    · rw [if_neg c0, if_neg c0]
      by_cases c1 : p < m ∧ m ≤ 314 + b
      · rw [if_pos c1, if_pos c1, getD_set_ne _ _ _ _ _ (by omega)]
      · rw [if_neg c1, if_neg c1]
        exact getD_set_ne _ _ _ _ _ (by omega)
  · intro m
    rw [getD_set _ _ _ _ _ (by rw [s2]; omega), v2]

/-! ## `connectPrnt` -/

/-- round `i` of `connectPrnt` writes position `m` -/
def Wr (S : Array Nat) (i m : Nat) : Prop :=
  m = S.getD i 0 ∨ (S.getD i 0 < 627 ∧ m = S.getD i 0 + 1)

theorem connectPrnt_spec (S : Array Nat) (hS : ∀ i, i < 627 → S.getD i 0 < 941) (n : Nat) :
    ∀ (i : Nat) (P : Array Nat), P.size = 941 → i + n ≤ 627 →
    (connectPrnt n i S P).size = 941 ∧
    (∀ m, (∀ i', i ≤ i' → i' < i + n → ¬ Wr S i' m) → (connectPrnt n i S P).getD m 0 = P.getD m 0) ∧
    (∀ m i', i ≤ i' → i' < i + n → Wr S i' m → (∀ i'', i' < i'' → i'' < i + n → ¬ Wr S i'' m) →
      (connectPrnt n i S P).getD m 0 = i') := by
  induction n with
  | zero =>
    intro i P hP _
    exact ⟨hP, fun m _ => rfl, fun m i' h1 h2 => by omega⟩
  | succ n ih =>
    intro i P hP hin
    have hT : T = 627 := rfl
    have hSi := hS i (by omega)
    -- the array after round `i`
    have key : ∃ P1 : Array Nat, connectPrnt (n + 1) i S P = connectPrnt n (i + 1) S P1 ∧ P1.size = 941 ∧
        ∀ m, P1.getD m 0 = if m = S.getD i 0 ∨ (S.getD i 0 < 627 ∧ m = S.getD i 0 + 1) then i
                            else P.getD m 0 := by
      rw [connectPrnt, hT]
      by_cases c : S.getD i 0 ≥ 627
      · rw [if_pos c]
        refine ⟨_, rfl, by simp only [Array.size_setIfInBounds]; exact hP, fun m => ?_⟩
        rw [getD_set _ _ _ _ _ (by omega)]
        have : ¬ S.getD i 0 < 627 := by omega
        simp only [this, false_and, or_false]
      · rw [if_neg c]
        refine ⟨_, rfl, by simp only [Array.size_setIfInBounds]; exact hP, fun m => ?_⟩
        rw [getD_set _ _ _ _ _ (by simp only [Array.size_setIfInBounds]; omega),
          getD_set _ _ _ _ _ (by omega)]
        have : S.getD i 0 < 627 := by omega
        simp only [this, true_and]
        repeat' split
        all_goals first | omega | rfl
    obtain ⟨P1, e1, hP1, v1⟩ := key
    rw [e1]
    obtain ⟨z1, z2, z3⟩ := ih (i + 1) P1 hP1 (by omega)
    refine ⟨z1, ?_, ?_⟩
    · intro m hno
      rw [z2 m (fun i' h1 h2 => hno i' (by omega) (by omega)), v1 m]
      have := hno i (Nat.le_refl _) (by omega)
      unfold Wr at this
      rw [if_neg this]
    · intro m i' h1 h2 hw hlast
      by_cases e : i' = i
      · subst e
        rw [z2 m (fun i'' h1' h2' => hlast i'' (by omega) (by omega)), v1 m]
        unfold Wr at hw
        rw [if_pos hw]
      · exact z3 m i' (by omega) (by omega) hw (fun i'' h1' h2' => hlast i'' h1' (by omega))

end LhasaV.Lh1Mirror
