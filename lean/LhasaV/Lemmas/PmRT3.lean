import LhasaV.Lemmas.PmRT2
/-!
PMarc round trip, part B (2): every variable-length code of -pm1- is inverted by
`pm1_decoder.c`:

* `blockCount_spec`: `read_byte_block_count` inverts `pm1BlockCount` (1..216);
* `copyCount_spec`: `read_copy_byte_count` inverts `pm1CopyCount` (3..244);
* `copyCmd_spec`: `read_copy_type_range` + the position-dependent narrowing +
  `decode_variable_length(copy_ranges)` invert `pm1CopyBits pos dist len` at every output
  position: `read_copy_command` on these bits is the copy loop with that count and distance;
* `byteIndex_spec`: the 32 byte-class trees of the specification are `byte_decode_trees[]`;
* `readByte_spec`: `read_byte` inverts `pm1ByteBits`.
-/
set_option linter.unusedSimpArgs false
namespace LhasaV.PmRT
open LhasaV LhasaV.Spec.PmEnc LhasaV.Spec.Lz77 LhasaV.LzRoundTrip

/-! ### byte-block length -/

/-- **B3a.** `read_byte_block_count` inverts `pm1BlockCount` (all `1 ≤ n ≤ 216`) -/
theorem blockCount_spec (V : BitView) (n : Nat) (bits : List Bool) (h : pm1BlockCount n = some bits)
    (r : Bits) (rest : List Bool) (hr : V.R r (bits ++ rest)) :
    (Pm1.readByteBlockCount r).1 = n ∧ V.R (Pm1.readByteBlockCount r).2 rest := by
  unfold pm1BlockCount at h
  repeat' split at h
  all_goals cases h
  all_goals try simp only [List.append_assoc] at hr
  · obtain ⟨e1, r1⟩ := V.read _ _ _ _ hr (by decide) (by omega)
    have c1 : n - 1 < 3 := by omega
    unfold Pm1.readByteBlockCount
    simp only [e1, c1, if_true]
    exact ⟨by omega, r1⟩
  · obtain ⟨e1, r1⟩ := V.read _ _ _ _ hr (by decide) (by decide)
    obtain ⟨e2, r2⟩ := V.read _ _ _ _ r1 (by decide) (by omega)
    have c2 : n - 4 < 7 := by omega
    unfold Pm1.readByteBlockCount
    simp only [e1, e2, c2, Nat.lt_irrefl, if_true, if_false]
    exact ⟨by omega, r2⟩
  · obtain ⟨e1, r1⟩ := V.read _ _ _ _ hr (by decide) (by decide)
    obtain ⟨e2, r2⟩ := V.read _ _ _ _ r1 (by decide) (by decide)
    obtain ⟨e3, r3⟩ := V.read _ _ _ _ r2 (by decide) (by omega)
    have c3 : n - 11 < 14 := by omega
    unfold Pm1.readByteBlockCount
    simp only [e1, e2, e3, c3, Nat.lt_irrefl, if_true, if_false]
    exact ⟨by omega, r3⟩
  · obtain ⟨e1, r1⟩ := V.read _ _ _ _ hr (by decide) (by decide)
    obtain ⟨e2, r2⟩ := V.read _ _ _ _ r1 (by decide) (by decide)
    obtain ⟨e3, r3⟩ := V.read _ _ _ _ r2 (by decide) (by decide)
    obtain ⟨e4, r4⟩ := V.read _ _ _ _ r3 (by decide) (by omega)
    unfold Pm1.readByteBlockCount
    simp only [e1, e2, e3, e4, Nat.lt_irrefl, if_true, if_false, Option.map_some, Option.getD_some]
    exact ⟨by omega, r4⟩
  · obtain ⟨e1, r1⟩ := V.read _ _ _ _ hr (by decide) (by decide)
    obtain ⟨e2, r2⟩ := V.read _ _ _ _ r1 (by decide) (by decide)
    obtain ⟨e3, r3⟩ := V.read _ _ _ _ r2 (by decide) (by decide)
    obtain ⟨e4, r4⟩ := V.read _ _ _ _ r3 (by decide) (by omega)
    unfold Pm1.readByteBlockCount
    simp only [e1, e2, e3, e4, Nat.lt_irrefl, if_true, if_false, Option.map_some, Option.getD_some,
      (by decide : ¬ (15 : Nat) < 14), (by decide : ¬ (15 : Nat) = 14)]
    exact ⟨by omega, r4⟩

theorem blockCount_range (n : Nat) (bits : List Bool) (h : pm1BlockCount n = some bits) :
    1 ≤ n ∧ n ≤ 216 := by
  unfold pm1BlockCount at h
  repeat' split at h
  all_goals try cases h
  all_goals omega

/-! ### copy length -/

/-- **B3b.** `read_copy_byte_count` inverts `pm1CopyCount` (all `3 ≤ n ≤ 244`) -/
theorem copyCount_spec (V : BitView) (n : Nat) (bits : List Bool) (h : pm1CopyCount n = some bits)
    (r : Bits) (rest : List Bool) (hr : V.R r (bits ++ rest)) :
    (Pm1.readCopyByteCount r).1 = some n ∧ V.R (Pm1.readCopyByteCount r).2 rest := by
  unfold pm1CopyCount at h
  repeat' split at h
  all_goals cases h
  all_goals try simp only [List.append_assoc] at hr
  · obtain ⟨e1, r1⟩ := V.read _ _ _ _ hr (by decide) (by omega)
    have c1 : n - 3 < 3 := by omega
    unfold Pm1.readCopyByteCount
    simp only [e1, c1, if_true]
    exact ⟨by congr 1; omega, r1⟩
  · obtain ⟨e1, r1⟩ := V.read _ _ _ _ hr (by decide) (by decide)
    obtain ⟨e2, r2⟩ := V.read _ _ _ _ r1 (by decide) (by omega)
    have c2 : n - 6 < 5 := by omega
    unfold Pm1.readCopyByteCount
    simp only [e1, e2, c2, Nat.lt_irrefl, if_true, if_false]
    exact ⟨by congr 1; omega, r2⟩
  · obtain ⟨e1, r1⟩ := V.read _ _ _ _ hr (by decide) (by decide)
    obtain ⟨e2, r2⟩ := V.read _ _ _ _ r1 (by decide) (by decide)
    obtain ⟨e3, r3⟩ := V.read _ _ _ _ r2 (by decide) (by omega)
    unfold Pm1.readCopyByteCount
    simp only [e1, e2, e3, Nat.lt_irrefl, if_true, if_false, Option.map_some]
    exact ⟨by congr 1; omega, r3⟩
  · obtain ⟨e1, r1⟩ := V.read _ _ _ _ hr (by decide) (by decide)
    obtain ⟨e2, r2⟩ := V.read _ _ _ _ r1 (by decide) (by decide)
    obtain ⟨e3, r3⟩ := V.read _ _ _ _ r2 (by decide) (by omega)
    unfold Pm1.readCopyByteCount
    simp only [e1, e2, e3, Nat.lt_irrefl, if_true, if_false, Option.map_some,
      (by decide : ¬ (6 : Nat) < 5), (by decide : ¬ (6 : Nat) = 5)]
    exact ⟨by congr 1; omega, r3⟩
  · obtain ⟨e1, r1⟩ := V.read _ _ _ _ hr (by decide) (by decide)
    obtain ⟨e2, r2⟩ := V.read _ _ _ _ r1 (by decide) (by decide)
    obtain ⟨e3, r3⟩ := V.read _ _ _ _ r2 (by decide) (by omega)
    have c3 : n - 23 < 62 := by omega
    unfold Pm1.readCopyByteCount
    simp only [e1, e2, e3, c3, Nat.lt_irrefl, if_true, if_false, Option.map_some,
      (by decide : ¬ (7 : Nat) < 5), (by decide : ¬ (7 : Nat) = 5), (by decide : ¬ (7 : Nat) = 6)]
    exact ⟨by congr 1; omega, r3⟩
  · obtain ⟨e1, r1⟩ := V.read _ _ _ _ hr (by decide) (by decide)
    obtain ⟨e2, r2⟩ := V.read _ _ _ _ r1 (by decide) (by decide)
    obtain ⟨e3, r3⟩ := V.read _ _ _ _ r2 (by decide) (by decide)
    obtain ⟨e4, r4⟩ := V.read _ _ _ _ r3 (by decide) (by omega)
    unfold Pm1.readCopyByteCount
    simp only [e1, e2, e3, e4, Nat.lt_irrefl, if_true, if_false, Option.map_some,
      (by decide : ¬ (7 : Nat) < 5), (by decide : ¬ (7 : Nat) = 5), (by decide : ¬ (7 : Nat) = 6)]
    exact ⟨by congr 1; omega, r4⟩
  · obtain ⟨e1, r1⟩ := V.read _ _ _ _ hr (by decide) (by decide)
    obtain ⟨e2, r2⟩ := V.read _ _ _ _ r1 (by decide) (by decide)
    obtain ⟨e3, r3⟩ := V.read _ _ _ _ r2 (by decide) (by decide)
    obtain ⟨e4, r4⟩ := V.read _ _ _ _ r3 (by decide) (by omega)
    unfold Pm1.readCopyByteCount
    simp only [e1, e2, e3, e4, Nat.lt_irrefl, if_true, if_false, Option.map_some,
      (by decide : ¬ (7 : Nat) < 5), (by decide : ¬ (7 : Nat) = 5), (by decide : ¬ (7 : Nat) = 6),
      (by decide : ¬ (63 : Nat) < 62), (by decide : ¬ (63 : Nat) = 62)]
    exact ⟨by congr 1; omega, r4⟩

theorem copyCount_range (n : Nat) (bits : List Bool) (h : pm1CopyCount n = some bits) :
    3 ≤ n ∧ n ≤ 244 := by
  unfold pm1CopyCount at h
  repeat' split at h
  all_goals try cases h
  all_goals omega

/-! ### type / range prefix of a copy -/

theorem bitAfter_ge (s : Pm1.St) (r : Bits) (th d : Nat) (h : th ≤ s.outPos) :
    Pm1.bitAfter s r th d = r.readBit := by
  unfold Pm1.bitAfter
  rw [if_pos h]

/-- a bit that exists only from output position `th` on and is 0 otherwise -/
theorem bitAfter_opt0 (V : BitView) (s : Pm1.St) (r : Bits) (th : Nat) (rest : List Bool)
    (hr : V.R r ((if th ≤ s.outPos then [false] else []) ++ rest)) :
    (Pm1.bitAfter s r th 0).1 = some 0 ∧ V.R (Pm1.bitAfter s r th 0).2 rest := by
  unfold Pm1.bitAfter
  by_cases h : th ≤ s.outPos
  · rw [if_pos h] at hr
    rw [if_pos h]
    exact V.bit0 r rest hr
  · rw [if_neg h] at hr
    rw [if_neg h]
    exact ⟨rfl, hr⟩

/-- a bit that exists only from output position `th` on and is 1 otherwise -/
theorem bitAfter_opt1 (V : BitView) (s : Pm1.St) (r : Bits) (th : Nat) (rest : List Bool)
    (hr : V.R r ((if th ≤ s.outPos then [true] else []) ++ rest)) :
    (Pm1.bitAfter s r th 1).1 = some 1 ∧ V.R (Pm1.bitAfter s r th 1).2 rest := by
  unfold Pm1.bitAfter
  by_cases h : th ≤ s.outPos
  · rw [if_pos h] at hr
    rw [if_pos h]
    exact V.bit1 r rest hr
  · rw [if_neg h] at hr
    rw [if_neg h]
    exact ⟨rfl, hr⟩

/-- range 0: distances below 64, two bytes -/
theorem typeRange0 (V : BitView) (s : Pm1.St) (rest : List Bool)
    (hr : V.R s.bits ([false] ++ (if 576 ≤ s.outPos then [false] else []) ++
      (if 64 ≤ s.outPos then [false] else []) ++ rest)) :
    (Pm1.readCopyTypeRange s).1 = some 0 ∧ V.R (Pm1.readCopyTypeRange s).2 rest := by
  simp only [List.append_assoc, List.cons_append, List.nil_append] at hr
  obtain ⟨e1, r1⟩ := V.bit0 _ _ hr
  obtain ⟨e2, r2⟩ := bitAfter_opt0 V s _ 576 _ r1
  obtain ⟨e3, r3⟩ := bitAfter_opt0 V s _ 64 _ r2
  unfold Pm1.readCopyTypeRange
  simp only [e1, e2, ne_eq, not_true_eq_false, if_false]
  exact ⟨e3, r3⟩

/-- range 1: distances 64..319, two bytes -/
theorem typeRange1 (V : BitView) (s : Pm1.St) (rest : List Bool) (h64 : 64 ≤ s.outPos)
    (hr : V.R s.bits ([false] ++ (if 576 ≤ s.outPos then [false] else []) ++ [true] ++ rest)) :
    (Pm1.readCopyTypeRange s).1 = some 1 ∧ V.R (Pm1.readCopyTypeRange s).2 rest := by
  simp only [List.append_assoc, List.cons_append, List.nil_append] at hr
  obtain ⟨e1, r1⟩ := V.bit0 _ _ hr
  obtain ⟨e2, r2⟩ := bitAfter_opt0 V s _ 576 _ r1
  obtain ⟨e3, r3⟩ := V.bit1 _ _ r2
  unfold Pm1.readCopyTypeRange
  simp only [e1, e2, ne_eq, not_true_eq_false, if_false]
  rw [bitAfter_ge _ _ _ _ h64]
  exact ⟨e3, r3⟩

/-- range 2: distances below 64, three bytes or more -/
theorem typeRange2 (V : BitView) (s : Pm1.St) (rest : List Bool)
    (hr : V.R s.bits ([true] ++ (if 64 ≤ s.outPos then [true] else []) ++
      (if 2624 ≤ s.outPos then [true] else []) ++ rest)) :
    (Pm1.readCopyTypeRange s).1 = some 2 ∧ V.R (Pm1.readCopyTypeRange s).2 rest := by
  simp only [List.append_assoc, List.cons_append, List.nil_append] at hr
  obtain ⟨e1, r1⟩ := V.bit1 _ _ hr
  obtain ⟨e2, r2⟩ := bitAfter_opt1 V s _ 64 _ r1
  obtain ⟨e3, r3⟩ := bitAfter_opt1 V s _ 2624 _ r2
  unfold Pm1.readCopyTypeRange
  simp only [e1, e2, e3, ne_eq, Nat.succ_ne_zero, not_false_eq_true, if_true]
  exact ⟨trivial, r3⟩

/-- range 3: distances 64..575 -/
theorem typeRange3 (V : BitView) (s : Pm1.St) (rest : List Bool) (h64 : 64 ≤ s.outPos)
    (hr : V.R s.bits ([true, false] ++ rest)) :
    (Pm1.readCopyTypeRange s).1 = some 3 ∧ V.R (Pm1.readCopyTypeRange s).2 rest := by
  simp only [List.cons_append, List.nil_append] at hr
  obtain ⟨e1, r1⟩ := V.bit1 _ _ hr
  obtain ⟨e2, r2⟩ := V.bit0 _ _ r1
  unfold Pm1.readCopyTypeRange
  simp only [e1, bitAfter_ge _ _ _ _ h64, e2]
  exact ⟨trivial, r2⟩

/-- range 4: distances 576..2623 -/
theorem typeRange4 (V : BitView) (s : Pm1.St) (rest : List Bool) (h576 : 576 ≤ s.outPos)
    (hr : V.R s.bits ([false, true] ++ rest)) :
    (Pm1.readCopyTypeRange s).1 = some 4 ∧ V.R (Pm1.readCopyTypeRange s).2 rest := by
  simp only [List.cons_append, List.nil_append] at hr
  obtain ⟨e1, r1⟩ := V.bit0 _ _ hr
  obtain ⟨e2, r2⟩ := V.bit1 _ _ r1
  unfold Pm1.readCopyTypeRange
  simp only [e1, bitAfter_ge _ _ _ _ h576, e2, ne_eq, Nat.succ_ne_zero, not_false_eq_true, if_true]
  exact ⟨trivial, r2⟩

/-- range 5: distances 2624..10815 -/
theorem typeRange5 (V : BitView) (s : Pm1.St) (rest : List Bool) (h2624 : 2624 ≤ s.outPos)
    (hr : V.R s.bits ([true, true, false] ++ rest)) :
    (Pm1.readCopyTypeRange s).1 = some 5 ∧ V.R (Pm1.readCopyTypeRange s).2 rest := by
  simp only [List.cons_append, List.nil_append] at hr
  obtain ⟨e1, r1⟩ := V.bit1 _ _ hr
  obtain ⟨e2, r2⟩ := V.bit1 _ _ r1
  obtain ⟨e3, r3⟩ := V.bit0 _ _ r2
  have h64 : 64 ≤ s.outPos := by omega
  unfold Pm1.readCopyTypeRange
  simp only [e1, bitAfter_ge _ _ _ _ h64, e2, bitAfter_ge _ _ _ _ h2624, e3, ne_eq,
    not_true_eq_false, if_false]
  exact ⟨trivial, r3⟩

/-! ### the narrowed distance ranges -/

theorem narrow3 (pos : Nat) :
    Gen.pm1CopyRanges[Pm1.narrow pos 3]? = some (64, if pos < 320 then 8 else 9) := by
  unfold Pm1.narrow
  simp only [if_true]
  split <;> rfl

theorem narrow4 (pos : Nat) :
    Gen.pm1CopyRanges[Pm1.narrow pos 4]? = some (576,
      if pos < 832 then 8 else if pos < 1088 then 9 else if pos < 1600 then 10 else 11) := by
  unfold Pm1.narrow
  simp only [(by decide : ¬ (4 : Nat) = 3), if_true, if_false]
  repeat' split
  all_goals rfl

theorem narrow5 (pos : Nat) :
    Gen.pm1CopyRanges[Pm1.narrow pos 5]? = some (2624,
      if pos < 2880 then 8 else if pos < 3136 then 9 else if pos < 3648 then 10
      else if pos < 4672 then 11 else if pos < 6720 then 12 else 13) := by
  unfold Pm1.narrow
  simp only [(by decide : ¬ (5 : Nat) = 3), (by decide : ¬ (5 : Nat) = 4), if_true, if_false]
  repeat' split
  all_goals rfl

/-! ### `read_copy_command` -/

/-- the copy `read_copy_command` performs once it has determined count and distance -/
def copyRun (s : Pm1.St) (r : Bits) (dist len : Nat) : Res (List UInt8 × Pm1.St) :=
  (Pm1.copyLoop len ((s.pos + Gen.pm1RingSize - dist - 1) % Gen.pm1RingSize)
    { s with bits := r } []) >>= fun r => .ok (r.2.reverse, r.1)

theorem copyCmd_assemble (s : Pm1.St) (ri len dist : Nat) (r3 : Bits)
    (h1 : (Pm1.readCopyTypeRange s).1 = some ri)
    (h2 : (if ri < 2 then ((some 2 : Option Nat), (Pm1.readCopyTypeRange s).2)
            else Pm1.readCopyByteCount (Pm1.readCopyTypeRange s).2).1 = some len)
    (h3 : Pma.decodeVarLen "pm1: copy_ranges[range_index]" Gen.pm1CopyRanges
            (if ri < 2 then ((some 2 : Option Nat), (Pm1.readCopyTypeRange s).2)
              else Pm1.readCopyByteCount (Pm1.readCopyTypeRange s).2).2
            (Pm1.narrow s.outPos ri) = .ok (some dist, r3))
    (hd : dist < s.outPos) :
    Pm1.readCopyCommand s = copyRun s r3 dist len := by
  unfold Pm1.readCopyCommand copyRun
  have hd' : ¬ dist ≥ s.outPos := by omega
  simp only [h1, h2, h3, Res.ok_bind, hd', if_false]

/-- **B3c.** `read_copy_command` inverts `pm1CopyBits pos dist len` for every output position
`pos` (the thresholds 64 / 320 / 576 / 832 / 1088 / 1600 / 2624 / 2880 / 3136 / 3648 / 4672 /
6720 of the type prefix and of the growing distance fields): on these bits it performs the
copy of `len` bytes from `dist + 1` back, and the rest of the input is untouched -/
theorem copyCmd_spec (V : BitView) (s : Pm1.St) (dist len : Nat) (bits : List Bool)
    (h : pm1CopyBits s.outPos dist len = some bits) (rest : List Bool)
    (hr : V.R s.bits (bits ++ rest)) :
    ∃ r', V.R r' rest ∧ Pm1.readCopyCommand s = copyRun s r' dist len := by
  unfold pm1CopyBits at h
  split at h
  · cases h
  rename_i hpos
  split at h
  · -- two bytes
    rename_i hlen
    subst hlen
    split at h
    · rename_i hd
      cases h
      rw [List.append_assoc] at hr
      obtain ⟨e1, r1⟩ := typeRange0 V s _ hr
      obtain ⟨r3, e3, r3'⟩ := decodeVarLen_entry V "pm1: copy_ranges[range_index]"
        Gen.pm1CopyRanges dist 0 0 6 rfl (by omega) (by omega) (by decide) _ rest r1
      exact ⟨r3, r3', copyCmd_assemble s 0 2 dist r3 e1 rfl e3 (by omega)⟩
    · split at h
      · rename_i hd1 hd2
        cases h
        rw [List.append_assoc] at hr
        obtain ⟨e1, r1⟩ := typeRange1 V s _ (by omega) hr
        obtain ⟨r3, e3, r3'⟩ := decodeVarLen_entry V "pm1: copy_ranges[range_index]"
          Gen.pm1CopyRanges dist 1 64 8 rfl (by omega) (by omega) (by decide) _ rest r1
        exact ⟨r3, r3', copyCmd_assemble s 1 2 dist r3 e1 rfl e3 (by omega)⟩
      · cases h
  · rename_i hlen
    split at h
    · cases h
    rename_i cnt hcnt
    have hrange := copyCount_range len cnt hcnt
    split at h
    · rename_i hd
      cases h
      simp only [List.append_assoc] at hr
      obtain ⟨e1, r1⟩ := typeRange2 V s _ (by simpa only [List.append_assoc] using hr)
      obtain ⟨e2, r2⟩ := copyCount_spec V len cnt hcnt _ _ r1
      obtain ⟨r3, e3, r3'⟩ := decodeVarLen_entry V "pm1: copy_ranges[range_index]"
        Gen.pm1CopyRanges dist 2 0 6 rfl (by omega) (by omega) (by decide) _ rest r2
      exact ⟨r3, r3', copyCmd_assemble s 2 len dist r3 e1 e2 e3 (by omega)⟩
    · split at h
      · rename_i hd1 hd2
        cases h
        simp only [List.append_assoc] at hr
        obtain ⟨e1, r1⟩ := typeRange3 V s _ (by omega) hr
        obtain ⟨e2, r2⟩ := copyCount_spec V len cnt hcnt _ _ r1
        obtain ⟨r3, e3, r3'⟩ := decodeVarLen_entry V "pm1: copy_ranges[range_index]"
          Gen.pm1CopyRanges dist _ 64 _ (narrow3 s.outPos) (by omega)
          (by split <;> omega) (by split <;> decide) _ rest r2
        exact ⟨r3, r3', copyCmd_assemble s 3 len dist r3 e1 e2 e3 (by omega)⟩
      · split at h
        · rename_i hd1 hd2 hd3
          cases h
          simp only [List.append_assoc] at hr
          obtain ⟨e1, r1⟩ := typeRange4 V s _ (by omega) hr
          obtain ⟨e2, r2⟩ := copyCount_spec V len cnt hcnt _ _ r1
          obtain ⟨r3, e3, r3'⟩ := decodeVarLen_entry V "pm1: copy_ranges[range_index]"
            Gen.pm1CopyRanges dist _ 576 _ (narrow4 s.outPos) (by omega)
            (by repeat' split
                all_goals omega)
            (by repeat' split
                all_goals decide) _ rest r2
          exact ⟨r3, r3', copyCmd_assemble s 4 len dist r3 e1 e2 e3 (by omega)⟩
        · split at h
          · rename_i hd1 hd2 hd3 hd4
            cases h
            simp only [List.append_assoc] at hr
            obtain ⟨e1, r1⟩ := typeRange5 V s _ (by omega) hr
            obtain ⟨e2, r2⟩ := copyCount_spec V len cnt hcnt _ _ r1
            obtain ⟨r3, e3, r3'⟩ := decodeVarLen_entry V "pm1: copy_ranges[range_index]"
              Gen.pm1CopyRanges dist _ 2624 _ (narrow5 s.outPos) (by omega)
              (by repeat' split
                  all_goals omega)
              (by repeat' split
                  all_goals decide) _ rest r2
            exact ⟨r3, r3', copyCmd_assemble s 5 len dist r3 e1 e2 e3 (by omega)⟩
          · cases h

/-- what `pm1CopyBits` accepts -/
theorem copyBits_range (pos dist len : Nat) (bits : List Bool)
    (h : pm1CopyBits pos dist len = some bits) :
    dist < pos ∧ 2 ≤ len ∧ len ≤ 244 ∧ dist < 10816 := by
  unfold pm1CopyBits at h
  split at h
  · cases h
  split at h
  · repeat' split at h
    all_goals try cases h
    all_goals omega
  · split at h
    · cases h
    rename_i cnt hcnt
    have := copyCount_range len cnt hcnt
    repeat' split at h
    all_goals try cases h
    all_goals omega

/-! ### the byte-class trees -/

/-- `treeWalk` on a list of bits: the class reached when the bits are used up exactly -/
def walkL : Nat → Nat → List Bool → Option Nat
  | 0, _, _ => none
  | _+1, _, [] => none
  | k+1, ptr, b :: bs =>
    match Gen.pm1ByteDecodeTrees[ptr]? with
    | none => none
    | some v =>
      if (if b then v % 16 else (v / 16) % 16) ≥ 10 then
        (if bs.isEmpty then some ((if b then v % 16 else (v / 16) % 16) - 10) else none)
      else walkL k (ptr + (if b then v % 16 else (v / 16) % 16)) bs

theorem treeWalk_of_walkL (V : BitView) (k ptr : Nat) (p : List Bool) (c : Nat)
    (h : walkL k ptr p = some c) (r : Bits) (rest : List Bool) (hr : V.R r (p ++ rest)) :
    ∃ r', Pm1.treeWalk k ptr r = .ok (some c, r') ∧ V.R r' rest := by
  induction k generalizing ptr p r with
  | zero => simp [walkL] at h
  | succ k ih =>
    cases p with
    | nil => simp [walkL] at h
    | cons b bs =>
      unfold walkL at h
      obtain ⟨e1, r1⟩ := V.bit r b (bs ++ rest) hr
      unfold Pm1.treeWalk
      simp only [e1]
      cases hT : Gen.pm1ByteDecodeTrees[ptr]? with
      | none => simp [hT] at h
      | some v =>
        simp only [hT] at h ⊢
        have hchild : (if (if b then 1 else 0) = 0 then (v / 16) % 16 else v % 16)
            = (if b then v % 16 else (v / 16) % 16) := by cases b <;> simp
        rw [hchild]
        by_cases hleaf : (if b then v % 16 else (v / 16) % 16) ≥ 10
        · rw [if_pos hleaf] at h ⊢
          cases bs with
          | nil =>
            simp only [List.isEmpty_nil, if_true, Option.some.injEq] at h
            subst h
            exact ⟨_, rfl, by simpa using r1⟩
          | cons b2 bs2 => simp at h
        · rw [if_neg hleaf] at h ⊢
          exact ih _ _ h _ r1

/-- all (class, path) pairs of a tree shape -/
def leavesOf : T → List (Nat × List Bool)
  | .leaf j => [(j, [])]
  | .node l r => (leavesOf l).map (fun e => (e.1, false :: e.2)) ++
                 (leavesOf r).map (fun e => (e.1, true :: e.2))

theorem mem_leavesOf (t : T) (c : Nat) (p : List Bool) (h : p ∈ t.paths c) : (c, p) ∈ leavesOf t := by
  induction t generalizing p with
  | leaf j =>
    unfold T.paths at h
    split at h
    · next e => simp at h; subst h; subst e; simp [leavesOf]
    · simp at h
  | node l r ihl ihr =>
    unfold T.paths at h
    rw [List.mem_append] at h
    unfold leavesOf
    rw [List.mem_append]
    rcases h with h | h
    · left
      obtain ⟨q, hq, e⟩ := List.mem_map.mp h
      exact List.mem_map.mpr ⟨(c, q), ihl q hq, by simp [e]⟩
    · right
      obtain ⟨q, hq, e⟩ := List.mem_map.mp h
      exact List.mem_map.mpr ⟨(c, q), ihr q hq, by simp [e]⟩

/-- the finite check for one tree index: the row of `byte_decode_trees` decodes every path of the
specification's tree to its class (index 31: the row starts with 0, "class 0 without bits") -/
def treeOk (t : Nat) : Bool :=
  match pm1Trees[t]? with
  | some (some tr) =>
    (match Gen.pm1ByteDecodeTrees[t * Gen.pm1TreeRowLen]? with
     | some 0 => false
     | some _ => true
     | none => false) &&
    (leavesOf tr).all (fun e => walkL 64 (t * Gen.pm1TreeRowLen) e.2 == some e.1)
  | some none => Gen.pm1ByteDecodeTrees[t * Gen.pm1TreeRowLen]? == some 0
  | none => false

/-- the 32 byte-class trees of the specification are `byte_decode_trees[]` of pm1_decoder.c -/
theorem trees_ok : ∀ t, t < 32 → treeOk t = true := by decide +kernel

/-- **B3d.** for every tree index `t < 32`, class `c` and path `p` to `c` in tree `t` of the
specification, `read_byte_decode_index` on `p ++ rest` returns `c` and leaves `rest` -/
theorem byteIndex_spec (V : BitView) (t : Nat) (tr : T) (hT : pm1Trees[t]? = some (some tr))
    (c : Nat) (p : List Bool) (hp : p ∈ tr.paths c) (s : Pm1.St) (rest : List Bool)
    (hr : V.R s.bits (p ++ rest)) :
    ∃ r', Pm1.readByteDecodeIndex s t = .ok (some c, r') ∧ V.R r' rest := by
  have ht : t < 32 := by
    have := (List.getElem?_eq_some_iff.mp hT).1
    simpa [pm1Trees] using this
  have hok := trees_ok t ht
  unfold treeOk at hok
  rw [hT] at hok
  simp only [Bool.and_eq_true, List.all_eq_true, beq_iff_eq] at hok
  have hw := hok.2 (c, p) (mem_leavesOf tr c p hp)
  unfold Pm1.readByteDecodeIndex
  rcases hrow : Gen.pm1ByteDecodeTrees[t * Gen.pm1TreeRowLen]? with _ | ⟨_ | v⟩
  · simp [hrow] at hok
  · simp [hrow] at hok
  · simp only
    exact treeWalk_of_walkL V 64 _ p c hw s.bits rest hr

/-- tree index 31: class 0 without reading a bit -/
theorem byteIndex_none (t : Nat) (hT : pm1Trees[t]? = some none) (s : Pm1.St) :
    Pm1.readByteDecodeIndex s t = .ok (some 0, s.bits) := by
  have ht : t < 32 := by
    have := (List.getElem?_eq_some_iff.mp hT).1
    simpa [pm1Trees] using this
  have hok := trees_ok t ht
  unfold treeOk at hok
  rw [hT] at hok
  simp only [beq_iff_eq] at hok
  unfold Pm1.readByteDecodeIndex
  rw [hok]
  rfl

/-- **B3e.** `read_byte` inverts `pm1ByteBits`: the code of move-to-front position `k` under tree
`t` (any of the paths the tree offers) decodes to the byte at position `k` of the list -/
theorem readByte_spec (V : BitView) (t : Nat) (tr : Option T) (hT : pm1Trees[t]? = some tr)
    (k alt : Nat) (bits : List Bool) (hb : pm1ByteBits tr k alt = some bits) (hk : k < 256)
    (s : Pm1.St) (l : List UInt8) (hl : HistRel s.hist l) (rest : List Bool)
    (hr : V.R s.bits (bits ++ rest)) :
    ∃ r', Pm1.readByte s t = .ok (some (l.getD k 0).toNat, r') ∧ V.R r' rest := by
  unfold pm1ByteBits at hb
  split at hb
  · cases hb
  rename_i c lo w hc
  have hw : w ≤ 25 := by
    obtain ⟨c', lo', w', e, _, hw'⟩ := classOf_pm1_total k hk
    rw [hc] at e; cases e; omega
  have hfin : ∀ (r1 : Bits), V.R r1 (bitsN w (k - lo) ++ rest) →
      ∃ r', ((Pma.decodeVarLen "pm1: byte_ranges[index]" Gen.pm1ByteRanges r1 c) >>= fun cc =>
        match cc.1 with
        | none => (.ok (none, cc.2) : Res (Option Nat × Bits))
        | some count => (Pma.find s.hist (count % 256)) >>= fun b => .ok (some b, cc.2))
        = .ok (some (l.getD k 0).toNat, r') ∧ V.R r' rest := by
    intro r1 hr1
    obtain ⟨r', e, hr'⟩ := decodeVarLen_spec V "pm1: byte_ranges[index]" Gen.pm1ByteRanges k c lo w
      hc hw r1 rest hr1
    refine ⟨r', ?_, hr'⟩
    rw [e]
    simp only [Res.ok_bind, Nat.mod_eq_of_lt hk, find_spec _ _ hl k hk]
  cases tr with
  | none =>
    simp only at hb
    split at hb
    · rename_i hc0
      cases hb
      subst hc0
      unfold Pm1.readByte
      rw [byteIndex_none t hT s]
      simp only [Res.ok_bind]
      exact hfin s.bits hr
    · cases hb
  | some tr =>
    simp only at hb
    split at hb
    · cases hb
    rename_i p hp
    cases hb
    rw [List.append_assoc] at hr
    obtain ⟨r1, e1, hr1⟩ := byteIndex_spec V t tr hT c p (List.mem_of_getElem? hp) s _ hr
    unfold Pm1.readByte
    rw [e1]
    simp only [Res.ok_bind]
    exact hfin r1 hr1

/-! ### non-vacuity -/

example : pm1BlockCount 100 = some (bitsN 2 3 ++ bitsN 3 7 ++ bitsN 4 15 ++ bitsN 7 11) := by decide
example : pm1CopyCount 100 = some (bitsN 2 3 ++ bitsN 3 7 ++ bitsN 6 62 ++ bitsN 5 15) := by decide
example : pm1CopyBits 3000 2700 3 = some ([true, true, false] ++ bitsN 2 0 ++ bitsN 9 76) := by
  decide
example : (T.node (.leaf 0) (.node (.leaf 1) (.leaf 2))).paths 2 = [[true, true]] := by decide

end LhasaV.PmRT
