import LhasaV.Lemmas.ArchivePack1
import LhasaV.Lemmas.Lh1Mirror
/-!
# C06, packers from the format specifications (part 2): `-lh4-` … `-lhx-`, `-lh1-`

* `lhNewLit m f l1`: members of method `m` whose compressed bytes are
  `Spec.LhNewEnc.serialise f (litBlocks data)`; `packOk_lhNewLit`: for every parameter set with the
  side conditions of the C01 round trip (`RTParams`), by `LhNewRT.lhnew_round_trip` (the
  `Wrap.avail` form of C01 `lhnew_decode_serialise`; `LzRoundTrip.reads_fresh` converts the two);
* instances `lh4Lit`, `lh5Lit`, `lh6Lit`, `lh7Lit`, `lhxLit` with `packOk_*` for data shorter than
  4 294 000 000 bytes;
* `-lk7-`: the description is well-formed and the decoder round trip holds
  (`lk7_lit_round_trip`), but such a member cannot be written by `archiveWith`: the method string
  `-lk7-` is not an archive signature (`lk7_not_sig`) — LHark writes `-lh7-` under OS type ' ' in a
  level-1 header and the header parser renames it; `fieldsOf` fixes the OS type 'U';
* `lh1Lit`: `Spec.Lzhuf.encode` (the LZHUF transcription) of the data as literals;
  `packOk_lh1Lit` by `Lh1Mirror.lh1_round_trip` (C02 `lh1_decode_encode`), declared length = data
  length = length of the expansion.
-/
set_option linter.unusedSimpArgs false
namespace LhasaV.ArchivePack
open LhasaV LhasaV.ArchiveOf LhasaV.Spec LhasaV.Spec.LhNewEnc LhasaV.Spec.Lz77 LhasaV.ExtractTree.Sample

def lh1M : Bytes := [0x2d, 0x6c, 0x68, 0x31, 0x2d]
def lh4M : Bytes := [0x2d, 0x6c, 0x68, 0x34, 0x2d]
def lh5M : Bytes := [0x2d, 0x6c, 0x68, 0x35, 0x2d]
def lh6M : Bytes := [0x2d, 0x6c, 0x68, 0x36, 0x2d]
def lh7M : Bytes := [0x2d, 0x6c, 0x68, 0x37, 0x2d]
def lhxM : Bytes := [0x2d, 0x6c, 0x68, 0x78, 0x2d]
def lk7M : Bytes := [0x2d, 0x6c, 0x6b, 0x37, 0x2d]

/-! ## static-Huffman members -/

/-- members of method `m` holding the data as the all-literals description of format `f` -/
def lhNewLit (m : Bytes) (f : Fmt) (l1 : Bool) : Packer :=
  { pack := fun data => (m, serialise f (litBlocks data)), level1 := l1 }

/-- the decoder's inner output stream on the serialised all-literals description is the data -/
theorem lhnew_lit_round_trip (p : LhNew.Params) (hp : LhNewRT.RTParams p) (data : Bytes) :
    Wrap.avail (Dec.total (LhNew.dec p)) data.length
      (.ok ((LhNew.dec p).init { data := (serialise (LhNewRT.fmtOf p) (litBlocks data)).toArray })) = data := by
  have hw : wf (LhNewRT.fmtOf p) (litBlocks data) = true :=
    litBlocks_wf _ (by have := hp.numCodes'; show 256 ≤ p.numCodes; omega) data
  have := LhNewRT.lhnew_round_trip p hp (litBlocks data) hw data.length 0
  rw [expand_litBlocks, List.take_length] at this
  exact this

/-- **static-Huffman members of literals**: for a method name `m` served by the parameter set `p`,
every data string shorter than 4 294 000 000 bytes -/
theorem packOk_lhNewLit (m : Bytes) (name : String) (p : LhNew.Params) (f : Fmt) (hp : LhNewRT.RTParams p)
    (hf : LhNewRT.fmtOf p = f) (hn : mname m = name) (hd : decoderFor name = some (LhNew.dec p))
    (hi : (decoderInfo name).isSome = true) (hsig : SigOk m) (hnd : m ≠ lhdM) (l1 : Bool) (data : Bytes)
    (h : data.length < 4294000000) : PackOk (lhNewLit m f l1) data := by
  obtain ⟨info, hi⟩ := Option.isSome_iff_exists.1 hi
  subst hf
  refine packOk_of_roundtrip m (fun d => serialise (LhNewRT.fmtOf p) (litBlocks d)) l1 (LhNew.dec p) info data
    hsig hnd ?_ (by rw [hn]; exact hd) (by rw [hn]; exact hi) (lhnew_lit_round_trip p hp data)
  exact length_serialise_litBlocks _ hp.offBits data h

def lh4Lit (l1 : Bool := false) : Packer := lhNewLit lh4M lh5 l1
def lh5Lit (l1 : Bool := false) : Packer := lhNewLit lh5M lh5 l1
def lh6Lit (l1 : Bool := false) : Packer := lhNewLit lh6M lh6 l1
def lh7Lit (l1 : Bool := false) : Packer := lhNewLit lh7M lh7 l1
def lhxLit (l1 : Bool := false) : Packer := lhNewLit lhxM lhx l1

theorem packOk_lh4Lit (l1 : Bool) (data : Bytes) (h : data.length < 4294000000) : PackOk (lh4Lit l1) data :=
  packOk_lhNewLit lh4M "-lh4-" LhNew.lh5 lh5 LhNewRT.rtParams_lh5 (by decide) (by decide +kernel) rfl
    (by decide +kernel) (by decide) (by decide) l1 data h

theorem packOk_lh5Lit (l1 : Bool) (data : Bytes) (h : data.length < 4294000000) : PackOk (lh5Lit l1) data :=
  packOk_lhNewLit lh5M "-lh5-" LhNew.lh5 lh5 LhNewRT.rtParams_lh5 (by decide) (by decide +kernel) rfl
    (by decide +kernel) (by decide) (by decide) l1 data h

theorem packOk_lh6Lit (l1 : Bool) (data : Bytes) (h : data.length < 4294000000) : PackOk (lh6Lit l1) data :=
  packOk_lhNewLit lh6M "-lh6-" LhNew.lh6 lh6 LhNewRT.rtParams_lh6 (by decide) (by decide +kernel) rfl
    (by decide +kernel) (by decide) (by decide) l1 data h

theorem packOk_lh7Lit (l1 : Bool) (data : Bytes) (h : data.length < 4294000000) : PackOk (lh7Lit l1) data :=
  packOk_lhNewLit lh7M "-lh7-" LhNew.lh7 lh7 LhNewRT.rtParams_lh7 (by decide) (by decide +kernel) rfl
    (by decide +kernel) (by decide) (by decide) l1 data h

theorem packOk_lhxLit (l1 : Bool) (data : Bytes) (h : data.length < 4294000000) : PackOk (lhxLit l1) data :=
  packOk_lhNewLit lhxM "-lhx-" LhNew.lhx lhx LhNewRT.rtParams_lhx (by decide) (by decide +kernel) rfl
    (by decide +kernel) (by decide) (by decide) l1 data h

/-! ## `-lk7-` -/

/-- the `-lk7-` decoder decodes the all-literals description (LHark format constants) to the data … -/
theorem lk7_lit_round_trip (data : Bytes) :
    decoderFor "-lk7-" = some (LhNew.dec LhNew.lk7) ∧ wf lk7 (litBlocks data) = true ∧
    Wrap.avail (Dec.total (LhNew.dec LhNew.lk7)) data.length
      (.ok ((LhNew.dec LhNew.lk7).init { data := (serialise lk7 (litBlocks data)).toArray })) = data := by
  have hf : LhNewRT.fmtOf LhNew.lk7 = lk7 := by decide
  refine ⟨rfl, litBlocks_wf lk7 (by decide) data, ?_⟩
  have := lhnew_lit_round_trip LhNew.lk7 LhNewRT.rtParams_lk7 data
  rw [hf] at this
  exact this

/-- … but no packer can name the method `-lk7-`: it is not an archive signature (`PackOk.sig`).
LHark members are `-lh7-` members of a level-1 header with OS type ' ', which `fieldsOf`
(OS type 'U' throughout) does not write. -/
theorem lk7_not_sig : ¬ SigOk lk7M := by decide

theorem lk7_no_packer (pk : Packer) (data : Bytes) (h : (pk.pack data).1 = lk7M) : ¬ PackOk pk data :=
  fun hp => lk7_not_sig (h ▸ hp.sig)

/-! ## `-lh1-` -/

/-- the data as LZHUF commands: literals -/
def wlits (data : Bytes) : List WCmd := data.map .lit

/-- `-lh1-` members: the LZHUF encoder run on the literals -/
def lh1Lit (l1 : Bool := false) : Packer :=
  { pack := fun data => (lh1M, Lzhuf.encode (wlits data)), level1 := l1 }

/-- **`-lh1-` members of literals**: every data string whose LZHUF encoding is shorter than
4 GiB − 64 KiB (the adaptive code gives no simple closed bound; the condition is decidable) -/
theorem packOk_lh1Lit (l1 : Bool) (data : Bytes) (h : (Lzhuf.encode (wlits data)).length < 4294901760) :
    PackOk (lh1Lit l1) data := by
  have hn : mname lh1M = "-lh1-" := by decide +kernel
  have hi : (decoderInfo "-lh1-").isSome = true := by decide +kernel
  obtain ⟨info, hi⟩ := Option.isSome_iff_exists.1 hi
  refine packOk_of_roundtrip lh1M (fun d => Lzhuf.encode (wlits d)) l1 Lh1.dec info data (by decide) (by decide) h
    (by rw [hn]; rfl) (by rw [hn]; exact hi) ?_
  have hv : ∀ c ∈ wlits data, Lzhuf.valid c = true := by
    intro c hc
    obtain ⟨b, _, rfl⟩ := List.mem_map.1 hc
    rfl
  have := Lh1Mirror.lh1_round_trip (wlits data) hv data.length 0
    (by rw [wlits, expandWin_lits]; exact Nat.le_refl _)
  rw [wlits, expandWin_lits, List.take_length] at this
  exact this

/-! ### a bound on the encoded length

`EncodeChar` walks from the leaf to the root with fuel `T = 627`: no code word is longer than 627
bits, whatever the tree.  (Real code words are far shorter; the bound needs no tree invariant.) -/

theorem length_codeLoop (prnt : Array Nat) (fuel k : Nat) (acc : List Bool) :
    (Lzhuf.codeLoop prnt fuel k acc).length ≤ acc.length + fuel := by
  induction fuel generalizing k acc with
  | zero => simp [Lzhuf.codeLoop]
  | succ fuel ih =>
    rw [Lzhuf.codeLoop]
    split
    · have := ih (prnt.getD k 0) ((k % 2 == 1) :: acc)
      simp only [List.length_cons] at this
      omega
    · simp only [List.length_cons]; omega

theorem length_codeBits (s : Lzhuf.TreeState) (c : Nat) : (Lzhuf.codeBits s c).length ≤ 627 := by
  have := length_codeLoop s.prnt Lzhuf.T (s.prnt.getD (c + Lzhuf.T) 0) []
  have hT : Lzhuf.T = 627 := rfl
  rw [List.length_nil, Nat.zero_add, hT] at this
  exact this

theorem length_cmdsBits_lits (z : Lzhuf.TreeState) (d : Bytes) :
    (Lh1Mirror.cmdsBits z (wlits d)).length ≤ 627 * d.length := by
  induction d generalizing z with
  | nil => simp [wlits, Lh1Mirror.cmdsBits]
  | cons b d ih =>
    have h1 := length_codeBits z b.toNat
    have h2 := ih (Lzhuf.update z (Lzhuf.symOf (.lit b)))
    simp only [wlits, List.map_cons, Lh1Mirror.cmdsBits, Lh1Mirror.cmdBitsZ, List.length_append,
      List.length_cons] at h2 ⊢
    omega

/-- the LZHUF encoding of `n` literals has at most `(627·n + 7) / 8` bytes -/
theorem length_encode_lits (d : Bytes) : (Lzhuf.encode (wlits d)).length * 8 < 627 * d.length + 8 := by
  rw [Lzhuf.encode, Lh1Mirror.pack_eq_packBits, Lh1Mirror.encodeBits_eq]
  have h1 := length_packBits (Lh1Mirror.cmdsBits Lzhuf.startHuff (wlits d))
  have h2 := length_cmdsBits_lits Lzhuf.startHuff d
  omega

/-- hence every data string shorter than 54 000 000 bytes meets the size condition of `packOk_lh1Lit` -/
theorem lh1_fits_of_length (data : Bytes) (h : data.length < 54000000) :
    (Lzhuf.encode (wlits data)).length < 4294901760 := by
  have := length_encode_lits data
  omega

theorem packOk_lh1Lit' (l1 : Bool) (data : Bytes) (h : data.length < 54000000) : PackOk (lh1Lit l1) data :=
  packOk_lh1Lit l1 data (lh1_fits_of_length data h)

end LhasaV.ArchivePack
