import LhasaV.Model.Bits
/-!
Well-formedness of the bit reader: `bit_buffer` is a `uint32_t`, i.e. `buf < 2^32`.
The model keeps `buf` as a `Nat`; every reader reachable from `{ src := _ }` is
well-formed, and on well-formed readers `readBits n` returns a value `< 2^n`.
-/
namespace LhasaV.Bits

/-- `bit_buffer` fits its C type `uint32_t` -/
def WF (r : Bits) : Prop := r.buf < 4294967296

theorem wf_init (src : Src) : WF { src := src } := by
  show (0 : Nat) < 4294967296
  omega

theorem push_lt (l : List UInt8) (buf bits : Nat) (h : buf < 4294967296) :
    (push buf bits l).1 < 4294967296 := by
  induction l generalizing buf bits with
  | nil => exact h
  | cons b bs ih =>
    unfold push
    apply ih
    have hb : b.toNat < 256 := UInt8.toNat_lt b
    have h2 : b.toNat <<< (24 - bits) < 2 ^ 32 := by
      rw [Nat.shiftLeft_eq]
      have h3 : 2 ^ (24 - bits) ≤ 2 ^ 24 := Nat.pow_le_pow_right (by omega) (by omega)
      calc b.toNat * 2 ^ (24 - bits) ≤ b.toNat * 2 ^ 24 := Nat.mul_le_mul_left _ h3
        _ < 256 * 2 ^ 24 := Nat.mul_lt_mul_of_pos_right hb (by omega)
        _ = 2 ^ 32 := by decide
    have h1 : buf < 2 ^ 32 := h
    exact Nat.or_lt_two_pow h1 h2

theorem fill_wf (r : Bits) (n : Nat) (h : WF r) : WF (fill r n).2 := by
  fun_induction fill r n with
  | case1 r hlt got hg => exact h
  | case2 r hlt got hg p ih =>
    apply ih
    exact push_lt _ _ _ h
  | case3 r hlt => exact h

theorem peek_wf (r : Bits) (n : Nat) (h : WF r) : WF (peek r n).2 := by
  unfold peek
  by_cases hn : n = 0
  · simp [hn]; exact h
  · simp only [hn, if_false]
    by_cases hf : (fill r n).1 = true
    · simp only [hf, if_true]; exact fill_wf r n h
    · simp only [hf]; exact fill_wf r n h

theorem peek_lt (r : Bits) (n : Nat) (h : WF r) (v : Nat) (hv : (peek r n).1 = some v) :
    v < 2 ^ n := by
  unfold peek at hv
  by_cases hn : n = 0
  · simp [hn] at hv; subst hv; subst hn; decide
  · simp only [hn, if_false] at hv
    by_cases hf : (fill r n).1 = true
    · simp only [hf, if_true, Option.some.injEq] at hv
      subst hv
      have hw : (fill r n).2.buf < 2 ^ 32 := fill_wf r n h
      rw [Nat.shiftRight_eq_div_pow]
      apply Nat.div_lt_of_lt_mul
      by_cases hle : n ≤ 32
      · have : 2 ^ (32 - n) * 2 ^ n = 2 ^ 32 := by
          rw [← Nat.pow_add]; congr 1; omega
        omega
      · have h1 : 2 ^ 32 ≤ 2 ^ n := Nat.pow_le_pow_right (by omega) (by omega)
        have h2 : 0 < 2 ^ (32 - n) := Nat.pow_pos (by omega)
        calc (fill r n).2.buf < 2 ^ 32 := hw
          _ ≤ 2 ^ n := h1
          _ ≤ 2 ^ (32 - n) * 2 ^ n := Nat.le_mul_of_pos_left _ h2
    · simp [hf] at hv

theorem readBits_wf (r : Bits) (n : Nat) (h : WF r) : WF (readBits r n).2 := by
  simp only [readBits]
  cases hp : (peek r n).1 with
  | none => simp only []; exact peek_wf r n h
  | some v =>
    simp only []
    show (_ % 4294967296 : Nat) < 4294967296
    exact Nat.mod_lt _ (by omega)

theorem readBits_lt (r : Bits) (n : Nat) (h : WF r) (v : Nat) (hv : (readBits r n).1 = some v) :
    v < 2 ^ n := by
  unfold readBits at hv
  cases hp : (peek r n).1 with
  | none => simp [hp] at hv
  | some v' =>
    simp [hp] at hv
    subst hv
    exact peek_lt r n h _ hp

theorem readBit_wf (r : Bits) (h : WF r) : WF (readBit r).2 := readBits_wf r 1 h

theorem readBit_le (r : Bits) (h : WF r) (v : Nat) (hv : (readBit r).1 = some v) : v ≤ 1 := by
  have := readBits_lt r 1 h v hv
  omega

end LhasaV.Bits
