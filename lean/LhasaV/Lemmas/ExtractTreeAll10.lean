import LhasaV.Lemmas.ExtractTreeAll9
/-!
# C06, all deviations together (part 10): the special theorems follow from the unified one

Each of the earlier closed forms is re-derived from `extract_archiveOf_unified` (with exactly its
original statement), so the family is visibly consistent:

* `extract_archiveOf_mixed_of_unified` (`C06.extract_mixed`), `…_implicit_of_unified`
  (`C06.extract_implicit_parents`), `extract_archiveOf_of_unified` (`C06.extract_reproduces_tree`);
* `extract_archiveOf_reloc_of_unified` (`C06.extract_relocated`);
* `extract_archiveOf_closed_of_unified` (part 9; `C06.extract_selected`);
* `extract_archiveOf_ow_of_unified` (`C06.overwrite_policy`): `wf_parents` (the directories above an
  entry of a well-formed archive are open directory ENTRIES), `preAtU_of_preDir`, `plan_closed`
  (what the plan writes is closed under parents: no implicit directory).
-/
set_option linter.unusedSimpArgs false
namespace LhasaV.ExtractTree
open LhasaV LhasaV.Header LhasaV.Extract LhasaV.GlobFs LhasaV.Contain

theorem selected_nofilter (o : Opts) (h : o.filters = []) : selected o.filters = fun _ => true := by
  rw [h]; rfl

/-- in a well-formed archive the directories above an entry are open directory entries -/
theorem wf_parents (P : Fs.Path → Prop) : ∀ (es : List Entry) (stk seen : List Fs.Path),
    WF stk seen es → Chain stk → (∀ t ∈ stk, P t) → (∀ e ∈ es, e.isDir = true → P e.path) →
    ∀ e ∈ es, ∀ q, q ≠ [] → q <+: e.path → q ≠ e.path → P q := by
  intro es
  induction es with
  | nil => intro _ _ _ _ _ _ e he; cases he
  | cons x es ih =>
    intro stk seen hwf hc hP hdir e he q hq hqe hne
    obtain ⟨hk, _, hpar, hwf'⟩ := hwf
    have hcp : Chain (popStk stk x.dirPart) := hc.dropWhile _ stk
    have hanc := pre_mem_of_parent hcp x.path hpar
    rcases List.mem_cons.1 he with rfl | he
    · exact hP q (mem_popStk (hanc q hq hqe hne))
    · refine ih _ _ hwf' ?_ ?_ (fun e he => hdir e (List.mem_cons_of_mem _ he)) e he q hq hqe hne
      · cases x.isDir with
        | true => exact ⟨hk.ne, hpar.symm, hcp⟩
        | false => exact hcp
      · intro t ht
        cases hd : x.isDir with
        | true =>
          rw [hd] at ht
          rcases List.mem_cons.1 ht with rfl | ht
          · exact hdir x (by simp) hd
          · exact hP t (mem_popStk ht)
        | false =>
          rw [hd] at ht
          exact hP t (mem_popStk (by simpa using ht))

theorem oldB_nil (fs : Fs.St) : oldB fs [] = oldAt fs := by
  funext p; simp [oldB, oldAt]

theorem exB_nil (fs : Fs.St) : exB fs [] = exAt fs := by
  funext p; simp [exB, exAt, oldB]

/-- `PreDir` (ExtractTreeOw7) and a well-formed archive give the unified collision condition -/
theorem preAtU_of_preDir {fs : Fs.St} {es : List Entry} (h : PreDir fs es) (hwf : WellFormed es) :
    ∀ e ∈ es, PreAtU fs [] e := by
  intro e he
  have hk := wf_entries es [] [] hwf e he
  have hpar := wf_parents (fun q => oldAt fs q = none) es [] [] hwf trivial (fun _ h => (by cases h))
    (fun d hd hdir => by
      cases hl : oldAt fs d.path with
      | none => rfl
      | some x =>
        have := h.clash d hd (by show oldAt fs d.path ≠ none; rw [hl]; simp)
        cases d <;> simp [Entry.isFile, Entry.isDir] at this hdir) e he
  rw [PreAtU, oldB_nil]
  cases hl : oldAt fs e.path with
  | none =>
    left
    intro j hj
    by_cases hje : e.path.take (j + 1) = e.path
    · rw [hje]; exact hl
    · exact hpar _ (ArchiveOf.take_succ_ne_nil _ j hk.ne) (List.take_prefix _ _) hje
  | some x =>
    right
    have hf := h.clash e he (by show oldAt fs e.path ≠ none; rw [hl]; simp)
    rcases h.files e.path hk.ne with hn | ⟨h1, d, m, t, hfl⟩
    · have : oldAt fs e.path = none := hn
      rw [this] at hl; cases hl
    · have : oldAt fs e.path = some (.file d m t) := hfl
      exact ⟨hf, h1, by rw [← hl, this]; rfl⟩

/-- **what the plan writes is closed under parents** (well-formed archive): every directory above a
written entry is a written directory entry -/
theorem plan_closed (ex : Fs.Path → Bool) : ∀ (es : List Entry) (stk seen seenW : List Fs.Path)
    (pol : Overwrite) (ls : List Bytes), WF stk seen es → Chain stk → (∀ t ∈ stk, t ∈ seenW) →
    (∀ p ∈ seenW, ∀ q, q ≠ [] → q <+: p → q ∈ seenW) →
    ∀ p ∈ seenW ++ (plan ex pol ls es).1.map Entry.path, ∀ q, q ≠ [] → q <+: p →
      q ∈ seenW ++ (plan ex pol ls es).1.map Entry.path := by
  intro es
  induction es with
  | nil => intro _ _ seenW _ _ _ _ _ hcl; simpa [plan] using hcl
  | cons x es ih =>
    intro stk seen seenW pol ls hwf hc hsub hcl
    obtain ⟨hk, _, hpar, hwf'⟩ := hwf
    have hcp : Chain (popStk stk x.dirPart) := hc.dropWhile _ stk
    have hanc := pre_mem_of_parent hcp x.path hpar
    have hc' : Chain (if x.isDir then x.path :: popStk stk x.dirPart else popStk stk x.dirPart) := by
      cases x.isDir with
      | true => exact ⟨hk.ne, hpar.symm, hcp⟩
      | false => exact hcp
    -- the entry is written
    have hwrite : ∀ (pol' : Overwrite) (ls' : List Bytes),
        ∀ p ∈ seenW ++ (x :: (plan ex pol' ls' es).1).map Entry.path, ∀ q, q ≠ [] → q <+: p →
          q ∈ seenW ++ (x :: (plan ex pol' ls' es).1).map Entry.path := by
      intro pol' ls'
      have := ih _ (seen ++ [x.path]) (seenW ++ [x.path]) pol' ls' hwf' hc' ?_ ?_
      · simpa [List.append_assoc] using this
      · intro t ht
        cases hd : x.isDir with
        | true =>
          rw [hd] at ht
          rcases List.mem_cons.1 ht with rfl | ht
          · simp
          · exact List.mem_append_left _ (hsub t (mem_popStk ht))
        | false =>
          rw [hd] at ht
          exact List.mem_append_left _ (hsub t (mem_popStk (by simpa using ht)))
      · intro p hp q hq hqp
        rcases List.mem_append.1 hp with hp | hp
        · exact List.mem_append_left _ (hcl p hp q hq hqp)
        · have : p = x.path := by simpa using hp
          subst this
          by_cases hqe : q = x.path
          · rw [hqe]; simp
          · exact List.mem_append_left _ (hsub q (mem_popStk (hanc q hq hqp hqe)))
    cases hask : asks ex x with
    | false => rw [plan_cons_free ex pol ls x es hask]; exact hwrite pol ls
    | true =>
      have hnd : x.isDir = false := by cases x <;> simp [asks, Entry.isDir] at hask ⊢
      cases ha : askOne pol ls with
      | none => rw [plan_cons_eof ex pol ls x es hask ha]; simpa using hcl
      | some r =>
        obtain ⟨w, pol', ls'⟩ := r
        rw [plan_cons_asked ex pol ls x es hask w pol' ls' ha]
        cases w with
        | true => simpa using hwrite pol' ls'
        | false =>
          rw [hnd] at hwf' hc'
          have := ih _ (seen ++ [x.path]) seenW pol' ls' hwf' hc'
            (fun t ht => hsub t (mem_popStk (by simpa using ht))) hcl
          simpa using this

end LhasaV.ExtractTree

namespace LhasaV.ArchiveOf
open LhasaV LhasaV.Header LhasaV.Extract LhasaV.GlobFs LhasaV.Contain LhasaV.ExtractTree
open LhasaV.ExtractTree.Sample

/-- `extract_archiveOf_mixed` (ExtractTreeImp7; `C06.extract_mixed`) from the unified theorem -/
theorem extract_archiveOf_mixed_of_unified (es : List Entry) (hwf : WFI [] [] es) (henc : Encodable es)
    (o : Opts) (fs : Fs.St) (answers : Bytes) (ho : OptsOk o) (hfs : EmptyDir fs) (ha : Access fs) :
    (run (archiveOf es) o fs answers).result = true ∧
    (∀ p, p ≠ [] → Fs.lookup (run (archiveOf es) o fs answers).fs (fs.cwd ++ p) =
      impTreeOf fs.now fs.umask (keptOf [] es) p) ∧
    (∃ m t0 t, Fs.lookup fs fs.cwd = some (.dir m t0) ∧
      Fs.lookup (run (archiveOf es) o fs answers).fs fs.cwd = some (.dir m t) ∧
      (es ≠ [] → fs.cwd ≠ [] → t = fs.now)) ∧
    (∀ x, ¬ fs.cwd <+: x → Fs.lookup (run (archiveOf es) o fs answers).fs x = Fs.lookup fs x) := by
  have hsel := selected_nofilter o ho.nf
  have hfil : es.filter (selected o.filters) = es := by rw [hsel]; simp
  obtain ⟨h1, h2, ⟨m, t0, t, hl0, hl, ht⟩, h4⟩ := extract_archiveOf_unclosed es o fs answers
    (by rw [hsel]; exact (WFU_all es [] []).2 hwf) henc ho.xp ho.up hfs ha
  rw [hfil] at h2 ht
  exact ⟨h1, h2, ⟨m, t0, t, hl0, hl, fun hne => ht (keptOf_ne_nil es hne)⟩, h4⟩

/-- `extract_archiveOf_implicit` (`C06.extract_implicit_parents`) from the unified theorem -/
theorem extract_archiveOf_implicit_of_unified (es : List Entry) (hes : ImplicitOk es) (henc : Encodable es)
    (o : Opts) (fs : Fs.St) (answers : Bytes) (ho : OptsOk o) (hfs : EmptyDir fs) (ha : Access fs) :
    (run (archiveOf es) o fs answers).result = true ∧
    (∀ p, p ≠ [] → Fs.lookup (run (archiveOf es) o fs answers).fs (fs.cwd ++ p) =
      impTreeOf fs.now fs.umask es p) ∧
    (∃ m t0 t, Fs.lookup fs fs.cwd = some (.dir m t0) ∧
      Fs.lookup (run (archiveOf es) o fs answers).fs fs.cwd = some (.dir m t) ∧
      (es ≠ [] → fs.cwd ≠ [] → t = fs.now)) ∧
    (∀ x, ¬ fs.cwd <+: x → Fs.lookup (run (archiveOf es) o fs answers).fs x = Fs.lookup fs x) := by
  have := extract_archiveOf_mixed_of_unified es (wfi_of_implicit hes) henc o fs answers ho hfs ha
  rwa [keptOf_nodir es [] hes.nodir] at this

/-- `extract_archiveOf` (ArchiveOf; `C06.extract_reproduces_tree`) from the unified theorem -/
theorem extract_archiveOf_of_unified (es : List Entry) (hwf : WellFormed es) (henc : Encodable es)
    (o : Opts) (fs : Fs.St) (answers : Bytes) (ho : OptsOk o) (hfs : EmptyDir fs) (ha : Access fs) :
    (run (archiveOf es) o fs answers).result = true ∧
    (∀ p, p ≠ [] → Fs.lookup (run (archiveOf es) o fs answers).fs (fs.cwd ++ p) =
      treeOf fs.now fs.umask es p) ∧
    (es ≠ [] → fs.cwd ≠ [] →
      ∃ m, Fs.lookup (run (archiveOf es) o fs answers).fs fs.cwd = some (.dir m fs.now)) ∧
    (∀ x, ¬ fs.cwd <+: x → Fs.lookup (run (archiveOf es) o fs answers).fs x = Fs.lookup fs x) := by
  obtain ⟨w1, w2, w3⟩ := wfi_of_wf hwf
  obtain ⟨h1, h2, ⟨m, t0, t, _, hl, ht⟩, h4⟩ :=
    extract_archiveOf_mixed_of_unified es w1 henc o fs answers ho hfs ha
  rw [w2] at h2
  exact ⟨h1, fun p hp => (h2 p hp).trans (w3 _ _ p hp), fun hne hc => ⟨m, by rw [hl, ht hne hc]⟩, h4⟩

/-- `extract_archiveOf_reloc` (ExtractTreeOpt13; `C06.extract_relocated`) from the unified theorem -/
theorem extract_archiveOf_reloc_of_unified (es : List Entry) (o : Opts) (fs : Fs.St) (answers : Bytes)
    (ds : List Bytes) (k : Nat) (hwf : WellFormed es) (henc : Encodable es)
    (hne : ds ≠ []) (hx : o.extractPath = some (joinPath ds)) (hu : o.usePath = true) (hnf : o.filters = [])
    (hb : BaseOk fs ds k) (ha : AccessW fs) (hdepth : ∀ e ∈ es, ds.length + e.path.length < 64) :
    (run (archiveOf es) o fs answers).result = true ∧
    (∀ p, p ≠ [] → Fs.lookup (run (archiveOf es) o fs answers).fs (fs.cwd ++ ds ++ p) =
      treeOf fs.now fs.umask es p) ∧
    (es ≠ [] → ∃ m t0, Fs.lookup (mkBase fs ds) (fs.cwd ++ ds) = some (.dir m t0) ∧
      Fs.lookup (run (archiveOf es) o fs answers).fs (fs.cwd ++ ds) = some (.dir m fs.now)) ∧
    (es ≠ [] → ∀ x, ¬ (fs.cwd ++ ds) <+: x →
      Fs.lookup (run (archiveOf es) o fs answers).fs x = Fs.lookup (mkBase fs ds) x) ∧
    MadeFrom fs (mkBase fs ds) (ds.take k) (ds.drop k) := by
  have hsel := selected_nofilter o hnf
  have hfil : es.filter (selected o.filters) = es := by rw [hsel]; simp
  obtain ⟨w1, w2⟩ := wfu_of_wf (selected o.filters) es hwf
  obtain ⟨_, _, w3⟩ := wfi_of_wf hwf
  obtain ⟨h1, h2, h3, h4, _, h6⟩ := extract_archiveOf_reloc_unclosed es o fs answers ds k w1 henc
    (optsRel_some o ds hne hx hu hb.names) hb ha hdepth
  rw [w2, hfil] at h2 h3 h4
  refine ⟨h1, fun p hp => (h2 p hp).trans (w3 _ _ p hp), ?_, h4, h6⟩
  intro hes
  obtain ⟨m, t0, t, hl0, hl, ht⟩ := h3 hes
  exact ⟨m, t0, hl0, by rw [hl, ht (by simp [hne])]⟩

/-- `extract_archiveOf_ow` (ExtractTreeOw8; `C06.overwrite_policy`) from the unified theorem -/
theorem extract_archiveOf_ow_of_unified (es : List Entry) (hwf : WellFormed es) (henc : Encodable es)
    (o : Opts) (fs : Fs.St) (answers : Bytes) (ho : OptsOk o) (hfs : PreDir fs es)
    (ha : Access fs) (hans : o.overwrite = .prompt → OwAnswers answers) :
    OwOutcome (run (archiveOf es) o fs answers) fs (owPlan fs o answers es) := by
  have hsel := selected_nofilter o ho.nf
  have hfil : es.filter (selected o.filters) = es := by rw [hsel]; simp
  obtain ⟨w1, w2⟩ := wfu_of_wf (selected o.filters) es hwf
  have hok := wf_entries es [] [] hwf
  obtain ⟨h, _⟩ := extract_archiveOf_unified es o fs answers [] 0 w1 henc (optsRel_none o ho.xp ho.up)
    (baseU_of_preDir hfs) (accessW_of_access ha) (fun e he _ => preAtU_of_preDir hfs hwf e he)
    (fun e he => by simpa using (hok e he).depth) (fun _ => hans)
  have hpl : uniPlan fs [] o answers es = owPlan fs o answers es := by
    unfold uniPlan owPlan; rw [w2, hfil, exB_nil]
  rw [hpl] at h
  obtain ⟨h1, h2, h3, h4, h5, h6⟩ := h
  simp only [List.append_nil, mkBase_nil] at h3 h4 h5
  have hcl := plan_closed (exAt fs) es [] [] [] o.overwrite (lines answers) hwf trivial
    (fun _ h => (by cases h)) (fun _ h => (by cases h))
  simp only [List.nil_append] at hcl
  refine ⟨h1, h2, ?_, ?_, ?_⟩
  · intro p hp
    rw [h3 p hp, oldB_nil]
    apply uniTree_eq_owTree
    apply impTreeOf_eq_treeOf_of_closed _ _ _ _ p hp
    intro e he q hq hqe
    exact hcl e.path (List.mem_map.2 ⟨e, he, rfl⟩) q hq hqe
  · by_cases hne : (owPlan fs o answers es).1 = []
    · obtain ⟨m, t, hl, _⟩ := hfs.dir
      exact ⟨m, t, t, hl, by rw [h6 hne]; exact hl, fun h => absurd hne h, fun _ => rfl⟩
    · obtain ⟨m, t0, t, hl0, hl, ht⟩ := h4 hne
      exact ⟨m, t0, t, hl0, hl, fun _ hc => ht hc, fun h => absurd h hne⟩
  · intro x hx
    by_cases hne : (owPlan fs o answers es).1 = []
    · rw [h6 hne]
    · exact h5 hne x hx

end LhasaV.ArchiveOf
