import LhasaV.Lemmas.ArchiveOf9
/-!
# C06, archives as bytes: extracting the archive that encodes a tree reproduces the tree

`ExtractTree.run_tree` has the hypothesis `Denotes …`: "along the run the reader presents headers
denoting exactly `es`, and every presented file decodes to its data with a good verdict".  Here it
becomes a theorem about bytes, for the archive builder `archiveWith pk` (ArchiveOf2: level-2 or
level-1 headers written by the header specification's encoder `Spec.HeaderEnc.encode`, each file
stored as the packer `pk` says) and in particular for `archiveOf = archiveWith stored` of
ExtractTree15 (level 2, stored `-lh0-` members):

* `archiveWith_denotes` / `archiveOf_denotes`: for EVERY well-formed, encodable entry list the
  archive denotes the list;
* `fuel_archiveWith` / `fuel_archiveOf`: the fuel of `Extract.run` suffices (derived);
* `extract_archiveWith` / `extract_archiveOf`: the closed end-to-end statement — no hypothesis
  about the reader is left.

Ingredients: the signature scan finds the first header at offset 0 (C16 `scan_finds_first`), the
header round trip (C05 `header_roundtrip`) with the normalisation stage evaluated on the member's
fields (ArchiveOf3), the basic reader skips exactly a member's data whatever a decoder consumed
(C15 `ConsEq`, `eff_consEq`, `extract_file_step`, honest decoders), members decode to their data
(the decoder round trips: C03 `null_round_trip`, `lzs_round_trip`, `lz5_round_trip`; any other
via `packOk_of_roundtrip`) and the verdict is length ∧ CRC (C07 `decodeResult_plain`), the end
of the data ends the archive (`nextTail_past_end`, `basicNext_doomed`).
-/
set_option linter.unusedSimpArgs false
namespace LhasaV.ArchiveOf
open LhasaV LhasaV.Header LhasaV.Extract LhasaV.GlobFs LhasaV.Contain LhasaV.ExtractTree
open LhasaV.ExtractTree.Sample LhasaV.Spec.HeaderEnc LhasaV.Reader LhasaV.ReaderIndep

/-! ## any packer -/

/-- **`archiveWith pk es` denotes `es`** — for every well-formed entry list that fits the header
format and whose file data the packer handles, whatever the options, the file system and the
answers at the prompt are: along the run of `lha x` the reader presents headers denoting exactly
`es`, in order, then the end; and every file member decodes to its data with a good length/CRC
verdict. -/
theorem archiveWith_denotes (pk : Packer) (es : List Entry) (hwf : WellFormed es) (henc : Encodable es)
    (hpk : Packs pk es) (o : Opts) (fs : Fs.St) (answers : Bytes) :
    Denotes (runFuel (archiveWith pk es)) (runInit (archiveWith pk es) o fs answers) es :=
  denotes_of_rstate pk (archiveWith pk es) _ _ es (allOk_of hwf henc hpk) (good_runInit _ o fs answers)
    (rstate_runInit pk es o fs answers)

theorem length_le_flat (pk : Packer) (es : List Entry) : es.length ≤ (flat pk es).length := by
  induction es with
  | nil => exact Nat.le_refl _
  | cons e es ih =>
    obtain ⟨a, b, tl, hs, hl⟩ := encode_shape pk e
    rw [flat_cons, hs]
    simp only [List.length_cons, List.length_append]
    omega

/-- the loop's fuel (`2 · size + 16`) covers two presentations per entry and the end -/
theorem fuel_archiveWith (pk : Packer) (es : List Entry) : 2 * es.length + 1 ≤ runFuel (archiveWith pk es) := by
  have h := length_le_flat pk es
  have : (flat pk es).length = (archiveWith pk es).size := Array.length_toList
  unfold runFuel
  omega

/-- **Extraction reproduces every encodable tree, end to end, for every sound packer.** -/
theorem extract_archiveWith (pk : Packer) (es : List Entry) (hwf : WellFormed es) (henc : Encodable es)
    (hpk : Packs pk es) (o : Opts) (fs : Fs.St) (answers : Bytes) (ho : OptsOk o) (hfs : EmptyDir fs)
    (ha : Access fs) :
    (run (archiveWith pk es) o fs answers).result = true ∧
    (∀ p, p ≠ [] → Fs.lookup (run (archiveWith pk es) o fs answers).fs (fs.cwd ++ p) =
      treeOf fs.now fs.umask es p) ∧
    (es ≠ [] → fs.cwd ≠ [] →
      ∃ m, Fs.lookup (run (archiveWith pk es) o fs answers).fs fs.cwd = some (.dir m fs.now)) ∧
    (∀ x, ¬ fs.cwd <+: x → Fs.lookup (run (archiveWith pk es) o fs answers).fs x = Fs.lookup fs x) :=
  run_tree (archiveWith pk es) o fs answers es ho hfs ha hwf (fuel_archiveWith pk es)
    (archiveWith_denotes pk es hwf henc hpk o fs answers)

/-! ## stored members: `archiveOf` of ExtractTree15 -/

/-- **`archiveOf es` denotes `es`** — for every well-formed entry list that fits the header
format (`Encodable`, decidable), whatever the options, the file system and the answers are. -/
theorem archiveOf_denotes (es : List Entry) (hwf : WellFormed es) (henc : Encodable es)
    (o : Opts) (fs : Fs.St) (answers : Bytes) :
    Denotes (runFuel (archiveOf es)) (runInit (archiveOf es) o fs answers) es := by
  rw [archiveOf_eq]
  exact archiveWith_denotes stored es hwf henc (packs_stored henc) o fs answers

theorem fuel_archiveOf (es : List Entry) : 2 * es.length + 1 ≤ runFuel (archiveOf es) := by
  rw [archiveOf_eq]; exact fuel_archiveWith stored es

/-- **Extraction reproduces every encodable tree, end to end.**  For EVERY well-formed entry
list `es` (directory-first with explicit parents, unique clean names, safe links) that fits the
level-2 header format (`Encodable`: plain name bytes, 32-bit sizes and times, 16-bit permissions,
link targets without '/'), `lha x` on the BYTES `archiveOf es` — no `w=`/`i`/wildcards, into an
empty directory, as root or with a umask that keeps the owner bits — succeeds, leaves below the
extraction directory exactly the tree of `es` (contents, modes, times, link targets; directories
with their recorded metadata), stamps the extraction directory, and changes nothing outside. -/
theorem extract_archiveOf (es : List Entry) (hwf : WellFormed es) (henc : Encodable es)
    (o : Opts) (fs : Fs.St) (answers : Bytes) (ho : OptsOk o) (hfs : EmptyDir fs) (ha : Access fs) :
    (run (archiveOf es) o fs answers).result = true ∧
    (∀ p, p ≠ [] → Fs.lookup (run (archiveOf es) o fs answers).fs (fs.cwd ++ p) =
      treeOf fs.now fs.umask es p) ∧
    (es ≠ [] → fs.cwd ≠ [] →
      ∃ m, Fs.lookup (run (archiveOf es) o fs answers).fs fs.cwd = some (.dir m fs.now)) ∧
    (∀ x, ¬ fs.cwd <+: x → Fs.lookup (run (archiveOf es) o fs answers).fs x = Fs.lookup fs x) :=
  run_tree (archiveOf es) o fs answers es ho hfs ha hwf (fuel_archiveOf es)
    (archiveOf_denotes es hwf henc o fs answers)

/-- every directory entry with recorded permissions and time ends with exactly those -/
theorem extract_archiveOf_dir (es : List Entry) (hwf : WellFormed es) (henc : Encodable es)
    (o : Opts) (fs : Fs.St) (answers : Bytes) (ho : OptsOk o) (hfs : EmptyDir fs) (ha : Access fs)
    (path : Fs.Path) (perms mtime : Nat) (hD : Entry.dir path (some perms) mtime ∈ es) (hm : mtime ≠ 0) :
    Fs.lookup (run (archiveOf es) o fs answers).fs (fs.cwd ++ path) = some (.dir (perms % 4096) mtime) := by
  rw [run_eq]
  exact dir_meta_final _ _ es (start_run _ o fs answers ho) hfs ha hwf (fuel_archiveOf es)
    (archiveOf_denotes es hwf henc o fs answers) path perms mtime hD hm

/-- every file entry ends with its contents, recorded permission bits and time -/
theorem extract_archiveOf_file (es : List Entry) (hwf : WellFormed es) (henc : Encodable es)
    (o : Opts) (fs : Fs.St) (answers : Bytes) (ho : OptsOk o) (hfs : EmptyDir fs) (ha : Access fs)
    (path : Fs.Path) (data : Bytes) (perms mtime : Nat)
    (hD : Entry.file path data (some perms) mtime ∈ es) (hm : mtime ≠ 0) :
    Fs.lookup (run (archiveOf es) o fs answers).fs (fs.cwd ++ path) =
      some (.file data (perms % 4096) mtime) := by
  rw [run_eq]
  exact file_final _ _ es (start_run _ o fs answers ho) hfs ha hwf (fuel_archiveOf es)
    (archiveOf_denotes es hwf henc o fs answers) path data perms mtime hD hm

/-! ## non-vacuity -/

/-- `sampleTree` (ExtractTree14): `a/` 0555, `a/x`, `a/b/` 0555, `a/b/y`, `a/b/l → y`, `z` — two
directories (both read-only), a link, three files — is well-formed and encodable -/
theorem sampleTree_wf : WellFormed sampleTree := by decide
theorem sampleTree_enc : Encodable sampleTree := by decide

/-- not everything is encodable: a name with the stored separator 0xFF, a link target with '/',
a directory whose recorded mode says "symbolic link" -/
example : ¬ Encodable [.dir [[0x61, 0xff]] none 0] := by decide
example : ¬ Encodable [.link [[0x6c]] [0x61, 0x2f, 0x62]] := by decide
example : ¬ Encodable [.dir [[0x61]] (some 0o120777) 0] := by decide

/-- what the theorems promise for `sampleTree` in `sampleFs` (an ordinary user, umask 022) -/
def SampleOutcome (s : Extract.St) : Prop :=
  s.result = true ∧
  Fs.lookup s.fs [[0x72], [0x61]] = some (.dir 0o555 111) ∧
  Fs.lookup s.fs [[0x72], [0x61], [0x62]] = some (.dir 0o555 222) ∧
  Fs.lookup s.fs [[0x72], [0x61], [0x78]] = some (.file [0x68, 0x69] 0o644 333) ∧
  Fs.lookup s.fs [[0x72], [0x61], [0x62], [0x79]] = some (.file [0x79, 0x79] 0o600 444) ∧
  Fs.lookup s.fs [[0x72], [0x61], [0x62], [0x6c]] = some (.link [0x79]) ∧
  Fs.lookup s.fs [[0x72], [0x7a]] = some (.file [0x7a] 0o600 sampleFs.now) ∧
  Fs.lookup s.fs [[0x72], [0x61], [0x71]] = none

theorem sampleOutcome_of (s : Extract.St) (h1 : s.result = true)
    (h : ∀ p, p ≠ [] → Fs.lookup s.fs (sampleFs.cwd ++ p) = treeOf sampleFs.now sampleFs.umask sampleTree p) :
    SampleOutcome s := by
  have hc : ∀ p : Fs.Path, sampleFs.cwd ++ p = [0x72] :: p := fun _ => rfl
  refine ⟨h1, ?_, ?_, ?_, ?_, ?_, ?_, ?_⟩
  all_goals (rw [← hc, h _ (by decide)]; decide)

/-- **`lha x` on the bytes of `archiveOf sampleTree`, as an ordinary user**: every hypothesis of
`extract_archiveOf` is discharged; the run succeeds and the read-only directories `a`, `a/b`
carry their recorded mode and time although files and a link were written into them, the files
their contents, modes and times, the link its target -/
theorem sampleTree_extracts : SampleOutcome (run (archiveOf sampleTree) {} sampleFs []) := by
  obtain ⟨h1, h, _⟩ := extract_archiveOf sampleTree sampleTree_wf sampleTree_enc {} sampleFs []
    ⟨rfl, rfl, rfl⟩ sampleFs_empty (access_user_022 sampleFs rfl)
  exact sampleOutcome_of _ h1 h

/-- the same tree with its files compressed as `-lzs-` members (different archive bytes), under
level-2 and under level-1 headers -/
theorem sampleTree_extracts_lzs (l1 : Bool) :
    SampleOutcome (run (archiveWith (lzsLit l1) sampleTree) {} sampleFs []) := by
  have hpk : Packs (lzsLit l1) sampleTree := by
    intro e he
    simp only [sampleTree, List.mem_cons, List.not_mem_nil, or_false] at he
    rcases he with rfl | rfl | rfl | rfl | rfl | rfl
    all_goals first | trivial | exact packOk_lzsLit l1 _ (by decide +kernel)
  obtain ⟨h1, h, _⟩ := extract_archiveWith (lzsLit l1) sampleTree sampleTree_wf sampleTree_enc hpk {} sampleFs []
    ⟨rfl, rfl, rfl⟩ sampleFs_empty (access_user_022 sampleFs rfl)
  exact sampleOutcome_of _ h1 h

/-- … and stored under level-1 headers -/
theorem sampleTree_extracts_l1 : SampleOutcome (run (archiveWith storedL1 sampleTree) {} sampleFs []) := by
  have hpk : Packs storedL1 sampleTree := by
    intro e he
    simp only [sampleTree, List.mem_cons, List.not_mem_nil, or_false] at he
    rcases he with rfl | rfl | rfl | rfl | rfl | rfl
    all_goals first | trivial | exact packOk_storedL1 _ (by decide)
  obtain ⟨h1, h, _⟩ := extract_archiveWith storedL1 sampleTree sampleTree_wf sampleTree_enc hpk {} sampleFs []
    ⟨rfl, rfl, rfl⟩ sampleFs_empty (access_user_022 sampleFs rfl)
  exact sampleOutcome_of _ h1 h

end LhasaV.ArchiveOf
