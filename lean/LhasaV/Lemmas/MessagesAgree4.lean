import LhasaV.Lemmas.MessagesAgree3
/-!
Agreement of the two extraction models, part 4: a run of the message model that left through
`exit(-1)` has `result = false` (every aborting path of `extract_archived_file` /
`extract_archive_dry_run` reports failure first), so "exit status 0" is the `result` flag.
-/
namespace LhasaV.MessagesAgree
open LhasaV LhasaV.Header LhasaV.Extract LhasaV.Messages

theorem testEntry_abort (o : Opts) (rd : Reader.St) (h : Hdr) : (testEntry o rd h).1.abort = false := by
  unfold testEntry
  dsimp only
  repeat' split
  all_goals rfl

theorem dryRunEntry_abort (o : Opts) (fs : Fs.St) (h : Hdr) :
    (dryRunEntry o fs h).abort = true → (dryRunEntry o fs h).ok = false := by
  unfold dryRunEntry
  dsimp only
  repeat' split
  all_goals first
    | (intro _; rfl)
    | (intro h; cases h)

theorem extractBody_abort (s : XSt) (h : Hdr) (err : Bytes) : (extractBody s h err).1.abort = false := by
  unfold extractBody
  dsimp only
  repeat' split
  all_goals rfl

theorem extractEntry_abort (s : XSt) (h : Hdr) :
    (extractEntry s h).1.abort = true → (extractEntry s h).1.ok = false := by
  unfold extractEntry
  dsimp only
  repeat' split
  all_goals first
    | (intro _; rfl)
    | (rw [extractBody_abort]; intro h; cases h)
    | (intro h; cases h)

theorem step_abort (cmd : Cmd) (s : Messages.St) (h : Hdr) :
    (step cmd s h).aborted = true → (step cmd s h).result = false := by
  unfold step
  split
  · simp only [record]; rw [testEntry_abort]; intro h; cases h
  · split
    · simp only [record]; intro h; rw [dryRunEntry_abort _ _ _ h]; simp
    · simp only [record]; intro h; rw [extractEntry_abort _ _ h]; simp

theorem loop_abort (cmd : Cmd) : ∀ (fuel : Nat) (s : Messages.St), (s.aborted = true → s.result = false) →
    (loop cmd fuel s).aborted = true → (loop cmd fuel s).result = false := by
  intro fuel
  induction fuel with
  | zero => intro s h; exact h
  | succ n ih =>
    intro s h
    unfold loop
    split
    · exact h
    · split
      · exact h
      · exact h
      · split
        · exact ih _ h
        · exact ih _ (step_abort cmd _ _)

/-- a run that left through `exit(-1)` reported failure -/
theorem aborted_result (cmd : Cmd) (archive : Array UInt8) (o : Opts) (fs : Fs.St) (answers : Bytes) :
    (Messages.run cmd archive o fs answers).aborted = true → (Messages.run cmd archive o fs answers).result = false :=
  loop_abort cmd _ _ (fun h => by cases h)

/-- "exit status is 0" is the `result` flag (the `fault` flag is never set, an aborted run has
`result = false`) -/
theorem runExtract_status_eq (archive : Array UInt8) (o : Opts) (fs : Fs.St) (answers : Bytes) :
    (Messages.runExtract archive o fs answers).2.1 = (Messages.run .extract archive o fs answers).result := by
  have hf := ToolNoFault.fault_flag_never_set .extract archive o fs answers
  have ha := aborted_result .extract archive o fs answers
  simp only [runExtract, exitStatus, hf]
  cases hab : (Messages.run .extract archive o fs answers).aborted
  · cases (Messages.run .extract archive o fs answers).result <;> simp
  · rw [ha hab]; simp

end LhasaV.MessagesAgree
