import LhasaV.Lemmas.MacStream
import LhasaV.Model.Reader
import LhasaV.Lemmas.MacHeader
/-!
The MacBinary pass-through decoder (`macbinary.c`) in stream terms, for EVERY inner step `rd`:
what `macReadHeader`, `macInit`, `decodeToEnd`, `macRead` do to the byte stream of the wrapped
decoder, what the pass-through hands out, and where it leaves the wrapped decoder.
-/
namespace LhasaV.MacProps
open LhasaV LhasaV.Wrap LhasaV.Reader LhasaV.Header

variable {σ : Type} (rd : σ → List Byte × σ)

/-! ### the wrapped decoder against the complete stream `full` -/

/-- `w` is somewhere along the stream `full`: what it has handed out so far (`done`) followed by
what it can still hand out is `full`; position and CRC are those of `done` -/
def Cons (full : List Byte) (w : St σ) : Prop :=
  ∃ done, done ++ tail rd w = full ∧ w.pos = done.length ∧ w.crc = Crc.buf 0 done

theorem cons_read {full : List Byte} (k : Nat) {w : St σ} (h : Cons rd full w) :
    Cons rd full (read rd k w).2 := by
  obtain ⟨done, h1, h2, h3⟩ := h
  refine ⟨done ++ (read rd k w).1.1, ?_, ?_, ?_⟩
  · rw [tail_read, read_out_tail, List.append_assoc, List.take_append_drop, h1]
  · rw [read_pos, h2, List.length_append]
  · rw [read_crc, h3, crc_buf_append]

theorem cons_start {full : List Byte} {w : St σ} (ht : tail rd w = full) (hp : w.pos = 0)
    (hc : w.crc = 0) : Cons rd full w :=
  ⟨[], by simpa using ht, by simpa using hp, by simpa [Crc.buf] using hc⟩

/-- an exhausted wrapped decoder has counted and summed exactly `full` -/
theorem cons_done {full : List Byte} {w : St σ} (h : Cons rd full w) (ht : tail rd w = []) :
    w.pos = full.length ∧ w.crc = Crc.buf 0 full := by
  obtain ⟨done, h1, h2, h3⟩ := h
  rw [ht, List.append_nil] at h1
  subst h1
  exact ⟨h2, h3⟩

theorem cons_pos_le {full : List Byte} {w : St σ} (h : Cons rd full w) : w.pos ≤ full.length := by
  obtain ⟨done, h1, h2, _⟩ := h
  rw [← h1, List.length_append]; omega

/-! ### `decode_to_end` -/

theorem decodeToEnd_inv (P : St σ → Prop) (hP : ∀ k w, P w → P (read rd k w).2) (fuel : Nat)
    (w : St σ) (h : P w) : P (decodeToEnd rd fuel w) := by
  induction fuel generalizing w with
  | zero => exact h
  | succ n ih =>
    unfold decodeToEnd
    dsimp only
    split
    · exact hP _ _ h
    · exact ih _ (hP _ _ h)

theorem decodeToEnd_tail (fuel : Nat) (w : St σ) (hf : (tail rd w).length < fuel) :
    tail rd (decodeToEnd rd fuel w) = [] := by
  induction fuel generalizing w with
  | zero => omega
  | succ n ih =>
    unfold decodeToEnd
    dsimp only
    have ht := tail_read rd 128 w
    split
    · rename_i he
      have he' : (read rd 128 w).1.1 = [] := by simpa using he
      rcases (read_empty_iff rd 128 w).1 he' with h | h
      · omega
      · rw [ht, h]; rfl
    · rename_i he
      have he' : (read rd 128 w).1.1 ≠ [] := by simpa using he
      have hne : tail rd w ≠ [] := fun h => he' ((read_empty_iff rd 128 w).2 (Or.inr h))
      have hpos : 0 < (tail rd w).length := List.length_pos_iff.mpr hne
      exact ih _ (by rw [ht, List.length_drop]; omega)

theorem decodeToEnd_frame (fuel : Nat) (w : St σ) :
    (decodeToEnd rd fuel w).length = w.length ∧ w.pos ≤ (decodeToEnd rd fuel w).pos :=
  decodeToEnd_inv rd (fun w' => w'.length = w.length ∧ w.pos ≤ w'.pos)
    (fun k w' h => ⟨by rw [read_length]; exact h.1, by rw [read_pos]; omega⟩) fuel w
    ⟨rfl, Nat.le_refl _⟩

theorem decodeToEnd_cons {full : List Byte} (fuel : Nat) {w : St σ} (h : Cons rd full w) :
    Cons rd full (decodeToEnd rd fuel w) :=
  decodeToEnd_inv rd (Cons rd full) (fun k _ h => cons_read rd k h) fuel w h

/-! ### `macbinary_decoder_read` -/

/-- a pure list fact: `take r` splits at any `a ≤ r` -/
theorem take_split {α : Type} (t : List α) (a r : Nat) (h : a ≤ r) :
    t.take r = t.take a ++ (t.drop a).take (r - (t.take a).length) := by
  by_cases ha : a ≤ t.length
  · have e : (t.take a).length = a := by rw [List.length_take]; omega
    rw [e]
    obtain ⟨j, rfl⟩ := Nat.exists_eq_add_of_le h
    rw [List.take_add]; congr 2; omega
  · have e1 : t.take a = t := List.take_of_length_le (by omega)
    have e2 : t.drop a = [] := by rw [List.drop_eq_nil_iff]; omega
    rw [e1, e2, List.take_of_length_le (by omega)]; simp

/-- the request `macbinary_decoder_read` sends to the wrapped decoder -/
def toRead (m : Mac σ) : Nat := min (4096 - m.pending.length) m.remaining

/-- the bytes the wrapped decoder hands to one `macbinary_decoder_read` -/
def got (m : Mac σ) : List Byte := (tail rd m.inner).take (toRead m)

theorem macRead_out (m : Mac σ) : (macRead rd m).1 = m.pending ++ got rd m := by
  simp only [macRead, got, toRead, read_out_tail]

theorem macRead_pending (m : Mac σ) : (macRead rd m).2.pending = [] := rfl

theorem macRead_remaining (m : Mac σ) :
    (macRead rd m).2.remaining = m.remaining - (got rd m).length := by
  simp only [macRead, got, toRead, read_out_tail]

theorem macRead_inner (m : Mac σ) :
    (macRead rd m).2.inner =
      if m.remaining - (got rd m).length = 0 then
        decodeToEnd rd ((read rd (toRead m) m.inner).2.length - (read rd (toRead m) m.inner).2.pos + 2)
          (read rd (toRead m) m.inner).2
      else (read rd (toRead m) m.inner).2 := by
  have e : (got rd m).length = (read rd (toRead m) m.inner).1.1.length := by
    rw [read_out_tail]; rfl
  rw [e]
  rfl

theorem macRead_tail (m : Mac σ) :
    tail rd (macRead rd m).2.inner =
      if m.remaining - (got rd m).length = 0 then [] else (tail rd m.inner).drop (toRead m) := by
  rw [macRead_inner]
  split
  · apply decodeToEnd_tail
    have := tail_length_le rd (read rd (toRead m) m.inner).2
    omega
  · exact tail_read rd _ _

theorem macRead_length (m : Mac σ) : (macRead rd m).2.inner.length = m.inner.length := by
  rw [macRead_inner]
  split
  · rw [(decodeToEnd_frame rd _ _).1, read_length]
  · rw [read_length]

theorem macRead_pos (m : Mac σ) :
    m.inner.pos + (got rd m).length ≤ (macRead rd m).2.inner.pos := by
  have hp : (read rd (toRead m) m.inner).2.pos = m.inner.pos + (got rd m).length := by
    rw [read_pos, read_out_tail]; rfl
  rw [macRead_inner]
  split
  · have := (decodeToEnd_frame rd
      ((read rd (toRead m) m.inner).2.length - (read rd (toRead m) m.inner).2.pos + 2)
      (read rd (toRead m) m.inner).2).2
    omega
  · omega

theorem macRead_cons {full : List Byte} {m : Mac σ} (h : Cons rd full m.inner) :
    Cons rd full (macRead rd m).2.inner := by
  rw [macRead_inner]
  split
  · exact decodeToEnd_cons rd _ (cons_read rd _ h)
  · exact cons_read rd _ h

/-- everything the pass-through can still hand out (not yet clamped by its own wrapper) -/
def out (m : Mac σ) : List Byte := m.pending ++ (tail rd m.inner).take m.remaining

/-- one `macbinary_decoder_read` hands out a prefix of `out` and leaves the rest -/
theorem out_macRead (m : Mac σ) : out rd m = (macRead rd m).1 ++ out rd (macRead rd m).2 := by
  unfold out
  rw [macRead_out, macRead_pending, macRead_remaining, macRead_tail, List.nil_append,
    List.append_assoc]
  congr 1
  have hsplit := take_split (tail rd m.inner) (toRead m) m.remaining (Nat.min_le_right _ _)
  rw [hsplit]
  unfold got
  congr 1
  split
  · rename_i h0; rw [h0]; rfl
  · rfl

theorem macRead_nil_iff (m : Mac σ) : (macRead rd m).1 = [] ↔ out rd m = [] := by
  rw [macRead_out]
  unfold out got toRead
  simp only [List.append_eq_nil_iff, List.take_eq_nil_iff]
  constructor
  · rintro ⟨hp, h⟩
    refine ⟨hp, ?_⟩
    rw [hp] at h
    rcases h with h | h
    · left; simp at h; omega
    · right; exact h
  · rintro ⟨hp, h⟩
    refine ⟨hp, ?_⟩
    rcases h with h | h
    · left; omega
    · right; exact h

/-- the output stream of `macbinary_decoder_read` as the outer wrapper sees it -/
theorem avail_macRead (n : Nat) (m : Mac σ) : avail (macRead rd) n m = (out rd m).take n := by
  fun_induction avail (macRead rd) n m with
  | case1 s => simp
  | case2 n s h1 h2 => rw [(macRead_nil_iff rd s).1 h2]; simp
  | case3 n s h1 h2 h3 =>
    rw [out_macRead, List.take_append_of_le_length h3]
  | case4 n s h1 h2 h3 ih =>
    rw [ih, out_macRead rd s, List.take_append]
    congr 1
    rw [List.take_of_length_le (by omega)]

/-- `out` is empty only when the wrapped decoder is exhausted or nothing more is wanted -/
theorem out_nil_iff (m : Mac σ) :
    out rd m = [] ↔ m.pending = [] ∧ (m.remaining = 0 ∨ tail rd m.inner = []) := by
  unfold out
  simp only [List.append_eq_nil_iff, List.take_eq_nil_iff]

/-! ### `read_macbinary_header` -/

theorem macReadHeader_inv (P : St σ → Prop) (hP : ∀ k w, P w → P (read rd k w).2) (fuel : Nat)
    (acc : List UInt8) (w : St σ) (h : P w) : P (macReadHeader rd fuel acc w).2 := by
  induction fuel generalizing acc w with
  | zero => exact h
  | succ n ih =>
    unfold macReadHeader
    dsimp only
    split
    · exact h
    · split
      · exact hP _ _ h
      · exact ih _ _ (hP _ _ h)

theorem macReadHeader_step (fuel : Nat) (acc : List UInt8) (w : St σ) (h : acc.length < 128) :
    macReadHeader rd (fuel + 1) acc w =
      if (read rd (128 - acc.length) w).1.1.isEmpty then (none, (read rd (128 - acc.length) w).2)
      else macReadHeader rd fuel (acc ++ (read rd (128 - acc.length) w).1.1)
            (read rd (128 - acc.length) w).2 := by
  rw [macReadHeader]
  rw [if_neg (by omega)]

theorem macReadHeader_full (fuel : Nat) (acc : List UInt8) (w : St σ) (h : 128 ≤ acc.length) :
    macReadHeader rd fuel acc w = (some acc, w) := by
  cases fuel with
  | zero => rw [macReadHeader, if_pos h]
  | succ n => rw [macReadHeader, if_pos h]

/-- starting from nothing, two rounds suffice: the header is the first 128 bytes of the tail -/
theorem macReadHeader_some (fuel : Nat) (w : St σ) (h : 128 ≤ (tail rd w).length) :
    (macReadHeader rd (fuel + 2) [] w).1 = some ((tail rd w).take 128) ∧
    (macReadHeader rd (fuel + 2) [] w).2 = (read rd 128 w).2 := by
  have ho := read_out_tail rd 128 w
  have hl : ((tail rd w).take 128).length = 128 := by rw [List.length_take]; omega
  have hne : ((read rd 128 w).1.1.isEmpty) = false := by
    rw [ho, List.isEmpty_eq_false_iff]
    intro h0; rw [h0] at hl; simp at hl
  rw [macReadHeader_step rd (fuel + 1) [] w (by simp)]
  simp only [List.length_nil, Nat.sub_zero, hne, Bool.false_eq_true, if_false, List.nil_append]
  rw [macReadHeader_full rd _ _ _ (by rw [ho, hl]; exact Nat.le_refl _), ho]
  exact ⟨rfl, rfl⟩

theorem macReadHeader_none (fuel : Nat) (w : St σ) (h : (tail rd w).length < 128) :
    (macReadHeader rd (fuel + 2) [] w).1 = none := by
  have ho := read_out_tail rd 128 w
  have hT : (tail rd w).take 128 = tail rd w := List.take_of_length_le (by omega)
  rw [hT] at ho
  rw [macReadHeader_step rd (fuel + 1) [] w (by simp)]
  simp only [List.length_nil, Nat.sub_zero, List.nil_append]
  split
  · rfl
  · rw [macReadHeader_step rd fuel _ _ (by rw [ho]; exact h)]
    have ht2 : tail rd (read rd 128 w).2 = [] := by
      rw [tail_read, List.drop_eq_nil_iff]; omega
    have he : (read rd (128 - (read rd 128 w).1.1.length) (read rd 128 w).2).1.1 = [] :=
      (read_empty_iff rd _ _).2 (Or.inr ht2)
    rw [he]
    rfl

/-! ### `macbinary_decoder_init` -/

/-- the number of bytes the pass-through hands on for a recognised envelope: the data fork, or the
resource fork if there is no data fork -/
def forkLen (hd : List UInt8) : Nat := if be32 hd 0x53 > 0 then be32 hd 0x53 else be32 hd 0x57

/-- member shorter than a MacBinary header: no envelope is looked for -/
theorem macInit_short (h : Hdr) (w : St σ) (hL : h.length < 128) :
    macInit rd h w = (some { pending := [], remaining := h.length, inner := w }, w) := by
  unfold macInit
  rw [if_neg (by omega)]

/-- the wrapped decoder yields fewer than 128 bytes: set-up fails -/
theorem macInit_fail (h : Hdr) (w : St σ) (hL : 128 ≤ h.length) (ht : (tail rd w).length < 128) :
    (macInit rd h w).1 = none := by
  unfold macInit
  rw [if_pos hL]
  dsimp only
  rw [macReadHeader_none rd 127 w ht]

/-- 128 bytes read and recognised as the envelope of this member -/
theorem macInit_mac (h : Hdr) (w : St σ) (hL : 128 ≤ h.length) (ht : 128 ≤ (tail rd w).length)
    (hm : isMacBinaryHeader ((tail rd w).take 128) h = true) :
    (macInit rd h w).1 = some { pending := [], remaining := forkLen ((tail rd w).take 128),
                                inner := (read rd 128 w).2 } := by
  obtain ⟨h1, h2⟩ := macReadHeader_some rd 127 w ht
  unfold macInit
  rw [if_pos hL]
  dsimp only
  rw [h1]
  dsimp only
  rw [hm, h2]
  rfl

/-- 128 bytes read and not recognised: they are kept and handed out first -/
theorem macInit_plain (h : Hdr) (w : St σ) (hL : 128 ≤ h.length) (ht : 128 ≤ (tail rd w).length)
    (hm : isMacBinaryHeader ((tail rd w).take 128) h = false) :
    (macInit rd h w).1 = some { pending := (tail rd w).take 128, remaining := h.length,
                                inner := (read rd 128 w).2 } := by
  obtain ⟨h1, h2⟩ := macReadHeader_some rd 127 w ht
  unfold macInit
  rw [if_pos hL]
  dsimp only
  rw [h1]
  dsimp only
  rw [hm, h2]
  rfl

/-! ### the outer wrapper around the pass-through -/

/-- invariant of the outer wrapper `o` (around the pass-through around the wrapped decoder):
`c` bytes already handed to the caller -/
structure Good (full : List Byte) (c : Nat) (o : St (Mac σ)) : Prop where
  count : c + o.pending.length + o.inner.pending.length ≤ o.inner.inner.pos
  failed : o.failed = true → tail rd o.inner.inner = []
  zero : o.inner.remaining = 0 → tail rd o.inner.inner = []
  cons : Cons rd full o.inner.inner
  len : o.inner.inner.length = o.length

theorem fill_good {full : List Byte} (n : Nat) (o : St (Mac σ)) (c : Nat)
    (h : Good rd full c o) :
    Good rd full (c + (fill (macRead rd) n o).1.length) (fill (macRead rd) n o).2 := by
  fun_induction fill (macRead rd) n o generalizing c with
  | case1 s => exact h
  | case2 need s h1 h2 =>
    obtain ⟨a, b, z, d, e⟩ := h
    refine ⟨?_, b, z, d, e⟩
    simp only [List.length_take, List.length_drop] at *
    omega
  | case3 need s h1 h2 h3 =>
    obtain ⟨a, b, z, d, e⟩ := h
    refine ⟨?_, b, z, d, e⟩
    simp only [List.length_take, List.length_drop] at *
    omega
  | case4 need s h1 h2 h3 h4 =>
    obtain ⟨a, b, z, d, e⟩ := h
    have hz : (macRead rd s.inner).2.remaining = 0 → tail rd (macRead rd s.inner).2.inner = [] := by
      intro h0
      rw [macRead_remaining] at h0
      rw [macRead_tail, if_pos h0]
    have hpos := macRead_pos rd s.inner
    have hout := (out_nil_iff rd s.inner).1 ((macRead_nil_iff rd s.inner).1 h4)
    refine ⟨?_, ?_, hz, macRead_cons rd d, by rw [macRead_length]; exact e⟩
    · simp only [macRead_pending, List.length_nil]
      omega
    · intro _
      rcases hout.2 with h0 | h0
      · apply hz
        rw [macRead_remaining, h0]; omega
      · rw [macRead_tail, h0]; simp
  | case5 need s h1 h2 h3 h4 r ih =>
    obtain ⟨a, b, z, d, e⟩ := h
    have hz : (macRead rd s.inner).2.remaining = 0 → tail rd (macRead rd s.inner).2.inner = [] := by
      intro h0
      rw [macRead_remaining] at h0
      rw [macRead_tail, if_pos h0]
    have hpos := macRead_pos rd s.inner
    have hlen : (macRead rd s.inner).1.length = s.inner.pending.length + (got rd s.inner).length := by
      rw [macRead_out, List.length_append]
    have := ih (c + s.pending.length)
      ⟨(by simp only [macRead_pending, List.length_nil]; omega),
       (by intro hf; cases hf), hz, macRead_cons rd d, (by rw [macRead_length]; exact e)⟩
    simp only [List.length_append]
    rw [← Nat.add_assoc]
    exact this

/-- `Good` looks only at `pending`, `inner`, `failed`, `length` -/
theorem Good.congr {full : List Byte} {c : Nat} {o o' : St (Mac σ)} (h : Good rd full c o)
    (hi : o'.inner = o.inner) (hp : o'.pending = o.pending) (hf : o'.failed = o.failed)
    (hl : o'.length = o.length) : Good rd full c o' := by
  obtain ⟨a, b, z, d, e⟩ := h
  exact ⟨by rw [hi, hp]; exact a, by rw [hi, hf]; exact b, by rw [hi]; exact z,
    by rw [hi]; exact d, by rw [hi, hl]; exact e⟩

theorem read_good {full : List Byte} (k : Nat) (o : St (Mac σ)) (h : Good rd full o.pos o) :
    Good rd full (read (macRead rd) k o).2.pos (read (macRead rd) k o).2 := by
  have := fill_good rd (min k (o.length - o.pos)) o o.pos h
  rw [read_pos, read_out]
  exact this.congr rd (read_inner _ k o) (read_pending _ k o) (read_failed _ k o)
    (by rw [read_length, fill_length])

/-- `Good` with its natural count -/
def GoodAt (full : List Byte) (o : St (Mac σ)) : Prop := Good rd full o.pos o

/-- when the outer wrapper has nothing more to give, the wrapped decoder is exhausted -/
theorem good_exhausted {full : List Byte} (o : St (Mac σ)) (h : GoodAt rd full o)
    (ht : tail (macRead rd) o = []) : tail rd o.inner.inner = [] := by
  obtain ⟨a, b, z, d, e⟩ := h
  by_cases hf : o.failed = true
  · exact b hf
  · by_cases hp : o.length - o.pos = 0
    · have := tail_length_le rd o.inner.inner
      apply List.eq_nil_of_length_eq_zero
      omega
    · unfold tail rest at ht
      simp only [hf, Bool.false_eq_true, if_false, List.take_eq_nil_iff, List.append_eq_nil_iff] at ht
      rcases ht with ht | ht
      · omega
      · obtain ⟨hp0, hav⟩ := ht
        rw [hp0, List.length_nil, Nat.sub_zero, avail_macRead, List.take_eq_nil_iff] at hav
        rcases hav with hav | hav
        · omega
        · rcases ((out_nil_iff rd o.inner).1 hav).2 with h0 | h0
          · exact z h0
          · exact h0

/-- **The pass-through, whole.**  An outer wrapper freshly put around a pass-through state `m`
(declared length `L`), read in `k`-byte pieces until an empty read: the caller gets `out m` cut at
`L`, and the wrapped decoder ends up having counted and summed the complete stream `full`. -/
theorem drain_pass {full : List Byte} (m : Mac σ) (L k : Nat) (hk : 0 < k)
    (hg : GoodAt rd full ({ inner := m, length := L, blockSize := 0 } : St (Mac σ)))
    (acc : List Byte) :
    let r := drain (macRead rd) k (L + 2) ({ inner := m, length := L, blockSize := 0 } : St (Mac σ)) acc
    r.1 = acc ++ (out rd m).take L ∧
    r.2.inner.inner.pos = full.length ∧ r.2.inner.inner.crc = Crc.buf 0 full := by
  intro r
  have hT : tail (macRead rd) ({ inner := m, length := L, blockSize := 0 } : St (Mac σ))
      = (out rd m).take L := by rw [tail_fresh, avail_macRead]
  have hlen := tail_length_le (macRead rd) ({ inner := m, length := L, blockSize := 0 } : St (Mac σ))
  have hd := drain_all (macRead rd) k hk (L + 2)
    ({ inner := m, length := L, blockSize := 0 } : St (Mac σ)) acc
    (by simp only [Nat.sub_zero] at hlen; omega)
  have hg' : GoodAt rd full r.2 :=
    drain_inv (macRead rd) (GoodAt rd full) k (fun w hw => read_good rd k w hw) _ _ acc hg
  have hex := good_exhausted rd r.2 hg' hd.2
  have := cons_done rd hg'.cons hex
  exact ⟨by rw [← hT]; exact hd.1, this.1, this.2⟩

/-! ### set-up followed by the read loop -/

/-- what the pass-through hands to the caller, as a function of the member header and of the
complete output `full` of the wrapped decoder: for a recognised envelope the first `forkLen` bytes
after the 128-byte header, otherwise everything -/
def passBytes (h : Hdr) (full : List UInt8) : List UInt8 :=
  if 128 ≤ h.length ∧ isMacBinaryHeader (full.take 128) h = true then
    (full.drop 128).take (forkLen (full.take 128))
  else full

theorem forkLen_zero {hd : List UInt8} (h : forkLen hd = 0) : be32 hd 0x53 = 0 ∧ be32 hd 0x57 = 0 := by
  unfold forkLen at h
  split at h <;> omega

theorem good_short (h : Hdr) (w : St σ) (full : List Byte) (ht : tail rd w = full)
    (hp : w.pos = 0) (hc : w.crc = 0) (hl : w.length = h.length) :
    GoodAt rd full ({ inner := { pending := [], remaining := h.length, inner := w },
                      length := h.length, blockSize := 0 } : St (Mac σ)) := by
  have hfl : full.length ≤ h.length := by
    have := tail_length_le rd w
    rw [ht, hl, hp] at this; omega
  refine ⟨Nat.zero_le _, (by intro hf; cases hf), ?_, cons_start rd ht hp hc, hl⟩
  intro h0
  have h0' : h.length = 0 := h0
  exact List.eq_nil_of_length_eq_zero (by rw [ht]; omega)

theorem good_plain (h : Hdr) (w : St σ) (full : List Byte) (ht : tail rd w = full)
    (hp : w.pos = 0) (hc : w.crc = 0) (hl : w.length = h.length) (hL : 128 ≤ h.length)
    (hF : 128 ≤ full.length) :
    GoodAt rd full ({ inner := { pending := full.take 128, remaining := h.length,
                                 inner := (read rd 128 w).2 },
                      length := h.length, blockSize := 0 } : St (Mac σ)) := by
  have hpos1 : (read rd 128 w).2.pos = 128 := by
    rw [read_pos, read_out_tail, hp, ht, List.length_take]; omega
  refine ⟨?_, (by intro hf; cases hf), ?_, cons_read rd 128 (cons_start rd ht hp hc), ?_⟩
  · show 0 + ([] : List Byte).length + (full.take 128).length ≤ (read rd 128 w).2.pos
    rw [hpos1, List.length_take, List.length_nil]; omega
  · intro h0
    have h0' : h.length = 0 := h0
    omega
  · show (read rd 128 w).2.length = h.length
    rw [read_length]; exact hl

theorem good_mac (h : Hdr) (w : St σ) (full : List Byte) (ht : tail rd w = full)
    (hp : w.pos = 0) (hc : w.crc = 0) (hl : w.length = h.length)
    (hF : 128 ≤ full.length) (hm : isMacBinaryHeader (full.take 128) h = true) :
    GoodAt rd full ({ inner := { pending := [], remaining := forkLen (full.take 128),
                                 inner := (read rd 128 w).2 },
                      length := h.length, blockSize := 0 } : St (Mac σ)) := by
  have hpos1 : (read rd 128 w).2.pos = 128 := by
    rw [read_pos, read_out_tail, hp, ht, List.length_take]; omega
  refine ⟨Nat.zero_le _, (by intro hf; cases hf), ?_, cons_read rd 128 (cons_start rd ht hp hc), ?_⟩
  · intro h0
    have h0' : forkLen (full.take 128) = 0 := h0
    obtain ⟨d0, r0⟩ := forkLen_zero h0'
    have hlen := ((isMacBinaryHeader_spec _ _).1 hm).length
    rw [d0, r0] at hlen
    have h128 : h.length = 128 := by rw [hlen]; unfold round128; omega
    have := tail_length_le rd (read rd 128 w).2
    rw [read_length, hpos1, hl, h128] at this
    exact List.eq_nil_of_length_eq_zero (by
      show (tail rd (read rd 128 w).2).length = 0
      omega)
  · show (read rd 128 w).2.length = h.length
    rw [read_length]; exact hl

/-- `macbinary_decoder_init` on a fresh wrapped decoder `w` (nothing handed out yet) whose complete
output is `full`: either the envelope cannot even be read (fewer than 128 bytes although the member
declares at least 128) and set-up fails, or the pass-through starts in a state that satisfies the
invariant and whose output, cut at the declared length, is `passBytes`. -/
theorem macInit_cases (h : Hdr) (w : St σ) (full : List Byte) (ht : tail rd w = full)
    (hp : w.pos = 0) (hc : w.crc = 0) (hl : w.length = h.length) :
    (128 ≤ h.length ∧ full.length < 128 ∧ (macInit rd h w).1 = none) ∨
    (¬ (128 ≤ h.length ∧ full.length < 128) ∧
      ∃ m0, (macInit rd h w).1 = some m0 ∧
        GoodAt rd full ({ inner := m0, length := h.length, blockSize := 0 } : St (Mac σ)) ∧
        (out rd m0).take h.length = passBytes h full) := by
  have hfl : full.length ≤ h.length := by
    have := tail_length_le rd w
    rw [ht, hl, hp] at this; omega
  by_cases hL : 128 ≤ h.length
  · by_cases hF : full.length < 128
    · exact Or.inl ⟨hL, hF, macInit_fail rd h w hL (by rw [ht]; exact hF)⟩
    · right
      refine ⟨(by omega), ?_⟩
      have hT : 128 ≤ (tail rd w).length := by rw [ht]; omega
      have htail1 : tail rd (read rd 128 w).2 = full.drop 128 := by rw [tail_read, ht]
      have hdl : (full.drop 128).length ≤ h.length := by rw [List.length_drop]; omega
      cases hm : isMacBinaryHeader (full.take 128) h with
      | true =>
        have hi := macInit_mac rd h w hL hT (by rw [ht]; exact hm)
        rw [ht] at hi
        refine ⟨_, hi, good_mac rd h w full ht hp hc hl (by omega) hm, ?_⟩
        unfold out passBytes
        rw [if_pos ⟨hL, hm⟩]
        show List.take h.length ([] ++ List.take (forkLen (full.take 128)) (tail rd (read rd 128 w).2)) = _
        rw [List.nil_append, htail1]
        apply List.take_of_length_le
        rw [List.length_take]; omega
      | false =>
        have hi := macInit_plain rd h w hL hT (by rw [ht]; exact hm)
        rw [ht] at hi
        refine ⟨_, hi, good_plain rd h w full ht hp hc hl hL (by omega), ?_⟩
        unfold out passBytes
        rw [if_neg (by rw [hm]; simp)]
        show List.take h.length (full.take 128 ++ List.take h.length (tail rd (read rd 128 w).2)) = _
        rw [htail1, List.take_of_length_le hdl, List.take_append_drop, List.take_of_length_le hfl]
  · right
    refine ⟨(by omega), _, (by rw [macInit_short rd h w (by omega)]), good_short rd h w full ht hp hc hl, ?_⟩
    unfold out passBytes
    rw [if_neg (by omega)]
    show List.take h.length ([] ++ List.take h.length (tail rd w)) = _
    rw [List.nil_append, ht, List.take_of_length_le hfl, List.take_of_length_le hfl]

/-- recognised envelope: the data fork if there is one, else the resource fork -/
theorem passBytes_strip (h : Hdr) (hdr data res pad : List UInt8) (hl : hdr.length = 128)
    (hL : 128 ≤ h.length) (hm : isMacBinaryHeader hdr h = true)
    (hdl : data.length = be32 hdr 0x53) (hrl : res.length = be32 hdr 0x57) :
    passBytes h (hdr ++ data ++ res ++ pad) = if 0 < be32 hdr 0x53 then data else res := by
  have ht : (hdr ++ data ++ res ++ pad).take 128 = hdr := by
    rw [List.append_assoc, List.append_assoc, ← hl, List.take_left]
  have hd : (hdr ++ data ++ res ++ pad).drop 128 = data ++ (res ++ pad) := by
    rw [List.append_assoc, List.append_assoc, ← hl, List.drop_left]
  unfold passBytes
  rw [ht, if_pos ⟨hL, hm⟩, hd]
  unfold forkLen
  by_cases hpos : 0 < be32 hdr 0x53
  · rw [if_pos hpos, if_pos hpos, ← hdl, List.take_left]
  · have hd0 : data = [] := List.eq_nil_of_length_eq_zero (by omega)
    rw [if_neg hpos, if_neg hpos, hd0, List.nil_append, ← hrl, List.take_left]

/-- envelope not recognised, or member too short to have one: nothing is stripped -/
theorem passBytes_keep (h : Hdr) (full : List UInt8)
    (hm : h.length < 128 ∨ isMacBinaryHeader (full.take 128) h = false) :
    passBytes h full = full := by
  unfold passBytes
  rcases hm with hm | hm
  · rw [if_neg (by omega)]
  · rw [if_neg (by rw [hm]; simp)]

/-- **The pass-through over an arbitrary inner decoder, for every read size.**  `w` is a fresh
wrapper (nothing handed out yet) of declared length `h.length` around any inner step `rd`; `full`
is its complete output.  Set up the pass-through for the member header `h`, put the outer wrapper
around it and read `k` bytes at a time (any `k > 0`) until an empty read: unless set-up fails
(which happens exactly when the member declares at least 128 bytes and yields fewer), the caller
gets `passBytes h full`, and the wrapped decoder has then counted and summed all of `full`. -/
theorem pass_through (h : Hdr) (w : St σ) (full : List Byte) (ht : tail rd w = full)
    (hp : w.pos = 0) (hc : w.crc = 0) (hl : w.length = h.length) (k : Nat) (hk : 0 < k) :
    (128 ≤ h.length ∧ full.length < 128 ∧ (macInit rd h w).1 = none) ∨
    (¬ (128 ≤ h.length ∧ full.length < 128) ∧
      ∃ m0, (macInit rd h w).1 = some m0 ∧
        (drain (macRead rd) k (h.length + 2)
            ({ inner := m0, length := h.length, blockSize := 0 } : St (Mac σ)) []).1
          = passBytes h full ∧
        (drain (macRead rd) k (h.length + 2)
            ({ inner := m0, length := h.length, blockSize := 0 } : St (Mac σ)) []).2.inner.inner.pos
          = full.length ∧
        (drain (macRead rd) k (h.length + 2)
            ({ inner := m0, length := h.length, blockSize := 0 } : St (Mac σ)) []).2.inner.inner.crc
          = Crc.buf 0 full) := by
  rcases macInit_cases rd h w full ht hp hc hl with hf | ⟨hneg, m0, hs, hg, hout⟩
  · exact Or.inl hf
  · obtain ⟨p1, p2, p3⟩ := drain_pass rd m0 h.length k hk hg []
    exact Or.inr ⟨hneg, m0, hs, by rw [p1, hout]; rfl, p2, p3⟩

/-- `pass_through` for the wrapper `lha_decoder_new` makes: `full` is `Wrap.avail`, the inner
decoder's output stream cut at the declared length -/
theorem pass_through_fresh (h : Hdr) (i : σ) (b k : Nat) (hk : 0 < k) :
    let w : St σ := { inner := i, length := h.length, blockSize := b }
    let full := avail rd h.length i
    (128 ≤ h.length ∧ full.length < 128 ∧ (macInit rd h w).1 = none) ∨
    (¬ (128 ≤ h.length ∧ full.length < 128) ∧
      ∃ m0, (macInit rd h w).1 = some m0 ∧
        (drain (macRead rd) k (h.length + 2)
            ({ inner := m0, length := h.length, blockSize := 0 } : St (Mac σ)) []).1
          = passBytes h full ∧
        (drain (macRead rd) k (h.length + 2)
            ({ inner := m0, length := h.length, blockSize := 0 } : St (Mac σ)) []).2.inner.inner.pos
          = full.length ∧
        (drain (macRead rd) k (h.length + 2)
            ({ inner := m0, length := h.length, blockSize := 0 } : St (Mac σ)) []).2.inner.inner.crc
          = Crc.buf 0 full) :=
  pass_through rd h _ _ (tail_fresh rd i h.length b) rfl rfl rfl k hk

end LhasaV.MacProps
