import LhasaV.Lemmas.ExtractTreeOpt6
/-!
# C06 with options (part 7): the step for a new, selected entry

`step_new_g`: the first extracted member finds the file system untouched and creates the
relocation directory (`make_parent_directories` = `mkBase`); every later one finds its parents in
place.  Then the entry is created below `cwd ++ ds` exactly as in `step_new`.
-/
namespace LhasaV.ExtractTree
open LhasaV LhasaV.Header LhasaV.Extract LhasaV.GlobFs LhasaV.Contain

/-- `entry_created` (ExtractTree9) at an arbitrary place `cs`: only the kind, permission and
time fields of the header matter, not its path -/
theorem entry_created_at (rd : Reader.St) (fs : Fs.St) (fn : Bytes) (c : Reader.HObj) (e : Entry)
    (cs : List Bytes)
    (hty : rd.currType = .normal) (hcur : rd.curr = some c) (hpol : rd.policy = .endOfDir)
    (hh : HdrOf e c.h) (hk : EntryOk e)
    (hT : Target fs fn cs) (hnone : Fs.lookup fs (fs.cwd ++ cs) = none)
    (hmod : Fs.canModify fs (fs.cwd ++ cs).dropLast = true)
    (hdec : ∀ p data perms mtime, e = .file p data perms mtime →
      (Reader.openDecoder rd).1 = true ∧ (Reader.extract rd true).1 = (true, data)) :
    (readerExtract rd fs fn).1 = true ∧
    RdKept rd (readerExtract rd fs fn).2.1 ∧
    (readerExtract rd fs fn).2.1.dirStack = (if e.isDir then c :: rd.dirStack else rd.dirStack) ∧
    Created fs (readerExtract rd fs fn).2.2 (fs.cwd ++ cs) (e.opened fs.now fs.umask) := by
  cases e with
  | dir p perms mtime =>
    obtain ⟨_, _, hm, hs, hpm, _⟩ := hh
    obtain ⟨h1, h2, h3⟩ := extract_dir_effect rd fs fn cs c hty hcur hm hs hpol hT hnone hmod
    refine ⟨h1, ?_, ?_, ?_⟩
    · rw [h2]; exact ⟨rfl, rfl, rfl, rfl⟩
    · rw [h2]; rfl
    · rw [opened_dir_mode c.h perms fs.umask hpm] at h3
      exact h3
  | file p data perms mtime =>
    obtain ⟨_, _, hm, hs, hpm, htm⟩ := hh
    obtain ⟨ho, hv⟩ := hdec p data perms mtime rfl
    have hv1 : (Reader.extract rd true).1.1 = true := by rw [hv]
    have hv2 : (Reader.extract rd true).1.2 = data := by rw [hv]
    obtain ⟨h1, h2, h3⟩ := extract_file_effect rd fs fn cs c hty hcur hm ho hv1 hT hnone hmod
    refine ⟨h1, ?_, ?_, ?_⟩
    · rw [h2]; exact RdKept.of_frame (extract_file_frame rd true c hty hcur hm)
    · rw [h2]; exact (extract_file_frame rd true c hty hcur hm).dirStack
    · rw [hv2, final_file_mode c.h perms fs.umask hpm, htm] at h3
      exact h3
  | link p tg =>
    obtain ⟨_, _, hm, hs⟩ := hh
    have hsafe : Reader.isDangerous c.h = false :=
      (not_dangerous_iff c.h tg hs).2 (hk.safe p tg rfl)
    obtain ⟨h1, h2, h3⟩ := extract_link_effect rd fs fn cs c hty hcur hm tg hs hsafe hT hnone hmod
    refine ⟨h1, ?_, ?_, h3⟩
    · rw [h2]; exact ⟨rfl, rfl, rfl, rfl⟩
    · rw [h2]; rfl

/-- the place of a new entry once the relocation directory exists: its directories can be walked,
nothing is there, the parent is writable -/
theorem new_target {fs0 : Fs.St} {ds : List Bytes} {done stk : List Entry} {e : Entry} {fsY : Fs.St}
    (hb : BaseRef fs0 ds)
    (hfs : FsInvB (mkBase fs0 ds) (fs0.cwd ++ ds) done (stk.map Entry.path) fsY) (hok : DoneOk done stk)
    (hk : EntryOk e) (hn : ∀ c ∈ ds, Name c) (hdep : ds.length + e.path.length < 64)
    (hnew : e.path ∉ done.map Entry.path)
    (hpar : (stk.map Entry.path).head?.getD [] = e.path.dropLast) :
    Target fsY (fullOf (e.reloc ds)) (ds ++ e.path) ∧
    Fs.lookup fsY (fsY.cwd ++ (ds ++ e.path)) = none ∧
    Fs.canModify fsY (fsY.cwd ++ (ds ++ e.path)).dropLast = true ∧
    (e.path.dropLast ≠ [] → done ≠ [] ∧
      ∃ m, Fs.lookup fsY (fs0.cwd ++ ds ++ e.path.dropLast) = some (.dir m (mkBase fs0 ds).now)) := by
  have hp1 := hb.params
  have hfs' : FsInvB (mkBase fs0 ds) ((mkBase fs0 ds).cwd ++ ds) done (stk.map Entry.path) fsY := by
    rw [hp1.cwd]; exact hfs
  have pf := pathFacts_rel hk hn hdep
  have hcwd : fsY.cwd = fs0.cwd := hfs.params.cwd.trans hp1.cwd
  have hw := walk_of_invB hfs' hok hb.access1 hb.walk.walk_self e.path
    (pre_mem_of_parent hok.chain e.path hpar)
  rw [hp1.cwd] at hw
  have hgood : ∀ c ∈ ds ++ e.path, Good c := by
    have := names_good (entryOk_reloc hk hn hdep).names
    rwa [reloc_path] at this
  have hnew' : ∀ e' ∈ done, e'.path ≠ e.path := fun e' he' h => hnew (List.mem_map.2 ⟨e', he', h⟩)
  obtain ⟨hmod, hparent⟩ := parent_of_invB hfs hok hb.access1 e.path hk.ne hpar
  refine ⟨⟨pf.rel, pf.comps, by simp [hk.ne], hgood, by rw [List.length_append]; exact hdep,
    by rw [hcwd]; exact hw⟩, ?_, ?_, hparent⟩
  · rw [hcwd, ← List.append_assoc]; exact hfs.none e.path hk.ne hnew'
  · rw [hcwd, ← List.append_assoc]; exact hmod

theorem step_new_g {fs0 : Fs.St} {ds : List Bytes} {sel : Entry → Bool} {done stk rest : List Entry}
    {e : Entry} (s : Extract.St)
    (c : Reader.HObj) (hi : CoreInvG fs0 ds sel done stk (e :: rest) s) (hb : BaseRef fs0 ds)
    (hsel : sel e = true)
    (hpol : s.rd.policy = .endOfDir) (hdef : s.rd.deferred = [])
    (hstack : StackRel s.rd.dirStack stk)
    (hty : s.rd.currType = .normal) (hcur : s.rd.curr = some c) (hh : HdrOf e c.h)
    (hin : ∀ d tl, stk = d :: tl → d.path <+: e.dirPart)
    (hdec : ∀ p data perms mtime, e = .file p data perms mtime →
      (Reader.openDecoder s.rd).1 = true ∧ (Reader.extract s.rd true).1 = (true, data)) :
    LoopInvG fs0 ds sel (done ++ [e]) (if e.isDir then e :: stk else stk) rest
      (extractArchivedFile s c.h) := by
  have hpop : popStk (stk.map Entry.path) e.dirPart = stk.map Entry.path := by
    cases stk with
    | nil => rfl
    | cons d tl => exact popStk_in _ _ _ (hin d tl rfl)
  have hwf := hi.wf
  simp only [WFS, hsel, if_true, hpop] at hwf
  obtain ⟨hk, hnew, hpar, hwf'⟩ := hwf
  have hdep := hi.depth e (by simp)
  have hp1 := hb.params
  have hfn : fileFullPath c.h s.opts = fullOf (e.reloc ds) := fullPath_rel hh hk s.opts ds hi.opts
  have hkr := entryOk_reloc hk hi.opts.names hdep
  have hpo : parentsOf s (fileFullPath c.h s.opts) = makeParentDirectories s.fs (fullOf (e.reloc ds)) := by
    unfold parentsOf; simp [hty, hfn]
  -- the parents step: the relocation directory is made (first member) or found
  obtain ⟨fsY, hparents, hex, hfsY⟩ : ∃ fsY, parentsOf s (fileFullPath c.h s.opts) = (true, fsY) ∧
      Fs.existsKind s.fs (fileFullPath c.h s.opts) = .none ∧
      FsInvB (mkBase fs0 ds) (fs0.cwd ++ ds) done (stk.map Entry.path) fsY := by
    rcases hi.fs with ⟨hd0, hs0, hf0⟩ | ⟨_, hfs⟩
    · obtain ⟨k, hbk, hf⟩ := hb.facts
      have htop : e.path.dropLast = [] := by rw [← hpar, hs0]; rfl
      refine ⟨mkBase fs0 ds, ?_, ?_, ?_⟩
      · rw [hpo, hf0, parents_top fs0 ds e hkr htop hk.ne]; exact hf.run
      · rw [hfn, hf0]; exact existsKind_phase0 hbk e hkr hk.ne
      · rw [hd0, hs0]; exact hf.inv
    · obtain ⟨hT, hnone, _, _⟩ := new_target hb hfs hi.ok hk hi.opts.names hdep hnew hpar
      refine ⟨s.fs, ?_, ?_, hfs⟩
      · rw [hpo]
        have pf := pathFacts_rel hk hi.opts.names hdep
        exact makeParents_noop s.fs _ (ds ++ e.path) pf.split pf.trel hT.good hT.len hT.walk
      · rw [hfn]; exact existsKind_none hT hnone
  obtain ⟨hT, hnone, hmod, hparent⟩ := new_target hb hfsY hi.ok hk hi.opts.names hdep hnew hpar
  have hcwd : fsY.cwd = fs0.cwd := hfsY.params.cwd.trans hp1.cwd
  have hrun := eaf_run_g s c.h fsY hi.opts.up (Or.inr hex) hparents
  rw [hfn] at hrun
  obtain ⟨r1, rk, rstack, rc⟩ := entry_created_at s.rd fsY (fullOf (e.reloc ds)) c e (ds ++ e.path)
    hty hcur hpol hh hk hT hnone hmod hdec
  rw [hcwd, hfsY.params.now, hfsY.params.umask, ← List.append_assoc] at rc
  rw [hrun]
  have hns : e.path ∉ stk.map Entry.path := fun h => hnew (stk_paths_seen hi.ok _ h)
  have hnew' : ∀ e' ∈ done, e'.path ≠ e.path := fun e' he' h => hnew (List.mem_map.2 ⟨e', he', h⟩)
  refine ⟨⟨hi.aborted, ?_, hi.opts, hi.filt, ?_, doneOk_push hi.ok hk hnew hpar, ?_, ?_⟩, ?_⟩
  rotate_left 4
  · show RdInv (readerExtract s.rd fsY _).2.1 _ rest
    refine ⟨rk.policy.trans hpol, rk.deferred.trans hdef, ?_,
      Or.inr (Or.inl (rk.currType.trans hty)), ?_⟩
    · rw [rstack]
      cases e.isDir with
      | true => exact ⟨hh, hstack⟩
      | false => exact hstack
    · intro h
      rw [rk.currType, hty] at h
      cases h
  · show (s.result && _) = true
    rw [hi.result, r1]; rfl
  · show FsPh fs0 ds (done ++ [e]) _ (readerExtract s.rd fsY _).2.2
    refine Or.inr ⟨by simp, ?_⟩
    rw [map_push]
    apply hfsY.create hk.ne (fun e' he' => (hi.ok.ok e' he').ne) hnew'
    · cases hdir : e.isDir with
      | true => simp only [if_true, List.mem_cons, true_or]; exact rc
      | false =>
        simp only [Bool.false_eq_true, if_false, hns]
        rw [← opened_eq_final e hdir]; exact rc
    · intro p hp
      cases e.isDir with
      | true => simp [hp]
      | false => simp
    · exact hparent
  · show WFS sel _ ((done ++ [e]).map Entry.path) rest
    rw [map_push, List.map_append, List.map_singleton]
    exact hwf'
  · intro x hx
    exact hi.depth x (by simpa [List.append_assoc] using hx)

end LhasaV.ExtractTree
