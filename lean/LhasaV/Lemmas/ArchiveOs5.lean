import LhasaV.Lemmas.ArchiveOs4
/-!
# C06, archives as bytes, any OS type (part 5): `archiveWithOs`, LHark's `-lk7-`

* `archiveWithOs os pk es`: `ArchiveOf.archiveWith pk es` with the OS-type byte `os` in every header
  (`archiveWithOs_U`: for 'U' it IS `archiveWith`);
* `PackOkOs os pk data`: the packer's output is a member the library decodes back to `data` — the
  decoder is the one of the method as PRESENTED by the header parser;
* `extract_archiveWithOs`: the end-to-end theorem for every accepted OS type;
  `extract_archive_method_os`: the eleven method packers of `ArchivePack` under any OS type
  (all but LHark's own combination, where `-lh7-` means `-lk7-`);
* **`lk7Lit`, `packOkOs_lk7Lit`, `extract_archive_lk7`**: what LHark writes — method string `-lh7-`,
  level-1 header, OS type ' ' (0x20), data in LHark's format (`Spec.LhNewEnc.serialise lk7`: 6-bit
  offset-table field, 289 codes, LHark's length/distance code) — is presented as `-lk7-`
  (`lk7_presented`) and extracts to the tree, by the C01 round trip for the `lk7` parameter set.
-/
set_option linter.unusedSimpArgs false
namespace LhasaV.ArchiveOs
open LhasaV LhasaV.Header LhasaV.Extract LhasaV.GlobFs LhasaV.Contain LhasaV.ExtractTree
open LhasaV.ExtractTree.Sample LhasaV.Spec.HeaderEnc LhasaV.ArchiveOf LhasaV.ArchivePack

/-- **the packer's output for `data` is a member the library decodes back to `data`** when the
headers carry OS type `os`: as `ArchiveOf.PackOk`, with the decoder of the PRESENTED method -/
structure PackOkOs (os : Nat) (pk : Packer) (data : Bytes) : Prop where
  sig : SigOk (pk.pack data).1
  notDir : (pk.pack data).1 ≠ lhdM
  clen : (pk.pack data).2.length + (if pk.level1 then 65536 else 0) < 4294967296
  decodes : ∃ d info, decoderFor (mname (presented (lvl pk) os (pk.pack data).1)) = some d ∧
    decoderInfo (mname (presented (lvl pk) os (pk.pack data).1)) = some info ∧
    Wrap.avail d.total data.length (.ok (d.init { data := (pk.pack data).2.toArray })) = data

def FilePackOs (os : Nat) (pk : Packer) : Entry → Prop
  | .file _ data _ _ => PackOkOs os pk data
  | _ => True

/-- the packer handles the data of every file of the list -/
def PacksOs (os : Nat) (pk : Packer) (es : List Entry) : Prop := ∀ e ∈ es, FilePackOs os pk e

/-- unless the combination is LHark's, a sound packer is sound under the OS type -/
theorem packOkOs_of_packOk {os : Nat} {pk : Packer} {data : Bytes} (h : PackOk pk data)
    (hn : ¬ (lvl pk = 1 ∧ os = 0x20 ∧ (pk.pack data).1 = lh7M)) : PackOkOs os pk data := by
  have e : presented (lvl pk) os (pk.pack data).1 = (pk.pack data).1 := by
    unfold presented; rw [if_neg hn]
  exact ⟨h.sig, h.notDir, h.clen, by rw [e]; exact h.decodes⟩

/-- the member scheme: `fieldsOs`, the packer's data, `hdrOs` -/
def schemeOs (os : Nat) (pk : Packer) : Scheme :=
  { fields := fieldsOs os pk, data := dataOf pk, hdr := hdrOs os pk }

/-- **the archive builder with an OS-type parameter** -/
def archiveWithOs (os : Nat) (pk : Packer) (es : List Entry) : Array UInt8 := archiveS (schemeOs os pk) es

theorem fieldsOs_U (pk : Packer) (e : Entry) : fieldsOs 0x55 pk e = fieldsOf pk e := by
  cases e <;> rfl

/-- for OS type 'U' the builder is `ArchiveOf.archiveWith` -/
theorem archiveWithOs_U (pk : Packer) (es : List Entry) : archiveWithOs 0x55 pk es = archiveWith pk es := by
  unfold archiveWithOs archiveS archiveWith
  congr 2
  apply List.map_congr_left
  intro e _
  simp [memberS, memberW, schemeOs, fieldsOs_U]

/-- **the scheme is sound for every encodable entry** -/
theorem memberOk_os (os : Nat) (pk : Packer) (mk : Nat → Nat) (e : Entry) (ho : OsOk os) (hk : EntryOk e)
    (he : EntryEnc e) (hs : OsEntry os e) (hpk : FilePackOs os pk e) : MemberOk (schemeOs os pk) mk e where
  sig := by
    cases e with
    | dir _ _ _ => exact lhdM_sig
    | file _ data _ _ => exact hpk.sig
    | link _ _ => exact lhdM_sig
  shape := encode_shapeOs os pk e
  read := fun rest =>
    HeaderRT.header_roundtrip_ok mk _
      (fieldsOs_wf os pk ho hk he (by
        cases e with
        | dir _ _ _ => trivial
        | file _ data _ _ => exact ⟨hpk.sig.1, hpk.clen⟩
        | link _ _ => trivial)) rest _
      (normalise_entryOs os pk mk e ho hk he (by
        intro p data perms t h; subst h; exact hpk.notDir) hs)
  denotes := by
    show HdrOf e (hdrOs os pk e)
    cases e with
    | dir p perms t =>
      refine ⟨rfl, rfl, ?_, rfl, permsOf_hdr _ _ rfl rfl, rfl⟩
      show presented (lvl pk) os lhdM = "-lhd-".toUTF8.toList
      rw [presented_lhd]; exact lhdM_eq
    | file p data perms t =>
      refine ⟨pathOf_getD _, rfl, ?_, rfl, permsOf_hdr _ _ rfl rfl, rfl⟩
      show presented (lvl pk) os (pk.pack data).1 ≠ "-lhd-".toUTF8.toList
      rw [← lhdM_eq]; exact presented_ne_lhd hpk.notDir
    | link p tg =>
      refine ⟨pathOf_getD _, rfl, ?_, rfl⟩
      show presented (lvl pk) os lhdM = "-lhd-".toUTF8.toList
      rw [presented_lhd]; exact lhdM_eq
  clen := by cases e <;> rfl
  os := ho.2.2
  file := by
    intro p data perms t h
    have h' : e = .file p data perms t := h
    subst h'
    exact ⟨rfl, rfl, hpk.decodes⟩

/-- **Extraction reproduces every encodable tree, for every accepted OS type.**  For every OS-type
byte other than 'K' and 'm', every packer that is sound under it, and EVERY well-formed, encodable
tree whose names the OS type does not make the parser fold (`OsEntry`: no condition unless the OS
type is MS-DOS like): `lha x` on the bytes `archiveWithOs os pk es` into an empty directory succeeds
and leaves exactly the tree; nothing outside changes. -/
theorem extract_archiveWithOs (os : Nat) (pk : Packer) (es : List Entry) (hos : OsOk os) (hwf : WellFormed es)
    (henc : Encodable es) (hcase : ∀ e ∈ es, OsEntry os e) (hpk : PacksOs os pk es)
    (o : Opts) (fs : Fs.St) (answers : Bytes) (ho : OptsOk o) (hfs : EmptyDir fs) (ha : Access fs) :
    Reproduces (archiveWithOs os pk es) es o fs answers := by
  have hok : AllOk (schemeOs os pk) Header.dosTimeUTC es := fun e he =>
    memberOk_os os pk _ e hos (entryOk_of_wf hwf e he) (henc e he) (hcase e he) (hpk e he)
  have hid : es.map (schemeOs os pk).den = es := by
    show es.map id = es
    simp
  have := extract_archiveS (schemeOs os pk) es (by rw [hid]; exact hwf) hok o fs answers ho hfs ha
  rw [hid] at this
  exact this

/-- … and the archive denotes the tree (the form the option theorems of `ExtractTreeOpt` consume) -/
theorem archiveWithOs_denotes (os : Nat) (pk : Packer) (es : List Entry) (hos : OsOk os) (hwf : WellFormed es)
    (henc : Encodable es) (hcase : ∀ e ∈ es, OsEntry os e) (hpk : PacksOs os pk es)
    (o : Opts) (fs : Fs.St) (answers : Bytes) :
    Denotes (runFuel (archiveWithOs os pk es)) (runInit (archiveWithOs os pk es) o fs answers) es := by
  have hok : AllOk (schemeOs os pk) Header.dosTimeUTC es := fun e he =>
    memberOk_os os pk _ e hos (entryOk_of_wf hwf e he) (henc e he) (hcase e he) (hpk e he)
  have hid : es.map (schemeOs os pk).den = es := by
    show es.map id = es
    simp
  have := archiveS_denotes (schemeOs os pk) es hok o fs answers
  rw [hid] at this
  exact this

/-! ## the eleven methods under any OS type -/

theorem packsOs_of (os : Nat) (pk : Packer) (P : Bytes → Prop) (h : ∀ data, P data → PackOkOs os pk data)
    (es : List Entry) (hs : FilesSat P es) : PacksOs os pk es := by
  intro e he
  have := hs e he
  cases e with
  | dir _ _ _ => trivial
  | link _ _ => trivial
  | file p data perms t => exact h data this

/-- every method's packer, level 1 or 2, any accepted OS type — except LHark's combination
(level 1, OS type ' ', `-lh7-`), which means `-lk7-` (see `extract_archive_lk7`) -/
theorem extract_archive_method_os (m : Method) (l1 : Bool) (os : Nat) (hos : OsOk os)
    (hnl : ¬ (l1 = true ∧ os = 0x20 ∧ m = .lh7)) (es : List Entry) (hwf : WellFormed es)
    (henc : Encodable es) (hcase : ∀ e ∈ es, OsEntry os e) (hfit : FilesSat m.fits es)
    (o : Opts) (fs : Fs.St) (answers : Bytes) (ho : OptsOk o) (hfs : EmptyDir fs) (ha : Access fs) :
    Reproduces (archiveWithOs os (m.packer l1) es) es o fs answers := by
  refine extract_archiveWithOs os (m.packer l1) es hos hwf henc hcase
    (packsOs_of os _ m.fits (fun data hd => packOkOs_of_packOk (packOk_method m l1 data hd) ?_) es hfit)
    o fs answers ho hfs ha
  rintro ⟨h1, h2, h3⟩
  apply hnl
  have hl : l1 = true := by
    have := (lvl_one (m.packer l1)).mp h1
    rw [Method.packer_level] at this; exact this
  refine ⟨hl, h2, ?_⟩
  rw [(m.packer_name l1 data).1] at h3
  revert h3
  cases m <;> decide

/-! ## LHark: `-lk7-` -/

/-- **what LHark writes**: the method string `-lh7-`, the data as the all-literals description in
LHark's format, level-1 headers (OS type ' ' is the builder's parameter) -/
def lk7Lit : Packer :=
  { pack := fun data => (lh7M, Spec.LhNewEnc.serialise Spec.LhNewEnc.lk7 (litBlocks data)), level1 := true }

theorem presented_lk7 : presented 1 0x20 lh7M = lk7M := by decide

/-- **LHark members of literals are decoded by the `-lk7-` decoder to their data**: every data
string shorter than 4 294 000 000 bytes -/
theorem packOkOs_lk7Lit (data : Bytes) (h : data.length < 4294000000) : PackOkOs 0x20 lk7Lit data := by
  have hn : mname lk7M = "-lk7-" := by decide +kernel
  have hi : (decoderInfo "-lk7-").isSome = true := by decide +kernel
  obtain ⟨info, hi⟩ := Option.isSome_iff_exists.1 hi
  obtain ⟨hd, _, hrt⟩ := lk7_lit_round_trip data
  have hlen := length_serialise_litBlocks Spec.LhNewEnc.lk7 (by decide) data h
  refine ⟨show SigOk lh7M by decide, show lh7M ≠ lhdM by decide, ?_, LhNew.dec LhNew.lk7, info, ?_, ?_, hrt⟩
  · show (Spec.LhNewEnc.serialise Spec.LhNewEnc.lk7 (litBlocks data)).length + 65536 < 4294967296
    omega
  · show decoderFor (mname (presented 1 0x20 lh7M)) = _
    rw [presented_lk7, hn]; exact hd
  · show decoderInfo (mname (presented 1 0x20 lh7M)) = _
    rw [presented_lk7, hn]; exact hi

/-- the reader presents such a member under the method name `-lk7-`, level 1, OS type ' ' -/
theorem lk7_presented (p : Fs.Path) (data : Bytes) (perms : Option Nat) (t : Nat) :
    (hdrOs 0x20 lk7Lit (.file p data perms t)).method = lk7M ∧
    (hdrOs 0x20 lk7Lit (.file p data perms t)).level = 1 ∧
    (hdrOs 0x20 lk7Lit (.file p data perms t)).osType = 0x20 ∧
    (fieldsOs 0x20 lk7Lit (.file p data perms t)).method = lh7M :=
  ⟨presented_lk7, rfl, rfl, rfl⟩

/-- **Extraction reproduces every encodable tree written the way LHark writes it.**  For EVERY
well-formed, encodable tree `es` whose full paths each contain a lower-case letter or no upper-case
letter (`CaseStable`: OS type ' ' is MS-DOS like, an all-capitals name would come back folded to
lower case) and whose files are shorter than 4 294 000 000 bytes: `lha x` on the bytes
`archiveWithOs 0x20 lk7Lit es` — level-1 headers written by the C05 header encoder with OS type ' '
and method `-lh7-`, file data by the C01 specification encoder in LHark's format — into an empty
directory, as root or ordinary user, succeeds and leaves exactly the tree (contents, modes, times,
link targets, directory metadata); nothing outside changes. -/
theorem extract_archive_lk7 (es : List Entry) (hwf : WellFormed es) (henc : Encodable es)
    (hcase : ∀ e ∈ es, CaseStable e) (hfit : FilesSat (fun d => d.length < 4294000000) es)
    (o : Opts) (fs : Fs.St) (answers : Bytes) (ho : OptsOk o) (hfs : EmptyDir fs) (ha : Access fs) :
    Reproduces (archiveWithOs 0x20 lk7Lit es) es o fs answers :=
  extract_archiveWithOs 0x20 lk7Lit es (by decide) hwf henc (fun e he _ => hcase e he)
    (packsOs_of 0x20 lk7Lit _ packOkOs_lk7Lit es hfit) o fs answers ho hfs ha

end LhasaV.ArchiveOs
