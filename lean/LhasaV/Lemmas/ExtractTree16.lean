import LhasaV.Lemmas.ExtractTree15
/-!
# C06 (part 16): what `WellFormed` says about contiguity

In a well-formed archive every directory entry `D` is followed contiguously by the entries that
are lexically inside it (their stored path has `D`'s as a prefix), and no entry after the first
one outside `D` is inside `D` again: `wf_contiguous`.  This is the shape under which
`dir_meta_final` was asked for — `D`'s re-presentation comes after the last entry inside it.
-/
namespace LhasaV.ExtractTree
open LhasaV LhasaV.Header LhasaV.Extract LhasaV.GlobFs LhasaV.Contain

theorem Chain.mem_ne_nil : ∀ (stk : List Fs.Path), Chain stk → ∀ t ∈ stk, t ≠ [] := by
  intro stk
  induction stk with
  | nil => intro _ t ht; cases ht
  | cons p rest ih =>
    intro h t ht
    rcases List.mem_cons.1 ht with rfl | ht
    · exact h.1
    · exact ih h.2.2 t ht

/-- every open directory contains the innermost one -/
theorem Chain.all_prefix : ∀ (stk : List Fs.Path), Chain stk → ∀ t ∈ stk, t <+: stk.head?.getD [] := by
  intro stk
  induction stk with
  | nil => intro _ t ht; cases ht
  | cons p rest ih =>
    intro h t ht
    simp only [List.head?_cons, Option.getD_some]
    rcases List.mem_cons.1 ht with rfl | ht
    · exact List.prefix_refl _
    · have := ih h.2.2 t ht
      rw [← h.2.1] at this
      exact this.trans (List.dropLast_prefix p)

theorem popStk_sub (stk : List Fs.Path) (d : Fs.Path) : ∀ t ∈ popStk stk d, t ∈ stk :=
  fun _ ht => (List.dropWhile_suffix _).subset ht

/-- what stays open contains `d` -/
theorem mem_popStk_prefix (stk : List Fs.Path) (d : Fs.Path) (hc : Chain stk) :
    ∀ t ∈ popStk stk d, t <+: d := by
  intro t ht
  have hc' : Chain (popStk stk d) := hc.dropWhile _ stk
  have h1 := hc'.all_prefix _ t ht
  cases hp : popStk stk d with
  | nil => rw [hp] at ht; cases ht
  | cons t0 rest =>
    rw [hp] at h1
    simp only [List.head?_cons, Option.getD_some] at h1
    have hne : popStk stk d ≠ [] := by rw [hp]; simp
    have hnot := List.head_dropWhile_not (fun t => !decide (t <+: d)) (l := stk) hne
    have h0 : (popStk stk d).head hne = t0 := by simp [hp]
    have h0' : (List.dropWhile (fun t => !decide (t <+: d)) stk).head hne = t0 := h0
    rw [h0'] at hnot
    have : t0 <+: d := by simpa using hnot
    exact h1.trans this

/-- what is popped does not contain `d` -/
theorem not_mem_popStk (stk : List Fs.Path) (d t : Fs.Path) (ht : t ∈ stk) (hn : t ∉ popStk stk d) :
    ¬ t <+: d := by
  have hsplit := List.takeWhile_append_dropWhile (p := fun t => !decide (t <+: d)) (l := stk)
  rw [← hsplit] at ht
  rcases List.mem_append.1 ht with h | h
  · have := mem_takeWhile_pred _ _ _ h
    simpa using this
  · exact absurd h hn

/-- the invariants of the stack discipline -/
structure StkOk (stk seen : List Fs.Path) : Prop where
  chain : Chain stk
  sub : ∀ t ∈ stk, t ∈ seen

theorem StkOk.step {stk seen : List Fs.Path} {e : Entry} (h : StkOk stk seen) (hk : EntryOk e)
    (hpar : (popStk stk e.dirPart).head?.getD [] = e.path.dropLast) :
    StkOk (if e.isDir then e.path :: popStk stk e.dirPart else popStk stk e.dirPart)
      (seen ++ [e.path]) := by
  have hc : Chain (popStk stk e.dirPart) := h.chain.dropWhile _ stk
  cases e.isDir with
  | true =>
    simp only [if_true]
    refine ⟨⟨hk.ne, hpar.symm, hc⟩, ?_⟩
    intro t ht
    rcases List.mem_cons.1 ht with rfl | ht
    · simp
    · exact List.mem_append_left _ (h.sub t (popStk_sub _ _ t ht))
  | false =>
    simp only [Bool.false_eq_true, if_false]
    exact ⟨hc, fun t ht => List.mem_append_left _ (h.sub t (popStk_sub _ _ t ht))⟩

/-- a directory that has been closed is never entered again -/
theorem wf_closed : ∀ (es : List Entry) (stk seen : List Fs.Path), WF stk seen es → StkOk stk seen →
    ∀ p, p ≠ [] → p ∈ seen → p ∉ stk → ∀ e ∈ es, ¬ p <+: e.dirPart := by
  intro es
  induction es with
  | nil => intro _ _ _ _ p _ _ _ e he; cases he
  | cons x es ih =>
    intro stk seen hwf hok p hp0 hps hpn e he
    obtain ⟨hk, hnew, hpar, hwf'⟩ := hwf
    have hc : Chain (popStk stk x.dirPart) := hok.chain.dropWhile _ stk
    have hpx : p ≠ x.path := fun h => hnew (h ▸ hps)
    have hpn' : p ∉ popStk stk x.dirPart := fun h => hpn (popStk_sub _ _ p h)
    rcases List.mem_cons.1 he with rfl | he
    · -- the entry itself: its parent is the innermost open directory
      intro hpre
      have hpd : p <+: e.path.dropLast := by
        unfold Entry.dirPart at hpre
        cases hd : e.isDir with
        | true =>
          rw [hd] at hpre
          exact prefix_dropLast p e.path hpre hpx
        | false =>
          rw [hd] at hpre
          exact hpre
      rw [← hpar] at hpd
      exact hpn' (hc.prefix_mem _ p hp0 hpd)
    · refine ih _ _ hwf' (hok.step hk hpar) p hp0 (List.mem_append_left _ hps) ?_ e he
      cases x.isDir with
      | true =>
        simp only [if_true, List.mem_cons, not_or]
        exact ⟨hpx, hpn'⟩
      | false => simpa using hpn'

/-- an open directory: the entries inside it come first, contiguously -/
theorem wf_open : ∀ (es : List Entry) (stk seen : List Fs.Path), WF stk seen es → StkOk stk seen →
    ∀ p ∈ stk, ∃ inside post, es = inside ++ post ∧
      (∀ e ∈ inside, p <+: e.dirPart) ∧ (∀ e ∈ post, ¬ p <+: e.dirPart) := by
  intro es
  induction es with
  | nil => intro _ _ _ _ p _; exact ⟨[], [], rfl, fun _ h => (by cases h), fun _ h => (by cases h)⟩
  | cons x es ih =>
    intro stk seen hwf hok p hp
    have hwf0 := hwf
    obtain ⟨hk, hnew, hpar, hwf'⟩ := hwf
    have hp0 : p ≠ [] := hok.chain.mem_ne_nil stk p hp
    have hps : p ∈ seen := hok.sub p hp
    have hpx : p ≠ x.path := fun h => hnew (h ▸ hps)
    by_cases hin : p ∈ popStk stk x.dirPart
    · have hpre := mem_popStk_prefix stk x.dirPart hok.chain p hin
      have hin' : p ∈ (if x.isDir then x.path :: popStk stk x.dirPart else popStk stk x.dirPart) := by
        cases x.isDir <;> simp [hin]
      obtain ⟨inside, post, he, h1, h2⟩ := ih _ _ hwf' (hok.step hk hpar) p hin'
      refine ⟨x :: inside, post, by rw [he]; rfl, ?_, h2⟩
      intro e he'
      rcases List.mem_cons.1 he' with rfl | he'
      · exact hpre
      · exact h1 e he'
    · refine ⟨[], x :: es, rfl, fun _ h => (by cases h), ?_⟩
      have hout := not_mem_popStk stk x.dirPart p hp hin
      intro e he
      rcases List.mem_cons.1 he with rfl | he
      · exact hout
      · refine wf_closed es _ _ hwf' (hok.step hk hpar) p hp0 (List.mem_append_left _ hps) ?_ e he
        cases x.isDir with
        | true =>
          simp only [if_true, List.mem_cons, not_or]
          exact ⟨hpx, hin⟩
        | false => simpa using hin

theorem wf_after : ∀ (pre es : List Entry) (stk seen : List Fs.Path), WF stk seen (pre ++ es) →
    StkOk stk seen → ∃ stk' seen', WF stk' seen' es ∧ StkOk stk' seen' := by
  intro pre
  induction pre with
  | nil => intro es stk seen h hok; exact ⟨stk, seen, h, hok⟩
  | cons x pre ih =>
    intro es stk seen h hok
    obtain ⟨hk, _, hpar, hwf'⟩ := h
    exact ih es _ _ hwf' (hok.step hk hpar)

/-- **well-formed means contiguous**: after a directory entry `D` come, without interruption, the
entries lexically inside `D`; once an entry outside `D` has appeared, nothing is inside `D` -/
theorem wf_contiguous (pre tl : List Entry) (p : Fs.Path) (perms : Option Nat) (mtime : Nat)
    (h : WellFormed (pre ++ .dir p perms mtime :: tl)) :
    ∃ inside post, tl = inside ++ post ∧
      (∀ e ∈ inside, p <+: e.dirPart) ∧ (∀ e ∈ post, ¬ p <+: e.dirPart) := by
  obtain ⟨stk, seen, hwf, hok⟩ := wf_after pre _ [] [] h ⟨trivial, fun _ h => (by cases h)⟩
  obtain ⟨hk, _, hpar, hwf'⟩ := hwf
  have hok' := hok.step hk hpar
  exact wf_open tl _ _ hwf' hok' p (by simp [Entry.isDir, Entry.path])

/-- **deliverable 2 in its contiguous wording**: the directory entry `D`, the entries inside it,
then the rest, none of which is inside `D` — and `D` ends with its recorded bits and time -/
theorem dir_meta_contiguous (fuel : Nat) (s : Extract.St) (pre tl : List Entry)
    (path : Fs.Path) (perms mtime : Nat)
    (hs : Start s) (hfs : EmptyDir s.fs) (ha : Access s.fs)
    (hwf : WellFormed (pre ++ .dir path (some perms) mtime :: tl))
    (hfuel : 2 * (pre ++ Entry.dir path (some perms) mtime :: tl).length + 1 ≤ fuel)
    (hden : Denotes fuel s (pre ++ .dir path (some perms) mtime :: tl)) (hm : mtime ≠ 0) :
    (∃ inside post, tl = inside ++ post ∧
      (∀ e ∈ inside, path <+: e.dirPart) ∧ (∀ e ∈ post, ¬ path <+: e.dirPart)) ∧
    Fs.lookup (extractLoop fuel s).fs (s.fs.cwd ++ path) = some (.dir (perms % 4096) mtime) :=
  ⟨wf_contiguous pre tl path (some perms) mtime hwf,
   dir_meta_final fuel s _ hs hfs ha hwf hfuel hden path perms mtime (by simp) hm⟩

end LhasaV.ExtractTree
