import LhasaV.Lemmas.ExtractTreeAll1
/-!
# C06, all deviations together (part 2): the base directory; `make_parent_directories` below it

* `BaseU fs₀ ds k`: `BaseOk` (ExtractTreeOpt5) with "nothing below the place of `DIR`" replaced by
  "at most regular files directly in it" (`PreDir`, ExtractTreeOw7, relative to the base) — and
  none at all when `DIR` does not exist yet.  `base_factsU`: `mkBase` exists, can be walked, and
  leaves everything below the base as it was.
* `MadeFrom.lookupsB`: `MadeFrom` seen from below the base `cwd ++ ds`.
* `ParentsMadeB`, `parents_madeU`, `after_parentsU`: `make_parent_directories` for a member below
  the base under the invariant — the walk over `DIR`'s components finds them, then finds the first
  `k` directories above the member and makes the others.
-/
namespace LhasaV.ExtractTree
open LhasaV LhasaV.Header LhasaV.Extract LhasaV.GlobFs LhasaV.Contain

/-- the place of the tree before the run: the first `k` components of `DIR` exist (`ds = []`: no
`w=`, the place is `cwd`), the others do not; below the place there are at most regular files
directly in it, and nothing when it does not exist yet -/
structure BaseU (fs0 : Fs.St) (ds : List Bytes) (k : Nat) : Prop where
  names : ∀ c ∈ ds, Name c
  depth : ds.length < 64
  dirs : WalkIn fs0 (ds.take k)
  writable : Fs.canModify fs0 (fs0.cwd ++ ds.take k) = true
  missing : ∀ q, q ≠ [] → q <+: ds.drop k → Fs.lookup fs0 (fs0.cwd ++ ds.take k ++ q) = none
  files : ∀ p, p ≠ [] → Fs.lookup fs0 (fs0.cwd ++ ds ++ p) = none ∨
    (ds.drop k = [] ∧ p.length = 1 ∧ ∃ d m t, Fs.lookup fs0 (fs0.cwd ++ ds ++ p) = some (.file d m t))

/-- `BaseOk` (nothing below) is a special case -/
theorem baseU_of_baseOk {fs0 : Fs.St} {ds : List Bytes} {k : Nat} (h : BaseOk fs0 ds k) : BaseU fs0 ds k :=
  ⟨h.names, h.depth, h.dirs, h.writable, h.missing, fun p hp => Or.inl (h.empty p hp)⟩

/-- `PreDir` (no `w=`; files directly in the extraction directory) is a special case -/
theorem baseU_of_preDir {fs0 : Fs.St} {es : List Entry} (h : PreDir fs0 es) : BaseU fs0 [] 0 := by
  obtain ⟨m, t, hl, hacc⟩ := h.dir
  refine ⟨fun _ h => (by cases h), by decide, ?_, ?_, ?_, ?_⟩
  · intro pre hp
    have : pre = [] := by simpa using hp
    subst this
    refine ⟨m, t, by simpa using hl, ?_⟩
    rcases hacc with h | h
    · exact Or.inl h
    · exact Or.inr h.1
  · exact canModify_of_dir fs0 _ m t (by simpa using hl) hacc
  · intro q hq hp
    have : q = [] := by simpa using hp
    exact absurd this hq
  · intro p hp
    rcases h.files p hp with h1 | ⟨h1, h2⟩
    · exact Or.inl (by simpa using h1)
    · exact Or.inr ⟨rfl, h1, by simpa using h2⟩

theorem baseU_of_empty {fs0 : Fs.St} (h : EmptyDir fs0) : BaseU fs0 [] 0 :=
  baseU_of_preDir (preDir_of_empty fs0 [] h (fun _ he => (by cases he)))

structure BaseFactsU (fs0 : Fs.St) (ds : List Bytes) (k : Nat) (fs1 : Fs.St) : Prop where
  run : mkDirs ds [] fs0 = (true, fs1)
  made : MadeFrom fs0 fs1 (ds.take k) (ds.drop k)
  walk : WalkIn fs1 ds
  baseDir : ∃ m t, Fs.lookup fs1 (fs0.cwd ++ ds) = some (.dir m t) ∧
    (fs0.root = true ∨ (m / 64 % 2 = 1 ∧ m / 128 % 2 = 1))
  below : ∀ p, p ≠ [] → Fs.lookup fs1 (fs0.cwd ++ ds ++ p) = Fs.lookup fs0 (fs0.cwd ++ ds ++ p)
  again : mkDirs ds [] fs1 = (true, fs1)

theorem base_factsU {fs0 : Fs.St} {ds : List Bytes} {k : Nat} (hb : BaseU fs0 ds k) (ha : AccessW fs0) :
    BaseFactsU fs0 ds k (mkBase fs0 ds) := by
  have hsplit : ds.take k ++ ds.drop k = ds := List.take_append_drop k ds
  have hn : ∀ x ∈ ds.take k ++ ds.drop k, Name x := by rw [hsplit]; exact hb.names
  have hlen : (ds.take k ++ ds.drop k).length < 64 := by rw [hsplit]; exact hb.depth
  have h1 : mkDirs (ds.take k) [] fs0 = (true, fs0) :=
    mkDirs_exist (ds.take k) [] fs0 (fun x hx => hn x (List.mem_append_left _ (by simpa using hx)))
      (by simp at hlen ⊢; omega) (by simpa using hb.dirs)
  obtain ⟨fs1, h2, hmade⟩ := mkDirs_make (ds.drop k) (ds.take k) fs0 ha hn hlen hb.dirs hb.writable hb.missing
  have hrun : mkDirs ds [] fs0 = (true, fs1) := by
    conv => lhs; rw [← hsplit]
    rw [mkDirs_append, h1]
    simpa using h2
  have hfs1 : mkBase fs0 ds = fs1 := by unfold mkBase; rw [hrun]
  rw [hfs1]
  have hp := hmade.params
  have hkept := hmade.kept hb.missing
  have hbits : fs0.root = true ∨ ((0o755 - (0o755 &&& fs0.umask)) / 64 % 2 = 1 ∧
      (0o755 - (0o755 &&& fs0.umask)) / 128 % 2 = 1) := by
    rcases ha with h | h
    · exact Or.inl h
    · exact Or.inr h.2
  have hwalk : WalkIn fs1 ds := by
    intro pre hpre
    rw [hp.cwd, hp.root]
    rcases List.prefix_or_prefix_of_prefix hpre (List.take_prefix k ds) with h | h
    · obtain ⟨m, t, hl, hs⟩ := hb.dirs pre h
      obtain ⟨t', hl'⟩ := hkept.2.2 _ m t hl
      exact ⟨m, t', hl', hs⟩
    · obtain ⟨q, rfl⟩ := h
      by_cases hq : q = []
      · subst hq
        obtain ⟨m, t, hl, hs⟩ := hb.dirs (ds.take k) (List.prefix_refl _)
        obtain ⟨t', hl'⟩ := hkept.2.2 _ m t hl
        exact ⟨m, t', by simpa using hl', hs⟩
      · have hqb : q <+: ds.drop k := by
          have h' : ds.take k ++ q <+: ds.take k ++ ds.drop k := by rw [hsplit]; exact hpre
          exact (List.prefix_append_right_inj _).1 h'
        refine ⟨_, _, by rw [← List.append_assoc]; exact hmade.made q hq hqb, ?_⟩
        rcases hbits with h | h
        · exact Or.inl h
        · exact Or.inr h.1
  refine ⟨hrun, hmade, hwalk, ?_, ?_, ?_⟩
  · by_cases hd : ds.drop k = []
    · have htk : ds.take k = ds := by have := hsplit; rw [hd, List.append_nil] at this; exact this
      rw [hmade.same hd]
      obtain ⟨m, t, hl, _⟩ := hb.dirs (ds.take k) (List.prefix_refl _)
      rw [htk] at hl
      refine ⟨m, t, hl, ?_⟩
      have hw := hb.writable
      rw [htk] at hw
      unfold Fs.canModify at hw
      rw [hl] at hw
      by_cases hr : fs0.root = true
      · exact Or.inl hr
      · have hr' : fs0.root = false := by simpa using hr
        rw [hr'] at hw
        right
        simpa using hw
    · have := hmade.made (ds.drop k) hd (List.prefix_refl _)
      rw [List.append_assoc, hsplit] at this
      exact ⟨_, _, this, hbits⟩
  · intro p hp0
    have hlp : 0 < p.length := List.length_pos_iff.2 hp0
    have hlk : (ds.take k).length + (ds.drop k).length = ds.length := by
      rw [← List.length_append, hsplit]
    exact hmade.frame _ (len_ne (by simp only [List.length_append]; omega))
      (fun q _ hqb => len_ne (by have := hqb.length_le; simp only [List.length_append]; omega))
  · exact mkDirs_exist ds [] fs1 (by simpa using hb.names) (by simpa using hb.depth) (by simpa using hwalk)

theorem BaseFactsU.same {fs0 fs1 : Fs.St} {ds : List Bytes} {k : Nat} (h : BaseFactsU fs0 ds k fs1)
    (hd : ds.drop k = []) : fs1 = fs0 := h.made.same hd

/-! ## `MadeFrom` seen from below the base -/

theorem MadeFrom.lookupsB {fs fs' : Fs.St} {ds w b : List Bytes} (h : MadeFrom fs fs' (ds ++ w) b)
    (hnow : w ≠ [] → ∃ m, Fs.lookup fs (fs.cwd ++ ds ++ w) = some (.dir m fs.now)) :
    (∀ x, (∀ q, q <+: w ++ b → x ≠ fs.cwd ++ ds ++ q) → Fs.lookup fs' x = Fs.lookup fs x) ∧
    (∀ p, p <+: w → p ≠ [] → Fs.lookup fs' (fs.cwd ++ ds ++ p) = Fs.lookup fs (fs.cwd ++ ds ++ p)) ∧
    (∀ q, q ≠ [] → q <+: b →
      Fs.lookup fs' (fs.cwd ++ ds ++ (w ++ q)) = some (.dir (impMode fs.umask) fs.now)) ∧
    (∀ m t, Fs.lookup fs (fs.cwd ++ ds) = some (.dir m t) →
      ∃ t', Fs.lookup fs' (fs.cwd ++ ds) = some (.dir m t') ∧ (t' = t ∨ t' = fs.now) ∧
        (w = [] → b ≠ [] → fs.cwd ++ ds ≠ [] → t' = fs.now)) := by
  have e1 : fs.cwd ++ (ds ++ w) = fs.cwd ++ ds ++ w := by simp
  refine ⟨?_, ?_, ?_, ?_⟩
  · intro x hx
    apply h.frame x (by rw [e1]; exact hx w (List.prefix_append _ _))
    intro q _ hq
    rw [e1, List.append_assoc (fs.cwd ++ ds)]
    exact hx (w ++ q) ((List.prefix_append_right_inj _).2 hq)
  · intro p hp hp0
    by_cases hb : b = []
    · rw [h.same hb]
    by_cases hpw : p = w
    · subst hpw
      obtain ⟨m, hl⟩ := hnow hp0
      have := h.stamp hb (by rw [e1]; exact fun e => hp0 (List.append_eq_nil_iff.1 e).2) m _
        (by rw [e1]; exact hl)
      rw [e1] at this
      rw [this, hl]
    · have hlt := prefix_len_lt hp hpw
      apply h.frame _ (by rw [e1]; exact append_ne_of_ne hpw)
      intro q _ _
      exact len_ne (by simp only [List.length_append]; omega)
  · intro q hq hqb
    have := h.made q hq hqb
    rw [e1, List.append_assoc (fs.cwd ++ ds)] at this
    exact this
  · intro m t hl
    by_cases hb : b = []
    · rw [h.same hb]; exact ⟨t, hl, Or.inl rfl, fun _ h' => absurd hb h'⟩
    by_cases hw : w = []
    · subst hw
      by_cases hc : fs.cwd ++ ds = []
      · refine ⟨t, ?_, Or.inl rfl, fun _ _ h' => absurd hc h'⟩
        rw [hc] at hl ⊢; rw [lookup_nil] at hl ⊢; exact hl
      · have := h.stamp hb (by simpa using hc) m t (by simpa using hl)
        exact ⟨fs.now, by simpa using this, Or.inr rfl, fun _ _ _ => rfl⟩
    · refine ⟨t, ?_, Or.inl rfl, fun h' => absurd h' hw⟩
      rw [h.frame _ (by rw [e1]; exact cwd_ne_append hw) (fun q _ _ => by
        rw [e1, List.append_assoc (fs.cwd ++ ds)]; exact cwd_ne_append (by simp [hw])), hl]

/-! ## `make_parent_directories` for a member below the base -/

/-- what `make_parent_directories` does for a new path, once the components of `DIR` are found -/
structure ParentsMadeB (fs1 : Fs.St) (ds : List Bytes) (fs fsY : Fs.St) (par : List Bytes) (k : Nat) :
    Prop where
  run : mkDirs par (joinDir ds) fs = (true, fsY)
  made : MadeFrom fs fsY (ds ++ par.take k) (par.drop k)
  usable : ∀ pre, pre <+: par.take k → UsableDirB fs1 (fs1.cwd ++ ds) fs pre
  missing : ∀ q, q ≠ [] → q <+: par.drop k → Fs.lookup fs (fs1.cwd ++ ds ++ (par.take k ++ q)) = none
  free : ∀ q, q ≠ [] → q <+: par → Fs.lookup fs1 (fs1.cwd ++ ds ++ q) = none

/-- **`make_parent_directories` under the invariant** (the part below the base) -/
theorem parents_madeU {fs1 fs : Fs.St} {ds : List Bytes} {done stk : List Entry}
    (hi : FsInvU fs1 (fs1.cwd ++ ds) done (stk.map Entry.path) fs) (hd : DoneI done stk) (ha : AccessW fs1)
    (hw : WalkIn fs ds) (hnds : ∀ c ∈ ds, Name c)
    (path : Fs.Path) (hne : path ≠ []) (hn : ∀ c ∈ path, Name c) (hlen : ds.length + path.length < 64)
    (hanc : ∀ a ∈ done, a.path <+: path → a.path ≠ path → a.path ∈ stk.map Entry.path)
    (hfree : ∀ q, q ≠ [] → q <+: path.dropLast → Fs.lookup fs1 (fs1.cwd ++ ds ++ q) = none) :
    ∃ fsY k, ParentsMadeB fs1 ds fs fsY path.dropLast k := by
  have hdc : ∀ p q : List Bytes, p <+: q → (q = [] ∨ ∃ e ∈ done, q <+: e.path) →
      (p = [] ∨ ∃ e ∈ done, p <+: e.path) := by
    intro p q hpq hq
    rcases hq with rfl | ⟨e, he, hqe⟩
    · exact Or.inl (List.prefix_nil.1 hpq)
    · exact Or.inr ⟨e, he, hpq.trans hqe⟩
  obtain ⟨k, _, hQ, hno⟩ := split_exist (fun p => p = [] ∨ ∃ e ∈ done, p <+: e.path) hdc
    path.dropLast [] (Or.inl rfl)
  simp only [List.nil_append] at hQ hno
  have hsplit : path.dropLast.take k ++ path.dropLast.drop k = path.dropLast := List.take_append_drop k _
  have hp := hi.params
  have hus : ∀ pre, pre <+: path.dropLast.take k → UsableDirB fs1 (fs1.cwd ++ ds) fs pre := by
    intro pre hpre
    obtain ⟨h1, h2⟩ := dropLast_prefix_ne path pre hne (hpre.trans (List.take_prefix _ _))
    exact usable_of_invU hi hd ha path hanc pre h1 h2 (hdc _ _ hpre hQ)
  have hmiss : ∀ q, q ≠ [] → q <+: path.dropLast.drop k →
      Fs.lookup fs (fs1.cwd ++ ds ++ (path.dropLast.take k ++ q)) = none := by
    intro q hq hqb
    have hpar : path.dropLast.take k ++ q <+: path.dropLast := by
      conv => rhs; rw [← hsplit]
      exact (List.prefix_append_right_inj _).2 hqb
    rw [hi.other _ (by simp [hq]) (fun e he hpe => hno q hq hqb (Or.inr ⟨e, he, hpe⟩))]
    exact hfree _ (by simp [hq]) hpar
  have hlp : path.dropLast.length + 1 = path.length := by
    rw [List.length_dropLast]
    have : 0 < path.length := List.length_pos_iff.2 hne
    omega
  have hnames : ∀ x ∈ (ds ++ path.dropLast.take k) ++ path.dropLast.drop k, Name x := by
    rw [List.append_assoc, hsplit]
    intro x hx
    rcases List.mem_append.1 hx with h | h
    · exact hnds x h
    · exact hn x (List.dropLast_subset _ h)
  have hl64 : ((ds ++ path.dropLast.take k) ++ path.dropLast.drop k).length < 64 := by
    rw [List.append_assoc, hsplit, List.length_append]; omega
  have hwalk : WalkIn fs (ds ++ path.dropLast.take k) := walkIn_below hp hw hus
  have h1 : mkDirs (path.dropLast.take k) (joinDir ds) fs = (true, fs) :=
    mkDirs_exist (path.dropLast.take k) ds fs
      (fun x hx => hnames x (List.mem_append_left _ hx))
      (by simp only [List.length_append] at hl64 ⊢; omega) hwalk
  obtain ⟨fsY, h2, hmade⟩ := mkDirs_make (path.dropLast.drop k) (ds ++ path.dropLast.take k) fs
    (accessW_params hp ha) hnames hl64 hwalk ((hus _ (List.prefix_refl _)).modify hp)
    (fun q hq hqb => by
      rw [hp.cwd, ← List.append_assoc fs1.cwd, List.append_assoc (fs1.cwd ++ ds)]
      exact hmiss q hq hqb)
  refine ⟨fsY, k, ?_, hmade, hus, hmiss, hfree⟩
  conv => lhs; rw [← hsplit]
  rw [mkDirs_append, h1]
  simp only [Bool.not_true, Bool.false_eq_true, if_false]
  rw [← joinDir_append]
  exact h2

/-- **after `make_parent_directories`**: every directory above the new path is usable and carries
`now`; what existed is as before, what was missing is a directory `impMode` / `now`; the base
keeps its mode -/
theorem after_parentsU {fs1 fs fsY : Fs.St} {ds par : List Bytes} {k : Nat}
    (hp : SameParams fs1 fs) (ha : AccessW fs1) (h : ParentsMadeB fs1 ds fs fsY par k) :
    (∀ pre, pre <+: par → UsableDirB fs1 (fs1.cwd ++ ds) fsY pre) ∧
    (∀ pre, pre ≠ [] → pre <+: par.take k →
      Fs.lookup fsY (fs1.cwd ++ ds ++ pre) = Fs.lookup fs (fs1.cwd ++ ds ++ pre)) ∧
    (∀ q, q ≠ [] → q <+: par.drop k →
      Fs.lookup fsY (fs1.cwd ++ ds ++ (par.take k ++ q)) = some (.dir (impMode fs1.umask) fs1.now)) ∧
    (∀ x, (∀ q, q <+: par → x ≠ fs1.cwd ++ ds ++ q) → Fs.lookup fsY x = Fs.lookup fs x) ∧
    (∀ m t, Fs.lookup fs (fs1.cwd ++ ds) = some (.dir m t) →
      ∃ t', Fs.lookup fsY (fs1.cwd ++ ds) = some (.dir m t') ∧ (t' = t ∨ t' = fs1.now) ∧
        (par.take k = [] → par.drop k ≠ [] → fs1.cwd ++ ds ≠ [] → t' = fs1.now)) := by
  have hsplit : par.take k ++ par.drop k = par := List.take_append_drop k _
  have hnow : par.take k ≠ [] →
      ∃ m, Fs.lookup fs (fs.cwd ++ ds ++ par.take k) = some (.dir m fs.now) := by
    intro h0
    obtain ⟨m, t, hl, _, ht⟩ := h.usable _ (List.prefix_refl _)
    exact ⟨m, by rw [hp.cwd, hp.now, hl, ht h0]⟩
  obtain ⟨l1, l2, l3, l4⟩ := h.made.lookupsB hnow
  rw [hp.cwd, hsplit] at l1
  rw [hp.cwd] at l2
  rw [hp.cwd, hp.umask, hp.now] at l3
  rw [hp.cwd, hp.now] at l4
  refine ⟨?_, fun pre h0 hpre => l2 pre hpre h0, l3, l1, l4⟩
  intro pre hpre
  rcases prefix_split (hsplit ▸ hpre) with h1 | ⟨q, hq, hqb, rfl⟩
  · by_cases h0 : pre = []
    · subst h0
      obtain ⟨m, t, hl, hacc, _⟩ := h.usable [] List.nil_prefix
      obtain ⟨t', hl', _⟩ := l4 m t (by simpa using hl)
      exact ⟨m, t', by simpa using hl', hacc, fun h' => absurd rfl h'⟩
    · obtain ⟨m, t, hl, hacc, ht⟩ := h.usable pre h1
      exact ⟨m, t, by rw [l2 pre h1 h0]; exact hl, hacc, ht⟩
  · exact ⟨_, _, l3 q hq hqb, accessW_bits ha, fun _ => rfl⟩

end LhasaV.ExtractTree
