import LhasaV.Lemmas.ExtractTreeOw1
/-!
# C06, overwriting (part 2): the file-system invariant over a directory that is not empty

`FsInvO fs₀ done stk fs` is `FsInv` (ExtractTree8) with "nothing else below the extraction
directory" replaced by "everything else below the extraction directory is AS IT WAS in `fs₀`":
`done` are the entries WRITTEN so far (new or replacing an old file); a path that is not the path
of a written entry — not yet reached, kept on the user's or the policy's decision, or not in the
archive at all — holds exactly what it held at the start.  The extraction directory keeps its
mode; its time is the time of the run once something was written, and untouched before.
-/
namespace LhasaV.ExtractTree
open LhasaV LhasaV.Header LhasaV.Extract LhasaV.GlobFs LhasaV.Contain

structure FsInvO (fs0 : Fs.St) (done : List Entry) (stk : List Fs.Path) (fs : Fs.St) : Prop where
  params : SameParams fs0 fs
  ents : ∀ e ∈ done, Fs.lookup fs (fs0.cwd ++ e.path) =
    some (if e.path ∈ stk then e.opened fs0.now fs0.umask else e.final fs0.now fs0.umask)
  other : ∀ p, p ≠ [] → (∀ e ∈ done, e.path ≠ p) →
    Fs.lookup fs (fs0.cwd ++ p) = Fs.lookup fs0 (fs0.cwd ++ p)
  cwd : ∃ m t0 t, Fs.lookup fs0 fs0.cwd = some (.dir m t0) ∧ Fs.lookup fs fs0.cwd = some (.dir m t) ∧
    (fs0.root = true ∨ (m / 64 % 2 = 1 ∧ m / 128 % 2 = 1)) ∧
    (done ≠ [] → fs0.cwd ≠ [] → t = fs0.now) ∧ (done = [] → t = t0)
  outside : ∀ x, ¬ fs0.cwd <+: x → Fs.lookup fs x = Fs.lookup fs0 x

/-- the start: nothing written, the file system as it is -/
theorem fsInvO_start (fs0 : Fs.St) (m t : Nat) (hl : Fs.lookup fs0 fs0.cwd = some (.dir m t))
    (hacc : fs0.root = true ∨ (m / 64 % 2 = 1 ∧ m / 128 % 2 = 1)) : FsInvO fs0 [] [] fs0 :=
  ⟨SameParams.refl fs0, fun e he => (by cases he), fun _ _ _ => rfl,
   ⟨m, t, t, hl, hl, hacc, fun h => absurd rfl h, fun _ => rfl⟩, fun _ _ => rfl⟩

/-! ## open directories can be walked through and written -/

theorem open_lookupO {fs0 fs : Fs.St} {done stk : List Entry} (hi : FsInvO fs0 done (stk.map Entry.path) fs)
    (hd : DoneOk done stk) (ha : Access fs0) (p : Fs.Path) (hp : p ∈ stk.map Entry.path) :
    ∃ m, Fs.lookup fs (fs0.cwd ++ p) = some (.dir m fs0.now) ∧
      (fs0.root = true ∨ (m / 64 % 2 = 1 ∧ m / 128 % 2 = 1)) := by
  obtain ⟨d, hds, rfl⟩ := List.mem_map.1 hp
  obtain ⟨hdd, hdir⟩ := hd.sub d hds
  have hl := hi.ents d hdd
  rw [if_pos hp] at hl
  obtain ⟨b, hb, ho⟩ := opened_dir d hdir fs0.now fs0.umask
  rw [ho] at hl
  refine ⟨_, hl, ?_⟩
  rcases ha with ha | ha
  · exact Or.inl ha
  · exact Or.inr (ha b hb)

/-- the directories above an entry exist: every proper, non-empty prefix of its path is an open
directory -/
theorem walk_of_invO {fs0 fs : Fs.St} {done stk : List Entry}
    (hi : FsInvO fs0 done (stk.map Entry.path) fs) (hd : DoneOk done stk) (ha : Access fs0)
    (path : Fs.Path)
    (hpre : ∀ pre, pre ≠ [] → pre <+: path → pre ≠ path → pre ∈ stk.map Entry.path) :
    Walk fs fs0.cwd path := by
  intro pre hp hne
  by_cases h0 : pre = []
  · subst h0
    obtain ⟨m, _, t, _, hl, hacc, _⟩ := hi.cwd
    refine ⟨m, t, by simpa using hl, ?_⟩
    rw [hi.params.root]
    rcases hacc with h | h
    · exact Or.inl h
    · exact Or.inr h.1
  · have hm := hpre pre h0 hp hne
    obtain ⟨m, hl, hacc⟩ := open_lookupO hi hd ha pre hm
    refine ⟨m, fs0.now, hl, ?_⟩
    rw [hi.params.root]
    rcases hacc with h | h
    · exact Or.inl h
    · exact Or.inr h.1

/-- the parent of an entry is writable, and (unless it is the extraction directory) already
carries the time `now` -/
theorem parent_of_invO {fs0 fs : Fs.St} {done stk : List Entry}
    (hi : FsInvO fs0 done (stk.map Entry.path) fs) (hd : DoneOk done stk) (ha : Access fs0)
    (path : Fs.Path) (hne : path ≠ []) (hpar : (stk.map Entry.path).head?.getD [] = path.dropLast) :
    Fs.canModify fs (fs0.cwd ++ path).dropLast = true ∧
    (path.dropLast ≠ [] → done ≠ [] ∧
      ∃ m, Fs.lookup fs (fs0.cwd ++ path.dropLast) = some (.dir m fs0.now)) := by
  rw [List.dropLast_append_of_ne_nil hne]
  by_cases h0 : path.dropLast = []
  · rw [h0]
    obtain ⟨m, _, t, _, hl, hacc, _⟩ := hi.cwd
    refine ⟨?_, fun h => absurd rfl h⟩
    unfold Fs.canModify
    rw [List.append_nil, hl, hi.params.root]
    rcases hacc with h | h
    · simp [h]
    · simp [h.1, h.2]
  · have hm : path.dropLast ∈ stk.map Entry.path := by
      cases hs : stk.map Entry.path with
      | nil => rw [hs] at hpar; exact absurd hpar.symm h0
      | cons t rest => rw [hs] at hpar; simp at hpar; rw [← hpar]; simp
    obtain ⟨m, hl, hacc⟩ := open_lookupO hi hd ha _ hm
    refine ⟨?_, fun _ => ⟨?_, m, hl⟩⟩
    · unfold Fs.canModify
      rw [hl, hi.params.root]
      rcases hacc with h | h
      · simp [h]
      · simp [h.1, h.2]
    · obtain ⟨d, hds, _⟩ := List.mem_map.1 hm
      exact List.ne_nil_of_mem (hd.sub d hds).1

/-! ## the invariant after a write (creation or replacement) -/

/-- **an entry is written**: `fs'` is `fs` with the entry's object at its path — whether the place
was free or held an old file — and the parent stamped -/
theorem FsInvO.create {fs0 fs fs' : Fs.St} {done : List Entry} {stk stk' : List Fs.Path} {e : Entry}
    (hi : FsInvO fs0 done stk fs) (hne : e.path ≠ []) (hok : ∀ e' ∈ done, e'.path ≠ [])
    (hnew : ∀ e' ∈ done, e'.path ≠ e.path)
    (hc : Created fs fs' (fs0.cwd ++ e.path)
      (if e.path ∈ stk' then e.opened fs0.now fs0.umask else e.final fs0.now fs0.umask))
    (hstk : ∀ p, p ≠ e.path → (p ∈ stk' ↔ p ∈ stk))
    (hpar : e.path.dropLast ≠ [] → done ≠ [] ∧
      ∃ m, Fs.lookup fs (fs0.cwd ++ e.path.dropLast) = some (.dir m fs0.now)) :
    FsInvO fs0 (done ++ [e]) stk' fs' := by
  have hq : (fs0.cwd ++ e.path).dropLast = fs0.cwd ++ e.path.dropLast :=
    List.dropLast_append_of_ne_nil hne
  have hnow : fs.now = fs0.now := hi.params.now
  have hsame : ∀ p, p ≠ [] → p ≠ e.path → Fs.lookup fs' (fs0.cwd ++ p) = Fs.lookup fs (fs0.cwd ++ p) := by
    intro p hp0 hpe
    by_cases hpp : p = e.path.dropLast
    · subst hpp
      obtain ⟨_, m, hl⟩ := hpar hp0
      have := hc.parent m fs0.now (by rw [hq]; exact hl)
        (by rw [hq]; exact fun h => hp0 (List.append_eq_nil_iff.1 h).2)
      rw [hq, hnow] at this
      rw [this, hl]
    · exact hc.frame _ (append_ne_of_ne hpe) (by rw [hq]; exact append_ne_of_ne hpp)
  refine ⟨hi.params.trans hc.params, ?_, ?_, ?_, ?_⟩
  · intro e' he'
    rcases List.mem_append.1 he' with he' | he'
    · have hpe := hnew e' he'
      rw [hsame e'.path (hok e' he') hpe, hi.ents e' he']
      simp only [hstk _ hpe]
    · have : e' = e := by simpa using he'
      subst this
      exact hc.self
  · intro p hp0 hall
    have hpe : p ≠ e.path := fun h => hall e (by simp) h.symm
    rw [hsame p hp0 hpe]
    exact hi.other p hp0 (fun e' he' => hall e' (List.mem_append_left _ he'))
  · obtain ⟨m, t0, t, hl0, hl, hacc, ht, _⟩ := hi.cwd
    have hnn : done ++ [e] = [] → False := by simp
    by_cases h0 : e.path.dropLast = []
    · rw [h0, List.append_nil] at hq
      by_cases hc0 : fs0.cwd = []
      · refine ⟨m, t0, t, hl0, ?_, hacc, fun _ h => absurd hc0 h, fun h => (hnn h).elim⟩
        rw [hc0] at hl ⊢
        rw [lookup_nil] at hl ⊢
        exact hl
      · refine ⟨m, t0, fs0.now, hl0, ?_, hacc, fun _ _ => rfl, fun h => (hnn h).elim⟩
        have := hc.parent m t (by rw [hq]; exact hl) (by rw [hq]; exact hc0)
        rw [hq, hnow] at this
        exact this
    · refine ⟨m, t0, t, hl0, ?_, hacc, fun _ h => ht (hpar h0).1 h, fun h => (hnn h).elim⟩
      rw [hc.frame _ (cwd_ne_append hne) (by rw [hq]; exact cwd_ne_append h0)]
      exact hl
  · intro x hx
    rw [hc.frame x (fun h => hx (h ▸ List.prefix_append _ _))
      (fun h => hx (by rw [h, hq]; exact List.prefix_append _ _))]
    exact hi.outside x hx

/-! ## the invariant after the metadata step of the innermost open directory -/

theorem FsInvO.close {fs0 fs fs' : Fs.St} {done : List Entry} {t : Fs.Path} {stk : List Fs.Path}
    {d : Entry} (hi : FsInvO fs0 done (t :: stk) fs) (hd : d ∈ done) (hdt : d.path = t)
    (hne : t ≠ []) (hts : t ∉ stk) (huniq : ∀ e' ∈ done, e'.path = t → e' = d)
    (hc : Touched fs fs' (fs0.cwd ++ t) (d.final fs0.now fs0.umask)) :
    FsInvO fs0 done stk fs' := by
  refine ⟨hi.params.trans hc.params, ?_, ?_, ?_, ?_⟩
  · intro e' he'
    by_cases hpe : e'.path = t
    · have := huniq e' he' hpe
      subst this
      rw [hpe, if_neg hts, hc.self]
    · rw [hc.frame _ (append_ne_of_ne hpe), hi.ents e' he']
      simp only [List.mem_cons, hpe, false_or]
  · intro p hp0 hall
    have hpt : p ≠ t := fun h => hall d hd (hdt.trans h.symm)
    rw [hc.frame _ (append_ne_of_ne hpt)]
    exact hi.other p hp0 hall
  · obtain ⟨m, t0, t', hl0, hl, hacc, ht, ht0⟩ := hi.cwd
    refine ⟨m, t0, t', hl0, ?_, hacc, ht, ht0⟩
    rw [hc.frame _ (cwd_ne_append hne)]
    exact hl
  · intro x hx
    rw [hc.frame x (fun h => hx (h ▸ List.prefix_append _ _))]
    exact hi.outside x hx

end LhasaV.ExtractTree
