import LhasaV.Lemmas.ArchivePack
/-!
# C06, archives as bytes, any header builder (part 1): member schemes, the basic reader

`ArchiveOf.archiveWith` writes level-1/2 headers with OS type 'U' (`fieldsOf`).  Here the builder
is abstracted to a *scheme* `S`: for every entry the typed header fields `S.fields e` (any level,
any OS type, any method string), the member data `S.data e`, the header `S.hdr e` the parser is to
return, and the entry `S.den e` that header denotes (the entry itself, or e.g. the entry with its
names folded to lower case when the OS type makes the parser do that).  `MemberOk S mk e` collects
what ArchiveOf2–6 prove about `fieldsOf`; everything else of ArchiveOf4–8 is re-proved for schemes
(the reader lemmas that do not mention `fieldsOf` are reused).  `mk` is the reader's `mktime`.

This file: the signature scan and `lha_basic_reader_next_file` along `archiveS S es`
(the analogue of ArchiveOf4 and ArchiveOf5).
-/
set_option linter.unusedSimpArgs false
namespace LhasaV.ArchiveOs
open LhasaV LhasaV.Header LhasaV.Extract LhasaV.GlobFs LhasaV.Contain LhasaV.ExtractTree
open LhasaV.ExtractTree.Sample LhasaV.Spec.HeaderEnc LhasaV.Reader LhasaV.ReaderIndep LhasaV.ArchiveOf

/-- how a member is written -/
structure Scheme where
  /-- the typed header fields -/
  fields : Entry → Fields
  /-- the (compressed) member data behind the header -/
  data : Entry → Bytes
  /-- the header the parser returns -/
  hdr : Entry → Hdr
  /-- the entry that header denotes -/
  den : Entry → Entry := id

/-- one member: header and data -/
def memberS (S : Scheme) (e : Entry) : Bytes := encode (S.fields e) ++ S.data e

/-- **the archive builder of a scheme** -/
def archiveS (S : Scheme) (es : List Entry) : Array UInt8 := (es.map (memberS S)).flatten.toArray

/-- **what a scheme must guarantee for an entry**: a recognised method string at offset 2 of a
header of at least 24 bytes; the parser (with `mktime` = `mk`) returns `S.hdr e` and leaves what
follows; that header denotes `S.den e`, declares the size of the member data, is not a MacBinary
member; and for a file the header's method has a decoder that turns the member data into the
file's data, whose length and CRC the header records -/
structure MemberOk (S : Scheme) (mk : Nat → Nat) (e : Entry) : Prop where
  sig : SigOk (S.fields e).method
  shape : ∃ a b tl, encode (S.fields e) = a :: b :: ((S.fields e).method ++ tl) ∧ 17 ≤ tl.length
  read : ∀ rest, Header.read mk (encode (S.fields e) ++ rest) = .ok (S.hdr e, rest)
  denotes : HdrOf (S.den e) (S.hdr e)
  clen : (S.hdr e).compressedLength = (S.data e).length
  os : (S.hdr e).osType ≠ 0x6d
  file : ∀ p data perms t, S.den e = .file p data perms t →
    (S.hdr e).length = data.length ∧ (S.hdr e).crc = (Crc.buf 0 data).toNat ∧
    ∃ d info, decoderFor (methodName (S.hdr e)) = some d ∧ decoderInfo (methodName (S.hdr e)) = some info ∧
      Wrap.avail d.total data.length (.ok (d.init { data := (S.data e).toArray })) = data

/-- every entry of the list is written soundly -/
def AllOk (S : Scheme) (mk : Nat → Nat) (es : List Entry) : Prop := ∀ e ∈ es, MemberOk S mk e

theorem AllOk.tail {S : Scheme} {mk : Nat → Nat} {e : Entry} {es : List Entry} (h : AllOk S mk (e :: es)) :
    AllOk S mk es :=
  fun x hx => h x (List.mem_cons_of_mem _ hx)

/-- the bytes of the members of `es`, one after the other -/
abbrev flat (S : Scheme) (es : List Entry) : Bytes := (archiveS S es).toList

theorem flat_cons (S : Scheme) (e : Entry) (es : List Entry) :
    flat S (e :: es) = encode (S.fields e) ++ (S.data e ++ flat S es) := by
  simp [flat, archiveS, memberS, List.append_assoc]

theorem encode_ne_nil (f : Fields) : encode f ≠ [] := by
  unfold encode encodeWith
  simp only []
  split
  · simp
  · split
    · simp
    · split <;> simp [le16]

theorem encode_length_pos (f : Fields) : 1 ≤ (encode f).length := by
  have := encode_ne_nil f
  cases h : encode f with
  | nil => exact absurd h this
  | cons _ _ => simp

theorem flat_cons_ne (S : Scheme) (e : Entry) (es : List Entry) : flat S (e :: es) ≠ [] := by
  rw [flat_cons]
  intro h
  exact encode_ne_nil _ (List.append_eq_nil_iff.1 h).1

theorem MemberOk.length {S : Scheme} {mk : Nat → Nat} {e : Entry} (h : MemberOk S mk e) :
    24 ≤ (encode (S.fields e)).length := by
  obtain ⟨a, b, tl, hs, hl⟩ := h.shape
  rw [hs]
  simp [h.sig.1]
  omega

/-! ## the stream -/

/-- the signature scan finds a member's header at once -/
theorem firstHeader_member {S : Scheme} {mk : Nat → Nat} {e : Entry} (h : MemberOk S mk e) (rest : Bytes) :
    Stream.firstHeader (encode (S.fields e) ++ rest) = some 0 := by
  obtain ⟨a, b, tl, hs, hl⟩ := h.shape
  have hm := h.sig
  rw [hs]
  have hsig : Stream.sigAt (a :: b :: ((S.fields e).method ++ tl) ++ rest) 0 := by
    have := sigAt_of_sigOk _ hm a b (tl ++ rest)
    simpa [List.append_assoc] using this
  have hlen : 24 ≤ (a :: b :: ((S.fields e).method ++ tl) ++ rest).length := by
    simp [hm.1]; omega
  unfold Stream.firstHeader Stream.firstHeaderLim
  have hS : Stream.scanLimit = 262152 := rfl
  obtain ⟨k, hk⟩ : ∃ k, min ((a :: b :: ((S.fields e).method ++ tl) ++ rest).length - 12) Stream.scanLimit = k + 1 :=
    ⟨min ((a :: b :: ((S.fields e).method ++ tl) ++ rest).length - 12) Stream.scanLimit - 1, by omega⟩
  rw [hk]
  unfold Stream.firstFrom
  rw [if_pos ⟨hsig, rfl⟩]

/-- `start` on a stream that stands at a member's header -/
theorem start_member {S : Scheme} {mk : Nat → Nat} (s : Stream.St) {e : Entry} (hok : MemberOk S mk e)
    (rest : Bytes) (hph : s.phase = .init ∨ s.phase = .reading) (hl : s.leadin = [])
    (hsrc : Stream.src s = encode (S.fields e) ++ rest) :
    ∃ s', Stream.start s = .ok s' ∧ s'.data = s.data ∧ s'.leadin.length ≤ 24 ∧
      s'.phase = .reading ∧ Stream.rest s' = encode (S.fields e) ++ rest := by
  rcases hph with hp | hp
  · obtain ⟨s', e1, e2, _, e4, e5⟩ := Stream.scan_finds_first s hp hl _ rfl
    rw [Stream.extract_eq_src, hsrc, firstHeader_member hok] at e5
    exact ⟨s', e1, e2, e4, e5.1, e5.2⟩
  · refine ⟨s, ?_, rfl, by simp [hl], hp, by rw [Stream.rest_eq, hl, hsrc]; rfl⟩
    unfold Stream.start
    simp [hp, Stream.phase_beq]

/-- **the parse half of `lha_basic_reader_next_file` at a member** -/
theorem nextTail_member {S : Scheme} {mk : Nat → Nat} (b : Basic) (led : Ledger) {e : Entry} (rest : Bytes)
    (hok : MemberOk S mk e) (heof : b.eof = false)
    (hph : b.stream.phase = .init ∨ b.stream.phase = .reading) (hl : b.stream.leadin = [])
    (hsrc : Stream.src b.stream = encode (S.fields e) ++ (S.data e ++ rest)) :
    ∃ b' led', Stream.nextTail mk b led = .ok (b', led') ∧
      b'.stream.data = b.stream.data ∧ (∃ id, b'.curr = some ⟨id, S.hdr e⟩) ∧
      b'.remaining = (S.data e).length ∧ b'.eof = false ∧ b'.stream.phase = .reading ∧
      b'.stream.leadin = [] ∧ Stream.src b'.stream = S.data e ++ rest := by
  obtain ⟨s', e1, e2, e3, e4, e5⟩ := start_member b.stream hok (S.data e ++ rest) hph hl hsrc
  have hread := hok.read (S.data e ++ rest)
  have henc := hok.length
  have hused : (Stream.rest s').length - (S.data e ++ rest).length = (encode (S.fields e)).length := by
    rw [e5]; simp
  obtain ⟨a1, a2, a3, a4, _⟩ := advance_spec s' (encode (S.fields e)).length (by omega)
    (by rw [e5]; simp)
  unfold Stream.nextTail
  simp only [heof, Bool.false_eq_true, if_false, e1, Res.ok_bind, e4, Stream.phase_beq, decide_false]
  rw [e5, hread]
  simp only [← e5, hused]
  refine ⟨_, _, rfl, by rw [a3, e2], ⟨_, rfl⟩, hok.clen, rfl, by rw [a4, e4], a1, ?_⟩
  show Stream.src (Stream.advance s' (encode (S.fields e)).length) = _
  rw [a2, e5]; simp

/-! ## `lha_basic_reader_next_file` along the archive -/

/-- the basic reader holds a member that ends where the members of `es` begin -/
def At (S : Scheme) (A : Array UInt8) (es : List Entry) (b : Basic) : Prop :=
  b.stream.data = A ∧ b.curr.isSome = true ∧
  ((es = [] ∧ Doomed b) ∨
   (es ≠ [] ∧ b.eof = false ∧ b.stream.phase = .reading ∧ b.stream.leadin = [] ∧
     A.toList.drop (mEnd b) = flat S es))

/-- the reader before its first `next_file` -/
def Fresh (S : Scheme) (A : Array UInt8) (es : List Entry) (b : Basic) : Prop :=
  b.stream.data = A ∧ b.curr = none ∧ b.eof = false ∧ b.stream.phase = .init ∧
  b.stream.leadin = [] ∧ b.stream.pos = 0 ∧ A.toList = flat S es

/-- the basic reader has read the header of the first entry of `es`, or met the end -/
def Got (S : Scheme) (A : Array UInt8) (es : List Entry) (b : Basic) : Prop :=
  b.stream.data = A ∧
  match es with
  | [] => b.curr = none ∧ b.eof = true
  | e :: tl => (∃ id, b.curr = some ⟨id, S.hdr e⟩) ∧ b.remaining = (S.data e).length ∧ b.eof = false ∧
      b.stream.phase = .reading ∧ b.stream.leadin = [] ∧
      A.toList.drop b.stream.pos = S.data e ++ flat S tl

/-- `At` does not depend on how much of the current member a decoder consumed -/
theorem At.consEq {S : Scheme} {A : Array UInt8} {es : List Entry} {b b' : Basic} (h : At S A es b)
    (hc : ConsEq b b') : At S A es b' := by
  obtain ⟨hd, hcur, hrest⟩ := h
  obtain ⟨cd, cc, ce⟩ := hc
  refine ⟨by rw [← cd, hd], by rw [← cc]; exact hcur, ?_⟩
  rcases hrest with ⟨hes, hdm⟩ | ⟨hes, heof, hph, hl, hdrop⟩
  · left
    refine ⟨hes, ?_⟩
    rcases ce with ⟨_, d'⟩ | ⟨e1, e2, e3, e4, e5, _⟩
    · exact d'
    · exact Doomed.transfer hdm cc cd e1 e5
  · right
    have hlt : mEnd b < A.size := by
      have := drop_lt_of_ne_nil A.toList (mEnd b) (by
        rw [hdrop]
        cases es with
        | nil => exact absurd rfl hes
        | cons e tl => exact flat_cons_ne S e tl)
      simpa using this
    rcases ce with ⟨d, _⟩ | ⟨e1, e2, e3, e4, e5, _⟩
    · rcases d with d | d
      · rw [heof] at d; cases d
      · rw [hd] at d; omega
    · exact ⟨hes, e2, by rw [← e4, hph], by rw [← e3, hl], by rw [← e5, hdrop]⟩

theorem Got.at {S : Scheme} {A : Array UInt8} {e : Entry} {tl : List Entry} {b : Basic}
    (h : Got S A (e :: tl) b) : At S A tl b := by
  obtain ⟨hd, ⟨id, hc⟩, hrem, heof, hph, hl, hdrop⟩ := h
  refine ⟨hd, by rw [hc]; rfl, ?_⟩
  have hm : A.toList.drop (mEnd b) = flat S tl := by
    unfold mEnd
    rw [← List.drop_drop, hdrop, hrem]
    simp
  by_cases htl : tl = []
  · left
    refine ⟨htl, Or.inr ⟨by rw [hc]; rfl, ?_⟩⟩
    rw [htl] at hm
    have : (A.toList.drop (mEnd b)).length = 0 := by rw [hm]; rfl
    rw [List.length_drop, Array.length_toList] at this
    rw [hd]; omega
  · exact Or.inr ⟨htl, heof, hph, hl, hm⟩

theorem Got.pending {S : Scheme} {mk : Nat → Nat} {A : Array UInt8} {es : List Entry} {b : Basic}
    (h : Got S A es b) (hok : AllOk S mk es) : Pending b.curr (es.map S.den) := by
  cases es with
  | nil => exact h.2.1
  | cons e tl =>
    obtain ⟨_, ⟨id, hc⟩, _⟩ := h
    exact ⟨_, hc, (hok e (by simp)).denotes⟩

/-- **`lha_basic_reader_next_file` from a member to the next** -/
theorem basicNext_at (S : Scheme) (mk : Nat → Nat) (A : Array UInt8) (es : List Entry) (b : Basic)
    (led : Ledger) (hok : AllOk S mk es) (h : At S A es b) (wf : Stream.WF b) :
    ∃ b' led', basicNext mk b led = .ok (b', led') ∧ Got S A es b' := by
  obtain ⟨hd, hcur, hrest⟩ := h
  obtain ⟨c, hc⟩ := Option.isSome_iff_exists.1 hcur
  rcases hrest with ⟨hes, hdm⟩ | ⟨hes, heof, hph, hl, hdrop⟩
  · subst hes
    obtain ⟨x, e1, x1, x2, x3⟩ := basicNext_doomed mk b led c hc hdm wf
    exact ⟨x, _, e1, by rw [x3, hd], x2, x1⟩
  · cases es with
    | nil => exact absurd rfl hes
    | cons e tl =>
      have hne : flat S (e :: tl) ≠ [] := flat_cons_ne S e tl
      have hlt : mEnd b < b.stream.data.size := by
        have := drop_lt_of_ne_nil A.toList (mEnd b) (by rw [hdrop]; exact hne)
        rw [hd]; simpa using this
      obtain ⟨sa, pa⟩ := skip_alive b hlt
      have fa := Stream.skip_frame b.stream b.remaining
      have hke := hok e (by simp)
      rw [Stream.basicNext_eq]
      simp only [Stream.afterSkip, hc]
      obtain ⟨b', led', e1, e2, e3, e4, e5, e6, e7, e8⟩ := nextTail_member
        { b with curr := none, stream := (Stream.skip b.stream b.remaining).2,
                 eof := b.eof || !(Stream.skip b.stream b.remaining).1 }
        (led.unref c.id) (flat S tl) hke (by simp [heof, sa])
        (Or.inr (by simp only [fa.2.2.1]; exact hph)) (by simp only [fa.2.2.2]; exact hl)
        (by
          show Stream.src (Stream.skip b.stream b.remaining).2 = _
          unfold Stream.src
          rw [fa.1, pa, hd, hdrop, flat_cons])
      refine ⟨b', led', e1, by rw [e2]; simp only [fa.1]; exact hd, e3, e4, e5, e6, e7, ?_⟩
      have : b'.stream.data = A := by rw [e2]; simp only [fa.1]; exact hd
      rw [← this]; exact e8

/-- **the first `lha_basic_reader_next_file`**: the signature scan, then the first header -/
theorem basicNext_fresh (S : Scheme) (mk : Nat → Nat) (A : Array UInt8) (es : List Entry) (b : Basic)
    (led : Ledger) (hok : AllOk S mk es) (h : Fresh S A es b) :
    ∃ b' led', basicNext mk b led = .ok (b', led') ∧ Got S A es b' := by
  obtain ⟨hd, hc, heof, hph, hl, hpos, hA⟩ := h
  rw [Stream.basicNext_eq]
  simp only [Stream.afterSkip, hc]
  cases es with
  | nil =>
    have hsz : b.stream.data.size ≤ b.stream.pos := by
      have : A.toList.length = 0 := by rw [hA]; rfl
      rw [Array.length_toList] at this
      rw [hd, hpos]; omega
    obtain ⟨st, e, hst⟩ := Stream.nextTail_past_end mk b led heof hsz (by simp [hl])
    exact ⟨_, _, e, by simp only [hst]; exact hd, hc, rfl⟩
  | cons e tl =>
    have hke := hok e (by simp)
    obtain ⟨b', led', e1, e2, e3, e4, e5, e6, e7, e8⟩ := nextTail_member b led (flat S tl) hke heof
      (Or.inl hph) hl (by unfold Stream.src; rw [hpos, hd, hA, flat_cons]; rfl)
    refine ⟨b', led', e1, by rw [e2, hd], e3, e4, e5, e6, e7, ?_⟩
    have : b'.stream.data = A := by rw [e2, hd]
    rw [← this]; exact e8

end LhasaV.ArchiveOs
