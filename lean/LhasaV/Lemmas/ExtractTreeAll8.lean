import LhasaV.Lemmas.ExtractTreeAll7
/-!
# C06, all deviations together (part 8): on bytes

`archiveWith pk es` denotes `es` along the run with the filter test for every list of clean,
encodable entries (`archiveWith_denotesF`, ExtractTreeOpt12: no order condition).  So the unified
theorem holds in closed form, no hypothesis about the reader left:

* **`extract_archiveWith_unified`** / `extract_archiveOf_unified`: everything at once (c);
* **`extract_archiveOf_unclosed`**: (a) wildcards ∘ implicit parents — ANY selection in the order
  `WFU`, into an empty directory: exactly `impTreeOf (keptOf [] (selected entries))`;
* **`extract_archiveOf_reloc_unclosed`**: (b) the same below `w=DIR`, `DIR` made as `MadeFrom` says.
-/
set_option linter.unusedSimpArgs false
namespace LhasaV.ArchiveOf
open LhasaV LhasaV.Header LhasaV.Extract LhasaV.GlobFs LhasaV.Contain LhasaV.ExtractTree
open LhasaV.ExtractTree.Sample

/-- **(c) the unified tree theorem, end to end on bytes**, any packer with a decoder round trip -/
theorem extract_archiveWith_unified (pk : Packer) (es : List Entry) (o : Opts) (fs : Fs.St)
    (answers : Bytes) (ds : List Bytes) (k : Nat)
    (hwf : WFU (selected o.filters) [] [] es) (henc : Encodable es) (hpk : Packs pk es)
    (ho : OptsRel o ds) (hb : BaseU fs ds k) (ha : AccessW fs)
    (hpre : ∀ e ∈ es, selected o.filters e = true → PreAtU fs ds e)
    (hdepth : ∀ e ∈ es, ds.length + e.path.length < 64)
    (hans : Asked fs ds (selected o.filters) es → o.overwrite = .prompt → OwAnswers answers) :
    UniOutcome (run (archiveWith pk es) o fs answers) fs ds (uniPlan fs ds o answers es) ∧
    MadeFrom fs (mkBase fs ds) (ds.take k) (ds.drop k) :=
  run_tree_unified (archiveWith pk es) o fs answers ds k es ho hb ha hwf hpre hdepth hans
    (fuel_archiveWith pk es)
    (archiveWith_denotesF pk es (wfu_entries _ es [] [] hwf) henc hpk o fs answers)

/-- … for stored members (`archiveOf`, level-2 headers written by the C05 encoder) -/
theorem extract_archiveOf_unified (es : List Entry) (o : Opts) (fs : Fs.St)
    (answers : Bytes) (ds : List Bytes) (k : Nat)
    (hwf : WFU (selected o.filters) [] [] es) (henc : Encodable es)
    (ho : OptsRel o ds) (hb : BaseU fs ds k) (ha : AccessW fs)
    (hpre : ∀ e ∈ es, selected o.filters e = true → PreAtU fs ds e)
    (hdepth : ∀ e ∈ es, ds.length + e.path.length < 64)
    (hans : Asked fs ds (selected o.filters) es → o.overwrite = .prompt → OwAnswers answers) :
    UniOutcome (run (archiveOf es) o fs answers) fs ds (uniPlan fs ds o answers es) ∧
    MadeFrom fs (mkBase fs ds) (ds.take k) (ds.drop k) := by
  rw [archiveOf_eq]
  exact extract_archiveWith_unified stored es o fs answers ds k hwf henc (packs_stored henc) ho hb ha
    hpre hdepth hans

/-! ## an empty place: no policy, the tree is `impTreeOf` -/

theorem take_succ_ne_nil {α} (l : List α) (j : Nat) (h : l ≠ []) : l.take (j + 1) ≠ [] := by
  cases l with
  | nil => exact absurd rfl h
  | cons a l => simp

/-- nothing below the place of the tree: no entry collides with anything -/
theorem preAtU_of_empty {fs : Fs.St} {ds : List Bytes} (h : ∀ p, p ≠ [] → oldB fs ds p = none)
    {e : Entry} (hne : e.path ≠ []) : PreAtU fs ds e :=
  Or.inl (fun j _ => h _ (take_succ_ne_nil _ j hne))

theorem not_asked_of_empty {fs : Fs.St} {ds : List Bytes} (h : ∀ p, p ≠ [] → oldB fs ds p = none)
    {sel : Entry → Bool} {es : List Entry} (hne : ∀ e ∈ es, e.path ≠ []) : ¬ Asked fs ds sel es := by
  rintro ⟨e, he, _, hf⟩
  rw [h e.path (hne e he)] at hf
  cases hf

/-- **(b) wildcards ∘ implicit parents ∘ `w=DIR`**, on bytes.  Any wildcard arguments, `DIR` with
clean relative components whose place is as `BaseOk` says (some leading part exists, nothing
below), an entry list whose selected entries are in the mixed order `WFU` (unselected directory
entries make their selected children's parents implicit): the run succeeds; below `cwd/DIR` the
tree is exactly `impTreeOf` of the selected entries that are not late; `DIR` carries `now` and the
mode it has in `mkBase`; outside, the file system is `mkBase` (`MadeFrom`), or untouched when
nothing is selected. -/
theorem extract_archiveWith_reloc_unclosed (pk : Packer) (es : List Entry) (o : Opts) (fs : Fs.St)
    (answers : Bytes) (ds : List Bytes) (k : Nat)
    (hwf : WFU (selected o.filters) [] [] es) (henc : Encodable es) (hpk : Packs pk es)
    (ho : OptsRel o ds) (hb : BaseOk fs ds k) (ha : AccessW fs)
    (hdepth : ∀ e ∈ es, ds.length + e.path.length < 64) :
    (run (archiveWith pk es) o fs answers).result = true ∧
    (∀ p, p ≠ [] → Fs.lookup (run (archiveWith pk es) o fs answers).fs (fs.cwd ++ ds ++ p) =
      impTreeOf fs.now fs.umask (keptOf [] (es.filter (selected o.filters))) p) ∧
    (keptOf [] (es.filter (selected o.filters)) ≠ [] →
      ∃ m t0 t, Fs.lookup (mkBase fs ds) (fs.cwd ++ ds) = some (.dir m t0) ∧
        Fs.lookup (run (archiveWith pk es) o fs answers).fs (fs.cwd ++ ds) = some (.dir m t) ∧
        (fs.cwd ++ ds ≠ [] → t = fs.now)) ∧
    (keptOf [] (es.filter (selected o.filters)) ≠ [] → ∀ x, ¬ (fs.cwd ++ ds) <+: x →
      Fs.lookup (run (archiveWith pk es) o fs answers).fs x = Fs.lookup (mkBase fs ds) x) ∧
    (keptOf [] (es.filter (selected o.filters)) = [] → (run (archiveWith pk es) o fs answers).fs = fs) ∧
    MadeFrom fs (mkBase fs ds) (ds.take k) (ds.drop k) := by
  have hok := wfu_entries _ es [] [] hwf
  have hempty : ∀ p, p ≠ [] → oldB fs ds p = none := hb.empty
  have hne : ∀ e ∈ es, e.path ≠ [] := fun e he => (hok e he).ne
  obtain ⟨h, hm⟩ := extract_archiveWith_unified pk es o fs answers ds k hwf henc hpk ho
    (baseU_of_baseOk hb) ha (fun e he _ => preAtU_of_empty hempty (hne e he)) hdepth
    (fun h => absurd h (not_asked_of_empty hempty hne))
  rw [uniPlan_empty fs ds o answers es hempty hne] at h
  obtain ⟨h1, h2, h3, h4, h5, h6⟩ := h
  refine ⟨by simpa using h2, ?_, h4, h5, h6, hm⟩
  intro p hp
  rw [h3 p hp]
  unfold uniTree
  cases impTreeOf fs.now fs.umask (keptOf [] (es.filter (selected o.filters))) p with
  | some x => rfl
  | none => exact hempty p hp

/-- **(a) wildcards ∘ implicit parents**, on bytes: `lha x archive patterns` into an empty
directory, the selection NOT assumed closed under parents (`extract_selected` assumes it).  The
tree is `impTreeOf` of the selected entries that are not late: every selected entry as archived,
every directory above a selected entry that has no (timely) selected directory entry 0755 under
the umask / now; the extraction directory keeps its mode; nothing outside changes. -/
theorem extract_archiveWith_unclosed (pk : Packer) (es : List Entry) (o : Opts) (fs : Fs.St)
    (answers : Bytes) (hwf : WFU (selected o.filters) [] [] es) (henc : Encodable es) (hpk : Packs pk es)
    (hx : o.extractPath = none) (hu : o.usePath = true) (hfs : EmptyDir fs) (ha : Access fs) :
    (run (archiveWith pk es) o fs answers).result = true ∧
    (∀ p, p ≠ [] → Fs.lookup (run (archiveWith pk es) o fs answers).fs (fs.cwd ++ p) =
      impTreeOf fs.now fs.umask (keptOf [] (es.filter (selected o.filters))) p) ∧
    (∃ m t0 t, Fs.lookup fs fs.cwd = some (.dir m t0) ∧
      Fs.lookup (run (archiveWith pk es) o fs answers).fs fs.cwd = some (.dir m t) ∧
      (keptOf [] (es.filter (selected o.filters)) ≠ [] → fs.cwd ≠ [] → t = fs.now)) ∧
    (∀ x, ¬ fs.cwd <+: x → Fs.lookup (run (archiveWith pk es) o fs answers).fs x = Fs.lookup fs x) := by
  have hok := wfu_entries _ es [] [] hwf
  have hb : BaseOk fs [] 0 := by
    obtain ⟨k, hbk, _⟩ := (baseRef_nil hfs ha).facts
    cases k with
    | zero => exact hbk
    | succ k => exact ⟨hbk.names, hbk.depth, by simpa using hbk.dirs, by simpa using hbk.writable,
        fun q hq hp => absurd (List.prefix_nil.1 (by simpa using hp)) hq, hbk.empty⟩
  obtain ⟨h1, h2, h3, h4, h5, _⟩ := extract_archiveWith_reloc_unclosed pk es o fs answers [] 0 hwf henc hpk
    (optsRel_none o hx hu) hb (accessW_of_access ha) (fun e he => by simpa using (hok e he).depth)
  simp only [List.append_nil, mkBase_nil] at h2 h3 h4 h5
  refine ⟨h1, h2, ?_, ?_⟩
  · by_cases hne : keptOf [] (es.filter (selected o.filters)) = []
    · obtain ⟨m, t, hl, _⟩ := hfs.dir
      exact ⟨m, t, t, hl, by rw [h5 hne]; exact hl, fun h => absurd hne h⟩
    · obtain ⟨m, t0, t, hl0, hl, ht⟩ := h3 hne
      exact ⟨m, t0, t, hl0, hl, fun _ hc => ht hc⟩
  · intro x hx'
    by_cases hne : keptOf [] (es.filter (selected o.filters)) = []
    · rw [h5 hne]
    · exact h4 hne x hx'

theorem extract_archiveOf_unclosed (es : List Entry) (o : Opts) (fs : Fs.St)
    (answers : Bytes) (hwf : WFU (selected o.filters) [] [] es) (henc : Encodable es)
    (hx : o.extractPath = none) (hu : o.usePath = true) (hfs : EmptyDir fs) (ha : Access fs) :
    (run (archiveOf es) o fs answers).result = true ∧
    (∀ p, p ≠ [] → Fs.lookup (run (archiveOf es) o fs answers).fs (fs.cwd ++ p) =
      impTreeOf fs.now fs.umask (keptOf [] (es.filter (selected o.filters))) p) ∧
    (∃ m t0 t, Fs.lookup fs fs.cwd = some (.dir m t0) ∧
      Fs.lookup (run (archiveOf es) o fs answers).fs fs.cwd = some (.dir m t) ∧
      (keptOf [] (es.filter (selected o.filters)) ≠ [] → fs.cwd ≠ [] → t = fs.now)) ∧
    (∀ x, ¬ fs.cwd <+: x → Fs.lookup (run (archiveOf es) o fs answers).fs x = Fs.lookup fs x) := by
  rw [archiveOf_eq]
  exact extract_archiveWith_unclosed stored es o fs answers hwf henc (packs_stored henc) hx hu hfs ha

theorem extract_archiveOf_reloc_unclosed (es : List Entry) (o : Opts) (fs : Fs.St)
    (answers : Bytes) (ds : List Bytes) (k : Nat)
    (hwf : WFU (selected o.filters) [] [] es) (henc : Encodable es)
    (ho : OptsRel o ds) (hb : BaseOk fs ds k) (ha : AccessW fs)
    (hdepth : ∀ e ∈ es, ds.length + e.path.length < 64) :
    (run (archiveOf es) o fs answers).result = true ∧
    (∀ p, p ≠ [] → Fs.lookup (run (archiveOf es) o fs answers).fs (fs.cwd ++ ds ++ p) =
      impTreeOf fs.now fs.umask (keptOf [] (es.filter (selected o.filters))) p) ∧
    (keptOf [] (es.filter (selected o.filters)) ≠ [] →
      ∃ m t0 t, Fs.lookup (mkBase fs ds) (fs.cwd ++ ds) = some (.dir m t0) ∧
        Fs.lookup (run (archiveOf es) o fs answers).fs (fs.cwd ++ ds) = some (.dir m t) ∧
        (fs.cwd ++ ds ≠ [] → t = fs.now)) ∧
    (keptOf [] (es.filter (selected o.filters)) ≠ [] → ∀ x, ¬ (fs.cwd ++ ds) <+: x →
      Fs.lookup (run (archiveOf es) o fs answers).fs x = Fs.lookup (mkBase fs ds) x) ∧
    (keptOf [] (es.filter (selected o.filters)) = [] → (run (archiveOf es) o fs answers).fs = fs) ∧
    MadeFrom fs (mkBase fs ds) (ds.take k) (ds.drop k) := by
  rw [archiveOf_eq]
  exact extract_archiveWith_reloc_unclosed stored es o fs answers ds k hwf henc (packs_stored henc) ho hb ha
    hdepth

end LhasaV.ArchiveOf
