import LhasaV.Lemmas.GlobFs2
/-!
# The deferred-symlink guard (part C of `GlobFs`)

`path_passes_through_symlink` tests every proper directory prefix of a path with `lstat`.  When
it finds no symbolic link, resolving the path (without following its last component) walks
through real directories only, so the object named by the path lies lexically below the
current directory.
-/
namespace LhasaV.GlobFs
open LhasaV LhasaV.Header LhasaV.Extract

/-! ## `Fs.resolve` on one real component -/

section resolve
variable (s : Fs.St)

theorem resolve_zero (fl : Bool) (cur : Fs.Path) (cs : List Bytes) :
    Fs.resolve s fl 0 cur cs = .eother := by
  rw [Fs.resolve]

theorem resolve_nil (fl : Bool) (f : Nat) (cur : Fs.Path) :
    Fs.resolve s fl (f + 1) cur [] = .ok cur := by
  rw [Fs.resolve]; omega

theorem resolve_nosearch (fl : Bool) (f : Nat) (cur : Fs.Path) (c : Bytes) (rest : List Bytes)
    (hc : Good c) (hs : Fs.canSearch s cur = false) :
    Fs.resolve s fl (f + 1) cur (c :: rest) = .eother := by
  rw [Fs.resolve]; simp [hc.1, hc.2.1, hc.2.2, hs]

theorem resolve_dir (fl : Bool) (f : Nat) (cur : Fs.Path) (c : Bytes) (rest : List Bytes)
    (hc : Good c) (hs : Fs.canSearch s cur = true) (m t : Nat)
    (hl : Fs.lookup s (cur ++ [c]) = some (.dir m t)) :
    Fs.resolve s fl (f + 1) cur (c :: rest) = Fs.resolve s fl f (cur ++ [c]) rest := by
  rw [Fs.resolve]; simp [hc.1, hc.2.1, hc.2.2, hs, hl]

theorem resolve_link_last (f : Nat) (cur : Fs.Path) (c : Bytes)
    (hc : Good c) (hs : Fs.canSearch s cur = true) (t : Bytes)
    (hl : Fs.lookup s (cur ++ [c]) = some (.link t)) :
    Fs.resolve s false (f + 1) cur [c] = .ok (cur ++ [c]) := by
  rw [Fs.resolve]; simp [hc.1, hc.2.1, hc.2.2, hs, hl]

theorem resolve_file (fl : Bool) (f : Nat) (cur : Fs.Path) (c : Bytes) (rest : List Bytes)
    (hc : Good c) (hs : Fs.canSearch s cur = true) (d : Bytes) (m t : Nat)
    (hl : Fs.lookup s (cur ++ [c]) = some (.file d m t)) :
    Fs.resolve s fl (f + 1) cur (c :: rest) = if rest = [] then .ok (cur ++ [c]) else .eother := by
  rw [Fs.resolve]
  by_cases hr : rest = []
  · subst hr; simp [hc.1, hc.2.1, hc.2.2, hs, hl]
  · simp only [hc.1, hc.2.1, hc.2.2, hs, hl, hr, or_self, if_false, Bool.not_true, Bool.false_eq_true]
    split <;> rfl

theorem resolve_none (fl : Bool) (f : Nat) (cur : Fs.Path) (c : Bytes) (rest : List Bytes)
    (hc : Good c) (hs : Fs.canSearch s cur = true)
    (hl : Fs.lookup s (cur ++ [c]) = none) :
    Fs.resolve s fl (f + 1) cur (c :: rest) = if rest = [] then .ok (cur ++ [c]) else .enoent := by
  rw [Fs.resolve]; simp [hc.1, hc.2.1, hc.2.2, hs, hl]

/-- a proper, non-empty prefix of a component list: a directory prefix of the path -/
def ProperPre (pre cs : List Bytes) : Prop := pre <+: cs ∧ pre ≠ [] ∧ pre ≠ cs

theorem properPre_nil (pre : List Bytes) : ¬ ProperPre pre [] := by
  rintro ⟨h1, h2, _⟩; exact h2 (List.prefix_nil.1 h1)

theorem properPre_single (pre : List Bytes) (c : Bytes) : ¬ ProperPre pre [c] := by
  rintro ⟨h1, h2, h3⟩
  cases pre with
  | nil => exact h2 rfl
  | cons d pre' =>
    obtain ⟨rfl, h⟩ := List.cons_prefix_cons.1 h1
    have := List.prefix_nil.1 h
    subst this; exact h3 rfl

theorem properPre_cons (pre : List Bytes) (c : Bytes) (rest : List Bytes)
    (h : ProperPre pre (c :: rest)) :
    ∃ pre', pre = c :: pre' ∧ pre' <+: rest ∧ pre' ≠ rest := by
  obtain ⟨h1, h2, h3⟩ := h
  cases pre with
  | nil => exact absurd rfl h2
  | cons d pre' =>
    obtain ⟨rfl, h⟩ := List.cons_prefix_cons.1 h1
    exact ⟨pre', rfl, h, fun e => h3 (by rw [e])⟩

theorem properPre_first (c : Bytes) (rest : List Bytes) (h : rest ≠ []) : ProperPre [c] (c :: rest) :=
  ⟨List.cons_prefix_cons.2 ⟨rfl, List.nil_prefix⟩, by simp, by simpa using h.symm⟩

theorem properPre_step (c : Bytes) (pre rest : List Bytes) (h : ProperPre pre rest) :
    ProperPre (c :: pre) (c :: rest) :=
  ⟨List.cons_prefix_cons.2 ⟨rfl, h.1⟩, by simp, by simpa using h.2.2⟩

/-- what a guard on the directory prefixes has to provide for the walk below -/
structure GuardStep (P : Nat → Fs.Path → List Bytes → Prop) : Prop where
  link : ∀ f cur c rest t, Good c → P (f + 1) cur (c :: rest) → rest ≠ [] →
    Fs.canSearch s cur = true → Fs.lookup s (cur ++ [c]) = some (.link t) → False
  dir : ∀ f cur c rest m t, Good c → P (f + 1) cur (c :: rest) →
    Fs.canSearch s cur = true → Fs.lookup s (cur ++ [c]) = some (.dir m t) → P f (cur ++ [c]) rest

/-- the walk: under a guard, a successful resolution of real components (no final-link
following) took the directory branch at every proper prefix, so it ends lexically at
`cur ++ cs`, and every proper prefix names a directory -/
theorem resolve_core (P : Nat → Fs.Path → List Bytes → Prop) (hP : GuardStep s P) :
    ∀ (cs : List Bytes) (fuel : Nat) (cur q : Fs.Path),
      (∀ c ∈ cs, Good c) → P fuel cur cs → Fs.resolve s false fuel cur cs = .ok q →
      q = cur ++ cs ∧
        ∀ pre, ProperPre pre cs → ∃ m t, Fs.lookup s (cur ++ pre) = some (.dir m t) := by
  intro cs
  induction cs with
  | nil =>
    intro fuel cur q _ _ hr
    cases fuel with
    | zero => rw [resolve_zero] at hr; cases hr
    | succ f =>
      rw [resolve_nil] at hr
      injection hr with hr
      exact ⟨by simp [hr], fun pre h => absurd h (properPre_nil pre)⟩
  | cons c rest ih =>
    intro fuel cur q hg hp hr
    cases fuel with
    | zero => rw [resolve_zero] at hr; cases hr
    | succ f =>
      have hc : Good c := hg c (by simp)
      have hgr : ∀ x ∈ rest, Good x := fun x hx => hg x (by simp [hx])
      cases hs : Fs.canSearch s cur with
      | false => rw [resolve_nosearch s false f cur c rest hc hs] at hr; cases hr
      | true =>
        by_cases hrest : rest = []
        · subst hrest
          refine ⟨?_, fun pre h => absurd h (properPre_single pre c)⟩
          cases hl : Fs.lookup s (cur ++ [c]) with
          | none =>
            rw [resolve_none s false f cur c [] hc hs hl] at hr
            simp at hr; exact hr.symm
          | some e =>
            cases e with
            | dir m t =>
              rw [resolve_dir s false f cur c [] hc hs m t hl] at hr
              cases f with
              | zero => rw [resolve_zero] at hr; cases hr
              | succ f' => rw [resolve_nil] at hr; injection hr with hr; exact hr.symm
            | file d m t =>
              rw [resolve_file s false f cur c [] hc hs d m t hl] at hr
              simp at hr; exact hr.symm
            | link t =>
              rw [resolve_link_last s f cur c hc hs t hl] at hr
              injection hr with hr; exact hr.symm
        · cases hl : Fs.lookup s (cur ++ [c]) with
          | none =>
            rw [resolve_none s false f cur c rest hc hs hl] at hr
            simp [hrest] at hr
          | some e =>
            cases e with
            | file d m t =>
              rw [resolve_file s false f cur c rest hc hs d m t hl] at hr
              simp [hrest] at hr
            | link t => exact (hP.link f cur c rest t hc hp hrest hs hl).elim
            | dir m t =>
              rw [resolve_dir s false f cur c rest hc hs m t hl] at hr
              obtain ⟨hq, hpre⟩ := ih f (cur ++ [c]) q hgr (hP.dir f cur c rest m t hc hp hs hl) hr
              refine ⟨by rw [hq]; simp, ?_⟩
              intro pre h
              obtain ⟨pre', rfl, h1, h2⟩ := properPre_cons pre c rest h
              by_cases hp' : pre' = []
              · subst hp'; exact ⟨m, t, hl⟩
              · obtain ⟨m', t', h'⟩ := hpre pre' ⟨h1, hp', h2⟩
                exact ⟨m', t', by simpa using h'⟩

/-- the lexical guard: no proper prefix names a symbolic link -/
def PLex : Nat → Fs.Path → List Bytes → Prop :=
  fun _ cur cs => ∀ pre, ProperPre pre cs → ∀ t, Fs.lookup s (cur ++ pre) ≠ some (.link t)

/-- the `lstat` guard: no proper prefix *resolves* (last component not followed) to a link -/
def PGuard : Nat → Fs.Path → List Bytes → Prop :=
  fun fuel cur cs => ∀ pre, ProperPre pre cs → ∀ r, Fs.resolve s false fuel cur pre = .ok r →
    ∀ t, Fs.lookup s r ≠ some (.link t)

theorem pLex_step : GuardStep s (PLex s) where
  link := by
    intro f cur c rest t _ hp hrest _ hl
    exact hp [c] (properPre_first c rest hrest) t hl
  dir := by
    intro f cur c rest m t _ hp _ _ pre hpre t'
    have := hp (c :: pre) (properPre_step c pre rest hpre) t'
    simpa using this

theorem pGuard_step : GuardStep s (PGuard s) where
  link := by
    intro f cur c rest t hc hp hrest hs hl
    exact hp [c] (properPre_first c rest hrest) _ (resolve_link_last s f cur c hc hs t hl) t hl
  dir := by
    intro f cur c rest m t hc hp hs hl pre hpre r hr
    exact hp (c :: pre) (properPre_step c pre rest hpre) r
      (by rw [resolve_dir s false f cur c pre hc hs m t hl]; exact hr)

end resolve
/-! ## the prefixes `path_passes_through_symlink` tests -/

/-- the components `resolveRR` walks: empty ones (doubled, leading, trailing '/') and "." are
dropped up front -/
def comps (p : Bytes) : List Bytes := (Fs.splitPath p).filter (fun c => c ≠ [] ∧ c ≠ [0x2e])

/-- `x` is a prefix of `p` ending just before a '/' that is not the first byte: one of the
strings the guard hands to `lstat` -/
def Cut (p x : Bytes) : Prop := ∃ i, i ≠ 0 ∧ i < p.length ∧ p.getD i 0 = 0x2f ∧ x = p.take i

theorem guard_cut (fs : Fs.St) (p x : Bytes) (hg : passesThroughSymlink fs p = false)
    (hx : Cut p x) : Fs.isSymlink fs x = false := by
  obtain ⟨i, h0, hi, hs, rfl⟩ := hx
  unfold passesThroughSymlink at hg
  rw [List.any_eq_false] at hg
  have := hg i (by
    rw [List.mem_filter]; exact ⟨by simp [hi], by simpa [h0, List.getD_eq_getElem?_getD] using hs⟩)
  simpa using this

theorem cut_first (a b : Bytes) (ha : a ≠ []) : Cut (a ++ 0x2f :: b) a := by
  refine ⟨a.length, ?_, by simp, ?_, by simp⟩
  · intro h; exact ha (List.eq_nil_of_length_eq_zero h)
  · exact at_mid a b

theorem cut_shift (a b x : Bytes) (hx : Cut b x) : Cut (a ++ 0x2f :: b) (a ++ 0x2f :: x) := by
  obtain ⟨i, _, hi, hs, rfl⟩ := hx
  refine ⟨i + (a.length + 1), by omega, by simp; omega, ?_, ?_⟩
  · exact (at_right a b i).trans hs
  · rw [List.take_append]
    have h1 : a.take (i + (a.length + 1)) = a := List.take_of_length_le (by omega)
    have h2 : i + (a.length + 1) - a.length = i + 1 := by omega
    rw [h1, h2, List.take_succ_cons]

theorem cut_head (p x : Bytes) (hx : Cut p x) : x.head? = p.head? := by
  obtain ⟨i, h0, hi, _, rfl⟩ := hx
  cases p with
  | nil => simp at hi
  | cons b bs =>
    cases i with
    | zero => exact absurd rfl h0
    | succ j => simp

theorem comps_noslash (a : Bytes) (ha : NoSlash a) :
    comps a = if a ≠ [] ∧ a ≠ [0x2e] then [a] else [] := by
  unfold comps
  rw [split_noslash a ha]
  by_cases h : a ≠ [] ∧ a ≠ [0x2e]
  · simp [h]
  · rw [if_neg h, List.filter_cons, if_neg (by simpa using h)]; rfl

theorem comps_cons_comp (a b : Bytes) (ha : NoSlash a) :
    comps (a ++ 0x2f :: b) = (if a ≠ [] ∧ a ≠ [0x2e] then [a] else []) ++ comps b := by
  unfold comps
  rw [split_cons_comp a b ha, List.filter_cons]
  by_cases h : a ≠ [] ∧ a ≠ [0x2e]
  · simp [h]
  · rw [if_neg h, if_neg (by simpa using h)]; rfl

/-- every directory prefix of the component list is the component list of one of the strings the
guard tests -/
theorem prefix_cut (p : Bytes) : ∀ pre, ProperPre pre (comps p) → ∃ x, Cut p x ∧ comps x = pre := by
  induction p using path_ind with
  | h1 a ha =>
    intro pre h
    rw [comps_noslash a ha] at h
    split at h
    · exact absurd h (properPre_single pre a)
    · exact absurd h (properPre_nil pre)
  | h2 a b ha ih =>
    intro pre h
    rw [comps_cons_comp a b ha] at h
    by_cases hk : a ≠ [] ∧ a ≠ [0x2e]
    · rw [if_pos hk, List.singleton_append] at h
      obtain ⟨pre', rfl, h1, h2⟩ := properPre_cons pre a _ h
      by_cases hp' : pre' = []
      · subst hp'
        refine ⟨a, cut_first a b hk.1, ?_⟩
        rw [comps_noslash a ha]; simp [hk]
      · obtain ⟨x, hx, hcx⟩ := ih pre' ⟨h1, hp', h2⟩
        refine ⟨a ++ 0x2f :: x, cut_shift a b x hx, ?_⟩
        rw [comps_cons_comp a x ha, hcx]; simp [hk]
    · rw [if_neg hk, List.nil_append] at h
      obtain ⟨x, hx, hcx⟩ := ih pre h
      refine ⟨a ++ 0x2f :: x, cut_shift a b x hx, ?_⟩
      rw [comps_cons_comp a x ha, hcx]; simp [hk]

/-! ## C. the guard -/

/-- resolution of a relative path starts at the current directory and walks `comps` -/
theorem resolveRR_rel (s : Fs.St) (fl : Bool) (p : Bytes) (hrel : p.head? ≠ some 0x2f) (hne : p ≠ []) :
    Fs.resolveRR s fl p = Fs.resolve s fl 64 s.cwd (comps p) := by
  have h1 : Fs.mapAbs s p = some p := by simp [Fs.mapAbs, hrel]
  unfold Fs.resolveRR
  rw [if_neg hne, h1]
  simp [hrel, comps]

/-- the empty path names nothing -/
theorem resolvePath_nil (s : Fs.St) (fl : Bool) : Fs.resolvePath s fl [] = none := by
  simp [Fs.resolvePath, Fs.resolveRR]

theorem cut_ne_nil (p x : Bytes) (hx : Cut p x) : x ≠ [] := by
  obtain ⟨i, h0, hi, _, rfl⟩ := hx
  intro h
  have hl := congrArg List.length h
  rw [List.length_take, List.length_nil] at hl
  have : min i p.length = i := Nat.min_eq_left (Nat.le_of_lt hi)
  omega

theorem comps_good (p : Bytes) (hnd : NoDotDot p) : ∀ c ∈ comps p, Good c := by
  intro c hc
  unfold comps at hc
  rw [List.mem_filter] at hc
  have h2 : c ≠ [] ∧ c ≠ [0x2e] := by simpa using hc.2
  exact ⟨h2.1, h2.2, hnd c hc.1⟩

/-- the `lstat` guard of the C, as a guard on the walk from the current directory -/
theorem guard_pGuard (fs : Fs.St) (p : Bytes) (hrel : p.head? ≠ some 0x2f)
    (hg : passesThroughSymlink fs p = false) : PGuard fs 64 fs.cwd (comps p) := by
  intro pre hpre r hr t hl
  obtain ⟨x, hx, hcx⟩ := prefix_cut p pre hpre
  have hsx := guard_cut fs p x hg hx
  have hxrel : x.head? ≠ some 0x2f := by rw [cut_head p x hx]; exact hrel
  unfold Fs.isSymlink Fs.resolvePath at hsx
  rw [resolveRR_rel fs false x hxrel (cut_ne_nil p x hx), hcx, hr] at hsx
  simp [hl] at hsx

/-- **C10, the deferred-link guard.**  `fs.cwd` is the extraction directory; `p` is a relative
path without ".." components.  If `path_passes_through_symlink(p)` is false, then whenever `p`
resolves at all (last component not followed: `lstat`, `unlink`, `symlink`, `open(O_EXCL)`), it
resolves to the lexical place `cwd ++ (real components of p)`, and every proper directory prefix
of that place is a real directory (not a link). -/
theorem guard_resolve (fs : Fs.St) (p : Bytes) (q : Fs.Path)
    (hrel : p.head? ≠ some 0x2f) (hnd : NoDotDot p)
    (hg : passesThroughSymlink fs p = false)
    (hr : Fs.resolvePath fs false p = some q) :
    q = fs.cwd ++ comps p ∧
      ∀ pre, ProperPre pre (comps p) → ∃ m t, Fs.lookup fs (fs.cwd ++ pre) = some (.dir m t) := by
  have hne : p ≠ [] := by
    intro h; subst h; rw [resolvePath_nil] at hr; cases hr
  unfold Fs.resolvePath at hr
  rw [resolveRR_rel fs false p hrel hne] at hr
  cases hres : Fs.resolve fs false 64 fs.cwd (comps p) with
  | ok r =>
    rw [hres] at hr
    have : r = q := by simpa using hr
    subst this
    exact resolve_core fs (PGuard fs) (pGuard_step fs) (comps p) 64 fs.cwd r
      (comps_good p hnd) (guard_pGuard fs p hrel hg) hres
  | enoent => rw [hres] at hr; simp at hr
  | eother => rw [hres] at hr; simp at hr

/-- the form asked for: the resolved place has the extraction directory as a prefix -/
theorem guard_below_cwd (fs : Fs.St) (p : Bytes) (q : Fs.Path)
    (hrel : p.head? ≠ some 0x2f) (hnd : NoDotDot p)
    (hg : passesThroughSymlink fs p = false)
    (hr : Fs.resolvePath fs false p = some q) : ∃ rest, q = fs.cwd ++ rest :=
  ⟨comps p, (guard_resolve fs p q hrel hnd hg hr).1⟩

end LhasaV.GlobFs
