import LhasaV.Lemmas.ContainW2
/-!
# C10 with `w=DIR` (part 3): `lha_arch_*`, `make_parent_directories`, `lha_reader_extract`

The file name is described by its component list: `FnShape ds p cs` — `p` is relative and
`comps p = ds ++ cs` with `cs` free of "..".  In every state satisfying `InvW` such a name
`Lands` below the base; it is a `BPath` when more components follow (`cs ≠ []`) or the base
exists already.

* `archFopen_w`, `archSymlink_w`;
* `makeParents_w`: every prefix of the name cut at a separator has components comparable with
  `ds` (`PreShape`): below the base, or a `mkdir` of a component of `DIR`;
* `setDirMeta_w`, `readerExtract_w` (main phase), `toDir_w` (names ending in "..").
-/
namespace LhasaV.ContainW
open LhasaV LhasaV.Header LhasaV.Extract LhasaV.GlobFs LhasaV.Contain

/-- relative, `comps p = ds ++ cs`, `cs` free of ".." -/
def FnShape (ds : List Bytes) (p : Bytes) (cs : List Bytes) : Prop :=
  p.head? ≠ some 0x2f ∧ comps p = ds ++ cs ∧ ∀ x ∈ cs, x ≠ [0x2e, 0x2e]

/-- the components of `DIR` are real names -/
def GoodDs (ds : List Bytes) : Prop := ∀ x ∈ ds, Good x

section shapes
variable {c : Fs.Path} {ds : List Bytes} {s : Fs.St}

theorem shape_lands (hg : GoodDs ds) (hi : InvW c ds s) {p : Bytes} {cs : List Bytes}
    (hp : FnShape ds p cs) : Lands c ds s p :=
  fun fl q hq => (lands s c ds hi.cwd hi.safe hg hi.chain p hp.1 cs hp.2.1 hp.2.2 fl q hq).1

theorem shape_bpath (hg : GoodDs ds) (hi : InvW c ds s) {p : Bytes} {cs : List Bytes}
    (hp : FnShape ds p cs) (hne : cs ≠ [] ∨ IsDir s (c ++ ds)) : BPath c ds s p := by
  intro fl q hq
  obtain ⟨h1, h2⟩ := lands s c ds hi.cwd hi.safe hg hi.chain p hp.1 cs hp.2.1 hp.2.2 fl q hq
  refine ⟨h1, ?_⟩
  rcases hne with hne | hne
  · exact (base_dirs s c ds hi.dirC hi.dirP (h2 hne)).1
  · exact hne

theorem ne_mono {s' : Fs.St} {cs : List Bytes} (hm : DirMono s s')
    (hne : cs ≠ [] ∨ IsDir s (c ++ ds)) : cs ≠ [] ∨ IsDir s' (c ++ ds) :=
  hne.imp id (hm.dirs _)

/-! ## the `lha_arch_*` layer -/

/-- `lha_arch_fopen`: unlink, exclusive create, fchmod — creates a FILE below the base -/
theorem archFopen_w (hg : GoodDs ds) (hi : InvW c ds s) (path : Bytes) (perms : Option Nat)
    (cs : List Bytes) (hp : FnShape ds path cs) (hne : cs ≠ [] ∨ IsDir s (c ++ ds)) :
    StepW c ds s (Fs.archFopen s path perms).2 ∧
      ∀ q, (Fs.archFopen s path perms).1 = some q → (c ++ ds) <+: q := by
  have hu := unlink_w hi path (shape_lands hg hi hp)
  have ho := openExcl_w hu.inv path (shape_bpath hg hu.inv hp (ne_mono hu.mono hne))
  unfold Fs.archFopen
  simp only
  split
  · exact ⟨hu.trans ho.1, by intro q h; cases h⟩
  · rename_i q hq
    split
    · refine ⟨(hu.trans ho.1).trans (fchmod_w ho.1.inv _ _), ?_⟩
      intro q' h; injection h with h; subst h; exact ho.2 q hq
    · refine ⟨hu.trans ho.1, ?_⟩
      intro q' h; injection h with h; subst h; exact ho.2 q hq

/-- `lha_arch_symlink` with a SAFE target: unlink, symlink -/
theorem archSymlink_w (hg : GoodDs ds) (hi : InvW c ds s) (path target : Bytes)
    (cs : List Bytes) (hp : FnShape ds path cs) (hne : cs ≠ [] ∨ IsDir s (c ++ ds))
    (ht : SafeTarget target) : StepW c ds s (Fs.archSymlink s path target).2 := by
  have hu := unlink_w hi path (shape_lands hg hi hp)
  unfold Fs.archSymlink
  exact hu.trans (symlink_w hu.inv path target (shape_bpath hg hu.inv hp (ne_mono hu.mono hne)) ht)

/-! ## `check_parent_directory`, `make_parent_directories` -/

/-- relative, ".."-free, components comparable with `ds` -/
def PreShape (ds : List Bytes) (p : Bytes) : Prop :=
  p.head? ≠ some 0x2f ∧ (∀ x ∈ comps p, x ≠ [0x2e, 0x2e]) ∧ (comps p <+: ds ∨ ds <+: comps p)

theorem preShape_mkPath (hg : GoodDs ds) (hi : InvW c ds s) {p : Bytes} (hp : PreShape ds p) :
    MkPath c ds s p := by
  intro q hq
  rcases hp.2.2 with h | ⟨cs, h⟩
  · have := lands_chain s c ds hi.cwd hg hi.chain p hp.1 (comps p) h rfl false q hq
    by_cases h0 : comps p = []
    · right; right; rw [this, h0]; simp
    · right; left; exact ⟨comps p, h, h0, this⟩
  · left
    have hnd : ∀ x ∈ cs, x ≠ [0x2e, 0x2e] := fun x hx => hp.2.1 x (by rw [← h]; simp [hx])
    exact (lands s c ds hi.cwd hi.safe hg hi.chain p hp.1 cs h.symm hnd false q hq).1

theorem checkParent_w (hi : InvW c ds s) (path : Bytes) (hp : MkPath c ds s path) :
    StepW c ds s (checkParentDirectory s path).2 := by
  unfold checkParentDirectory
  split
  · exact StepW.refl hi
  · exact mkdir_w hi path _ hp
  · exact StepW.refl hi
  · exact StepW.refl hi

theorem parents_fold_w (hg : GoodDs ds) (fs0 : Fs.St) (trimmed : Bytes) (l : List Nat)
    (hl : ∀ i ∈ l, PreShape ds (trimmed.take i)) :
    ∀ acc : Bool × Fs.St, StepW c ds fs0 acc.2 →
      StepW c ds fs0 (l.foldl (fun (acc : Bool × Fs.St) i =>
        if !acc.1 then acc else checkParentDirectory acc.2 (trimmed.take i)) acc).2 := by
  induction l with
  | nil => intro acc h; exact h
  | cons i l ih =>
    intro acc h
    rw [List.foldl_cons]
    apply ih (fun j hj => hl j (by simp [hj]))
    split
    · exact h
    · exact h.trans (checkParent_w h.inv _ (preShape_mkPath hg h.inv (hl i (by simp))))

theorem comps_append (x y : Bytes) : comps (x ++ 0x2f :: y) = comps x ++ comps y := by
  unfold comps; rw [split_append, List.filter_append]

/-- a prefix of `p` cut at a separator has a prefix of `p`'s components -/
theorem comps_cut_prefix (p : Bytes) (i : Nat) (hi : i < p.length) (hs : p.getD i 0 = 0x2f) :
    comps (p.take i) <+: comps p := by
  have h := split_at_slash p i hi hs
  have : comps p = comps (p.take i) ++ comps (p.drop (i + 1)) := by
    conv => lhs; rw [h]
    exact comps_append _ _
  rw [this]; exact List.prefix_append _ _

theorem trim_prefix (p : Bytes) : (p.reverse.dropWhile (· == 0x2f)).reverse <+: p := by
  have := List.reverse_prefix.2 (List.dropWhile_suffix (l := p.reverse) (· == (0x2f : UInt8)))
  rwa [List.reverse_reverse] at this

/-- taking the components of a prefix that ends before a separator of the whole -/
theorem comps_prefix_cut (t p : Bytes) (ht : t <+: p) (i : Nat) (hi : i < t.length)
    (hs : t.getD i 0 = 0x2f) : comps (t.take i) <+: comps p := by
  obtain ⟨tail, rfl⟩ := ht
  have h1 : (t ++ tail).take i = t.take i := List.take_append_of_le_length (Nat.le_of_lt hi)
  have h2 : (t ++ tail).getD i 0 = 0x2f := by
    rw [List.getD_eq_getElem?_getD] at hs ⊢
    rw [List.getElem?_append_left hi]; exact hs
  have := comps_cut_prefix (t ++ tail) i (by simp; omega) h2
  rwa [h1] at this

/-- **`make_parent_directories`**: for a relative name whose directory components are not ".."
and whose components begin with `ds` -/
theorem makeParents_w (hg : GoodDs ds) (hi : InvW c ds s) (fn : Bytes) (hdc : DirsClean fn)
    (hds : ds <+: comps fn) : StepW c ds s (makeParentDirectories s fn).2 := by
  unfold makeParentDirectories
  simp only
  apply parents_fold_w hg s _ _ _ (true, s) (StepW.refl hi)
  intro i hi'
  obtain ⟨h1, h2⟩ := mem_prefixEnds _ i hi'
  have hrc := dirsClean_take _ (dirsClean_trim fn hdc) i h1 h2
  refine ⟨hrc.1, comps_no_dotdot _ hrc.2, ?_⟩
  exact List.prefix_or_prefix_of_prefix (comps_prefix_cut _ fn (trim_prefix fn) i h1 h2) hds

/-! ## `set_directory_metadata` -/

theorem setDirMeta_w (hg : GoodDs ds) (hi : InvW c ds s) (h : Hdr) (path : Bytes) (cs : List Bytes)
    (hp : FnShape ds path cs) : StepW c ds s (setDirectoryMetadata s h path) := by
  unfold setDirectoryMetadata
  simp only
  have h1 : StepW c ds s (if h.timestamp ≠ 0 then (Fs.utime s path h.timestamp).2 else s) := by
    split
    · exact utime_w hi path _ (shape_lands hg hi hp)
    · exact StepW.refl hi
  split
  · exact h1.trans (chmod_w h1.inv path _ (shape_lands hg h1.inv hp))
  · exact h1

/-! ## `lha_reader_extract` -/

theorem not_dirEntry_of_method (h : Hdr) (hm : (h.method != "-lhd-".toUTF8.toList) = true) :
    isDirEntry h = false := by
  unfold isDirEntry
  cases hb : (h.method == "-lhd-".toUTF8.toList) with
  | false => rfl
  | true =>
    unfold bne at hm
    rw [hb] at hm
    exact absurd hm (by decide)

theorem not_dirEntry_of_link (h : Hdr) (hs : h.symlinkTarget.isSome = true) :
    isDirEntry h = false := by
  unfold isDirEntry
  cases ht : h.symlinkTarget with
  | none => rw [ht] at hs; cases hs
  | some t => simp

/-- **main phase, relative to the base.**  `lha_reader_extract` on anything but a deferred link,
with a name of shape `ds ++ cs`.  A file, link or placeholder is created only when more components
follow (`cs ≠ []`) or the base exists already; a directory entry (first-time or re-presented) needs
neither. -/
theorem readerExtract_w (hg : GoodDs ds) (rd : Reader.St) (fs : Fs.St) (fn : Bytes) (cs : List Bytes)
    (hi : InvW c ds fs) (hp : FnShape ds fn cs)
    (hne : rd.currType = .normal →
      (∀ c', rd.curr = some c' → isDirEntry c'.h = true) ∨ cs ≠ [] ∨ IsDir fs (c ++ ds))
    (hnd : rd.currType ≠ .deferred) : StepW c ds fs (readerExtract rd fs fn).2.2 := by
  unfold readerExtract
  split
  · -- normal
    rename_i c0 hty hcur
    have hne' : isDirEntry c0.h = false → cs ≠ [] ∨ IsDir fs (c ++ ds) := by
      intro hd
      rcases hne hty with h | h
      · rw [h c0 hcur] at hd; cases hd
      · exact h
    simp only
    split
    · -- extract_file
      rename_i hm
      have hn := hne' (not_dirEntry_of_method c0.h hm)
      split
      · exact StepW.refl hi
      · have hf := archFopen_w hg hi fn
          (if hasFlag c0.h Gen.flagUnixPerms then some c0.h.unixPerms else none) cs hp hn
        split
        · exact hf.1
        · rename_i p hpq
          have hw := writeAll_w hf.1.inv p (Reader.extract rd true).1.2 (hf.2 p hpq)
          simp only
          split
          · exact (hf.1.trans hw).trans (utime_w hw.inv fn _ (shape_lands hg hw.inv hp))
          · exact hf.1.trans hw
    · split
      · rename_i hl
        have hn := hne' (not_dirEntry_of_link c0.h hl)
        split
        · -- placeholder
          exact (archFopen_w hg hi fn (some 0o600) cs hp hn).1
        · -- safe link
          rename_i hd
          have hd' : Reader.isDangerous c0.h = false := by simpa using hd
          exact archSymlink_w hg hi fn _ cs hp hn (safe_of_not_dangerous c0.h hd')
      · -- extract_directory
        have hm := fun mode => mkdir_w hi fn mode (shape_lands hg hi hp).mkPath
        repeat' split
        all_goals first
          | exact hm _
          | exact (hm _).trans (setDirMeta_w hg (hm _).inv c0.h fn cs hp)
  · -- fakeDir
    exact setDirMeta_w hg hi _ fn cs hp
  · -- deferred
    rename_i _ _ ht _
    exact absurd ht hnd
  · exact StepW.refl hi

/-- a name that continues, after `ds`, with ".."-free components and a final ".." resolves (when
it does) to an existing directory: every creating call fails on it (`Contain.readerExtract_toDir`) -/
theorem toDir_w (hg : GoodDs ds) (hi : InvW c ds s) (fn : Bytes) (cs : List Bytes)
    (hrel : fn.head? ≠ some 0x2f) (hp : comps fn = ds ++ (cs ++ [[0x2e, 0x2e]]))
    (hnd : ∀ x ∈ cs, x ≠ [0x2e, 0x2e]) : ToDir s fn :=
  fun q hq => lands_dd s c ds hi.cwd hi.safe hg hi.chain hi.dirC hi.dirP fn hrel cs hp hnd false q hq

end shapes

end LhasaV.ContainW
