import LhasaV.Lemmas.ContainW4
/-!
# C10 with `w=DIR` (part 4b): after `make_parent_directories(DIR/X)`, `DIR` exists

For a non-empty member part `X` (not starting with '/'), `make_parent_directories(d ++ "/" ++ X)`
looks at the prefix `d` itself: `check_parent_directory(d)` succeeds only if `d` names a directory
or could be created as one.  With a link- and file-free chain that directory is the lexical place
`c ++ comps d`; no later step removes it.

* `trim_keeps`: a prefix that ends in a byte other than '/' survives the removal of trailing '/';
* `dlen_mem_prefixEnds`: the position after `d` is one of the cuts;
* `checkParent_base`: success of `check_parent_directory` on a path with components `ds`;
* `fold_reaches`: a successful fold ran, and succeeded in, every step;
* **`makeParents_base`**.
-/
namespace LhasaV.ContainW
open LhasaV LhasaV.Header LhasaV.Extract LhasaV.GlobFs LhasaV.Contain

/-! ## the string -/

theorem dropWhile_keeps {α} (p : α → Bool) (b : α) (rest : List α) (hb : p b = false) :
    ∀ l : List α, (b :: rest) <:+ (l ++ b :: rest).dropWhile p := by
  intro l
  induction l with
  | nil => simp [hb]
  | cons a l ih =>
    rw [List.cons_append, List.dropWhile_cons]
    split
    · exact ih
    · exact List.suffix_cons_iff.2 (Or.inr (List.suffix_append _ _))

/-- a prefix ending in a byte other than '/' survives the trimming of trailing separators -/
theorem trim_keeps (pre tl : Bytes) (b : UInt8) (hb : b ≠ 0x2f) :
    (pre ++ [b]) <+: ((pre ++ [b] ++ tl).reverse.dropWhile (· == 0x2f)).reverse := by
  have h1 : (pre ++ [b] ++ tl).reverse = tl.reverse ++ b :: pre.reverse := by simp
  rw [h1]
  have h2 := dropWhile_keeps (· == (0x2f : UInt8)) b pre.reverse (by simpa using hb) tl.reverse
  have h3 := List.reverse_prefix.2 h2
  simpa using h3

/-- the cut after `d` in the trimmed string `d/X`, for a non-empty `X` not starting with '/' -/
theorem dlen_mem_prefixEnds (d X : Bytes) (hd : d ≠ []) (hdrel : d.head? ≠ some 0x2f)
    (hX : X ≠ []) (hXrel : X.head? ≠ some 0x2f) :
    d.length ∈ prefixEnds ((d ++ 0x2f :: X).reverse.dropWhile (· == 0x2f)).reverse ∧
    (((d ++ 0x2f :: X).reverse.dropWhile (· == 0x2f)).reverse).take d.length = d := by
  cases X with
  | nil => exact absurd rfl hX
  | cons x0 X' =>
    have hx0 : x0 ≠ 0x2f := by simpa using hXrel
    have e1 : d ++ 0x2f :: x0 :: X' = (d ++ [0x2f]) ++ [x0] ++ X' := by simp
    obtain ⟨rest, hr⟩ := trim_keeps (d ++ [0x2f]) X' x0 hx0
    rw [e1, ← hr]
    have e2 : d ++ [0x2f] ++ [x0] ++ rest = d ++ 0x2f :: (x0 :: rest) := by simp
    rw [e2]
    refine ⟨?_, by simp⟩
    unfold prefixEnds
    simp only [List.mem_filter, List.mem_range, List.length_append, List.length_cons]
    refine ⟨by omega, ?_⟩
    have hlead : (d ++ 0x2f :: x0 :: rest).takeWhile (· == 0x2f) = [] := by
      cases d with
      | nil => exact absurd rfl hd
      | cons b bs =>
        have : (b == 0x2f) = false := by simpa using hdrel
        simp [this]
    have hmid : (d ++ 0x2f :: x0 :: rest).getD d.length 0 = 0x2f := at_mid d (x0 :: rest)
    simp [hlead]

/-! ## `check_parent_directory` on `DIR` itself -/

theorem existsKind_dir {s : Fs.St} {p : Bytes} (h : Fs.existsKind s p = .dir) :
    ∃ q, Fs.resolvePath s true p = some q ∧ IsDir s q := by
  unfold Fs.existsKind at h
  unfold Fs.resolvePath
  cases hr : Fs.resolveRR s true p with
  | enoent => rw [hr] at h; cases h
  | eother => rw [hr] at h; cases h
  | ok q =>
    rw [hr] at h
    simp only at h
    cases hl : Fs.lookup s q with
    | none => rw [hl] at h; cases h
    | some e =>
      rw [hl] at h
      cases e with
      | dir m t => exact ⟨q, rfl, m, t, hl⟩
      | file d m t => cases h
      | link t => cases h

theorem mkdir_cases (s : Fs.St) (p : Bytes) (mode : Nat) :
    Fs.mkdir s p mode = (false, s) ∨
      ∃ q m t, Fs.resolvePath s false p = some q ∧ q ≠ [] ∧
        Fs.mkdir s p mode = (true, Fs.logMut (Fs.stampParent (Fs.setEnt s q (.dir m t)) q) "mkdir" q) := by
  unfold Fs.mkdir
  split
  · exact Or.inl rfl
  · rename_i q hq
    repeat' split
    all_goals first
      | exact Or.inl rfl
      | exact Or.inr ⟨q, _, _, hq, by assumption, rfl⟩

theorem mkdir_ok_isDir (s : Fs.St) (p : Bytes) (mode : Nat) (h : (Fs.mkdir s p mode).1 = true) :
    ∃ q, Fs.resolvePath s false p = some q ∧ IsDir (Fs.mkdir s p mode).2 q := by
  rcases mkdir_cases s p mode with h1 | ⟨q, m, t, hq, hq0, h1⟩
  · rw [h1] at h; cases h
  · refine ⟨q, hq, ?_⟩
    rw [h1]
    obtain ⟨t', ht'⟩ := lookup_stampParent_dir (Fs.setEnt s q (.dir m t)) q q m t
      (lookup_setEnt_eq s q _ hq0)
    exact ⟨m, t', ht'⟩

section base
variable {c : Fs.Path} {ds : List Bytes} {s : Fs.St}

/-- `check_parent_directory(p)` succeeded on a path whose components are exactly `ds`: the base
`c ++ ds` is a directory now -/
theorem checkParent_base (hg : GoodDs ds) (hi : InvW c ds s) (p : Bytes) (hrel : p.head? ≠ some 0x2f)
    (hp : comps p = ds) (hok : (checkParentDirectory s p).1 = true) :
    IsDir (checkParentDirectory s p).2 (c ++ ds) := by
  unfold checkParentDirectory at hok ⊢
  split at hok
  · rename_i hk
    obtain ⟨q, hq, hd⟩ := existsKind_dir hk
    rw [← lands_chain s c ds hi.cwd hg hi.chain p hrel ds (List.prefix_refl _) hp true q hq]
    exact hd
  · obtain ⟨q, hq, hd⟩ := mkdir_ok_isDir s p _ hok
    rw [← lands_chain s c ds hi.cwd hg hi.chain p hrel ds (List.prefix_refl _) hp false q hq]
    exact hd
  · cases hok
  · cases hok

/-- a failed fold stays failed -/
theorem fold_fail (trimmed : Bytes) (l : List Nat) : ∀ acc : Bool × Fs.St, acc.1 = false →
    (l.foldl (fun (acc : Bool × Fs.St) i =>
      if !acc.1 then acc else checkParentDirectory acc.2 (trimmed.take i)) acc).1 = false := by
  induction l with
  | nil => intro acc h; exact h
  | cons i l ih =>
    intro acc h
    rw [List.foldl_cons]
    apply ih
    simp [h]

/-- **a successful fold ran, and succeeded in, the step `i0`**; the state of that step satisfies
`InvW` and no directory it made disappears afterwards -/
theorem fold_reaches (hg : GoodDs ds) (trimmed : Bytes) (l : List Nat) (i0 : Nat)
    (hl : ∀ i ∈ l, PreShape ds (trimmed.take i)) :
    ∀ acc : Bool × Fs.St, InvW c ds acc.2 → i0 ∈ l → acc.1 = true →
      (l.foldl (fun (acc : Bool × Fs.St) i =>
        if !acc.1 then acc else checkParentDirectory acc.2 (trimmed.take i)) acc).1 = true →
      ∃ s1, InvW c ds s1 ∧ (checkParentDirectory s1 (trimmed.take i0)).1 = true ∧
        DirMono (checkParentDirectory s1 (trimmed.take i0)).2
          (l.foldl (fun (acc : Bool × Fs.St) i =>
            if !acc.1 then acc else checkParentDirectory acc.2 (trimmed.take i)) acc).2 := by
  induction l with
  | nil => intro acc _ h; simp at h
  | cons i l ih =>
    intro acc hi hmem hacc hfin
    rw [List.foldl_cons] at hfin ⊢
    have hstep : StepW c ds acc.2 (checkParentDirectory acc.2 (trimmed.take i)).2 :=
      checkParent_w hi _ (preShape_mkPath hg hi (hl i (by simp)))
    have hif : (if (!acc.1) = true then acc else checkParentDirectory acc.2 (trimmed.take i)) =
        checkParentDirectory acc.2 (trimmed.take i) := by simp [hacc]
    rw [hif] at hfin ⊢
    have hok : (checkParentDirectory acc.2 (trimmed.take i)).1 = true := by
      cases hb : (checkParentDirectory acc.2 (trimmed.take i)).1 with
      | true => rfl
      | false => rw [fold_fail trimmed l _ hb] at hfin; cases hfin
    by_cases he : i0 = i
    · subst he
      refine ⟨acc.2, hi, hok, ?_⟩
      exact (parents_fold_w hg _ trimmed l (fun j hj => hl j (by simp [hj])) _ (StepW.refl hstep.inv)).mono
    · have hmem' : i0 ∈ l := by
        rcases List.mem_cons.1 hmem with h | h
        · exact absurd h he
        · exact h
      exact ih (fun j hj => hl j (by simp [hj])) _ hstep.inv hmem' hok hfin

end base

/-- **after a successful `make_parent_directories(d/X)`, `X` not empty, `cwd/DIR` is a directory** -/
theorem makeParents_base {d : Bytes} {c : Fs.Path} {s : Fs.St} (hw : WOpts d (comps d))
    (hi : InvW c (comps d) s) (X : Bytes) (hX : X ≠ []) (hXdc : DirsClean X)
    (hok : (makeParentDirectories s (d ++ 0x2f :: X)).1 = true) :
    IsDir (makeParentDirectories s (d ++ 0x2f :: X)).2 (c ++ comps d) := by
  unfold makeParentDirectories at hok ⊢
  simp only at hok ⊢
  obtain ⟨hmem, htake⟩ := dlen_mem_prefixEnds d X hw.ne hw.rel.1 hX hXdc.1
  have hshape : ∀ i ∈ prefixEnds ((d ++ 0x2f :: X).reverse.dropWhile (· == 0x2f)).reverse,
      PreShape (comps d) ((((d ++ 0x2f :: X).reverse.dropWhile (· == 0x2f)).reverse).take i) := by
    intro i hi'
    obtain ⟨h1, h2⟩ := mem_prefixEnds _ i hi'
    have hrc := dirsClean_take _ (dirsClean_trim _ (dirsClean_w hw X hXdc)) i h1 h2
    exact ⟨hrc.1, comps_no_dotdot _ hrc.2,
      List.prefix_or_prefix_of_prefix (comps_prefix_cut _ _ (trim_prefix _) i h1 h2) (pre_w hw X)⟩
  obtain ⟨s1, hi1, hok1, hmono⟩ := fold_reaches hw.good _ _ d.length hshape (true, s) hi hmem rfl hok
  rw [htake] at hok1 hmono
  exact hmono.dirs _ (checkParent_base hw.good hi1 d hw.rel.1 rfl hok1)

/-- for ANY prefix `ds` of `DIR`'s components: after a successful `make_parent_directories(d/X)`
with `X` not empty, the constructed path has a component beyond `ds`, or the base exists -/
theorem ne_of_named {d : Bytes} {ds : List Bytes} {c : Fs.Path} {s : Fs.St} (hw : WOpts d ds)
    (hi : InvW c ds s) (X : Bytes) (hX : X ≠ []) (hXdc : DirsClean X)
    (hok : (makeParentDirectories s (d ++ 0x2f :: X)).1 = true) :
    comps (d ++ 0x2f :: X) ≠ ds ∨ IsDir (makeParentDirectories s (d ++ 0x2f :: X)).2 (c ++ ds) := by
  by_cases hds : ds = comps d
  · right
    subst hds
    exact makeParents_base hw hi X hX hXdc hok
  · left
    intro he
    rw [comps_append] at he
    apply hds
    refine List.IsPrefix.eq_of_length hw.pre (Nat.le_antisymm hw.pre.length_le ?_)
    rw [← he]; simp

/-- `parentsOf` on a first-time entry is `make_parent_directories` -/
theorem parentsOf_normal (s : St) (fn : Bytes) (hty : s.rd.currType = .normal) :
    parentsOf s fn = makeParentDirectories s.fs fn := by
  unfold parentsOf; simp [hty]

end LhasaV.ContainW
