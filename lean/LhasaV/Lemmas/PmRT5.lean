import LhasaV.Lemmas.PmRT2
/-!
PMarc round trip, part C: the rebuild schedule of -pm2-.

`SchedAt s produced ph`: `ph` rebuild points have been passed (`ph` = `EncSt.phase` of the
specification), `treeState` is the state of that phase, and `rebuildRemaining` counts down to
the next rebuild point `pointOf ph` (= `EncSt.nextAt`): the tables are (re)read exactly when the
number of bytes produced is 0, 1024, 2048, 4096, 8192, 8192 + 4096·k — wherever the boundary
falls, inside a copy included (`outputByte_sched`, `copyLoop_sched`).
-/
set_option linter.unusedSimpArgs false
namespace LhasaV.PmRT
open LhasaV LhasaV.Spec.PmEnc LhasaV.Pm2

/-! ### the schedule -/

/-- output count of rebuild point number `ph`: 0, 1024, 2048, 4096, 8192, 12288, … -/
def pointOf (ph : Nat) : Nat :=
  if ph = 0 then 0 else if ph = 1 then 1024 else if ph = 2 then 2048 else 4096 * (ph - 2)

/-- the decoder's `tree_state` after `ph` rebuild points -/
def stateOf (ph : Nat) : TreeState :=
  if ph = 0 then .unbuilt else if ph = 1 then .build1 else if ph = 2 then .build2
  else if ph = 3 then .build3 else .continuing

theorem pointOf_succ (ph : Nat) : pointOf (ph + 1) = pointOf ph + phaseGap ph := by
  unfold pointOf phaseGap
  repeat' split
  all_goals omega

/-- a rebuild point other than the start -/
def RebuildPoint (n : Nat) : Prop :=
  n = 1024 ∨ n = 2048 ∨ n = 4096 ∨ (8192 ≤ n ∧ n % 4096 = 0)

instance (n : Nat) : Decidable (RebuildPoint n) := by unfold RebuildPoint; infer_instance

theorem rebuildPoint_iff (n : Nat) : RebuildPoint n ↔ ∃ ph, 1 ≤ ph ∧ n = pointOf ph := by
  unfold RebuildPoint
  constructor
  · rintro (h | h | h | ⟨h1, h2⟩)
    · exact ⟨1, by decide, h⟩
    · exact ⟨2, by decide, h⟩
    · exact ⟨3, by decide, h⟩
    · refine ⟨n / 4096 + 2, by omega, ?_⟩
      unfold pointOf
      have : ¬ n / 4096 + 2 = 0 := by omega
      have : ¬ n / 4096 + 2 = 1 := by omega
      have : ¬ n / 4096 + 2 = 2 := by omega
      simp only [*, if_false]
      omega
  · rintro ⟨ph, h1, h2⟩
    unfold pointOf at h2
    repeat' split at h2
    all_goals omega

/-- `8192 + 4096·k` are rebuild points -/
theorem rebuildPoint_late (k : Nat) : RebuildPoint (8192 + 4096 * k) := by
  unfold RebuildPoint; omega

/-- the invariant: phase, state and countdown agree with the number of bytes produced -/
structure SchedAt (s : St) (produced ph : Nat) : Prop where
  state : s.treeState = stateOf ph
  start : ph = 0 → produced = 0
  count : 1 ≤ ph → produced + s.rebuildRemaining = pointOf ph ∧ 1 ≤ s.rebuildRemaining ∧
    pointOf (ph - 1) ≤ produced

/-- **C.** the schedule invariant -/
def Sched (s : St) (produced : Nat) : Prop := ∃ ph, SchedAt s produced ph

/-! ### what reading the tables leaves alone -/

/-- everything but the reader and the code tables is unchanged -/
structure Frame (s s' : St) : Prop where
  ts : s'.treeState = s.treeState
  rr : s'.rebuildRemaining = s.rebuildRemaining
  ring : s'.ring = s.ring
  pos : s'.pos = s.pos
  hist : s'.hist = s.hist

theorem Frame.refl (s : St) : Frame s s := ⟨rfl, rfl, rfl, rfl, rfl⟩

theorem Frame.trans {a b c : St} (h1 : Frame a b) (h2 : Frame b c) : Frame a c :=
  ⟨h2.ts.trans h1.ts, h2.rr.trans h1.rr, h2.ring.trans h1.ring, h2.pos.trans h1.pos,
   h2.hist.trans h1.hist⟩

theorem readCodeTree_frame (s s' : St) (h : readCodeTree s = .ok s') : Frame s s' := by
  unfold readCodeTree at h
  simp only at h
  cases hpa : (s.bits.readBits 5).1 with
  | none => simp only [hpa] at h; cases h; exact ⟨rfl, rfl, rfl, rfl, rfl⟩
  | some numCodes =>
    cases hpb : ((s.bits.readBits 5).2.readBits 3).1 with
    | none => simp only [hpa, hpb] at h; cases h; exact ⟨rfl, rfl, rfl, rfl, rfl⟩
    | some minLen =>
      simp only [hpa, hpb] at h
      by_cases hm : minLen = 0
      · simp only [hm, if_true] at h; cases h; exact ⟨rfl, rfl, rfl, rfl, rfl⟩
      · simp only [hm, if_false] at h
        cases hpc : (((s.bits.readBits 5).2.readBits 3).2.readBits 3).1 with
        | none => simp only [hpc] at h; cases h; exact ⟨rfl, rfl, rfl, rfl, rfl⟩
        | some lengthBits =>
          simp only [hpc] at h
          obtain ⟨t, _, h2⟩ := Res.bind_eq_ok.mp h
          cases hlens : t.1 with
          | none => simp only [hlens] at h2; cases h2; exact ⟨rfl, rfl, rfl, rfl, rfl⟩
          | some lens =>
            simp only [hlens] at h2
            split at h2
            · cases h2
            · cases h2; exact ⟨rfl, rfl, rfl, rfl, rfl⟩

theorem readOffsetTree_frame (s s' : St) (n : Nat) (h : readOffsetTree s n = .ok s') :
    Frame s s' := by
  unfold readOffsetTree at h
  split at h
  · cases h; exact Frame.refl _
  · obtain ⟨t, _, h2⟩ := Res.bind_eq_ok.mp h
    rcases hlens : t.1 with _ | ⟨lens, single, cnt⟩
    · simp only [hlens] at h2; cases h2; exact ⟨rfl, rfl, rfl, rfl, rfl⟩
    · simp only [hlens] at h2
      split at h2
      · cases h2; exact ⟨rfl, rfl, rfl, rfl, rfl⟩
      · split at h2
        · cases h2
        · cases h2; exact ⟨rfl, rfl, rfl, rfl, rfl⟩

/-- `rebuild_tree` moves to the next phase and sets the countdown to the distance of the next
rebuild point; ring, position and history list are untouched -/
theorem rebuildTree_next (s s' : St) (ph : Nat) (hst : s.treeState = stateOf ph)
    (h : rebuildTree s = .ok s') :
    s'.treeState = stateOf (ph + 1) ∧ s'.rebuildRemaining = phaseGap ph ∧
      s'.ring = s.ring ∧ s'.pos = s.pos ∧ s'.hist = s.hist := by
  unfold rebuildTree at h
  unfold stateOf at hst
  by_cases h0 : ph = 0
  · subst h0
    simp only [if_true] at hst
    simp only [hst] at h
    obtain ⟨s1, e1, h⟩ := Res.bind_eq_ok.mp h
    obtain ⟨s2, e2, h⟩ := Res.bind_eq_ok.mp h
    cases h
    have f := (readCodeTree_frame _ _ e1).trans (readOffsetTree_frame _ _ _ e2)
    exact ⟨rfl, rfl, f.ring, f.pos, f.hist⟩
  by_cases h1 : ph = 1
  · subst h1
    simp only [if_true, if_false, h0] at hst
    simp only [hst] at h
    obtain ⟨s2, e2, h⟩ := Res.bind_eq_ok.mp h
    cases h
    have f := readOffsetTree_frame _ _ _ e2
    exact ⟨rfl, rfl, f.ring, f.pos, f.hist⟩
  by_cases h2 : ph = 2
  · subst h2
    simp only [if_true, if_false, h0, h1] at hst
    simp only [hst] at h
    obtain ⟨s2, e2, h⟩ := Res.bind_eq_ok.mp h
    cases h
    have f := readOffsetTree_frame _ _ _ e2
    exact ⟨rfl, rfl, f.ring, f.pos, f.hist⟩
  by_cases h3 : ph = 3
  · subst h3
    simp only [if_true, if_false, h0, h1, h2] at hst
    simp only [hst] at h
    obtain ⟨s1, e1, h⟩ := Res.bind_eq_ok.mp h
    obtain ⟨s2, e2, h⟩ := Res.bind_eq_ok.mp h
    cases h
    have f1 : Frame { s with bits := s.bits.readBit.2, treeState := .build3 } s1 := by
      split at e1
      · exact readCodeTree_frame _ _ e1
      · cases e1; exact Frame.refl _
    have f := f1.trans (readOffsetTree_frame _ _ _ e2)
    exact ⟨rfl, rfl, f.ring, f.pos, f.hist⟩
  · simp only [if_false, h0, h1, h2, h3] at hst
    simp only [hst] at h
    obtain ⟨s1, e1, h⟩ := Res.bind_eq_ok.mp h
    cases h
    have f1 : Frame { s with bits := s.bits.readBit.2, treeState := .continuing } s1 := by
      split at e1
      · obtain ⟨s0, e0, e1⟩ := Res.bind_eq_ok.mp e1
        exact (readCodeTree_frame _ _ e0).trans (readOffsetTree_frame _ _ _ e1)
      · cases e1; exact Frame.refl _
    have g1 : stateOf (ph + 1) = .continuing := by
      unfold stateOf
      repeat' split
      all_goals first | rfl | omega
    have g2 : phaseGap ph = 4096 := by
      unfold phaseGap
      repeat' split
      all_goals omega
    rw [g1, g2]
    exact ⟨f1.ts, rfl, f1.ring, f1.pos, f1.hist⟩

/-! ### `output_byte` -/

/-- **C.** `output_byte` in phase `ph ≥ 1` with `produced` bytes out: the countdown reaches 0 iff
`produced + 1` is the next rebuild point; then (and only then) the tables are re-read, and the
invariant holds for `produced + 1` in the next phase -/
theorem outputByte_sched (s : St) (b : UInt8) (p ph : Nat) (hs : SchedAt s p ph) (hph : 1 ≤ ph) :
    (s.rebuildRemaining - 1 = 0 ↔ p + 1 = pointOf ph) ∧
    (p + 1 = pointOf ph ↔ RebuildPoint (p + 1)) ∧
    ∀ s', outputByte s b = .ok s' →
      SchedAt s' (p + 1) (if p + 1 = pointOf ph then ph + 1 else ph) ∧
      s'.ring = s.ring.setIfInBounds s.pos b ∧ s'.pos = (s.pos + 1) % Gen.pm2RingSize ∧
      Pma.update s.hist b.toNat = .ok s'.hist ∧
      (¬ p + 1 = pointOf ph → s'.bits = s.bits ∧ s'.codeTree = s.codeTree ∧
        s'.offsetTree = s.offsetTree ∧ s'.needOffsetTree = s.needOffsetTree) := by
  obtain ⟨hc1, hc2, hc3⟩ := hs.count hph
  have hiff : s.rebuildRemaining - 1 = 0 ↔ p + 1 = pointOf ph := by omega
  refine ⟨hiff, ?_, ?_⟩
  · constructor
    · intro h; rw [rebuildPoint_iff]; exact ⟨ph, hph, h⟩
    · intro h
      rw [rebuildPoint_iff] at h
      obtain ⟨q, hq1, hq2⟩ := h
      -- `pointOf` is strictly increasing
      have hmono : ∀ a b, a < b → pointOf a < pointOf b := by
        intro a b hab
        unfold pointOf
        repeat' split
        all_goals omega
      by_cases hlt : q < ph
      · have := hmono q (ph - 1 + 1) (by omega)
        have hle : pointOf q ≤ pointOf (ph - 1) := by
          by_cases he : q = ph - 1
          · rw [he]; exact Nat.le_refl _
          · exact Nat.le_of_lt (hmono q (ph - 1) (by omega))
        omega
      · by_cases he : q = ph
        · rw [hq2, he]
        · have := hmono ph q (by omega)
          omega
  · intro s' h
    unfold outputByte at h
    split at h
    · obtain ⟨hist, eh, h⟩ := Res.bind_eq_ok.mp h
      simp only at h
      by_cases hz : s.rebuildRemaining - 1 = 0
      · simp only [hz, if_true] at h
        have hp := hiff.mp hz
        obtain ⟨g1, g2, g3, g4, g5⟩ := rebuildTree_next _ s' ph (by exact hs.state) h
        refine ⟨?_, g3, g4, by rw [g5]; exact eh, fun hn => absurd hp hn⟩
        rw [if_pos hp]
        refine ⟨g1, fun h0 => by omega, fun _ => ?_⟩
        rw [g2, pointOf_succ, Nat.add_sub_cancel]
        have : 1 ≤ phaseGap ph := by unfold phaseGap; repeat' split
                                     all_goals omega
        omega
      · simp only [hz, if_false] at h
        cases h
        have hp : ¬ p + 1 = pointOf ph := fun e => hz (hiff.mpr e)
        refine ⟨?_, rfl, rfl, eh, fun _ => ⟨rfl, rfl, rfl, rfl⟩⟩
        rw [if_neg hp]
        exact ⟨hs.state, fun h0 => by omega, fun _ => ⟨by show p + 1 + (s.rebuildRemaining - 1) = _; omega,
          by show 1 ≤ s.rebuildRemaining - 1; omega, by omega⟩⟩
    · cases h

/-- the schedule invariant is preserved by `output_byte`, the rebuild happening iff `produced + 1`
is a rebuild point -/
theorem outputByte_Sched (s : St) (b : UInt8) (p : Nat) (hs : Sched s p)
    (hu : s.treeState ≠ .unbuilt) (s' : St) (h : outputByte s b = .ok s') :
    Sched s' (p + 1) ∧ (s.rebuildRemaining - 1 = 0 ↔ RebuildPoint (p + 1)) := by
  obtain ⟨ph, hs⟩ := hs
  have hph : 1 ≤ ph := by
    by_cases h0 : ph = 0
    · subst h0; exact absurd hs.state hu
    · omega
  obtain ⟨h1, h2, h3⟩ := outputByte_sched s b p ph hs hph
  exact ⟨⟨_, (h3 s' h).1⟩, h1.trans h2⟩

/-- the copy loop of `copy_from_history`: the schedule is kept, wherever inside the copy a
rebuild point falls -/
theorem copyLoop_sched (k src : Nat) (s : St) (acc : List UInt8) (p ph : Nat) (hs : SchedAt s p ph)
    (hph : 1 ≤ ph) (s' : St) (out : List UInt8) (h : copyLoop k src s acc = .ok (s', out)) :
    ∃ ph', ph ≤ ph' ∧ SchedAt s' (p + k) ph' := by
  induction k generalizing src s acc p ph with
  | zero =>
    simp only [copyLoop] at h
    cases h
    exact ⟨ph, Nat.le_refl _, hs⟩
  | succ k ih =>
    unfold copyLoop at h
    split at h
    · cases h
    · obtain ⟨s1, e1, h⟩ := Res.bind_eq_ok.mp h
      have h3 := (outputByte_sched s _ p ph hs hph).2.2 s1 e1
      obtain ⟨ph', hle, hs'⟩ := ih _ s1 _ (p + 1) _ h3.1 (by split <;> omega) h
      refine ⟨ph', ?_, by rw [show p + (k + 1) = p + 1 + k by omega]; exact hs'⟩
      split at hle <;> omega

theorem copyLoop_length (k src : Nat) (s : St) (acc : List UInt8) (s' : St) (out : List UInt8)
    (h : copyLoop k src s acc = .ok (s', out)) : out.length = acc.length + k := by
  induction k generalizing src s acc with
  | zero => simp only [copyLoop] at h; cases h; rfl
  | succ k ih =>
    unfold copyLoop at h
    split at h
    · cases h
    · obtain ⟨s1, _, h⟩ := Res.bind_eq_ok.mp h
      rw [ih _ _ _ h]; simp; omega

/-! ### `lha_pm2_decoder_read` -/

theorem sched_init (src : Src) : SchedAt (Pm2.init src) 0 0 :=
  ⟨rfl, fun _ => rfl, fun h => absurd h (by decide)⟩

/-- the first rebuild (at output count 0) happens at the beginning of the first read -/
theorem firstRebuild_sched (s s' : St) (hs : SchedAt s 0 0)
    (h : rebuildTree { s with bits := s.bits.readBit.2 } = .ok s') : SchedAt s' 0 1 := by
  obtain ⟨g1, g2, _⟩ := rebuildTree_next _ s' 0 (by exact hs.state) h
  exact ⟨g1, fun h => absurd h (by decide), fun _ => ⟨by rw [g2]; rfl, by rw [g2]; decide, by decide⟩⟩

/-- **C.** every read keeps the schedule: with `produced` bytes out before, the invariant holds
for `produced + out.length` after it -/
theorem read_Sched (s : St) (p : Nat) (hs : Sched s p) (out : List UInt8) (s' : St)
    (h : Pm2.read s = .ok (out, s')) : Sched s' (p + out.length) := by
  obtain ⟨ph, hs⟩ := hs
  unfold Pm2.read at h
  obtain ⟨s1, e1, h⟩ := Res.bind_eq_ok.mp h
  -- after the optional first rebuild
  have h1 : ∃ ph1, 1 ≤ ph1 ∧ SchedAt s1 p ph1 := by
    by_cases h0 : ph = 0
    · subst h0
      have hp := hs.start rfl
      subst hp
      have : (s.treeState == TreeState.unbuilt) = true := by rw [hs.state]; rfl
      simp only [this, if_true] at e1
      exact ⟨1, Nat.le_refl _, firstRebuild_sched s s1 hs e1⟩
    · have : (s.treeState == TreeState.unbuilt) = false := by
        rw [hs.state]
        unfold stateOf
        simp only [h0, if_false]
        repeat' split
        all_goals rfl
      simp only [this, Bool.false_eq_true, if_false] at e1
      cases e1
      exact ⟨ph, by omega, hs⟩
  obtain ⟨ph1, hph1, hs1⟩ := h1
  have bitsOnly : ∀ (r : Bits) (q : Nat), SchedAt s1 q ph1 → SchedAt { s1 with bits := r } q ph1 :=
    fun r q hq => ⟨hq.state, hq.start, hq.count⟩
  obtain ⟨t, et, h⟩ := Res.bind_eq_ok.mp h
  cases hcode : t.1 with
  | none =>
    simp only [hcode] at h
    cases h
    exact ⟨ph1, bitsOnly _ _ hs1⟩
  | some code =>
    simp only [hcode] at h
    split at h
    · -- a literal byte
      obtain ⟨d, ed, h⟩ := Res.bind_eq_ok.mp h
      cases hoff : d.1 with
      | none =>
        simp only [hoff] at h
        cases h
        exact ⟨ph1, bitsOnly _ _ hs1⟩
      | some off =>
        simp only [hoff] at h
        obtain ⟨b, eb, h⟩ := Res.bind_eq_ok.mp h
        obtain ⟨s2, e2, h⟩ := Res.bind_eq_ok.mp h
        cases h
        have := (outputByte_sched _ _ p ph1 (bitsOnly d.2 p hs1) hph1).2.2 _ e2
        exact ⟨_, this.1⟩
    · -- a copy
      obtain ⟨cnt, ecnt, h⟩ := Res.bind_eq_ok.mp h
      obtain ⟨off, eoff, h⟩ := Res.bind_eq_ok.mp h
      try simp only at h
      split at h
      · split at h
        · cases h
          exact ⟨ph1, bitsOnly _ _ hs1⟩
        · obtain ⟨r, er, h⟩ := Res.bind_eq_ok.mp h
          cases h
          obtain ⟨ph', _, hs'⟩ := copyLoop_sched _ _ _ [] p ph1 (bitsOnly off.2 p hs1) hph1 r.1 r.2 er
          have hlen := copyLoop_length _ _ _ [] r.1 r.2 er
          simp only [List.length_reverse, hlen, List.length_nil, Nat.zero_add]
          exact ⟨ph', hs'⟩
      · cases h
        exact ⟨ph1, bitsOnly _ _ hs1⟩

/-! ### non-vacuity -/

example : (List.range 7).map pointOf = [0, 1024, 2048, 4096, 8192, 12288, 16384] := by decide
example : RebuildPoint 12288 ∧ ¬ RebuildPoint 12289 ∧ ¬ RebuildPoint 6144 := by decide
example (src : Src) : Sched (Pm2.init src) 0 := ⟨0, sched_init src⟩

/-- a state one byte before the first boundary: the next `output_byte` re-reads the tables -/
example (src : Src) :
    SchedAt { Pm2.init src with treeState := .build1, rebuildRemaining := 1 } 1023 1 ∧
    RebuildPoint (1023 + 1) :=
  ⟨⟨rfl, fun h => absurd h (by decide), fun _ => ⟨rfl, Nat.le_refl _, by decide⟩⟩, by decide⟩

end LhasaV.PmRT
