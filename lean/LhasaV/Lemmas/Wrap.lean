import LhasaV.Model.Wrap
/-!
The stream theorem behind split invariance of `lha_decoder_read` (C14), for
EVERY inner decoder `rd`, every state and every schedule.
-/
namespace LhasaV.Wrap

variable {σ : Type} (rd : σ → List Byte × σ)

/-- first `n` bytes of the inner decoder's output stream (which ends at the first empty read) -/
def avail (n : Nat) (s : σ) : List Byte :=
  if n = 0 then []
  else if (rd s).1 = [] then []
  else if n ≤ (rd s).1.length then (rd s).1.take n
  else (rd s).1 ++ avail (n - (rd s).1.length) (rd s).2
termination_by n
decreasing_by
  rename_i h1 h2 h3
  have : 0 < (rd s).1.length := List.length_pos_iff.mpr h2
  omega

theorem avail_length_le (n : Nat) (s : σ) : (avail rd n s).length ≤ n := by
  fun_induction avail rd n s with
  | case1 => simp
  | case2 => simp
  | case3 s n h1 h2 h3 => simp; omega
  | case4 s n h1 h2 h3 ih => simp; omega

/-- the first `k` bytes still deliverable from a wrapper state -/
def rest (k : Nat) (s : St σ) : List Byte :=
  if s.failed then s.pending.take k
  else (s.pending ++ avail rd (k - s.pending.length) s.inner).take k

theorem avail_unfold (m : Nat) (s : σ) (h : (rd s).1 ≠ []) :
    ((rd s).1 ++ avail rd (m - (rd s).1.length) (rd s).2).take m = avail rd m s := by
  rw [avail.eq_def rd m s]
  by_cases hm : m = 0
  · simp [hm]
  · rw [if_neg hm, if_neg h]
    by_cases hle : m ≤ (rd s).1.length
    · rw [if_pos hle, List.take_append_of_le_length hle]
    · rw [if_neg hle]
      have := avail_length_le rd (m - (rd s).1.length) (rd s).2
      rw [List.take_of_length_le]
      simp; omega

theorem avail_nil (n : Nat) (s : σ) (h : (rd s).1 = []) : avail rd n s = [] := by
  rw [avail.eq_def]; simp [h]

theorem rest_split (n k : Nat) (s : St σ) :
    rest rd (n + k) s = (fill rd n s).1 ++ rest rd k (fill rd n s).2 := by
  fun_induction fill rd n s with
  | case1 s => simp
  | case2 need s h1 h2 =>
    simp [rest, h2, List.take_add]
  | case3 need s h1 h2 h3 =>
    have h2' : s.failed = false := by simpa using h2
    simp only [rest, h2', Bool.false_eq_true, if_false, List.length_drop]
    have e : need + k - s.pending.length = k - (s.pending.length - need) := by omega
    rw [e]
    generalize avail rd (k - (s.pending.length - need)) s.inner = x
    rw [List.take_add]
    congr 1
    · rw [List.take_append_of_le_length (by omega)]
    · rw [List.drop_append_of_le_length (by omega)]
  | case4 need s h1 h2 h3 h4 =>
    have h2' : s.failed = false := by simpa using h2
    simp only [rest, h2', Bool.false_eq_true, if_false, avail_nil rd _ _ h4, List.append_nil]
    simp
    exact List.take_of_length_le (by omega)
  | case5 need s h1 h2 h3 h4 r ih =>
    have h2' : s.failed = false := by simpa using h2
    simp only [List.append_assoc]
    rw [← ih]
    simp only [rest, h2', Bool.false_eq_true, if_false]
    have hlen : s.pending.length ≤ need := by omega
    have e1 : need + k - s.pending.length = need - s.pending.length + k := by omega
    rw [e1, avail_unfold rd _ _ h4]
    have hl := avail_length_le rd (need - s.pending.length + k) s.inner
    rw [List.take_of_length_le (by simp; omega)]

theorem fill_len (n : Nat) (s : St σ) : (fill rd n s).1.length ≤ n := by
  fun_induction fill rd n s with
  | case1 s => simp
  | case2 need s h1 h2 => simp [List.length_take]; omega
  | case3 need s h1 h2 h3 => simp [List.length_take]; omega
  | case4 need s h1 h2 h3 h4 => simp only; omega
  | case5 need s h1 h2 h3 h4 r ih => simp only [r] at *; simp; omega

/-- what one call hands out: the first `n` deliverable bytes (fewer only if the stream ends) -/
theorem fill_out (n : Nat) (s : St σ) : (fill rd n s).1 = rest rd n s := by
  have h := rest_split rd n 0 s
  have h0 : rest rd 0 (fill rd n s).2 = [] := by simp [rest]
  simpa [h0] using h.symm

end LhasaV.Wrap
