import LhasaV.Lemmas.MessagesAgree4
import LhasaV.Lemmas.MessagesAgree5
import LhasaV.Lemmas.ExtractTree
import LhasaV.Lemmas.Contain
import LhasaV.Lemmas.ToolNoFault
/-!
# The two models of `lha x` / `lha e` agree

`Model/Extract.lean` (`Extract.run`: file system, result, abort; used by C06 `run_tree`, C10
`run_contained_all`, C08 `extract_run_no_fault`) and `Model/Messages.lean` (`Messages.run .extract`:
the same loop with every message, prompt and the exit status; used by C07 `exit_status_iff`, C18)
model the same C code.  They differ, by design, in two documented places and — found while proving
this — in a third:

1. `Messages.readLine` follows `prompt_user` (NUL bytes skipped, a line needs its newline),
   `Extract.readAnswer` takes the first byte of a line whatever it is and accepts an unterminated
   last line;
2. `Messages` applies the POSIX trailing-slash rule to non-directory members whose constructed path
   ends in '/', `Extract` / `Fs` drop the empty last component;
3. `Extract.confirmOverwrite` gives up (`exit(-1)`) after 64 unusable answers to one prompt (its fuel
   is the constant 64), `Messages.confirm` reads on as long as there are lines (`differ_fuel` below).

`run_agree`: outside these — no dry run; (1') the overwrite policy is not `prompt`, or the answers are
NUL-free, every line newline-terminated, at most 64 lines (`PromptOk`); (2') no handled
non-directory member has a constructed path ending in '/' (`TraceNoTrail`, over the trace of the
run; `traceNoTrail_of_named`: it is enough that every handled member that is not a directory entry
has a non-empty file name, the rest is C11) — the two runs end with the SAME reader state, file system (mutation log included), result flag
and abort flag.  `run_agree_all` / `run_agree_skip`: policy `all` (options `f`, `q…`) or `skip`, no
condition on the answers.

Transfers: `mrun_tree` (C06), `mrun_contained` (C10) to `Messages.runExtract`;
`extract_result_iff` (C07's exit status) to `Extract.run`; C08 holds of both models directly
(`ToolNoFault.extract_run_no_fault`, `ToolNoFault.xrun_no_fault`).
-/
namespace LhasaV.MessagesAgree
open LhasaV LhasaV.Header LhasaV.Extract LhasaV.Messages

/-- (2') over the run: every member the run handles is a directory entry or has a constructed
path that does not end in '/' -/
def TraceNoTrail (archive : Array UInt8) (o : Opts) (fs : Fs.St) (answers : Bytes) : Prop :=
  ∀ t ∈ (Messages.run .extract archive o fs answers).trace, NoTrail o t.1

instance (archive : Array UInt8) (o : Opts) (fs : Fs.St) (answers : Bytes) :
    Decidable (TraceNoTrail archive o fs answers) :=
  inferInstanceAs (Decidable (∀ t ∈ (Messages.run .extract archive o fs answers).trace, NoTrail o t.1))

theorem run_rel (archive : Array UInt8) (o : Opts) (fs : Fs.St) (answers : Bytes)
    (hd : o.dryRun = false) (hp : PromptOk o.overwrite answers) (hs : TraceNoTrail archive o fs answers) :
    Rel (Messages.run .extract archive o fs answers) (Extract.run archive o fs answers) :=
  loop_agree o (2 * archive.size + 16)
    { x := { rd := initReader archive, fs := fs, opts := o, answers := answers } }
    (Contain.runInit archive o fs answers)
    ⟨rfl, rfl, rfl, rfl, fun _ => rfl, fun _ => rfl⟩ hp hd ⟨rfl, rfl⟩ hs

/-- **(A) Agreement.**  For every archive, options without dry run, file system and answers with
(1') `PromptOk` and (2') `TraceNoTrail`: the message-bearing run and `Extract.run` end with the same
file system (entries, parameters and mutation log), reader state, result flag and abort flag; when
the run did not abort also with the same overwrite policy and unread answers. -/
theorem run_agree (archive : Array UInt8) (o : Opts) (fs : Fs.St) (answers : Bytes)
    (hd : o.dryRun = false) (hp : PromptOk o.overwrite answers) (hs : TraceNoTrail archive o fs answers) :
    (Extract.run archive o fs answers).fs = (Messages.run .extract archive o fs answers).x.fs ∧
    (Extract.run archive o fs answers).rd = (Messages.run .extract archive o fs answers).x.rd ∧
    (Extract.run archive o fs answers).result = (Messages.run .extract archive o fs answers).result ∧
    (Extract.run archive o fs answers).aborted = (Messages.run .extract archive o fs answers).aborted ∧
    ((Messages.run .extract archive o fs answers).aborted = false →
      (Extract.run archive o fs answers).opts = (Messages.run .extract archive o fs answers).x.opts ∧
      (Extract.run archive o fs answers).answers = (Messages.run .extract archive o fs answers).x.answers) := by
  have h := run_rel archive o fs answers hd hp hs
  refine ⟨h.fs, h.rd, ?_, h.ab, fun ha => ⟨h.opts ha, h.answers ha⟩⟩
  rw [h.res, ToolNoFault.fault_flag_never_set]
  simp

/-- the same on the task-level entry point: resulting file system, and "exit status is 0" -/
theorem runExtract_agree (archive : Array UInt8) (o : Opts) (fs : Fs.St) (answers : Bytes)
    (hd : o.dryRun = false) (hp : PromptOk o.overwrite answers) (hs : TraceNoTrail archive o fs answers) :
    (Messages.runExtract archive o fs answers).2.2 = (Extract.run archive o fs answers).fs ∧
    (Messages.runExtract archive o fs answers).2.1 = (Extract.run archive o fs answers).result ∧
    ((Extract.run archive o fs answers).aborted = true → (Extract.run archive o fs answers).result = false) := by
  have h := run_agree archive o fs answers hd hp hs
  have hab := aborted_result .extract archive o fs answers
  refine ⟨h.1.symm, ?_, fun ha => ?_⟩
  · rw [h.2.2.1]
    exact runExtract_status_eq archive o fs answers
  · rw [h.2.2.1]; exact hab (by rw [← h.2.2.2.1]; exact ha)

/-- policy `all` (options `f`, `q1`, `q2`): no condition on the answers — nothing is ever asked -/
theorem run_agree_all (archive : Array UInt8) (o : Opts) (fs : Fs.St) (answers : Bytes)
    (hd : o.dryRun = false) (ho : o.overwrite = .all) (hs : TraceNoTrail archive o fs answers) :
    (Messages.runExtract archive o fs answers).2.2 = (Extract.run archive o fs answers).fs ∧
    (Messages.runExtract archive o fs answers).2.1 = (Extract.run archive o fs answers).result ∧
    (Messages.run .extract archive o fs answers).aborted = (Extract.run archive o fs answers).aborted :=
  have hp : PromptOk o.overwrite answers := fun h => by rw [ho] at h; cases h
  ⟨(runExtract_agree archive o fs answers hd hp hs).1, (runExtract_agree archive o fs answers hd hp hs).2.1,
   (run_agree archive o fs answers hd hp hs).2.2.2.1.symm⟩

theorem run_agree_skip (archive : Array UInt8) (o : Opts) (fs : Fs.St) (answers : Bytes)
    (hd : o.dryRun = false) (ho : o.overwrite = .skip) (hs : TraceNoTrail archive o fs answers) :
    (Messages.runExtract archive o fs answers).2.2 = (Extract.run archive o fs answers).fs ∧
    (Messages.runExtract archive o fs answers).2.1 = (Extract.run archive o fs answers).result ∧
    (Messages.run .extract archive o fs answers).aborted = (Extract.run archive o fs answers).aborted :=
  have hp : PromptOk o.overwrite answers := fun h => by rw [ho] at h; cases h
  ⟨(runExtract_agree archive o fs answers hd hp hs).1, (runExtract_agree archive o fs answers hd hp hs).2.1,
   (run_agree archive o fs answers hd hp hs).2.2.2.1.symm⟩

/-- (2') from the headers alone: every handled member is a directory entry or has a file name
(its file name has no '/' by C11, `trace_names_clean`, so the constructed path cannot end in one) -/
theorem traceNoTrail_of_named (archive : Array UInt8) (o : Opts) (fs : Fs.St) (answers : Bytes)
    (hn : ∀ t ∈ (Messages.run .extract archive o fs answers).trace,
      isDirEntry t.1 = true ∨ t.1.filename.getD [] ≠ []) : TraceNoTrail archive o fs answers :=
  noTrail_of_named archive o fs answers hn

/-- no answers at all is always fine for (1') -/
theorem promptOk_nil (pol : Overwrite) : PromptOk pol [] := fun _ => ansOk_nil _

/-! ## transfers -/

open ExtractTree in
/-- **C06 `run_tree`, for the message-bearing model**: `lha x archive` on an archive that denotes the
well-formed entry list `es`, into an empty directory: exit status 0 and exactly the tree of `es`. -/
theorem mrun_tree (archive : Array UInt8) (o : Opts) (fs : Fs.St) (answers : Bytes) (es : List ExtractTree.Entry)
    (ho : OptsOk o) (hfs : EmptyDir fs) (ha : Access fs) (hwf : WellFormed es)
    (hfuel : 2 * es.length + 1 ≤ Contain.runFuel archive)
    (hden : Denotes (Contain.runFuel archive) (Contain.runInit archive o fs answers) es)
    (hd : o.dryRun = false) (hp : PromptOk o.overwrite answers) (hs : TraceNoTrail archive o fs answers) :
    (Messages.runExtract archive o fs answers).2.1 = true ∧
    Messages.exitStatus (Messages.run .extract archive o fs answers) = 0 ∧
    (∀ p, p ≠ [] → Fs.lookup (Messages.runExtract archive o fs answers).2.2 (fs.cwd ++ p) =
      treeOf fs.now fs.umask es p) ∧
    (es ≠ [] → fs.cwd ≠ [] →
      ∃ m, Fs.lookup (Messages.runExtract archive o fs answers).2.2 fs.cwd = some (.dir m fs.now)) ∧
    (∀ x, ¬ fs.cwd <+: x → Fs.lookup (Messages.runExtract archive o fs answers).2.2 x = Fs.lookup fs x) := by
  have hA := runExtract_agree archive o fs answers hd hp hs
  have hT := run_tree archive o fs answers es ho hfs ha hwf hfuel hden
  rw [hA.1]
  have h1 : (Messages.runExtract archive o fs answers).2.1 = true := by rw [hA.2.1]; exact hT.1
  exact ⟨h1, (MessagesProps.runExtract_status archive o fs answers).mp h1, hT.2.1, hT.2.2.1, hT.2.2.2⟩

/-- **C10 `run_contained`, for the message-bearing model**: every mutation of `lha x` / `lha e`
(no `w=`) acts below the extraction directory -/
theorem mrun_contained (archive : Array UInt8) (o : Opts) (fs₀ : Fs.St) (answers : Bytes)
    (hw : o.extractPath = none) (hsl : Contain.SafeLinks fs₀) (hdo : Contain.DirsOk fs₀)
    (hd : o.dryRun = false) (hp : PromptOk o.overwrite answers) (hs : TraceNoTrail archive o fs₀ answers) :
    (Messages.runExtract archive o fs₀ answers).2.2.cwd = fs₀.cwd ∧
    ∃ new, (Messages.runExtract archive o fs₀ answers).2.2.log = new ++ fs₀.log ∧
      ∀ m ∈ new, fs₀.cwd <+: m.path := by
  rw [(runExtract_agree archive o fs₀ answers hd hp hs).1]
  exact Contain.run_contained_all archive o fs₀ answers hw hsl hdo

/-- **C07 `exit_status_iff`, for `Extract.run`**: the result flag of the older model is true exactly
when the run did not leave through `exit(-1)` and every member handled (the trace of the
message-bearing run) was good -/
theorem extract_result_iff (archive : Array UInt8) (o : Opts) (fs : Fs.St) (answers : Bytes)
    (hd : o.dryRun = false) (hp : PromptOk o.overwrite answers) (hs : TraceNoTrail archive o fs answers) :
    (Extract.run archive o fs answers).result = true ↔
      (Extract.run archive o fs answers).aborted = false ∧
      ∀ t ∈ (Messages.run .extract archive o fs answers).trace, t.2 = true := by
  have hA := runExtract_agree archive o fs answers hd hp hs
  have hR := run_agree archive o fs answers hd hp hs
  rw [← hA.2.1, MessagesProps.runExtract_status, ToolNoFault.exit_status_iff', hR.2.2.2.1]

/-- C08 on both sides: neither model ever sees a faulting `lha_reader_next_file` (no hypotheses) -/
theorem no_fault_both (archive : Array UInt8) (o : Opts) (fs : Fs.St) (answers : Bytes) :
    "fault" ∉ (Extract.run archive o fs answers).out ∧
    (Messages.run .extract archive o fs answers).fault = false :=
  ⟨ToolNoFault.extract_run_no_fault archive o fs answers,
   ToolNoFault.fault_flag_never_set .extract archive o fs answers⟩

/-! ## the hypotheses are needed: the three differences on concrete bytes

`demoArchive` (one `-lh0-` member `a` holding `hi`) extracted a second time over itself, so that the
overwrite prompt appears. -/

/-- `/root` after a first `lha x` of the demo archive: `a` exists -/
def fsWithA : Fs.St := (Extract.run Reader.demoArchive {} ToolNoFault.demoFs []).fs

/-- `n` unusable answers `x⏎` -/
def junk (n : Nat) : Bytes := (List.replicate n [0x78, 0x0a]).flatten

-- in the domain of `run_agree`: 63 unusable lines, then `y`: both overwrite
#guard decide (PromptOk .prompt (junk 63 ++ [0x79, 0x0a]))
#guard (Extract.run Reader.demoArchive {} fsWithA (junk 63 ++ [0x79, 0x0a])).out == ["ok"]
#guard (Messages.run .extract Reader.demoArchive {} fsWithA (junk 63 ++ [0x79, 0x0a])).trace.map (·.2) == [true]
-- (3) NEW: 64 unusable lines, then `y`: `Extract` leaves through exit(-1), `Messages` (and the C) overwrites
#guard (Extract.run Reader.demoArchive {} fsWithA (junk 64 ++ [0x79, 0x0a])).aborted
#guard !(Messages.run .extract Reader.demoArchive {} fsWithA (junk 64 ++ [0x79, 0x0a])).aborted
#guard Messages.exitStatus (Messages.run .extract Reader.demoArchive {} fsWithA (junk 64 ++ [0x79, 0x0a])) == 0
-- (1) a NUL before the answer: `Extract` takes the NUL as the answer, then runs out of input
#guard (Extract.run Reader.demoArchive {} fsWithA [0, 0x79, 0x0a]).aborted
#guard !(Messages.run .extract Reader.demoArchive {} fsWithA [0, 0x79, 0x0a]).aborted
-- (1) an unterminated last line: `Extract` accepts it, `prompt_user` does not
#guard (Extract.run Reader.demoArchive {} fsWithA [0x79]).out == ["ok"]
#guard (Messages.run .extract Reader.demoArchive {} fsWithA [0x79]).aborted


/-- (2): the demo member stored under the level-0 name `d/` (path `d/`, empty file name, method `-lh0-`) -/
def slashArchive : Array UInt8 :=
  #[0x18, 0x3d, 0x2d, 0x6c, 0x68, 0x30, 0x2d, 0x02, 0x00, 0x00, 0x00, 0x02, 0x00, 0x00, 0x00, 0x00,
    0x00, 0x21, 0x28, 0x20, 0x00, 0x02, 0x64, 0x2f, 0xef, 0xee, 0x68, 0x69, 0x00]

-- the hypotheses hold of the plain demo run, (2') fails on `slashArchive`
#guard decide (TraceNoTrail Reader.demoArchive {} fsWithA [0x79, 0x0a])
#guard !decide (TraceNoTrail slashArchive {} ToolNoFault.demoFs [])
#guard (Messages.run .extract slashArchive {} ToolNoFault.demoFs []).trace.map (fun t => (t.1.path, t.1.filename))
  == [(some [0x64, 0x2f], some [])]
-- `Extract` / `Fs` create the regular file `/root/d`; with the POSIX rule `open("d/", O_CREAT|O_EXCL)` fails
#guard (Extract.run slashArchive {} ToolNoFault.demoFs []).out == ["ok"]
#guard (Fs.lookup (Extract.run slashArchive {} ToolNoFault.demoFs []).fs [[0x72, 0x6f, 0x6f, 0x74], [0x64]]).isSome
#guard (Messages.run .extract slashArchive {} ToolNoFault.demoFs []).trace.map (·.2) == [false]
#guard (Fs.lookup (Messages.run .extract slashArchive {} ToolNoFault.demoFs []).x.fs [[0x72, 0x6f, 0x6f, 0x74], [0x64]]).isNone

end LhasaV.MessagesAgree
