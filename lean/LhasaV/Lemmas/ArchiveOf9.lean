import LhasaV.Lemmas.ArchiveOf8
/-!
# C06, archives as bytes (part 9): other packers

Packers other than `stored`: stored members under level-1 headers (`storedL1`), and — built on
the specification encoders of C03 and their decoder round-trip theorems — `-lzs-` and `-lz5-`
members that encode the data as a run of literals, under level-2 or level-1 headers.
(Any other compressor for these methods — any valid command list whose expansion is the data —
fits `packOk_of_roundtrip` in the same way, and so do the C01/C02/C04 round trips for the
`-lh?-` and `-pm?-` methods.)
-/
set_option linter.unusedSimpArgs false
namespace LhasaV.ArchiveOf
open LhasaV LhasaV.Header LhasaV.Extract LhasaV.ExtractTree
open LhasaV.ExtractTree.Sample LhasaV.Spec.HeaderEnc LhasaV.Reader LhasaV.Spec.Lz77

def lzsM : Bytes := [0x2d, 0x6c, 0x7a, 0x73, 0x2d]
def lz5M : Bytes := [0x2d, 0x6c, 0x7a, 0x35, 0x2d]

/-- the data as a command list of literals -/
def lits (data : Bytes) : List RCmd := data.map .lit

theorem expandRing_lits (size : Nat) (data : Bytes) (r : Ring) (w : Nat) :
    expandRing size (lits data) r w = data := by
  induction data generalizing r w with
  | nil => rfl
  | cons b data ih => simp only [lits, List.map_cons, expandRing]; rw [← lits, ih]

/-- stored members under level-1 headers -/
def storedL1 : Packer := { pack := fun d => (lh0, d), level1 := true }

theorem packOk_storedL1 (data : Bytes) (h : data.length < 4294901760) : PackOk storedL1 data := by
  have h0 := packOk_stored data (by omega)
  exact ⟨h0.sig, h0.notDir, by show data.length + 65536 < 4294967296; omega, h0.decodes⟩

/-- `-lzs-` members holding the data as literals -/
def lzsLit (l1 : Bool := false) : Packer := { pack := fun data => (lzsM, serialiseLzs (lits data)), level1 := l1 }

/-- `-lz5-` members holding the data as literals -/
def lz5Lit (l1 : Bool := false) : Packer := { pack := fun data => (lz5M, serialiseLz5 (lits data)), level1 := l1 }

theorem packOk_lzsLit (l1 : Bool) (data : Bytes) (h : (serialiseLzs (lits data)).length < 4294901760) :
    PackOk (lzsLit l1) data := by
  have hn : mname lzsM = "-lzs-" := by decide +kernel
  have hi : (decoderInfo "-lzs-").isSome = true := by decide +kernel
  obtain ⟨info, hi⟩ := Option.isSome_iff_exists.1 hi
  refine packOk_of_roundtrip lzsM (fun d => serialiseLzs (lits d)) l1 Lzs.dec info data (by decide) (by decide) h
    (by rw [hn]; rfl) (by rw [hn]; exact hi) ?_
  have := LzRoundTrip.lzs_round_trip (lits data) (by intro c hc; simp [lits] at hc; obtain ⟨b, _, rfl⟩ := hc; rfl)
    data.length 0
  rw [expandLzs, expandRing_lits, List.take_length] at this
  exact this

theorem packOk_lz5Lit (l1 : Bool) (data : Bytes) (h : (serialiseLz5 (lits data)).length < 4294901760) :
    PackOk (lz5Lit l1) data := by
  have hn : mname lz5M = "-lz5-" := by decide +kernel
  have hi : (decoderInfo "-lz5-").isSome = true := by decide +kernel
  obtain ⟨info, hi⟩ := Option.isSome_iff_exists.1 hi
  refine packOk_of_roundtrip lz5M (fun d => serialiseLz5 (lits d)) l1 Lz5.dec info data (by decide) (by decide) h
    (by rw [hn]; rfl) (by rw [hn]; exact hi) ?_
  have := LzRoundTrip.lz5_round_trip (lits data) (by intro c hc; simp [lits] at hc; obtain ⟨b, _, rfl⟩ := hc; rfl)
    data.length
  rw [expandLz5, expandRing_lits, List.take_length] at this
  exact this

end LhasaV.ArchiveOf
