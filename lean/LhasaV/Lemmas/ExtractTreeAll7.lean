import LhasaV.Lemmas.ExtractTreeAll6
/-!
# C06, all deviations together (part 7): the unified tree theorem

**`run_tree_unified`**: `lha x[fq][w=DIR] archive [patterns]` (paths used; any wildcard arguments;
optional `w=DIR` with clean relative components) started where the place of the tree — `cwd` or
`cwd/DIR` — holds at most regular files directly in it (`BaseU`), on an archive that denotes an
entry list whose SELECTED entries are in the mixed order (`WFU`) and do not collide with those
files except file-on-file (`PreAtU`), with any answer stream (`OwAnswers` under the prompt policy —
needed only when some selected file member has its place taken: `Asked`).
Then, with `uniPlan` = `plan` (the independent specification of the overwrite policy) of `keptOf`
(late directory entries dropped) of the selected entries:

* the run is aborted exactly when the plan is, and succeeds otherwise;
* below the base every path holds `uniTree … (uniPlan …).1`: a written entry in its final form; every
  other proper prefix of a written path a directory 0755 under the umask with the time of the
  run; everything else EXACTLY what it held before (kept files, files at and after the abort,
  files that are not in the archive);
* the base keeps the mode it has in `mkBase` (0755 under the umask when the run created it) and
  carries `now`; outside the base the file system is that of `mkBase` — the start state with the
  missing components of `DIR` created (`MadeFrom`); when nothing is written nothing is touched.
-/
namespace LhasaV.ExtractTree
open LhasaV LhasaV.Header LhasaV.Extract LhasaV.GlobFs LhasaV.Contain

/-- the specification's plan for the run: the overwrite policy over the selected entries that are
not late -/
def uniPlan (fs : Fs.St) (ds : List Bytes) (o : Opts) (answers : Bytes) (es : List Entry) :
    List Entry × Bool :=
  plan (exB fs ds) o.overwrite (lines answers) (keptOf [] (es.filter (selected o.filters)))

/-- what `run_tree_unified` promises about the final state `r` of a run started in `fs`, the tree
placed at `cwd ++ ds`, for the plan `pl` (written entries, aborted?) -/
def UniOutcome (r : Extract.St) (fs : Fs.St) (ds : List Bytes) (pl : List Entry × Bool) : Prop :=
  r.aborted = pl.2 ∧ r.result = !pl.2 ∧
  (∀ p, p ≠ [] → Fs.lookup r.fs (fs.cwd ++ ds ++ p) = uniTree fs.now fs.umask (oldB fs ds) pl.1 p) ∧
  (pl.1 ≠ [] → ∃ m t0 t, Fs.lookup (mkBase fs ds) (fs.cwd ++ ds) = some (.dir m t0) ∧
    Fs.lookup r.fs (fs.cwd ++ ds) = some (.dir m t) ∧ (fs.cwd ++ ds ≠ [] → t = fs.now)) ∧
  (pl.1 ≠ [] → ∀ x, ¬ (fs.cwd ++ ds) <+: x → Fs.lookup r.fs x = Fs.lookup (mkBase fs ds) x) ∧
  (pl.1 = [] → r.fs = fs)

/-- the selected entries of the archive (those the plan is about) -/
theorem uniPlan_sublist (fs : Fs.St) (ds : List Bytes) (o : Opts) (answers : Bytes) (es : List Entry) :
    (uniPlan fs ds o answers es).1.Sublist (keptOf [] (es.filter (selected o.filters))) :=
  plan_sublist _ _ _ _

theorem loopInvU_start (s : Extract.St) (ds : List Bytes) (es : List Entry) (hs : StartG s ds)
    (hwf : WFU (selected s.opts.filters) [] [] es)
    (hpre : ∀ e ∈ es, selected s.opts.filters e = true → PreAtU s.fs ds e)
    (hdepth : ∀ e ∈ es, ds.length + e.path.length < 64)
    (hans : Asked s.fs ds (selected s.opts.filters) es → s.opts.overwrite = .prompt → OwAnswers s.answers) :
    LoopInvU s.fs ds (selected s.opts.filters) [] [] [] es s.opts.overwrite (lines s.answers) s := by
  refine ⟨⟨hs.aborted, hs.result, hs.opts, fun _ => rfl, rfl, fun ha => ⟨rfl, fun h => (hans ha h).2⟩,
    Or.inl ⟨rfl, rfl, rfl⟩, ?_, fun e he => (by cases he), fun e he => (by cases he),
    fun p hp => (by cases hp), hwf, hpre, by simpa using hdepth⟩, ?_⟩
  · exact ⟨fun e he => (by cases he), List.nodup_nil, fun d hd => (by cases hd),
      fun d hd => (by cases hd), List.Pairwise.nil⟩
  · refine ⟨hs.policy, hs.deferred, by rw [hs.stack]; trivial, Or.inl hs.ty, ?_⟩
    intro h
    rw [hs.ty] at h
    cases h

/-- the end of the run, read off the invariant -/
theorem final_u_tree {fs0 : Fs.St} {ds : List Bytes} {all : List Entry} {ab : Bool} {s : Extract.St}
    (hb : BaseRefU fs0 ds) (hF : FinalU fs0 ds all ab s) : UniOutcome s fs0 ds (all, ab) := by
  obtain ⟨k0, hbk, hf⟩ := hb.facts
  have hp1 := hb.params
  refine ⟨hF.aborted, hF.result, ?_, ?_, ?_, ?_⟩
  · intro p hp
    show Fs.lookup s.fs (fs0.cwd ++ ds ++ p) = uniTree fs0.now fs0.umask (oldB fs0 ds) all p
    rcases hF.fs with ⟨h0, _, hfs⟩ | ⟨_, hfs⟩
    · rw [h0, hfs]
      unfold uniTree impTreeOf treeOf
      simp [oldB]
    · rw [hp1.cwd] at hfs
      rw [← hp1.now, ← hp1.umask]
      unfold uniTree impTreeOf treeOf
      cases hfd : all.find? (fun e => e.path == p) with
      | some e =>
        have hm := List.mem_of_find?_eq_some hfd
        have hpe : e.path = p := by simpa using List.find?_some hfd
        have := hfs.ents e hm
        rw [if_neg (by simp), hpe] at this
        rw [this]; rfl
      | none =>
        rw [List.find?_eq_none] at hfd
        have hno : ∀ e ∈ all, e.path ≠ p := fun e he h => hfd e he (by simp [h])
        by_cases hany : ∃ e ∈ all, p <+: e.path
        · have : all.any (fun e => decide (p <+: e.path)) = true := by
            obtain ⟨e, he, hpe⟩ := hany
            exact List.any_eq_true.2 ⟨e, he, by simpa using hpe⟩
          rw [hfs.imp p hp hany hno]; simp [this]
        · have : all.any (fun e => decide (p <+: e.path)) = false := by
            rw [List.any_eq_false]; intro e he; simpa using fun h => hany ⟨e, he, h⟩
          rw [hfs.other p hp (fun e he h => hany ⟨e, he, h⟩), hf.below p hp]
          simp [this, oldB]
  · intro hne
    have hfs := hF.fs.inv hne
    rw [hp1.cwd] at hfs
    obtain ⟨m, t0, t, hl0, hl, _, ht, _⟩ := hfs.base
    exact ⟨m, t0, t, hl0, hl, fun hc => by rw [ht hne hc, hp1.now]⟩
  · intro hne x hx
    have hfs := hF.fs.inv hne
    rw [hp1.cwd] at hfs
    exact hfs.outside x hx
  · intro he
    rcases hF.fs with ⟨_, _, hfs⟩ | ⟨hne, _⟩
    · exact hfs
    · exact absurd he hne

/-- **C06, all deviations together — at the level of the loop.** -/
theorem extract_tree_unified (fuel : Nat) (s : Extract.St) (ds : List Bytes) (k : Nat) (es : List Entry)
    (hs : StartG s ds) (hb : BaseU s.fs ds k) (ha : AccessW s.fs)
    (hwf : WFU (selected s.opts.filters) [] [] es)
    (hpre : ∀ e ∈ es, selected s.opts.filters e = true → PreAtU s.fs ds e)
    (hdepth : ∀ e ∈ es, ds.length + e.path.length < 64)
    (hans : Asked s.fs ds (selected s.opts.filters) es → s.opts.overwrite = .prompt → OwAnswers s.answers)
    (hfuel : 2 * es.length + 1 ≤ fuel) (hden : DenotesF fuel s es) :
    UniOutcome (extractLoop fuel s) s.fs ds (uniPlan s.fs ds s.opts s.answers es) := by
  have hbr := baseRefU_of hb ha
  have hF := loop_final_u s.fs ds (selected s.opts.filters) hbr fuel s [] [] es [] s.opts.overwrite
    (lines s.answers) (by simpa using hfuel) (loopInvU_start s ds es hs hwf hpre hdepth hans) hden
  simp only [List.nil_append] at hF
  exact final_u_tree hbr hF

/-- **C06 — the unified tree theorem** for `lha x[fq][w=DIR] archive [patterns]`: wildcards whose
selection need not be closed under parents, implicit parents, late directory entries, relocation,
pre-existing files under the overwrite policy — all at once. -/
theorem run_tree_unified (archive : Array UInt8) (o : Opts) (fs : Fs.St) (answers : Bytes)
    (ds : List Bytes) (k : Nat) (es : List Entry)
    (ho : OptsRel o ds) (hb : BaseU fs ds k) (ha : AccessW fs)
    (hwf : WFU (selected o.filters) [] [] es)
    (hpre : ∀ e ∈ es, selected o.filters e = true → PreAtU fs ds e)
    (hdepth : ∀ e ∈ es, ds.length + e.path.length < 64)
    (hans : Asked fs ds (selected o.filters) es → o.overwrite = .prompt → OwAnswers answers)
    (hfuel : 2 * es.length + 1 ≤ runFuel archive)
    (hden : DenotesF (runFuel archive) (runInit archive o fs answers) es) :
    UniOutcome (run archive o fs answers) fs ds (uniPlan fs ds o answers es) ∧
    MadeFrom fs (mkBase fs ds) (ds.take k) (ds.drop k) := by
  rw [run_eq]
  exact ⟨extract_tree_unified (runFuel archive) (runInit archive o fs answers) ds k es
    (startG_run archive o fs answers ds ho) hb ha hwf hpre hdepth hans hfuel hden,
    (base_factsU hb ha).made⟩

/-! ## reading the plan -/

/-- nothing in the way: every selected entry that is not late is written, no abort -/
theorem plan_free (ex : Fs.Path → Bool) (pol : Overwrite) (ls : List Bytes) (es : List Entry)
    (h : ∀ e ∈ es, asks ex e = false) : plan ex pol ls es = (es, false) := by
  induction es with
  | nil => rfl
  | cons e es ih =>
    rw [plan_cons_free _ _ _ _ _ (h e (by simp)), ih (fun x hx => h x (by simp [hx]))]

theorem keptOf_sublist : ∀ (es : List Entry) (seen : List Fs.Path), (keptOf seen es).Sublist es := by
  intro es
  induction es with
  | nil => intro _; exact List.Sublist.slnil
  | cons e es ih =>
    intro seen
    simp only [keptOf]
    split
    · exact (ih _).cons e
    · exact (ih _).cons_cons e

/-- into an empty place: `uniPlan` is `keptOf` of the selected entries -/
theorem uniPlan_empty (fs : Fs.St) (ds : List Bytes) (o : Opts) (answers : Bytes) (es : List Entry)
    (h : ∀ p, p ≠ [] → oldB fs ds p = none) (hne : ∀ e ∈ es, e.path ≠ []) :
    uniPlan fs ds o answers es = (keptOf [] (es.filter (selected o.filters)), false) := by
  unfold uniPlan
  apply plan_free
  intro e he
  have hes : e ∈ es := (List.mem_filter.1 ((keptOf_sublist _ _).subset he)).1
  cases e with
  | file p d pm t =>
    have : oldB fs ds p = none := h p (hne _ hes)
    simp [asks, exB, this]
  | dir _ _ _ => rfl
  | link _ _ => rfl

end LhasaV.ExtractTree
