import LhasaV.Lemmas.ReaderIndep6
/-!
# C15, part 7: the decoded bytes of a member — `bytes_independent`
-/
set_option linter.unusedSimpArgs false
namespace LhasaV.ReaderIndep
open LhasaV LhasaV.Reader

/-! ## decoding looks at `curr`, `currType`, `dec` and the member source only -/

/-- the fields of the basic reader a member source is made of -/
def MEq (a b : Basic) : Prop :=
  a.stream.data = b.stream.data ∧ a.stream.pos = b.stream.pos ∧ a.remaining = b.remaining ∧ a.eof = b.eof

theorem memberSrc_congr {a b : Basic} (h : MEq a b) : memberSrc a = memberSrc b := by
  unfold memberSrc; rw [h.1, h.2.1, h.2.2.1, h.2.2.2]

/-- two reader states a decoding operation cannot tell apart -/
structure DEq (s t : St) : Prop where
  dec : s.dec = t.dec
  curr : s.curr = t.curr
  currType : s.currType = t.currType
  basic : MEq s.basic t.basic

theorem closeDecoder_dEq {s t : St} (h : DEq s t) : DEq (closeDecoder s) (closeDecoder t) := by
  unfold closeDecoder
  rw [← h.dec]
  split
  · exact h
  · obtain ⟨h1, h2, h3, h4⟩ := h.basic
    exact ⟨rfl, h.curr, h.currType, ⟨h1, by simp only [h2, h3], by simp only [h3], by simp only [h4]⟩⟩

theorem openDecoder_dEq {s t : St} (h : DEq s t) :
    (openDecoder s).1 = (openDecoder t).1 ∧ DEq (openDecoder s).2 (openDecoder t).2 := by
  unfold openDecoder
  rw [← h.currType, ← h.curr, ← memberSrc_congr h.basic]
  split
  · exact ⟨rfl, h⟩
  · split
    · exact ⟨rfl, h⟩
    · split
      · split
        · dsimp only
          split
          · refine ⟨rfl, ?_⟩
            dsimp only
            exact closeDecoder_dEq ⟨rfl, rfl, rfl, h.basic⟩
          · exact ⟨rfl, ⟨rfl, rfl, rfl, h.basic⟩⟩
        · exact ⟨rfl, ⟨rfl, rfl, rfl, h.basic⟩⟩
      · exact ⟨rfl, h⟩


theorem readCore_dEq {s t : St} (h : DEq s t) (k : Nat) :
    (readCore s k).1 = (readCore t k).1 ∧ DEq (readCore s k).2 (readCore t k).2 := by
  unfold readCore
  rw [← h.dec]
  split
  · exact ⟨rfl, h⟩
  · split
    · exact ⟨rfl, ⟨rfl, h.curr, h.currType, h.basic⟩⟩
    · exact ⟨rfl, ⟨rfl, h.curr, h.currType, h.basic⟩⟩
    · exact ⟨rfl, h⟩

theorem read_dEq {s t : St} (h : DEq s t) (k : Nat) :
    (read s k).1 = (read t k).1 ∧ DEq (read s k).2 (read t k).2 := by
  have ho := openDecoder_dEq h
  rw [read_eq, read_eq, ← h.dec, ← ho.1]
  split
  · split
    · exact readCore_dEq h k
    · exact ⟨rfl, h⟩
  · split
    · exact readCore_dEq ho.2 k
    · exact ⟨rfl, ho.2⟩

theorem decodeLoop_dEq (fuel : Nat) {s t : St} (h : DEq s t) (acc : List UInt8) :
    (decodeLoop fuel s acc).1 = (decodeLoop fuel t acc).1 ∧
    DEq (decodeLoop fuel s acc).2 (decodeLoop fuel t acc).2 := by
  induction fuel generalizing s t acc with
  | zero => exact ⟨rfl, h⟩
  | succ n ih =>
    have hr := read_dEq h 64
    unfold decodeLoop
    dsimp only
    rw [← hr.1]
    split
    · exact ⟨rfl, hr.2⟩
    · exact ih hr.2 _

theorem verdict_dEq {s t : St} (h : DEq s t) : verdict s = verdict t := by
  unfold verdict; rw [h.dec, h.curr]

theorem check_unfold (s : St) : check s =
    if s.currType != .normal then ((false, []), s) else
    match s.curr with
    | none => ((false, []), s)
    | some c =>
      if c.h.method == "-lhd-".toUTF8.toList then ((true, []), s) else
      if !(openDecoder s).1 then ((false, []), (openDecoder s).2) else
      ((verdict (decodeLoop (c.h.length + 2) (openDecoder s).2 []).2,
        (decodeLoop (c.h.length + 2) (openDecoder s).2 []).1),
       (decodeLoop (c.h.length + 2) (openDecoder s).2 []).2) := by
  unfold check
  cases hc : s.curr with
  | none => dsimp only
  | some c => dsimp only

/-- **`check` is a function of the current header and the member source** -/
theorem check_dEq {s t : St} (h : DEq s t) : (check s).1 = (check t).1 ∧ DEq (check s).2 (check t).2 := by
  have ho := openDecoder_dEq h
  rw [check_unfold, check_unfold, ← h.currType, ← h.curr, ← ho.1]
  split
  · exact ⟨rfl, h⟩
  · split
    · exact ⟨rfl, h⟩
    · split
      · exact ⟨rfl, h⟩
      · split
        · exact ⟨rfl, ho.2⟩
        · have hd := decodeLoop_dEq (‹HObj›.h.length + 2) ho.2 []
          exact ⟨by rw [verdict_dEq hd.2, hd.1], hd.2⟩


/-- **the outcome of `extract` is a function of the current header, the member source and the
outcome of the file-system call** -/
theorem extract_out_dEq {s t : St} (h : DEq s t) (b : Bool) : (extract s b).1 = (extract t b).1 := by
  have ho := openDecoder_dEq h
  unfold extract
  rw [← h.currType, ← h.curr]
  split
  · split
    · dsimp only
      rw [← ho.1]
      split
      · rfl
      · split
        · rfl
        · have hd := decodeLoop_dEq (‹HObj›.h.length + 2) ho.2 []
          rw [verdict_dEq hd.2, hd.1]
    · split
      · split
        · split <;> rfl
        · rfl
      · split
        · rfl
        · split <;> split <;> rfl
  · rfl
  · rfl
  · rfl

theorem extract_out_other {s t : St} (hc : s.curr = t.curr) (ht : s.currType = t.currType)
    (hn : s.currType ≠ .normal ∨ s.curr = none) (b : Bool) : (extract s b).1 = (extract t b).1 := by
  unfold extract
  rw [← ht, ← hc]
  split
  · rename_i c h1 h2
    rcases hn with h | h
    · exact absurd h1 h
    · rw [h] at h2; cases h2
  · rfl
  · rfl
  · rfl

/-! ## re-presented entries: nothing happens to the stream while one is current -/

def Fake (s : St) : Prop := s.currType = .fakeDir ∨ s.currType = .deferred

/-- no decoder, and a member the basic reader holds has not been touched -/
def Quiet (s : St) : Prop := s.dec = none ∧ (s.basic.curr ≠ none → s.basic.eof = false)

def K (s : St) : Prop := Fake s → Quiet s

theorem fake_openDecoder {s : St} (hf : Fake s) : openDecoder s = (false, s) := by
  unfold openDecoder
  rcases hf with h | h <;> simp [h]

theorem fake_read {s : St} (hf : Fake s) (hd : s.dec = none) (k : Nat) : (read s k).2 = s := by
  rw [read_eq]
  simp only [hd, fake_openDecoder hf, Bool.false_eq_true, if_false]

theorem fake_check {s : St} (hf : Fake s) : (check s).2 = s := by
  rw [check_not_normal (by rcases hf with h | h <;> simp [h])]

theorem fake_extract {s : St} (hf : Fake s) (b : Bool) : (extract s b).2 = s := by
  unfold extract
  rcases hf with h | h <;> rw [h] <;> cases s.curr <;> rfl

theorem fake_step {s : St} (hf : Fake s) (hd : s.dec = none) (op : Op) (hop : op ≠ .next) :
    step s op = s := by
  cases op with
  | next => exact absurd rfl hop
  | read k => exact fake_read hf hd k
  | check => exact fake_check hf
  | extract b => exact fake_extract hf b

theorem step_currType (s : St) (op : Op) (hop : op ≠ .next) : (step s op).currType = s.currType := by
  cases op with
  | next => exact absurd rfl hop
  | read k => exact (read_frame s k).currType
  | check => exact (check_frame s).currType
  | extract b => exact extract_currType s b

theorem basicNext_curr_eof {mk : Nat → Nat} {b b' : Basic} {led led' : Ledger}
    (e : basicNext mk b led = .ok (b', led')) (hc : b'.curr ≠ none) : b'.eof = false := by
  rw [Reader.basicNext_eq] at e
  have hc0 : (basicRelease b led).1.curr = none := by
    unfold basicRelease; split
    · rfl
    · assumption
  generalize (basicRelease b led).1 = x at e hc0
  generalize (basicRelease b led).2 = l at e
  unfold basicParse at e
  split at e
  · cases e; exact absurd hc0 hc
  · rename_i he
    cases hs : Stream.start x.stream with
    | fail => rw [hs] at e; cases e
    | fault w => rw [hs] at e; cases e
    | ok st =>
      rw [hs] at e
      simp only [Res.ok_bind] at e
      split at e
      · cases e; exact absurd hc0 hc
      · split at e
        · cases e
        · cases e; exact absurd hc0 hc
        · cases e; simpa using he

/-- after a `next` that does not report the end, the reader is quiet -/
theorem next_quiet {s : St} (hg : Good s) (hk : K s) {r : Option HObj × St} (e : next s = .ok r)
    (hne : r.2.currType ≠ .eof) : Quiet r.2 := by
  have hcl := next_closed (r := r.1) (s' := r.2) hg.inv e
  refine ⟨hcl.dec, ?_⟩
  rw [next_eq] at e
  split at e
  · rename_i he
    cases e
    exact absurd (by simpa using he) hne
  · rename_i he
    cases ha : nextAdv (closeDecoder s) with
    | error w => rw [ha] at e; cases e
    | ok s1 =>
      rw [ha] at e
      simp only [bind, Except.bind, Except.ok.injEq] at e
      subst e
      show (nextDeferred (nextPop (nextUnref s1))).basic.curr ≠ none →
        (nextDeferred (nextPop (nextUnref s1))).basic.eof = false
      rw [nextDeferred_basic, nextPop_basic, nextUnref_basic]
      by_cases hs : (closeDecoder s).currType = .start ∨ (closeDecoder s).currType = .normal
      · obtain ⟨r, hb, rfl⟩ := nextAdv_stream hs ha
        exact basicNext_curr_eof (b' := r.1) (led' := r.2) hb
      · rw [nextAdv_fake hs] at ha
        cases ha
        have hf : Fake s := by
          have hct := (closeDecoder_frame s).currType
          rw [hct] at hs he
          unfold Fake
          cases h : s.currType <;> simp_all
        have hq := hk hf
        rw [closeDecoder_none hq.1]
        exact hq.2

theorem step_K {s : St} (hg : Good s) (hk : K s) (op : Op) : K (step s op) := by
  by_cases hop : op = .next
  · subst hop
    simp only [step]
    cases e : next s with
    | error w => exact hk
    | ok r =>
      intro hf
      exact next_quiet hg hk e (by rcases hf with h | h <;> simp [h])
  · intro hf
    have hf' : Fake s := by unfold Fake at hf ⊢; rw [step_currType s op hop] at hf; exact hf
    rw [fake_step hf' (hk hf').1 op hop]
    exact hk hf'

/-! ## the stronger simulation -/

/-- while a re-presented entry is current, the two basic readers agree exactly -/
def J (s t : St) : Prop := Fake s → Stream.ObsEq s.basic t.basic

/-- after `next` on both sides (not reporting the end) the two basic readers are
observationally equal: same position, same `remaining` -/
theorem next_obs {s t : St} (gs : Good s) (gt : Good t) (ks : K s) (kt : K t) (h : Sim s t) (j : J s t)
    {r r' : Option HObj × St} (e : next s = .ok r) (e' : next t = .ok r')
    (hne : r.2.currType ≠ .eof) : Stream.ObsEq r.2.basic r'.2.basic := by
  have h0 := closeDecoder_simC gs.inv gt.inv gs.pre gt.pre h
  rw [next_eq] at e e'
  rw [← h0.currType] at e'
  split at e
  · rename_i he
    cases e
    exact absurd (by simpa using he) hne
  · rename_i he
    rw [if_neg he] at e'
    cases ha : nextAdv (closeDecoder s) with
    | error w => rw [ha] at e; cases e
    | ok s1 =>
      cases hb : nextAdv (closeDecoder t) with
      | error w => rw [hb] at e'; cases e'
      | ok t1 =>
        rw [ha] at e
        rw [hb] at e'
        simp only [bind, Except.bind, Except.ok.injEq] at e e'
        subst e; subst e'
        show Stream.ObsEq (nextDeferred (nextPop (nextUnref s1))).basic
          (nextDeferred (nextPop (nextUnref t1))).basic
        rw [nextDeferred_basic, nextPop_basic, nextUnref_basic,
            nextDeferred_basic, nextPop_basic, nextUnref_basic]
        by_cases hs : (closeDecoder s).currType = .start ∨ (closeDecoder s).currType = .normal
        · obtain ⟨x, hx, rfl⟩ := nextAdv_stream hs ha
          obtain ⟨y, hy, rfl⟩ := nextAdv_stream (by rw [← h0.currType]; exact hs) hb
          have key := basicNext_consumed_indep (closeDecoder s).mktime (closeDecoder s).basic
            (closeDecoder t).basic (closeDecoder s).led h0.basic h0.wfS h0.wfT
          rw [← h0.mktime, ← h0.led] at hy
          rw [hx, hy] at key
          exact key.1
        · rw [nextAdv_fake hs] at ha
          rw [nextAdv_fake (by rw [← h0.currType]; exact hs)] at hb
          cases ha; cases hb
          have hf : Fake s := by
            have hct := (closeDecoder_frame s).currType
            rw [hct] at hs he
            unfold Fake
            cases h : s.currType <;> simp_all
          have hft : Fake t := by unfold Fake at hf ⊢; rw [← h.currType]; exact hf
          rw [closeDecoder_none (ks hf).1, closeDecoder_none (kt hft).1]
          exact j hf

structure GoodK (s : St) : Prop where
  good : Good s
  k : K s

structure SimJ (s t : St) : Prop where
  sim : Sim s t
  j : J s t

theorem goodK_fresh (st : Stream.St) (pol : DirPolicy) (mk : Nat → Nat) (hl : st.leadin.length ≤ 24) :
    GoodK (fresh st pol mk) :=
  ⟨good_fresh st pol mk hl, fun hf => by rcases hf with h | h <;> cases h⟩

theorem step_goodK (H : HonestAll) {s : St} (h : GoodK s) (op : Op) : GoodK (step s op) :=
  ⟨step_good H h.good op, step_K h.good h.k op⟩

theorem nonskel_ne_next {op : Op} (hop : isSkel op = false) : op ≠ .next := by
  intro e; subst e; cases hop

theorem step_simJ_left (H : HonestAll) {s t : St} (hs : GoodK s) (h : SimJ s t) (op : Op)
    (hop : isSkel op = false) : SimJ (step s op) t := by
  refine ⟨step_sim_left H hs.good h.sim op hop, fun hf => ?_⟩
  have hne := nonskel_ne_next hop
  have hf' : Fake s := by unfold Fake at hf ⊢; rw [step_currType s op hne] at hf; exact hf
  rw [fake_step hf' (hs.k hf').1 op hne]
  exact h.j hf'

theorem step_simJ_right (H : HonestAll) {s t : St} (ht : GoodK t) (h : SimJ s t) (op : Op)
    (hop : isSkel op = false) : SimJ s (step t op) := by
  refine ⟨(step_sim_left H ht.good h.sim.symm op hop).symm, fun hf => ?_⟩
  have hne := nonskel_ne_next hop
  have hft : Fake t := by unfold Fake at hf ⊢; rw [← h.sim.currType]; exact hf
  rw [fake_step hft (ht.k hft).1 op hne]
  exact h.j hf

theorem step_simJ_both (H : HonestAll) {s t : St} (hs : GoodK s) (ht : GoodK t) (h : SimJ s t) (op : Op)
    (hop : isSkel op = true) :
    SimJ (step s op) (step t op) ∧ (op = .next → nextOut s = nextOut t) := by
  obtain ⟨hsim, hout⟩ := step_sim_both H hs.good ht.good h.sim op hop
  refine ⟨⟨hsim, ?_⟩, hout⟩
  cases op with
  | read k => cases hop
  | check => cases hop
  | extract b =>
    intro hf
    have hf' : Fake s := by
      unfold Fake at hf ⊢; rw [step_currType s _ (by intro e; cases e)] at hf; exact hf
    have hft : Fake t := by unfold Fake at hf' ⊢; rw [← h.sim.currType]; exact hf'
    simp only [step]
    rw [fake_extract hf', fake_extract hft]
    exact h.j hf'
  | next =>
    intro hf
    simp only [step] at hf ⊢
    obtain ⟨r, e⟩ := next_ok s hs.good.pre.wf
    obtain ⟨r', e'⟩ := next_ok t ht.good.pre.wf
    rw [e] at hf ⊢
    rw [e']
    exact next_obs hs.good ht.good hs.k ht.k h.sim h.j e e' (by rcases hf with h | h <;> simp [h])

end LhasaV.ReaderIndep
