import LhasaV.Lemmas.TestBytes5
/-!
# C07 on bytes (part 6): `lha t` on an archive with a DAMAGED stored member — (T2)

`damage es i pat`: the bytes of `archiveWith stored es` with the data bytes of member `i` XORed
with the error pattern `pat` (`damage_bytes`: everything else — every header, every length, every
other member — is byte for byte what it was; `damage_eq_xor`: it is the archive XORed with
`0…0 pat 0…0`).

**`test_detects_damage`**: when `pat` is a burst of at most 16 bits (`CrcBurst.IsBurst16`, the
hypothesis of C07 `crc16_burst`) in the data of a stored file member, `lha t` reports exactly that
member bad (`CRC error`), every other member good, and exits with status 1.
-/
set_option linter.unusedSimpArgs false
namespace LhasaV.TestBytes
open LhasaV LhasaV.Header LhasaV.Extract LhasaV.GlobFs LhasaV.Contain LhasaV.ExtractTree
open LhasaV.ExtractTree.Sample LhasaV.Spec.HeaderEnc LhasaV.Reader LhasaV.ReaderIndep LhasaV.ArchiveOf
open LhasaV.PrintList LhasaV.MacProps LhasaV.Messages LhasaV.CrcBurst

/-! ## stored members -/

theorem decoderFor_stored (data : Bytes) : decoderFor (mname (stored.pack data).1) = some Null.dec := by
  have hn : mname (stored.pack data).1 = "-lh0-" := by
    show mname lh0 = "-lh0-"
    decide +kernel
  rw [hn]; rfl

/-- the decoded content of a stored member, as a run of the null decoder -/
theorem decodedOf_stored_eq (data comp : Bytes) :
    decodedOf stored data comp =
      Wrap.avail (Dec.total Null.dec) data.length (.ok (srcOf stored data comp)) := by
  have hd := decoderFor_stored data
  unfold decodedOf
  split
  · rename_i d' hd'
    rw [hd] at hd'
    cases hd'
    rfl
  · rename_i hd'
    rw [hd] at hd'
    cases hd'

/-- a stored member all of whose bytes are there decodes to those bytes, whatever they are -/
theorem decodedOf_stored (data comp : Bytes) (h : comp.length = data.length) :
    decodedOf stored data comp = comp := by
  rw [decodedOf_stored_eq]
  have hs : srcOf stored data comp = { data := comp.toArray } := by
    simp [srcOf, stored, h]
  rw [hs]
  have := LzRoundTrip.null_round_trip comp data.length 0
  rw [← h, List.take_length] at this
  rw [← h]
  exact this

theorem xorBytes_length (a e : Bytes) (h : e.length = a.length) : (xorBytes a e).length = a.length := by
  simp [xorBytes, h]

/-- **a stored member damaged by a burst of at most 16 bits is never good** (C07 `crc16_burst` on
the bytes the null decoder hands out) -/
theorem goodOf_burst (data pat : Bytes) (hlen : pat.length = data.length) (hb : IsBurst16 pat) :
    goodOf stored data (xorBytes data pat) = false := by
  cases h : goodOf stored data (xorBytes data pat) with
  | false => rfl
  | true =>
    rw [goodOf_iff, decodedOf_stored data _ (xorBytes_length data pat hlen)] at h
    exact absurd h.2 (crc16_burst 0 data pat hlen hb)

/-! ## the damaged archive -/

/-- the members of `archiveWith stored es`, the data bytes of member `i` XORed with `pat` -/
def damagedItems : List ExtractTree.Entry → Nat → Bytes → List Item
  | [], _, _ => []
  | e :: es, 0, pat => ⟨e, xorBytes (dataOf stored e) pat⟩ :: es.map (intact stored)
  | e :: es, i + 1, pat => intact stored e :: damagedItems es i pat

/-- **the damaged archive**: every header as `archiveWith stored es` writes it, every member's
bytes as they were, except that the data bytes of member `i` are XORed with `pat` -/
def damage (es : List ExtractTree.Entry) (i : Nat) (pat : Bytes) : Array UInt8 :=
  (flatI stored (damagedItems es i pat)).toArray

theorem damagedItems_split (pre : List ExtractTree.Entry) (e : ExtractTree.Entry)
    (post : List ExtractTree.Entry) (pat : Bytes) :
    damagedItems (pre ++ e :: post) pre.length pat =
      pre.map (intact stored) ++ ⟨e, xorBytes (dataOf stored e) pat⟩ :: post.map (intact stored) := by
  induction pre with
  | nil => rfl
  | cons x pre ih => simp only [List.cons_append, List.length_cons, damagedItems, ih, List.map_cons]

/-- the bytes, spelled out: the members before, the header of the damaged member UNCHANGED, its
data XORed, the members after -/
theorem damage_bytes (pre : List ExtractTree.Entry) (p : Fs.Path) (data : Bytes) (perms : Option Nat)
    (t : Nat) (post : List ExtractTree.Entry) (pat : Bytes) :
    (damage (pre ++ .file p data perms t :: post) pre.length pat).toList =
      (archiveWith stored pre).toList ++ (encode (fieldsOf stored (.file p data perms t)) ++
        (xorBytes data pat ++ (archiveWith stored post).toList)) ∧
    (archiveWith stored (pre ++ .file p data perms t :: post)).toList =
      (archiveWith stored pre).toList ++ (encode (fieldsOf stored (.file p data perms t)) ++
        (data ++ (archiveWith stored post).toList)) := by
  constructor
  · unfold damage
    rw [damagedItems_split, flatI_append, flatI_cons, flatI_intact, flatI_intact]
    rfl
  · have := flatI_intact stored (pre ++ .file p data perms t :: post)
    rw [List.map_append, List.map_cons, flatI_append, flatI_cons, flatI_intact, flatI_intact] at this
    exact this.symm

theorem xorBytes_append (a b ea eb : Bytes) (h : a.length = ea.length) :
    xorBytes (a ++ b) (ea ++ eb) = xorBytes a ea ++ xorBytes b eb := by
  unfold xorBytes
  exact List.zipWith_append h

theorem xorBytes_zero (a : Bytes) : xorBytes a (List.replicate a.length 0) = a := by
  induction a with
  | nil => rfl
  | cons x a ih =>
    simp only [List.length_cons, List.replicate_succ, xorBytes, List.zipWith_cons_cons] at ih ⊢
    rw [ih]
    simp

/-- … equivalently: the damaged archive is the intact archive XORed with the error pattern
`0 … 0 pat 0 … 0`, the pattern placed on the member's data -/
theorem damage_eq_xor (pre : List ExtractTree.Entry) (p : Fs.Path) (data : Bytes) (perms : Option Nat)
    (t : Nat) (post : List ExtractTree.Entry) (pat : Bytes) (hlen : pat.length = data.length) :
    (damage (pre ++ .file p data perms t :: post) pre.length pat).toList =
      xorBytes (archiveWith stored (pre ++ .file p data perms t :: post)).toList
        (List.replicate ((archiveWith stored pre).toList ++
            encode (fieldsOf stored (.file p data perms t))).length 0 ++
          (pat ++ List.replicate (archiveWith stored post).toList.length 0)) := by
  obtain ⟨h1, h2⟩ := damage_bytes pre p data perms t post pat
  rw [h1, h2, ← List.append_assoc, ← List.append_assoc _ _ (data ++ _),
    xorBytes_append _ _ _ _ (by simp), xorBytes_append _ _ _ _ hlen.symm, xorBytes_zero, xorBytes_zero]

theorem damage_size (pre : List ExtractTree.Entry) (p : Fs.Path) (data : Bytes) (perms : Option Nat)
    (t : Nat) (post : List ExtractTree.Entry) (pat : Bytes) (hlen : pat.length = data.length) :
    (damage (pre ++ .file p data perms t :: post) pre.length pat).size =
      (archiveWith stored (pre ++ .file p data perms t :: post)).size := by
  obtain ⟨h1, h2⟩ := damage_bytes pre p data perms t post pat
  rw [← Array.length_toList, ← Array.length_toList, h1, h2]
  simp [xorBytes_length data pat hlen]

theorem full_intact (pk : Packer) (es : List ExtractTree.Entry) :
    ∀ it ∈ es.map (intact pk), it.comp.length = (dataOf pk it.e).length := by
  intro it hit
  obtain ⟨e, _, rfl⟩ := List.mem_map.1 hit
  rfl

/-! ## (T2) -/

/-- **(T2) `lha t` detects a damaged stored member, end to end on BYTES.**  Take any list of
clean, encodable entries `pre ++ file :: post` (any order), the archive `archiveWith stored …` of
stored members, and XOR the DATA bytes of the file member with an error pattern `pat` of the same
length whose set bits span at most 16 consecutive bit positions in CRC bit order (`IsBurst16`) —
headers, lengths and all other members untouched (`damage_bytes`).  Then `lha t…` (any quiet level,
`i`, `w=DIR`, wildcard arguments; not the dry run, which decodes nothing) on these bytes:

* handles exactly the selected entries in order; the damaged member — if selected, in particular
  when there are no wildcard arguments — is reported BAD (`(header, false)` in the trace, the line
  `name - CRC error` after a complete progress bar), EVERY other selected member good (`Tested`);
* writes nothing to standard error, neither faults nor aborts, touches no file;
* exits with status 1 when the damaged member is selected (0 when the wildcards pass it over). -/
theorem test_detects_damage (pre post : List ExtractTree.Entry) (p : Fs.Path) (data : Bytes)
    (perms : Option Nat) (t : Nat) (pat : Bytes)
    (hok : ∀ e ∈ pre ++ .file p data perms t :: post, EntryOk e)
    (henc : Encodable (pre ++ .file p data perms t :: post))
    (hlen : pat.length = data.length) (hb : IsBurst16 pat)
    (o : Opts) (hdry : o.dryRun = false) (fs : Fs.St) (answers : Bytes) :
    (Messages.run .test (damage (pre ++ .file p data perms t :: post) pre.length pat) o fs answers).trace.reverse =
      (pre.filter (selected o.filters)).map (fun e => (hdrOf stored e, true)) ++
      ((if selected o.filters (.file p data perms t) then [(hdrOf stored (.file p data perms t), false)] else []) ++
       (post.filter (selected o.filters)).map (fun e => (hdrOf stored e, true))) ∧
    (Messages.run .test (damage (pre ++ .file p data perms t :: post) pre.length pat) o fs answers).stdout =
      (pre.filter (selected o.filters)).flatMap (goodLine o stored) ++
      ((if selected o.filters (.file p data perms t) then badLine o stored data.length (.file p data perms t) else []) ++
       (post.filter (selected o.filters)).flatMap (goodLine o stored)) ∧
    (Messages.run .test (damage (pre ++ .file p data perms t :: post) pre.length pat) o fs answers).stderr = [] ∧
    (Messages.run .test (damage (pre ++ .file p data perms t :: post) pre.length pat) o fs answers).aborted = false ∧
    (Messages.run .test (damage (pre ++ .file p data perms t :: post) pre.length pat) o fs answers).fault = false ∧
    (Messages.run .test (damage (pre ++ .file p data perms t :: post) pre.length pat) o fs answers).x.fs = fs ∧
    Messages.exitStatus (Messages.run .test (damage (pre ++ .file p data perms t :: post) pre.length pat) o fs answers) =
      if selected o.filters (.file p data perms t) then 1 else 0 := by
  have hpk := packs_stored henc
  have hall := allOk_of_entries hok henc hpk
  have hallpre : AllOk stored pre := fun e he => hall e (List.mem_append_left _ he)
  have hallpost : AllOk stored post := fun e he => hall e (List.mem_append_right _ (List.mem_cons_of_mem _ he))
  have hpkpre : Packs stored pre := fun e he => (hallpre e he).2.2
  have hpkpost : Packs stored post := fun e he => (hallpost e he).2.2
  obtain ⟨ek, ee, ep⟩ := hall (.file p data perms t) (by simp)
  have hxl := xorBytes_length data pat hlen
  have hits : ItemsOk stored (damagedItems (pre ++ .file p data perms t :: post) pre.length pat) := by
    rw [damagedItems_split]
    refine itemsOk_append (itemsOk_intact hallpre) ⟨⟨ek, ee, ep, ?_⟩, fun _ => ?_, itemsOk_intact hallpost⟩
      (fun _ => full_intact stored pre)
    · exact Nat.le_of_eq hxl
    · exact hxl
  obtain ⟨h1, h2, h3, _, h5, h6, h7⟩ := test_items stored _ hits o fs answers
  have hE := exit_items stored _ hits o fs answers
  obtain ⟨a1, a2, a3⟩ := intact_part o hpkpre
  obtain ⟨b1, b2, b3⟩ := intact_part o hpkpost
  have hbad : goodOf stored data (xorBytes data pat) = false := goodOf_burst data pat hlen hb
  have hdec : decodedOf stored data (xorBytes data pat) = xorBytes data pat := decodedOf_stored data _ hxl
  have hsel : sel o ⟨.file p data perms t, xorBytes data pat⟩ = selected o.filters (.file p data perms t) := rfl
  have hk : testOk o stored ⟨.file p data perms t, xorBytes data pat⟩ = false := by
    simp [testOk, hdry, hbad]
  have hout : testOut o stored ⟨.file p data perms t, xorBytes data pat⟩ =
      badLine o stored data.length (.file p data perms t) := by
    simp only [testOut, hdry, Bool.false_eq_true, if_false, hbad, hdec, hxl, badLine, blocksOf]
  have hd : dataOf stored (.file p data perms t) = data := rfl
  unfold damage
  rw [damagedItems_split, hd] at h1 h2 h3 h5 h6 h7 hE ⊢
  rw [List.filter_append, List.filter_cons, hsel] at h1 h2 hE
  refine ⟨?_, ?_, h3, h5, h6, h7, ?_⟩
  · rw [h1, List.map_append, a1]
    cases selected o.filters (.file p data perms t)
    · simp only [Bool.false_eq_true, if_false, b1, List.nil_append]
    · simp only [if_true, List.map_cons, b1, hk, List.singleton_append]
  · rw [h2, List.flatMap_append, a2]
    cases selected o.filters (.file p data perms t)
    · simp only [Bool.false_eq_true, if_false, b2, List.nil_append]
    · simp only [if_true, List.flatMap_cons, b2, hout]
  · rw [hE, List.all_append, a3]
    cases selected o.filters (.file p data perms t)
    · simp only [Bool.false_eq_true, if_false, b3, Bool.and_self, if_true]
    · simp only [if_true, List.all_cons, hk, Bool.false_and, Bool.and_false, Bool.false_eq_true, if_false]

end LhasaV.TestBytes
