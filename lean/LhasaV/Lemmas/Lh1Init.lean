import LhasaV.Lemmas.Lh1Defs
/-! `lha_lh1_init` succeeds and establishes the invariant. -/
namespace LhasaV.Lh1
open LhasaV.Res

/-! ## the static offset tables -/

def ini_offTab (lookup0 lengths0 : Array Nat) : Res (Array Nat × Array Nat) := do
  let mut code := 0
  let mut offset := 0
  let mut lookup := lookup0
  let mut lengths := lengths0
  let mut i := 0
  for cnt in Gen.lh1OffsetFdist do
    let len := i + Gen.lh1MinOffsetLength
    let iterbit := (2 ^ (8 - len)) % 256
    for _ in [0:cnt] do
      let mask := (iterbit + 255) % 256
      for k in [0:mask + 1] do
        let idx := code ||| k
        if idx < lookup.size then lookup := lookup.setIfInBounds idx (offset % 256)
        else .fault "offset_lookup[code | i]"
      if offset % 256 < lengths.size then lengths := lengths.setIfInBounds (offset % 256) (len % 256)
      else .fault "offset_lengths[offset]"
      code := (code + iterbit) % 256
      offset := offset + 1
    i := i + 1
  pure (lookup, lengths)

theorem ini_bind_assoc {α β γ} (x : Res α) (f : α → Res β) (g : β → Res γ) :
    (x >>= f) >>= g = x >>= fun a => f a >>= g := by
  cases x <;> rfl

theorem ini_offTab_eq (s : St) : initOffsetTable s =
    ini_offTab s.offsetLookup s.offsetLengths >>= fun p => pure { s with offsetLookup := p.1, offsetLengths := p.2 } := by
  simp only [initOffsetTable, ini_offTab, ini_bind_assoc, pure_eq, ok_bind]

def ini_chkO : Res (Array Nat × Array Nat) → Bool
  | .ok (a, b) => a.size == 256 && b.size == 64 && (List.range 256).all (fun i => a.getD i 0 < 64) &&
      (List.range 64).all (fun i => b.getD i 0 ≤ 8)
  | _ => false

theorem ini_chk : ini_chkO (ini_offTab (Array.replicate 256 0) (Array.replicate 64 0)) = true := by
  decide +kernel

/-! ## the leaves -/

/-- fields never touched by the tree construction -/
structure ini_Frame (s t : St) : Prop where
  bits : t.bits = s.bits
  ring : t.ring = s.ring
  pos : t.pos = s.pos
  olk : t.offsetLookup = s.offsetLookup
  oln : t.offsetLengths = s.offsetLengths
  groups : t.groups = s.groups
  nodes : t.nodes.size = s.nodes.size
  leafNodes : t.leafNodes.size = s.leafNodes.size
  groupLeader : t.groupLeader.size = s.groupLeader.size

theorem ini_Frame.refl (s : St) : ini_Frame s s := ⟨rfl, rfl, rfl, rfl, rfl, rfl, rfl, rfl, rfl⟩
theorem ini_Frame.trans {s t u : St} (h1 : ini_Frame s t) (h2 : ini_Frame t u) : ini_Frame s u :=
  ⟨h2.bits.trans h1.bits, h2.ring.trans h1.ring, h2.pos.trans h1.pos, h2.olk.trans h1.olk,
   h2.oln.trans h1.oln, h2.groups.trans h1.groups, h2.nodes.trans h1.nodes,
   h2.leafNodes.trans h1.leafNodes, h2.groupLeader.trans h1.groupLeader⟩

theorem ini_leaves (k : Nat) : ∀ (i n : Nat) (s : St), s.nodes.size = 627 → s.leafNodes.size = 314 →
    s.groupLeader.size = 627 → k ≤ n → i + k ≤ 314 → n < 627 →
    ∃ s', initLeaves 0 k i n s = .ok s' ∧ ini_Frame s s' ∧ s'.numGroups = s.numGroups ∧
      (∀ j, nd s' j = if n - k < j ∧ j ≤ n then { leaf := true, child := i + (n - j), freq := 1, group := 0 } else nd s j) ∧
      (∀ c, ln s' c = if i ≤ c ∧ c < i + k then n + i - c else ln s c) ∧
      (∀ g, gl s' g = if g = 0 ∧ 0 < k then n - k + 1 else gl s g) := by
  induction k with
  | zero =>
    intro i n s _ _ _ _ _ _
    refine ⟨s, rfl, ini_Frame.refl s, rfl, ?_, ?_, ?_⟩
    · intro j; rw [if_neg (by omega)]
    · intro c; rw [if_neg (by omega)]
    · intro g; rw [if_neg (by omega)]
  | succ k ih =>
    intro i n s h1 h2 h3 hk hi hn
    unfold initLeaves
    rw [setNode_ok _ _ _ _ (by omega)]
    simp only [ok_bind]
    rw [setGroupLeader_ok _ _ _ _ (by simp only []; omega)]
    simp only [ok_bind]
    rw [setLeafNode_ok _ _ _ _ (by simp only []; omega)]
    simp only [ok_bind]
    obtain ⟨s', he, hf, hng, hnd, hln, hgl⟩ := ih (i+1) (n-1)
      { s with nodes := s.nodes.setIfInBounds n { leaf := true, child := i, freq := 1, group := 0 },
               groupLeader := s.groupLeader.setIfInBounds 0 n,
               leafNodes := s.leafNodes.setIfInBounds i n }
      (by simp [h1]) (by simp [h2]) (by simp [h3])
      (by omega) (by omega) (by omega)
    refine ⟨s', he, ?_, ?_, ?_, ?_, ?_⟩
    · exact ⟨hf.bits, hf.ring, hf.pos, hf.olk, hf.oln, hf.groups, by rw [hf.nodes]; simp,
        by rw [hf.leafNodes]; simp, by rw [hf.groupLeader]; simp⟩
    · rw [hng]
    · intro j
      rw [hnd j]
      simp only [nd]
      rw [getD_set _ _ _ _ _ (by omega)]
      by_cases hj : j = n
      · subst hj
        rw [if_neg (by omega), if_pos rfl, if_pos (by omega)]
        simp
      · by_cases hj2 : n - 1 - k < j ∧ j ≤ n - 1
        · rw [if_pos hj2, if_pos (by omega)]
          have : i + 1 + (n - 1 - j) = i + (n - j) := by omega
          rw [this]
        · rw [if_neg hj2, if_neg hj, if_neg (by omega)]
    · intro c
      rw [hln c]
      simp only [ln]
      rw [getD_set _ _ _ _ _ (by omega)]
      by_cases hc : c = i
      · subst hc
        rw [if_neg (by omega), if_pos rfl, if_pos (by omega)]
        omega
      · by_cases hc2 : i + 1 ≤ c ∧ c < i + 1 + k
        · rw [if_pos hc2, if_pos (by omega)]
          omega
        · rw [if_neg hc2, if_neg hc, if_neg (by omega)]
    · intro g
      rw [hgl g]
      simp only [gl]
      rw [getD_set _ _ _ _ _ (by omega)]
      by_cases hg : g = 0
      · subst hg
        by_cases hk0 : 0 < k
        · rw [if_pos ⟨rfl, hk0⟩, if_pos (by omega)]; omega
        · rw [if_neg (by omega), if_pos rfl, if_pos (by omega)]; omega
      · rw [if_neg (by omega), if_neg hg, if_neg (by omega)]

/-! ## one round of `initBranches`: symbolic execution -/

/-- effect of one round of `initBranches` (node `k`) on the views -/
structure ini_Step (k : Nat) (t t' : St) : Prop where
  frame : ini_Frame t t'
  lnEq : t'.leafNodes = t.leafNodes
  lfE : ∀ j, lf t' j = if j = k then false else lf t j
  chE : ∀ j, ch t' j = if j = k then 2 * k + 2 else ch t j
  paE : ∀ j, j ≠ k → pa t' j = if j = 2 * k + 1 ∨ j = 2 * k + 2 then k else pa t j
  frE : ∀ j, fr t' j = if j = k then (fr t (2 * k + 2) + fr t (2 * k + 1)) % 65536 else fr t j
  gpE : ∀ j, gp t' j = if j = k then
      (if (fr t (2 * k + 2) + fr t (2 * k + 1)) % 65536 = fr t (k + 1) then gp t (k + 1) else fg t t.numGroups)
      else gp t j
  glE : ∀ x, gl t' x = if x =
      (if (fr t (2 * k + 2) + fr t (2 * k + 1)) % 65536 = fr t (k + 1) then gp t (k + 1) else fg t t.numGroups)
      then k else gl t x
  ngE : t'.numGroups =
      if (fr t (2 * k + 2) + fr t (2 * k + 1)) % 65536 = fr t (k + 1) then t.numGroups else t.numGroups + 1

theorem ini_nd2 (t : St) (hn : t.nodes.size = 627) (k : Nat) (hk : k < 313) (n1 n2 : Node) (j : Nat) :
    nd { t with nodes := (t.nodes.setIfInBounds (2 * k + 2) n1).setIfInBounds (2 * k + 1) n2 } j =
      if j = 2 * k + 1 then n2 else if j = 2 * k + 2 then n1 else nd t j := by
  simp only [nd]
  rw [getD_set _ _ _ _ _ (by simp only [Array.size_setIfInBounds]; omega), getD_set _ _ _ _ _ (by omega)]

theorem ini_nd3 (t : St) (hn : t.nodes.size = 627) (k : Nat) (hk : k < 313) (n1 n2 n3 : Node) (ng : Nat)
    (g : Array Nat) (j : Nat) :
    nd { t with nodes := ((t.nodes.setIfInBounds (2 * k + 2) n1).setIfInBounds (2 * k + 1) n2).setIfInBounds k n3,
                groupLeader := g, numGroups := ng } j =
      if j = k then n3 else if j = 2 * k + 1 then n2 else if j = 2 * k + 2 then n1 else nd t j := by
  simp only [nd]
  rw [getD_set _ _ _ _ _ (by simp only [Array.size_setIfInBounds]; omega),
    getD_set _ _ _ _ _ (by simp only [Array.size_setIfInBounds]; omega), getD_set _ _ _ _ _ (by omega)]

theorem ini_nxt (t : St) (k : Nat) :
    (if k + 1 = 2 * k + 1 then { nd t (2 * k + 1) with parent := k }
      else if k + 1 = 2 * k + 2 then { nd t (2 * k + 2) with parent := k } else nd t (k + 1)) =
      { nd t (k + 1) with parent := if k = 0 then 0 else pa t (k + 1) } := by
  by_cases h : k = 0
  · subst h; simp
  · rw [if_neg (by omega), if_neg (by omega), if_neg h]; rfl

theorem ini_old (t : St) (k : Nat) :
    (if k = 2 * k + 1 then { nd t (2 * k + 1) with parent := k }
      else if k = 2 * k + 2 then { nd t (2 * k + 2) with parent := k } else nd t k) = nd t k := by
  rw [if_neg (by omega), if_neg (by omega)]

theorem ini_mkStep (k : Nat) (t : St) (hn : t.nodes.size = 627) (hgl : t.groupLeader.size = 627)
    (hk : k < 313) (G NG : Nat) (hG : G < 627)
    (hGd : G = if (fr t (2 * k + 2) + fr t (2 * k + 1)) % 65536 = fr t (k + 1) then gp t (k + 1)
      else fg t t.numGroups)
    (hNG : NG = if (fr t (2 * k + 2) + fr t (2 * k + 1)) % 65536 = fr t (k + 1) then t.numGroups
      else t.numGroups + 1) :
    ini_Step k t { t with
      nodes := ((t.nodes.setIfInBounds (2 * k + 2) { nd t (2 * k + 2) with parent := k }).setIfInBounds
          (2 * k + 1) { nd t (2 * k + 1) with parent := k }).setIfInBounds k
            { child := 2 * k + 2, parent := (nd t k).parent,
              freq := ((nd t (2 * k + 2)).freq + (nd t (2 * k + 1)).freq) % 65536, group := G },
      numGroups := NG,
      groupLeader := t.groupLeader.setIfInBounds G k } := by
  refine ⟨⟨rfl, rfl, rfl, rfl, rfl, rfl, ?_, rfl, ?_⟩, rfl, ?_, ?_, ?_, ?_, ?_, ?_, ?_⟩
  · simp only [Array.size_setIfInBounds]
  · simp only [Array.size_setIfInBounds]
  · intro j
    simp only [lf, ini_nd3 t hn k hk]
    split
    · rfl
    · split
      · rename_i h; rw [h]
      · split
        · rename_i h; rw [h]
        · rfl
  · intro j
    simp only [ch, ini_nd3 t hn k hk]
    split
    · rfl
    · split
      · rename_i h; rw [h]
      · split
        · rename_i h; rw [h]
        · rfl
  · intro j hj
    simp only [pa, ini_nd3 t hn k hk]
    rw [if_neg hj]
    split
    · rename_i h; rw [if_pos (Or.inl h)]
    · split
      · rename_i h; rw [if_pos (Or.inr h)]
      · rw [if_neg (by omega)]
  · intro j
    simp only [fr, ini_nd3 t hn k hk]
    split
    · rfl
    · split
      · rename_i h; rw [h]
      · split
        · rename_i h; rw [h]
        · rfl
  · intro j
    simp only [gp, ini_nd3 t hn k hk]
    split
    · exact hGd
    · split
      · rename_i h; rw [h]
      · split
        · rename_i h; rw [h]
        · rfl
  · intro x
    simp only [gl]
    rw [getD_set _ _ _ _ _ (by omega), ← hGd]
  · exact hNG

theorem ini_branch_exec (k : Nat) (t : St) (hn : t.nodes.size = 627) (hgl : t.groupLeader.size = 627)
    (hg : t.groups.size = 627) (hk : k < 313) (hng : t.numGroups < 627) (hgp : gp t (k + 1) < 627)
    (hfg : fg t t.numGroups < 627) :
    ∃ t', initBranches (k + 1) (2 * k + 2) t = initBranches k (2 * k) t' ∧ ini_Step k t t' := by
  have e1 : 2 * k + 2 - 1 = 2 * k + 1 := by omega
  have e2 : 2 * k + 2 - 2 = 2 * k := by omega
  rw [initBranches.eq_2]
  simp only []
  rw [getNode_ok _ _ _ (by omega)]
  simp only [ok_bind]
  rw [if_neg (by omega)]
  simp only [pure_eq, ok_bind]
  rw [getNode_ok _ _ _ (by omega)]
  simp only [ok_bind]
  rw [setNode_ok _ _ _ _ (by omega)]
  simp only [ok_bind]
  rw [setNode_ok _ _ _ _ (by simp only [Array.size_setIfInBounds]; omega)]
  simp only [ok_bind]
  rw [getNode_ok _ _ _ (by simp only [Array.size_setIfInBounds]; omega)]
  simp only [ok_bind]
  rw [getNode_ok _ _ _ (by simp only [Array.size_setIfInBounds]; omega)]
  simp only [ok_bind, e1, e2]
  rw [ini_nd2 t hn k hk, ini_nd2 t hn k hk, ini_nxt, ini_old]
  simp only []
  by_cases hc : ((nd t (2 * k + 2)).freq + (nd t (2 * k + 1)).freq) % 65536 = (nd t (k + 1)).freq
  · rw [if_pos hc]
    rw [setNode_ok _ _ _ _ (by simp only [Array.size_setIfInBounds]; omega)]
    simp only [ok_bind]
    rw [setGroupLeader_ok _ _ _ _ (by simp only []; exact hgl ▸ hgp)]
    simp only [ok_bind]
    refine ⟨_, rfl, ?_⟩
    have hc' : (fr t (2 * k + 2) + fr t (2 * k + 1)) % 65536 = fr t (k + 1) := hc
    exact ini_mkStep k t hn hgl hk (nd t (k + 1)).group t.numGroups hgp
      (by rw [if_pos hc']; rfl) (by rw [if_pos hc'])
  · rw [if_neg hc]
    rw [allocGroup_ok _ (by simp only []; omega)]
    simp only [ok_bind]
    rw [setNode_ok _ _ _ _ (by simp only [Array.size_setIfInBounds]; omega)]
    simp only [ok_bind]
    rw [setGroupLeader_ok _ _ _ _ (by simp only []; exact hgl ▸ hfg)]
    simp only [ok_bind]
    refine ⟨_, rfl, ?_⟩
    have hc' : ¬ (fr t (2 * k + 2) + fr t (2 * k + 1)) % 65536 = fr t (k + 1) := hc
    exact ini_mkStep k t hn hgl hk (fg t t.numGroups) (t.numGroups + 1) hfg
      (by rw [if_neg hc']) (by rw [if_neg hc'])

/-! ## loop invariant, tree part -/

theorem ini_sumTo_mono (f : Nat → Nat) (a b : Nat) (h : a ≤ b) : sumTo f a ≤ sumTo f b := by
  induction b with
  | zero => have : a = 0 := by omega
            subst this; exact Nat.le_refl _
  | succ b ih =>
    by_cases he : a = b + 1
    · subst he; exact Nat.le_refl _
    · have := ih (by omega)
      simp only [sumTo]; omega

theorem ini_sumTo_ones (f : Nat → Nat) (a n : Nat) (h : ∀ j, a ≤ j → j < a + n → f j = 1) :
    sumTo f (a + n) = sumTo f a + n := by
  induction n with
  | zero => rfl
  | succ n ih =>
    have := ih (fun j h1 h2 => h j h1 (by omega))
    have h2 := h (a + n) (by omega) (by omega)
    show sumTo f (a + n) + f (a + n) = _
    omega

/-- tree part of the loop invariant of `initBranches`: nodes `k .. 626` are built -/
structure ini_T (k : Nat) (lf : Nat → Bool) (ch pa fr : Nat → Nat) : Prop where
  leaf : ∀ j, 313 ≤ j → j < 627 → lf j = true ∧ ch j = 626 - j ∧ fr j = 1
  brn : ∀ j, k ≤ j → j < 313 → lf j = false ∧ ch j = 2 * j + 2 ∧ fr j = fr (2 * j + 2) + fr (2 * j + 1)
  par : ∀ c, 2 * k + 1 ≤ c → c < 627 → pa c = (c - 1) / 2
  srt : ∀ j, k ≤ j → j + 1 < 627 → fr (j + 1) ≤ fr j
  pos : ∀ j, k ≤ j → j < 627 → 1 ≤ fr j
  front : sumTo fr (2 * k + 1) = sumTo fr k + 314

theorem ini_T_nowrap {k lf ch pa fr} (h : ini_T (k + 1) lf ch pa fr) :
    fr (2 * k + 2) + fr (2 * k + 1) ≤ 314 := by
  have h1 := h.front
  have e : sumTo fr (2 * (k + 1) + 1) = sumTo fr (2 * k + 1) + fr (2 * k + 1) + fr (2 * k + 2) := rfl
  have := ini_sumTo_mono fr (k + 1) (2 * k + 1) (by omega)
  omega

theorem ini_T_step {k lf ch pa fr lf' ch' pa' fr'} (h : ini_T (k + 1) lf ch pa fr) (hk : k < 313)
    (hlf : ∀ j, lf' j = if j = k then false else lf j)
    (hch : ∀ j, ch' j = if j = k then 2 * k + 2 else ch j)
    (hpa : ∀ j, j ≠ k → pa' j = if j = 2 * k + 1 ∨ j = 2 * k + 2 then k else pa j)
    (hfr : ∀ j, fr' j = if j = k then fr (2 * k + 2) + fr (2 * k + 1) else fr j) :
    ini_T k lf' ch' pa' fr' := by
  have hfr1 : ∀ j, j ≠ k → fr' j = fr j := fun j hj => by rw [hfr, if_neg hj]
  have hfrk : fr' k = fr (2 * k + 2) + fr (2 * k + 1) := by rw [hfr, if_pos rfl]
  refine ⟨?_, ?_, ?_, ?_, ?_, ?_⟩
  · intro j h1 h2
    have := h.leaf j h1 h2
    rw [hlf, hch, hfr, if_neg (by omega), if_neg (by omega), if_neg (by omega)]
    exact this
  · intro j h1 h2
    rw [hlf, hch, hfr1 (2 * j + 2) (by omega), hfr1 (2 * j + 1) (by omega)]
    by_cases hj : j = k
    · subst hj
      rw [if_pos rfl, if_pos rfl, hfrk]
      exact ⟨rfl, rfl, rfl⟩
    · rw [if_neg hj, if_neg hj, hfr1 j hj]
      exact h.brn j (by omega) h2
  · intro c h1 h2
    rw [hpa c (by omega)]
    by_cases hc : c = 2 * k + 1 ∨ c = 2 * k + 2
    · rw [if_pos hc]; omega
    · rw [if_neg hc]; exact h.par c (by omega) h2
  · intro j h1 h2
    by_cases hj : j = k
    · subst hj
      rw [hfrk, hfr1 (j + 1) (by omega)]
      by_cases h3 : j + 1 = 313
      · have a1 := (h.leaf 313 (by omega) (by omega)).2.2
        have a2 := h.pos (2 * j + 2) (by omega) (by omega)
        have a3 := h.pos (2 * j + 1) (by omega) (by omega)
        rw [h3]; omega
      · have a1 := (h.brn (j + 1) (by omega) (by omega)).2.2
        have a2 := h.srt (2 * j + 2) (by omega) (by omega)
        have a3 := h.srt (2 * j + 3) (by omega) (by omega)
        have a4 := h.srt (2 * j + 1) (by omega) (by omega)
        have e1 : 2 * (j + 1) + 2 = 2 * j + 3 + 1 := by omega
        have e2 : 2 * (j + 1) + 1 = 2 * j + 2 + 1 := by omega
        have e3 : 2 * j + 1 + 1 = 2 * j + 2 := by omega
        have e4 : 2 * j + 2 + 1 = 2 * j + 3 := by omega
        rw [e1, e2] at a1
        rw [e3] at a4
        rw [e4] at a1 a2
        omega
    · rw [hfr1 j hj, hfr1 (j + 1) (by omega)]
      exact h.srt j (by omega) h2
  · intro j h1 h2
    by_cases hj : j = k
    · subst hj
      rw [hfrk]
      have a2 := h.pos (2 * j + 2) (by omega) (by omega)
      omega
    · rw [hfr1 j hj]; exact h.pos j (by omega) h2
  · have h1 := h.front
    have e : sumTo fr (2 * (k + 1) + 1) = sumTo fr (2 * k + 1) + fr (2 * k + 1) + fr (2 * k + 2) := rfl
    have e' : sumTo fr (k + 1) = sumTo fr k + fr k := rfl
    have h2 : sumTo fr' k = sumTo fr k := sumTo_congr k (fun i hi => hfr1 i (by omega))
    have h3 := sumTo_upd1 (f := fr') (g := fr) (2 * k + 1) k (by omega) (fun i _ hik => hfr1 i hik)
    rw [hfrk] at h3
    omega

/-! ## loop invariant, group part -/

/-- run boundaries strictly right of `k` -/
def ini_rp (fr : Nat → Nat) (k : Nat) : Nat → Bool := fun i => decide (k < i ∧ fr (i - 1) ≠ fr i)

/-- group part of the loop invariant of `initBranches` -/
structure ini_G (k : Nat) (fr gp gl : Nat → Nat) (ng : Nat) : Prop where
  eqv : ∀ a b, k ≤ a → a < 627 → k ≤ b → b < 627 → (gp a = gp b ↔ fr a = fr b)
  rng : ∀ a, k ≤ a → a < 627 → gp a < ng
  ldr : ∀ a, k ≤ a → a < 627 → k ≤ gl (gp a) ∧ gl (gp a) < 627 ∧ fr (gl (gp a)) = fr a ∧
          ∀ j, k ≤ j → j < 627 → fr j = fr a → gl (gp a) ≤ j
  cnt : ng = 1 + cntP (ini_rp fr k) 627
  bnd : ng + k ≤ 314

theorem ini_cnt_step {fr fr' : Nat → Nat} {k : Nat} (hk : k < 313) (hfr : ∀ j, j ≠ k → fr' j = fr j) :
    cntP (ini_rp fr' k) 627 = cntP (ini_rp fr (k + 1)) 627 + (if fr' k = fr (k + 1) then 0 else 1) := by
  have h1 := cntP_upd1 (p := ini_rp fr' k) (q := ini_rp fr (k + 1)) 627 (k + 1) (by omega) (by
    intro i hi hik
    simp only [ini_rp]
    by_cases h : i ≤ k
    · have a1 : ¬ k < i := by omega
      have a2 : ¬ k + 1 < i := by omega
      simp [a1, a2]
    · rw [hfr i (by omega), hfr (i - 1) (by omega)]
      have a1 : k < i := by omega
      have a2 : k + 1 < i := by omega
      simp [a1, a2])
  have h2 : ini_rp fr (k + 1) (k + 1) = false := by simp [ini_rp]
  have h3 : ini_rp fr' k (k + 1) = decide (fr' k ≠ fr (k + 1)) := by
    simp [ini_rp, hfr (k + 1) (by omega)]
  rw [h2, h3] at h1
  by_cases hc : fr' k = fr (k + 1)
  · rw [if_pos hc]; simp [b2n, hc] at h1; omega
  · rw [if_neg hc]; simp [b2n, hc] at h1; omega

theorem ini_le_of_srt {fr : Nat → Nat} {k : Nat} (hs : ∀ j, k + 1 ≤ j → j + 1 < 627 → fr (j + 1) ≤ fr j) :
    ∀ j, k + 1 ≤ j → j < 627 → fr j ≤ fr (k + 1) := by
  intro j
  induction j with
  | zero => intro h; omega
  | succ j ih =>
    intro h1 h2
    by_cases he : j = k
    · subst he; exact Nat.le_refl _
    · exact Nat.le_trans (hs j (by omega) h2) (ih (by omega) (by omega))

theorem ini_G_same {k fr gp gl ng fr' gp' gl'} (h : ini_G (k + 1) fr gp gl ng) (hk : k < 313)
    (hfr : ∀ j, fr' j = if j = k then fr (k + 1) else fr j)
    (hgp : ∀ j, gp' j = if j = k then gp (k + 1) else gp j)
    (hgl : ∀ x, gl' x = if x = gp (k + 1) then k else gl x) :
    ini_G k fr' gp' gl' ng := by
  have hfr1 : ∀ j, j ≠ k → fr' j = fr j := fun j hj => by rw [hfr, if_neg hj]
  have hfrk : fr' k = fr (k + 1) := by rw [hfr, if_pos rfl]
  have hgp1 : ∀ j, j ≠ k → gp' j = gp j := fun j hj => by rw [hgp, if_neg hj]
  have hgpk : gp' k = gp (k + 1) := by rw [hgp, if_pos rfl]
  -- every node of the new region behaves like a node `a'` of the old one
  have hrep : ∀ a, k ≤ a → a < 627 → ∃ a', k + 1 ≤ a' ∧ a' < 627 ∧ gp' a = gp a' ∧ fr' a = fr a' := by
    intro a h1 h2
    by_cases ha : a = k
    · subst ha; exact ⟨a + 1, by omega, by omega, hgpk, hfrk⟩
    · exact ⟨a, by omega, h2, hgp1 a ha, hfr1 a ha⟩
  refine ⟨?_, ?_, ?_, ?_, ?_⟩
  · intro a b ha1 ha2 hb1 hb2
    obtain ⟨a', a1, a2, a3, a4⟩ := hrep a ha1 ha2
    obtain ⟨b', b1, b2, b3, b4⟩ := hrep b hb1 hb2
    rw [a3, a4, b3, b4]
    exact h.eqv a' b' a1 a2 b1 b2
  · intro a ha1 ha2
    obtain ⟨a', a1, a2, a3, a4⟩ := hrep a ha1 ha2
    rw [a3]; exact h.rng a' a1 a2
  · intro a ha1 ha2
    obtain ⟨a', a1, a2, a3, a4⟩ := hrep a ha1 ha2
    rw [a3, a4, hgl]
    have he := h.eqv a' (k + 1) a1 a2 (by omega) (by omega)
    by_cases hx : gp a' = gp (k + 1)
    · rw [if_pos hx, hfrk]
      refine ⟨Nat.le_refl _, by omega, (he.mp hx).symm, fun j hj _ _ => hj⟩
    · rw [if_neg hx]
      have hl := h.ldr a' a1 a2
      refine ⟨by omega, hl.2.1, by rw [hfr1 (gl (gp a')) (by omega)]; exact hl.2.2.1, ?_⟩
      intro j hj1 hj2 hj3
      by_cases hjk : j = k
      · subst hjk
        rw [hfrk] at hj3
        exact absurd (he.mpr hj3.symm) hx
      · rw [hfr1 j hjk] at hj3
        exact hl.2.2.2 j (by omega) hj2 hj3
  · have := ini_cnt_step (fr := fr) (fr' := fr') hk hfr1
    rw [if_pos hfrk] at this
    have := h.cnt; omega
  · have := h.bnd; omega

theorem ini_G_new {k fr gp gl ng fr' gp' gl'} (F : Nat) (h : ini_G (k + 1) fr gp gl ng) (hk : k < 313)
    (hs : ∀ j, k + 1 ≤ j → j + 1 < 627 → fr (j + 1) ≤ fr j) (hF : fr (k + 1) < F)
    (hfr : ∀ j, fr' j = if j = k then F else fr j)
    (hgp : ∀ j, gp' j = if j = k then ng else gp j)
    (hgl : ∀ x, gl' x = if x = ng then k else gl x) :
    ini_G k fr' gp' gl' (ng + 1) := by
  have hfr1 : ∀ j, j ≠ k → fr' j = fr j := fun j hj => by rw [hfr, if_neg hj]
  have hfrk : fr' k = F := by rw [hfr, if_pos rfl]
  have hgp1 : ∀ j, j ≠ k → gp' j = gp j := fun j hj => by rw [hgp, if_neg hj]
  have hgpk : gp' k = ng := by rw [hgp, if_pos rfl]
  have hlt : ∀ j, k + 1 ≤ j → j < 627 → fr j < F := fun j h1 h2 =>
    Nat.lt_of_le_of_lt (ini_le_of_srt hs j h1 h2) hF
  refine ⟨?_, ?_, ?_, ?_, ?_⟩
  · intro a b ha1 ha2 hb1 hb2
    by_cases ha : a = k
    · by_cases hb : b = k
      · subst ha; subst hb; exact ⟨fun _ => rfl, fun _ => rfl⟩
      · subst ha
        rw [hgpk, hfrk, hgp1 b hb, hfr1 b hb]
        have := h.rng b (by omega) hb2
        have := hlt b (by omega) hb2
        constructor <;> intro <;> omega
    · by_cases hb : b = k
      · subst hb
        rw [hgpk, hfrk, hgp1 a ha, hfr1 a ha]
        have := h.rng a (by omega) ha2
        have := hlt a (by omega) ha2
        constructor <;> intro <;> omega
      · rw [hgp1 a ha, hfr1 a ha, hgp1 b hb, hfr1 b hb]
        exact h.eqv a b (by omega) ha2 (by omega) hb2
  · intro a ha1 ha2
    by_cases ha : a = k
    · subst ha; rw [hgpk]; omega
    · rw [hgp1 a ha]; have := h.rng a (by omega) ha2; omega
  · intro a ha1 ha2
    by_cases ha : a = k
    · subst ha
      rw [hgpk, hgl, if_pos rfl, hfrk]
      exact ⟨Nat.le_refl _, by omega, rfl, fun j hj _ _ => hj⟩
    · have hr := h.rng a (by omega) ha2
      have hl := h.ldr a (by omega) ha2
      rw [hgp1 a ha, hfr1 a ha, hgl, if_neg (by omega)]
      refine ⟨by omega, hl.2.1, by rw [hfr1 (gl (gp a)) (by omega)]; exact hl.2.2.1, ?_⟩
      intro j hj1 hj2 hj3
      by_cases hjk : j = k
      · subst hjk
        rw [hfrk] at hj3
        have := hlt a (by omega) ha2
        omega
      · rw [hfr1 j hjk] at hj3
        exact hl.2.2.2 j (by omega) hj2 hj3
  · have := ini_cnt_step (fr := fr) (fr' := fr') hk hfr1
    rw [if_neg (by rw [hfrk]; omega)] at this
    rw [this]; have := h.cnt; omega
  · have := h.bnd; omega

/-! ## the loop -/

/-- facts about the state before the loops -/
structure ini_S0 (s0 : St) : Prop where
  nodes : s0.nodes.size = 627
  leafNodes : s0.leafNodes.size = 314
  groups : s0.groups.size = 627
  groupLeader : s0.groupLeader.size = 627
  fgE : ∀ j, j < 627 → fg s0 j = j

/-- loop invariant of `initBranches` on states -/
structure ini_BI (s0 : St) (k : Nat) (t : St) : Prop where
  frame : ini_Frame s0 t
  lnE : ∀ c, c < 314 → ln t c = 626 - c
  tree : ini_T k (lf t) (ch t) (pa t) (fr t)
  grp : ini_G k (fr t) (gp t) (gl t) t.numGroups

theorem ini_BI_step {s0 : St} (h0 : ini_S0 s0) {k : Nat} {t t' : St} (hk : k < 313)
    (h : ini_BI s0 (k + 1) t) (hs : ini_Step k t t') : ini_BI s0 k t' := by
  have hnw := ini_T_nowrap h.tree
  have hmod : (fr t (2 * k + 2) + fr t (2 * k + 1)) % 65536 = fr t (2 * k + 2) + fr t (2 * k + 1) :=
    Nat.mod_eq_of_lt (by omega)
  have hfg : fg t t.numGroups = t.numGroups := by
    have := h.grp.bnd
    simp only [fg]; rw [h.frame.groups]; exact h0.fgE _ (by omega)
  have htree : ini_T k (lf t') (ch t') (pa t') (fr t') :=
    ini_T_step h.tree hk hs.lfE hs.chE hs.paE (by intro j; rw [hs.frE, hmod])
  refine ⟨?_, ?_, htree, ?_⟩
  · exact ⟨hs.frame.bits.trans h.frame.bits, hs.frame.ring.trans h.frame.ring,
      hs.frame.pos.trans h.frame.pos, hs.frame.olk.trans h.frame.olk, hs.frame.oln.trans h.frame.oln,
      hs.frame.groups.trans h.frame.groups, hs.frame.nodes.trans h.frame.nodes,
      hs.frame.leafNodes.trans h.frame.leafNodes, hs.frame.groupLeader.trans h.frame.groupLeader⟩
  · intro c hc
    simp only [ln]; rw [hs.lnEq]; exact h.lnE c hc
  · by_cases hc : (fr t (2 * k + 2) + fr t (2 * k + 1)) % 65536 = fr t (k + 1)
    · have hng : t'.numGroups = t.numGroups := by rw [hs.ngE, if_pos hc]
      rw [hng]
      refine ini_G_same h.grp hk ?_ ?_ ?_
      · intro j; rw [hs.frE, hc]
      · intro j; rw [hs.gpE, if_pos hc]
      · intro x; rw [hs.glE, if_pos hc]
    · have hng : t'.numGroups = t.numGroups + 1 := by rw [hs.ngE, if_neg hc]
      rw [hng]
      have hle := htree.srt k (Nat.le_refl _) (by omega)
      rw [hs.frE k, if_pos rfl, hs.frE (k + 1), if_neg (by omega)] at hle
      refine ini_G_new ((fr t (2 * k + 2) + fr t (2 * k + 1)) % 65536) h.grp hk h.tree.srt
        (by omega) hs.frE ?_ ?_
      · intro j; rw [hs.gpE, if_neg hc, hfg]
      · intro x; rw [hs.glE, if_neg hc, hfg]

theorem ini_loop {s0 : St} (h0 : ini_S0 s0) (k : Nat) : ∀ t, k ≤ 313 → ini_BI s0 k t →
    ∃ t', initBranches k (2 * k) t = .ok t' ∧ ini_BI s0 0 t' := by
  induction k with
  | zero => intro t _ h; exact ⟨t, rfl, h⟩
  | succ k ih =>
    intro t hk h
    have hb := h.grp.bnd
    have hr := h.grp.rng (k + 1) (Nat.le_refl _) (by omega)
    obtain ⟨t', he, hs⟩ := ini_branch_exec k t (by rw [h.frame.nodes]; exact h0.nodes)
      (by rw [h.frame.groupLeader]; exact h0.groupLeader) (by rw [h.frame.groups]; exact h0.groups)
      (by omega) (by omega) (by omega)
      (by simp only [fg]; rw [h.frame.groups]; rw [show s0.groups.getD t.numGroups 0 = fg s0 t.numGroups from rfl,
            h0.fgE _ (by omega)]; omega)
    have e : 2 * (k + 1) = 2 * k + 2 := by omega
    rw [e, he]
    exact ih t' (by omega) (ini_BI_step h0 (by omega) h hs)

/-! ## reading off the invariant -/

theorem ini_cntP_false (p : Nat → Bool) (n : Nat) (h : ∀ i, i < n → p i = false) : cntP p n = 0 := by
  induction n with
  | zero => rfl
  | succ n ih =>
    simp only [cntP]
    rw [ih (fun i hi => h i (by omega)), h n (by omega)]
    rfl

theorem ini_cntP_true (p : Nat → Bool) (a n : Nat) (h : ∀ j, a ≤ j → j < a + n → p j = true) :
    cntP p (a + n) = cntP p a + n := by
  induction n with
  | zero => rfl
  | succ n ih =>
    have := ih (fun j h1 h2 => h j h1 (by omega))
    have h2 := h (a + n) (by omega) (by omega)
    show cntP p (a + n) + (if p (a + n) = true then 1 else 0) = _
    rw [h2, if_pos rfl]
    omega

theorem ini_sumTo_zero (f : Nat → Nat) (n : Nat) (h : ∀ i, i < n → f i = 0) : sumTo f n = 0 := by
  induction n with
  | zero => rfl
  | succ n ih =>
    simp only [sumTo]
    rw [ih (fun i hi => h i (by omega)), h n (by omega)]

theorem ini_tree_final {lf : Nat → Bool} {ch pa fr ln : Nat → Nat} (h : ini_T 0 lf ch pa fr)
    (hln : ∀ c, c < 314 → ln c = 626 - c) : Tree lf ch pa fr ln 0 := by
  have hfr0 : fr 0 = 314 := by
    have h1 := h.front
    have e : sumTo fr (2 * 0 + 1) = 0 + fr 0 := rfl
    have e' : sumTo fr 0 = 0 := rfl
    omega
  refine ⟨?_, ?_, ?_, ?_, ?_, ?_, ?_, ?_, ?_⟩
  · intro i hi hb
    have h3 : i < 313 := by
      apply Classical.byContradiction; intro hn
      have := (h.leaf i (by omega) hi).1
      rw [hb] at this; cases this
    have hc := (h.brn i (by omega) h3).2.1
    have p1 := h.par (2 * i + 2) (by omega) (by omega)
    have p2 := h.par (2 * i + 1) (by omega) (by omega)
    have e : 2 * i + 2 - 1 = 2 * i + 1 := by omega
    rw [hc, e, p1, p2]
    omega
  · intro i hi hl
    have h3 : 313 ≤ i := by
      apply Classical.byContradiction; intro hn
      have := (h.brn i (by omega) (by omega)).1
      rw [hl] at this; cases this
    have hc := (h.leaf i h3 hi).2.1
    rw [hc, hln _ (by omega)]
    omega
  · intro c hc
    rw [hln c hc]
    have hl := h.leaf (626 - c) (by omega) (by omega)
    rw [hl.1, hl.2.1]
    exact ⟨by omega, rfl, by omega⟩
  · intro i h1 hi
    have p := h.par i (by omega) hi
    have hb := h.brn ((i - 1) / 2) (by omega) (by omega)
    rw [p, hb.1, hb.2.1]
    exact ⟨by omega, rfl, by omega⟩
  · intro i hi; exact h.pos i (by omega) hi
  · intro i hi hb
    have h3 : i < 313 := by
      apply Classical.byContradiction; intro hn
      have := (h.leaf i (by omega) hi).1
      rw [hb] at this; cases this
    have hc := h.brn i (by omega) h3
    have e : 2 * i + 2 - 1 = 2 * i + 1 := by omega
    rw [hc.2.1, e]
    simp only [ne_eq, not_true_eq_false, and_false, if_false]
    omega
  · have e1 : sumTo (fun i => if lf i = true then fr i else 0) 313 = 0 := by
      apply ini_sumTo_zero
      intro i hi
      show (if lf i = true then fr i else 0) = 0
      rw [(h.brn i (by omega) hi).1]; rfl
    have e2 := ini_sumTo_ones (fun i => if lf i = true then fr i else 0) 313 314 (by
      intro i h1 h2
      show (if lf i = true then fr i else 0) = 1
      rw [(h.leaf i h1 h2).1, (h.leaf i h1 h2).2.2]; rfl)
    rw [e1] at e2
    show sumTo (fun i => if lf i = true then fr i else 0) (313 + 314) + _ = _
    rw [e2, hfr0]
    simp
  · omega
  · have e1 : cntP lf 313 = 0 := ini_cntP_false lf 313 (fun i hi => (h.brn i (by omega) hi).1)
    have e2 := ini_cntP_true lf 313 314 (fun i h1 h2 => (h.leaf i h1 h2).1)
    rw [e1] at e2
    show cntP lf (313 + 314) = 314
    rw [e2]

theorem ini_grp_final {fr gp gl fg : Nat → Nat} {ng : Nat} (h : ini_G 0 fr gp gl ng)
    (hs : ∀ j, 0 ≤ j → j + 1 < 627 → fr (j + 1) ≤ fr j) (hfg : ∀ j, j < 627 → fg j = j) :
    Grp fr gp gl fg ng := by
  have hb := h.bnd
  refine ⟨?_, ?_, ?_, ?_, ?_, ?_, ?_⟩
  · intro i hi; exact hs i (Nat.zero_le _) hi
  · intro i j hi hj; exact h.eqv i j (Nat.zero_le _) hi (Nat.zero_le _) hj
  · intro i hi; have := h.rng i (Nat.zero_le _) hi; omega
  · intro i hi
    have hl := h.ldr i (Nat.zero_le _) hi
    exact ⟨hl.2.2.1, fun j hj he => hl.2.2.2 j (Nat.zero_le _) hj he⟩
  · intro j h1 h2
    rw [hfg j h2]
    refine ⟨h2, fun i hi => ?_⟩
    have := h.rng i (Nat.zero_le _) hi
    omega
  · intro j k _ hj _ hk he
    rw [hfg j hj, hfg k hk] at he; exact he
  · have h1 := cntP_upd1 (p := fun i => decide (i = 0 ∨ fr (i - 1) ≠ fr i)) (q := ini_rp fr 0) 627 0
      (by omega) (by
        intro i _ hi0
        have a1 : 0 < i := by omega
        simp [ini_rp, hi0, a1])
    have h2 : ini_rp fr 0 0 = false := by simp [ini_rp]
    rw [h2] at h1
    have h3 : b2n false = 0 := rfl
    have h4 : b2n (decide (0 = 0 ∨ fr (0 - 1) ≠ fr 0)) = 1 := by simp [b2n]
    rw [h3] at h1
    rw [h4] at h1
    have := h.cnt
    simp only [leaders]
    omega

/-! ## assembling `init`

All reasoning is done for a *variable* start state `s` (`ini_core`), so that no defeq check can
start evaluating the big closed arrays; the facts about the concrete start state are tiny lemmas. -/

/-- facts about the state before `alloc_group` -/
structure ini_Pre (s : St) : Prop where
  nodes : s.nodes.size = 627
  leafNodes : s.leafNodes.size = 314
  groups : s.groups.size = 627
  groupLeader : s.groupLeader.size = 627
  fgE : ∀ j, j < 627 → fg s j = j
  ng : s.numGroups = 0
  ring : s.ring.size = 4096
  pos : s.pos < 4096
  bits : s.bits.WF
  olk : s.offsetLookup = Array.replicate 256 0
  oln : s.offsetLengths = Array.replicate 64 0

/-- `init` from the state before `alloc_group`, with the loop bounds as parameters -/
def ini_run (s : St) (a b c d : Nat) : Res St := do
  let (lg, s) ← allocGroup s
  let s ← initLeaves lg a 0 b s
  let s ← initBranches c d s
  initOffsetTable s

/-- the invariant holds after the first loop -/
theorem ini_start {s0 s1 : St} (hf : ini_Frame s0 s1) (hng : s1.numGroups = 1)
    (hnd : ∀ j, 313 ≤ j → j < 627 → nd s1 j = { leaf := true, child := 626 - j, freq := 1, group := 0 })
    (hln : ∀ c, c < 314 → ln s1 c = 626 - c) (hgl : gl s1 0 = 313) : ini_BI s0 313 s1 := by
  have hlf : ∀ j, 313 ≤ j → j < 627 → lf s1 j = true := fun j h1 h2 => by simp only [lf, hnd j h1 h2]
  have hch : ∀ j, 313 ≤ j → j < 627 → ch s1 j = 626 - j := fun j h1 h2 => by simp only [ch, hnd j h1 h2]
  have hfr : ∀ j, 313 ≤ j → j < 627 → fr s1 j = 1 := fun j h1 h2 => by simp only [fr, hnd j h1 h2]
  have hgp : ∀ j, 313 ≤ j → j < 627 → gp s1 j = 0 := fun j h1 h2 => by simp only [gp, hnd j h1 h2]
  refine ⟨hf, hln, ⟨?_, ?_, ?_, ?_, ?_, ?_⟩, ⟨?_, ?_, ?_, ?_, ?_⟩⟩
  · intro j h1 h2; exact ⟨hlf j h1 h2, hch j h1 h2, hfr j h1 h2⟩
  · intro j h1 h2; omega
  · intro c h1 h2; omega
  · intro j h1 h2; rw [hfr j h1 (by omega), hfr (j + 1) (by omega) h2]; exact Nat.le_refl _
  · intro j h1 h2; rw [hfr j h1 h2]; exact Nat.le_refl _
  · exact ini_sumTo_ones (fr s1) 313 314 (fun j h1 h2 => hfr j h1 (by omega))
  · intro a b ha1 ha2 hb1 hb2
    rw [hgp a ha1 ha2, hgp b hb1 hb2, hfr a ha1 ha2, hfr b hb1 hb2]
    exact ⟨fun _ => rfl, fun _ => rfl⟩
  · intro a ha1 ha2; rw [hgp a ha1 ha2, hng]; omega
  · intro a ha1 ha2
    rw [hgp a ha1 ha2, hgl, hfr 313 (by omega) (by omega), hfr a ha1 ha2]
    exact ⟨Nat.le_refl _, by omega, rfl, fun j hj _ _ => hj⟩
  · rw [hng, ini_cntP_false]
    intro i hi
    simp only [ini_rp]
    by_cases h3 : 313 < i
    · rw [hfr (i - 1) (by omega) (by omega), hfr i (by omega) hi]; simp
    · simp [h3]
  · rw [hng]; omega

theorem ini_core (s : St) (hp : ini_Pre s) (a b c d : Nat) (ha : a = 314) (hb : b = 626) (hc : c = 313)
    (hd : d = 626) : ∃ s', ini_run s a b c d = .ok s' ∧ Inv s' := by
  unfold ini_run
  rw [allocGroup_ok s (by rw [hp.ng, hp.groups]; omega), ok_bind]
  simp only []
  rw [hp.ng, hp.fgE 0 (by omega)]
  -- the state after `alloc_group`
  generalize hs0 : ({ s with numGroups := 0 + 1 } : St) = s0
  have h0 : ini_S0 s0 := by
    subst hs0
    exact ⟨hp.nodes, hp.leafNodes, hp.groups, hp.groupLeader, hp.fgE⟩
  have hs0ng : s0.numGroups = 1 := by subst hs0; rfl
  have hs0f : ini_Frame s s0 := by subst hs0; exact ⟨rfl, rfl, rfl, rfl, rfl, rfl, rfl, rfl, rfl⟩
  obtain ⟨s1, e1, hf, hng, hnd, hln, hgl⟩ := ini_leaves a 0 b s0 h0.nodes h0.leafNodes h0.groupLeader
    (by omega) (by omega) (by omega)
  rw [e1, ok_bind]
  rw [ha, hb] at hnd hln hgl
  have hBI : ini_BI s0 313 s1 := by
    refine ini_start hf (hng.trans hs0ng) ?_ ?_ ?_
    · intro j h1 h2; rw [hnd j, if_pos (by omega)]; simp
    · intro c' hc'; rw [hln c', if_pos (by omega)]
    · rw [hgl 0, if_pos (by omega)]
  obtain ⟨t, e2, hI⟩ := ini_loop h0 c s1 (by omega) (by rw [hc]; exact hBI)
  have hd' : d = 2 * c := by omega
  rw [hd', e2, ok_bind, ini_offTab_eq, hI.frame.olk, hI.frame.oln, hs0f.olk, hs0f.oln, hp.olk, hp.oln]
  have hchk := ini_chk
  generalize ini_offTab (Array.replicate 256 0) (Array.replicate 64 0) = r at hchk
  match r, hchk with
  | .ok (a', b'), hchk =>
    simp only [ini_chkO, Bool.and_eq_true, beq_iff_eq, List.all_eq_true, List.mem_range,
      decide_eq_true_eq] at hchk
    obtain ⟨⟨⟨ha1, hb1⟩, ha2⟩, hb2⟩ := hchk
    refine ⟨_, rfl, ?_, ?_, ?_⟩
    · exact
        { nodes := by show t.nodes.size = 627; rw [hI.frame.nodes]; exact h0.nodes
          leafNodes := by show t.leafNodes.size = 314; rw [hI.frame.leafNodes]; exact h0.leafNodes
          groups := by show t.groups.size = 627; rw [hI.frame.groups]; exact h0.groups
          groupLeader := by show t.groupLeader.size = 627; rw [hI.frame.groupLeader]; exact h0.groupLeader
          ring := by show t.ring.size = 4096; rw [hI.frame.ring, hs0f.ring]; exact hp.ring
          pos := by show t.pos < 4096; rw [hI.frame.pos, hs0f.pos]; exact hp.pos
          bits := by show t.bits.WF; rw [hI.frame.bits, hs0f.bits]; exact hp.bits
          olk := ha1, oln := hb1, olk_lt := ha2, oln_le := hb2 }
    · exact ini_tree_final hI.tree hI.lnE
    · refine ini_grp_final hI.grp hI.tree.srt ?_
      intro j hj
      have e : fg t j = fg s0 j := by simp only [fg]; rw [hI.frame.groups]
      show fg t j = j
      rw [e]; exact h0.fgE j hj

/-! ### the concrete start state -/

/-- the state before `alloc_group` -/
def ini_pre (src : Src) : St :=
  { bits := { src := src }, ring := Array.replicate Gen.lh1RingCap 0x20, pos := 0,
    nodes := Array.replicate Gen.lh1NodesCap {}, leafNodes := Array.replicate Gen.lh1LeafNodesCap 0,
    groups := Array.range Gen.lh1GroupsCap, numGroups := 0,
    groupLeader := Array.replicate Gen.lh1GroupLeaderCap 0,
    offsetLookup := Array.replicate Gen.lh1OffsetLookupCap 0,
    offsetLengths := Array.replicate Gen.lh1OffsetLengthsCap 0 }

theorem ini_init_run (src : Src) :
    init src = ini_run (ini_pre src) numCodes (numNodes - 1) (numNodes - numCodes) (numNodes - 1) := rfl

theorem ini_fg_def (s : St) (j : Nat) : fg s j = s.groups.getD j 0 := rfl

theorem ini_range_getD (j : Nat) (hj : j < 627) : (Array.range Gen.lh1GroupsCap).getD j 0 = j := by
  simp [Gen.lh1GroupsCap, Array.getD_eq_getD_getElem?, hj]

theorem ini_pre_bits (src : Src) : (ini_pre src).bits = { src := src } := by simp only [ini_pre]
theorem ini_pre_ring (src : Src) : (ini_pre src).ring = Array.replicate Gen.lh1RingCap 0x20 := by
  simp only [ini_pre]
theorem ini_pre_pos (src : Src) : (ini_pre src).pos = 0 := by simp only [ini_pre]
theorem ini_pre_nodes (src : Src) : (ini_pre src).nodes = Array.replicate Gen.lh1NodesCap {} := by
  simp only [ini_pre]
theorem ini_pre_leafNodes (src : Src) : (ini_pre src).leafNodes = Array.replicate Gen.lh1LeafNodesCap 0 := by
  simp only [ini_pre]
theorem ini_pre_groups (src : Src) : (ini_pre src).groups = Array.range Gen.lh1GroupsCap := by
  simp only [ini_pre]
theorem ini_pre_ng (src : Src) : (ini_pre src).numGroups = 0 := by simp only [ini_pre]
theorem ini_pre_groupLeader (src : Src) :
    (ini_pre src).groupLeader = Array.replicate Gen.lh1GroupLeaderCap 0 := by simp only [ini_pre]
theorem ini_pre_olk (src : Src) : (ini_pre src).offsetLookup = Array.replicate Gen.lh1OffsetLookupCap 0 := by
  simp only [ini_pre]
theorem ini_pre_oln (src : Src) : (ini_pre src).offsetLengths = Array.replicate Gen.lh1OffsetLengthsCap 0 := by
  simp only [ini_pre]

theorem ini_Pre_pre (src : Src) : ini_Pre (ini_pre src) where
  nodes := by rw [ini_pre_nodes]; exact Array.size_replicate
  leafNodes := by rw [ini_pre_leafNodes]; exact Array.size_replicate
  groups := by rw [ini_pre_groups]; exact Array.size_range
  groupLeader := by rw [ini_pre_groupLeader]; exact Array.size_replicate
  fgE := by intro j hj; rw [ini_fg_def, ini_pre_groups]; exact ini_range_getD j hj
  ng := ini_pre_ng src
  ring := by rw [ini_pre_ring]; exact Array.size_replicate
  pos := by rw [ini_pre_pos]; omega
  bits := by rw [ini_pre_bits]; exact Bits.wf_init src
  olk := ini_pre_olk src
  oln := ini_pre_oln src

theorem init_spec (src : Src) : ∃ s, init src = .ok s ∧ Inv s := by
  rw [ini_init_run]
  exact ini_core (ini_pre src) (ini_Pre_pre src) _ _ _ _ rfl rfl rfl rfl

end LhasaV.Lh1
