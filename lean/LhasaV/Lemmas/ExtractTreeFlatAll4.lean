import LhasaV.Lemmas.ExtractTreeFlatAll3
import LhasaV.Lemmas.ExtractTreeAll8
/-!
# C06, option `i` together with the other deviations (part 4): on bytes; the special cases follow

`archiveWith pk es` denotes `es` along the run with the filter test for every list of clean,
encodable entries (`archiveWith_denotesF`, ExtractTreeOpt12: no order condition).  So the theorem
holds in closed form, no hypothesis about the reader left:

* **`extract_archiveWith_flat_unified`** / **`extract_archiveOf_flat_unified`**;
* `extract_archiveOf_flat_of_unified`: the statement of `extract_archiveOf_flat` (Props/C06
  `extract_flattened`: `i` alone into an empty directory) re-derived;
* `extract_archiveOf_flat_reloc_of_unified`: `i` ∘ `w=DIR` into an empty place (`BaseOk`), the
  statement of `extract_archiveWith_flat_reloc` for stored members, with `MadeFrom` added;
* `extract_archiveOf_flat_dirs_only`: only directory entries selected — nothing at all happens.
-/
set_option linter.unusedSimpArgs false
namespace LhasaV.ArchiveOf
open LhasaV LhasaV.Header LhasaV.Extract LhasaV.GlobFs LhasaV.Contain LhasaV.ExtractTree
open LhasaV.ExtractTree.Sample

/-- **`i` with wildcards, `w=DIR`, old files and the overwrite policy, end to end on bytes**, any
packer with a decoder round trip -/
theorem extract_archiveWith_flat_unified (pk : Packer) (es : List Entry) (o : Opts) (fs : Fs.St)
    (answers : Bytes) (ds : List Bytes) (k : Nat)
    (hok : ∀ e ∈ es, EntryOk e) (henc : Encodable es) (hpk : Packs pk es)
    (ho : OptsFlat o ds) (hb : BaseU fs ds k) (ha : AccessW fs)
    (hnames : ((es.filter (fun e => selected o.filters e && !e.isDir)).map Entry.namePart).Nodup)
    (hpre : ∀ e ∈ es, selected o.filters e = true → e.isDir = false → PreAtF fs ds e)
    (hans : AskedF fs ds (selected o.filters) es → o.overwrite = .prompt → OwAnswers answers) :
    FlatOutcome (run (archiveWith pk es) o fs answers) fs ds (flatPlan fs ds o answers es) ∧
    MadeFrom fs (mkBase fs ds) (ds.take k) (ds.drop k) :=
  run_tree_flat_unified (archiveWith pk es) o fs answers ds k es ho hb ha hok hnames hpre hans
    (by have := fuel_archiveWith pk es; omega)
    (archiveWith_denotesF pk es hok henc hpk o fs answers)

/-- … for stored members (`archiveOf`, level-2 headers written by the C05 encoder) -/
theorem extract_archiveOf_flat_unified (es : List Entry) (o : Opts) (fs : Fs.St)
    (answers : Bytes) (ds : List Bytes) (k : Nat)
    (hok : ∀ e ∈ es, EntryOk e) (henc : Encodable es)
    (ho : OptsFlat o ds) (hb : BaseU fs ds k) (ha : AccessW fs)
    (hnames : ((es.filter (fun e => selected o.filters e && !e.isDir)).map Entry.namePart).Nodup)
    (hpre : ∀ e ∈ es, selected o.filters e = true → e.isDir = false → PreAtF fs ds e)
    (hans : AskedF fs ds (selected o.filters) es → o.overwrite = .prompt → OwAnswers answers) :
    FlatOutcome (run (archiveOf es) o fs answers) fs ds (flatPlan fs ds o answers es) ∧
    MadeFrom fs (mkBase fs ds) (ds.take k) (ds.drop k) := by
  rw [archiveOf_eq]
  exact extract_archiveWith_flat_unified stored es o fs answers ds k hok henc (packs_stored henc) ho hb ha
    hnames hpre hans

/-! ## an empty place: no policy, the tree is `flatTreeOf` -/

theorem preAtF_of_empty {fs : Fs.St} {ds : List Bytes} (h : ∀ p, p ≠ [] → oldB fs ds p = none)
    (e : Entry) : PreAtF fs ds e := Or.inl (h _ (by simp))

theorem not_askedF_of_empty {fs : Fs.St} {ds : List Bytes} (h : ∀ p, p ≠ [] → oldB fs ds p = none)
    {sel : Entry → Bool} {es : List Entry} : ¬ AskedF fs ds sel es := by
  rintro ⟨e, _, _, _, hf⟩
  rw [h _ (by simp)] at hf
  cases hf

/-- nothing there before: `owTree` of the flattened selection is `flatTreeOf` -/
theorem owTree_flat_empty (fs : Fs.St) (ds : List Bytes) (sel : Entry → Bool) (es : List Entry)
    (h : ∀ p, p ≠ [] → oldB fs ds p = none) (p : Fs.Path) (hp : p ≠ []) :
    owTree fs.now fs.umask (oldB fs ds) (flatSel sel es) p = flatTreeOf fs.now fs.umask (es.filter sel) p := by
  unfold owTree flatTreeOf
  rw [flatSel_eq]
  cases treeOf fs.now fs.umask (flatList (es.filter sel)) p with
  | some x => rfl
  | none => exact h p hp

/-- **`i` ∘ wildcards ∘ `w=DIR`** into an empty place, for stored members: the flattened tree of
the selected entries below `cwd/DIR`; `DIR` made as `MadeFrom` says -/
theorem extract_archiveOf_flat_reloc_of_unified (es : List Entry) (o : Opts) (fs : Fs.St)
    (answers : Bytes) (ds : List Bytes) (k : Nat)
    (hok : ∀ e ∈ es, EntryOk e) (henc : Encodable es)
    (hnames : ((es.filter (fun e => selected o.filters e && !e.isDir)).map Entry.namePart).Nodup)
    (ho : OptsFlat o ds) (hb : BaseOk fs ds k) (ha : AccessW fs) :
    (run (archiveOf es) o fs answers).result = true ∧
    (∀ p, p ≠ [] → Fs.lookup (run (archiveOf es) o fs answers).fs (fs.cwd ++ ds ++ p) =
      flatTreeOf fs.now fs.umask (es.filter (selected o.filters)) p) ∧
    (flatList (es.filter (selected o.filters)) ≠ [] → ∀ x, ¬ (fs.cwd ++ ds) <+: x →
      Fs.lookup (run (archiveOf es) o fs answers).fs x = Fs.lookup (mkBase fs ds) x) ∧
    (flatList (es.filter (selected o.filters)) = [] → (run (archiveOf es) o fs answers).fs = fs) ∧
    MadeFrom fs (mkBase fs ds) (ds.take k) (ds.drop k) := by
  have hempty : ∀ p, p ≠ [] → oldB fs ds p = none := hb.empty
  obtain ⟨h, hm⟩ := extract_archiveOf_flat_unified es o fs answers ds k hok henc ho (baseU_of_baseOk hb) ha
    hnames (fun e _ _ _ => preAtF_of_empty hempty e) (fun h => absurd h (not_askedF_of_empty hempty))
  rw [flatPlan_empty fs ds o answers es hempty hok] at h
  obtain ⟨_, h2, h3, _, h5, h6⟩ := h
  rw [flatSel_eq] at h5 h6
  refine ⟨by simpa using h2, ?_, h5, h6, hm⟩
  intro p hp
  rw [h3 p hp]
  exact owTree_flat_empty fs ds _ es hempty p hp

/-- **`extract_flattened` follows**: the statement of `extract_archiveOf_flat` (ExtractTreeOpt13;
Props/C06 `extract_flattened`), from the unified flat theorem -/
theorem extract_archiveOf_flat_of_unified (es : List Entry) (o : Opts) (fs : Fs.St) (answers : Bytes)
    (hok : ∀ e ∈ es, EntryOk e) (henc : Encodable es)
    (hnames : ((es.filter (fun e => selected o.filters e && !e.isDir)).map Entry.namePart).Nodup)
    (hx : o.extractPath = none) (hu : o.usePath = false) (hfs : EmptyDir fs) (ha : Access fs) :
    (run (archiveOf es) o fs answers).result = true ∧
    (∀ p, p ≠ [] → Fs.lookup (run (archiveOf es) o fs answers).fs (fs.cwd ++ p) =
      flatTreeOf fs.now fs.umask (es.filter (selected o.filters)) p) ∧
    (∀ x, ¬ fs.cwd <+: x → Fs.lookup (run (archiveOf es) o fs answers).fs x = Fs.lookup fs x) := by
  have hempty : ∀ p, p ≠ [] → oldB fs [] p = none := fun p hp => by
    show Fs.lookup fs (fs.cwd ++ [] ++ p) = none
    rw [List.append_nil]; exact hfs.empty p hp
  obtain ⟨h, _⟩ := extract_archiveOf_flat_unified es o fs answers [] 0 hok henc (optsFlat_none o hx hu)
    (baseU_of_empty hfs) (accessW_of_access ha) hnames (fun e _ _ _ => preAtF_of_empty hempty e)
    (fun h => absurd h (not_askedF_of_empty hempty))
  rw [flatPlan_empty fs [] o answers es hempty hok] at h
  obtain ⟨_, h2, h3, _, h5, h6⟩ := h
  simp only [List.append_nil, mkBase_nil] at h3 h5
  refine ⟨by simpa using h2, ?_, ?_⟩
  · intro p hp
    rw [h3 p hp]
    exact owTree_flat_empty fs [] _ es hempty p hp
  · intro x hx'
    by_cases hne : flatSel (selected o.filters) es = []
    · rw [h6 hne]
    · exact h5 hne x hx'

/-- **nothing selected but directory entries** (or nothing at all): the run succeeds and the file
system is untouched — no directory is created, `DIR` is not made, no metadata applied -/
theorem extract_archiveOf_flat_dirs_only (es : List Entry) (o : Opts) (fs : Fs.St)
    (answers : Bytes) (ds : List Bytes) (k : Nat)
    (hok : ∀ e ∈ es, EntryOk e) (henc : Encodable es)
    (ho : OptsFlat o ds) (hb : BaseU fs ds k) (ha : AccessW fs)
    (hnone : ∀ e ∈ es, selected o.filters e = true → e.isDir = true) :
    (run (archiveOf es) o fs answers).fs = fs ∧ (run (archiveOf es) o fs answers).result = true ∧
    (run (archiveOf es) o fs answers).aborted = false := by
  have hfil : es.filter (fun e => selected o.filters e && !e.isDir) = [] := by
    rw [List.filter_eq_nil_iff]
    intro e he
    cases hs : selected o.filters e with
    | false => simp
    | true => simp [hnone e he hs]
  obtain ⟨h, _⟩ := extract_archiveOf_flat_unified es o fs answers ds k hok henc ho hb ha
    (by rw [hfil]; exact List.nodup_nil)
    (fun e he hs hd => by rw [hnone e he hs] at hd; cases hd)
    (fun hask => by
      obtain ⟨e, he, hs, hd, _⟩ := hask
      rw [hnone e he hs] at hd; cases hd)
  rw [flatPlan_nil fs ds o answers es hnone] at h
  obtain ⟨h1, h2, _, _, _, h6⟩ := h
  exact ⟨h6 rfl, by simpa using h2, h1⟩

end LhasaV.ArchiveOf
