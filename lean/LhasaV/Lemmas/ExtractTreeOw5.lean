import LhasaV.Lemmas.ExtractTreeOw4
/-!
# C06, overwriting (part 5): the steps for a stream entry

* `step_write_o`: the entry is written — at a free place (any kind of entry), or over an existing
  regular file after `confirm_file_overwrite` said yes;
* `step_keep_o`: `confirm_file_overwrite` said no: nothing changes in the file system, the entry
  counts as handled.
-/
namespace LhasaV.ExtractTree
open LhasaV LhasaV.Header LhasaV.Extract LhasaV.GlobFs LhasaV.Contain

theorem step_write_o {fs0 : Fs.St} {done stk rest : List Entry} {seen : List Fs.Path}
    {pol : Overwrite} {ls : List Bytes} {e : Entry} (s' : Extract.St) (c : Reader.HObj)
    (hi : CoreInvO fs0 done stk seen (e :: rest) pol ls s') (ha : Access fs0)
    (hpol : s'.rd.policy = .endOfDir) (hdef : s'.rd.deferred = [])
    (hstack : StackRel s'.rd.dirStack stk)
    (hty : s'.rd.currType = .normal) (hcur : s'.rd.curr = some c) (hh : HdrOf e c.h)
    (hin : ∀ d tl, stk = d :: tl → d.path <+: e.dirPart)
    (hplace : PreAt fs0 e)
    (hdec : ∀ p data perms mtime, e = .file p data perms mtime →
      (Reader.openDecoder s'.rd).1 = true ∧ (Reader.extract s'.rd true).1 = (true, data)) :
    LoopInvO fs0 (done ++ [e]) (if e.isDir then e :: stk else stk) (seen ++ [e.path]) rest pol ls
      (wrote s' (fullOf e)) := by
  have nf := new_facts hi ha hin
  have hk := nf.hk
  have hcwd : s'.fs.cwd = fs0.cwd := hi.fs.params.cwd
  have hnewd : e.path ∉ done.map Entry.path := by
    intro h
    obtain ⟨e', he', hp⟩ := List.mem_map.1 h
    exact nf.hnew (hp ▸ hi.sub e' he')
  have hnew' : ∀ e' ∈ done, e'.path ≠ e.path := fun e' he' h => hnewd (List.mem_map.2 ⟨e', he', h⟩)
  -- `lha_reader_extract` writes the entry, whether the place was free or held an old file
  obtain ⟨r1, rk, rstack, rc⟩ : (readerExtract s'.rd s'.fs (fullOf e)).1 = true ∧
      RdKept s'.rd (readerExtract s'.rd s'.fs (fullOf e)).2.1 ∧
      (readerExtract s'.rd s'.fs (fullOf e)).2.1.dirStack =
        (if e.isDir then c :: s'.rd.dirStack else s'.rd.dirStack) ∧
      Created s'.fs (readerExtract s'.rd s'.fs (fullOf e)).2.2 (s'.fs.cwd ++ e.path)
        (e.opened s'.fs.now s'.fs.umask) := by
    rcases hplace with hnone | ⟨p, data, perms, mtime, d0, m0, t0, rfl, _, hfile⟩
    · exact entry_created s'.rd s'.fs (fullOf e) c e hty hcur hpol hh hk nf.target
        (nf.same.trans hnone) nf.hmod hdec
    · exact file_over_created s'.rd s'.fs _ c p p data perms mtime hty hcur hpol hh hk nf.target
        d0 m0 t0 (nf.same.trans hfile) nf.hmod (hdec p data perms mtime rfl)
  rw [hcwd, hi.fs.params.now, hi.fs.params.umask] at rc
  have hns : e.path ∉ stk.map Entry.path := fun h => hnewd (stk_paths_seen hi.ok _ h)
  unfold wrote
  refine ⟨⟨hi.aborted, ?_, hi.opts, hi.policy, hi.ans, ?_, doneOk_push hi.ok hk hnewd nf.hpar, ?_, ?_⟩, ?_⟩
  rotate_left 4
  · show RdInv (readerExtract s'.rd s'.fs _).2.1 _ rest
    refine ⟨rk.policy.trans hpol, rk.deferred.trans hdef, ?_,
      Or.inr (Or.inl (rk.currType.trans hty)), ?_⟩
    · rw [rstack]
      cases e.isDir with
      | true => exact ⟨hh, hstack⟩
      | false => exact hstack
    · intro h
      rw [rk.currType, hty] at h
      cases h
  · show (s'.result && _) = true
    rw [hi.result, r1]; rfl
  · show FsInvO fs0 (done ++ [e]) _ (readerExtract s'.rd s'.fs _).2.2
    rw [map_push]
    apply hi.fs.create hk.ne (fun e' he' => (hi.ok.ok e' he').ne) hnew'
    · cases hdir : e.isDir with
      | true => simp only [if_true, List.mem_cons, true_or]; exact rc
      | false =>
        simp only [Bool.false_eq_true, if_false, hns]
        rw [← opened_eq_final e hdir]; exact rc
    · intro p hp
      cases e.isDir with
      | true => simp [hp]
      | false => simp
    · exact nf.parent
  · intro x hx
    rcases List.mem_append.1 hx with h | h
    · exact List.mem_append_left _ (hi.sub x h)
    · have : x = e := by simpa using h
      subst this; simp
  · show WF _ (seen ++ [e.path]) rest
    rw [map_push]
    exact nf.wf'

theorem step_keep_o {fs0 : Fs.St} {done stk rest : List Entry} {seen : List Fs.Path}
    {pol : Overwrite} {ls : List Bytes} {e : Entry} (s' : Extract.St)
    (hi : CoreInvO fs0 done stk seen (e :: rest) pol ls s') (ha : Access fs0)
    (hpol : s'.rd.policy = .endOfDir) (hdef : s'.rd.deferred = [])
    (hstack : StackRel s'.rd.dirStack stk) (hty : s'.rd.currType = .normal)
    (hin : ∀ d tl, stk = d :: tl → d.path <+: e.dirPart) (hfile : e.isDir = false) :
    LoopInvO fs0 done stk (seen ++ [e.path]) rest pol ls { s' with out := "skipped" :: s'.out } := by
  have nf := new_facts hi ha hin
  have hwf := nf.wf'
  simp only [hfile, Bool.false_eq_true, if_false] at hwf
  refine ⟨⟨hi.aborted, hi.result, hi.opts, hi.policy, hi.ans, hi.fs, hi.ok,
    fun x hx => List.mem_append_left _ (hi.sub x hx), hwf⟩, ?_⟩
  exact ⟨hpol, hdef, hstack, Or.inr (Or.inl hty), fun h => by rw [hty] at h; cases h⟩

end LhasaV.ExtractTree
