import LhasaV.Lemmas.Lh1Mirror3
/-!
# C02, layer 4: the climb of `increment_for_code` stays in lock-step with `updateLoop`,
and `increment_for_code` without rebuild mirrors `update`.
-/
namespace LhasaV.Lh1Mirror
open LhasaV LhasaV.Lh1 LhasaV.Spec.Lzhuf LhasaV.Res

theorem zwf_setFreq (z : TreeState) (hw : ZWf z) (c v : Nat) :
    ZWf ⟨z.freq.setIfInBounds c v, z.prnt, z.son⟩ :=
  ⟨by simp only [Array.size_setIfInBounds]; exact hw.freq, hw.prnt, hw.son⟩

theorem zf_setFreq (z : TreeState) (hw : ZWf z) (c v : Nat) (hc : c < 628) (m : Nat) :
    zf ⟨z.freq.setIfInBounds c v, z.prnt, z.son⟩ m = if m = c then v else zf z m := by
  simp only [zf]
  exact getD_set _ _ _ _ _ (by rw [hw.freq]; exact hc)

/-- the last round of `updateLoop`, at the root -/
theorem updateLoop_root (f : Nat) (z : TreeState) (hs : zf z 627 = 65535) (hr : zp z 626 = 0)
    (hle : zf z 626 + 1 ≤ 65535) :
    updateLoop (f + 1) 626 z.freq z.prnt z.son =
      ⟨z.freq.setIfInBounds 626 (zf z 626 + 1), z.prnt, z.son⟩ := by
  rw [updateLoop_succ, stepZ_noswap 626 z (by rw [hs]; exact hle)]
  simp only [hr, ne_eq, not_true_eq_false, if_false]

theorem climb_mirror (k : Nat) : ∀ (x : Nat) (s : St) (z : TreeState) (fuel : Nat),
    CInv s x → x < 627 → x < k → x < fuel → MirS s z 1 →
    ∃ s', climb k x s = .ok s' ∧ CInv s' 0 ∧
      MirS s' (updateLoop fuel (626 - x) z.freq z.prnt z.son) 0 := by
  induction k with
  | zero => intro x s z fuel _ _ hk; omega
  | succ k ih =>
    intro x s z fuel h hx hk hf hms
    obtain ⟨hw, hm⟩ := hms
    obtain ⟨f, rfl⟩ : ∃ f, fuel = f + 1 := ⟨fuel - 1, by omega⟩
    unfold climb
    by_cases hx0 : x = 0
    · subst hx0
      simp only [if_true]
      refine ⟨s, rfl, h, ?_⟩
      have h0 : zf z 626 + 1 = fr s 0 := hm.freq 0 (by omega)
      have htop := h.tree.top
      rw [updateLoop_root f z hm.sent hm.root (by omega)]
      refine ⟨zwf_setFreq z hw _ _, ?_, ?_, hm.sonL, hm.sonB, hm.par, hm.root, hm.lnP⟩
      · intro j hj
        rw [zf_setFreq z hw _ _ (by omega)]
        by_cases e : j = 0
        · subst e; simp only [if_true]; omega
        · have := hm.freq j hj
          rw [if_neg e] at this ⊢
          rw [if_neg (by omega)]; omega
      · rw [zf_setFreq z hw _ _ (by omega), if_neg (by omega)]; exact hm.sent
    · simp only [hx0, if_false]
      obtain ⟨L, s1, e1, h1, hL1, hLx, hld, hfr1, hfrL, hmin, hcase⟩ := mgl_full s x h hx0 hx
      have hL : L < 627 := by omega
      obtain ⟨s2, e2, h2, elf, ech, epa, eln, efr⟩ := inf_full s1 L h1 hL1 hL hld
      rw [e1]
      simp only [ok_bind]
      rw [e2]
      simp only [ok_bind]
      rw [getNode_ok _ _ _ (by rw [h2.base.nodes]; omega)]
      simp only [ok_bind]
      have hp : (nd s2 L).parent = pa s1 L := by
        show pa s2 L = pa s1 L
        rw [epa]
      rw [hp]
      have hlt := (h1.tree.pr L hL1 hL).1
      rw [updateLoop_succ]
      rcases hcase with ⟨eL, es⟩ | ⟨hLltx, e_lf, e_ch, e_pa, e_ln⟩
      · subst eL
        subst es
        have hc := noswap_cond h.tree h.grp.sorted hL1 hx hmin hm
        rw [stepZ_noswap (626 - L) z hc]
        simp only []
        have hnext : zp z (626 - L) = 626 - pa s1 L := by
          have := hm.par L hL1 hx; omega
        rw [hnext, if_pos (by omega)]
        refine ih (pa s1 L) s2 _ f h2 (by omega) (by omega) (by omega) ⟨zwf_setFreq z hw _ _, ?_⟩
        rw [elf, ech, epa, eln, efr]
        refine mirF_noswap hL1 hx hm (fun j => by simp only [upd_apply]) ?_
        intro m
        exact zf_setFreq z hw _ _ (by omega) m
      · have hcs := swap_cond h.tree h.grp.sorted hx hL1 hLltx hfrL hmin hm
        obtain ⟨c1, c2, c3⟩ := hcs
        rw [stepZ_swap (626 - x) (626 - L) z (by omega) (by omega) c1 c2 c3]
        simp only []
        -- bounds on the two sons
        have bx : zs z (626 - x) < 941 := by
          cases hl : lf s x
          · have := hm.sonB x hx hl; omega
          · have := hm.sonL x hx hl
            have := (h.tree.le x hx hl).1
            omega
        have bL : zs z (626 - L) < 941 := by
          cases hl : lf s L
          · have := hm.sonB L hL hl; omega
          · have := hm.sonL L hL hl
            have := (h.tree.le L hL hl).1
            omega
        obtain ⟨ewf, ezf, ezs, ezp⟩ := exchange_views (626 - x) (626 - L) (zf z (626 - x) + 1)
          (z.freq.setIfInBounds (626 - x) (zf z (626 - x) + 1)) z.prnt z.son
          (by simp only [Array.size_setIfInBounds]; exact hw.freq) hw.prnt hw.son (by omega) (by omega)
          (by omega) bx bL
        generalize exchange (626 - x) (626 - L) (zf z (626 - x) + 1)
          (z.freq.setIfInBounds (626 - x) (zf z (626 - x) + 1)) z.prnt z.son = E at ewf ezf ezs ezp ⊢
        have hM : MirF (lf s2) (ch s2) (pa s2) (fr s2) (ln s2) (zf E) (zp E) (zs E) 1 := by
          rw [elf, ech, epa, eln, efr, hfr1]
          refine mirF_swap h.tree hx hL1 hLltx hfrL hm e_lf e_ch e_pa e_ln ?_ ?_ ezs ezp
          · intro j; simp only [upd_apply, hfrL]
          · intro m
            rw [ezf]
            have g1 : (z.freq.setIfInBounds (626 - x) (zf z (626 - x) + 1)).getD (626 - L) 0 = zf z (626 - L) :=
              getD_set_ne _ _ _ _ _ (by omega)
            rw [g1]
            by_cases e1 : m = 626 - L
            · rw [if_pos e1, if_pos e1]
            · rw [if_neg e1, if_neg e1]
              by_cases e2 : m = 626 - x
              · rw [if_pos e2, if_pos e2]
              · rw [if_neg e2, if_neg e2]
                exact getD_set_ne _ _ _ _ _ e2
        have hnext : E.prnt.getD (626 - L) 0 = 626 - pa s1 L := by
          have := hM.par L hL1 hL
          rw [epa] at this
          show zp E (626 - L) = _
          omega
        rw [hnext, if_pos (by omega)]
        exact ih (pa s1 L) s2 E f h2 (by omega) (by omega) (by omega) ⟨ewf, hM⟩

/-! ## `increment_for_code` after the optional rebuild -/

/-- the part of `increment_for_code` after the optional `reconstruct_tree` -/
def ifcRest (s : St) (code : Nat) : Res St := do
  let root ← getNode s "nodes[0]" 0
  let s ← setNode s "++nodes[0].freq" 0 { root with freq := (root.freq + 1) % 65536 }
  let ni ← getA s.leafNodes "leaf_nodes[code]" code
  climb (numNodes + 1) ni s

theorem incrementForCode_eq (s : St) (code : Nat) :
    incrementForCode s code =
      (getNode s "nodes[0]" 0 >>= fun root =>
        (if root.freq ≥ Gen.lh1TreeReorderLimit then reconstructTree s else pure s) >>= fun s1 =>
          ifcRest s1 code) := by
  unfold incrementForCode
  cases getNode s "nodes[0]" 0 with
  | ok root =>
    simp only [ok_bind]
    split <;> rfl
  | fail => rfl
  | fault w => rfl

theorem update_eq (z : TreeState) (c : Nat) :
    update z c =
      updateLoop T ((if z.freq.getD R 0 = MAX_FREQ then reconst z else z).prnt.getD (c + T) 0)
        (if z.freq.getD R 0 = MAX_FREQ then reconst z else z).freq
        (if z.freq.getD R 0 = MAX_FREQ then reconst z else z).prnt
        (if z.freq.getD R 0 = MAX_FREQ then reconst z else z).son := rfl

/-- views of the state after `++nodes[0].freq` -/
theorem rootIncr_views (s : St) (hsz : 0 < s.nodes.size) (v : Nat) :
    lf { s with nodes := s.nodes.setIfInBounds 0 { nd s 0 with freq := v } } = lf s ∧
    ch { s with nodes := s.nodes.setIfInBounds 0 { nd s 0 with freq := v } } = ch s ∧
    pa { s with nodes := s.nodes.setIfInBounds 0 { nd s 0 with freq := v } } = pa s ∧
    fr { s with nodes := s.nodes.setIfInBounds 0 { nd s 0 with freq := v } } = upd (fr s) 0 v ∧
    ln { s with nodes := s.nodes.setIfInBounds 0 { nd s 0 with freq := v } } = ln s := by
  have hnd : ∀ j, nd { s with nodes := s.nodes.setIfInBounds 0 { nd s 0 with freq := v } } j =
      if j = 0 then { nd s 0 with freq := v } else nd s j := fun j => nd_set s 0 j _ hsz
  refine ⟨?_, ?_, ?_, ?_, rfl⟩
  · funext j; simp only [lf, hnd]; split
    · next e => rw [e]
    · rfl
  · funext j; simp only [ch, hnd]; split
    · next e => rw [e]
    · rfl
  · funext j; simp only [pa, hnd]; split
    · next e => rw [e]
    · rfl
  · funext j
    show (nd _ j).freq = _
    rw [hnd j]
    by_cases hj : j = 0
    · simp only [hj, if_true, upd_apply]
    · simp only [hj, if_false, upd_apply]; rfl

theorem ifcRest_mirror (s : St) (z : TreeState) (code : Nat) (h : CInv s 0) (hlt : fr s 0 < 32768)
    (hc : code < 314) (hm : MirS s z 0) :
    ∃ s', ifcRest s code = .ok s' ∧ CInv s' 0 ∧
      MirS s' (updateLoop T (z.prnt.getD (code + T) 0) z.freq z.prnt z.son) 0 := by
  obtain ⟨hw, hmf⟩ := hm
  unfold ifcRest
  have hsz : 0 < s.nodes.size := by rw [h.base.nodes]; omega
  rw [getNode_ok _ _ _ hsz]
  simp only [ok_bind]
  rw [setNode_ok _ _ _ _ hsz]
  simp only [ok_bind]
  have h2 := rootIncr_inv s h hlt code hc
  have hfr : (nd s 0).freq = fr s 0 := rfl
  rw [hfr]
  rw [getA_ok _ _ _ (by show code < s.leafNodes.size; rw [h.base.leafNodes]; exact hc)]
  simp only [ok_bind]
  have hcd := h.tree.cd code hc
  have hmod : (fr s 0 + 1) % 65536 = fr s 0 + 1 := Nat.mod_eq_of_lt (by omega)
  obtain ⟨v1, v2, v3, v4, v5⟩ := rootIncr_views s hsz ((fr s 0 + 1) % 65536)
  have hln : s.leafNodes.getD code 0 = ln s code := rfl
  rw [hln]
  have hnext : z.prnt.getD (code + T) 0 = 626 - ln s code := by
    have := hmf.lnP code hc
    show zp z (code + 627) = _
    omega
  rw [hnext]
  refine climb_mirror (numNodes + 1) (ln s code) _ z T h2 hcd.1
    (by show ln s code < 628; omega) (by show ln s code < 627; omega) ⟨hw, ?_⟩
  rw [v1, v2, v3, v4, v5, hmod]
  refine ⟨?_, hmf.sent, hmf.sonL, hmf.sonB, hmf.par, hmf.root, hmf.lnP⟩
  intro j hj
  have := hmf.freq j hj
  simp only [upd_apply]
  by_cases e : j = 0
  · subst e; simp only [if_true] at this ⊢; omega
  · rw [if_neg e] at this ⊢; rw [if_neg e]; exact this

/-- **No-rebuild step.**  Below the reorder limit, `increment_for_code` succeeds, keeps the
decoder invariant and moves the decoder's tree to the mirror image of LZHUF's `update`. -/
theorem mirror_update_no_rebuild (d : St) (z : TreeState) (c : Nat) (hm : Mirror d z) (hi : Lh1.Inv d)
    (hlt : fr d 0 < 0x8000) (hc : c < 314) :
    ∃ d', incrementForCode d c = .ok d' ∧ Lh1.Inv d' ∧ Mirror d' (update z c) := by
  rw [incrementForCode_eq, update_eq]
  have hsz : 0 < d.nodes.size := by rw [hi.base.nodes]; omega
  rw [getNode_ok _ _ _ hsz]
  simp only [ok_bind]
  have hfr : (nd d 0).freq = fr d 0 := rfl
  have hge : ¬ ((nd d 0).freq ≥ Gen.lh1TreeReorderLimit) := by
    rw [hfr]; simp only [Gen.lh1TreeReorderLimit]; omega
  rw [if_neg hge]
  simp only [pure_eq, ok_bind]
  have h0 : zf z 626 = fr d 0 := hm.2.freq 0 (by omega)
  have hne : ¬ (z.freq.getD R 0 = MAX_FREQ) := by
    show ¬ (zf z 626 = 32768)
    omega
  rw [if_neg hne]
  exact ifcRest_mirror d z c hi hlt hc hm

end LhasaV.Lh1Mirror
