import LhasaV.Lemmas.TreeCanon1
/-!
Canonical-code correctness of `build_tree`, part 2: the level invariant `LInv`
of the do/while loop and its preservation by one round (`level_step`), then by
the whole loop (`buildLoop_canon`).
-/
namespace LhasaV.Tree
open LhasaV.Spec.Canon

/-- state of the builder after the codes of length `≤ L` have been placed:
the queue `[next, alloc)` holds exactly the unassigned `L`-bit prefixes, in order -/
structure LInv (lb : Nat) (lens : List Nat) (L : Nat) (b : Build) : Prop where
  hS    : S lens L ≤ 2 ^ L
  hq    : b.alloc = b.next + (2 ^ L - S lens L)
  hcap  : b.alloc + 1 = 2 * (asg lens L + (2 ^ L - S lens L))
  hsz   : b.alloc ≤ b.tree.size
  htl   : b.treeLen ≤ b.tree.size
  hoob  : b.oob = false
  hqueue : ∀ j, j < 2 ^ L - S lens L →
      slotAt lb b.tree b.next (bitsOf L (S lens L + j)) 0 = some (b.next + j)
  hleaf : ∀ i, i < lens.length → 1 ≤ lens.getD i 0 → lens.getD i 0 ≤ L →
      ∃ s, s < b.next ∧ slotAt lb b.tree b.next (bitsOf (lens.getD i 0) (code lens i)) 0 = some s
        ∧ b.tree[s]? = some (i + lb)

theorem getD_eq_getElem (lens : List Nat) (i : Nat) (hi : i < lens.length) :
    lens.getD i 0 = lens[i] := by
  rw [List.getD_eq_getElem?_getD, List.getElem?_eq_getElem hi]; rfl

theorem rank_lt_count (lens : List Nat) (i : Nat) (hi : i < lens.length) :
    rank lens i < lens.count (lens.getD i 0) := by
  unfold rank
  generalize hv : lens.getD i 0 = v
  have hvi : lens[i] = v := by rw [← getD_eq_getElem lens i hi]; exact hv
  have h : lens.take i ++ v :: lens.drop (i + 1) = lens := by
    rw [← hvi, ← List.drop_eq_getElem_cons hi, List.take_append_drop]
  have e : (lens.take i ++ v :: lens.drop (i + 1)).count v
      = (lens.take i).count v + ((lens.drop (i + 1)).count v + 1) := by
    rw [List.count_append, List.count_cons_self]
  rw [h] at e
  omega

theorem bitNat_decide (v : Nat) : bitNat (decide (v % 2 = 1)) = v % 2 := by
  unfold bitNat
  rcases Nat.mod_two_eq_zero_or_one v with h | h <;> rw [h] <;> rfl

theorem bitsOf_succ (L v : Nat) : bitsOf (L + 1) v = bitsOf L (v / 2) ++ [decide (v % 2 = 1)] := rfl

/-- after expansion, queue slot `r` of the new level is reached by the (L+1)-bit value `2·S_L + r` -/
theorem queue_after_expand (lb : Nat) (lens : List Nat) (L : Nat) (b : Build)
    (hq : b.alloc = b.next + (2 ^ L - S lens L))
    (hsz : b.next + (2 ^ L - S lens L) ≤ b.tree.size)
    (hlb : b.alloc + 2 * (2 ^ L - S lens L) ≤ lb)
    (hqueue : ∀ j, j < 2 ^ L - S lens L →
      slotAt lb b.tree b.next (bitsOf L (S lens L + j)) 0 = some (b.next + j))
    (r : Nat) (hr : r < 2 * (2 ^ L - S lens L)) :
    slotAt lb (expandLoop lb (2 ^ L - S lens L) b).tree b.alloc (bitsOf (L + 1) (2 * S lens L + r)) 0
      = some (b.alloc + r) := by
  have hg := expandLoop_get lb (2 ^ L - S lens L) b hsz (by omega)
  have hdiv : (2 * S lens L + r) / 2 = S lens L + r / 2 := by omega
  have hmod : (2 * S lens L + r) % 2 = r % 2 := by omega
  rw [bitsOf_succ, hdiv, hmod]
  have h1 : slotAt lb (expandLoop lb (2 ^ L - S lens L) b).tree b.alloc (bitsOf L (S lens L + r / 2)) 0
      = some (b.next + r / 2) := by
    apply slotAt_mono lb _ b.next b.alloc (by omega)
    apply slotAt_frame lb _ b.tree b.next _ _ _ _ (hqueue (r / 2) (by omega))
    intro i hi
    rw [hg i, if_neg (by omega)]
  rw [slotAt_append lb _ _ _ _ _ _ h1]
  have hget : (expandLoop lb (2 ^ L - S lens L) b).tree[b.next + r / 2]?
      = some (b.alloc + 2 * (r / 2)) := by
    rw [hg (b.next + r / 2), if_pos (by omega)]
    congr 2; omega
  rw [slotAt_cons_ptr lb _ b.alloc _ [] (b.next + r / 2) _ (by omega) hget (by omega), slotAt_nil,
    bitNat_decide]
  congr 1
  omega

theorem level_step (lb : Nat) (lens : List Nat) (L : Nat) (b : Build) (h : LInv lb lens L b)
    (hS' : S lens (L + 1) ≤ 2 ^ (L + 1))
    (hroom : b.alloc + 2 * (2 ^ L - S lens L) ≤ b.treeLen)
    (hlb : b.alloc + 2 * (2 ^ L - S lens L) ≤ lb)
    (hlen : lens.length ≤ lb) :
    LInv lb lens (L + 1) (addCodes lb (L + 1) lens 0 (expandQueue lb b) false).1 ∧
    (addCodes lb (L + 1) lens 0 (expandQueue lb b) false).1.tree.size = b.tree.size ∧
    (addCodes lb (L + 1) lens 0 (expandQueue lb b) false).1.treeLen = b.treeLen := by
  obtain ⟨hS, hq, hcap, hsz, htl, hoob, hqueue, hleaf⟩ := h
  -- abbreviations
  have hqe : b.alloc - b.next = 2 ^ L - S lens L := by omega
  have hpow : 2 ^ (L + 1) = 2 * 2 ^ L := by rw [Nat.pow_succ]; omega
  have hSs : S lens (L + 1) = 2 * S lens L + lens.count (L + 1) := rfl
  have hcnt : lens.count (L + 1) ≤ 2 * (2 ^ L - S lens L) := by omega
  -- step 1: expansion
  have he : expandQueue lb b = expandLoop lb (2 ^ L - S lens L) b := by
    rw [expandQueue_eq lb b (by omega), hqe]
  have hnextsz : b.next + (2 ^ L - S lens L) ≤ b.tree.size := by omega
  obtain ⟨hf1, hf2, hf3, hsz1⟩ := expandLoop_fields lb (2 ^ L - S lens L) b
  have hfo := expandLoop_oob lb (2 ^ L - S lens L) b hnextsz
  have hg := expandLoop_get lb (2 ^ L - S lens L) b hnextsz (by omega)
  have hQ := queue_after_expand lb lens L b hq hnextsz hlb hqueue
  -- step 2: leaves of length L+1
  rw [he]
  have hspec := addCodes_spec lb (L + 1) lens 0 (expandLoop lb (2 ^ L - S lens L) b) false
    (by rw [hf1, hf2]; omega) (by rw [hf2, hsz1]; omega) (by omega)
  obtain ⟨g1, g2, g3, g3t, g3o, g4, g5⟩ := hspec
  rw [hf1] at g1 g4 g5
  rw [hf2] at g2
  -- the three trees agree below b.next; the last two agree below b.alloc
  have agree1 : ∀ i, i < b.next →
      (addCodes lb (L + 1) lens 0 (expandLoop lb (2 ^ L - S lens L) b) false).1.tree[i]?
        = b.tree[i]? := by
    intro i hi
    rw [g5 i (Or.inl (by omega)), hg i, if_neg (by omega)]
  have agree2 : ∀ i, i < b.alloc →
      (addCodes lb (L + 1) lens 0 (expandLoop lb (2 ^ L - S lens L) b) false).1.tree[i]?
        = (expandLoop lb (2 ^ L - S lens L) b).tree[i]? := by
    intro i hi
    exact g5 i (Or.inl (by omega))
  refine ⟨⟨hS', ?_, ?_, ?_, ?_, ?_, ?_, ?_⟩, by rw [g3, hsz1], by rw [g3t, hf3]⟩
  · rw [g2, g1]; omega
  · rw [g2]
    have : asg lens (L + 1) = asg lens L + lens.count (L + 1) := rfl
    omega
  · rw [g2, g3, hsz1]; omega
  · rw [g3t, g3, hf3, hsz1]; exact htl
  · rw [g3o, hfo]; exact hoob
  · -- queue of level L+1
    intro j hj
    rw [g1]
    have e : S lens (L + 1) + j = 2 * S lens L + (lens.count (L + 1) + j) := by omega
    rw [e]
    apply slotAt_mono lb _ b.alloc _ (by omega)
    apply slotAt_frame lb _ _ b.alloc agree2
    rw [hQ (lens.count (L + 1) + j) (by omega)]
    congr 1; omega
  · -- leaves
    intro i hi h1 h2
    by_cases hlt : lens.getD i 0 ≤ L
    · obtain ⟨s, hs1, hs2, hs3⟩ := hleaf i hi h1 hlt
      refine ⟨s, by rw [g1]; omega, ?_, by rw [agree1 s hs1]; exact hs3⟩
      apply slotAt_mono lb _ b.next _ (by rw [g1]; omega)
      exact slotAt_frame lb _ _ b.next agree1 _ _ _ hs2
    · have hlen' : lens.getD i 0 = L + 1 := by omega
      have hr := rank_lt_count lens i hi
      rw [hlen'] at hr
      refine ⟨b.alloc + rank lens i, by rw [g1]; omega, ?_, ?_⟩
      · have hc : code lens i = 2 * S lens L + rank lens i := by
          unfold code; rw [hlen']; rfl
        rw [hlen', hc]
        apply slotAt_mono lb _ b.alloc _ (by rw [g1]; omega)
        apply slotAt_frame lb _ _ b.alloc agree2
        exact hQ (rank lens i) (by omega)
      · have := g4 i hi hlen'
        unfold rank
        rw [hlen', hq]
        rw [Nat.zero_add] at this
        exact this

theorem linv_zero (lb : Nat) (lens : List Nat) (t : Array Nat) (treeLen : Nat)
    (hs : 1 ≤ t.size) (htl : treeLen ≤ t.size) :
    LInv lb lens 0 { tree := t, treeLen := treeLen, alloc := 1, next := 0 } := by
  refine ⟨Nat.zero_le _, rfl, rfl, hs, htl, rfl, ?_, ?_⟩
  · intro j hj
    have hj' : j < 1 := hj
    have : j = 0 := by omega
    subst this; rfl
  · intro i _ h1 h2; omega

/-- the do/while of build_tree reaches the deepest level with the invariant intact -/
theorem buildLoop_canon (lb : Nat) (lens : List Nat) (Lmax : Nat)
    (hmax : ∀ l, l ∈ lens → l ≤ Lmax) (hex : Lmax ∈ lens)
    (hK : ∀ L, L ≤ Lmax → S lens L ≤ 2 ^ L)
    (N : Nat) (hNlb : N ≤ lb) (hlen : lens.length ≤ lb)
    (hroom : ∀ L, L < Lmax → 2 * asg lens L + 4 * (2 ^ L - S lens L) ≤ N + 1)
    (size : Nat)
    (fuel L : Nat) (b : Build) (hb : b.tree.size = size) (hN : N ≤ b.treeLen)
    (hL : L < Lmax) (hfuel : Lmax - L ≤ fuel)
    (h : LInv lb lens L b) :
    LInv lb lens Lmax (buildLoop lb lens fuel L b) ∧ (buildLoop lb lens fuel L b).tree.size = size := by
  induction fuel generalizing L b with
  | zero => omega
  | succ fuel ih =>
    have hbl : buildLoop lb lens (fuel + 1) L b =
        if (addCodes lb (L + 1) lens 0 (expandQueue lb b) false).2
        then buildLoop lb lens fuel (L + 1) (addCodes lb (L + 1) lens 0 (expandQueue lb b) false).1
        else (addCodes lb (L + 1) lens 0 (expandQueue lb b) false).1 := rfl
    rw [hbl]
    have hal : b.alloc + 2 * (2 ^ L - S lens L) ≤ N := by
      have := hroom L hL; have := h.hcap; omega
    obtain ⟨hstep, hsize, htlen⟩ := level_step lb lens L b h (hK (L + 1) (by omega))
      (by omega) (by omega) hlen
    rw [hb] at hsize
    rw [addCodes_rem]
    by_cases hlast : L + 1 = Lmax
    · -- no longer codes remain: the loop stops
      have : lens.any (fun l => decide (l > L + 1)) = false := by
        rw [List.any_eq_false]; intro l hl; have := hmax l hl
        rw [decide_eq_true_eq]; omega
      rw [this, Bool.or_false, if_neg (by decide)]
      rw [← hlast]; exact ⟨hstep, hsize⟩
    · have : lens.any (fun l => decide (l > L + 1)) = true := by
        rw [List.any_eq_true]; exact ⟨Lmax, hex, by rw [decide_eq_true_eq]; omega⟩
      rw [this, Bool.or_true, if_pos rfl]
      exact ih (L + 1) _ hsize (by rw [htlen]; exact hN) (by omega) (by omega) hstep

end LhasaV.Tree
