import LhasaV.Lemmas.ContainW4b
/-!
# C10 with `w=DIR` (part 5): the loop and the whole run

`InvL`: the loop invariant (options keep `w=d` and the `i` flag; C11 for every header the reader
holds; no stored header is named ".."; main phase `StepW`, or deferred phase with the log condition
only).  `run_contained_w_gen`: the whole run relative to the base `cwd ++ ds` for ANY prefix `ds`
of the components of `DIR`:

* `ds = []` gives `run_contained_w_cwd`: with all links below the current directory safe, every
  mutation acts below the current directory, whatever `DIR` consists of (links included);
* `ds = comps d` gives `run_contained_w`: with a link-free chain and safe links below `cwd/DIR`,
  every mutation acts below `cwd/DIR` or is the `mkdir` of a missing component of `DIR`.
-/
namespace LhasaV.ContainW
open LhasaV LhasaV.Header LhasaV.Extract LhasaV.GlobFs LhasaV.Contain

/-- what an entry must satisfy when the base may still be missing: it is a directory entry, or the
path built from its header (stored path and file name, without `DIR/`) is not empty -/
def NotBase (s : St) (c0 : Reader.HObj) : Prop :=
  isDirEntry c0.h = true ∨ Xof s.opts.usePath c0.h ≠ []

structure InvL (d : Bytes) (ds : List Bytes) (c : Fs.Path) (fs0 : Fs.St) (u : Bool) (s : St) : Prop where
  xp : s.opts.extractPath = some d
  up : s.opts.usePath = u
  hdr : HdrInv (fun h => FnOk h ∧ PathOk h) s.rd
  names : StackInv (NND u) s.rd
  phase : StepW c ds fs0 s.fs ∨ (LogW c ds fs0 s.fs ∧ DirMono fs0 s.fs ∧ s.fs.cwd = c ∧ Phase2 s.rd)

section loop
variable {d : Bytes} {ds : List Bytes} {c : Fs.Path}

theorem InvL.below {fs0 : Fs.St} {u : Bool} {s : St} (hi : InvL d ds c fs0 u s) :
    LogW c ds fs0 s.fs ∧ s.fs.cwd = c := by
  rcases hi.phase with h | h
  · exact ⟨h.log, h.inv.cwd⟩
  · exact ⟨h.1, h.2.2.1⟩

theorem eaf_invL (hw : WOpts d ds) (fs0 : Fs.St) (u : Bool) (s : St) (rd : Reader.St)
    (c0 : Reader.HObj) (hn : Reader.next s.rd = .ok (some c0, rd)) (hi : InvL d ds c fs0 u s)
    (hP : IsDir fs0 (c ++ ds) ∨ NotBase { s with rd := rd } c0) :
    InvL d ds c fs0 u (extractArchivedFile { s with rd := rd } c0.h) := by
  obtain ⟨_, _, _, hcurr⟩ := next_some hn
  have hdr1 : HdrInv (fun h => FnOk h ∧ PathOk h) rd := next_inv parsed_good hi.hdr hn
  have names1 : StackInv (NND u) rd := next_stackInv hi.names hn
  have hgood := hdr1.curr c0 hcurr
  have hopts := eaf_opts { s with rd := rd } c0.h
  have hhdr : HdrInv (fun h => FnOk h ∧ PathOk h) (extractArchivedFile { s with rd := rd } c0.h).rd :=
    eaf_inv (s := { s with rd := rd }) hdr1 c0.h
  have hxp : ({ s with rd := rd } : St).opts.extractPath = some d := hi.xp
  have hcur' : ({ s with rd := rd } : St).rd.curr = some c0 := hcurr
  by_cases hl : NND u c0.h
  · have hl' : NND ({ s with rd := rd } : St).opts.usePath c0.h := by rw [← hi.up] at hl; exact hl
    have hnames : StackInv (NND u) (extractArchivedFile { s with rd := rd } c0.h).rd := by
      apply eaf_stackInv_A { s with rd := rd } c0.h names1
      intro c' hc'
      have : c' = c0 := by
        have h' : some c' = some c0 := hc'.symm.trans hcurr
        injection h'
      rw [this]; exact hl
    refine ⟨by rw [hopts.1]; exact hi.xp, by rw [hopts.2]; exact hi.up, hhdr, hnames, ?_⟩
    by_cases ht : rd.currType = .deferred
    · -- a deferred link
      have hp2 : Phase2 rd := next_deferred_phase2 hn ht
      obtain ⟨hlog, hcwd⟩ := hi.below
      have hmono : DirMono fs0 s.fs := by
        rcases hi.phase with h | h
        · exact h.mono
        · exact h.2.1
      have := eaf_w_deferred hw fs0 { s with rd := rd } c0 hxp hlog hmono hcwd hgood.1 hgood.2 hl' ht hcur'
      exact Or.inr ⟨this.1, hmono.trans (eaf_dirMono { s with rd := rd } c0.h), this.2.1,
        by rw [this.2.2]; exact hp2⟩
    · rcases hi.phase with h | h
      · left
        refine eaf_w_main hw fs0 { s with rd := rd } c0 hxp h hgood.1 hgood.2 hl' ht hcur' ?_
        intro hty hmp
        rcases hP with hP | hP | hP
        · right; right
          exact (parentsOf_dirMono { s with rd := rd } _).dirs _ (h.mono.dirs _ hP)
        · exact Or.inl hP
        · right
          rw [fileFullPath_w c0.h _ d hxp, parentsOf_normal _ _ hty] at hmp ⊢
          exact ne_of_named hw h.inv _ hP (X_dirsClean _ c0.h hgood.1 hgood.2) hmp
      · exact absurd (next_of_phase2 h.2.2.2 hn) ht
  · -- a name ending in "..": nothing but parent directories happens
    have hl' : ¬ NND ({ s with rd := rd } : St).opts.usePath c0.h := by rw [← hi.up] at hl; exact hl
    have hty : rd.currType = .normal := by
      rcases next_currType hn with h | h | h
      · exact h
      · exact absurd (names1.curr (Or.inl h) c0 hcurr) hl
      · exact absurd (names1.curr (Or.inr h) c0 hcurr) hl
    have hc : StepW c ds fs0 s.fs := by
      rcases hi.phase with h | h
      · exact h
      · have := next_of_phase2 h.2.2.2 hn
        rw [hty] at this; cases this
    have := eaf_w_dd hw fs0 { s with rd := rd } c0 hxp hc hgood.1 hgood.2 hl' hty
    refine ⟨by rw [hopts.1]; exact hi.xp, by rw [hopts.2]; exact hi.up, hhdr, ?_, Or.inl this.1⟩
    rcases this.2 with h2 | h2
    · rw [h2]; exact names1
    · rw [h2]; exact extract_stackInv names1 false (fun h => by cases h)

theorem skip_invL (fs0 : Fs.St) (u : Bool) (s : St) (rd : Reader.St) (c0 : Reader.HObj)
    (hn : Reader.next s.rd = .ok (some c0, rd)) (hi : InvL d ds c fs0 u s) :
    InvL d ds c fs0 u { s with rd := rd } := by
  refine ⟨hi.xp, hi.up, next_inv parsed_good hi.hdr hn, next_stackInv hi.names hn, ?_⟩
  rcases hi.phase with h | h
  · exact Or.inl h
  · exact Or.inr ⟨h.1, h.2.1, h.2.2.1, next_deferred_phase2 hn (next_of_phase2 h.2.2.2 hn)⟩

theorem extractLoop_invL (hw : WOpts d ds) (fs0 : Fs.St) (u : Bool) :
    ∀ (fuel : Nat) (s : St), InvL d ds c fs0 u s →
      Presented (fun s' c0 => IsDir fs0 (c ++ ds) ∨ NotBase s' c0) fuel s →
      LogW c ds fs0 (extractLoop fuel s).fs ∧ (extractLoop fuel s).fs.cwd = c := by
  intro fuel
  induction fuel with
  | zero => intro s hi _; exact hi.below
  | succ n ih =>
    intro s hi hP
    rw [extractLoop]
    rw [Presented] at hP
    split
    · exact hi.below
    · rename_i ha
      rw [if_neg ha] at hP
      split
      · exact hi.below
      · exact hi.below
      · rename_i c0 rd hn
        rw [hn] at hP
        simp only at hP
        obtain ⟨hk, h2⟩ := hP
        split
        · rename_i hf; rw [if_pos hf] at h2
          exact ih _ (skip_invL fs0 u s rd c0 hn hi) h2
        · rename_i hf; rw [if_neg hf] at h2
          exact ih _ (eaf_invL hw fs0 u s rd c0 hn hi hk) h2

end loop

/-- any predicate that holds of every state and header holds of everything the loop is handed -/
theorem presented_all {P : St → Reader.HObj → Prop} (h : ∀ s c0, P s c0) (fuel : Nat) (s : St) :
    Presented P fuel s :=
  Presented.mono (P := fun _ _ => True) (fun s c0 _ => h s c0) fuel s
    (presented_of_inv (Q := fun _ => True) (fun _ _ _ _ _ => trivial) fuel s
      ⟨fun _ _ => trivial, fun _ _ => trivial, fun _ _ => trivial, fun _ _ => trivial⟩)

/-- "every handled member other than a directory entry has a non-empty constructed name" — stored
path and file name are not both empty (needed only while `DIR` does not exist: see `ContainW.lean`,
the trailing-slash artifact of `Fs`; the POSIX rule of `Model/Messages.lean` makes it unnecessary:
`ContainW8.lean`) -/
def NotBaseRun (archive : Array UInt8) (o : Opts) (fs : Fs.St) (answers : Bytes) : Prop :=
  Presented NotBase (runFuel archive) (runInit archive o fs answers)

/-- **C10 with `w=DIR`, relative to any prefix of `DIR`.**  `d` non-empty, relative, without
".."; `ds` a prefix of its components; in the starting state: `cwd` and its parent are
directories, whatever exists at `cwd ++ pre` (`pre` a non-empty prefix of `ds`) is a directory,
every link visible below `cwd ++ ds` is safe; and the base `cwd ++ ds` exists or every handled
non-directory member has a non-empty constructed name.  Then for ANY archive and answers the current directory is kept
and every mutation is `Allowed`: below `cwd ++ ds`, or the `mkdir` of some `cwd ++ pre` that was
not a directory at the start. -/
theorem run_contained_w_gen (archive : Array UInt8) (o : Opts) (fs₀ : Fs.St) (answers : Bytes)
    (d : Bytes) (ds : List Bytes) (hx : o.extractPath = some d) (hw : WOpts d ds)
    (hi : InvW fs₀.cwd ds fs₀)
    (hB : IsDir fs₀ (fs₀.cwd ++ ds) ∨ NotBaseRun archive o fs₀ answers) :
    (run archive o fs₀ answers).fs.cwd = fs₀.cwd ∧
    ∃ new, (run archive o fs₀ answers).fs.log = new ++ fs₀.log ∧ ∀ m ∈ new, Allowed fs₀.cwd ds fs₀ m := by
  rw [run_eq]
  have hP : Presented (fun s' c0 => IsDir fs₀ (fs₀.cwd ++ ds) ∨ NotBase s' c0) (runFuel archive)
      (runInit archive o fs₀ answers) := by
    rcases hB with h | h
    · exact presented_all (fun _ _ => Or.inl h) _ _
    · exact Presented.mono (fun _ _ hp => Or.inr hp) _ _ h
  have h := extractLoop_invL hw fs₀ o.usePath (runFuel archive) (runInit archive o fs₀ answers)
    ⟨hx, rfl, runInit_inv _ archive o fs₀ answers, runInit_stackInv _ archive o fs₀ answers,
     Or.inl (StepW.refl hi)⟩ hP
  exact ⟨h.2, h.1⟩

/-! ## `ds = []`: below the current directory, whatever `DIR` consists of -/

theorem invW_nil (fs : Fs.St) (hs : SafeLinks fs) (hd : DirsOk fs) : InvW fs.cwd [] fs :=
  ⟨rfl, by rw [List.append_nil]; exact (safeAt_cwd fs).2 hs,
   fun pre hp hne => absurd (List.prefix_nil.1 hp) hne, hd.1, hd.2⟩

theorem allowed_nil {c : Fs.Path} {s : Fs.St} {m : Fs.Mut} (h : Allowed c [] s m) : c <+: m.path := by
  rcases h with h | ⟨_, _, pre, hp, hne, _⟩
  · simpa using h
  · exact absurd (List.prefix_nil.1 hp) hne

/-- **C10 with `w=DIR`, below the current directory.**  `lha x`/`e` with `w=d` (and any of f, q,
i), `d` not empty, relative, without a ".." component, started in a directory that is a directory,
has a directory as parent and below which every symbolic link is safe: for ANY archive and ANY
answers the current directory is kept and EVERY mutation acts on a path below it — whatever `d`
names (missing, a directory, a file, a safe link to another place below the current directory). -/
theorem run_contained_w_cwd (archive : Array UInt8) (o : Opts) (fs₀ : Fs.St) (answers : Bytes)
    (d : Bytes) (hx : o.extractPath = some d) (hne : d ≠ []) (hrel : d.head? ≠ some 0x2f)
    (hnd : NoDotDot d) (hs : SafeLinks fs₀) (hd : DirsOk fs₀) :
    (run archive o fs₀ answers).fs.cwd = fs₀.cwd ∧
    ∃ new, (run archive o fs₀ answers).fs.log = new ++ fs₀.log ∧ ∀ m ∈ new, fs₀.cwd <+: m.path := by
  obtain ⟨h1, new, h2, h3⟩ := run_contained_w_gen archive o fs₀ answers d [] hx
    ⟨hne, ⟨hrel, hnd⟩, List.nil_prefix⟩ (invW_nil fs₀ hs hd)
    (Or.inl (by rw [List.append_nil]; exact hd.1))
  exact ⟨h1, new, h2, fun m hm => allowed_nil (h3 m hm)⟩

/-! ## `ds = comps d`: below `cwd/DIR` -/

/-- **C10 with `w=DIR`, the whole run.**  `lha x`/`e` with `w=d` (and any of f, q, i); `d` not
empty, relative, without a ".." component; `B = cwd ++ comps d` the directory `DIR` names.  In the
starting state: the current directory and its parent are directories (`DirsOk`); whatever exists
at a component prefix of `DIR` is a directory, not a file or a link (`NoFL` — the components may
be missing); every link visible below `B` is safe (`SafeAt`; nothing is asked of links elsewhere,
e.g. next to `DIR` in the current directory); and `DIR` exists, or every handled non-directory
member has a non-empty constructed name (`NotBaseRun`).  Then for ANY archive and ANY answers the
current directory is kept and every mutation acts on a path below `B` — or is the `mkdir` of one
of `DIR`'s own components, one that did not exist at the start. -/
theorem run_contained_w (archive : Array UInt8) (o : Opts) (fs₀ : Fs.St) (answers : Bytes)
    (d : Bytes) (hx : o.extractPath = some d) (hne : d ≠ []) (hrel : d.head? ≠ some 0x2f)
    (hnd : NoDotDot d) (hd : DirsOk fs₀)
    (hchain : ∀ pre, pre <+: comps d → pre ≠ [] → NoFL fs₀ (fs₀.cwd ++ pre))
    (hs : SafeAt (fs₀.cwd ++ comps d) fs₀)
    (hB : IsDir fs₀ (fs₀.cwd ++ comps d) ∨ NotBaseRun archive o fs₀ answers) :
    (run archive o fs₀ answers).fs.cwd = fs₀.cwd ∧
    ∃ new, (run archive o fs₀ answers).fs.log = new ++ fs₀.log ∧
      ∀ m ∈ new, (fs₀.cwd ++ comps d) <+: m.path ∨
        (m.op = "mkdir" ∧ Fs.lookup fs₀ m.path = none ∧
          ∃ pre, pre <+: comps d ∧ pre ≠ [] ∧ m.path = fs₀.cwd ++ pre) := by
  obtain ⟨h1, new, h2, h3⟩ := run_contained_w_gen archive o fs₀ answers d (comps d) hx
    ⟨hne, ⟨hrel, hnd⟩, List.prefix_refl _⟩ ⟨rfl, hs, hchain, hd.1, hd.2⟩ hB
  refine ⟨h1, new, h2, fun m hm => (h3 m hm).imp id ?_⟩
  rintro ⟨ho, hnd', pre, hp, hpne, hpath⟩
  refine ⟨ho, ?_, pre, hp, hpne, hpath⟩
  cases hl : Fs.lookup fs₀ m.path with
  | none => rfl
  | some e =>
    obtain ⟨mo, t, rfl⟩ := hchain pre hp hpne e (by rw [← hpath]; exact hl)
    exact absurd ⟨mo, t, hl⟩ hnd'

/-- in particular every mutation is below the current directory -/
theorem allowed_below_cwd {c : Fs.Path} {ds : List Bytes} {s : Fs.St} {m : Fs.Mut}
    (h : Allowed c ds s m) : c <+: m.path := by
  rcases h with h | ⟨_, _, pre, _, _, h⟩
  · exact (List.prefix_append c ds).trans h
  · rw [h]; exact List.prefix_append _ _

/-! ## an executable check of `NotBaseRun` (for concrete archives) -/

/-- `Presented` of a decidable predicate, as a Boolean function -/
def presentedB (p : St → Reader.HObj → Bool) : Nat → St → Bool
  | 0, _ => true
  | fuel+1, s =>
    if s.aborted then true else
    match Reader.next s.rd with
    | .error _ => true
    | .ok (none, _) => true
    | .ok (some c, rd) =>
      p { s with rd := rd } c &&
      (if !Glob.matchesFilter s.opts.filters c.h then presentedB p fuel { s with rd := rd }
       else presentedB p fuel (extractArchivedFile { s with rd := rd } c.h))

theorem presentedB_sound {P : St → Reader.HObj → Prop} {p : St → Reader.HObj → Bool}
    (hp : ∀ s c0, p s c0 = true → P s c0) :
    ∀ (fuel : Nat) (s : St), presentedB p fuel s = true → Presented P fuel s := by
  intro fuel
  induction fuel with
  | zero => intro s _; trivial
  | succ n ih =>
    intro s h
    rw [presentedB] at h
    rw [Presented]
    split
    · trivial
    · rename_i ha
      rw [if_neg ha] at h
      split
      · trivial
      · trivial
      · rename_i c0 rd hn
        rw [hn] at h
        simp only [Bool.and_eq_true] at h
        refine ⟨hp _ _ h.1, ?_⟩
        have h2 := h.2
        split
        · rename_i hf; rw [if_pos hf] at h2; exact ih _ h2
        · rename_i hf; rw [if_neg hf] at h2; exact ih _ h2

/-- `NotBase` as a Boolean -/
def notBaseB (s : St) (c0 : Reader.HObj) : Bool :=
  isDirEntry c0.h || Xof s.opts.usePath c0.h != []

theorem notBaseRun_of_check (archive : Array UInt8) (o : Opts) (fs : Fs.St)
    (answers : Bytes)
    (h : presentedB notBaseB (runFuel archive) (runInit archive o fs answers) = true) :
    NotBaseRun archive o fs answers := by
  refine presentedB_sound ?_ _ _ h
  intro s c0 hb
  unfold notBaseB at hb
  rcases Bool.or_eq_true_iff.1 hb with hb | hb
  · exact Or.inl hb
  · exact Or.inr (by simpa using hb)

end LhasaV.ContainW
