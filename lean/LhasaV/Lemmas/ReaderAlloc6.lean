import LhasaV.Lemmas.ReaderAlloc5
/-!
# Allocation-aware reader, part 6: refinement of `extractA`, of histories and of `freeA`
-/
namespace LhasaV.Reader
open LhasaV LhasaV.Alloc

/-- **`extractA` refines `extract`.** -/
theorem extractA_refines {o : Oracle} (hn : NoFail o) (a : StA) (fsOk : Bool) :
    ((extractA o a fsOk).1, (extractA o a fsOk).2.s) = extract a.s fsOk := by
  unfold extractA extract
  dsimp only
  cases hct : a.s.currType with
  | start => rfl
  | eof => rfl
  | fakeDir => cases a.s.curr <;> rfl
  | deferred =>
    cases a.s.curr with
    | none => rfl
    | some c =>
      dsimp only
      rw [allocAt_noFail hn]
      rfl
  | normal =>
    cases a.s.curr with
    | none => rfl
    | some c =>
      dsimp only
      by_cases hm : (c.h.method != "-lhd-".toUTF8.toList) = true
      · rw [if_pos hm, if_pos hm, allocAt_noFail hn]
        simp only [Bool.not_true, Bool.false_eq_true, ↓reduceIte]
        generalize hA : ({ s := a.s, hp := { (allocAt o Site.extractName a.hp).2 with
            live := (allocAt o Site.extractName a.hp).2.live + 1 } } : StA) = a1
        have hs1 : a1.s = a.s := by rw [← hA]
        rw [← hs1, ← openDecoderA_refines hn a1]
        cases openDecoderA o a1 with
        | mk ok a2 =>
          dsimp only
          cases ok with
          | false => rfl
          | true =>
            simp only [Bool.not_true, Bool.false_eq_true, ↓reduceIte]
            cases fsOk with
            | false => rfl
            | true =>
              simp only [Bool.not_true, Bool.false_eq_true, ↓reduceIte]
              rw [← decodeLoopA_refines hn (c.h.length + 2) a2 []]
              rfl
      · rw [if_neg hm, if_neg hm]
        by_cases hsym : c.h.symlinkTarget.isSome = true
        · rw [if_pos hsym, if_pos hsym, allocAt_noFail hn]
          simp only [Bool.not_true, Bool.false_eq_true, ↓reduceIte]
          by_cases hd : isDangerous c.h = true
          · rw [if_pos hd, if_pos hd]
            cases fsOk <;> rfl
          · rw [if_neg hd, if_neg hd]
            rfl
        · rw [if_neg hsym, if_neg hsym]
          cases fsOk with
          | false => rfl
          | true =>
            simp only [Bool.not_true, Bool.false_eq_true, ↓reduceIte]
            by_cases hp : (a.s.policy == DirPolicy.plain) = true
            · rw [if_pos hp, if_pos hp]
            · rw [if_neg hp, if_neg hp]

/-- under a never-failing oracle the log stays empty -/
theorem good_noFail {o : Oracle} (hn : NoFail o) {hp : Heap} (h : Good o hp) : hp.failed = [] := by
  unfold Good at h
  rw [countFails_noFail hn] at h
  exact List.eq_nil_of_length_eq_zero h

/-- **Refinement, one operation**: same new reader state (ledger included) -/
theorem stepA_refines {o : Oracle} (hn : NoFail o) {a : StA} (h : InvA o a) (op : Op) :
    (stepA o a op).s = step a.s op := by
  cases op with
  | next =>
    have hr := nextA_refines hn a h.hp.good
    simp only [stepA, step]
    cases hx : nextA o a with
    | ok r => rw [hx] at hr; simp only [eraseNext] at hr; rw [← hr]
    | error w => rw [hx] at hr; simp only [eraseNext] at hr; rw [← hr]
  | read k => exact congrArg Prod.snd (readA_refines hn a k)
  | check => exact congrArg Prod.snd (checkA_refines hn a)
  | extract b => exact congrArg Prod.snd (extractA_refines hn a b)

/-- **Refinement, histories**: `runA` under a never-failing oracle reaches the state `run` reaches -/
theorem runA_refines_from {o : Oracle} (hn : NoFail o) {a : StA} (h : InvA o a) (ops : List Op) :
    (runA o a ops).s = run a.s ops := by
  induction ops generalizing a with
  | nil => rfl
  | cons op ops ih =>
    rw [runA_cons, run_cons, ih (stepA_invA h op), stepA_refines hn h op]

theorem invA_fresh_noFail {o : Oracle} (hn : NoFail o) (st : Stream.St) (pol : DirPolicy) (mk : Nat → Nat) :
    InvA o (freshA st pol mk) := invA_fresh o st pol mk (hn 0) (hn 1) (hn 2)

/-- **REFINEMENT (a).**  With no allocation failing (`failAt = none`) the allocation-aware model
reaches, on every history, exactly the reader state of the original model — ledger included — … -/
theorem runA_refines (st : Stream.St) (pol : DirPolicy) (mk : Nat → Nat) (ops : List Op) :
    (runA (Oracle.ofFailAt none) (freshA st pol mk) ops).s = run (fresh st pol mk) ops :=
  runA_refines_from noFail_none (invA_fresh_noFail noFail_none st pol mk) ops

/-- … `freeA` then leaves what `free` leaves, and nothing outside the ledger, … -/
theorem freeA_refines (st : Stream.St) (pol : DirPolicy) (mk : Nat → Nat) (ops : List Op) :
    (freeA (runA (Oracle.ofFailAt none) (freshA st pol mk) ops)).1 = free (run (fresh st pol mk) ops) ∧
    (freeA (runA (Oracle.ofFailAt none) (freshA st pol mk) ops)).2 = 0 := by
  refine ⟨?_, ?_⟩
  · show free (runA _ _ ops).s = _
    rw [runA_refines]
  · exact (freeA_of_invA (runA_invA (invA_fresh_noFail noFail_none st pol mk) ops)).2.2

/-- … no failure is ever logged, … -/
theorem runA_noFail_log (st : Stream.St) (pol : DirPolicy) (mk : Nat → Nat) (ops : List Op) :
    (runA (Oracle.ofFailAt none) (freshA st pol mk) ops).hp.failed = [] :=
  good_noFail noFail_none (runA_invA (invA_fresh_noFail noFail_none st pol mk) ops).hp.good

/-- … and every call returns what the original call returns (the state it is made in being the
same by `runA_refines`). -/
theorem results_refine {o : Oracle} (hn : NoFail o) {a : StA} (h : InvA o a) :
    eraseNext (nextA o a) = next a.s ∧
    (∀ k, (readA o a k).1 = (read a.s k).1) ∧
    (checkA o a).1 = (check a.s).1 ∧
    (∀ b, (extractA o a b).1 = (extract a.s b).1) :=
  ⟨nextA_refines hn a h.hp.good, fun k => congrArg Prod.fst (readA_refines hn a k),
   congrArg Prod.fst (checkA_refines hn a), fun b => congrArg Prod.fst (extractA_refines hn a b)⟩

/-- `newA` with no failure is the fresh reader -/
theorem newA_noFail {o : Oracle} (hn : NoFail o) (st : Stream.St) (pol : DirPolicy) (mk : Nat → Nat) :
    (newA o st pol mk).1 = some (freshA st pol mk) := by
  unfold newA
  simp [hn 0, hn 1, hn 2, freshA, fresh]

end LhasaV.Reader
