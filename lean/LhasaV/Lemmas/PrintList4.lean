import LhasaV.Lemmas.PrintList1
import LhasaV.Lemmas.ToolNoFault3
import LhasaV.Lemmas.ListStruct
import LhasaV.Driver.OpsList
/-!
# C19 / C06, `lha l`/`lha v` on archive bytes (part 4): the headers and the listing

* **`headers_archiveWith`**: the header walk of the listing commands (`Driver.allHeaders`, what the
  `list` operation of `lhv` runs) on the bytes `archiveWith pk es` returns exactly `es.map (hdrOf pk)`
  — one header per entry, in order, each denoting its entry (`headers_denote`); the driver's fuel
  suffices (`headers_driver_fuel`);
* `select_headers`: the wildcard selection on these headers is `selected` on the entries;
* **`listing_archiveWith`**: the listing is `head ++ one row group per SELECTED entry ++ tail`, the
  totals of the tail being the number of selected entries and the sums of their data lengths and
  packed lengths (mod 2^32 as the C's `unsigned int`; `listing_totals_exact` below the wrap point);
* what a row shows (`hdr_length`, `hdr_packed`, `hdr_time`, `nameColumn_entry`, `row_l_entry`,
  `row_v_entry`) and the totals line of `lha l` in closed form (`footer_l`, `total_line_l`).
-/
set_option linter.unusedSimpArgs false
namespace LhasaV.PrintList
open LhasaV LhasaV.Header LhasaV.Extract LhasaV.ExtractTree LhasaV.ArchiveOf LhasaV.Reader
open LhasaV.ReaderIndep LhasaV.ListProps LhasaV.ListOut LhasaV.ToolNoFault

/-! ## the headers -/

theorem headers_walk (pk : Packer) (A : Array UInt8) : ∀ (fuel : Nat) (es : List Entry) (rd : Reader.St)
    (acc : List Hdr), AllOk pk es → Walk pk A es rd → es.length < fuel →
    Driver.allHeaders fuel rd acc = .ok (acc.reverse ++ es.map (hdrOf pk)) := by
  intro fuel
  induction fuel with
  | zero => intro es rd acc _ _ hf; omega
  | succ n ih =>
    intro es rd acc hok hw hf
    cases es with
    | nil =>
      obtain ⟨rd', hn⟩ := walk_nil hw
      unfold Driver.allHeaders
      rw [hn]; simp
    | cons e tl =>
      obtain ⟨c, rd', hn, hs⟩ := walk_cons hok hw
      unfold Driver.allHeaders
      rw [hn]
      dsimp only
      rw [ih tl rd' _ hok.tail hs.skip (by simp at hf; omega), hs.hdr]
      simp

/-- **the headers of the archive, end to end on bytes**: `lha_reader_next_file`, called until it
returns NULL on the reader the tool opens on `archiveWith pk es`, returns the header of every
entry, in order, and nothing else -/
theorem headers_archiveWith (pk : Packer) (es : List Entry) (hok : ∀ e ∈ es, EntryOk e)
    (henc : Encodable es) (hpk : Packs pk es) (fuel : Nat) (hf : es.length < fuel) :
    Driver.allHeaders fuel (toolReader (archiveWith pk es)) [] = .ok (es.map (hdrOf pk)) := by
  have := headers_walk pk (archiveWith pk es) fuel es _ [] (allOk_of_entries hok henc hpk)
    (walk_init pk es) hf
  simp only [List.reverse_nil, List.nil_append] at this
  exact this

/-- … each denoting its entry (path, name, kind, permissions, time, link target) -/
theorem headers_denote (pk : Packer) (es : List Entry) (hpk : Packs pk es) :
    ∀ e ∈ es, HdrOf e (hdrOf pk e) := fun e he => hdrOf_denotes pk e (hpk e he)

/-- the fuel the `list` operation of the driver uses (`size + 2`) suffices -/
theorem headers_driver_fuel (pk : Packer) (es : List Entry) : es.length < (archiveWith pk es).size + 2 := by
  have h := length_le_flat pk es
  have : (flat pk es).length = (archiveWith pk es).size := Array.length_toList
  omega

/-- wildcard arguments select the headers of the selected entries -/
theorem select_headers (pk : Packer) (es : List Entry) (hpk : Packs pk es) (fl : List Bytes) :
    Glob.select fl (es.map (hdrOf pk)) = (es.filter (selected fl)).map (hdrOf pk) := by
  unfold Glob.select
  rw [List.filter_map]
  congr 1
  apply List.filter_congr
  intro e he
  exact matches_of (hdrOf_denotes pk e (hpk e he)) fl

/-! ## what a header of the archive shows -/

/-- the size of an entry: a file's data length -/
def dataLen : Entry → Nat
  | .file _ data _ _ => data.length
  | _ => 0

/-- the packed size: the length of what the packer stored -/
def packedLen (pk : Packer) : Entry → Nat
  | .file _ data _ _ => (pk.pack data).2.length
  | _ => 0

/-- the recorded time -/
def mtimeOf : Entry → Nat
  | .file _ _ _ t => t
  | .dir _ _ t => t
  | .link _ _ => 0

/-- the method name in the header -/
def methodOf (pk : Packer) : Entry → Bytes
  | .file _ data _ _ => (pk.pack data).1
  | _ => "-lhd-".toUTF8.toList

theorem hdr_length (pk : Packer) (e : Entry) : (hdrOf pk e).length = dataLen e := by cases e <;> rfl
theorem hdr_packed (pk : Packer) (e : Entry) : (hdrOf pk e).compressedLength = packedLen pk e := by
  cases e <;> rfl
theorem hdr_time (pk : Packer) (e : Entry) : (hdrOf pk e).timestamp = mtimeOf e := by cases e <;> rfl
theorem hdr_method (pk : Packer) (e : Entry) : (hdrOf pk e).method = methodOf pk e := by
  cases e with
  | file _ _ _ _ => rfl
  | dir _ _ _ => exact lhdM_eq
  | link _ _ => exact lhdM_eq

theorem safe_append (a b : Bytes) : safe (a ++ b) = safe a ++ safe b := List.map_append

theorem optSafe_some (b : Bytes) : optSafe (some b) = safe b := rfl

theorem optSafe_pathOf (dl : Fs.Path) : optSafe (pathOf dl) = safe (joinDir dl) := by
  unfold pathOf
  split
  · rename_i h; subst h; rfl
  · rfl

/-- the name an entry is listed under: the stored path `a/b/c` (`a/b/` for a directory), for a
link followed by ` -> target`; through `safe_output` -/
def listedName : Entry → Bytes
  | .link p tg => safe (storedName (.link p tg)) ++ safe (str " -> " ++ tg)
  | e => safe (storedName e)

theorem nameColumn_entry (pk : Packer) (e : Entry) : nameColumn (hdrOf pk e) = listedName e := by
  cases e with
  | dir p perms t =>
    simp [nameColumn, hdrOf, listedName, storedName, Entry.dirPart, Entry.namePart, Entry.isDir,
      Entry.path, optSafe, safe]
  | file p data perms t =>
    simp only [nameColumn, hdrOf, listedName, storedName, Entry.dirPart, Entry.namePart, Entry.isDir,
      Entry.path, optSafe_pathOf, optSafe_some, safe_append, Bool.false_eq_true, if_false, List.append_nil]
  | link p tg =>
    simp only [nameColumn, hdrOf, listedName, storedName, Entry.dirPart, Entry.namePart, Entry.isDir,
      Entry.path, optSafe_pathOf, optSafe_some, safe_append, Bool.false_eq_true, if_false]

/-- **a row of `lha l`** for an entry of the archive: size, time and name are the entry's -/
theorem row_l_entry (pk : Packer) (now : Nat) (e : Entry) :
    printColumns (columnsFor false false) now (hdrOf pk e) =
      permissionColumn (hdrOf pk e) ++ str " " ++ uidGidColumn (hdrOf pk e) ++ str " " ++
      sizeField (dataLen e) ++ str " " ++ ratioColumn (hdrOf pk e) ++ str " " ++
      outputTimestamp now (mtimeOf e) ++ str " " ++ listedName e ++ str "\n" := by
  rw [row_l, hdr_length, hdr_time, nameColumn_entry]

/-- **a row of `lha v`**: packed size, size, method, time and name are the entry's -/
theorem row_v_entry (pk : Packer) (now : Nat) (e : Entry) :
    printColumns (columnsFor true false) now (hdrOf pk e) =
      permissionColumn (hdrOf pk e) ++ str " " ++ uidGidColumn (hdrOf pk e) ++ str " " ++
      sizeField (packedLen pk e) ++ str " " ++ sizeField (dataLen e) ++ str " " ++
      ratioColumn (hdrOf pk e) ++ str " " ++ methodCrcColumn (hdrOf pk e) ++ str " " ++
      outputTimestamp now (mtimeOf e) ++ str " " ++ listedName e ++ str "\n" := by
  rw [row_v, hdr_length, hdr_packed, hdr_time, nameColumn_entry]

/-! ## the listing -/

/-- the totals of the selected entries, as the C's `unsigned int`s hold them -/
def totalsOf (pk : Packer) (archiveMtime : Nat) (sel : List Entry) : Stats :=
  { numFiles := sel.length % two32, length := (sel.map dataLen).sum % two32,
    compressedLength := (sel.map (packedLen pk)).sum % two32, timestamp := archiveMtime % two32 }

theorem sumLength_entries (pk : Packer) (sel : List Entry) :
    sumLength (sel.map (hdrOf pk)) = (sel.map dataLen).sum := by
  unfold sumLength
  rw [List.map_map]
  congr 1
  exact List.map_congr_left (fun e _ => hdr_length pk e)

theorem sumCompressed_entries (pk : Packer) (sel : List Entry) :
    sumCompressed (sel.map (hdrOf pk)) = (sel.map (packedLen pk)).sum := by
  unfold sumCompressed
  rw [List.map_map]
  congr 1
  exact List.map_congr_left (fun e _ => hdr_packed pk e)

theorem totals_entries (pk : Packer) (archiveMtime : Nat) (sel : List Entry) :
    (sel.map (hdrOf pk)).foldl accumulate (initStats archiveMtime) = totalsOf pk archiveMtime sel := by
  obtain ⟨a, b, c, d⟩ := render_totals archiveMtime (sel.map (hdrOf pk))
  rw [List.length_map] at a
  rw [sumLength_entries] at b
  rw [sumCompressed_entries] at c
  generalize (sel.map (hdrOf pk)).foldl accumulate (initStats archiveMtime) = st at a b c d
  cases st
  simp only at a b c d
  subst a b c d
  rfl

/-- **C19 / C06, the listing of the archive, end to end on BYTES.**  For every list `es` of clean,
encodable entries and every packer handling their data: the header walk on the bytes
`archiveWith pk es` succeeds, and `lha l|lv|v|vv[q] archive [patterns]` writes the heading, then
exactly ONE ROW GROUP PER SELECTED ENTRY in archive order — the row of that entry's header
`hdrOf pk e` (its name, size, packed size, method, time: `row_l_entry`, `row_v_entry`; one line, two
in the verbose layouts: `row_newlines`) —, then the totals line for the totals of the selected
entries: their number, the sum of their data lengths, the sum of their packed lengths. -/
theorem listing_archiveWith (pk : Packer) (es : List Entry) (hok : ∀ e ∈ es, EntryOk e)
    (henc : Encodable es) (hpk : Packs pk es) (fuel : Nat) (hf : es.length < fuel)
    (vl vo : Bool) (quiet now archiveMtime : Nat) (fl : List Bytes) :
    ∃ hs, Driver.allHeaders fuel (toolReader (archiveWith pk es)) [] = .ok hs ∧
      hs = es.map (hdrOf pk) ∧ (∀ e ∈ es, HdrOf e (hdrOf pk e)) ∧
      render vl vo quiet now archiveMtime (Glob.select fl hs) =
        listHead vl vo quiet ++
        (es.filter (selected fl)).flatMap (fun e => printColumns (columnsFor vl vo) now (hdrOf pk e)) ++
        listTail vl vo quiet now (totalsOf pk archiveMtime (es.filter (selected fl))) := by
  refine ⟨_, headers_archiveWith pk es hok henc hpk fuel hf, rfl, headers_denote pk es hpk, ?_⟩
  rw [select_headers pk es hpk, render_rows, totals_entries, List.flatMap_map]

/-- below the wrap point the totals are the true count and sums -/
theorem listing_totals_exact (pk : Packer) (archiveMtime : Nat) (sel : List Entry)
    (hn : sel.length < two32) (hl : (sel.map dataLen).sum < two32)
    (hc : (sel.map (packedLen pk)).sum < two32) :
    totalsOf pk archiveMtime sel =
      { numFiles := sel.length, length := (sel.map dataLen).sum,
        compressedLength := (sel.map (packedLen pk)).sum, timestamp := archiveMtime % two32 } := by
  unfold totalsOf
  rw [Nat.mod_eq_of_lt hn, Nat.mod_eq_of_lt hl, Nat.mod_eq_of_lt hc]

/-! ## the totals line of `lha l`, in closed form -/

/-- the footer line of `lha l`: ` Total`, the number of files, the total size, the ratio, the
archive's time -/
theorem footer_l (now : Nat) (s : Stats) :
    printFooters (columnsFor false false) now s =
      str " Total    " ++ str " " ++ numFilesFooter s.numFiles ++ str " " ++ sizeField s.length ++
      str " " ++ ratioFooter s.compressedLength s.length ++ str " " ++
      outputTimestamp now s.timestamp ++ str "\n" := by
  have hn : footerColumnCount normalColumns = 5 := by decide
  show printFooters normalColumns now s = _
  simp only [printFooters, hn]
  simp [printFooters.go, normalColumns, runFooter, permissionCol, uidGidCol, sizeCol, ratioCol,
    timestampCol, nameCol]

/-- `"%5i files"` of a count that is not 1 and fits an `int` -/
theorem numFilesFooter_plural (n : Nat) (h1 : n ≠ 1) (h2 : n < 2147483648) :
    numFilesFooter n = padLeft 5 (dec n) ++ str " files" := by
  unfold numFilesFooter decInt32
  have : n % two32 = n := Nat.mod_eq_of_lt (by unfold two32; omega)
  simp only [h1, if_false, this, h2, if_true]

/-- **`lha l` on the bytes of the archive ends with `Total N files Σsize …`**, N the number of
selected entries, Σsize the sum of their data lengths -/
theorem total_line_l (pk : Packer) (es : List Entry) (hok : ∀ e ∈ es, EntryOk e)
    (henc : Encodable es) (hpk : Packs pk es) (fuel : Nat) (hf : es.length < fuel)
    (quiet now archiveMtime : Nat) (fl : List Bytes) (hq : quiet < 2)
    (hn : (es.filter (selected fl)).length < 2147483648) (hn1 : (es.filter (selected fl)).length ≠ 1)
    (hl : ((es.filter (selected fl)).map dataLen).sum < two32)
    (hc : ((es.filter (selected fl)).map (packedLen pk)).sum < two32) :
    ∃ hs, Driver.allHeaders fuel (toolReader (archiveWith pk es)) [] = .ok hs ∧
      render false false quiet now archiveMtime (Glob.select fl hs) =
        listHead false false quiet ++
        (es.filter (selected fl)).flatMap (fun e => printColumns (columnsFor false false) now (hdrOf pk e)) ++
        (printListSeparators (columnsFor false false) ++
         (str " Total    " ++ str " " ++
          (padLeft 5 (dec (es.filter (selected fl)).length) ++ str " files") ++ str " " ++
          sizeField ((es.filter (selected fl)).map dataLen).sum ++ str " " ++
          ratioFooter ((es.filter (selected fl)).map (packedLen pk)).sum
            ((es.filter (selected fl)).map dataLen).sum ++ str " " ++
          outputTimestamp now (archiveMtime % two32) ++ str "\n")) := by
  obtain ⟨hs, h1, _, _, h3⟩ := listing_archiveWith pk es hok henc hpk fuel hf false false quiet now
    archiveMtime fl
  refine ⟨hs, h1, ?_⟩
  rw [h3, listing_totals_exact pk archiveMtime _ (by unfold two32; omega) hl hc]
  unfold listTail
  rw [if_pos hq, footer_l, numFilesFooter_plural _ hn1 hn]

end LhasaV.PrintList
