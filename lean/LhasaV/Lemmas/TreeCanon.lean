import LhasaV.Lemmas.TreeCanon3
/-!
Canonical-code correctness of `tree_decode.c` (model `LhasaV.Tree`):

for every COMPLETE code-length table (`Spec.Canon.complete`), `build_tree`
builds – whatever the table held before – the decoding tree of the canonical
prefix code `Spec.Canon.word`: `read_from_tree` on an input that starts with the
code word of a used symbol `i` returns `i` and consumes exactly that word.
The builder writes nothing outside the table (`buildTree_complete_no_oob`).
-/
namespace LhasaV.Tree

open LhasaV.Spec in
/-- the state `build_tree` ends in, for a complete table -/
theorem buildLoop_complete (lb : Nat) (t : Array Nat) (treeLen : Nat) (lens : List Nat)
    (hlb : 2 * lens.length ≤ lb)
    (hcomplete : Canon.complete lens = true)
    (hbyte : ∀ l ∈ lens, l < 256)
    (hlen : 2 * lens.length ≤ treeLen) (hsize : treeLen ≤ t.size) :
    LInv lb lens (Canon.maxLen lens)
        (buildLoop lb lens 256 0 { tree := t, treeLen := treeLen, alloc := 1, next := 0 }) ∧
      (buildLoop lb lens 256 0 { tree := t, treeLen := treeLen, alloc := 1, next := 0 }).tree.size
        = t.size := by
  obtain ⟨hpos, hS⟩ := (complete_iff lens).mp hcomplete
  have hex := maxLen_mem lens hpos
  have hne : 1 ≤ lens.length := List.length_pos_of_mem hex
  have hb256 := hbyte _ hex
  apply buildLoop_canon lb lens (Canon.maxLen lens) (le_maxLen lens) hex
    (fun L hL => kraft_prefix lens _ (by omega) L hL) (2 * lens.length) hlb (by omega)
    (fun L hL => by have := room_level lens _ hS L (by omega); omega)
    t.size 256 0 _ rfl hlen hpos (by omega)
  exact linv_zero lb lens t treeLen (by omega) hsize

open LhasaV.Spec in
/-- the canonical slot path of a used symbol ends in its leaf -/
theorem buildTree_path (lb : Nat) (t : Array Nat) (treeLen : Nat) (lens : List Nat)
    (hlb : 2 * lens.length ≤ lb)
    (hcomplete : Canon.complete lens = true)
    (hbyte : ∀ l ∈ lens, l < 256)
    (hlen : 2 * lens.length ≤ treeLen) (hsize : treeLen ≤ t.size)
    (i : Nat) (hi : i < lens.length) (hli : 1 ≤ lens.getD i 0) :
    ∃ m s, slotAt lb (buildTree lb t treeLen lens).1 m (Canon.word lens i) 0 = some s ∧
      (buildTree lb t treeLen lens).1[s]? = some (i + lb) := by
  obtain ⟨hinv, _⟩ := buildLoop_complete lb t treeLen lens hlb hcomplete hbyte hlen hsize
  have hl : lens.getD i 0 ≤ Canon.maxLen lens := by
    apply le_maxLen
    rw [getD_eq_getElem lens i hi]; exact List.getElem_mem hi
  obtain ⟨s, _, hp, hleaf⟩ := hinv.hleaf i hi hli hl
  exact ⟨_, s, hp, hleaf⟩

open LhasaV.Spec in
/-- `walkFrom` from the root entry with any fuel larger than the code length -/
theorem walkFrom_canonical (lb : Nat) (t : Array Nat) (treeLen : Nat) (lens : List Nat)
    (hlb : 2 * lens.length ≤ lb)
    (hcomplete : Canon.complete lens = true)
    (hbyte : ∀ l ∈ lens, l < 256)
    (hlen : 2 * lens.length ≤ treeLen) (hsize : treeLen ≤ t.size)
    (i : Nat) (hi : i < lens.length) (hli : 1 ≤ lens.getD i 0)
    (r : Bits) (hinv : Bits.Inv r) (rest : List Bool)
    (hs : Bits.stream r = Canon.word lens i ++ rest)
    (fuel : Nat) (hfuel : lens.getD i 0 < fuel) :
    ∃ c0 r', (buildTree lb t treeLen lens).1[0]? = some c0 ∧
      walkFrom lb (buildTree lb t treeLen lens).1 fuel c0 r = .ok (some i, r') ∧
      Bits.Inv r' ∧ Bits.stream r' = rest := by
  obtain ⟨m, s, hp, hleaf⟩ := buildTree_path lb t treeLen lens hlb hcomplete hbyte hlen hsize i hi hli
  obtain ⟨c0, hc0⟩ := slotAt_start lb _ m _ 0 s _ hp hleaf
  obtain ⟨r', h1, h2, h3⟩ := walkFrom_of_slotAt lb _ m _ rest 0 s i fuel c0 r hinv hs hp hc0 hleaf
    (by show (Canon.bitsOf _ _).length < fuel; rw [bitsOf_length]; exact hfuel)
  exact ⟨c0, r', hc0, h1, h2, h3⟩

open LhasaV.Spec in
/-- CANONICAL-CODE CORRECTNESS of `build_tree` + `read_from_tree`: for a complete
length table that fits the table, reading the canonical code word of any used
symbol `i` from the freshly built tree returns `i` and leaves the rest of the
input untouched – whatever the tree held before. -/
theorem readFromTree_canonical (lb : Nat) (t : Array Nat) (treeLen : Nat) (lens : List Nat)
    (hlb : 2 * lens.length ≤ lb)
    (hcomplete : Canon.complete lens = true)
    (hbyte : ∀ l ∈ lens, l < 256)
    (hlen : 2 * lens.length ≤ treeLen) (hsize : treeLen ≤ t.size)
    (i : Nat) (hi : i < lens.length) (hli : 1 ≤ lens.getD i 0)
    (r : Bits) (hinv : Bits.Inv r) (rest : List Bool)
    (hs : Bits.stream r = Canon.word lens i ++ rest) :
    ∃ r', readFromTree lb (buildTree lb t treeLen lens).1 r = .ok (some i, r') ∧
      Bits.Inv r' ∧ Bits.stream r' = rest := by
  have hfuel : lens.getD i 0 < r.bits + 8 * r.src.remaining + 1 := by
    have h1 := Bits.length_stream r
    rw [hs, List.length_append] at h1
    have h2 : (Canon.word lens i).length = lens.getD i 0 := bitsOf_length _ _
    omega
  obtain ⟨c0, r', hc0, h1, h2, h3⟩ := walkFrom_canonical lb t treeLen lens hlb hcomplete hbyte hlen
    hsize i hi hli r hinv rest hs _ hfuel
  refine ⟨r', ?_, h2, h3⟩
  unfold readFromTree
  rw [hc0]
  exact h1

open LhasaV.Spec in
/-- for a complete table `build_tree` writes nothing outside the table -/
theorem buildTree_complete_no_oob (lb : Nat) (t : Array Nat) (treeLen : Nat) (lens : List Nat)
    (hlb : 2 * lens.length ≤ lb) (hcomplete : Canon.complete lens = true) (hbyte : ∀ l ∈ lens, l < 256)
    (hlen : 2 * lens.length ≤ treeLen) (hsize : treeLen ≤ t.size) :
    (buildTree lb t treeLen lens).2 = false ∧ (buildTree lb t treeLen lens).1.size = t.size := by
  obtain ⟨hinv, hsz⟩ := buildLoop_complete lb t treeLen lens hlb hcomplete hbyte hlen hsize
  exact ⟨hinv.hoob, hsz⟩

/-- `set_tree_single`: the one-symbol tree decodes to that symbol without reading input -/
theorem readFromTree_single (lb : Nat) (t : Array Nat) (c : Nat) (hc : c < lb) (ht : 0 < t.size) (r : Bits) :
    readFromTree lb (setSingle lb t (c : Int)) r = .ok (some c, r) := by
  have h0 : (setSingle lb t (c : Int))[0]? = some (c + lb) := by
    unfold setSingle
    rw [setSingle_leaf lb c hc, Array.getElem?_setIfInBounds, if_pos rfl, if_pos ht]
  unfold readFromTree
  rw [h0]
  show walkFrom lb _ (r.bits + 8 * r.src.remaining + 1) (c + lb) r = _
  rw [walkFrom_leaf lb _ _ (c + lb) r (by omega)]
  congr 3; omega

/-! ### non-vacuity: a concrete complete table over a dirty table -/

section Example
open LhasaV.Spec

/-- `[2,2,2,3,3]` is complete; its canonical code is 00 01 10 110 111 -/
example : Canon.complete [2, 2, 2, 3, 3] = true := by decide

example : [0, 1, 2, 3, 4].map (Canon.word [2, 2, 2, 3, 3]) =
    [[false, false], [false, true], [true, false], [true, true, false], [true, true, true]] := by
  decide

/-- the tree `build_tree` makes of it inside a 12-entry table full of garbage (`lb = 16`) -/
example : buildTree 16 (Array.replicate 12 99) 10 [2, 2, 2, 3, 3] =
    (#[1, 3, 5, 16, 17, 18, 7, 19, 20, 99, 99, 99], false) := by decide

/-- reading the byte `0xDD = 110 111 01` decodes symbol 3 and leaves `11101` -/
example : ∃ r', readFromTree 16 (buildTree 16 (Array.replicate 12 99) 10 [2, 2, 2, 3, 3]).1
      { src := { data := #[0xDD] } } = .ok (some 3, r') ∧
      Bits.Inv r' ∧ Bits.stream r' = [true, true, true, false, true] :=
  readFromTree_canonical 16 (Array.replicate 12 99) 10 [2, 2, 2, 3, 3] (by decide) (by decide)
    (by decide) (by decide) (by decide) 3 (by decide) (by decide)
    { src := { data := #[0xDD] } } (Bits.inv_init _ rfl (by decide) rfl rfl)
    [true, true, true, false, true] (by rw [Bits.stream_init]; decide)

end Example

end LhasaV.Tree
