import LhasaV.Lemmas.Lh1Mirror4
import LhasaV.Lemmas.Lh1MirrorTab
/-!
# C02, layer 5: the initial trees are mirror images (`lha_lh1_init` vs. `StartHuff`)
-/
namespace LhasaV.Lh1Mirror
open LhasaV LhasaV.Lh1 LhasaV.Spec.Lzhuf LhasaV.Res

/-! ## `StartHuff`, first loop -/

theorem startLeaves_spec (n : Nat) : ∀ (i : Nat) (Fq P S : Array Nat), Fq.size = 628 → P.size = 941 →
    S.size = 627 → i + n ≤ 314 →
    ZWf (startLeaves n i Fq P S) ∧
    (∀ m, zf (startLeaves n i Fq P S) m = if i ≤ m ∧ m < i + n then 1 else Fq.getD m 0) ∧
    (∀ m, zs (startLeaves n i Fq P S) m = if i ≤ m ∧ m < i + n then m + 627 else S.getD m 0) ∧
    (∀ m, zp (startLeaves n i Fq P S) m =
      if i + 627 ≤ m ∧ m < i + 627 + n then m - 627 else P.getD m 0) := by
  induction n with
  | zero =>
    intro i Fq P S hF hP hS _
    refine ⟨⟨hF, hP, hS⟩, ?_, ?_, ?_⟩ <;> intro m <;> simp only [startLeaves, zf, zs, zp] <;>
      rw [if_neg (by omega)]
  | succ n ih =>
    intro i Fq P S hF hP hS hin
    have hT : T = 627 := rfl
    rw [startLeaves, hT]
    obtain ⟨w, a, b, c⟩ := ih (i + 1) (Fq.setIfInBounds i 1) (P.setIfInBounds (i + 627) i)
      (S.setIfInBounds i (i + 627)) (by simp only [Array.size_setIfInBounds]; exact hF)
      (by simp only [Array.size_setIfInBounds]; exact hP) (by simp only [Array.size_setIfInBounds]; exact hS)
      (by omega)
    refine ⟨w, ?_, ?_, ?_⟩
    · intro m
      rw [a, getD_set _ _ _ _ _ (by omega)]
      repeat' split
      all_goals first | omega | rfl
    · intro m
      rw [b, getD_set _ _ _ _ _ (by omega)]
      repeat' split
      all_goals first | omega | rfl
    · intro m
      rw [c, getD_set _ _ _ _ _ (by omega)]
      repeat' split
      all_goals first | omega | rfl

/-! ## `StartHuff`, second loop -/

theorem startInner_spec (n : Nat) : ∀ (i j : Nat) (Fq P S : Array Nat), Fq.size = 628 → P.size = 941 →
    S.size = 627 → i + n < j → j + n ≤ 627 →
    ZWf (startInner n i j Fq P S) ∧
    (∀ m, ¬ (j ≤ m ∧ m < j + n) → zf (startInner n i j Fq P S) m = Fq.getD m 0) ∧
    (∀ m, j ≤ m → m < j + n → zf (startInner n i j Fq P S) m =
      zf (startInner n i j Fq P S) (i + 2 * (m - j)) + zf (startInner n i j Fq P S) (i + 2 * (m - j) + 1)) ∧
    (∀ m, zs (startInner n i j Fq P S) m = if j ≤ m ∧ m < j + n then i + 2 * (m - j) else S.getD m 0) ∧
    (∀ m, zp (startInner n i j Fq P S) m =
      if i ≤ m ∧ m < i + 2 * n then j + (m - i) / 2 else P.getD m 0) := by
  induction n with
  | zero =>
    intro i j Fq P S hF hP hS _ _
    refine ⟨⟨hF, hP, hS⟩, ?_, ?_, ?_, ?_⟩
    · intro m _; rfl
    · intro m h1 h2; omega
    · intro m; simp only [startInner, zs]; rw [if_neg (by omega)]
    · intro m; simp only [startInner, zp]; rw [if_neg (by omega)]
  | succ n ih =>
    intro i j Fq P S hF hP hS hij hjn
    rw [startInner]
    obtain ⟨w, a, r, b, c⟩ := ih (i + 2) (j + 1)
      (Fq.setIfInBounds j (Fq.getD i 0 + Fq.getD (i + 1) 0))
      ((P.setIfInBounds (i + 1) j).setIfInBounds i j) (S.setIfInBounds j i)
      (by simp only [Array.size_setIfInBounds]; exact hF)
      (by simp only [Array.size_setIfInBounds]; exact hP) (by simp only [Array.size_setIfInBounds]; exact hS)
      (by omega) (by omega)
    refine ⟨w, ?_, ?_, ?_, ?_⟩
    · intro m hm
      rw [a m (by omega), getD_set_ne _ _ _ _ _ (by omega)]
    · intro m h1 h2
      by_cases e : m = j
      · subst e
        have e0 : m - m = 0 := by omega
        rw [e0, a m (by omega), a (i + 2 * 0) (by omega), a (i + 2 * 0 + 1) (by omega),
          getD_set _ _ _ _ _ (by omega), if_pos rfl,
          getD_set_ne _ _ _ _ _ (by omega), getD_set_ne _ _ _ _ _ (by omega)]
        simp only [Nat.mul_zero, Nat.add_zero]
      · have := r m (by omega) (by omega)
        have e1 : i + 2 + 2 * (m - (j + 1)) = i + 2 * (m - j) := by omega
        rw [e1] at this
        exact this
    · intro m
      rw [b, getD_set _ _ _ _ _ (by omega)]
      repeat' split
      all_goals first | omega | rfl
    · intro m
      rw [c, getD_set _ _ _ _ _ (by simp only [Array.size_setIfInBounds]; omega),
        getD_set _ _ _ _ _ (by omega)]
      repeat' split
      all_goals first | omega | rfl

/-- the tree `StartHuff` builds -/
structure StartShape (z : TreeState) : Prop where
  wf : ZWf z
  sent : zf z 627 = 65535
  root : zp z 626 = 0
  leafF : ∀ i, i < 314 → zf z i = 1
  leafS : ∀ i, i < 314 → zs z i = i + 627
  leafP : ∀ i, i < 314 → zp z (i + 627) = i
  brS : ∀ m, m < 313 → zs z (314 + m) = 2 * m
  brF : ∀ m, m < 313 → zf z (314 + m) = zf z (2 * m) + zf z (2 * m + 1)
  par : ∀ i, i < 626 → zp z i = 314 + i / 2

/-- `StartHuff` with the loop bounds and array sizes as parameters (so that no defeq check
starts evaluating closed arrays) -/
theorem startShape_of (n1 n2 j0 t r : Nat) (A B C : Array Nat) (hn1 : n1 = 314) (hn2 : n2 = 313)
    (hj0 : j0 = 314) (ht : t = 627) (hr : r = 626)
    (hA : A.size = 628) (hB : B.size = 941) (hC : C.size = 627) :
    StartShape ⟨(startInner n2 0 j0 (startLeaves n1 0 A B C).freq (startLeaves n1 0 A B C).prnt
                  (startLeaves n1 0 A B C).son).freq.setIfInBounds t 65535,
                (startInner n2 0 j0 (startLeaves n1 0 A B C).freq (startLeaves n1 0 A B C).prnt
                  (startLeaves n1 0 A B C).son).prnt.setIfInBounds r 0,
                (startInner n2 0 j0 (startLeaves n1 0 A B C).freq (startLeaves n1 0 A B C).prnt
                  (startLeaves n1 0 A B C).son).son⟩ := by
  obtain ⟨w1, a1, b1, c1⟩ := startLeaves_spec n1 0 A B C hA hB hC (by omega)
  generalize startLeaves n1 0 A B C = z1 at w1 a1 b1 c1 ⊢
  obtain ⟨w2, a2, r2, b2, c2⟩ := startInner_spec n2 0 j0 z1.freq z1.prnt z1.son w1.freq w1.prnt w1.son
    (by omega) (by omega)
  generalize startInner n2 0 j0 z1.freq z1.prnt z1.son = z2 at w2 a2 r2 b2 c2 ⊢
  subst hn1 hn2 hj0 ht hr
  have hzf : ∀ m, zf ⟨z2.freq.setIfInBounds 627 65535, z2.prnt.setIfInBounds 626 0, z2.son⟩ m =
      if m = 627 then 65535 else zf z2 m := by
    intro m; simp only [zf]; exact getD_set _ _ _ _ _ (by rw [w2.freq]; omega)
  have hzp : ∀ m, zp ⟨z2.freq.setIfInBounds 627 65535, z2.prnt.setIfInBounds 626 0, z2.son⟩ m =
      if m = 626 then 0 else zp z2 m := by
    intro m; simp only [zp]; exact getD_set _ _ _ _ _ (by rw [w2.prnt]; omega)
  have hzs : ∀ m, zs ⟨z2.freq.setIfInBounds 627 65535, z2.prnt.setIfInBounds 626 0, z2.son⟩ m = zs z2 m :=
    fun _ => rfl
  have f1 : ∀ m, zf z1 m = z1.freq.getD m 0 := fun _ => rfl
  have s1 : ∀ m, zs z1 m = z1.son.getD m 0 := fun _ => rfl
  have p1 : ∀ m, zp z1 m = z1.prnt.getD m 0 := fun _ => rfl
  refine ⟨⟨?_, ?_, w2.son⟩, ?_, ?_, ?_, ?_, ?_, ?_, ?_, ?_⟩
  · simp only [Array.size_setIfInBounds]; exact w2.freq
  · simp only [Array.size_setIfInBounds]; exact w2.prnt
  · rw [hzf, if_pos rfl]
  · rw [hzp, if_pos rfl]
  · intro i hi
    rw [hzf, if_neg (by omega), a2 i (by omega), ← f1, a1, if_pos (by omega)]
  · intro i hi
    rw [hzs, b2, if_neg (by omega), ← s1, b1, if_pos (by omega)]
  · intro i hi
    rw [hzp, if_neg (by omega), c2, if_neg (by omega), ← p1, c1, if_pos (by omega)]
    omega
  · intro m hm
    rw [hzs, b2, if_pos (by omega)]
    omega
  · intro m hm
    rw [hzf, hzf, hzf, if_neg (by omega), if_neg (by omega), if_neg (by omega)]
    have := r2 (314 + m) (by omega) (by omega)
    have e1 : 0 + 2 * (314 + m - 314) = 2 * m := by omega
    rw [e1] at this
    exact this
  · intro i hi
    rw [hzp, if_neg (by omega), c2, if_pos (by omega)]
    omega

theorem startHuff_shape : StartShape startHuff :=
  startShape_of N_CHAR (R + 1 - N_CHAR) N_CHAR T R (Array.replicate (T + 1) 0)
    (Array.replicate (T + N_CHAR) 0) (Array.replicate T 0) rfl rfl rfl rfl rfl
    Array.size_replicate Array.size_replicate Array.size_replicate

/-! ## `lha_lh1_init`: the shape of the initial tree (a copy of `ini_core` that keeps it) -/

theorem ini_core_shape (s : St) (hp : ini_Pre s) (a b c d : Nat) (ha : a = 314) (hb : b = 626)
    (hc : c = 313) (hd : d = 626) :
    ∃ s', ini_run s a b c d = .ok s' ∧ Inv s' ∧ ini_T 0 (lf s') (ch s') (pa s') (fr s') ∧
      (∀ c', c' < 314 → ln s' c' = 626 - c') ∧
      s'.bits = s.bits ∧ s'.ring = s.ring ∧ s'.pos = s.pos ∧
      s'.offsetLookup = d_code ∧ s'.offsetLengths = p_len := by
  unfold ini_run
  rw [allocGroup_ok s (by rw [hp.ng, hp.groups]; omega), ok_bind]
  simp only []
  rw [hp.ng, hp.fgE 0 (by omega)]
  generalize hs0 : ({ s with numGroups := 0 + 1 } : St) = s0
  have h0 : ini_S0 s0 := by
    subst hs0
    exact ⟨hp.nodes, hp.leafNodes, hp.groups, hp.groupLeader, hp.fgE⟩
  have hs0ng : s0.numGroups = 1 := by subst hs0; rfl
  have hs0f : ini_Frame s s0 := by subst hs0; exact ⟨rfl, rfl, rfl, rfl, rfl, rfl, rfl, rfl, rfl⟩
  obtain ⟨s1, e1, hf, hng, hnd, hln, hgl⟩ := ini_leaves a 0 b s0 h0.nodes h0.leafNodes h0.groupLeader
    (by omega) (by omega) (by omega)
  rw [e1, ok_bind]
  rw [ha, hb] at hnd hln hgl
  have hBI : ini_BI s0 313 s1 := by
    refine ini_start hf (hng.trans hs0ng) ?_ ?_ ?_
    · intro j h1 h2; rw [hnd j, if_pos (by omega)]; simp
    · intro c' hc'; rw [hln c', if_pos (by omega)]
    · rw [hgl 0, if_pos (by omega)]
  obtain ⟨t, e2, hI⟩ := ini_loop h0 c s1 (by omega) (by rw [hc]; exact hBI)
  have hd' : d = 2 * c := by omega
  rw [hd', e2, ok_bind, ini_offTab_eq, hI.frame.olk, hI.frame.oln, hs0f.olk, hs0f.oln, hp.olk, hp.oln]
  have hchk := ini_chk
  have hoff := offChk_true
  generalize ini_offTab (Array.replicate 256 0) (Array.replicate 64 0) = r at hchk hoff
  match r, hchk, hoff with
  | .ok (a', b'), hchk, hoff =>
    simp only [ini_chkO, Bool.and_eq_true, beq_iff_eq, List.all_eq_true, List.mem_range,
      decide_eq_true_eq] at hchk
    simp only [offChk, Bool.and_eq_true, beq_iff_eq] at hoff
    obtain ⟨⟨⟨ha1, hb1⟩, ha2⟩, hb2⟩ := hchk
    refine ⟨_, rfl, ⟨?_, ?_, ?_⟩, hI.tree, hI.lnE,
      (hI.frame.bits.trans hs0f.bits), (hI.frame.ring.trans hs0f.ring),
      (hI.frame.pos.trans hs0f.pos), hoff.1, hoff.2⟩
    · exact
        { nodes := by show t.nodes.size = 627; rw [hI.frame.nodes]; exact h0.nodes
          leafNodes := by show t.leafNodes.size = 314; rw [hI.frame.leafNodes]; exact h0.leafNodes
          groups := by show t.groups.size = 627; rw [hI.frame.groups]; exact h0.groups
          groupLeader := by show t.groupLeader.size = 627; rw [hI.frame.groupLeader]; exact h0.groupLeader
          ring := by show t.ring.size = 4096; rw [hI.frame.ring, hs0f.ring]; exact hp.ring
          pos := by show t.pos < 4096; rw [hI.frame.pos, hs0f.pos]; exact hp.pos
          bits := by show t.bits.WF; rw [hI.frame.bits, hs0f.bits]; exact hp.bits
          olk := ha1, oln := hb1, olk_lt := ha2, oln_le := hb2 }
    · exact ini_tree_final hI.tree hI.lnE
    · refine ini_grp_final hI.grp hI.tree.srt ?_
      intro j hj
      have e : fg t j = fg s0 j := by simp only [fg]; rw [hI.frame.groups]
      show fg t j = j
      rw [e]; exact h0.fgE j hj

theorem init_shape (src : Src) :
    ∃ s, init src = .ok s ∧ Inv s ∧ ini_T 0 (lf s) (ch s) (pa s) (fr s) ∧
      (∀ c, c < 314 → ln s c = 626 - c) ∧
      s.bits = { src := src } ∧ s.ring = Array.replicate Gen.lh1RingCap 0x20 ∧ s.pos = 0 ∧
      s.offsetLookup = d_code ∧ s.offsetLengths = p_len := by
  rw [ini_init_run]
  obtain ⟨s, h1, h2, h3, h4, h5, h6, h7, h8, h9⟩ :=
    ini_core_shape (ini_pre src) (ini_Pre_pre src) _ _ _ _ rfl rfl rfl rfl
  exact ⟨s, h1, h2, h3, h4, h5.trans (ini_pre_bits src), h6.trans (ini_pre_ring src),
    h7.trans (ini_pre_pos src), h8, h9⟩

/-! ## the two initial trees are mirror images -/

theorem mirF_of_shapes {lf : Nat → Bool} {ch pa fr ln : Nat → Nat} {z : TreeState}
    (h : ini_T 0 lf ch pa fr) (hln : ∀ c, c < 314 → ln c = 626 - c) (hz : StartShape z) :
    MirF lf ch pa fr ln (zf z) (zp z) (zs z) 0 := by
  have hfreq : ∀ n i, i ≤ n → i < 627 → zf z i = fr (626 - i) := by
    intro n
    induction n with
    | zero =>
      intro i hi _
      obtain rfl : i = 0 := by omega
      rw [hz.leafF 0 (by omega), (h.leaf 626 (by omega) (by omega)).2.2]
    | succ n ih =>
      intro i hi hi'
      by_cases hlt : i < 314
      · rw [hz.leafF i hlt, (h.leaf (626 - i) (by omega) (by omega)).2.2]
      · obtain ⟨m, rfl⟩ : ∃ m, i = 314 + m := ⟨i - 314, by omega⟩
        rw [hz.brF m (by omega), ih (2 * m) (by omega) (by omega), ih (2 * m + 1) (by omega) (by omega)]
        have hb := (h.brn (626 - (314 + m)) (by omega) (by omega)).2.2
        rw [hb]
        have e1 : 2 * (626 - (314 + m)) + 2 = 626 - 2 * m := by omega
        have e2 : 2 * (626 - (314 + m)) + 1 = 626 - (2 * m + 1) := by omega
        rw [e1, e2]
  have hlfF : ∀ j, j < 627 → lf j = true → 313 ≤ j := by
    intro j hj hl
    apply Classical.byContradiction; intro hn
    have := (h.brn j (by omega) (by omega)).1
    rw [hl] at this; cases this
  have hlfT : ∀ j, j < 627 → lf j = false → j < 313 := by
    intro j hj hl
    apply Classical.byContradiction; intro hn
    have := (h.leaf j (by omega) hj).1
    rw [hl] at this; cases this
  refine ⟨?_, hz.sent, ?_, ?_, ?_, hz.root, ?_⟩
  · intro j hj
    rw [hfreq (626 - j) (626 - j) (Nat.le_refl _) (by omega)]
    have e : 626 - (626 - j) = j := by omega
    rw [e]
    split <;> rfl
  · intro j hj hl
    have h3 := hlfF j hj hl
    rw [hz.leafS (626 - j) (by omega), (h.leaf j h3 hj).2.1]
  · intro j hj hl
    have h3 := hlfT j hj hl
    have e : 626 - j = 314 + (312 - j) := by omega
    rw [e, hz.brS (312 - j) (by omega), (h.brn j (by omega) h3).2.1]
    omega
  · intro j h1 hj
    rw [hz.par (626 - j) (by omega), h.par j (by omega) hj]
    omega
  · intro c hc
    rw [hz.leafP c hc, hln c hc]
    omega

/-- **Initial states.**  `lha_lh1_init` succeeds, establishes the decoder invariant, and its tree is
the mirror image of `StartHuff`'s. -/
theorem mirror_init (src : Src) :
    ∃ s, Lh1.init src = .ok s ∧ Lh1.Inv s ∧ Mirror s startHuff := by
  obtain ⟨s, e, hi, ht, hln, _⟩ := init_shape src
  exact ⟨s, e, hi, startHuff_shape.wf, mirF_of_shapes ht hln startHuff_shape⟩

end LhasaV.Lh1Mirror
