import LhasaV.Spec.HeaderEnc
/-! The layout constants of `Spec.HeaderEnc` against the constants extracted from the source. -/
namespace LhasaV.HeaderLayout
open LhasaV LhasaV.Header LhasaV.Spec.HeaderEnc

theorem layout_matches_source :
    (∀ t, t < 256 → knownMin t = lookupExt t) ∧
    Gen.flagUnixPerms = 1 ∧ Gen.flagUnixUidGid = 2 ∧ Gen.flagCommonCrc = 4 ∧ Gen.flagWindowsTimestamps = 8 ∧
    Gen.flagOs9Perms = 16 ∧ Gen.commonHeaderLen = 22 ∧ Gen.level0MinHeaderLen = 22 ∧ Gen.level1MinHeaderLen = 25 ∧
    Gen.level2HeaderLen = 26 ∧ Gen.level3HeaderLen = 32 ∧ Gen.level3MaxHeaderLen = 1048576 ∧
    Gen.level0UnixExtendedLen = 12 ∧ Gen.level0Os9ExtendedLen = 22 := by
  refine ⟨?_, by decide⟩
  decide +kernel

end LhasaV.HeaderLayout
