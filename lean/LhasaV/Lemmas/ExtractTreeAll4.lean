import LhasaV.Lemmas.ExtractTreeAll3
/-!
# C06, all deviations together (part 4): the loop invariant; the place of the next selected entry

* `PreAtU fs₀ ds e` (decidable): what stands at the place of a selected entry before the run —
  nothing at any directory above it nor at its own place, or (for a regular file member directly
  below the base) a regular file.
* `CoreInvU` / `LoopInvU`: `done` = entries WRITTEN so far, `stk` = open directory entries,
  `seen` = paths of all selected entries handled so far that were not late (written, or kept on
  the policy's decision), `rest` = entries to come; `pol`, `ls` = overwrite policy in force and
  answer lines not yet read.  `FsPhU`: before the first entry is written the file system is
  untouched (`DIR` may not exist); afterwards `FsInvU` with respect to `mkBase`.
* `entry_facts_u`: for the next selected entry that is not late — `make_parent_directories` runs
  as `ParentsMadeB` says (having made `DIR` first if need be), and the overwrite check sees a
  regular file exactly when one stood there before the run.
-/
namespace LhasaV.ExtractTree
open LhasaV LhasaV.Header LhasaV.Extract LhasaV.GlobFs LhasaV.Contain

def isFileOpt : Option Fs.Ent → Bool
  | some (.file _ _ _) => true
  | _ => false

theorem isFileOpt_iff (x : Option Fs.Ent) : isFileOpt x = true ↔ ∃ d m t, x = some (.file d m t) := by
  cases x with
  | none => simp [isFileOpt]
  | some v => cases v <;> simp [isFileOpt]

/-- what stands at the place of an entry before the run: nothing at any non-empty prefix of its
path, or — for a regular file member directly below the base — a regular file -/
def PreAtU (fs0 : Fs.St) (ds : List Bytes) (e : Entry) : Prop :=
  (∀ j, j < e.path.length → oldB fs0 ds (e.path.take (j + 1)) = none) ∨
  (e.isFile = true ∧ e.path.length = 1 ∧ isFileOpt (oldB fs0 ds e.path) = true)

instance (fs0 : Fs.St) (ds : List Bytes) (e : Entry) : Decidable (PreAtU fs0 ds e) :=
  inferInstanceAs (Decidable (_ ∨ _))

theorem free_of_take {fs0 : Fs.St} {ds : List Bytes} {path : Fs.Path}
    (h : ∀ j, j < path.length → oldB fs0 ds (path.take (j + 1)) = none) :
    ∀ q, q ≠ [] → q <+: path → oldB fs0 ds q = none := by
  intro q hq hp
  have hl : 0 < q.length := List.length_pos_iff.2 hq
  have := h (q.length - 1) (by have := hp.length_le; omega)
  rw [show q.length - 1 + 1 = q.length by omega, ← List.prefix_iff_eq_take.1 hp] at this
  exact this

/-- the static facts about the start state: the user's access, the place of the tree -/
structure BaseRefU (fs0 : Fs.St) (ds : List Bytes) : Prop where
  acc : AccessW fs0
  facts : ∃ k, BaseU fs0 ds k ∧ BaseFactsU fs0 ds k (mkBase fs0 ds)

theorem baseRefU_of {fs0 : Fs.St} {ds : List Bytes} {k : Nat} (hb : BaseU fs0 ds k) (ha : AccessW fs0) :
    BaseRefU fs0 ds := ⟨ha, k, hb, base_factsU hb ha⟩

theorem BaseRefU.params {fs0 : Fs.St} {ds : List Bytes} (h : BaseRefU fs0 ds) :
    SameParams fs0 (mkBase fs0 ds) := by
  obtain ⟨k, _, hf⟩ := h.facts
  exact hf.made.params

theorem BaseRefU.acc1 {fs0 : Fs.St} {ds : List Bytes} (h : BaseRefU fs0 ds) : AccessW (mkBase fs0 ds) :=
  accessW_params h.params h.acc

/-- the file system before (`fs = fs₀`) and after the first written entry -/
def FsPhU (fs0 : Fs.St) (ds : List Bytes) (done : List Entry) (stk : List Fs.Path) (fs : Fs.St) : Prop :=
  (done = [] ∧ stk = [] ∧ fs = fs0) ∨
  (done ≠ [] ∧ FsInvU (mkBase fs0 ds) ((mkBase fs0 ds).cwd ++ ds) done stk fs)

theorem FsPhU.inv {fs0 : Fs.St} {ds : List Bytes} {done : List Entry} {stk : List Fs.Path} {fs : Fs.St}
    (h : FsPhU fs0 ds done stk fs) (hne : done ≠ []) :
    FsInvU (mkBase fs0 ds) ((mkBase fs0 ds).cwd ++ ds) done stk fs := by
  rcases h with ⟨h, _⟩ | ⟨_, h⟩
  · exact absurd h hne
  · exact h

/-- is there an entry to come about which the policy will be asked? (only then the answer stream matters) -/
def Asked (fs0 : Fs.St) (ds : List Bytes) (sel : Entry → Bool) (es : List Entry) : Prop :=
  ∃ e ∈ es, sel e = true ∧ isFileOpt (oldB fs0 ds e.path) = true

instance (fs0 : Fs.St) (ds : List Bytes) (sel : Entry → Bool) (es : List Entry) :
    Decidable (Asked fs0 ds sel es) :=
  inferInstanceAs (Decidable (∃ e ∈ es, sel e = true ∧ isFileOpt (oldB fs0 ds e.path) = true))

theorem Asked.cons {fs0 : Fs.St} {ds : List Bytes} {sel : Entry → Bool} {e : Entry} {es : List Entry}
    (h : Asked fs0 ds sel es) : Asked fs0 ds sel (e :: es) := by
  obtain ⟨x, hx, h⟩ := h
  exact ⟨x, List.mem_cons_of_mem _ hx, h⟩

structure CoreInvU (fs0 : Fs.St) (ds : List Bytes) (sel : Entry → Bool) (done stk : List Entry)
    (seen : List Fs.Path) (rest : List Entry) (pol : Overwrite) (ls : List Bytes) (s : Extract.St) :
    Prop where
  aborted : s.aborted = false
  result : s.result = true
  opts : OptsRel s.opts ds
  filt : ∀ e, selected s.opts.filters e = sel e
  policy : s.opts.overwrite = pol
  ans : Asked fs0 ds sel rest → AnsInv pol s.answers ls
  fs : FsPhU fs0 ds done (stk.map Entry.path) s.fs
  ok : DoneI done stk
  sub : ∀ e ∈ done, e.path ∈ seen
  seld : ∀ e ∈ done, sel e = true
  kept : ∀ p ∈ seen, (∃ e ∈ done, e.path = p) ∨ (p.length = 1 ∧ isFileOpt (oldB fs0 ds p) = true)
  wf : WFU sel (stk.map Entry.path) seen rest
  pre : ∀ e ∈ rest, sel e = true → PreAtU fs0 ds e
  depth : ∀ e ∈ done ++ rest, ds.length + e.path.length < 64

structure LoopInvU (fs0 : Fs.St) (ds : List Bytes) (sel : Entry → Bool) (done stk : List Entry)
    (seen : List Fs.Path) (rest : List Entry) (pol : Overwrite) (ls : List Bytes) (s : Extract.St) :
    Prop where
  core : CoreInvU fs0 ds sel done stk seen rest pol ls s
  rd : RdInv s.rd stk rest

theorem CoreInvU.with_rd {fs0 : Fs.St} {ds : List Bytes} {sel : Entry → Bool} {done stk rest : List Entry}
    {seen : List Fs.Path} {pol : Overwrite} {ls : List Bytes} {s : Extract.St}
    (h : CoreInvU fs0 ds sel done stk seen rest pol ls s) (rd : Reader.St) :
    CoreInvU fs0 ds sel done stk seen rest pol ls { s with rd := rd } :=
  ⟨h.aborted, h.result, h.opts, h.filt, h.policy, h.ans, h.fs, h.ok, h.sub, h.seld, h.kept, h.wf, h.pre, h.depth⟩

theorem CoreInvU.answered {fs0 : Fs.St} {ds : List Bytes} {sel : Entry → Bool} {done stk rest : List Entry}
    {seen : List Fs.Path} {pol : Overwrite} {ls : List Bytes} {s : Extract.St}
    (h : CoreInvU fs0 ds sel done stk seen rest pol ls s) (pol' : Overwrite) (a' : Bytes) (ls' : List Bytes)
    (ha : AnsInv pol' a' ls') : CoreInvU fs0 ds sel done stk seen rest pol' ls' (answered s pol' a') :=
  ⟨h.aborted, h.result, ⟨h.opts.up, h.opts.xp, h.opts.names⟩, h.filt, rfl, fun _ => ha, h.fs, h.ok, h.sub, h.seld,
    h.kept, h.wf, h.pre, h.depth⟩

/-- the selected entries' paths seen so far that are not written are old top-level files: nothing
that could be a directory -/
theorem CoreInvU.late_done {fs0 : Fs.St} {ds : List Bytes} {sel : Entry → Bool} {done stk rest : List Entry}
    {seen : List Fs.Path} {pol : Overwrite} {ls : List Bytes} {s : Extract.St} {e : Entry}
    (hi : CoreInvU fs0 ds sel done stk seen (e :: rest) pol ls s) (hsel : sel e = true)
    (hk : EntryOk e) (hlate : lateDir seen e = true) :
    e.isDir = true ∧ ∃ a ∈ done, e.path <+: a.path := by
  unfold lateDir at hlate
  simp only [Bool.and_eq_true, List.any_eq_true, decide_eq_true_eq] at hlate
  obtain ⟨h1, p, hp, hpp⟩ := hlate
  refine ⟨h1, ?_⟩
  rcases hi.kept p hp with ⟨a, had, rfl⟩ | ⟨hl1, hf⟩
  · exact ⟨a, had, hpp⟩
  · exfalso
    have hep : e.path = p := by
      apply hpp.eq_of_length_le
      have : 0 < e.path.length := List.length_pos_iff.2 hk.ne
      omega
    rcases hi.pre e (by simp) hsel with h | ⟨hfile, _, _⟩
    · have := free_of_take h e.path hk.ne (List.prefix_refl _)
      rw [← hep, this] at hf; cases hf
    · cases e <;> simp [Entry.isFile, Entry.isDir] at hfile h1

/-! ## the place of the next selected entry -/

theorem existsKind_file_top {fs : Fs.St} {ds : List Bytes} {e : Entry} (hw : WalkIn fs ds) (hk : EntryOk e)
    (hn : ∀ c ∈ ds, Name c) (hd : ds.length + e.path.length < 64) (h1 : e.path.length = 1)
    (d0 : Bytes) (m0 t0 : Nat) (hl : Fs.lookup fs (fs.cwd ++ (ds ++ e.path)) = some (.file d0 m0 t0)) :
    Target fs (fullOf (e.reloc ds)) (ds ++ e.path) ∧ Fs.existsKind fs (fullOf (e.reloc ds)) = .file := by
  have pf := pathFacts_rel hk hn hd
  have hg : ∀ x ∈ ds ++ e.path, Good x := by
    have := names_good (entryOk_reloc hk hn hd).names; rwa [reloc_path] at this
  have hwk : Walk fs fs.cwd (ds ++ e.path) := by
    intro pre hp1 hne1
    have := prefix_dropLast pre _ hp1 hne1
    rw [List.dropLast_append_of_ne_nil hk.ne] at this
    have h0 : e.path.dropLast = [] := by
      apply List.eq_nil_of_length_eq_zero; rw [List.length_dropLast]; omega
    rw [h0, List.append_nil] at this
    exact hw pre this
  have hT : Target fs (fullOf (e.reloc ds)) (ds ++ e.path) :=
    ⟨pf.rel, pf.comps, by simp [hk.ne], hg, by rw [List.length_append]; exact hd, hwk⟩
  exact ⟨hT, existsKind_file hT d0 m0 t0 hl⟩

/-- **the next selected entry that is not late**: the state `fsX` in which the base exists (the
current one, or `mkBase` when nothing was written yet), the parents step from there, and what
the overwrite check sees -/
theorem entry_facts_u {fs0 : Fs.St} {ds : List Bytes} {sel : Entry → Bool} {done stk rest : List Entry}
    {seen : List Fs.Path} {pol : Overwrite} {ls : List Bytes} {e : Entry} {s : Extract.St}
    (hi : CoreInvU fs0 ds sel done stk seen (e :: rest) pol ls s) (hb : BaseRefU fs0 ds)
    (hsel : sel e = true) (hk : EntryOk e)
    (hopen : ∀ a ∈ done, a.path <+: e.path → a.path ∈ stk.map Entry.path)
    (hfresh : ∀ a ∈ done, ¬ e.path <+: a.path) :
    ∃ fsX fsY k,
      FsInvU (mkBase fs0 ds) ((mkBase fs0 ds).cwd ++ ds) done (stk.map Entry.path) fsX ∧
      WalkIn fsX ds ∧
      ParentsMadeB (mkBase fs0 ds) ds fsX fsY e.path.dropLast k ∧
      makeParentDirectories s.fs (fullOf (e.reloc ds)) = (true, fsY) ∧
      Fs.lookup fsX ((mkBase fs0 ds).cwd ++ ds ++ e.path) = oldB fs0 ds e.path ∧
      Fs.existsKind s.fs (fullOf (e.reloc ds)) = (if isFileOpt (oldB fs0 ds e.path) then .file else .none) ∧
      (isFileOpt (oldB fs0 ds e.path) = true → fsX = s.fs) := by
  obtain ⟨k0, hbk, hf⟩ := hb.facts
  have hp1 := hb.params
  have hdep := hi.depth e (by simp)
  have hnds := hi.opts.names
  have hpre := hi.pre e (by simp) hsel
  -- the state in which the base exists
  obtain ⟨fsX, hrunX, hX, hwX, halt⟩ : ∃ fsX, mkDirs ds [] s.fs = (true, fsX) ∧
      FsInvU (mkBase fs0 ds) ((mkBase fs0 ds).cwd ++ ds) done (stk.map Entry.path) fsX ∧ WalkIn fsX ds ∧
      (fsX = s.fs ∨ (s.fs = fs0 ∧ ds.drop k0 ≠ [])) := by
    rcases hi.fs with ⟨hd0, hs0, hf0⟩ | ⟨_, hfs⟩
    · obtain ⟨m, t, hl, hacc⟩ := hf.baseDir
      refine ⟨mkBase fs0 ds, by rw [hf0]; exact hf.run, ?_, hf.walk, ?_⟩
      · rw [hd0, hs0]
        exact fsInvU_start _ _ m t (by rw [hp1.cwd]; exact hl) (by rw [hp1.root]; exact hacc)
      · by_cases hdk : ds.drop k0 = []
        · exact Or.inl (by rw [hf0]; exact hf.same hdk)
        · exact Or.inr ⟨hf0, hdk⟩
    · have hw := walkIn_base hfs hf.walk
      exact ⟨s.fs, mkDirs_exist ds [] s.fs (by simpa using hbk.names) (by simpa using hbk.depth)
        (by simpa using hw), hfs, hw, Or.inl rfl⟩
  -- nothing stands above the entry
  have hfree : ∀ q, q ≠ [] → q <+: e.path.dropLast →
      Fs.lookup (mkBase fs0 ds) ((mkBase fs0 ds).cwd ++ ds ++ q) = none := by
    intro q hq hqp
    rw [hp1.cwd, hf.below q hq]
    rcases hpre with h | ⟨_, h1, _⟩
    · exact free_of_take h q hq (hqp.trans (List.dropLast_prefix _))
    · have : e.path.dropLast = [] := by
        apply List.eq_nil_of_length_eq_zero; rw [List.length_dropLast]; omega
      rw [this] at hqp
      exact absurd (List.prefix_nil.1 hqp) hq
  obtain ⟨fsY, k, hpm⟩ := parents_madeU hX hi.ok hb.acc1 hwX hnds e.path hk.ne hk.names hdep
    (fun a had h _ => hopen a had h) hfree
  have hlook : Fs.lookup fsX ((mkBase fs0 ds).cwd ++ ds ++ e.path) = oldB fs0 ds e.path := by
    rw [hX.other e.path hk.ne hfresh, hp1.cwd, hf.below e.path hk.ne]; rfl
  refine ⟨fsX, fsY, k, hX, hwX, hpm, ?_, hlook, ?_, ?_⟩
  · rw [makeParents_rel s.fs ds e hk hnds hdep, hrunX]
    simpa using hpm.run
  · cases hfo : isFileOpt (oldB fs0 ds e.path) with
    | true =>
      simp only [if_true]
      obtain ⟨d0, m0, t0, ho⟩ := (isFileOpt_iff _).1 hfo
      have h1 : e.path.length = 1 := by
        rcases hpre with h | ⟨_, h1, _⟩
        · rw [free_of_take h e.path hk.ne (List.prefix_refl _)] at ho; cases ho
        · exact h1
      have hsame : fsX = s.fs := by
        rcases halt with h | ⟨_, hdk⟩
        · exact h
        · rcases hbk.files e.path hk.ne with hn | ⟨hd0, _⟩
          · have : oldB fs0 ds e.path = none := hn
            rw [this] at ho; cases ho
          · exact absurd hd0 hdk
      rw [← hsame]
      exact (existsKind_file_top hwX hk hnds hdep h1 d0 m0 t0 (by
        rw [hX.params.cwd, ← List.append_assoc, hlook, ho])).2
    | false =>
      simp only [Bool.false_eq_true, if_false]
      have hnone : oldB fs0 ds e.path = none := by
        rcases hpre with h | ⟨_, _, h⟩
        · exact free_of_take h e.path hk.ne (List.prefix_refl _)
        · rw [h] at hfo; cases hfo
      rcases halt with h | ⟨hs0, hdk⟩
      · rw [← h]
        exact existsKind_newU hX.params hwX hk hnds hdep hpm (by rw [hlook, hnone])
      · -- the base does not exist yet: a component of `DIR` is missing
        rw [hs0]
        have hkr := entryOk_reloc hk hnds hdep
        have pf := pathFacts_rel hk hnds hdep
        have hsplit : ds.take k0 ++ ds.drop k0 = ds := List.take_append_drop k0 ds
        have hg : ∀ x ∈ ds ++ e.path, Good x := by
          have := names_good hkr.names; rwa [reloc_path] at this
        have hl : (ds ++ e.path).length < 64 := by rw [List.length_append]; exact hdep
        cases hd : ds.drop k0 with
        | nil => exact absurd hd hdk
        | cons c r =>
          have hcs : ds ++ e.path = ds.take k0 ++ c :: (r ++ e.path) := by
            conv => lhs; rw [← hsplit, hd]
            simp
          exact existsKind_missing fs0 _ (ds.take k0) c (r ++ e.path) pf.rel (by rw [pf.comps, hcs])
            (by rw [← hcs]; exact hg) (by rw [← hcs]; exact hl) hbk.dirs
            (hbk.missing [c] (by simp) (by rw [hd]; simp))
  · intro hfo
    rcases halt with h | ⟨_, hdk⟩
    · exact h
    · exfalso
      obtain ⟨d0, m0, t0, ho⟩ := (isFileOpt_iff _).1 hfo
      rcases hbk.files e.path hk.ne with hn | ⟨hd0, _⟩
      · have : oldB fs0 ds e.path = none := hn
        rw [this] at ho; cases ho
      · exact absurd hd0 hdk

end LhasaV.ExtractTree
