import LhasaV.Lemmas.ReaderAlloc11
/-!
# Allocation-aware reader: non-vacuity, evaluated at build time

A three-member archive (directory `d/` at header level 2 with a path and a permission extended
header; file `d/a`, `-lh0-`, level 1, name in the base header and a path extended header, contents
"hi"; MacLHA member `m`, `-lh0-`, 3 bytes) and histories on which the `k`-th allocation really
fails inside header parsing, inside decoder creation (member decoder and MacBinary pass-through),
inside `extract`'s name construction, and in the `next` that follows a directory push.
The fault-free run of `n;x1;n;x1;n;c;n;n` makes 17 allocations; the C harness
(`harness/ops_reader.c`, `rdr seek eod <k> …`) gives the same results for every `k` (see
`tools/difftest_alloc.py`).
-/
namespace LhasaV.Reader.AllocCheck
open LhasaV LhasaV.Reader LhasaV.Alloc

def archive : Array UInt8 :=
  #[0x24, 0x00, 0x2d, 0x6c, 0x68, 0x64, 0x2d, 0x00, 0x00, 0x00, 0x00, 0x00, 0x00, 0x00, 0x00, 0x00, 0x00, 0x00,
    0x5f, 0x20, 0x02, 0x00, 0x00, 0x55, 0x05, 0x00, 0x02, 0x64, 0xff, 0x05, 0x00, 0x50, 0xed, 0x41, 0x00, 0x00,
    0x1a, 0x6a, 0x2d, 0x6c, 0x68, 0x30, 0x2d, 0x07, 0x00, 0x00, 0x00, 0x02, 0x00, 0x00, 0x00, 0x00, 0x00, 0x21,
    0x28, 0x20, 0x01, 0x01, 0x61, 0xef, 0xee, 0x55, 0x05, 0x00, 0x02, 0x64, 0xff, 0x00, 0x00, 0x68, 0x69,
    0x1a, 0x35, 0x2d, 0x6c, 0x68, 0x30, 0x2d, 0x03, 0x00, 0x00, 0x00, 0x03, 0x00, 0x00, 0x00, 0x00, 0x00, 0x21,
    0x28, 0x20, 0x01, 0x01, 0x6d, 0x22, 0x6a, 0x6d, 0x00, 0x00, 0x78, 0x79, 0x7a, 0x00]

def start : StA := freshA { kind := .seekable, data := archive } .endOfDir Header.dosTimeUTC

/-- what a call returned, as a number: `next` 0 = end of archive, 1 = header from the stream,
2 = re-presented directory / deferred link, 9 = parser fault; `read` = bytes; `check`/`extract` 0/1 -/
def outcome (o : Oracle) (a : StA) : Op → Nat
  | .next => match nextA o a with
    | .ok (none, _) => 0
    | .ok (some _, a') => if a'.s.currType == .normal then 1 else 2
    | .error _ => 9
  | .read k => (readA o a k).1.length
  | .check => if (checkA o a).1.1 then 1 else 0
  | .extract b => if (extractA o a b).1.1 then 1 else 0

def outcomes (o : Oracle) : StA → List Op → List Nat
  | _, [] => []
  | a, op :: ops => outcome o a op :: outcomes o (stepA o a op) ops

/-- (per-call outcomes, blocks left after free, ledger faults, allocations made, failed sites,
ledger decoder count at the end, decoder objects behind `dec` at the end) -/
def row (k : Option Nat) (ops : List Op) : List Nat × Nat × Nat × Nat × List Site × Nat × Nat :=
  let o := Oracle.ofFailAt k
  let a := runA o start ops
  (outcomes o start ops, liveAfterFree a, (freeA a).1.faults.length, a.hp.n, a.hp.failed, a.s.led.decoders, decObjs a.s.dec)

def history : List Op := [.next, .extract true, .next, .extract true, .next, .check, .next, .next]

example : Legal history := by decide

-- fault-free: 17 allocations, dir pushed, file extracted, directory re-presented, Mac member, end
#guard row none history = ([1, 1, 1, 1, 2, 0, 1, 0], 0, 0, 17, [], 0, 0)
-- inside header parsing: the header object of the first member (calloc), its realloc, the path string
#guard row (some 3) history = ([0, 0, 0, 0, 0, 0, 0, 0], 0, 0, 4, [.hdrCalloc], 0, 0)
#guard row (some 4) history = ([0, 0, 0, 0, 0, 0, 0, 0], 0, 0, 5, [.hdrRealloc], 0, 0)
#guard row (some 5) history = ([0, 0, 0, 0, 0, 0, 0, 0], 0, 0, 6, [.extPath], 0, 0)
-- in the `next` after a directory push: the directory is on the stack when the second header cannot be
-- allocated / extended / named; it is handed out again (2), then the archive ends; nothing leaks
#guard row (some 6) history = ([1, 1, 2, 1, 0, 0, 0, 0], 0, 0, 7, [.hdrCalloc], 0, 0)
#guard row (some 7) history = ([1, 1, 2, 1, 0, 0, 0, 0], 0, 0, 8, [.hdrRealloc], 0, 0)
#guard row (some 8) history = ([1, 1, 2, 1, 0, 0, 0, 0], 0, 0, 9, [.l0Filename], 0, 0)
#guard row (some 9) history = ([1, 1, 2, 1, 0, 0, 0, 0], 0, 0, 10, [.hdrRealloc], 0, 0)
-- the path string of `d/a` cannot be duplicated (extended header): since the repair of
-- `decode_extended_headers` this fails the header read like every other allocation failure
-- (before, the member was handed out without its directory part)
#guard row (some 10) history = ([1, 1, 2, 1, 0, 0, 0, 0], 0, 0, 11, [.extPath], 0, 0)
-- inside `extract`: the temporary name, then the decoder
#guard row (some 11) history = ([1, 1, 1, 0, 2, 0, 1, 0], 0, 0, 16, [.extractName], 0, 0)
#guard row (some 12) history = ([1, 1, 1, 0, 2, 0, 1, 0], 0, 0, 17, [.decoder], 0, 0)
-- the third header
#guard row (some 13) history = ([1, 1, 1, 1, 2, 0, 0, 0], 0, 0, 14, [.hdrCalloc], 0, 0)

/-- reads on the members: decoder creation inside `read`, retried by the next `read`
(`reader->decoder` is still NULL); the MacBinary pass-through of the third member -/
def reads : List Op := [.next, .next, .read 1, .read 5, .next, .read 2, .read 2]

example : Legal reads := by decide

#guard row none reads = ([1, 1, 1, 1, 1, 2, 1], 0, 0, 17, [], 2, 2)
-- the decoder of `d/a` cannot be allocated: `read` returns 0, the retry succeeds (C: `-;6869`)
#guard row (some 11) reads = ([1, 1, 0, 2, 1, 2, 1], 0, 0, 18, [.decoder], 2, 2)
-- the inner decoder of the Mac member, then the pass-through object (the inner decoder is freed again)
#guard row (some 15) reads = ([1, 1, 1, 1, 1, 0, 2], 0, 0, 18, [.decoder], 2, 2)
#guard row (some 16) reads = ([1, 1, 1, 1, 1, 0, 2], 0, 0, 19, [.macDecoder], 2, 2)
-- abandoned right after the failed pass-through: no decoder object is left, nothing leaks
#guard row (some 16) (reads.take 6) = ([1, 1, 1, 1, 1, 0], 0, 0, 17, [.macDecoder], 0, 0)

/-- kernel-checked instances (no evaluator in the trusted base): the failure really happens inside
header parsing / decoder creation, and the release theorem's conclusion on these runs -/
example : (runA (Oracle.ofFailAt (some 7)) start [.next, .extract true, .next]).hp.failed = [.hdrRealloc] := by
  decide +kernel
example : (runA (Oracle.ofFailAt (some 7)) start [.next, .extract true, .next]).s.currType = .fakeDir := by
  decide +kernel
example : (runA (Oracle.ofFailAt (some 12)) start [.next, .extract true, .next, .extract true]).hp.failed
    = [.decoder] := by
  decide +kernel

/-- kernel-checked: a failing extended-header string allocation ends the archive -/
example : (runA (Oracle.ofFailAt (some 10)) start [.next, .next]).hp.failed = [.extPath] ∧
    (runA (Oracle.ofFailAt (some 10)) start [.next, .next]).s.currType = .eof := by
  decide +kernel

/-- the three allocations of `lha_reader_new` -/
def newRow (k : Nat) : Bool × Nat × List Site :=
  let r := newA (Oracle.ofFailAt (some k)) { kind := .seekable, data := archive } .endOfDir Header.dosTimeUTC
  (r.1.isSome, r.2.live, r.2.failed)

#guard newRow 0 = (false, 0, [.stream])
#guard newRow 1 = (false, 0, [.reader])
#guard newRow 2 = (false, 0, [.basicReader])
#guard newRow 3 = (true, 3, [])

end LhasaV.Reader.AllocCheck
