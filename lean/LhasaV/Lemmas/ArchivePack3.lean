import LhasaV.Lemmas.ArchivePack2
import LhasaV.Lemmas.PmRT
/-!
# C06, packers from the format specifications (part 3): `-pm2-` members of literals

The `-pm2-` description (`Spec.PmEnc.Stream`) of data bytes `d`: every byte a `.byte` command (its
position in the move-to-front list, coded as class + extra bits); at the first rebuild point a
code table of the 8 byte classes with the fixed length 3 (complete: 8 · 2⁻³ = 1; fewer than 10
codes, so no offset table is ever sent); at every later rebuild point (1024, 2048, 4096,
8192 + 4096k bytes) nothing new (from 4096 on: the flag bit 0).

* `pm2Lit_bits`: the description is well-formed for EVERY data string — `pm2Bits` is `some bits` —
  with `bits.length ≤ 20 + 10 · d.length`;
* `pm2Expand_lit`: its expansion is the data;
* `packOk_pm2Lit`: by `PmRT.pm2_round_trip` (the `Wrap.avail` form of C04 `pm2_decode_serialise`),
  declared length = data length = length of the expansion.
-/
set_option linter.unusedSimpArgs false
namespace LhasaV.ArchivePack
open LhasaV LhasaV.ArchiveOf LhasaV.Spec LhasaV.Spec.PmEnc LhasaV.Spec.Lz77 LhasaV.Spec.LhNewEnc
open LhasaV.ExtractTree.Sample LhasaV.LzRoundTrip

def pm2M : Bytes := [0x2d, 0x70, 0x6d, 0x32, 0x2d]

/-- code lengths of the 8 byte classes -/
def l8 : List Nat := [3, 3, 3, 3, 3, 3, 3, 3]

/-- transmitted with minimum length 3 in 1-bit fields -/
def pm2Spec : CodeSpec := .lens 3 1 l8

/-- the first rebuild point: the code table -/
def pm2Rb0 : Rebuild := { code := some pm2Spec, off := [] }
/-- every later rebuild point: no new table -/
def pm2RbN : Rebuild := { code := none, off := [] }

/-- **the all-literals `-pm2-` description of `d`** (one spare rebuild entry per byte: more than
are ever consumed) -/
def pm2LitStream (d : Bytes) : Stream :=
  { first := false, rebuilds := pm2Rb0 :: List.replicate d.length pm2RbN, cmds := d.map .byte }

theorem pm2Expand_lit (d : Bytes) : pm2Expand (pm2LitStream d) = d := by
  simp only [pm2Expand, pm2LitStream, List.map_map]
  exact expandWin_lits 0x20 d

/-! ## the encoder accepts the description -/

/-- the encoder state after the first rebuild point -/
def pm2St0 (rest : List Rebuild) : EncSt :=
  { code := .lens l8, need := false, off := none, phase := 1, nextAt := 1024, rebuilds := rest }

theorem rebuildBits_first (rest : List Rebuild) :
    rebuildBits { rebuilds := pm2Rb0 :: rest } = some (codeSpecBits pm2Spec, pm2St0 rest) := by
  rfl

theorem length_bits0 : (codeSpecBits pm2Spec).length = 19 := by decide +kernel

/-- invariant of the encoder loop over literals: the class table, no offset table needed, past
the first rebuild point, `k` spare rebuild entries, the move-to-front list holds all 256 bytes -/
structure LitInv (st : EncSt) (k : Nat) : Prop where
  code : st.code = .lens l8
  need : st.need = false
  phase : 1 ≤ st.phase
  rebuilds : st.rebuilds = List.replicate k pm2RbN
  len : st.mtf.length = 256
  all : ∀ b : UInt8, b ∈ st.mtf

theorem all_initOrder (b : UInt8) : b ∈ initOrder := by
  have := PmRT.init_all b.toNat b.toNat_lt
  rwa [UInt8.ofNat_toNat] at this

theorem length_initOrder : initOrder.length = 256 := by decide +kernel

theorem litInv_st0 (k : Nat) : LitInv (pm2St0 (List.replicate k pm2RbN)) k :=
  ⟨rfl, rfl, Nat.le_refl _, rfl, length_initOrder, all_initOrder⟩

/-- every list position below 256 has a class, the class has a 3-bit code word in the table, and
word + extra bits are at most 9 bits -/
theorem class_fact : ∀ k, k < 256 →
    (match classOf pm2ByteClasses k with
     | some (c, _, w) => Table.has (.lens l8) c && decide ((Table.word (.lens l8) c).length + w ≤ 9)
     | none => false) = true := by decide +kernel

/-- a literal is encodable in every state of the invariant, in at most 9 bits -/
theorem cmdBits2_byte (st : EncSt) (k : Nat) (hI : LitInv st k) (b : UInt8) :
    ∃ bits, cmdBits2 st (.byte b) = some (bits, [b]) ∧ bits.length ≤ 9 := by
  have hk : st.mtf.idxOf b < 256 := by
    rw [← hI.len]; exact List.idxOf_lt_length_of_mem (hI.all b)
  have hf := class_fact _ hk
  simp only [cmdBits2, hI.code]
  generalize classOf pm2ByteClasses (st.mtf.idxOf b) = r at hf
  match r, hf with
  | some (c, lo, w), hf =>
    simp only [Bool.and_eq_true, decide_eq_true_eq] at hf
    refine ⟨(Table.lens l8).word c ++ bitsN w (st.mtf.idxOf b - lo), by simp [hf.1], ?_⟩
    rw [List.length_append, length_bitsN]
    exact hf.2

/-- a later rebuild point without a new table: at most one bit -/
theorem rebuildBits_none (st : EncSt) (k : Nat) (hI : LitInv st (k + 1)) :
    ∃ fb st2, fb.length ≤ 1 ∧ rebuildBits st = some (fb, st2) ∧ LitInv st2 k := by
  have hr : st.rebuilds = pm2RbN :: List.replicate k pm2RbN := by rw [hI.rebuilds, List.replicate_succ]
  have h0 : st.phase ≠ 0 := by have := hI.phase; omega
  have hn := hI.need
  refine ⟨if st.phase < 3 then [] else [false],
    { st with phase := st.phase + 1, nextAt := st.nextAt + phaseGap st.phase,
              rebuilds := List.replicate k pm2RbN }, ?_, ?_,
    ⟨hI.code, hI.need, Nat.le_add_left _ _, rfl, hI.len, hI.all⟩⟩
  · split <;> decide
  · unfold rebuildBits
    rw [hr]
    by_cases h3 : st.phase < 3
    · simp [pm2RbN, h0, h3, hn]
    · simp [pm2RbN, h0, h3, hn]

theorem litInv_move {st : EncSt} {k : Nat} (hI : LitInv st k) (b : UInt8) (out : Array UInt8) :
    LitInv { st with out := out, mtf := mtfMoves st.mtf [b] } k :=
  ⟨hI.code, hI.need, hI.phase, hI.rebuilds,
    by show (mtfMove st.mtf b).length = 256; rw [PmRT.mtfMove_length _ _ (hI.all b)]; exact hI.len,
    fun c => PmRT.mtfMove_mem _ _ _ (hI.all c)⟩

/-- **the encoder loop accepts every run of literals**, at most 10 bits per byte -/
theorem encLoop2_lits (cs : Bytes) (st : EncSt) (k : Nat) (hI : LitInv st k) (hk : cs.length ≤ k) :
    ∃ bits, encLoop2 (cs.map .byte) st = some bits ∧ bits.length ≤ 10 * cs.length := by
  induction cs generalizing st k with
  | nil => exact ⟨[], rfl, Nat.le_refl _⟩
  | cons b cs ih =>
    obtain ⟨bits, hb, hbl⟩ := cmdBits2_byte st k hI b
    obtain ⟨k, rfl⟩ : ∃ k', k = k' + 1 := ⟨k - 1, by simp at hk; omega⟩
    have hk' : cs.length ≤ k := by simpa using hk
    have hI1 := litInv_move hI b (st.out ++ [b].toArray)
    rw [List.map_cons, encLoop2, hb]
    simp only []
    split
    · obtain ⟨fb, st2, hfb, hrb, hI2⟩ := rebuildBits_none _ k hI1
      rw [hrb]
      simp only []
      obtain ⟨t, ht, htl⟩ := ih st2 k hI2 hk'
      rw [ht]
      refine ⟨_, rfl, ?_⟩
      simp only [List.length_append, List.length_cons]
      omega
    · obtain ⟨t, ht, htl⟩ := ih _ (k + 1) hI1 (Nat.le_succ_of_le hk')
      rw [ht]
      refine ⟨_, rfl, ?_⟩
      simp only [List.length_append, List.length_cons]
      omega

/-- **the all-literals description is well-formed** (the encoder yields a bit string), and short -/
theorem pm2Lit_bits (d : Bytes) :
    ∃ bits, pm2Bits (pm2LitStream d) = some bits ∧ bits.length ≤ 20 + 10 * d.length := by
  obtain ⟨t, ht, htl⟩ := encLoop2_lits d _ d.length (litInv_st0 d.length) (Nat.le_refl _)
  refine ⟨false :: codeSpecBits pm2Spec ++ t, ?_, ?_⟩
  · simp only [pm2Bits, pm2LitStream, rebuildBits_first, ht, Option.map_some]
  · simp only [List.length_cons, List.length_append, length_bits0]
    omega

/-! ## the packer -/

/-- `-pm2-` members holding the data as literals: the specification's serialiser on the
description (`[]` would stand for "not well-formed", which does not occur: `pm2Lit_bits`) -/
def pm2Lit (l1 : Bool := false) : Packer :=
  { pack := fun data => (pm2M, (pm2Serialise (pm2LitStream data)).getD []), level1 := l1 }

/-- **`-pm2-` members of literals**: every data string shorter than 3 400 000 000 bytes (at most
10 bits per byte) -/
theorem packOk_pm2Lit (l1 : Bool) (data : Bytes) (h : data.length < 3400000000) : PackOk (pm2Lit l1) data := by
  have hn : mname pm2M = "-pm2-" := by decide +kernel
  have hi : (decoderInfo "-pm2-").isSome = true := by decide +kernel
  obtain ⟨info, hi⟩ := Option.isSome_iff_exists.1 hi
  obtain ⟨bits, hb, hbl⟩ := pm2Lit_bits data
  have hpack : (pm2Serialise (pm2LitStream data)).getD [] = packBits bits := by
    simp only [pm2Serialise, hb, Option.map_some, Option.getD_some]
  refine packOk_of_roundtrip pm2M (fun d => (pm2Serialise (pm2LitStream d)).getD []) l1 Pm2.dec info data
    (by decide) (by decide) ?_ (by rw [hn]; rfl) (by rw [hn]; exact hi) ?_
  · show ((pm2Serialise (pm2LitStream data)).getD []).length < 4294901760
    rw [hpack]
    have := length_packBits bits
    omega
  · show Wrap.avail _ data.length (Except.ok (Pm2.init { data := ((pm2Serialise (pm2LitStream data)).getD []).toArray })) = data
    rw [hpack]
    have := PmRT.pm2_round_trip (pm2LitStream data) bits hb data.length 0
      (by rw [pm2Expand_lit]; exact Nat.le_refl _)
    rw [pm2Expand_lit, List.take_length] at this
    exact this

end LhasaV.ArchivePack
