import LhasaV.Lemmas.ExtractTree14
import LhasaV.Spec.HeaderEnc
/-!
# C06 (part 15): a fully checked instance

Real archive bytes — level-2 headers written by the specification's encoder
`Spec.HeaderEnc.encode` — for a two-level tree of read-only directories and a link.  The kernel
runs the model's header parser and reader over these bytes (`decide +kernel` on the executable
check `denotesB`), so every hypothesis of `run_tree` is discharged: the theorem is not vacuous,
and for this archive `Extract.run`, as an ordinary user, ends with exactly the archived tree.
(Members with contents cannot be evaluated by the kernel — the decoders use well-founded
recursion — they are covered by the evaluated checks in `ExtractTreeCheck.lean`.)
-/
namespace LhasaV.ExtractTree.Sample
open LhasaV LhasaV.Extract LhasaV.Contain LhasaV.Spec.HeaderEnc

/-- stored path: components terminated by 0xFF -/
def sp (cs : Fs.Path) : Bytes := (cs.map (fun c => c ++ [0xff])).flatten

def lh0 : Bytes := [0x2d, 0x6c, 0x68, 0x30, 0x2d]
def lhdM : Bytes := [0x2d, 0x6c, 0x68, 0x64, 0x2d]

def permExt : Option Nat → List Ext
  | some p => [.unixPerm p []]
  | none => []

/-- one member (header and data) for an entry -/
def member : Entry → Bytes
  | .dir p perms t =>
    encode { level := 2, method := lhdM, clen := 0, length := 0, time := t, crc := 0, osType := 0x55,
             exts := [.path (sp p)] ++ permExt perms }
  | .file p data perms t =>
    encode { level := 2, method := lh0, clen := data.length, length := data.length, time := t,
             crc := (Crc.buf 0 data).toNat, osType := 0x55,
             exts := [.filename (p.getLast?.getD [])] ++
                     (if p.dropLast = [] then [] else [.path (sp p.dropLast)]) ++ permExt perms } ++ data
  | .link p tg =>
    encode { level := 2, method := lhdM, clen := 0, length := 0, time := 0, crc := 0, osType := 0x55,
             exts := [.filename (p.getLast?.getD [] ++ [0x7c] ++ tg)] ++
                     (if p.dropLast = [] then [] else [.path (sp p.dropLast)]) ++ [.unixPerm 0o120777 []] }

def archiveOf (es : List Entry) : Array UInt8 := (es.map member).flatten.toArray


/-- `a/` (0555, time 111), `a/b/` (0500, time 222), `a/b/l -> y`, `c/` (no permissions recorded) -/
def dirTree : List Entry :=
  [ .dir [[0x61]] (some 0o40555) 111,
    .dir [[0x61], [0x62]] (some 0o40500) 222,
    .link [[0x61], [0x62], [0x6c]] [0x79],
    .dir [[0x63]] none 333 ]

theorem dirTree_wf : WellFormed dirTree := by decide

/-- the archive bytes (irreducible for the elaborator: only the kernel looks inside) -/
@[irreducible] def dirArchive : Array UInt8 := archiveOf dirTree

set_option maxRecDepth 100000 in
/-- the archive bytes denote the tree: the kernel runs the parser and the reader over them -/
theorem dirTree_denotes :
    Denotes (runFuel dirArchive) (runInit dirArchive {} sampleFs []) dirTree :=
  denotesB_sound _ _ _ (by decide +kernel)

theorem sampleFs_empty : EmptyDir sampleFs := by
  refine ⟨⟨0o755, 1000, by decide, Or.inr (by decide)⟩, ?_⟩
  intro p hp
  cases p with
  | nil => exact absurd rfl hp
  | cons c cs => simp [Fs.lookup, sampleFs]

theorem fuel_ok (a : Array UInt8) : 2 * dirTree.length + 1 ≤ runFuel a := by
  show 2 * 4 + 1 ≤ 2 * a.size + 16
  omega

/-- **`lha x` on these bytes, as an ordinary user, reproduces the tree** -/
theorem dirTree_extracts :
    (run dirArchive {} sampleFs []).result = true ∧
    (∀ p, p ≠ [] → Fs.lookup (run dirArchive {} sampleFs []).fs (sampleFs.cwd ++ p) =
      treeOf sampleFs.now sampleFs.umask dirTree p) := by
  have ho : OptsOk ({} : Opts) := ⟨rfl, rfl, rfl⟩
  have h := run_tree dirArchive {} sampleFs [] dirTree ho sampleFs_empty
    (access_user_022 sampleFs rfl) dirTree_wf (fuel_ok dirArchive)
  obtain ⟨h1, h2, _⟩ := h dirTree_denotes
  exact ⟨h1, h2⟩

/-- in particular: the directory `a/b`, created 0700 and written into afterwards, ends read-only
(0500) with its recorded time; `a` (0555) likewise, although `a/b` was created in it -/
theorem dirTree_ab :
    Fs.lookup (run dirArchive {} sampleFs []).fs [[0x72], [0x61], [0x62]] = some (.dir 0o500 222) ∧
    Fs.lookup (run dirArchive {} sampleFs []).fs [[0x72], [0x61]] = some (.dir 0o555 111) ∧
    Fs.lookup (run dirArchive {} sampleFs []).fs [[0x72], [0x61], [0x62], [0x6c]] = some (.link [0x79]) ∧
    Fs.lookup (run dirArchive {} sampleFs []).fs [[0x72], [0x63]] = some (.dir 0o755 333) := by
  have h := dirTree_extracts.2
  have hc : ∀ p : Fs.Path, sampleFs.cwd ++ p = [0x72] :: p := fun _ => rfl
  refine ⟨?_, ?_, ?_, ?_⟩
  · rw [← hc, h _ (by decide)]; decide
  · rw [← hc, h _ (by decide)]; decide
  · rw [← hc, h _ (by decide)]; decide
  · rw [← hc, h _ (by decide)]; decide

end LhasaV.ExtractTree.Sample
