import LhasaV.Model.Ring
import LhasaV.Model.Tree
import LhasaV.Lemmas.Res
/-!
# Honest decoders: a decoder changes its input source only by reading from it

`Src.read` is the only function that sets `dead`, and it does so only when a request crosses the
physical end of a source that is declared longer than it is (`extra > 0`).  `Short s` = "dead, or
declared longer than present".  A decoder is `Honest` when it cannot make its source `Short`.
Shared lemmas for the bit reader (`Bits`) are here; one file per decoder family proves `Honest`.
-/
namespace LhasaV.ReaderIndep
open LhasaV

/-- the source is dead, or is declared longer than what is physically there (the only sources
`Src.read` can ever kill) -/
def Short (s : Src) : Prop := s.dead = true ∨ 0 < s.extra

/-- `b` (later) is `Short` only if `a` (earlier) was -/
def SrcLe (a b : Src) : Prop := Short b → Short a

theorem SrcLe.refl (a : Src) : SrcLe a a := id
theorem SrcLe.trans {a b c : Src} (h1 : SrcLe a b) (h2 : SrcLe b c) : SrcLe a c := fun h => h1 (h2 h)

/-- a decoder that changes its source only by reading from it: it cannot make a source `Short`
(in particular it cannot set `dead` on a source that is complete) -/
structure Honest (d : Dec) : Prop where
  init : ∀ src, Short (d.src (d.init src)) → Short src
  read : ∀ st o st', d.read st = .ok (o, st') → Short (d.src st') → Short (d.src st)

/-- `Src.read` itself is honest -/
theorem src_read_short (s : Src) (req : Nat) (h : Short (s.read req).2) : Short s := by
  unfold Src.read at h
  dsimp only at h
  split at h
  · rename_i hg
    -- the request crossed the physical end: `grant > remaining`, so `extra > 0` (or dead)
    by_cases hd : s.dead = true
    · exact Or.inl hd
    · right
      unfold Src.grant at hg
      simp only [hd, Bool.false_eq_true, if_false] at hg
      split at hg <;> omega
  · split at h
    · exact h
    · exact h

theorem src_read_le (s : Src) (req : Nat) : SrcLe s (s.read req).2 := src_read_short s req

/-! ## the bit reader -/

theorem fill_le (r : Bits) (n : Nat) : SrcLe r.src (r.fill n).2.src := by
  fun_induction Bits.fill r n with
  | case1 r h got hg => exact src_read_le _ _
  | case2 r h got hg p ih => exact (src_read_le _ _).trans ih
  | case3 r h => exact SrcLe.refl _

theorem peek_le (r : Bits) (n : Nat) : SrcLe r.src (r.peek n).2.src := by
  unfold Bits.peek
  split
  · exact SrcLe.refl _
  · dsimp only
    split <;> exact fill_le r n

theorem readBits_le (r : Bits) (n : Nat) : SrcLe r.src (r.readBits n).2.src := by
  unfold Bits.readBits
  dsimp only
  split <;> exact peek_le r n

theorem readBit_le (r : Bits) : SrcLe r.src r.readBit.2.src := readBits_le r 1

/-! ## `Res`-valued steps that thread a bit reader -/

/-- a step `x : Res (α × Bits)` started from `r`: if it returns, the source only moved by reads -/
def StepLe {α : Type} (r : Bits) (x : Res (α × Bits)) : Prop :=
  ∀ a r', x = .ok (a, r') → SrcLe r.src r'.src

theorem walkFrom_le (lb : Nat) (t : Array Nat) : ∀ (fuel code : Nat) (r : Bits),
    StepLe r (Tree.walkFrom lb t fuel code r) := by
  intro fuel
  induction fuel with
  | zero => intro code r a r' e; simp only [Tree.walkFrom, Res.ok.injEq, Prod.mk.injEq] at e; rw [← e.2]; exact SrcLe.refl _
  | succ n ih =>
    intro code r a r' e
    unfold Tree.walkFrom at e
    split at e
    · simp only [Res.ok.injEq, Prod.mk.injEq] at e; rw [← e.2]; exact SrcLe.refl _
    · dsimp only at e
      split at e
      · simp only [Res.ok.injEq, Prod.mk.injEq] at e; rw [← e.2]; exact readBit_le r
      · split at e
        · cases e
        · exact (readBit_le r).trans (ih _ _ a r' e)

theorem readFromTree_le (lb : Nat) (t : Array Nat) (r : Bits) : StepLe r (Tree.readFromTree lb t r) := by
  intro a r' e
  unfold Tree.readFromTree at e
  split at e
  · cases e
  · exact walkFrom_le lb t _ _ r a r' e

end LhasaV.ReaderIndep
